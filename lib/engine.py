"""Generic check engine: build -> TLC (model / generate) -> replay into the implementation -> record
traces from the implementation -> TLC trace validation -> evidence.  Per-property plans live in checks/."""
import json, os, sys, time, shutil, random, collections
import vlib
from vlib import Infra, log


_ALIAS_EVENTS = None
def alias_events():
    """action names of spec/api/Aliasing.tla"""
    global _ALIAS_EVENTS
    if _ALIAS_EVENTS is None:
        import re
        txt = open(os.path.join(vlib.VERIF, "spec/api/Aliasing.tla")).read()
        txt = re.sub(r"\(\*.*?\*\)", "", txt, flags=re.S)
        _ALIAS_EVENTS = {n: int(k) for n, k in re.findall(r'<<\s*"([A-Za-z0-9_]+)"\s*,\s*(\d+)\s*>>', txt)}
    return _ALIAS_EVENTS

_STATIC_EVENTS = None
def static_events():
    """action names of spec/api/StaticCtx.tla (the specification's list of calls enabled on secp256k1_context_static)"""
    global _STATIC_EVENTS
    if _STATIC_EVENTS is None:
        import re
        txt = open(os.path.join(vlib.VERIF, "spec/api/StaticCtx.tla")).read()
        txt = re.sub(r"\\\*.*", "", txt)
        _STATIC_EVENTS = set(re.findall(r'"([A-Za-z0-9_]+)"', txt))
    return _STATIC_EVENTS

class Check:
    def __init__(self, pid, tier, seed):
        self.pid, self.tier, self.seed = pid, tier, seed
        if os.environ.get("VERIF_NO_EVIDENCE"):      # development sweeps (other seeds) must not overwrite the committed evidence
            self.no_evidence = True
        self.out = "%s/out/%s" % (vlib.VERIF, pid)
        # one run per property at a time (a second run would wipe the first one's scratch directory): wait for the lock
        import fcntl
        os.makedirs(vlib.VERIF + "/out", exist_ok=True)
        self._lock = open("%s/out/.lock_%s" % (vlib.VERIF, pid), "w")
        fcntl.flock(self._lock, fcntl.LOCK_EX)
        shutil.rmtree(self.out, ignore_errors=True)
        os.makedirs(self.out, exist_ok=True)
        self.t0 = time.time()
        self.states = 0
        self.transitions = 0
        self.evaluations = 0
        self.traces_validated = 0
        self.case_labels = collections.Counter()
        self.samples = []
        self.violations = []      # dicts with 'what', 'replay'
        self.known_hits = []
        self.notes = []
        self.tlc_runs = []
        self.exhaustive = False
        self.bins = {}
        self.groups = ["ecdsa", "schnorr", "keys"]
        self.env = {"VERIF_SEED": str(seed % 2000000000), "VERIF_THOROUGH": "1" if tier == "thorough" else "0"}
        self.known = vlib.load_known_findings()

    # ---- building -------------------------------------------------------------------------
    def build(self, variants, groups=None):
        """compile the harness variants (only the op groups this check needs) from /repo's working tree"""
        groups = groups or self.groups
        self.bins.update(vlib.build_many(sorted(set(variants)), self.out + "/bin", groups))

    # ---- TLC ------------------------------------------------------------------------------
    def tlc(self, module, cfg, env=None, timeout=1500, workers=16, extra=(), simulate=None, heap="12g", expect_ok=True):
        e = dict(self.env)
        if env:
            e.update(env)
        r = vlib.tlc(module, cfg, self.out, env=e, timeout=timeout, workers=workers, extra=extra, simulate=simulate, heap=heap)
        self.tlc_runs.append({"module": module, "cfg": cfg, "states": r.distinct, "transitions": r.generated, "wall_s": round(r.wall, 1), "ok": r.ok})
        self.states += r.distinct
        self.transitions += r.generated
        if expect_ok and not r.ok and not r.invariant_violated:
            raise Infra("TLC failed on %s/%s:\n%s" % (module, cfg, r.tail(40)))
        return r

    def model(self, module, cfg, **kw):
        """design-level model check: a violated invariant here is a defect of the specification itself
        (independent of /repo) -> infrastructure error, not a property violation"""
        r = self.tlc(module, cfg, **kw)
        if not r.ok:
            raise Infra("design-level model %s/%s does not hold:\n%s" % (module, cfg, r.tail(60)))
        log("[%s] model %s %s: %d states, %d transitions, %.1fs" % (self.pid, module, cfg, r.distinct, r.generated, r.wall))
        return r

    def generate(self, module, cfg, name, **kw):
        """G: TLC enumerates call records with specified results into out/<id>/<name>.ndjson"""
        path = "%s/%s.ndjson" % (self.out, name)
        if os.path.exists(path):
            os.remove(path)
        env = dict(kw.pop("env", {}) or {})
        env["GEN_OUT"] = path
        r = self.tlc(module, cfg, env=env, **kw)
        if not r.ok:
            raise Infra("generation model %s/%s failed (design-level invariant or evaluation error):\n%s" % (module, cfg, r.tail(60)))
        recs = vlib.dedup(vlib.read_ndjson(path))
        log("[%s] generated %s: %d records (%d states, %.1fs)" % (self.pid, name, len(recs), r.distinct, r.wall))
        return recs

    # ---- replay (G, X) --------------------------------------------------------------------
    def replay(self, recs, variant, name, label=None, soft=None, soft_trace=None, env=None, stateful=None):
        """execute specified records on the implementation, compare every specified output.
        soft = {action: [fields]}: outputs whose derivation is implementation-defined (the specification transcribes it to be
        able to predict bytes, but the property does not promise those bytes).  If ONLY soft fields differ, the observed event is
        not a violation by itself: it is handed to TLC (soft_trace = (module, cfg)) whose trace machine judges the property's
        post-condition on the observed output."""
        if not recs:
            raise Infra("no records to replay for " + name)
        obs, rc, err = vlib.harness(self.bins[variant], recs, env=env)
        if rc != 0 or len(obs) != len(recs):
            # a crash of the harness on a generated input: find the record
            idx = len(obs)
            self.violation("implementation crashed or aborted (rc=%s) on record %d of %s [%s]: %s" % (rc, idx, name, variant, err.strip()[-300:]),
                           recs[max(0, idx - 3): idx + 1], variant)
            return
        bad = vlib.compare(recs, obs)
        if soft and bad:
            hard, softies = [], []
            for b in bad:
                sf = set(soft.get(b["e"], []))
                (softies if set(b["diff"]) <= sf else hard).append(b)
            bad = hard
            if softies:
                self.notes.append("%d %s records: implementation-defined output differs from the transcription; judged by post-condition" % (len(softies), name))
                evs = [{"e": b["e"], "in": b["in"], "out": b["impl_out"]} for b in softies]
                self.validate(evs, soft_trace[0], soft_trace[1], name.replace(" ", "_") + "_soft", variant)
        self.evaluations += len(recs)
        for r in recs:
            self.case_labels[self.label_of(r)] += 1
        if len(self.samples) < 4:
            self.samples.append({"direction": "spec->impl", "variant": variant, "record": self.shorten(recs[len(recs) // 2])})
        if bad and stateful:
            # records form histories that start at a `stateful` (reset) record: a disagreeing call is re-run behind its own history
            for b in bad[:8]:
                i = b["idx"]; st = i
                while st > 0 and recs[st]["e"] != stateful: st -= 1
                seg = recs[st:i + 1]
                again, rc2, _ = vlib.harness(self.bins[variant], seg, env=env)
                if len(again) != len(seg) or vlib.sub_diff(b["spec_out"], again[-1]["out"]):
                    out_seg = [dict(r) for r in seg]
                    out_seg[-1] = {"e": b["e"], "in": b["in"], "out": b["spec_out"], "impl_out": b["impl_out"]}
                    self.violation("%s on build '%s': after a history of %d calls, specification and implementation disagree on %s" % (name, variant, len(seg) - 1, sorted(b["diff"].keys())),
                                   out_seg, variant)
        elif bad:
            # must reproduce on immediate re-run
            again, _, _ = vlib.harness(self.bins[variant], [b for b in bad], env=env)
            for b, o in zip(bad, again):
                if vlib.sub_diff(b["spec_out"], o["out"]):
                    self.violation("%s on build '%s': specification and implementation disagree on %s" % (name, variant, sorted(b["diff"].keys())),
                                   [{"e": b["e"], "in": b["in"], "out": b["spec_out"], "impl_out": b["impl_out"]}], variant)
            if len(again) != len(bad):
                # the isolated re-run died (a crash is a violation of its own): report the first record that was not answered
                b = bad[min(len(again), len(bad) - 1)]
                self.violation("%s on build '%s': specification and implementation disagree on %s, and the implementation crashed when the disagreeing records were re-run"
                               % (name, variant, sorted(b["diff"].keys())), [{"e": b["e"], "in": b["in"], "out": b["spec_out"], "impl_out": b["impl_out"]}], variant)
        log("[%s] replay %s on %s: %d records, %d disagreements" % (self.pid, name, variant, len(recs), len(bad)))
        # the pinned configuration once more on a context whose SHA-256 compression function was replaced by a correct one
        # (C20: results are a function of the arguments only); cheap: only the harness runs again
        if variant == "std" and env is None and getattr(self, "auto_custom_sha", True) and len(recs) <= 300000 and not self.violations:
            self.replay(recs, variant, name + " [replaced SHA-256 compression]", soft=soft, soft_trace=soft_trace, env={"VH_CUSTOM_SHA": "1"}, stateful=stateful)
        # ... and, for the actions the specification lists as enabled on the static context (spec/api/StaticCtx.tla), once more
        # on a copy of secp256k1_context_static: same arguments, same results, no callback
        if variant == "std" and env is None and not self.violations:
            if os.environ.get("VERIF_STATIC_DISCOVER"):
                self.static_discover(recs, variant, name)
            else:
                sub = [r for r in recs if r["e"] in static_events()]
                if sub:
                    self.replay(sub, variant, name + " [static context]", soft=soft, soft_trace=soft_trace, env={"VH_STATIC_CTX": "1"})
                # ... and the actions of spec/api/Aliasing.tla with the output buffer aliased to an input buffer (same specified result)
                ae = alias_events()
                sub = [dict(r, **{"in": dict(r.get("in", {}), alias=m)}) for r in recs if r["e"] in ae and "alias" not in r.get("in", {}) for m in range(1, ae[r["e"]] + 1)]
                if sub and not self.violations:
                    self.replay(sub, variant, name + " [output aliased to an input]", soft=soft, soft_trace=soft_trace, env={"VH_NO_EXTRA_PASSES": "1"})

    def static_discover(self, recs, variant, name):
        """development aid (never part of a registered command): which actions give identical results on the static context?"""
        by = collections.defaultdict(list)
        for r in recs:
            by[r["e"]].append(r)
        res = {}
        for e, rs in by.items():
            rs = rs[:400]
            obs, rc, err = vlib.harness(self.bins[variant], rs, env={"VH_STATIC_CTX": "1"})
            if rc != 0 or len(obs) != len(rs):
                res[e] = "crash rc=%s after %d/%d" % (rc, len(obs), len(rs))
            else:
                res[e] = "%d/%d differ" % (len(vlib.compare(rs, obs)), len(rs))
        with open("/tmp/static_discover_%s.txt" % self.pid, "a") as f:
            for e, v in sorted(res.items()):
                f.write("%s %s: %s\n" % (name, e, v))

    @staticmethod
    def label_of(r):
        o = r.get("out", {})
        return "%s/ret=%s" % (r["e"], o.get("ret", o.get("ok", "?")))

    @staticmethod
    def shorten(r):
        s = json.dumps(r, separators=(",", ":"))
        return json.loads(s) if len(s) < 1500 else {"e": r["e"], "truncated": s[:1200]}

    # ---- trace validation (T) -------------------------------------------------------------
    def record(self, inputs, variant):
        """run driver inputs through the implementation, return the recorded events"""
        obs, rc, err = vlib.harness(self.bins[variant], inputs)
        if rc != 0 or len(obs) != len(inputs):
            idx = len(obs)
            self.violation("implementation crashed or aborted (rc=%s) on driver input %d [%s]: %s" % (rc, idx, variant, err.strip()[-300:]),
                           inputs[max(0, idx - 3): idx + 1], variant)
            return obs
        return obs

    def validate(self, events, module, cfg, name, variant="std", timeout=1500):
        """T: TLC validates recorded events against the specification (stateless events: pick/eval machine)"""
        if not events:
            raise Infra("empty trace for " + name)
        path = "%s/%s.trace.ndjson" % (self.out, name)
        vlib.write_ndjson(path, events)
        r = self.tlc(module, cfg, env={"TRACE": path}, extra=("-continue",), timeout=timeout, expect_ok=False)
        self.traces_validated += len(events)
        self.evaluations += len(events)
        for ev in events:
            self.case_labels["T:" + self.label_of(ev)] += 1
        if len(self.samples) < 6:
            self.samples.append({"direction": "impl->spec", "variant": variant, "event": self.shorten(events[len(events) // 3])})
        if r.ok:
            log("[%s] trace %s: %d events accepted (%.1fs)" % (self.pid, name, len(events), r.wall))
            return True
        if not r.invariant_violated:
            raise Infra("trace validation %s could not be evaluated:\n%s" % (name, r.tail(60)))
        import re
        idxs = sorted(set(int(x) for x in re.findall(r"/\\ cur = (\d+)", r.out)))
        # a rejection is reported only if a second validation of the SAME trace repeats it
        bad_events = [events[i - 1] for i in idxs if 1 <= i <= len(events)]
        if bad_events:
            r2 = self.tlc(module, cfg, env={"TRACE": path}, extra=("-continue",), timeout=timeout, expect_ok=False)
            if r2.ok:
                self.notes.append("trace rejection of %s not reproduced on re-validation" % name)
                return True
            idxs2 = set(int(x) for x in re.findall(r"/\\ cur = (\d+)", r2.out))
            bad_events = [events[i - 1] for i in idxs if i in idxs2 and 1 <= i <= len(events)] or bad_events
        for ev in bad_events[:20]:
            self.violation("trace %s: event rejected by the specification" % name, [ev], variant)
        if not bad_events:
            raise Infra("trace %s rejected but no event index found:\n%s" % (name, r.tail(60)))
        log("[%s] trace %s: %d of %d events REJECTED" % (self.pid, name, len(bad_events), len(events)))
        return False

    # ---- violations / known findings ------------------------------------------------------
    def violation(self, what, recs, variant="std"):
        key = vlib.rec_key(recs[-1]) if recs and isinstance(recs[-1], dict) and "e" in recs[-1] else "-"
        for k in self.known:
            if ("property=%s " % self.pid) in k and ("key=" + key) in k:
                self.known_hits.append(k)
                return
        n = len(self.violations) + 1
        if n > 25:      # keep at most 25 replay files; further violations are counted only
            self.violations.append({"what": what, "replay": self.violations[24]["replay"]})
            return
        path = "%s/violation-%d.ndjson" % (self.out, n)
        with open(path, "w") as f:
            f.write(json.dumps({"e": "Build", "variant": variant, "what": what, "key": key}) + "\n")
            for r in recs:
                f.write(json.dumps(r, separators=(",", ":")) + "\n")
        self.violations.append({"what": what, "replay": path})

    # ---- finish ---------------------------------------------------------------------------
    def finish(self, level, rule, assumptions, extra_cov=None):
        cov = {
            "states": max(self.states, 0), "transitions": max(self.transitions, 0),
            "traces_validated_against_impl": self.traces_validated,
            "evaluations": self.evaluations,
            "distinct_nontrivial": len(self.case_labels),
            "rule": rule, "samples": self.samples[:6] or [{"note": "no sample"}],
            "exhaustive": self.exhaustive,
            "case_histogram": dict(self.case_labels.most_common(40)),
            "tlc_runs": self.tlc_runs, "notes": self.notes,
            "trusted_base": ["TLC 1.8.0", "java.math.BigInteger / MessageDigest overrides of BigNat.tla, Sha256.tla (spec/overrides, cross-checked by spec/selftest)",
                             "CommunityModules Json/CSV/IOUtils", "harness/vh_main.c (executes and logs, never judges)"],
        }
        if extra_cov:
            cov.update(extra_cov)
        for k in sorted(set(self.known_hits)):
            print("KNOWN-FINDING: " + k[len("known:"):].strip())
        wall = time.time() - self.t0
        if not getattr(self, "no_evidence", False):      # --replay runs must not overwrite the evidence of the last real run
            vlib.write_evidence(self.pid, self.tier, self.seed, level, cov, wall, len(self.violations), assumptions)
        # keep only violation replay files
        for f in os.listdir(self.out):
            p = os.path.join(self.out, f)
            if not f.startswith("violation-"):
                if os.path.isdir(p):
                    shutil.rmtree(p, ignore_errors=True)
                else:
                    os.remove(p)
        if self.violations:
            for v in self.violations[:25]:
                print("VIOLATION property=%s replay=%s" % (self.pid, v["replay"]))
                print("  " + v["what"])
            return 1
        log("[%s] OK tier=%s states=%d transitions=%d evaluations=%d traces=%d wall=%.1fs" %
            (self.pid, self.tier, self.states, self.transitions, self.evaluations, self.traces_validated, wall))
        return 0
