"""Shared machinery of the verification runner: build, TLC invocation, harness execution,
record comparison, evidence writing.  Everything a registered command needs lives under /verif."""
import json, os, re, shutil, subprocess, sys, time, glob, hashlib

VERIF = "/verif"
REPO = os.environ.get("VH_REPO_DIR", "/repo")
TLA_JAR = "/opt/veriftools/tla/tla2tools.jar"
CM_JAR = "/opt/veriftools/tla/CommunityModules-deps.jar"
CLASSES = VERIF + "/out/classes"


class Infra(Exception):
    """infrastructure problem (exit 2) -- never reported as a violation"""


def log(*a):
    print(*a, flush=True)


def run(cmd, timeout, env=None, cwd=None, stdin=None, stdout=subprocess.PIPE):
    e = dict(os.environ)
    if env:
        e.update({k: str(v) for k, v in env.items()})
    return subprocess.run(cmd, timeout=timeout, env=e, cwd=cwd, stdin=stdin, stdout=stdout,
                          stderr=subprocess.STDOUT, text=True)


def setup_classes():
    """compile the Java overrides (idempotent)"""
    srcs = sorted(glob.glob(VERIF + "/spec/overrides/tlc2/module/*.java"))
    stamp = CLASSES + "/.stamp"
    newest = max(os.path.getmtime(s) for s in srcs)
    if os.path.exists(stamp) and os.path.getmtime(stamp) >= newest:
        return
    os.makedirs(CLASSES, exist_ok=True)
    p = run(["javac", "-cp", TLA_JAR, "-d", CLASSES] + srcs, 300)
    if p.returncode != 0:
        raise Infra("javac failed:\n" + p.stdout)
    open(stamp, "w").write("ok")


def stage_specs(STAGE):
    """flat directory with every spec module and cfg (TLC resolves EXTENDS in the root module's dir)"""
    os.makedirs(STAGE, exist_ok=True)
    for d in ("base", "scheme", "api", "trace", "cfg", "selftest"):
        for f in glob.glob("%s/spec/%s/*" % (VERIF, d)):
            if f.endswith((".tla", ".cfg")):
                dst = os.path.join(STAGE, os.path.basename(f))
                if not os.path.exists(dst) or os.path.getmtime(dst) < os.path.getmtime(f):
                    shutil.copyfile(f, dst)
    return STAGE


TLC_STATS = re.compile(r"(\d+) states generated, (\d+) distinct states found")


class TlcResult:
    def __init__(self, rc, out, wall):
        self.rc, self.out, self.wall = rc, out, wall
        m = TLC_STATS.findall(out)
        self.generated = int(m[-1][0]) if m else 0
        self.distinct = int(m[-1][1]) if m else 0
        self.invariant_violated = ("is violated" in out) or ("Postcondition" in out and "false" in out)
        # with -continue TLC prints violations and still ends with "No error has been found" and rc 0
        self.ok = rc == 0 and "Model checking completed. No error has been found." in out and not self.invariant_violated \
            and "Error:" not in out

    def tail(self, n=40):
        lines = [l for l in self.out.splitlines()
                 if not re.match(r"^(Parsing|Semantic|Linting|Loading) ", l)]
        return "\n".join(lines[-n:])


def tlc(module, cfg, outdir, env=None, workers=16, timeout=900, extra=(), heap="8g", overrides=True, simulate=None):
    setup_classes()
    stage = stage_specs(os.path.join(outdir, 'stage'))
    meta = os.path.join(outdir, "meta_%s_%d" % (os.path.basename(cfg).replace(".cfg", ""), os.getpid()))
    shutil.rmtree(meta, ignore_errors=True)
    os.makedirs(outdir, exist_ok=True)
    cp = ":".join(([CLASSES] if overrides else []) + [TLA_JAR, CM_JAR])
    cmd = ["java", "-Xss512m", "-XX:+UseParallelGC", "-Xmx" + heap, "-cp", cp, "tlc2.TLC",
           "-workers", str(workers), "-noGenerateSpecTE", "-metadir", meta, "-config", os.path.join(stage, cfg)]
    if simulate:
        cmd += ["-simulate", simulate]
    cmd += list(extra) + [os.path.join(stage, module)]
    t0 = time.time()
    try:
        p = run(cmd, timeout, env=env, cwd=stage)
    except subprocess.TimeoutExpired:
        shutil.rmtree(meta, ignore_errors=True)
        raise Infra("TLC timed out after %ds: %s %s" % (timeout, module, cfg))
    shutil.rmtree(meta, ignore_errors=True)
    r = TlcResult(p.returncode, p.stdout, time.time() - t0)
    if "Parsing or semantic analysis failed" in r.out or "Error: TLC threw an unexpected exception" in r.out and not r.invariant_violated:
        pass
    return r


def build(variant, outdir, groups):
    p = run([VERIF + "/harness/build.sh", variant, outdir] + list(groups), 900)
    if p.returncode != 0:
        raise Infra("harness build (%s) failed:\n%s" % (variant, p.stdout[-3000:]))
    return "%s/vh_%s" % (outdir, variant)


def build_many(variants, outdir, groups):
    import concurrent.futures as cf
    with cf.ThreadPoolExecutor(max_workers=8) as ex:
        return dict(zip(variants, ex.map(lambda v: build(v, outdir, groups), variants)))


def harness(binary, records, timeout=7200, env=None):
    """feed call records to the harness, return the observed events (list of dicts)"""
    data = "".join(json.dumps({"e": r["e"], "in": r.get("in", {})}, separators=(",", ":")) + "\n" for r in records)
    e = dict(os.environ)
    if env:
        e.update(env)
    try:
        p = subprocess.run([binary], input=data, timeout=timeout, stdout=subprocess.PIPE, stderr=subprocess.PIPE, text=True, env=e)
    except subprocess.TimeoutExpired:
        raise Infra("harness timed out: " + binary)
    outs = []
    for l in p.stdout.splitlines():
        if not l.startswith("{"):
            continue
        try:
            outs.append(json.loads(l))
        except ValueError:
            if p.returncode == 0:
                raise Infra("harness produced an unparsable line: " + l[:200])
            break           # the process died in the middle of a line: everything before it is valid
    return outs, p.returncode, p.stderr


def read_ndjson(path):
    out = []
    if not os.path.exists(path):
        return out
    with open(path) as f:
        for l in f:
            l = l.strip()
            if l:
                v = json.loads(l)
                if isinstance(v, str):      # TLC's CSVWrite prints the JSON text as a quoted TLA+ string
                    v = json.loads(v)
                out.append(v)
    return out


def write_ndjson(path, recs):
    with open(path, "w") as f:
        for r in recs:
            f.write(json.dumps(r, separators=(",", ":")) + "\n")


def rec_key(r):
    return hashlib.sha256(json.dumps({"e": r["e"], "in": r.get("in", {})}, sort_keys=True).encode()).hexdigest()[:16]


def dedup(recs):
    seen, out = set(), []
    for r in recs:
        k = rec_key(r)
        if k not in seen:
            seen.add(k)
            out.append(r)
    return out


def sub_diff(exp, act):
    """fields of exp that are missing from or different in act"""
    d = {}
    for k, v in exp.items():
        if k not in act or act[k] != v:
            d[k] = {"expected": v, "observed": act.get(k, "<absent>")}
    # the harness logs "ecb" (error-callback calls during the operation) only when non-zero: an error callback that the
    # specification does not announce is a disagreement
    if "ecb" in act and "ecb" not in exp:
        d["ecb"] = {"expected": 0, "observed": act["ecb"]}
    return d


def compare(expected, observed):
    """expected: records with 'out' from the specification; observed: harness events in the same order"""
    bad = []
    if len(expected) != len(observed):
        raise Infra("harness returned %d events for %d records" % (len(observed), len(expected)))
    for i, (x, o) in enumerate(zip(expected, observed)):
        d = sub_diff(x["out"], o["out"])
        if d:
            bad.append({"e": x["e"], "in": x["in"], "diff": d, "spec_out": x["out"], "impl_out": o["out"], "idx": i})
    return bad


def shard(items, n):
    n = max(1, min(n, len(items)))
    return [items[i::n] for i in range(n)]


def load_known_findings():
    path = VERIF + "/known_findings.txt"
    known = []
    if os.path.exists(path):
        for l in open(path):
            l = l.strip()
            if l.startswith("known:"):
                known.append(l)
    return known


def write_evidence(pid, tier, seed, level, coverage, wall, violations, assumptions):
    os.makedirs(VERIF + "/evidence", exist_ok=True)
    ev = {"property_id": pid, "tier": tier, "seed": seed, "level": level, "coverage": coverage,
          "assumptions": assumptions, "wall_s": round(wall, 2), "violations": violations}
    def compact(v):
        return json.dumps(v, separators=(",", ":"))
    with open("%s/evidence/%s.json" % (VERIF, pid), "w") as f:
        f.write("{\n")
        keys = list(ev.keys())
        for i, k in enumerate(keys):
            sep = "," if i + 1 < len(keys) else ""
            if k == "coverage":
                f.write(' "coverage": {\n')
                ck = list(ev[k].keys())
                for j, c in enumerate(ck):
                    f.write('  %s: %s%s\n' % (json.dumps(c), compact(ev[k][c]), "," if j + 1 < len(ck) else ""))
                f.write(" }%s\n" % sep)
            else:
                f.write(" %s: %s%s\n" % (json.dumps(k), compact(ev[k]), sep))
        f.write("}\n")
