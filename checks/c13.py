"""C13 -- a MuSig secret nonce can sign at most once, whatever happens (history property)."""
import json, random, collections, os
import vlib
from vlib import Infra, log
LEVEL = "model_checking"
GROUPS = ["musignonce"]
REPLAY_STATELESS = False
MODULE = "C13_MuSigNonce.tla"
TRACE = ("Trace_C13.tla", "C13_trace.cfg")
REG = dict(category="model_checking",
    text="C13_MuSigNonce.tla models what a client holds (a pool of secnonce objects and session-randomness buffers) and one action per API call and ARGUMENT "
    "CLASS (which argument is NULL / invalid / mismatched: 9 classes of nonce_gen, 5 of nonce_gen_counter, 9 of partial_sign x every keypair incl. the "
    "same-x-opposite-y twin and the same-y endomorphism image). TLC explores every call sequence over the pools (BFS, complete) and checks SingleUse, NoAlias, UsedIsGone, SignOnlyLiveBound. "
    "Every labelled transition of that state graph is replayed through the real API behind its BFS-shortest prefix (transition tour), plus all paths to depth 3 "
    "and seeded random walks; after every call the projection of the concrete state (class/id/bound key of every object, zero-ness of every buffer, return "
    "value, callback count, and which generated nonce a produced signature verifies against) must equal the specified state; the tours run a second time with every "
    "partial_sign issued on a copy of the static context (signing a partial signature needs no generator tables). The repository's own musig tests, "
    "built with the guarded hooks, emit one event per nonce_gen/partial_sign call and TLC validates those traces (WipeAlways, GenFailZero, SingleUse by nonce "
    "identity) at every step.",
    note="Bounded pools (2 objects, 1-2 buffers, 2 keys + twin, 3-4 nonces); byte-copying a live secnonce is outside the API and modelled only as a named "
    "deviation in the trace spec. Trusted: TLC, harness projection, hooks (add-only, guarded).",
    technique="TLC exhaustive bounded model checking of the call-history machine; transition tour of the TLC state graph replayed into the C API; "
    "trace validation of the repository's musig tests (guarded hooks) against the TLA+ trace specification",
    design_ref="DESIGN.md §4 C13")

def apalache_inductive(chk):
    """unbounded histories: the single-use invariants as an inductive invariant (symbolic, Apalache).
    Design level (independent of /repo): an Error is a defect of the specification -> infrastructure error."""
    import shutil, subprocess
    if not shutil.which("apalache-mc"):
        chk.notes.append("apalache-mc not found: inductive-invariant obligations skipped"); return
    stage = vlib.stage_specs(os.path.join(chk.out, "stage"))
    done = 0
    for init, length in (("Init", 0), ("IndInit", 1)):
        try:
            p = vlib.run(["apalache-mc", "check", "--cinit=CInit", "--init=" + init, "--inv=IndInv", "--length=%d" % length,
                          "--out-dir=" + chk.out + "/apalache", "C13_Inductive.tla"], 900, cwd=stage)
        except subprocess.TimeoutExpired:
            chk.notes.append("apalache timed out on obligation %s (not counted)" % init); continue
        if "EXITCODE: OK" in p.stdout: done += 1
        elif "violated" in p.stdout or "EXITCODE: ERROR (12)" in p.stdout:
            raise Infra("C13_Inductive: IndInv is not inductive (obligation %s):\n%s" % (init, p.stdout[-1500:]))
        else:
            chk.notes.append("apalache could not decide obligation %s: %s" % (init, p.stdout[-300:].replace("\n", " ")))
    chk.notes.append("Apalache: %d/2 inductive-invariant obligations discharged (Init => IndInv; IndInv /\\ Next => IndInv') for 3 objects, 2 keys, 8 nonce ids, histories of ANY length" % done)
    log("[C13] Apalache inductive invariant: %d/2 obligations discharged" % done)

def skey(s): return json.dumps(s, sort_keys=True)

def to_record(label, src, dst):
    a, args = label["a"], label["args"]
    nobj, nbuf = len(dst["obj"]), len(dst["rand"])
    out = {"ret": label["ret"], "dup": 0}     # dup: every successful generation yields nonce bytes never handed out before (fresh identities in the model)
    if label["icb"] != 9: out["icb"] = label["icb"]
    for o in range(nobj):
        ob = dst["obj"][str(o)] if isinstance(dst["obj"], dict) else dst["obj"][o]
        out["c%d" % o] = ob["c"]
        out["id%d" % o] = ob.get("id", -1)
        out["key%d" % o] = ob.get("key", -1)
    def rand_of(st, b): return st["rand"][str(b)] if isinstance(st["rand"], dict) else st["rand"][b]
    if a == "FillRand":
        inn = {"b": args[0]}; out["rz%d" % args[0]] = 0
    elif a == "Scribble":
        inn = {"o": args[0]}
    elif a == "NonceGen":
        o, b, k, cls = args
        inn = {"o": o, "b": b, "k": k, "cls": cls, "fresh": 1 if rand_of(src, b) == "fresh" else 0}
        if cls in ("ok", "zero_rand"): out["rz%d" % b] = 1
    elif a == "NonceGenCounter":
        o, k, cls = args; inn = {"o": o, "k": k, "cls": cls}
    elif a == "PartialSign":
        o, k, cls = args; inn = {"o": o, "k": k, "cls": cls}
        so = src["obj"][str(o)] if isinstance(src["obj"], dict) else src["obj"][o]
        out["sigfor"] = so["id"] if label["ret"] == 1 else -1
        out["sigzero"] = 0 if label["ret"] == 1 else 1      # no signature bytes in the output object unless the call succeeded
    else:
        raise Infra("unknown action " + a)
    return {"e": "Mn" + a, "in": inn, "out": out}

def run(chk):
    chk.auto_custom_sha = False      # this check drives its own contexts / tours
    quick = chk.tier == "quick"
    chk.groups = ["musignonce"]
    chk.build(["std"] + ([] if quick else ["verify"]))
    cfg = "C13_model.cfg" if quick else "C13_model_thorough.cfg"
    gpath = chk.out + "/graph.ndjson"
    r = chk.model(MODULE, cfg, env={"GEN_OUT": gpath}, timeout=3000)
    chk.exhaustive = True
    apalache_inductive(chk)
    edges = vlib.read_ndjson(gpath)
    consts = {"nobj": len(edges[0]["src"]["obj"]), "nbuf": len(edges[0]["src"]["rand"]), "nkey": 2}
    # graph
    succ = collections.defaultdict(list); states = {}
    seen_edge = set()
    for e in edges:
        ks, kd = skey(e["src"]), skey(e["dst"])
        states[ks] = e["src"]; states[kd] = e["dst"]
        ek = (ks, skey(e["label"]))
        if ek in seen_edge: continue
        seen_edge.add(ek); succ[ks].append((e["label"], kd))
    init = skey(edges[0]["src"])
    for e in edges:
        if e["src"]["nextId"] == 1 and all((v["c"] == "zero") for v in (e["src"]["obj"].values() if isinstance(e["src"]["obj"], dict) else e["src"]["obj"])) \
           and all(v == "zero" for v in (e["src"]["rand"].values() if isinstance(e["src"]["rand"], dict) else e["src"]["rand"])):
            init = skey(e["src"]); break
    # BFS shortest prefixes
    parent = {init: None}; order = [init]; i = 0
    while i < len(order):
        s = order[i]; i += 1
        for (lab, d) in succ[s]:
            if d not in parent:
                parent[d] = (s, lab); order.append(d)
    def prefix(s):
        p = []
        while parent[s] is not None:
            ps, lab = parent[s]; p.append((ps, lab, s)); s = ps
        return list(reversed(p))
    setup = {"e": "MnSetup", "in": consts, "out": {"ret": 1}}
    tours = []   # each tour: list of (src, label, dst)
    for s in order:
        pre = prefix(s)
        for (lab, d) in succ[s]:
            tours.append(pre + [(s, lab, d)])
    n_trans = len(tours)
    # all paths to depth 3
    def paths(s, depth):
        if depth == 0: return [[]]
        res = []
        for (lab, d) in succ[s]:
            for rest in paths(d, depth - 1): res.append([(s, lab, d)] + rest)
        return res
    if not quick:
        tours += paths(init, 3)
    # seeded random walks of length 50
    rng = random.Random(chk.seed)
    for _ in range(200 if quick else 3000):
        s = init; w = []
        for _ in range(50):
            if not succ[s]: break
            lab, d = rng.choice(succ[s]); w.append((s, lab, d)); s = d
        tours.append(w)
    recs = []
    for t in tours:
        recs.append(setup)
        for (s, lab, d) in t: recs.append(to_record(lab, states[s], states[d]))
    log("[C13] %d states, %d labelled transitions, %d tours, %d API calls to replay" % (len(states), n_trans, len(tours), len(recs)))
    # the same tours once more with every partial_sign issued on a copy of the static context (legal: partial signing needs no generator
    # tables; nonce generation does): the specification makes no distinction, so the expected states are the same
    recs_static = [dict(r, **{"in": dict(r["in"], ctxstatic=1)}) if r["e"] == "MnPartialSign" else r for r in recs]
    for v, recs in ([("std", recs), ("std", recs_static)] if quick else [("std", recs), ("verify", recs), ("std", recs_static)]):
        obs, rc, err = vlib.harness(chk.bins[v], recs, timeout=3000)
        if rc != 0 or len(obs) != len(recs):
            chk.violation("harness crashed during the transition tour (rc=%s): %s" % (rc, err[-300:]), recs[max(0, len(obs) - 5): len(obs) + 1], v)
            continue
        chk.evaluations += len(recs)
        nbad = 0; start = 0
        for i, (x, o) in enumerate(zip(recs, obs)):
            if x["e"] == "MnSetup": start = i
            chk.case_labels["%s/%s/ret=%s" % (x["e"], x["in"].get("cls", "-"), x["out"]["ret"])] += 1
            d = vlib.sub_diff(x["out"], o["out"])
            if d and nbad < 5:
                nbad += 1
                chk.violation("after call %s%s the concrete state differs from the specified state: %s" % (x["e"], json.dumps(x["in"]), json.dumps(d)),
                              [dict(r, impl_out=ob["out"]) for r, ob in zip(recs[start:i + 1], obs[start:i + 1])], v)
        log("[C13] tour on %s: %d calls, %d disagreements" % (v, len(recs), nbad))
    chk.samples.append({"direction": "spec->impl", "tour": [chk.shorten(r) for r in recs[len(recs) // 2: len(recs) // 2 + 4]]})
    if hasattr(chk, "skip_trace"):
        pass
    else:
        import c13_trace
        c13_trace.run(chk)
    return chk.finish(LEVEL,
        "model: complete BFS of C13_MuSigNonce.tla over the bounded pools; G: every labelled transition of that graph replayed behind its shortest prefix, "
        "plus random walks of length 50 (and all paths to depth 3 in the thorough tier); T: events of the repository's musig tests validated by TLC. "
        "distinct_nontrivial counts distinct (API call, argument class, result) triples replayed.",
        ["bounded pools", "memcpy of a live secnonce is not an API call"],
        {"graph_states": len(states), "graph_transitions": n_trans})
