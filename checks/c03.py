"""C03 -- key and signature encodings are strict, canonical and round-trip."""
import random
import vlib
from c01 import b32, edge_scalar, N, P
LEVEL = "model_checking"
MODULE = "C03_Codec.tla"
TRACE = (MODULE, "C03_trace.cfg")
GROUPS = ["codec", "keys"]
REG = dict(category="model_checking",
    text="Der.tla defines the accepted DER language declaratively (a string is accepted iff it equals the encoding SEQUENCE{INTEGER,INTEGER} of two minimal "
    "two's-complement contents; the contents are substrings, so TLC evaluates the existential as written) together with the value map (negative or >= n -> 0), the "
    "serializer and its size negotiation; PubkeyCodec.tla defines the compressed/uncompressed/hybrid/x-only languages as 'there is a curve point with canonical "
    "coordinates of which the string is an encoding'. TLC builds the strings token by token: SEQUENCE/INTEGER tag bytes, 14 length forms (short, off by one, "
    "0x81/0x82/0x84/0x88/0x89 long forms with and without leading zeros, indefinite, 0xFF, missing, cut short), 12 content kinds (minimal, missing/excess 0x00, 0xFF padding, "
    "negative, empty, fixed width, oversize up to 300 octets so that correct long-form lengths occur) x 18 boundary values, trailing bytes inside/outside, missing/extra "
    "INTEGER, every truncation and six byte mutations at every position of base signatures; every prefix byte 0..255 x lengths {0,1,32,33,34,64,65,66} x coordinate "
    "classes for public keys; compact and recoverable-compact scalars around n; DER serialization with every buffer length 0..74; valid signatures with chosen small "
    "s (and the r+n<p family) re-encoded as s+n / r+n whose left-over object must be all zero and fail verification. Design-level theorems checked by TLC on every "
    "generated record: unambiguous grammar, a second left-to-right reader recognises the same language, parse-serialize and serialize-parse identities, hybrid -> "
    "uncompressed, reported size sufficient and necessary. Every record is replayed on the real API; a mutation driver's events recorded from the implementation are decided by TLC.",
    note="Trusted: TLC, BigInteger/MessageDigest overrides, harness interpreter. The structured space is a finite product of descriptors plus seeded random mutations, "
    "not all byte strings. The object left by a failed secp256k1_ec_pubkey_parse is not constrained (the header calls it undefined). contrib/lax_der_parsing.c is not part "
    "of this property (C07).",
    technique="TLA+ spec executed by TLC; spec-generated records replayed into the C API; implementation traces validated by TLC",
    design_ref="DESIGN.md §4 C03")


# ---- input construction for the T direction (inputs only; every verdict is TLC's) -------------------
def der_len(n):
    if n < 128: return [n]
    m = list(n.to_bytes((n.bit_length() + 7) // 8, "big"))
    return [0x80 + len(m)] + m

def der_int(v):
    m = list(v.to_bytes(max(1, (v.bit_length() + 7) // 8), "big"))
    return ([0] + m) if m[0] >= 0x80 else m

def der_sig(r, s):
    body = [2] + der_len(len(der_int(r))) + der_int(r) + [2] + der_len(len(der_int(s))) + der_int(s)
    return [0x30] + der_len(len(body)) + body

def rand_content(rng):
    k = rng.random()
    if k < 0.45: return der_int(edge_scalar(rng))
    if k < 0.55: return der_int(rng.getrandbits(rng.choice([1, 7, 8, 9, 255, 256, 257, 264, 300, 1016, 1024, 2040])))
    if k < 0.65: return [0] * rng.randrange(1, 4) + der_int(edge_scalar(rng))
    if k < 0.75: return [0xFF] * rng.randrange(1, 3) + list(rng.getrandbits(rng.choice([8, 64, 256])).to_bytes(32, "big"))[-rng.randrange(1, 33):]
    if k < 0.8: return []
    if k < 0.9: return list(edge_scalar(rng).to_bytes(32, "big"))
    return [rng.randrange(256) for _ in range(rng.randrange(0, 40))]

def rand_len(rng, n):
    k = rng.random()
    if k < 0.7: return der_len(n)
    if k < 0.76: return [0x81, n % 256]
    if k < 0.8: return [0x82, (n >> 8) % 256, n % 256]
    if k < 0.84: return [(n + rng.choice([1, 255])) % 256]
    if k < 0.87: return [0x80]
    if k < 0.9: return [0xFF]
    if k < 0.93: return [0x80 + rng.randrange(3, 12)] + [0] * rng.randrange(0, 8) + [n % 256]
    if k < 0.96: return [0x83, 0, (n >> 8) % 256, n % 256]
    return [rng.randrange(256)]

def rand_der(rng):
    parts = []
    for _ in range(rng.choice([2, 2, 2, 2, 2, 2, 1, 3, 0])):
        c = rand_content(rng)
        parts += [rng.choice([2] * 12 + [3, 0x82, 0x22, 0])] + rand_len(rng, len(c)) + c
    if rng.random() < 0.07: parts += [rng.randrange(256)]
    b = [rng.choice([0x30] * 15 + [0x31, 0x10, 0])] + rand_len(rng, len(parts)) + parts
    if rng.random() < 0.07: b += [rng.randrange(256)]
    return b

def mutate(rng, b):
    b = list(b)
    for _ in range(rng.choice([1, 1, 1, 2, 3])):
        k = rng.random()
        if not b: b = [rng.randrange(256)]
        elif k < 0.35: b[rng.randrange(len(b))] = rng.choice([0, 0x7F, 0x80, 0xFF, rng.randrange(256)])
        elif k < 0.5: i = rng.randrange(len(b)); b[i] ^= 1 << rng.randrange(8)
        elif k < 0.65: b.insert(rng.randrange(len(b) + 1), rng.choice([0, 0xFF, 2, 0x30, rng.randrange(256)]))
        elif k < 0.8: del b[rng.randrange(len(b))]
        elif k < 0.9: b = b[:rng.randrange(len(b) + 1)]
        else: b += [rng.randrange(256) for _ in range(rng.randrange(1, 4))]
    return b

def driver(chk, n):
    rng = random.Random(chk.seed + 3)
    first = []
    # DER: valid encodings of edge-biased scalars, their mutations, and freely composed TLV strings
    for _ in range(n):
        r, s = edge_scalar(rng), edge_scalar(rng)
        good = der_sig(r, s)
        first.append({"e": "DerParse", "in": {"der": good}})
        first.append({"e": "DerParse", "in": {"der": mutate(rng, good)}})
        first.append({"e": "DerParse", "in": {"der": rand_der(rng)}})
        c = {"e": "CompactParse", "in": {"sig": b32(r) + b32(s)}}
        if rng.random() < 0.3: c["in"]["prev"] = b32(rng.randrange(1, N)) + b32(rng.randrange(1, N))
        first.append(c)
        if rng.random() < 0.3:
            first.append({"e": "RecCompactParse", "in": {"sig": b32(r) + b32(s), "recid": rng.choice([-1, 0, 1, 2, 3, 4, 7, 256])}})
    # public keys: real keys from the implementation, re-encoded and mutated
    keys = chk.record([{"e": "PubkeyCreate", "in": {"key": b32(rng.randrange(1, N))}} for _ in range(max(8, n // 4))], "std")
    full = chk.record([{"e": "PubkeyParse", "in": {"pub": k["out"]["pk"]}} for k in keys], "std")
    for f in full:
        if f["out"].get("ret") != 1: continue
        c33, u65 = f["out"]["ser33"], f["out"]["ser65"]
        y = int.from_bytes(bytes(u65[33:]), "big")
        variants = [c33, u65, [6 + (y & 1)] + u65[1:], [7 - (y & 1)] + u65[1:], [5 - c33[0]] + c33[1:],
                    u65[:33] + b32(P - y), [6 + (y & 1)] + u65[1:33] + b32(P - y), [rng.randrange(256)] + u65[1:], [rng.randrange(256)] + c33[1:],
                    u65[:rng.randrange(66)], u65 + [0], c33 + [0], c33[:1] + b32(edge_scalar(rng)), u65[:1] + b32(edge_scalar(rng)) + u65[33:],
                    u65[:33] + b32(edge_scalar(rng)), mutate(rng, u65), mutate(rng, c33)]
        for v in variants:
            first.append({"e": "PubkeyParse", "in": {"pub": v}})
        first.append({"e": "XonlyParse", "in": {"x": c33[1:]}})
        first.append({"e": "XonlyParse", "in": {"x": b32(edge_scalar(rng))}})
        x2 = list(c33[1:]); x2[rng.randrange(32)] ^= 1 << rng.randrange(8)
        first.append({"e": "XonlyParse", "in": {"x": x2}})
        first.append({"e": "PubkeySerialize", "in": {"pub": rng.choice(variants[:4]), "comp": rng.randrange(2), "cap": rng.choice([0, 32, 33, 34, 64, 65, 66, 100])}})
    ev1 = chk.record(first, "std")
    # second stage: what the implementation produced goes round again
    second = []
    for ev in ev1:
        if ev["e"] == "DerParse" and ev["out"].get("ret") == 1:
            second.append({"e": "DerParse", "in": {"der": ev["out"]["reser"]}})
            second.append({"e": "DerSerialize", "in": {"sig": ev["out"]["sig"], "cap": rng.choice([0, len(ev["out"]["reser"]) - 1, len(ev["out"]["reser"]), len(ev["out"]["reser"]) + 1, rng.randrange(80)])}})
            second.append({"e": "CompactParse", "in": {"sig": ev["out"]["sig"]}})
        elif ev["e"] == "PubkeyParse" and ev["out"].get("ret") == 1 and rng.random() < 0.3:
            second.append({"e": "PubkeyParse", "in": {"pub": ev["out"]["ser65"]}})
    return ev1 + chk.record(second, "std")


def classify(r):
    i, o = r["in"], r.get("out", {})
    if r["e"] == "DerParse":
        d = i["der"]
        lf = "-" if len(d) < 2 else ("s" if d[1] < 0x80 else hex(d[1]))
        return "DerParse/ret=%s/tag=%s/len=%s/n=%d" % (o.get("ret"), d[0] if d else "-", lf, min(len(d) // 16, 9))
    if r["e"] == "PubkeyParse":
        d = i["pub"]
        return "PubkeyParse/ret=%s/len=%d/pre=%s" % (o.get("ret"), len(d), d[0] if d and d[0] in (2, 3, 4, 6, 7) else "other")
    if r["e"] == "DerSerialize":
        return "DerSerialize/ret=%s/need=%s" % (o.get("ret"), o.get("outlen"))
    return "%s/ret=%s%s" % (r["e"], o.get("ret"), "/vret=%s" % o["vret"] if "vret" in o else "")


def run(chk):
    quick = chk.tier == "quick"
    chk.groups = GROUPS
    chk.label_of = classify
    variants = ["std"] + ([] if quick else ["verify", "i64", "i128s", "noasm"])
    chk.build(variants)
    recs = chk.generate(MODULE, "C03_gen.cfg", "gen", timeout=3000)
    for v in variants:
        chk.replay(recs, v, "generated encodings")
    chk.validate(driver(chk, 260 if quick else 4000), MODULE, "C03_trace.cfg", "driver", timeout=3000)
    return chk.finish(LEVEL,
        "G: TLC enumerates Cases of C03_Codec.tla (token-level products of tags, length forms, content kinds, boundary values, trailing bytes, truncations, byte "
        "mutations; every prefix byte x length x coordinate class; buffer lengths 0..74; s+n / r+n re-encodings of valid signatures) with the design-level theorems "
        "as invariants, and every record is executed on the real API; T: seeded mutation-driver events (valid DER + mutations, freely composed TLV strings, re-encoded "
        "real public keys, second-stage round trips of what the implementation produced) decided by TLC against the declarative definitions. distinct_nontrivial "
        "counts distinct (action, result, structural class) labels.",
        ["overrides agree with the TLA+ definitions (spec/selftest)",
         "the object left by a failed ec_pubkey_parse is not constrained (documented as undefined)",
         "strings longer than 65535 octets are outside the generated space"])


def replay(chk, path):
    recs = vlib.read_ndjson(path)
    variant = recs[0].get("variant", "std") if recs and recs[0].get("e") == "Build" else "std"
    recs = [r for r in recs if r.get("e") != "Build"]
    chk.groups = GROUPS
    chk.build([variant])
    ev = chk.record(recs, variant)
    chk.validate(ev, MODULE, "C03_trace.cfg", "replay", variant)
    return chk.finish(LEVEL, "replay of " + path, [])
