"""C12 -- MuSig2 computes BIP-327; honest sessions always yield valid signatures."""
import random, collections
from c01 import b32, N
LEVEL = "model_checking"
MODULE = "C12_Musig.tla"
TRACE = (MODULE, "C12_trace.cfg")
REG = dict(category="model_checking",
    text="Bip327.tla is BIP-327 written from the BIP (KeyAgg with the second-key coefficient, ApplyTweak with gacc/tacc, the NonceGen hash layout, NonceAgg with "
    "infinity, GetSessionValues with R = infinity => G, Sign, PartialSigVerify, PartialSigAgg) plus the module's counter nonce generator and adaptor extension; tagged "
    "hashes are computed from the tag strings. C12_Musig.tla gives every API call an abstract semantics on BIP-327 values; one call record is a whole program of API "
    "steps on numbered object slots. TLC (a) enumerates complete sessions in the order-13 (thorough: 7, 199) test groups over all key pairs incl. duplicates, all nonce "
    "pairs incl. aggregate components cancelling to infinity, all tweak residues incl. invalid ones, all adaptors; (b) runs a multi-signer session machine whose steps "
    "happen in every API-legal order (nonces before/after key aggregation, tweaks interleaved, signers in any order) in the small group and in the real group, with the "
    "invariant that every complete run yields a valid BIP-340 signature for the tweaked aggregate key, own partial signatures verify and foreign ones do not, adapt/extract "
    "are inverse; (c) generates real-group sessions (key lists 1..4, thorough ..16, with duplicates / first key repeated / all equal / +-G; tweak sequences 0..3, thorough "
    "..6, chosen by search so that the parity accumulator flips at every step, plus zero/n-1/n/2^256-1/to-infinity tweaks; last signer's nonce = negated sum of the others "
    "so that the first/second/both aggregate components are infinity; adaptor absent/present/cancelling; both nonce generators with counters 0,1,2^32-1,2^32,2^32+1,2^63,"
    "2^64-1 and every optional-argument combination, with an injectivity invariant on the counter). Every program is executed on the real API and every specified output "
    "(aggregate keys, pubnonces, aggnonces, session values b/R/e, nonce parity, partial signatures, partial_sig_verify verdicts, final signatures, schnorrsig_verify, "
    "adapt/extract) compared byte for byte; random honest and tampered sessions recorded from the implementation are validated by TLC.",
    note="Trusted: TLC, BigInteger/MessageDigest overrides, the harness interpreter (it uses the module's internal secnonce/pubnonce constructors to inject chosen nonces "
    "and the internal session loader to read b, R, e). The placement of the adaptor point in the nonce-coefficient hash and the byte layout of the counter randomness are "
    "not in BIP-327; the spec states what the module documents/does there and the design-level invariants (adapted signature verifies, counters injective) are checked "
    "independently. Secnonce single-use/wiping is C13, not decided here. Real-group inputs are structured pools plus seeded random values; exhaustive only in the small groups.",
    technique="TLA+ spec executed by TLC; spec-generated programs of API calls replayed into the C API; interleaving session machine; implementation traces validated by TLC; exhaustive small-group comparison",
    design_ref="DESIGN.md §4 C12")

CNT_EDGE = [0, 1, 2**32 - 1, 2**32, 2**32 + 1, 2**63, 2**64 - 1]

def labels(recs, hist, prefix=""):
    for r in recs:
        for s, o in zip(r["in"]["steps"], r["out"]["res"]):
            lab = "%s%s/ret=%s" % (prefix, s["op"], o.get("ret", o.get("kret", "-")))
            if "exp" in s: lab += "/demanded"
            if s["op"] == "Process": lab += "/parity=%s%s" % (o.get("parity"), "/adaptor" if "adaptor" in s else "")
            if s["op"] == "NonceAgg" and "aggnonce" in o:
                a = o["aggnonce"]; lab += "/inf=%d%d" % (int(not any(a[:33])), int(not any(a[33:])))
            if s["op"] == "Tweak": lab += "/xonly=%s" % s.get("xonly")
            if s["op"] in ("NonceGen", "NonceGenCtr"): lab += "/args=" + "".join(k[0] for k in ("sk", "msg", "c", "extra") if k in s)
            hist[lab] += 1

def driver(chk, n_sessions):
    """random honest sessions plus tampering; all values chosen here, every result computed by the implementation"""
    rng = random.Random(chk.seed + 12)
    plans = []
    for i in range(n_sessions):
        n = rng.choice([1, 2, 2, 2, 3, 3, 4]) if chk.tier != "quick" else rng.choice([1, 2, 2, 2, 3])
        keys = [rng.randrange(1, N) for _ in range(n)]
        r = rng.random()
        if n >= 2 and r < 0.25: keys[1] = keys[0]                      # first key repeated
        elif n >= 3 and r < 0.35: keys = [keys[0]] * n                 # all equal
        elif n >= 2 and r < 0.45: keys[-1] = N - keys[0]               # same x, other parity
        ad = rng.randrange(1, N) if rng.random() < 0.4 else None
        plans.append((keys, ad))
    want = [k for p in plans for k in p[0]] + [p[1] for p in plans if p[1]]
    pk_of = {}
    evk = chk.record([{"e": "PubkeyCreate", "in": {"key": b32(k)}} for k in want], "std")
    for k, e in zip(want, evk): pk_of[k] = e["out"]["pk"]
    progs = []
    for keys, ad in plans:
        n = len(keys); pks = [pk_of[k] for k in keys]
        msg = b32(rng.getrandbits(256)); steps = []
        agg = [{"op": "KeyAgg", "c": 1, "pks": pks, "want": rng.choice([2, 3, 3])}]
        tws = [{"op": "Tweak", "c": 1, "xonly": rng.randrange(2), "tweak": b32(rng.randrange(0, N) if rng.random() < 0.9 else rng.choice([0, 1, N - 1])), "outpk": rng.randrange(2)}
               for _ in range(rng.choice([0, 0, 1, 1, 2, 3]))]
        order = rng.randrange(3)
        nonces = []
        for i, k in enumerate(keys):
            st = {"n": i + 1}
            if rng.random() < 0.5:
                st.update(op="NonceGen", rand=b32(rng.getrandbits(256) | 1), pk=pks[i])
                if rng.random() < 0.6: st["sk"] = b32(k)
            else:
                c = rng.choice(CNT_EDGE) if rng.random() < 0.5 else rng.getrandbits(64)
                st.update(op="NonceGenCtr", cnt=list(c.to_bytes(8, "big")), sk=b32(k))
            if rng.random() < 0.6: st["msg"] = msg
            if rng.random() < 0.5 and order != 1: st["c"] = 1
            if rng.random() < 0.4: st["extra"] = b32(rng.getrandbits(256))
            nonces.append(st)
        steps = {0: agg + tws + nonces, 1: nonces + agg + tws, 2: agg + nonces + tws}[order]
        proc = {"op": "Process", "s": 1, "a": 1, "msg": msg, "c": 1}
        if ad: proc["adaptor"] = pk_of[ad]
        steps = steps + [{"op": "NonceAgg", "a": 1, "ns": list(range(1, n + 1))}, proc]
        sign_order = list(range(n)); rng.shuffle(sign_order)
        for i in sign_order: steps.append({"op": "Sign", "p": i + 1, "n": i + 1, "sk": b32(keys[i]), "c": 1, "s": 1})
        for i in range(n): steps.append({"op": "PsVerify", "p": i + 1, "n": i + 1, "pk": pks[i], "c": 1, "s": 1, "exp": 1})
        # tampering: mutated partial signature, foreign signer, foreign session
        victim = rng.randrange(n)
        mask = [0] * 32; bit = rng.randrange(8, 256); mask[bit // 8] ^= 0x80 >> (bit % 8)
        steps.append({"op": "PsMut", "p": n + 1, "from": victim + 1, "xor": mask})
        steps.append({"op": "PsVerify", "p": n + 1, "n": victim + 1, "pk": pks[victim], "c": 1, "s": 1, "exp": 0})
        if n >= 2:
            other = (victim + 1) % n
            steps.append({"op": "PsVerify", "p": victim + 1, "n": other + 1, "pk": pks[other], "c": 1, "s": 1, "exp": 0})
        if rng.random() < 0.5:
            p2 = dict(proc); p2["s"] = 2; p2["msg"] = b32(rng.getrandbits(256)); steps.append(p2)
            steps.append({"op": "PsVerify", "p": victim + 1, "n": victim + 1, "pk": pks[victim], "c": 1, "s": 2, "exp": 0})
        steps.append({"op": "SigAgg", "g": 1, "s": 1, "ps": list(range(1, n + 1))})
        if ad:
            steps += [{"op": "Verify", "g": 1, "msg": msg, "c": 1, "exp": 0}, {"op": "Adapt", "g": 2, "pre": 1, "t": b32(ad), "s": 1},
                      {"op": "Verify", "g": 2, "msg": msg, "c": 1, "exp": 1}, {"op": "Extract", "g": 2, "pre": 1, "s": 1, "expt": b32(ad)}]
        else:
            steps.append({"op": "Verify", "g": 1, "msg": msg, "c": 1, "exp": 1})
        if rng.random() < 0.5:
            bad = [n + 1 if j == victim else j + 1 for j in range(n)]
            steps += [{"op": "SigAgg", "g": 3, "s": 1, "ps": bad}, {"op": "Verify", "g": 3, "msg": msg, "c": 1, "exp": 0}]
        progs.append({"e": "MusigProg", "in": {"steps": steps}})
    return chk.record(progs, "std")

def run(chk):
    quick = chk.tier == "quick"
    chk.groups = ["musig", "keys"]
    chk.build(["std", "tiny13"] + ([] if quick else ["tiny7", "tiny199", "verify", "i64", "i128s", "noasm"]))
    hist = collections.Counter()
    # X: complete sessions in the small groups (every key pair / nonce pair / tweak residue / adaptor) and every step order of
    # the session machine; the TLC run is at the same time the design-level model check (InvExp)
    for o in ([13] if quick else [13, 7, 199]):
        recs = chk.generate(MODULE, "C12_tiny%d.cfg" % o, "tiny%d" % o, timeout=3000)
        chk.replay(recs, "tiny%d" % o, "exhaustive sessions + session machine (all step orders), order-%d group" % o); labels(recs, hist, "X:")
    chk.exhaustive = True
    # G: the session machine and the generated sessions in the real group
    recs = chk.generate(MODULE, "C12_gen.cfg", "gen", timeout=6000 if quick else 20000)
    for v in (["std"] if quick else ["std", "verify", "i64", "i128s", "noasm"]):
        chk.replay(recs, v, "generated sessions + session machine (all step orders), real group")
    labels(recs, hist, "G:")
    # T: sessions driven from python, recorded from the implementation, decided by TLC
    events = driver(chk, 16 if quick else 300)
    chk.validate(events, MODULE, "C12_trace.cfg", "driver", timeout=6000)
    labels(events, hist, "T:")
    nsteps = sum(hist.values())
    return chk.finish(LEVEL,
        "One record = one program of MuSig API steps; evaluations counts programs, api_steps counts the individual API calls whose every specified output was compared. "
        "X: all key pairs / nonce pairs / tweak residues / adaptors of the small groups plus every step order of the session machine; G: every step order of a real-group "
        "session plus the generated sessions of Cases (key-list shapes, parity-flipping tweak sequences, aggregate nonces at infinity, adaptors, counters, optional arguments, "
        "parsers); T: python-driven random honest and tampered sessions recorded from the implementation. distinct_nontrivial counts distinct (direction, step, result, "
        "argument-shape) classes.",
        ["overrides BigInteger/MessageDigest agree with the TLA+ definitions (spec/selftest)",
         "small-group builds use scalar_low_impl.h and injected nonces; nonce_gen hashing is decided in the real group only",
         "aggregate key at infinity, zero nonce scalars and session_secrand32 = 0 are specified but not generated",
         "secnonce single-use/wipe (C13) is out of scope"],
        extra_cov={"distinct_nontrivial": len(hist), "case_histogram": dict(hist.most_common(60)), "api_steps": nsteps})

def replay(chk, path):
    """re-execute a violation file on the build it names and let TLC re-decide it (small-group builds need their curve constants)"""
    import vlib
    recs = vlib.read_ndjson(path)
    variant = recs[0].get("variant", "std") if recs and recs[0].get("e") == "Build" else "std"
    recs = [r for r in recs if r.get("e") != "Build"]
    chk.groups = ["musig", "keys"]
    chk.build([variant])
    ev = chk.record(recs, variant)
    chk.validate(ev, MODULE, "C12_trace_%s.cfg" % variant if variant.startswith("tiny") else "C12_trace.cfg", "replay", variant)
    return chk.finish(LEVEL, "replay of " + path, [])
