"""T direction of C13: the repository's own musig tests, built with the guarded hooks, validated by TLC."""
import json, os, subprocess, re
import vlib
from vlib import Infra, log

MODS = ("-DENABLE_MODULE_BPPP=1 -DENABLE_MODULE_ECDH=1 -DENABLE_MODULE_ECDSA_ADAPTOR=1 -DENABLE_MODULE_ECDSA_S2C=1 -DENABLE_MODULE_ELLSWIFT=1 "
        "-DENABLE_MODULE_EXTRAKEYS=1 -DENABLE_MODULE_GENERATOR=1 -DENABLE_MODULE_MUSIG=1 -DENABLE_MODULE_RANGEPROOF=1 -DENABLE_MODULE_SCHNORRSIG=1 "
        "-DENABLE_MODULE_SCHNORRSIG_HALFAGG=1 -DENABLE_MODULE_SURJECTIONPROOF=1 -DENABLE_MODULE_WHITELIST=1").split()

def build_tests(chk):
    repo = vlib.REPO
    exe = chk.out + "/bin/tests_verif"
    os.makedirs(chk.out + "/bin", exist_ok=True)
    cmd = ["gcc", "-O1", "-g", "-DSECP256K1_ZKP_VERIF=1", "-DVERIFY", "-DCOMB_BLOCKS=43", "-DCOMB_TEETH=6", "-DECMULT_WINDOW_SIZE=15",
           "-DUSE_ASM_X86_64=1", "-DSUPPORTS_CONCURRENCY=1"] + MODS + ["-I" + repo, "-I" + repo + "/src", "-I" + repo + "/include",
           "-Wno-unused-function", repo + "/src/tests.c", repo + "/src/precomputed_ecmult.c", repo + "/src/precomputed_ecmult_gen.c", "-o", exe]
    p = vlib.run(cmd, 900)
    if p.returncode != 0:
        raise Infra("building the repository's tests with the hook guard failed:\n" + p.stdout[-2000:])
    return exe

def collect(chk, exe, iterations):
    path = chk.out + "/musig_tests.raw.ndjson"
    if os.path.exists(path): os.remove(path)
    p = vlib.run([exe, "--target=musig", "--iterations=%d" % iterations, "--seed=%032x" % (chk.seed & (2**128 - 1))], 900,
                 env={"SECP256K1_ZKP_VERIF_TRACE": path})
    if p.returncode != 0:
        raise Infra("the repository's musig tests failed under the hook build (not a property verdict):\n" + p.stdout[-1500:])
    # (the context life-cycle hooks write Ctx* events into the same file; they belong to C20)
    evs = [e for e in vlib.read_ndjson(path) if e.get("e") in ("NonceGen", "NonceGenCounter", "PartialSign")]
    # pure renaming: pointers -> small integers by first occurrence; NULL -> object 0 with class 3
    ptr = {}
    for e in evs:
        if e["pre"] == 3: e["o"] = 0
        else: e["o"] = ptr.setdefault(e["obj"], len(ptr))
        del e["obj"]
    return evs, max(1, len(ptr))

def validate(chk, evs, nobj, name):
    tpath = "%s/%s.trace.ndjson" % (chk.out, name)
    vlib.write_ndjson(tpath, evs)
    ngen = sum(1 for e in evs if e["e"].startswith("NonceGen")) + sum(1 for e in evs if e["pre"] == 1) + 2
    stage = vlib.stage_specs(os.path.join(chk.out, "stage"))
    cfg = "C13_trace_%s.cfg" % name
    with open(os.path.join(stage, cfg), "w") as f:
        f.write("CONSTANTS NObj = %d  NBuf = 1  NKey = 1  MaxId = %d\nINIT TInit\nNEXT TNext\nVIEW tview\n"
                "INVARIANT NotAccepted\nINVARIANT SingleUse\nINVARIANT NoAlias\nINVARIANT UsedIsGone\nINVARIANT SignOnlyLiveBound\n"
                "CHECK_DEADLOCK FALSE\n" % (nobj, ngen))
    r = chk.tlc("Trace_C13.tla", cfg, env={"TRACE": tpath}, workers=1, expect_ok=False, timeout=1800)
    chk.traces_validated += 1
    chk.evaluations += len(evs)
    for e in evs:
        chk.case_labels["T:%s/pre=%d/post=%d/ret=%d" % (e["e"], e["pre"], e["post"], e["ret"])] += 1
    if "Invariant NotAccepted is violated" in r.out:
        m = re.findall(r"/\\ dev = (\d+)", r.out)
        log("[C13] trace %s: %d events accepted (memcpy-restore deviations inferred: %s, %.1fs)" % (name, len(evs), m[-1] if m else "?", r.wall))
        return True
    if r.invariant_violated:
        inv = re.findall(r"Invariant (\w+) is violated", r.out)
        lpos = re.findall(r"/\\ l = (\d+)", r.out)
        k = int(lpos[-1]) if lpos else 1
        chk.violation("trace %s: invariant %s violated while explaining event %d" % (name, inv, k), evs[max(0, k - 6): k + 1])
        return False
    if r.ok:
        # no behaviour consumes all events: find the longest matched prefix by bisection on the trace length
        lo, hi = 0, len(evs)
        while lo < hi:
            mid = (lo + hi + 1) // 2
            vlib.write_ndjson(tpath, evs[:mid])
            rr = chk.tlc("Trace_C13.tla", cfg, env={"TRACE": tpath}, workers=1, expect_ok=False, timeout=1800)
            if "Invariant NotAccepted is violated" in rr.out: lo = mid
            else: hi = mid - 1
        chk.violation("trace %s: event %d of the repository's musig tests is not explained by any specification action "
                      "(longest matched prefix %d events): %s" % (name, lo + 1, lo, json.dumps(evs[lo])), evs[max(0, lo - 6): lo + 1])
        return False
    raise Infra("trace validation could not be evaluated:\n" + r.tail(50))

def run(chk):
    exe = build_tests(chk)
    evs, nobj = collect(chk, exe, 4 if chk.tier == "quick" else 64)
    if len(evs) < 50:
        raise Infra("hook trace unexpectedly short (%d events): hooks missing?" % len(evs))
    chk.samples.append({"direction": "impl->spec", "source": "repository musig tests with hooks", "events": evs[:3]})
    validate(chk, evs, nobj, "musig_tests")
