"""Registry of claimed checks -> MANIFEST.json (bin/mkmanifest).  Text fields are the claims."""
CHECKS = {}
NOT_APPLICABLE = {}

def reg(pid, category, text, note, technique, design_ref):
    CHECKS[pid] = dict(category=category, text=text, note=note, technique=technique, design_ref=design_ref)

reg("C01", "model_checking",
    "Ecdsa.tla is an executable TLA+ definition of ECDSA verify / RFC 6979 sign / recover on real 256-bit values. TLC (a) enumerates the order-7/13/199 "
    "test groups completely (every key, message residue, nonce, (r,s) pair incl. overflow encodings) checking completeness/soundness invariants on the spec and "
    "replaying every record into the small-group build of the real code, (b) generates boundary records in the real group (s = (n-1)/2, (n+1)/2, r+n<p family, "
    "messages >= n, invalid keys, failing nonce callbacks, all recovery ids) replayed on the real API, (c) validates traces recorded from the implementation.",
    "Trusted: TLC, BigInteger/MessageDigest overrides (cross-checked against the TLA+ definitions), the harness interpreter. Real-group inputs are a structured "
    "finite pool plus seeded random values, not all 2^256 values; exhaustive only in the small groups (which use scalar_low_impl.h).",
    "TLA+ spec executed by TLC; spec-generated records replayed into the C API; implementation traces validated by TLC; exhaustive small-group comparison",
    "DESIGN.md §4 C01")
