"""Registry of claimed checks -> MANIFEST.json (bin/mkmanifest).  Each checks/cNN.py defines
REG = dict(category=..., text=..., note=..., technique=..., design_ref=...)."""
import glob, importlib, os, sys
sys.path.insert(0, "/verif/lib")
CHECKS = {}
NOT_APPLICABLE = {}
HOOK_COMMITS = []
# only checks the coordinator has integrated and run on the unchanged tree are claimed
ENABLED = set(open(os.path.dirname(__file__) + "/enabled.txt").read().split())
for f in sorted(glob.glob(os.path.dirname(__file__) + "/c[0-9][0-9].py")):
    name = os.path.basename(f)[:-3]
    m = importlib.import_module(name)
    if hasattr(m, "REG") and name.upper() in ENABLED:
        CHECKS[name.upper()] = m.REG
hc = os.path.dirname(__file__) + "/../hook_commits.txt"
if os.path.exists(hc):
    HOOK_COMMITS = [l.strip() for l in open(hc) if l.strip()]
