"""Registry of claimed checks -> MANIFEST.json (bin/mkmanifest).  Each checks/cNN.py defines
REG = dict(category=..., text=..., note=..., technique=..., design_ref=...)."""
import glob, importlib, os, sys
sys.path.insert(0, "/verif/lib")
CHECKS = {}
NOT_APPLICABLE = {}
HOOK_COMMITS = []
# only checks the coordinator has integrated and run on the unchanged tree are claimed
ENABLED = set(open(os.path.dirname(__file__) + "/enabled.txt").read().split())
for name in sorted(ENABLED):
    m = importlib.import_module(name.lower())
    CHECKS[name] = m.REG
hc = os.path.dirname(__file__) + "/../hook_commits.txt"
if os.path.exists(hc):
    HOOK_COMMITS = [l.strip() for l in open(hc) if l.strip()]
