"""C17 -- Schnorr half-aggregation is complete, incremental-consistent and exact."""
import collections, random
from c01 import b32, edge_scalar, N, P
LEVEL = "model_checking"
MODULE = "C17_HalfAgg.tla"
TRACE = (MODULE, "C17_trace.cfg")
REG = dict(category="model_checking",
    text="HalfAgg.tla is the draft half-aggregation BIP as implemented (running tagged hash over (r_i, pk_i, m_i), randomizers z_i with z_0 = 1, "
    "s = sum z_i s_i; verification: length = 32(n+1), every r_i lifts, s < n, s*G = sum z_i (R_i + e_i P_i)), on top of Bip340.tla. A HISTORY machine in "
    "C17_HalfAgg.tla takes a sequence of valid signatures through EVERY composition n = n1 + ... + nk of incremental aggregation steps (TLC explores all "
    "of them: real group n <= 5 quick / 6 thorough, order-13 group over all key/nonce classes for n = 1 (n <= 2 thorough) and pools for n = 2, 3) with the invariants 'every "
    "schedule holds exactly the one-shot aggregate of what it consumed' and 'the complete aggregate verifies'; every transition is replayed as an "
    "inc_aggregate call and every complete composition is executed by the implementation on its own outputs. Real group: n = 0..8 (0..64 thorough), "
    "every output buffer length 0..32(n+2), bit flips (every 16th bit quick, every bit thorough), r_i >= p, off-curve r_i, s >= n literals, lengths not a multiple of 32 and for n+-1, "
    "reordered keys / messages / pairs, one altered signature, wrong key counts. Order-13 (7/199 thorough) group: every aggregate s is re-encoded as "
    "s + 13k (all small k and the largest ones) and the small-group build must reject each; all (r, s, pk) strings for n = 1 and n = 2 over the "
    "subgroup with a scalar-side characterisation of acceptance as design-level invariant. Library-made aggregates are validated as traces.",
    note="Trusted: TLC, overrides, harness. The s >= n clause has no witness with n >= 1 signatures on secp256k1 (decided in the small groups); the real "
    "group has the single witness n = 0, s = group order. inc_aggregate with n_before = 0 and a non-zero buffer is not constrained (the code ignores the "
    "buffer, the draft adds its scalar). Small-group builds use scalar_low_impl.h.",
    technique="TLA+ spec executed by TLC; history machine over all aggregation schedules; spec-generated records replayed into the C API; implementation "
    "traces validated by TLC; exhaustive small-group comparison",
    design_ref="DESIGN.md §4 C17")


def flip(b, bit):
    b = list(b); b[bit // 8] ^= 1 << (bit % 8); return b


def compositions(rng, n):
    parts, left = [], n
    while left > 0:
        k = rng.randint(1, left); parts.append(k); left -= k
    if rng.random() < 0.3: parts.insert(rng.randrange(len(parts) + 1), 0)
    return parts or [0]


def driver(chk, groups):
    rng = random.Random(chk.seed + 17)
    sizes = [rng.choice([0, 1, 1, 2, 2, 2, 3, 3, 4, 6]) for _ in range(groups)]
    signs = []
    for n in sizes:
        for _ in range(n):
            key = rng.randrange(1, N) if rng.random() < 0.85 else rng.choice([1, 2, N - 1, N - 2, (N - 1) // 2])
            rec = {"e": "SchnorrSign", "in": {"key": b32(key), "msg": b32(edge_scalar(rng)), "mode": 0}}
            if rng.random() < 0.5: rec["in"]["aux"] = b32(rng.getrandbits(256))
            signs.append(rec)
    ev_sign = chk.record(signs, "std") if signs else []
    ev_keys = chk.record([{"e": "PubkeyCreate", "in": {"key": s["in"]["key"]}} for s in signs], "std") if signs else []
    # stage 2: the library aggregates (one-shot with random buffer sizes, whole schedules, first part of an incremental run)
    stage2, meta, pos = [], [], 0
    for n in sizes:
        pks = [k["out"]["pk"][1:] for k in ev_keys[pos:pos + n]]
        msgs = [s["in"]["msg"] for s in ev_sign[pos:pos + n]]
        sigs = [s["out"]["sig"] for s in ev_sign[pos:pos + n]]
        pos += n
        buflen = 32 * (n + 1) + rng.choice([0, 0, 1, 31, 32, 40]) if rng.random() < 0.8 else rng.randrange(0, 32 * (n + 2) + 1)
        stage2.append({"e": "HalfAggAggregate", "in": {"pks": pks, "msgs": msgs, "sigs": sigs, "buflen": buflen, "fill": rng.randrange(256)}})
        stage2.append({"e": "HalfAggSchedule", "in": {"pks": pks, "msgs": msgs, "sigs": sigs, "parts": compositions(rng, n),
                                                     "mode": rng.randrange(2), "slack": rng.choice([0, 0, 5, 32])}})
        n1 = rng.randint(0, n)
        stage2.append({"e": "HalfAggAggregate", "in": {"pks": pks[:n1], "msgs": msgs[:n1], "sigs": sigs[:n1], "buflen": 32 * (n1 + 1), "fill": 0}})
        meta.append((pks, msgs, sigs, n1))
    ev2 = chk.record(stage2, "std")
    # stage 3: incremental continuation of the library's own partial aggregate; verification of honest and damaged aggregates
    stage3 = []
    for i, (pks, msgs, sigs, n1) in enumerate(meta):
        n = len(pks)
        full, part = ev2[3 * i]["out"], ev2[3 * i + 2]["out"]
        if part.get("ret") == 1:
            extra = rng.choice([0, 0, 3, 32])
            short = rng.random() < 0.15 and n > n1
            cap = 32 * (n + 1) + extra - (rng.randint(1, 32) if short else 0)
            buf = (part["agg"] + [rng.randrange(256) for _ in range(max(0, cap - len(part["agg"])))])[:max(cap, 0)]
            if len(buf) >= 32 * (n1 + 1) or n1 == 0:
                if n1 == 0: buf = ([0] * 32 + buf[32:])[:len(buf)]
                stage3.append({"e": "HalfAggInc", "in": {"pks": pks, "msgs": msgs, "sigs": sigs[n1:], "nbefore": n1, "buf": buf}})
        if full.get("ret") != 1: continue
        agg = full["agg"]
        stage3.append({"e": "HalfAggVerify", "in": {"pks": pks, "msgs": msgs, "agg": agg}})
        a2, p2, m2 = list(agg), [list(x) for x in pks], [list(x) for x in msgs]
        m = rng.random()
        if m < 0.25: a2 = flip(a2, rng.randrange(len(a2) * 8))
        elif m < 0.35 and n: j = rng.randrange(n); m2[j] = flip(m2[j], rng.randrange(256))
        elif m < 0.45 and n > 1: j, k = rng.sample(range(n), 2); p2[j], p2[k] = p2[k], p2[j]
        elif m < 0.55 and n > 1: j, k = rng.sample(range(n), 2); m2[j], m2[k] = m2[k], m2[j]
        elif m < 0.65: a2 = a2 + [rng.randrange(256) for _ in range(rng.choice([1, 31, 32]))]
        elif m < 0.75: a2 = a2[:len(a2) - rng.choice([1, 31, 32, 33])] if len(a2) > 33 else []
        elif m < 0.85 and n: j = rng.randrange(n); a2[32 * j:32 * j + 32] = b32(rng.choice([P, P + 1, 2**256 - 1, 0, 5]))
        elif m < 0.95: a2[32 * n:] = b32(rng.choice([N, N + 1, 2**256 - 1, 0, N - 1]))
        elif n: p2, m2 = p2[:-1], m2[:-1]
        stage3.append({"e": "HalfAggVerify", "in": {"pks": p2, "msgs": m2, "agg": a2}})
    ev3 = chk.record(stage3, "std")
    return ev2 + ev3


def run(chk):
    quick = chk.tier == "quick"
    chk.groups = ["halfagg", "schnorr", "keys"]
    orders = [13] if quick else [7, 13, 199]
    chk.build(["std"] + ["tiny%d" % o for o in orders] + ([] if quick else ["verify", "i64", "noasm"]))
    # X: the small groups -- every s re-encoding s + k*order, all (r, s, pk) strings for n = 1, 2, and the history machine over all
    # keys and nonces (both machines of C17_HalfAgg.tla in one TLC run: cfg C17_all<o>.cfg = C17_tiny<o>.cfg + C17_hist<o>.cfg)
    for o in orders:
        recs = chk.generate(MODULE, "C17_all%d.cfg" % o, "tiny%d" % o, timeout=3000)
        chk.replay(recs, "tiny%d" % o, "order-%d group: every s + k*%d re-encoding, all aggregate strings n <= 2, every schedule of incremental aggregation" % (o, o))
    chk.exhaustive = True
    # real group: the history machine (every composition for n <= 5 (6)) and G (counts, buffer lengths, structured damage)
    # (C17_all.cfg = C17_gen.cfg + C17_hist.cfg)
    recs = chk.generate(MODULE, "C17_all.cfg", "gen", timeout=3000)
    for v in (["std"] if quick else ["std", "verify", "i64", "noasm"]):
        chk.replay(recs, v, "every schedule of incremental aggregation + generated boundary records")
    # re-entrancy: the same aggregations once more while a second aggregation is in flight (started from inside the k-th call of a
    # caller-supplied, correct SHA-256 compression function; harness op HalfAggAggregate with "nest": k).  The specification knows no
    # such thing as "another call in progress": the specified result is the same.
    # k runs over EVERY compression call of the aggregation (about 3 per signature), for a few successful aggregations of each size
    base = []; per_n = collections.Counter()
    for r in recs:
        ns = len(r["in"].get("sigs", []))
        if r["e"] == "HalfAggAggregate" and ns >= 2 and r["out"].get("ret") == 1 and per_n[ns] < (3 if quick else 12):
            per_n[ns] += 1; base.append((r, ns))
    nest = [dict(r, **{"in": dict(r["in"], nest=k)}) for (r, ns) in base for k in range(1, 4 * ns + 6)]
    if nest:
        chk.replay(nest, "std", "aggregation with a nested aggregation in flight", env={"VH_NO_EXTRA_PASSES": "1"})
    # T: aggregates made by the library, decided by TLC
    chk.validate(driver(chk, 24 if quick else 250), MODULE, "C17_trace.cfg", "driver", timeout=3000)
    return chk.finish(LEVEL,
        "History machine: TLC explores every composition of incremental aggregation steps (invariants: schedule-independent bytes, the aggregate verifies); "
        "each transition and each complete composition is executed on the real API. G: TLC enumerates Cases of C17_HalfAgg.tla (counts, all buffer lengths, "
        "bit flips, range/length/order damage); X: order-7/13/199 groups with every s re-encoding and all n <= 2 aggregate strings over the subgroup; "
        "T: library-made aggregates (one-shot, scheduled, incremental) and damaged copies decided by TLC.",
        ["overrides agree with the TLA+ definitions (spec/selftest)", "small-group builds use scalar_low_impl.h",
         "small-group records use subgroup points only (the small curves have huge cofactors; the library's ecmult is specified on the subgroup)"])
