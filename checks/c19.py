"""C19 -- Bulletproofs++ norm argument is complete and exact; generator lists are reproducible."""
import random
import vlib
from vlib import Infra, log
LEVEL = "model_checking"
MODULE = "C19_Bppp.tla"
TRACE = (MODULE, "C19_trace.cfg")
REG = dict(category="model_checking",
    text="BpppNorm.tla is an executable TLA+ definition of the Bulletproofs++ weighted norm argument on real secp256k1 values: commitment v*G + <n,G_vec> + <l,H_vec> with the "
    "mu-weighted norm, the Fiat-Shamir transcript computed from the tag string, the two-points-in-65-bytes and generator-list codecs, the verifier as the one-shot final equation "
    "(cross-checked at design level against the paper's round-by-round reduction; 'every honest proof verifies' and 'every listed alteration is rejected' are TLC invariants) and the "
    "prover rounds (so proof bytes are predicted byte for byte). TLC generates records for (|n|,|l|) in {1,2,4,8}^2 (all 49 pairs up to 64x64 in the thorough tier): all-zero, boundary "
    "and infinity-producing vectors, rho in {random,1,2,n-1,0} (rho = 0 with an all-zero n, where only the explicit check rejects), all 1032 single-bit flips of a proof, sign bytes > 3, "
    "infinity with sign bit, scalars >= n and +N re-encodings of the right scalar, trailing/truncated bytes, non-power-of-two sizes, generator-count mismatch, every verifier scratch size "
    "from 0 past the need, prover with NULL and useless scratch, transcript prefixes across SHA block boundaries; generator-list encodings of length 33k, 33k+-1 with malformed points "
    "and heap accounting around the parser (counting malloc wrapper; sanitizer allocator statistics + LeakSanitizer pass in the asan build). In the order-13 test group (generators "
    "are inputs there too) the witnesses of the (2,1)/(1,2) shapes and the proof strings built from subgroup points are enumerated (completely in the thorough tier, all points and a "
    "thinned scalar set in the quick tier): the only place where accepted proofs exist that "
    "no prover produced. All records are replayed on the real (static) functions; implementation traces from a seeded driver are decided by TLC.",
    note="Trusted: TLC, BigInteger/MessageDigest overrides, the harness interpreter, the malloc-counting wrapper / sanitizer statistics. Generator points are inputs of this property "
    "(measured from the implementation; their derivation from the seed is not re-derived here): decided for them are determinism, prefix consistency, canonical encoding and exact "
    "round-trip. Soundness of the argument (no accepting proof without a witness) is not decided -- only that verification equals the specified equation on the generated and "
    "recorded inputs. Real-group inputs are a structured finite pool plus seeded random values; exhaustive only in the order-13 group (scalar_low_impl.h) for three generators.",
    technique="TLA+ spec executed by TLC; spec-generated records replayed into the C functions; implementation traces validated by TLC; exhaustive small-group comparison; "
    "design-level invariants on the generated space",
    design_ref="DESIGN.md §4 C19")
N = 0xFFFFFFFFFFFFFFFFFFFFFFFFFFFFFFFEBAAEDCE6AF48A03BBFD25E8CD0364141
P = 2**256 - 2**32 - 977


def b32(x): return list(x.to_bytes(32, "big"))
def le64(x): return list(x.to_bytes(8, "little"))
def log2(k): return k.bit_length() - 1
def rounds(g, h): return max(log2(g), log2(h))
def need(g, h): return 32 * (rounds(g, h) + g + h + log2(g))


def gen_to_ser33(b33):
    """generator encoding (10/11 = y square / not square) -> compressed public-key encoding (2/3 = y even / odd); driver-side
    convenience for building the stand-alone transcript prefix (an input; nothing is judged here)"""
    x = int.from_bytes(bytes(b33[1:]), "big")
    y = pow((x * x * x + 7) % P, (P + 1) // 4, P)       # the square root that is itself a square
    if b33[0] == 11: y = P - y
    return [2 + (y & 1)] + list(b33[1:])


def edge_scalar(rng):
    r = rng.random()
    if r < 0.25: return rng.choice([0, 1, 2, N - 1, N - 2, (N - 1) // 2, (N + 1) // 2, 2**128, 2**255])
    if r < 0.3: return rng.getrandbits(64)
    return rng.randrange(N)


def vec(rng, k):
    m = rng.random()
    if m < 0.1: return [0] * k
    if m < 0.15: return [N - 1] * k
    if m < 0.25: return [0 if j % 2 else edge_scalar(rng) for j in range(k)]      # odd positions zero: R at infinity
    if m < 0.3: return [edge_scalar(rng) if j % 2 else 0 for j in range(k)]
    return [edge_scalar(rng) for _ in range(k)]


def flat(v): return [b for x in v for b in b32(x)]


def driver(chk, gens257, n_stmt, sizes, v1="std"):
    rng = random.Random(chk.seed + 19)
    stm = []
    for i in range(n_stmt):
        g, h = rng.choice(sizes), rng.choice(sizes)
        rho = rng.choice([0, 1, N - 1, 2]) if rng.random() < 0.2 else rng.randrange(1, N)
        stm.append(dict(g=g, h=h, gens=gens257[:33 * (g + h)], n=vec(rng, g), l=vec(rng, h), c=vec(rng, h), rho=rho,
                        scr=rng.choice([None, 0, 64, 4096, 1 << 20])))
    def scr(d, s):
        if s is not None: d["scratch"] = s
        return d
    commits = [{"e": "BpppCommit", "in": scr({"gens": s["gens"], "nv": flat(s["n"]), "lv": flat(s["l"]), "cv": flat(s["c"]),
                                              "mu": b32(s["rho"] * s["rho"] % N)}, s["scr"])} for s in stm]
    ev_c = chk.record(commits, v1)
    proves = []
    for s, c in zip(stm, ev_c):
        s["commit"] = c["out"].get("commit", [0] * 33)
        if rng.random() < 0.6 and any(s["commit"]):
            s["pre"] = (s["commit"] + b32(s["rho"]) + le64(s["g"]) + le64(s["g"] + s["h"])
                        + [b for k in range(s["g"] + s["h"]) for b in gen_to_ser33(s["gens"][33 * k: 33 * k + 33])] + le64(s["h"]) + flat(s["c"]))
        else:
            s["pre"] = [rng.randrange(256) for _ in range(rng.choice([0, 1, 55, 56, 64, rng.randrange(200)]))]
        proves.append({"e": "BpppProve", "in": scr({"gens": s["gens"], "nv": flat(s["n"]), "lv": flat(s["l"]), "cv": flat(s["c"]),
                                                   "rho": b32(s["rho"]), "pre": s["pre"]}, s["scr"])})
    ev_p = chk.record(proves, v1)
    ver = []
    for s, p in zip(stm, ev_p):
        pf = p["out"].get("proof")
        if pf is None: continue
        g, h, nd = s["g"], s["h"], need(s["g"], s["h"])
        def V(**kw):
            d = {"gens": s["gens"], "glen": g, "cv": flat(s["c"]), "rho": b32(s["rho"]), "commit": s["commit"], "proof": list(pf), "pre": s["pre"],
                 "scratch": 1 << 20}
            d.update(kw)
            ver.append({"e": "BpppVerify", "in": d})
        V()
        V(scratch=rng.choice([nd, nd + rng.randrange(64), max(0, nd - 1 - rng.randrange(40)), rng.randrange(nd + 1)]))
        for _ in range(2):
            m = rng.random(); q = list(pf)
            if m < 0.3: bit = rng.randrange(8 * len(q)); q[bit // 8] ^= 1 << (bit % 8); V(proof=q)
            elif m < 0.4: V(proof=q + [rng.randrange(256)])
            elif m < 0.45: V(proof=q[:len(q) - rng.choice([1, 32, 64])])
            elif m < 0.55:
                off = len(q) - rng.choice([32, 64]); V(proof=q[:off] + b32(rng.choice([N, N + 1, 2**256 - 1, rng.randrange(N, 2**256)])) + q[off + 32:])
            elif m < 0.65 and len(q) > 64:
                k = 65 * rng.randrange(len(q) // 65); q[k] = rng.choice([q[k] | 4, q[k] ^ 1, q[k] ^ 2, 255, 128 | q[k]]); V(proof=q)
            elif m < 0.7 and len(q) > 64:
                k = 65 * rng.randrange(len(q) // 65); o = rng.choice([1, 33]); q[k + o: k + o + 32] = [0] * 32; q[k] = rng.randrange(4); V(proof=q)
            elif m < 0.75: V(rho=b32(rng.choice([0, N, (s["rho"] + 1) % N])))
            elif m < 0.8: V(cv=flat([(s["c"][0] + 1) % N] + s["c"][1:]))
            elif m < 0.85: V(gens=gens257[:33 * (g + h + rng.choice([-1, 1]))])
            elif m < 0.9: V(glen=rng.choice([0, g + 1, max(g - 1, 0), 3]))
            elif m < 0.95: V(pre=s["pre"] + [0])
            else: V(cv=flat(s["c"] + [1]), gens=gens257[:33 * (g + h + 1)])
    ev_v = chk.record(ver, v1)
    return ev_c + ev_p + ev_v


def gens_driver(chk, gens257, counts, n_parse, v1="std"):
    rng = random.Random(chk.seed + 190)
    recs = [{"e": "BpppGens", "in": {"n": n, "m": m}} for n, m in counts]
    for i in range(n_parse):
        k = rng.choice([0, 1, 2, 3, 8, 20, 64])
        d = list(gens257[:33 * k]); m = rng.random()
        if m < 0.2: pass
        elif m < 0.35: d = d + [rng.randrange(256)] * rng.choice([1, 2, 32, 34])
        elif m < 0.5: d = d[:max(0, len(d) - rng.choice([1, 2, 32]))]
        elif d:
            j = rng.randrange(k)
            if m < 0.65: d[33 * j] = rng.choice([9, 12, 2, 3, 0, 21 - d[33 * j], d[33 * j] | 128])
            elif m < 0.8: d[33 * j + 1: 33 * j + 33] = b32(rng.choice([P, P + 1, 0, 2**256 - 1, rng.randrange(P)]))
            else: bit = rng.randrange(264); d[33 * j + bit // 8] ^= 1 << (bit % 8)
        recs.append({"e": "BpppGensParse", "in": {"data": d}})
    return chk.record(recs, v1)


def replay(chk, path):
    """bin/check C19 --replay FILE: re-execute the records of a violation file on the named build and let TLC decide them again"""
    recs = vlib.read_ndjson(path)
    variant = recs[0].get("variant", "std") if recs and recs[0].get("e") == "Build" else "std"
    recs = [r for r in recs if r.get("e") != "Build"]
    chk.groups = ["bppp"]
    chk.build([variant])
    ev = chk.record(recs, variant)
    chk.validate(ev, MODULE, "C19_trace13.cfg" if variant == "tiny13" else "C19_trace.cfg", "replay", variant)
    return chk.finish(LEVEL, "replay of " + path, [])


def run(chk):
    quick = chk.tier == "quick"
    chk.groups = ["bppp"]
    chk.build(["std", "asan", "tiny13"] + ([] if quick else ["verify", "i64", "noasm"]))
    # design-level size arithmetic for all lengths 1..64
    chk.model(MODULE, "C19_model.cfg", timeout=600)
    # the implementation's generator list is an input of the norm-argument specification
    g = chk.record([{"e": "BpppGens", "in": {"n": 257, "m": 0}}], "std")
    if not g or g[0]["out"].get("sret") != 1 or len(g[0]["out"].get("ser", [])) != 33 * 257:
        raise Infra("could not obtain the generator list from the implementation")
    gens257 = g[0]["out"]["ser"]
    gpath = chk.out + "/gens.ndjson"
    vlib.write_ndjson(gpath, g)
    # X: the order-13 test group -- every witness of the (2,1)/(1,2) shapes, every proof string of subgroup points for one statement
    recs = chk.generate(MODULE, "C19_tiny13.cfg", "tiny13", timeout=6000 if quick else 14000)
    chk.replay(recs, "tiny13", "exhaustive order-13 group")
    chk.exhaustive = not quick        # the quick tier thins out the scalar values; the thorough tier enumerates completely
    # G: generated records
    recs = chk.generate(MODULE, "C19_gen.cfg", "gen", env={"C19_GENS": gpath}, timeout=6000 if quick else 14000)
    for v in (["std", "asan"] if quick else ["std", "asan", "verify", "i64", "noasm"]):
        chk.replay(recs, v, "generated records")
    # T: implementation traces decided by TLC
    sizes = [1, 2, 4, 8] if quick else [1, 2, 4, 8, 8, 16, 32]
    events = driver(chk, gens257, 24 if quick else 120, sizes)
    counts = [(0, 1), (1, 0), (1, 2), (2, 3), (3, 8), (8, 64), (64, 256), (256, 3), (256, 256)] if quick else \
             [(n, 256) for n in range(0, 257)] + [(256, n) for n in range(0, 257, 5)]
    events += gens_driver(chk, gens257, counts, 60 if quick else 600)
    events += gens_driver(chk, gens257, counts[:9], 40, "asan")
    chk.validate(events, MODULE, "C19_trace.cfg", "driver", timeout=6000 if quick else 14000)
    return chk.finish(LEVEL,
        "X: order-13 group, witnesses (n,l) in Z_13^3 and proof strings of subgroup points/scalar encodings for one statement (complete in the thorough tier; invariant: accepted iff the paper's reduction "
        "accepts; honest always accepted); G: TLC enumerates Cases of C19_Bppp.tla (statements by size pair x vector pattern x rho, honest commit/prove/verify triples, 38 kinds of alteration, every "
        "single-bit flip of one proof, every scratch size, transcript prefix lengths, generator-list encodings) with the invariants InvProve (completeness), InvVerify "
        "(equation = reduction; honest accepted; altered rejected) and InvGens (round trip); every record is executed on the real functions (std and asan builds). "
        "T: seeded random statements -> commit -> prove -> verify (honest and mutated) and generator-list create/parse events recorded from the implementation and decided by TLC. "
        "distinct_nontrivial counts distinct (action, specified result) classes.",
        ["overrides agree with the TLA+ definitions (spec/selftest)",
         "generator points are inputs (measured from the implementation); their derivation from the seed is not decided here",
         "the verifier's scratch need (32 bytes per scalar of four arrays) is part of the specification"])
