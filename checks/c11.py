"""C11 -- surjection proofs: complete, exact and canonically encoded."""
import os, random, threading
import vlib
from c01 import b32, N
LEVEL = "model_checking"
MODULE = "C11_Surjection.tla"
TRACE = (MODULE, "C11_trace.cfg")
REG = dict(category="model_checking",
    text="Surjection.tla specifies the serialized language (count <= 256, no padding bits, exact length), Initialize (the seeded rejection-sampled subset selection, "
    "transcribed: it is the property), the ring output - input_i over the selected inputs, Generate (refusals; nonce and forged scalars transcribed so that TLC "
    "predicts every proof byte) and Verify (non-empty selection, matching count, scalars in [1,n), Borromean ring equation from Borromean.tla). "
    "TLC (a) model-checks Initialize's post-conditions over every abstract tag list with n <= 6 (8 thorough) inputs: every match pattern (position, multiplicity), "
    "subset size, iteration limits 0/1/2/5 and steering seeds; (b) generates call records: parser strings for count fields 0..9, 255..264, 65535 with length "
    "offsets, every padding-bit pattern for 12 (thorough 35) counts, initialize for n in 1..6, 200, 255, 256, 257 (thorough also 7, 8, 128; every match set and size for n <= 4, thorough 6), "
    "honest proofs for n in 1..6, 255, 256 with predicted bytes, key edge values 0 / n-1 / n / n+1 / 2^256-1, refusals, all single-bit flips of one proof, scalar "
    "substitutions, s+n re-encodings from a spec-side prover with chosen small scalars, tag-list edits, empty selection incl. the empty-ring forgery e0 = SHA256(msg), selected input = output "
    "incl. the public-data forgeries for a ring containing the infinity key (every n <= 3, selected set and position), object histories (parse into an object pre-filled "
    "with 0xff or holding a 256-of-256 proof: the API must show the last parsed string only); all replayed on the "
    "real API (parser records also on the sanitizer build); (c) validates driver traces (random asset lists through generator_generate_blinded, initialize, generate, "
    "verify with mutations).",
    note="Trusted: TLC, overrides, harness. Ephemeral tags in generated records are points with known discrete logarithms (the code cannot tell); real NUMS generators "
    "are used in the driver traces. The return value of generate for keys that do not open the claimed difference or for an unselected claimed input is not "
    "constrained (nothing is promised), only that no verifying proof results. The 2-byte sampling branch of the module's generator is unreachable through the API. "
    "Implementation-defined outputs (which subset/index/iteration count Initialize yields, the bytes of a generated proof) are SOFT: a difference from the transcription "
    "alone is no alarm; TLC then judges the observed event by the post-condition (selected subset of the requested size containing the returned, matching index; "
    "generated proof verifies under the spec's Verify). Parse/serialize results, Verify verdicts, refusals and callback counts stay hard.",
    technique="TLA+ spec executed by TLC; design-level TLC model of the subset selection; spec-generated records (incl. spec-side forgeries) replayed into the C API; "
    "implementation traces validated by TLC",
    design_ref="DESIGN.md §4 C11")


PRIOR256 = [0, 1] + [255] * 32 + [(j * 29) % 256 for j in range(32 * 257)]


def driver(chk, n_sessions):
    rng = random.Random(chk.seed + 11)
    sessions, genreq = [], []
    for _ in range(n_sessions):
        n = rng.choice([1, 1, 2, 2, 3, 3, 4, 5, 8, 20])
        assets = [[rng.randrange(256) for _ in range(32)] for _ in range(rng.choice([1, 2, 3, 4]))]
        tags = [rng.choice(assets) for _ in range(n)]
        out = rng.choice(tags) if rng.random() < 0.85 else [rng.randrange(256) for _ in range(32)]
        blinds = [0 if rng.random() < 0.1 else rng.randrange(1, N) for _ in range(n)]
        bo = rng.randrange(1, N)
        s = dict(n=n, tags=tags, out=out, blinds=blinds, bo=bo)
        sessions.append(s)
        for t, b in list(zip(tags, blinds)) + [(out, bo)]:
            genreq.append({"e": "SjGen", "in": {"tag": t, "blind": b32(b)} if b else {"tag": t}})
    gev = chk.record(genreq, "std")
    if len(gev) != len(genreq):
        return []
    gi = iter(gev)
    inits = []
    for s in sessions:
        s["gens"] = [next(gi)["out"]["gen"] for _ in range(s["n"])]
        s["gout"] = next(gi)["out"]["gen"]
        nuse = rng.randrange(1, min(s["n"], 3) + 1)
        if rng.random() < 0.07: nuse = rng.choice([0, s["n"] + 1])
        ini = {"tags": s["tags"], "out": s["out"], "nuse": nuse, "maxiter": rng.choice([0, 1, 2, 10, 100]),
               "seed": [rng.randrange(256) for _ in range(32)] if rng.random() < 0.8 else [rng.choice([0, 255, 254])] * 32}
        if rng.random() < 0.3: ini["alloc"] = 1
        inits.append({"e": "SjInit", "in": ini})
    iev = chk.record(inits, "std")
    gens = []
    for s, e in zip(sessions, iev):
        s["init"] = e
        if e["out"].get("ret", 0) <= 0: continue
        idx = e["out"]["idx"]
        g = {"proof": e["out"]["ser"], "gens": s["gens"], "gout": s["gout"], "index": idx, "inkey": b32(s["blinds"][idx]), "outkey": b32(s["bo"])}
        r = rng.random()
        if r < 0.08: g["inkey"] = b32(rng.choice([N, N + 1, 2**256 - 1]))
        elif r < 0.16: g["outkey"] = b32(rng.choice([N, 2**256 - 1]))
        elif r < 0.24: g["outkey"] = b32((s["bo"] + 1) % N)                       # keys do not open the difference
        elif r < 0.30: g["index"] = (idx + 1) % s["n"]                            # another input claimed
        elif r < 0.35: g["gens"] = s["gens"] + [s["gout"]]                        # count mismatch
        elif r < 0.40 and s["n"] > 1: g["gens"] = [s["gout"]] + s["gens"][1:]     # an input equal to the output
        gens.append({"e": "SjGenerate", "in": g})
    pev = chk.record(gens, "std")
    ver = []
    for p in pev:
        if p["out"].get("ret") != 1: continue
        i = p["in"]; proof = p["out"]["proof"]
        ver.append({"e": "SjVerify", "in": {"proof": proof, "gens": i["gens"], "gout": i["gout"]}})
        pr2 = list(proof); g2 = list(i["gens"]); go2 = i["gout"]
        hdr = 2 + (len(g2) + 7) // 8
        m = rng.random()
        if m < 0.35: bit = rng.randrange(hdr * 8, len(pr2) * 8); pr2[bit // 8] ^= 1 << (bit % 8)
        elif m < 0.45: bit = rng.randrange(0, hdr * 8); pr2[bit // 8] ^= 1 << (bit % 8)
        elif m < 0.55 and len(g2) > 1: g2[0], g2[-1] = g2[-1], g2[0]
        elif m < 0.65: go2 = g2[0]
        elif m < 0.80: pr2 = pr2[:-32] + b32(rng.choice([0, N, 2**256 - 1]))
        elif m < 0.90: g2 = g2 + [go2]
        else: pr2 = pr2 + [0]
        ver.append({"e": "SjVerify", "in": {"proof": pr2, "gens": g2, "gout": go2}})
        ver.append({"e": "SjParse", "in": {"b": pr2}})
        # object history: pre-filled object / an object that held a 256-of-256 proof before
        hist = {"dirty": 1} if rng.random() < 0.5 else {"prior": PRIOR256}
        ver.append({"e": "SjVerify", "in": dict({"proof": proof, "gens": i["gens"], "gout": i["gout"]}, **hist)})
        ver.append({"e": "SjParse", "in": dict({"b": pr2}, **hist)})
    return iev + pev + chk.record(ver, "std")


# outputs whose derivation is implementation-defined (transcribed in the spec only to predict them): if only these differ,
# TLC judges the observed event by the property's post-condition (Soft/Post/Judge in C11_Surjection.tla)
SOFT = {"SjInit": ["ret", "idx", "nin", "nused", "ser", "ssize", "sret", "sret_short", "null"], "SjGenerate": ["proof"]}


def replay_soft(chk, recs, variant, name):
    chk.replay(recs, variant, name, soft=SOFT, soft_trace=TRACE)


def run(chk):
    quick = chk.tier == "quick"
    chk.groups = ["surjection"]
    # the design-level model does not need the harness: compile while TLC runs it
    err = []
    def build():
        try:
            chk.build(["std", "asan"] + ([] if quick else ["verify", "i64"]))
        except BaseException as e:
            err.append(e)
    t = threading.Thread(target=build)
    t.start()
    try:
        chk.model(MODULE, "C11_model.cfg", timeout=1800)
    finally:
        t.join()
    if err:
        raise err[0]
    recs = chk.generate(MODULE, "C11_gen.cfg", "gen", timeout=1800 if quick else 7200)
    # every evaluated case must have left its record (the emission file is shared state on disk: a concurrent run of the same
    # check would wipe it) -- fewer lines than cases is an infrastructure problem, not a smaller test set
    cases = (chk.tlc_runs[-1]["states"] - 1) // 2
    lines = len(vlib.read_ndjson("%s/gen.ndjson" % chk.out))
    if lines < cases:
        raise vlib.Infra("only %d of %d generated records were written" % (lines, cases))
    replay_soft(chk, recs, "std", "generated surjection records")
    parser = [r for r in recs if r["e"] in ("SjParse", "SjInit")]
    replay_soft(chk, parser if quick else recs, "asan", "generated parser and initialize records" if quick else "generated surjection records")
    if not quick:
        for v in ("verify", "i64"):
            replay_soft(chk, recs, v, "generated surjection records")
    events = driver(chk, 28 if quick else 400)
    if events:
        chk.validate(events, MODULE, "C11_trace.cfg", "driver", timeout=3000)
    return chk.finish(LEVEL,
        "Model: TLC checks InitPost on SjInitialize for every (n, match pattern, subset size, iteration limit, seed) of the bounded instance. "
        "G: TLC enumerates Cases of C11_Surjection.tla (parser strings, padding patterns, initialize, honest chains with byte-exact predicted proofs, refusals, "
        "bit flips, scalar substitutions, s+n re-encodings, tag-list edits) and every record is replayed; T: random asset lists through "
        "generate_blinded/initialize/generate/verify with mutations, decided by TLC. distinct_nontrivial counts distinct (action, specified result) classes.",
        ["overrides agree with the TLA+ definitions (spec/selftest)", "generators in generated records are arbitrary curve points (real NUMS generators only in driver traces)",
         "generate's return value is unconstrained when the caller's keys/index do not match the tags",
         "a 0 from initialize is accepted whenever a match is not forced by pigeonhole (whether the iteration limit was reached depends on implementation-defined sampling)"])
