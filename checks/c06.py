"""C06 -- secret-dependent data never steers branches or memory addresses (sampled secrets, strict mode)."""
import hashlib, json, os, random, re, subprocess, collections, concurrent.futures as cf
import vlib
from vlib import Infra, log
LEVEL = "exploration"
MODULE = "C06_NonInterference.tla"
TRACE = (MODULE, "C06_trace.cfg")
REG = dict(category="exploration",
    text="C06_NonInterference.tla states the property as worded: a run's sequence of control-flow and memory-address observations is a function of the public "
    "inputs and of the values declassified so far (table <<api, public, declassified prefix, segment>> -> digest; a design-level TLC model shows the table checker "
    "accepts exactly the pairwise non-interfering programs). Traces are recorded from the real -O2 build of the library: harness/ct_runner executes each API the "
    "project declares constant-time (inventory of src/ctime_tests.c) between noinline markers under valgrind --tool=lackey --trace-mem=yes; every instruction "
    "address and every load/store address+size between the markers is digested, cut at every secp256k1_declassify (guarded hook) whose VALUE becomes part of the "
    "key. K secret assignments per API (seeded random plus structured: 1, n-1, zero high half, fixed key with varying nonce secrets) x public variants "
    "(randomized/unrandomized context, optional arguments, MuSig signer count/adaptor). TLC validates the event trace; any divergence between runs that agree on "
    "public inputs and on everything declassified so far is a violation. SECOND OBSERVATION (taint mode): the same runner built with -DVALGRIND and without the "
    "verification hooks runs every (API, public variant) once under valgrind memcheck; at the begin marker all secret arguments and the secret parts of derived "
    "objects are marked undefined (for the variant 'context randomized with a secret seed' already before context_randomize), the context honours the library's "
    "declassifications (SECP256K1_CONTEXT_DECLASSIFY), and every definedness report between the markers (branch or address computed from undefined data) becomes "
    "a Tainted event of the trace, for which the specification has no transition.",
    note="The lackey half SAMPLES secrets (a secret-dependent branch that all sampled secrets take the same way is invisible to it); the taint half tracks definedness "
    "per executed path for all secret values but sees only the paths the one run per (API, variant) executes. Code after a secret-derived declassification is compared only between runs that "
    "declassified identical bytes. Micro-architectural leaks and the declassification annotations themselves are out of scope. Trusted: valgrind lackey and memcheck, TLC.",
    technique="TLA+ non-interference trace specification validated by TLC against lock-step control-flow/address traces recorded from the compiled library "
    "(valgrind lackey between markers, cut at declassification hooks) and against valgrind-memcheck definedness reports of the same calls with the secrets undefined",
    design_ref="DESIGN.md §4 C06, §6")

N = 0xFFFFFFFFFFFFFFFFFFFFFFFFFFFFFFFEBAAEDCE6AF48A03BBFD25E8CD0364141
APIS = {   # api -> public variants (bit0: randomized context; other bits: optional arguments / signer counts)
    "pubkey_create": [0, 8, 1], "ecdsa_sign": [0, 8, 2, 1], "ecdsa_sign_recoverable": [0, 1], "ecdh": [0, 1], "seckey_verify": [0], "seckey_negate": [0],
    "seckey_tweak_add": [0], "seckey_tweak_mul": [0], "keypair_create": [0, 1], "keypair_xonly_tweak_add": [0], "keypair_sec": [0],
    "schnorrsig_sign": [0, 2, 8, 3], "ellswift_create": [0, 2], "ellswift_xdh": [0, 2], "s2c_sign": [0, 1], "anti_exfil_host_commit": [0],
    "anti_exfil_signer_commit": [0], "adaptor_encrypt": [0, 2], "adaptor_decrypt": [0], "context_randomize": [0, 1],
    "musig_nonce_gen": [0, 2], "musig_partial_sign": [0, 2, 6], "musig_adapt": [0, 1],
}
QUICK_APIS = ["pubkey_create", "ecdsa_sign", "ecdsa_sign_recoverable", "ecdh", "seckey_tweak_add", "seckey_tweak_mul", "keypair_create", "schnorrsig_sign", "ellswift_create",
              "ellswift_xdh", "s2c_sign", "adaptor_encrypt", "adaptor_decrypt", "musig_nonce_gen", "musig_partial_sign", "context_randomize", "seckey_negate"]
MODS = ("-DENABLE_MODULE_BPPP=1 -DENABLE_MODULE_ECDH=1 -DENABLE_MODULE_ECDSA_ADAPTOR=1 -DENABLE_MODULE_ECDSA_S2C=1 -DENABLE_MODULE_ELLSWIFT=1 "
        "-DENABLE_MODULE_EXTRAKEYS=1 -DENABLE_MODULE_GENERATOR=1 -DENABLE_MODULE_MUSIG=1 -DENABLE_MODULE_RANGEPROOF=1 -DENABLE_MODULE_SCHNORRSIG=1 "
        "-DENABLE_MODULE_SCHNORRSIG_HALFAGG=1 -DENABLE_MODULE_SURJECTIONPROOF=1 -DENABLE_MODULE_WHITELIST=1 -DENABLE_MODULE_RECOVERY=1").split()
VARIANT_FLAGS = {"std": ["-DUSE_ASM_X86_64=1"], "noasm": [], "i64": ["-DUSE_FORCE_WIDEMUL_INT64=1"]}

def build_runner(chk, variant, taint=False):
    d = chk.out + "/ct_" + variant; os.makedirs(d, exist_ok=True)
    shim = d + "/ct_runner_shim.c"
    open(shim, "w").write(open(vlib.VERIF + "/harness/ct_runner.c").read().replace('"../../repo/', '"%s/' % vlib.REPO))
    exe = d + ("/ct_runner_taint" if taint else "/ct_runner")
    cmd = ["gcc", "-O2", "-g", "-no-pie", "-DCOMB_BLOCKS=43", "-DCOMB_TEETH=6", "-DECMULT_WINDOW_SIZE=15"] + (["-DVH_CT_TAINT=1", "-DVALGRIND=1"] if taint else ["-DSECP256K1_ZKP_VERIF=1"]) + VARIANT_FLAGS[variant] + MODS + \
          ["-I" + vlib.REPO, "-I" + vlib.REPO + "/src", "-I" + vlib.REPO + "/include", "-Wno-unused-function", shim,
           vlib.REPO + "/src/precomputed_ecmult.c", vlib.REPO + "/src/precomputed_ecmult_gen.c", "-o", exe]
    p = vlib.run(cmd, 600)
    if p.returncode != 0: raise Infra("ct_runner build failed:\n" + p.stdout[-2000:])
    nm = vlib.run(["nm", exe], 60).stdout
    marks = {}
    for name, tag in (("vh_ct_begin", "B"), ("vh_ct_end", "E"), ("vh_ct_declass", "D")):
        m = re.search(r"^([0-9a-f]+) T %s$" % name, nm, re.M)
        if not m: raise Infra("marker %s not found" % name)
        marks[tag] = m.group(1)[-8:].encode()
    return exe, marks, d

def secrets(seed, k):
    """k secret assignments (8 x 32 bytes each): valid scalars; structured ones first"""
    rng = random.Random(seed)
    def rs(): return rng.randrange(1, N)
    base = [rs() for _ in range(8)]
    out = []
    structured = [1, N - 1, 2**128 - 1, (1 << 255) | 0xFFFF, (N - 1) // 2, (N + 1) // 2]
    for i in range(k):
        if i < 2: s = [rs() for _ in range(8)]                           # fully random
        elif i < 4: s = [base[0]] + [rs() for _ in range(7)]             # key fixed, nonce secrets vary
        elif i < 4 + len(structured): s = [structured[i - 4]] + [rs() for _ in range(7)]
        else: s = [rs() for _ in range(8)]
        out.append(b"".join(x.to_bytes(32, "big") for x in s))
    # the two "key fixed" assignments must share the key with a third run
    out[0] = base[0].to_bytes(32, "big") + out[0][32:]
    return out

# one further assignment per API whose auxiliary secret (s2c data, MuSig extra input, BIP-340 / adaptor auxiliary randomness) is
# ALL-ZERO: a legal value of a secret argument that random sampling never produces (slot numbers are SEC[] indices of ct_runner.c)
AUXZERO = {"schnorrsig_sign": [1], "adaptor_encrypt": [1], "s2c_sign": [1], "anti_exfil_host_commit": [1], "anti_exfil_signer_commit": [1],
           "musig_nonce_gen": [2]}
BLIND_IDX = 99      # run index of the assignment "as assignment 0, but another (secret) context-randomization seed" (variants with bit 3)
def runs_of(api, k): return k + 1 if api in AUXZERO else k
def run_indices(api, var, k):
    return list(range(runs_of(api, k))) + ([BLIND_IDX] if (var & 8) else [])
def secret_for(api, i, secs):
    if i == BLIND_IDX:
        b = bytearray(secs[0]); b[32 * 3: 32 * 4] = hashlib.sha256(b"another seed" + bytes(secs[0][96:128])).digest()
        return bytes(b)
    if i < len(secs): return secs[i]
    b = bytearray(secs[1])
    for slot in AUXZERO[api]: b[32 * slot: 32 * slot + 32] = bytes(32)
    return bytes(b)

def one_run(args):
    exe, marks, d, api, var, idx, sec = args
    secfile = "%s/secret.bin" % d      # fixed name (argv must be identical across runs); per-process dir
    # the working directory's NAME LENGTH reaches the client's initial stack layout under valgrind (measured: idx 9 -> 10 shifted
    # every stack address of some APIs), so all runs use names of one fixed length
    work = "%s/w_%s" % (d, hashlib.sha256(("%s/%d/%d" % (api, var, idx)).encode()).hexdigest()[:16]); os.makedirs(work, exist_ok=True)
    open(work + "/secret.bin", "wb").write(sec)
    p = subprocess.run(["valgrind", "--tool=lackey", "--trace-mem=yes", "--log-file=lk.log", exe, api, str(var), "secret.bin", "side.json"],
                       cwd=work, stdout=subprocess.PIPE, stderr=subprocess.STDOUT, timeout=900)
    if p.returncode != 0:
        return (api, var, idx, None, "ct_runner/valgrind exit %d: %s" % (p.returncode, p.stdout[-300:]))
    data = open(work + "/lk.log", "rb").read()
    side = json.load(open(work + "/side.json"))
    ms = []
    for tag, addr in marks.items():
        for m in re.finditer(rb"^I  " + addr + rb",\d+$", data, re.M): ms.append((m.start(), tag, m.end()))
    ms.sort()
    # comparison key: the public variant and a digest of the public ARGUMENTS of the call
    evs = [{"e": "Call", "api": api, "pub": [var] + list(hashlib.sha256(bytes(side.get("pubin", []))).digest()[:8])}]
    if (var & 8) and idx in (0, BLIND_IDX):
        evs[0]["grp"] = 1      # these two runs differ only in the secret randomization seed: their declassified values must coincide too
    start = None; di = 0; nlines = 0
    for pos, tag, end in ms:
        if tag == "B": start = end; continue
        if start is None: continue
        seg = data[start:pos]; nlines += seg.count(b"\n")
        evs.append({"e": "Segment", "d": list(hashlib.sha256(seg).digest()[:8]), "n": seg.count(b"\n")})
        if tag == "D":
            v = side["declass"][di] if di < len(side["declass"]) else [255]; di += 1
            evs.append({"e": "Declassify", "v": v}); start = end
        else:
            evs.append({"e": "Return"}); start = None
    import shutil; shutil.rmtree(work, ignore_errors=True)
    if evs[-1]["e"] != "Return" or di != len(side["declass"]):
        return (api, var, idx, None, "markers not found / declassification count mismatch (%d vs %d)" % (di, len(side["declass"])))
    return (api, var, idx, evs, nlines)

TAINT_RE = re.compile(rb"^==\d+== (Conditional jump or move depends on uninitialised value\(s\)|Use of uninitialised value of size \d+)\n==\d+==\s+at 0x[0-9A-Fa-f]+: ([^\n]*)", re.M)
def taint_run(args):
    """one run under valgrind memcheck with the secrets marked undefined at the begin marker (ct_runner.c, TAINT MODE)"""
    exe, d, api, var, sec = args
    work = "%s/t_%s" % (d, hashlib.sha256(("%s/%d" % (api, var)).encode()).hexdigest()[:16]); os.makedirs(work, exist_ok=True)
    open(work + "/secret.bin", "wb").write(sec)
    p = subprocess.run(["valgrind", "--tool=memcheck", "--error-limit=no", "--undef-value-errors=yes", "--log-file=mc.log", exe, api, str(var), "secret.bin", "side.json"],
                       cwd=work, stdout=subprocess.PIPE, stderr=subprocess.STDOUT, timeout=900)
    if p.returncode != 0:
        return (api, var, None, "ct_runner_taint/valgrind exit %d: %s" % (p.returncode, p.stdout[-300:]))
    data = open(work + "/mc.log", "rb").read()
    side = json.load(open(work + "/side.json"))
    evs = [{"e": "Call", "api": api, "pub": [var] + list(hashlib.sha256(bytes(side.get("pubin", []))).digest()[:8])}]
    for m in TAINT_RE.finditer(data):
        evs.append({"e": "Tainted", "kind": "branch" if m.group(1).startswith(b"Cond") else "address", "at": m.group(2).decode(errors="replace")[:160]})
    evs.append({"e": "Return"})
    import shutil; shutil.rmtree(work, ignore_errors=True)
    return (api, var, evs, len(data))

def taint_part(chk, variant, apis, variants_of, secs):
    """T: memcheck definedness reports between the markers are events of the trace; the specification has no transition for them"""
    exe, marks, d = build_runner(chk, variant, taint=True)
    jobs = [(exe, d, api, var, secs[0]) for api in apis for var in variants_of(api)]
    with cf.ThreadPoolExecutor(max_workers=16) as ex:
        results = list(ex.map(taint_run, jobs))
    groups = collections.OrderedDict()
    for (api, var, evs, info) in results:
        if evs is None: raise Infra("taint recording failed for %s/%d on %s: %s" % (api, var, variant, info))
        groups[(api, var)] = evs
        chk.case_labels["taint:%s/var%d/%s" % (api, var, variant)] += 1
    chk.traces_validated += len(results); chk.evaluations += len(results)
    tpath = "%s/ct_%s_taint.trace.ndjson" % (chk.out, variant)
    reported = 0
    while groups:
        events = [e for evs in groups.values() for e in evs]
        vlib.write_ndjson(tpath, events)
        r = chk.tlc(MODULE, "C06_trace.cfg", env={"TRACE": tpath}, workers=1, expect_ok=False, timeout=1800)
        if "Invariant NotAccepted is violated" in r.out:
            log("[C06] %s: %d runs under memcheck with the secrets undefined: no branch or address computed from undeclassified secret data (%.1fs TLC)" % (variant, len(groups), r.wall))
            break
        if not r.ok: raise Infra("C06 taint trace validation could not be evaluated:\n" + r.tail(40))
        lo, hi = 0, len(events)
        while lo < hi:
            mid = (lo + hi + 1) // 2
            vlib.write_ndjson(tpath, events[:mid])
            rr = chk.tlc(MODULE, "C06_trace.cfg", env={"TRACE": tpath}, workers=1, expect_ok=False, timeout=1800)
            if "Invariant NotAccepted is violated" in rr.out: lo = mid
            else: hi = mid - 1
        j = lo
        while j > 0 and events[j]["e"] != "Call": j -= 1
        call = events[j]; bad = events[lo] if lo < len(events) else {}
        chk.violation("%s (public variant %s, build %s): %s computed from secret data that was never declassified, at %s (valgrind memcheck with the secret arguments marked undefined; "
                      "event %d of the trace has no transition in the specification)" % (call["api"], call["pub"][0], variant, bad.get("kind", "?"), bad.get("at", "?"), lo + 1),
                      events[j:lo + 1], variant)
        del groups[(call["api"], call["pub"][0])]
        reported += 1
        if reported >= 6: break
    chk.notes.append("%s: %d runs under valgrind memcheck (secrets undefined at the begin marker, library declassifications honoured)" % (variant, len(results)))


def run(chk):
    quick = chk.tier == "quick"
    chk.model("C06_Model.tla", "C06_model.cfg")
    k = 6 if quick else 12
    apis = QUICK_APIS if quick else sorted(APIS)
    secs = secrets(chk.seed, k)
    total_lines = 0
    for variant in (["std", "i64", "noasm"] if quick else ["std", "noasm", "i64"]):
        exe, marks, d = build_runner(chk, variant)
        # quick tier: the alternative limb configuration is recorded for the signing family only (scalar inverse, ecmult_gen, field code)
        vapis = [a for a in apis if a in ("ecdsa_sign", "schnorrsig_sign", "adaptor_encrypt", "ecdh", "seckey_tweak_mul")] if (quick and variant != "std") else apis
        jobs = [(exe, marks, d, api, var, i, secret_for(api, i, secs)) for api in vapis for var in (APIS[api][:(3 if variant == "std" else 2)] if quick else APIS[api]) for i in run_indices(api, var, k)]
        with cf.ThreadPoolExecutor(max_workers=16) as ex:
            results = list(ex.map(one_run, jobs))
        # TLC validation (a rejection is reported only if it repeats after re-recording the offending API's runs)
        tpath = "%s/ct_%s.trace.ndjson" % (chk.out, variant)
        by_group = collections.OrderedDict()
        for (api, var, idx, evs, info) in results:
            if evs is None: raise Infra("recording failed for %s/%d/%d on %s: %s" % (api, var, idx, variant, info))
            by_group.setdefault((api, var), []).append(evs); total_lines += info
            chk.case_labels["%s/var%d/%s" % (api, var, variant)] += 1
        runs = len(results)
        chk.traces_validated += runs; chk.evaluations += runs
        rerecorded = set()
        while True:
            events = [e for g in by_group.values() for evs in g for e in evs]
            vlib.write_ndjson(tpath, events)
            r = chk.tlc(MODULE, "C06_trace.cfg", env={"TRACE": tpath}, workers=1, expect_ok=False, timeout=1800)
            cmpd = re.findall(r"/\\ compared = (\d+)", r.out)
            if "Invariant NotAccepted is violated" in r.out:
                log("[C06] %s: %d runs (%d APIs x variants x %d secrets), %s segment comparisons, all consistent (%.1fs TLC)" % (variant, runs, len(vapis), k, cmpd[-1] if cmpd else "?", r.wall))
                chk.notes.append("%s: %d runs, %s segment comparisons between runs with equal public inputs and equal declassified prefix" % (variant, runs, cmpd[-1] if cmpd else "?"))
                if len(chk.samples) < 3: chk.samples.append({"variant": variant, "run_events": events[:6]})
                break
            if not r.ok:
                raise Infra("C06 trace validation could not be evaluated:\n" + r.tail(40))
            # rejected: bisect for the first event that cannot be explained
            lo, hi = 0, len(events)
            while lo < hi:
                mid = (lo + hi + 1) // 2
                vlib.write_ndjson(tpath, events[:mid])
                rr = chk.tlc(MODULE, "C06_trace.cfg", env={"TRACE": tpath}, workers=1, expect_ok=False, timeout=1800)
                if "Invariant NotAccepted is violated" in rr.out: lo = mid
                else: hi = mid - 1
            j = lo
            while j > 0 and events[j]["e"] != "Call": j -= 1
            call = events[j]; grp = (call["api"], call["pub"][0])
            if grp not in rerecorded:
                # record that API's runs again: only a divergence that repeats is a violation
                rerecorded.add(grp)
                jobs2 = [(exe, marks, d, grp[0], grp[1], i, secret_for(grp[0], i, secs)) for i in run_indices(grp[0], grp[1], k)]
                with cf.ThreadPoolExecutor(max_workers=16) as ex:
                    res2 = list(ex.map(one_run, jobs2))
                if any(x[3] is None for x in res2): raise Infra("re-recording failed for %s" % (grp,))
                by_group[grp] = [x[3] for x in res2]
                chk.notes.append("%s: rejection for %s re-recorded once" % (variant, grp))
                continue
            if lo < len(events) and events[lo]["e"] == "Declassify":
                chk.violation("%s (public variant %s, build %s): a DECLASSIFIED value differs between two runs that differ only in the secret context-randomization seed -- "
                              "the library declassifies data derived from that secret (event %d; repeated after re-recording)" % (call["api"], call["pub"], variant, lo + 1),
                              events[j:lo + 1], variant)
            else:
                chk.violation("control flow / memory addresses of %s (public variant %s, build %s) differ between two runs that agree on all public inputs and on "
                              "everything declassified so far: secret-dependent branch or address (first divergent segment at event %d; repeated after re-recording)" % (call["api"], call["pub"], variant, lo + 1),
                              events[j:lo + 1], variant)
            del by_group[grp]          # keep checking the other APIs
            if not by_group: break
    # ---- definedness tracking (the maintainers' discipline, src/ctime_tests.c) as a second observation of the same runs ----
    for variant in (["std"] if quick else ["std", "noasm", "i64"]):
        taint_part(chk, variant, apis, (lambda a: APIS[a][:3] if quick else APIS[a]), secs)
    return chk.finish(LEVEL,
        "each (API, public variant) is executed with K sampled secret assignments under valgrind lackey; the digest of every instruction/load/store observation "
        "between markers, cut at declassification points, must be a function of (api, public variant, declassified values so far). distinct_nontrivial counts "
        "distinct (api, public variant, build) triples compared across secrets.",
        ["secrets are sampled (K per API)", "declassification annotations are trusted", "valgrind lackey observes instruction and data addresses, not micro-architecture"],
        {"observation_lines": total_lines})
