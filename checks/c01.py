"""C01 -- ECDSA verification and signing are exact."""
import random
LEVEL = "model_checking"
GROUPS = ["ecdsa", "schnorr", "keys"]
REPLAY_STATELESS = True
REG = dict(category="model_checking",
    text="Ecdsa.tla is an executable TLA+ definition of ECDSA verify / RFC 6979 sign / recover on real 256-bit values. TLC (a) enumerates the order-7/13/199 "
    "test groups completely (every key, message residue, nonce, (r,s) pair incl. overflow encodings) checking completeness/soundness invariants on the spec and "
    "replaying every record into the small-group build of the real code, (b) generates boundary records in the real group (s = (n-1)/2, (n+1)/2, r+n<p family, "
    "messages >= n, invalid keys, failing nonce callbacks, all recovery ids) replayed on the real API, (c) validates traces recorded from the implementation.",
    note="Trusted: TLC, BigInteger/MessageDigest overrides (cross-checked against the TLA+ definitions), the harness interpreter. Real-group inputs are a structured "
    "finite pool plus seeded random values, not all 2^256 values; exhaustive only in the small groups (which use scalar_low_impl.h).",
    technique="TLA+ spec executed by TLC; spec-generated records replayed into the C API; implementation traces validated by TLC; exhaustive small-group comparison",
    design_ref="DESIGN.md §4 C01")
MODULE = "C01_Ecdsa.tla"
TRACE = (MODULE, "C01_trace.cfg")
N = 0xFFFFFFFFFFFFFFFFFFFFFFFFFFFFFFFEBAAEDCE6AF48A03BBFD25E8CD0364141
P = 2**256 - 2**32 - 977

def b32(x): return list(x.to_bytes(32, "big"))

def edge_scalar(rng):
    pool = [0, 1, 2, (N - 1) // 2, (N + 1) // 2, N - 2, N - 1, N, N + 1, 2**127, 2**128 - 1, 2**128, 2**255, P - N - 1, P - N, P - 1, P, 2**256 - 1]
    r = rng.random()
    if r < 0.35: return rng.choice(pool)
    if r < 0.5: return (rng.choice(pool) + rng.randrange(-3, 4)) % 2**256
    if r < 0.6: return rng.getrandbits(rng.choice([8, 64, 128, 200]))
    return rng.getrandbits(256)

def driver(chk, n_sign):
    rng = random.Random(chk.seed)
    signs = []
    for i in range(n_sign):
        key = edge_scalar(rng) if rng.random() < 0.4 else rng.randrange(1, N)
        msg = edge_scalar(rng)
        rec = {"e": "EcdsaSign", "in": {"key": b32(key), "msg": b32(msg), "nf": rng.choice([0, 0, 1]), "rec": rng.choice([0, 1])}}
        if rng.random() < 0.3: rec["in"]["extra"] = b32(rng.getrandbits(256))
        signs.append(rec)
    keys = [{"e": "PubkeyCreate", "in": {"key": s["in"]["key"]}} for s in signs]
    ev_sign = chk.record(signs, "std")
    ev_keys = chk.record(keys, "std")
    second = []
    for s, k in zip(ev_sign, ev_keys):
        if s["out"]["ret"] != 1: continue
        sig, msg, pk = s["out"]["sig"], s["in"]["msg"], k["out"]["pk"]
        second.append({"e": "EcdsaVerify", "in": {"sig": sig, "msg": msg, "pk": pk}})
        m = rng.random()
        sig2, msg2 = list(sig), list(msg)
        if m < 0.3:
            bit = rng.randrange(512); sig2[bit // 8] ^= 1 << (bit % 8)
        elif m < 0.5:
            bit = rng.randrange(256); msg2[bit // 8] ^= 1 << (bit % 8)
        elif m < 0.7:   # high-S twin
            s_int = int.from_bytes(bytes(sig[32:]), "big"); sig2 = sig[:32] + b32(N - s_int)
        elif m < 0.85:  # message + n where it fits
            mi = int.from_bytes(bytes(msg), "big")
            if mi + N < 2**256: msg2 = b32(mi + N)
        else:
            sig2 = sig[:32] + b32(edge_scalar(rng))
        second.append({"e": "EcdsaVerify", "in": {"sig": sig2, "msg": msg2, "pk": pk}})
        second.append({"e": "EcdsaNormalize", "in": {"sig": sig2}})
        rid = s["out"].get("recid", rng.randrange(4))
        second.append({"e": "EcdsaRecover", "in": {"sig": sig, "msg": msg, "recid": rid}})
        second.append({"e": "EcdsaRecover", "in": {"sig": sig2, "msg": msg2, "recid": rng.randrange(4)}})
    ev2 = chk.record(second, "std")
    return ev_sign + ev2

def run(chk):
    quick = chk.tier == "quick"
    variants = ["std", "i64", "tiny13"] + ([] if quick else ["tiny7", "tiny199", "verify", "i64", "i128s", "noasm"])
    chk.build(variants)
    # X: exhaustive small groups (design-level model + replay into the small-group build)
    for o in ([13] if quick else [7, 13, 199]):
        if o == 199 and quick: continue
        recs = chk.generate(MODULE, "C01_tiny%d.cfg" % o, "tiny%d" % o)
        chk.replay(recs, "tiny%d" % o, "exhaustive order-%d group" % o)
    chk.exhaustive = True
    # G: boundary constructions in the real group
    recs = chk.generate(MODULE, "C01_gen.cfg", "gen")
    for v in (["std", "i64"] if quick else ["std", "verify", "i64", "i128s", "noasm"]):
        chk.replay(recs, v, "generated boundary records")
    # T: driver traces from the implementation validated by TLC
    events = driver(chk, 150 if quick else 1500)
    chk.validate(events, MODULE, "C01_trace.cfg", "driver")
    return chk.finish(LEVEL,
        "G: TLC enumerates the Cases set of C01_Ecdsa.tla (pools of boundary keys/messages/nonces, signatures solved for chosen s, r+n<p family, recovery ids) "
        "and every record is executed on the real API; X: every key/message/nonce/(r,s) of the order-7/13/199 groups; T: seeded random and edge-biased calls "
        "recorded from the implementation and decided by TLC. distinct_nontrivial counts distinct (action, specified result) classes hit.",
        ["overrides BigInteger/MessageDigest agree with the TLA+ definitions (spec/selftest)",
         "tiny-group builds use scalar_low_impl.h: they decide API logic, not the real scalar arithmetic",
         "cryptographically unreachable branches (nonce retry, r = 0) are specified but not reached"])
