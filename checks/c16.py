"""C16 -- whitelist proofs verify only for a real member of a non-empty key list."""
import random
from c01 import b32, N
LEVEL = "model_checking"
GROUPS = ["whitelist", "keys"]
REPLAY_STATELESS = True
MODULE = "C16_Whitelist.tla"
TRACE = (MODULE, "C16_trace.cfg")
REG = dict(category="model_checking",
    text="Whitelist.tla + Borromean.tla specify the ring signature over online_i + H(offline_i+W)(offline_i+W) incl. the deterministic RFC 6979 derivation of "
    "nonce and forged scalars, so TLC predicts every signature byte for byte. TLC generates: honest sign+verify for every count 1..5 (1..8 thorough) and every signer "
    "index, 255 keys, illegal indices, zero/out-of-range secrets (must be refused), all 776 single-bit flips of a 2-key signature, scalars replaced by 0 / n / -s / "
    "s+n (spec prover with chosen small scalars), permuted/replaced/extra/missing keys, other whitelisted key, count mismatch, every count byte 0..255 with length "
    "+-1, and the empty-ring forgery 00||SHA256(SHA256(ser33(W))) built from public data only; design invariants SignSound, SignRefuses, NeverEmpty hold of the "
    "spec; all records are replayed on the real API; driver traces with random lists are validated by TLC.",
    note="Trusted: TLC, overrides, harness. offline_i = -W (tweak of the point at infinity) is not generated. Finding F1 (empty key list accepted) was repaired in "
    "/repo by a fix: commit; the forgery record stays in the generated set.",
    technique="TLA+ spec executed by TLC; spec-generated records (incl. spec-side forgeries) replayed into the C API; implementation traces validated by TLC",
    design_ref="DESIGN.md §4 C16, §5")

def driver(chk, n_sessions):
    rng = random.Random(chk.seed + 16)
    sessions = []
    keyreq = []
    for _ in range(n_sessions):
        n = rng.choice([1, 1, 2, 3, 4, 5, 7, 12])
        w = rng.randrange(1, N)
        on = [rng.randrange(1, N) for _ in range(n)]
        off = [rng.randrange(1, N) for _ in range(n)]
        sessions.append((n, w, on, off))
        for s in [w] + on + off:
            keyreq.append({"e": "PubkeyCreate", "in": {"key": b32(s)}})
    kev = chk.record(keyreq, "std")
    pk = {tuple(e["in"]["key"]): e["out"]["pk"] for e in kev}
    signs = []
    for (n, w, on, off) in sessions:
        idx = rng.randrange(n)
        base = {"ons": [pk[tuple(b32(s))] for s in on], "offs": [pk[tuple(b32(s))] for s in off], "sub": pk[tuple(b32(w))]}
        onsec, sumsec = on[idx], (off[idx] + w) % N
        r = rng.random()
        if r < 0.15: onsec = rng.choice([0, N, N + 1, 2**256 - 1])
        elif r < 0.3: sumsec = rng.choice([0, N, 2**256 - 1])
        elif r < 0.4: idx = (idx + 1) % n if n > 1 else idx     # secrets of another member: signature must not verify... (sign succeeds, verify fails)
        signs.append({"e": "WlSign", "in": dict(base, onsec=b32(onsec), sumsec=b32(sumsec), index=idx)})
    sev = chk.record(signs, "std")
    ver = []
    for s in sev:
        if s["out"].get("ret") != 1: continue
        i = s["in"]; sig = s["out"]["sig"]
        ver.append({"e": "WlVerify", "in": {"sig": sig, "ons": i["ons"], "offs": i["offs"], "sub": i["sub"]}})
        sig2 = list(sig); ons2 = list(i["ons"]); offs2 = list(i["offs"]); sub2 = i["sub"]
        m = rng.random()
        if m < 0.4: bit = rng.randrange(8, len(sig) * 8); sig2[bit // 8] ^= 1 << (bit % 8)
        elif m < 0.55 and len(ons2) > 1: ons2[0], ons2[-1] = ons2[-1], ons2[0]
        elif m < 0.7: sub2 = i["ons"][0]
        elif m < 0.85: sig2 = sig2[:-32] + b32(rng.choice([0, N, 2**256 - 1]))
        else: sig2 = sig2 + [0]
        ver.append({"e": "WlVerify", "in": {"sig": sig2, "ons": ons2, "offs": offs2, "sub": sub2}})
    return sev + chk.record(ver, "std")

def run(chk):
    quick = chk.tier == "quick"
    chk.groups = ["whitelist", "keys"]
    chk.build(["std"] + ([] if quick else ["verify", "i64", "asan"]))
    recs = chk.generate(MODULE, "C16_gen.cfg", "gen", timeout=3000)
    for v in (["std"] if quick else ["std", "verify", "i64", "asan"]):
        chk.replay(recs, v, "generated whitelist records", soft={"WlSign": ["sig"]}, soft_trace=TRACE)
    chk.validate(driver(chk, 40 if quick else 400), MODULE, "C16_trace.cfg", "driver", timeout=3000)
    return chk.finish(LEVEL,
        "G: TLC enumerates Cases of C16_Whitelist.tla (counts, signer indices, refusals, bit flips, scalar substitutions, key-list edits, count bytes, "
        "empty-ring forgery) with byte-exact predicted signatures; T: random lists through sign/verify with mutations, decided by TLC. "
        "distinct_nontrivial counts distinct (action, specified result) classes.",
        ["overrides agree with the TLA+ definitions (spec/selftest)", "offline_i = -W not generated"])
