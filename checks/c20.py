"""C20 -- results depend only on arguments, not on context history or threads."""
import json, random, collections, os, re, subprocess
import vlib
from vlib import Infra, log
LEVEL = "model_checking"
GROUPS = ["ctx"]
REPLAY_STATELESS = False
MODULE = "C20_Context.tla"
TRACE = (MODULE, "C20_trace.cfg")
REG = dict(category="model_checking",
    text="C20_Context.tla is a history machine over context slots (create / preallocated create / clone / preallocated clone / randomize(seed|NULL) / set or "
    "reset the SHA-256 compression function / destroy). TLC explores every history to a depth bound; every labelled transition is replayed through the real API "
    "behind its shortest prefix. After every step the replay compares allocation counts (counting allocator: at most one malloc per create/clone, none for the "
    "preallocated variants), liveness of slots, and the library's INTERNAL blinding state (scalar_offset, ge_offset, proj_blind) with EcmultGenBlind -- the exact "
    "TLA+ specification of the HMAC-DRBG blinding chain, whose defining property kG = comb(k+offset)+ge_offset TLC checks as an invariant; at the end of each "
    "history every API family (46 calls on fixed inputs, incl. the optional-argument spellings of the signing calls, a full MuSig session and the life cycle of a private context) must give the byte-identical result of a pristine context. Probe traces (long random histories, the "
    "static context and a byte copy of it, a context on a PROT_READ page) are validated by TLC: static context = same result or illegal-callback+0, "
    "documented-static families always same. The repository's own context tests, traced by guarded hooks, must be explained event by event by the "
    "blinding specification (Trace_C20.tla). Threads: C20_SharedCtx.tla explores all interleavings of 3 threads x 2 calls over a footprint table MEASURED from the "
    "binary (writes to a read-only context page; library globals in .data/.bss modified per family).",
    note="Threads are decided on the measured write-footprint abstraction, not on machine-level interleavings or the C memory model. API-family results are "
    "compared with a pristine context of the same build (history independence), not recomputed by the specification here (C01/C02/... do that). Trusted: TLC, "
    "overrides, harness, objdump symbol table.",
    technique="TLC bounded model checking of the context-history machine with transition-tour replay into the C API (internal blinding state compared with the TLA+ "
    "specification); TLC trace validation of API-family probes; TLC interleaving model over a measured shared-write footprint",
    design_ref="DESIGN.md §4 C20")

def repo_context_trace(chk):
    import c13_trace
    exe = c13_trace.build_tests(chk)
    path = chk.out + "/ctx.raw.ndjson"
    # (ecmult_gen_blind is left out on purpose: that test re-blinds the context through the INTERNAL function, behind the API)
    targets = ["all_proper_context_tests", "all_static_context_tests", "plug_sha256_compression_tests",
               "ec_illegal_argument_tests", "deprecated_context_flags_test", "selftest_tests", "test_ecdh_ctx_sha256", "ecdsa_ctx_sha256"]
    p = vlib.run([exe] + ["--target=" + t for t in targets] + ["--iterations=%d" % (4 if chk.tier == "quick" else 32), "--seed=%032x" % (chk.seed & (2**128 - 1))],
                 900, env={"SECP256K1_ZKP_VERIF_TRACE": path})
    if p.returncode != 0:
        raise Infra("the repository's context tests failed under the hook build (not a property verdict):\n" + p.stdout[-1500:])
    evs = [e for e in vlib.read_ndjson(path) if e["e"].startswith("Ctx")]
    if len(evs) < 10:
        raise Infra("context hook trace unexpectedly short (%d events): hooks missing?" % len(evs))
    ptr = {}
    for e in evs:      # pure renaming of pointers
        e["c"] = ptr.setdefault(e.pop("ctx"), len(ptr))
        src = e.pop("src"); e["s"] = ptr.setdefault(src, len(ptr)) if src != "(nil)" else -1
    tpath = chk.out + "/ctxtrace.ndjson"
    def accepted(n):
        vlib.write_ndjson(tpath, evs[:n])
        r = chk.tlc("Trace_C20.tla", "C20_ctxtrace.cfg", env={"TRACE": tpath}, workers=1, expect_ok=False, timeout=1800)
        if "Invariant NotAccepted is violated" in r.out: return True, r
        if r.ok: return False, r
        raise Infra("context trace validation could not be evaluated:\n" + r.tail(40))
    ok, r = accepted(len(evs))
    chk.traces_validated += 1; chk.evaluations += len(evs)
    for e in evs: chk.case_labels["T:%s/ret=%s" % (e["e"], e["ret"])] += 1
    if ok:
        ad = re.findall(r"/\\ adopted = (\d+)", r.out)
        log("[C20] repository context tests: %d life-cycle events explained by the blinding specification (adopted contexts: %s)" % (len(evs), ad[-1] if ad else "?"))
        chk.samples.append({"direction": "impl->spec", "source": "repository context tests with hooks", "events": [chk.shorten(e) for e in evs[:2]]})
        return
    lo, hi = 0, len(evs)
    while lo < hi:
        mid = (lo + hi + 1) // 2
        if accepted(mid)[0]: lo = mid
        else: hi = mid - 1
    chk.violation("event %d of the repository's context tests is not explained by the specification (blinding state after %s differs from "
                  "BlindReset/BlindStep, or a clone differs from its source): %s" % (lo + 1, evs[lo]["e"], json.dumps(evs[lo])[:400]), evs[max(0, lo - 5): lo + 1])

def skey(s): return json.dumps(s, sort_keys=True)

def flat_alive(exp):
    out = {}
    for k, v in exp.items():
        if k == "alive":
            items = v.items() if isinstance(v, dict) else enumerate(v)
            for i, a in items: out["alive%s" % i] = a
        elif k == "seeds": pass
        else: out[k] = v
    return out

def writable_library_globals(binary):
    """symbols of the harness binary in .data/.bss that belong to the library (not to the harness)"""
    p = vlib.run(["objdump", "-t", binary], 120)
    syms, anchor = [], None
    own = re.compile(r"^(VH_|CX|MN|vh_|jv_|cx_|mn_|CTX$|ICB$|ECB$|OPS$|CXI$|completed\.|__|_|stdin|stdout|stderr|environ|program_invocation|opt|secp256k1_verif_trace_)")
    for l in p.stdout.splitlines():
        m = re.match(r"^([0-9a-f]+)\s+(\S)\s+\S*\s+(\S+)\s+([0-9a-f]+)\s+(\S+)$", l) or re.match(r"^([0-9a-f]+)\s+(\S)\s+(\S)\s+(\S+)\s+([0-9a-f]+)\s+(\S+)$", l)
        parts = l.split()
        if len(parts) < 5: continue
        name, size, sect, addr = parts[-1], parts[-2], parts[-3], parts[0]
        if name == "VH_MALLOCS": anchor = int(addr, 16)
        if sect not in (".data", ".bss", ".tbss", ".tdata"): continue
        try: sz = int(size, 16)
        except ValueError: continue
        if sz == 0 or own.match(name): continue
        syms.append((name, int(addr, 16), sz))
    return syms, anchor

def run(chk):
    chk.auto_custom_sha = False      # this check drives its own contexts / tours
    quick = chk.tier == "quick"
    chk.groups = ["ctx"]
    chk.build(["std"] + ([] if quick else ["verify", "noasm"]))
    # ---- model + graph ----
    gpath = chk.out + "/graph.ndjson"
    chk.model(MODULE, "C20_model.cfg" if quick else "C20_model_thorough.cfg", env={"GEN_OUT": gpath}, timeout=3000)
    edges = vlib.read_ndjson(gpath)
    blind = {skey(r["in"]["seeds"]): r["out"] for r in chk.generate(MODULE, "C20_blind.cfg", "blind")}
    succ = collections.defaultdict(list); seen = set()
    for e in edges:
        ks, kd = skey(e["src"]), skey(e["dst"])
        ek = (ks, skey(e["label"]))
        if ek in seen: continue
        seen.add(ek); succ[ks].append((e["label"], kd, e["dst"]))
    init = skey(edges[0]["src"])
    parent = {init: None}; order = [init]; i = 0
    while i < len(order):
        s = order[i]; i += 1
        for (lab, d, _) in succ[s]:
            if d not in parent: parent[d] = (s, lab); order.append(d)
    def prefix(s):
        p = []
        while parent[s] is not None:
            ps, lab = parent[s]; p.append(lab); s = ps
        return list(reversed(p))
    def rec_of(lab):
        exp = flat_alive(lab["exp"])
        seeds = lab["exp"].get("seeds", [99])
        if seeds != [99]:
            b = blind.get(skey(seeds))
            if b: exp.update({k: b[k] for k in ("scalar_offset", "ge_offset", "proj_blind")})
        else:
            exp.pop("custom_sha", None)
        exp["icb"] = 0
        return {"e": lab["a"], "in": lab["args"], "out": exp}
    # reference probe on a pristine context
    ref_ev = chk.record([{"e": "CtxReset", "in": {}}, {"e": "CtxCreate", "in": {"s": 0}}, {"e": "CtxCallAll", "in": {"s": 0, "full": 1}}], "std")
    ref = {k: v for k, v in ref_ev[2]["out"].items() if k.startswith("f_")}
    ref["icb"] = 0; ref["sha_foreign"] = 0      # specified, not adopted from the observation: see ProbeOK in C20_Context.tla
    recs = []; ntr = 0
    for s in order:
        pre = prefix(s)
        for (lab, d, dst) in succ[s]:
            ntr += 1
            recs.append({"e": "CtxReset", "in": {}, "out": {"ret": 1, "outstanding": 0}})
            for l in pre + [lab]: recs.append(rec_of(l))
            ctxs = dst["ctx"]; items = ctxs.items() if isinstance(ctxs, dict) else enumerate(ctxs)
            for sl, c in items:
                if c["kind"] != "none":
                    recs.append({"e": "CtxCallAll", "in": {"s": int(sl), "full": 1 if (ntr % 4 == 0 or not quick) else 0},
                                 "out": ref if (ntr % 4 == 0 or not quick) else {k: v for k, v in ref.items() if k in CHEAP or k in ("icb", "sha_foreign")}})
    log("[C20] %d histories (transitions) -> %d API calls to replay" % (ntr, len(recs)))
    for v in (["std"] if quick else ["std", "verify", "noasm"]):
        rf = ref
        if v != "std":   # object layouts differ between builds: take the reference of the same build
            ev = chk.record([{"e": "CtxReset", "in": {}}, {"e": "CtxCreate", "in": {"s": 0}}, {"e": "CtxCallAll", "in": {"s": 0, "full": 1}}], v)
            rf = {k: x for k, x in ev[2]["out"].items() if k.startswith("f_")}; rf["icb"] = 0; rf["sha_foreign"] = 0
            rr = [dict(r, out=({k: rf[k] for k in r["out"]} if r["e"] == "CtxCallAll" else r["out"])) for r in recs]
        else: rr = recs
        chk.replay(rr, v, "context histories", stateful="CtxReset")
    chk.exhaustive = True
    # ---- T: probes validated by TLC ----
    rng = random.Random(chk.seed)
    probe = [{"e": "CtxReset", "in": {}}, {"e": "CtxCreate", "in": {"s": 0}}, {"e": "CtxCallAll", "in": {"s": 0, "full": 1}}]
    alive = {0}
    for step in range(60 if quick else 600):
        r = rng.random()
        if r < 0.35 and alive:
            s = rng.choice(sorted(alive)); seed = [rng.randrange(256) for _ in range(32)]
            probe.append({"e": "CtxRandomize", "in": ({"s": s, "seed": seed} if rng.random() < 0.85 else {"s": s})})
        elif r < 0.5 and alive and len(alive) < 4:
            s = rng.choice(sorted(alive)); t = min(set(range(4)) - alive)
            probe.append({"e": "CtxClone", "in": {"s": s, "t": t, "prealloc": rng.randrange(2)}}); alive.add(t)
        elif r < 0.6 and len(alive) < 4:
            t = min(set(range(4)) - alive); probe.append({"e": "CtxCreate", "in": {"s": t, "prealloc": rng.randrange(2)}}); alive.add(t)
        elif r < 0.7 and alive:
            probe.append({"e": "CtxSetSha", "in": {"s": rng.choice(sorted(alive)), "custom": rng.randrange(2)}})
        elif r < 0.78 and len(alive) > 1:
            s = rng.choice(sorted(alive)); probe.append({"e": "CtxDestroy", "in": {"s": s}}); alive.discard(s)
        elif alive:
            probe.append({"e": "CtxCallAll", "in": {"s": rng.choice(sorted(alive)), "full": 1}})
    for s in sorted(alive): probe.append({"e": "CtxCallAll", "in": {"s": s, "full": 1}})
    probe += [{"e": "CtxCallStatic", "in": {"copy": 1}}, {"e": "CtxCallStatic", "in": {"copy": 0}}, {"e": "CtxReadOnlyCallAll", "in": {}}]
    ev = chk.record(probe, "std")
    probes = [e for e in ev if e["e"] in ("CtxCallAll", "CtxCallStatic", "CtxReadOnlyCallAll", "CtxFault")]
    if probes: chk.validate(probes, MODULE, "C20_trace.cfg", "probes")
    # ---- T2: the repository's own context tests, traced by the guarded hooks, validated against the blinding specification ----
    repo_context_trace(chk)
    # ---- threads: measured footprint -> TLC interleaving model ----
    syms, anchor = writable_library_globals(chk.bins["std"])
    fp = chk.record([{"e": "CtxGlobalsProbe", "in": {"anchor": anchor or 0, "syms": [[a, n] for (_, a, n) in syms]}}], "std")
    fams = sorted(k for k in ref if k.startswith("f_"))
    foot = {}
    if fp:
        o = fp[0]["out"]
        for k in range(o.get("nfam", 0)):
            foot["fam%d" % k] = [syms[i][0] for i in o.get("w%d" % k, [])]
    ro_fault = any(e["e"] == "CtxFault" for e in ev)
    locs = sorted({l for v in foot.values() for l in v}) or ["none"]
    famnames = sorted(foot) or ["fam0"]
    stage = vlib.stage_specs(os.path.join(chk.out, "stage"))
    def tl(s): return '"%s"' % re.sub(r"[^A-Za-z0-9_]", "_", s)
    with open(os.path.join(stage, "C20_Footprint.tla"), "w") as f:
        f.write("---- MODULE C20_Footprint ----\n\\* generated by checks/c20.py from the harness binary (objdump) and the globals probe\n")
        f.write("Locs == {%s}\n" % ", ".join(tl(l) for l in locs))
        f.write("Fams == {%s}\n" % ", ".join(tl(x) for x in famnames))
        f.write("Footprint == [f \\in Fams |-> CASE %s]\n" % " [] ".join("f = %s -> <<%s>>" % (tl(x), ", ".join(tl(l) for l in foot.get(x, []))) for x in famnames))
        f.write("====\n")
    r = chk.tlc("C20_SharedCtx.tla", "C20_shared.cfg", expect_ok=False, timeout=1800)
    shared = {x: v for x, v in foot.items() if v}
    chk.notes.append("library globals in .data/.bss: %s; families writing globals: %s; write to read-only context: %s" % ([s[0] for s in syms], shared, ro_fault))
    if not r.ok:
        if r.invariant_violated:
            chk.violation("threads: TLC found an interleaving in which a call reads a shared location overwritten by another thread; "
                          "shared writable state measured in the library: %s" % json.dumps(shared), [{"e": "SharedFootprint", "in": {"footprint": shared}}])
        else:
            raise Infra("SharedCtx model failed:\n" + r.tail(40))
    else:
        log("[C20] SharedCtx: %d library globals writable, %d families with shared writes; TLC: %d states, schedule independent" % (len(syms), len(shared), r.distinct))
    return chk.finish(LEVEL,
        "model: every history of C20_Context.tla to the depth bound; G: every labelled transition replayed behind its shortest prefix with allocation counts, "
        "internal blinding state (vs. EcmultGenBlind) and all API families compared; T: probe traces (random long histories, static context, read-only context) "
        "decided by TLC; threads: all interleavings of the footprint model. distinct_nontrivial counts distinct (action, result) classes.",
        ["threads decided on the measured footprint abstraction", "API-family reference = pristine context of the same build"],
        {"histories": ntr, "library_writable_globals": [s[0] for s in syms], "families_with_shared_writes": shared})

CHEAP = {"f_pubkey_create", "f_ecdsa_sign", "f_ecdsa_verify", "f_keypair_create", "f_schnorr_sign", "f_schnorr_verify", "f_seckey_tweak_add",
         "f_pubkey_tweak_add", "f_pubkey_tweak_mul", "f_keypair_tweak", "f_ecdh", "f_tagged_sha256", "f_ellswift_create", "f_ellswift_xdh",
         "f_pedersen_commit", "f_generator_blinded", "f_der"}
