"""C08 -- Pedersen commitments are the stated group elements and tally exactly."""
import random
from c01 import b32, edge_scalar, N, P
LEVEL = "model_checking"
MODULE = "C08_Pedersen.tla"
TRACE = (MODULE, "C08_trace.cfg")
REG = dict(category="model_checking",
    text="Pedersen.tla defines commitments (Ser(b*G + v*H), failing iff b >= n or the point is infinity), the standard generator h, generator derivation "
    "(two SHA-256 hashes of the seed through the Shallue-van de Woestijne map written from the sage formulae, blinded = unblinded + blind*G), the 8/9 and 10/11 "
    "square-y codecs, tally (sum pos - sum neg = infinity) and the two blind-sum helpers in plain TLA+ on BigNat/Curve. TLC (a) enumerates the order-13 (thorough: "
    "7, 199) test group completely -- every blind residue and overflow encoding x every value residue x every injected generator for commit (the 'fails only at "
    "infinity' clause has its witnesses b + v*h = 0 here), all pairs of unordered lists of <= 2 commitments (plus ordered and 3-element lists and curve points outside "
    "the subgroup) for tally, two-item balancing flows over all value pairs for the generator pairs (h, h) and (h, 5h), both parsers -- with design-level invariants (creation fails iff b >= n or b*G = -v*H; created commitments open; helper "
    "blinds => tally iff the value parts cancel as a group equation) and replays every record into the small-group build; (b) generates real-group records: "
    "edge blinds x edge values x generators {static h, parsed h, seed-derived, blinded, parsed both signs, +-G (infinity witnesses)}, derivation for edge and "
    "random seeds with edge blinds, the map on edge field elements, prefix 0..255 x 15 x-classes for both parsers, blind-sum / blind-generator-blind-sum lists with "
    "an overflowing entry at every position, balancing flows of up to 4+4 (thorough 32+32) commitments over 1-3 generators, balanced / off by one unit / moved to "
    "another generator, plain and with blinded generators, with the invariant 'tally iff values balance per generator'; (c) validates random commit / blind-sum / "
    "tally sequences recorded from the implementation.",
    note="Trusted: TLC, BigInteger/MessageDigest overrides, the harness. Real-group inputs are structured pools plus seeded random values. Generator derivation does "
    "not function in the small groups (hash outputs), so it is decided on secp256k1 only. The documented-unlikely failures of generator_generate (hash >= p, sum at "
    "infinity) are specified but have no constructible witness. Argument-check behaviour (npositive > n, n_total <= n_inputs, NULL pointers) is not part of the property.",
    technique="TLA+ spec executed by TLC; spec-generated records replayed into the C API; implementation traces validated by TLC; exhaustive small-group comparison",
    design_ref="DESIGN.md §4 C08")

U64_EDGE = [0, 1, 2, 9, 10, 2**32 - 1, 2**32, 2**63 - 1, 2**63, 2**64 - 2, 2**64 - 1] + [10**k for k in range(1, 20)]


def u64(v): return list(v.to_bytes(8, "big"))


def rnd_u64(rng):
    r = rng.random()
    if r < 0.3: return rng.choice(U64_EDGE)
    if r < 0.5: return rng.getrandbits(rng.choice([8, 16, 40, 62]))
    return rng.getrandbits(64)


def rnd_blind(rng, valid=False):
    if valid or rng.random() < 0.7:
        return rng.randrange(0, N) if rng.random() < 0.8 else rng.choice([0, 1, 2, N - 1, N - 2, (N - 1) // 2])
    return edge_scalar(rng)


def flip(b, rng, nbits=None):
    b = list(b); bit = rng.randrange(nbits or len(b) * 8); b[bit // 8] ^= 0x80 >> (bit % 8); return b


def driver(chk, n):
    rng = random.Random(chk.seed + 8)
    # stage 1: generators, helper calls, raw parser inputs
    first = [{"e": "GenH", "in": {}}]
    for i in range(n // 6):
        rec = {"e": "GenGenerate", "in": {"seed": b32(rng.getrandbits(256))}}
        if rng.random() < 0.5: rec["in"]["blind"] = b32(rnd_blind(rng))
        first.append(rec)
    for i in range(n // 4):
        k = rng.choice([0, 1, 2, 3, 4, 5, 8, 13])
        bl = [b32(rnd_blind(rng, rng.random() < 0.8)) for _ in range(k)]
        if k and rng.random() < 0.2: bl[rng.randrange(k)] = b32(rng.choice([N, N + 1, 2**256 - 1, N + rng.getrandbits(100)]))
        first.append({"e": "PedBlindSum", "in": {"blinds": bl, "npos": rng.randrange(0, k + 1)}})
    for i in range(n // 8):
        k = rng.choice([1, 2, 3, 5, 9])
        gb, bl = [[b32(rnd_blind(rng, rng.random() < 0.85)) for _ in range(k)] for _ in range(2)]
        if rng.random() < 0.25: rng.choice([gb, bl])[rng.randrange(k)] = b32(rng.choice([N, N + 1, 2**256 - 1, N + rng.getrandbits(100)]))
        first.append({"e": "PedBlindGenSum", "in": {"values": [u64(rnd_u64(rng)) for _ in range(k)], "gblinds": gb, "blinds": bl, "nin": rng.randrange(0, k)}})
    for i in range(n // 6):
        pfx = rng.choice([8, 9, 10, 11, 2, 3, rng.randrange(256)])
        x = rng.choice([rng.getrandbits(256), edge_scalar(rng), P - rng.randrange(1, 4), P + rng.randrange(0, 3)]) % 2**256
        first.append({"e": rng.choice(["GenParse", "CommitParse"]), "in": {"b": [pfx] + b32(x)}})
    ev1 = chk.record(first, "std")
    gens = [e["out"]["gen"] for e in ev1 if e["e"] in ("GenH", "GenGenerate") and e["out"].get("ret", 1) == 1]
    sums = [e["out"]["sum"] for e in ev1 if e["e"] == "PedBlindSum" and e["out"].get("ret") == 1]
    # stage 2: commitments under those generators; flows; parse mutated generators
    second = []
    for i in range(n // 2):
        blind = rng.choice(sums) if sums and rng.random() < 0.3 else b32(rnd_blind(rng))
        rec = {"e": "PedCommit", "in": {"blind": blind, "value": u64(rnd_u64(rng))}}
        if rng.random() < 0.2: rec["in"]["genh"] = 1
        else: rec["in"]["gen"] = rng.choice(gens) if rng.random() < 0.9 else flip(rng.choice(gens), rng)
        second.append(rec)
    for i in range(n // 5):
        second.append(flow(rng, gens))
    for g in gens[: n // 10]:
        second.append({"e": "GenParse", "in": {"b": g if rng.random() < 0.3 else flip(g, rng)}})
    ev2 = chk.record(second, "std")
    commits = [e["out"]["commit"] for e in ev2 if e["e"] == "PedCommit" and e["out"].get("ret") == 1]
    for e in ev2:
        if e["e"] == "PedFlow": commits += [c for c in e["out"].get("commits", []) if c]
    # stage 3: tallies over recorded commitments (the balanced ones come from the flows), parser on mutated commitments
    third = []
    for e in ev2:
        if e["e"] != "PedFlow" or "ret" not in e["out"]: continue
        cs, npos = e["out"]["commits"], e["in"]["npos"]
        pos, neg = cs[:npos], cs[npos:]
        m = rng.random()
        if m < 0.3: pass
        elif m < 0.5 and commits: pos = pos + [rng.choice(commits)]
        elif m < 0.65 and commits: c = rng.choice(commits); pos = pos + [c]; neg = [c] + neg
        elif m < 0.8: rng.shuffle(pos); rng.shuffle(neg)
        elif m < 0.9 and neg: neg = neg[:-1] + [flip(neg[-1], rng, 8 if rng.random() < 0.5 else None)]
        else: pos, neg = neg, pos
        third.append({"e": "PedTally", "in": {"pos": pos, "neg": neg, "nullp": rng.choice([0, 1])}})
    for i in range(n // 6):
        k1, k2 = rng.randrange(0, 4), rng.randrange(0, 4)
        third.append({"e": "PedTally", "in": {"pos": [rng.choice(commits) for _ in range(k1)], "neg": [rng.choice(commits) for _ in range(k2)], "nullp": 1}})
    for c in commits[: n // 5]:
        third.append({"e": "CommitParse", "in": {"b": c if rng.random() < 0.3 else flip(c, rng)}})
    ev3 = chk.record(third, "std")
    return ev1 + ev2 + ev3


def flow(rng, gens):
    """a balancing flow: per generator a total split over both sides; sometimes off by one unit / invalid blind"""
    k = rng.randrange(1, 4)
    gl = [rng.choice(gens) for _ in range(k)]
    pos, neg = [], []
    for g in range(k):
        a, b = rng.randrange(0, 3), rng.randrange(0, 3)
        total = 0 if a == 0 or b == 0 else rnd_u64(rng)
        for side, m in ((pos, a), (neg, b)):
            rest = total
            for j in range(m):
                part = rest if j == m - 1 else rng.randrange(0, rest + 1)
                rest -= part; side.append((g, part))
    if not neg: neg.append((0, 0))
    items = pos + neg
    m = rng.random()
    if m < 0.25:
        j = rng.randrange(len(items)); g, v = items[j]; items[j] = (g, v - 1 if v == 2**64 - 1 or (v > 0 and rng.random() < 0.5) else v + 1)
    elif m < 0.35 and k > 1:
        j = rng.randrange(len(items)); g, v = items[j]; items[j] = ((g + 1) % k, v)
    mode = rng.choice([0, 1])
    n = len(items)
    rec = {"gens": gl, "gi": [g for g, _ in items], "values": [u64(v) for _, v in items], "npos": len(pos), "mode": mode,
           "blinds": [b32(rnd_blind(rng, rng.random() < 0.97)) for _ in range(n - 1 if mode == 0 else n)]}
    if mode == 1: rec["gblinds"] = [b32(rnd_blind(rng, rng.random() < 0.97)) for _ in range(k)]
    return {"e": "PedFlow", "in": rec}


def replay(chk, path):
    """bin/check C08 --replay FILE: re-execute the records of a violation file on the named build, re-decide them with TLC"""
    import vlib
    chk.groups = ["pedersen"]
    recs = vlib.read_ndjson(path)
    variant = recs[0].get("variant", "std") if recs and recs[0].get("e") == "Build" else "std"
    recs = [r for r in recs if r.get("e") != "Build"]
    chk.build([variant])
    ev = chk.record(recs, variant)
    chk.validate(ev, MODULE, "C08_trace_%s.cfg" % variant if variant.startswith("tiny") else "C08_trace.cfg", "replay", variant)
    return chk.finish(LEVEL, "replay of " + path, [])


def run(chk):
    quick = chk.tier == "quick"
    chk.groups = ["pedersen"]
    variants = ["std", "tiny13"] + ([] if quick else ["tiny7", "tiny199", "verify", "i64", "i128s", "noasm"])
    chk.build(variants)
    # X: exhaustive small groups (design-level invariants + replay into the small-group build)
    for o in ([13] if quick else [7, 13, 199]):
        recs = chk.generate(MODULE, "C08_tiny%d.cfg" % o, "tiny%d" % o, timeout=3000)
        chk.replay(recs, "tiny%d" % o, "exhaustive order-%d group" % o)
    chk.exhaustive = True
    # G: real group
    recs = chk.generate(MODULE, "C08_gen.cfg", "gen", timeout=3000)
    for v in (["std"] if quick else ["std", "verify", "i64", "i128s", "noasm"]):
        chk.replay(recs, v, "generated boundary records")
    # T: driver traces validated by TLC
    events = driver(chk, 120 if quick else 1200)
    chk.validate(events, MODULE, "C08_trace.cfg", "driver", timeout=3000)
    return chk.finish(LEVEL,
        "G: TLC enumerates Cases of C08_Pedersen.tla (commit over edge blinds x edge values x 8 generator kinds incl. infinity witnesses with generator +-G; generator "
        "derivation for edge/random seeds and edge blinds; the SvdW map on edge field elements; both 33-byte parsers on prefix 0..255 x 15 x-classes; blind-sum helpers "
        "with an overflowing entry at every position; balancing flows blind-sum -> commit -> tally over 1-3 generators, balanced / off by one / moved generator / "
        "invalid blind, plain and blinded generators; raw tallies incl. empty lists) and every record is executed on the real API; X: every blind/value/generator/point "
        "combination of the order-13 (7, 199) group; T: seeded random three-stage sequences (generators and helper sums -> commitments and flows -> tallies and parser "
        "mutations) recorded from the implementation and decided by TLC. distinct_nontrivial counts distinct (action, specified result) classes.",
        ["overrides BigInteger/MessageDigest agree with the TLA+ definitions (spec/selftest)",
         "tiny-group builds use scalar_low_impl.h: they decide API logic, not the real scalar arithmetic",
         "generator_generate failure cases (hash >= p, sum at infinity) are specified but cryptographically unreachable"])
