"""C18 -- ECDH and ElligatorSwift exchanges agree with the group law and with each other."""
import random
from c01 import b32, edge_scalar, N, P
LEVEL = "model_checking"
MODULE = "C18_Ecdh.tla"
TRACE = (MODULE, "C18_trace.cfg")
REG = dict(category="model_checking",
    text="Ecdh.tla: output = chosen hash (default SHA256(02|03 || x), caller callbacks returning x||y or failing) of secret*Point by the group law, failure "
    "iff secret in {0} u [n, 2^256) or the callback fails. EllSwift.tla from doc/ellswift.md: XSwiftEC(u,t) with the three remapped exceptional cases, "
    "the eight inverse branches, Decode (parity from t), XDH with the BIP-324 and prefix hashes and caller callbacks, both party roles. Design model "
    "(TLC): on a grid of (x,u) and seeded (u,t) every inverse result maps back, branches give distinct t, never t = 0 or the exceptional family, every "
    "regular (u,t) is reached by some branch, every (u,t) lands on the curve. G: all 64-byte strings with u,t in {0,1,2,p-2,p-1,p,p+1,p+2,2^256-1}, the "
    "u^3+t^2+7=0 family (t solved for in the spec, both roots, +p re-encodings, the double remap u = -2w^k, t = 0), encodings built by the spec through "
    "each inverse branch for small / generator / random x, random strings; ECDH for boundary secrets x points (compressed, uncompressed, hybrid, "
    "invalid) x hash choices, both roles; XDH on exceptional peer encodings, boundary secrets, both roles, swapped roles/encodings. T: encodings produced "
    "by the library (ellswift_encode for pool keys x randomness, ellswift_create for secret keys x aux, whole exchanges) are events and TLC decides "
    "Decode(enc) = key and that both parties' secrets equal the specification. X: ECDH in the order-13 (7/199 thorough) group, all points x all scalar encodings.",
    note="Trusted: TLC, overrides, harness. The pseudo-random search of ellswift_encode/create is not specified (the header says encodings are not stable); "
    "only 'decodes back to the key' is decided for them. ElligatorSwift is specified on secp256k1 only (the small groups are used for ECDH).",
    technique="TLA+ spec executed by TLC; design-level model of the map algebra; spec-generated records replayed into the C API; implementation "
    "traces validated by TLC; exhaustive small-group comparison (ECDH)",
    design_ref="DESIGN.md §4 C18")


def edge_fe(rng):
    r = rng.random()
    if r < 0.4: return rng.choice([0, 1, 2, P - 2, P - 1, P, P + 1, 2**256 - 1, 2**255, 7])
    if r < 0.5: return (rng.choice([0, P, 2**256 - 1]) + rng.randrange(-3, 4)) % 2**256
    return rng.getrandbits(256)


def driver(chk, scale):
    rng = random.Random(chk.seed + 18)
    secrets = [1, 2, 3, N - 1, N - 2, (N - 1) // 2, (N + 1) // 2, 2**128] + [rng.randrange(1, N) for _ in range(8)]
    ev_keys = chk.record([{"e": "PubkeyCreate", "in": {"key": b32(s)}} for s in secrets], "std")
    pks = [k["out"]["pk"] for k in ev_keys]
    rnds = [[0] * 32, [255] * 32, [0] * 31 + [1]]
    stage = []
    for i in range(15 * scale):
        pk = list(rng.choice(pks)); m = rng.random()
        if m < 0.05: pk = [2] + b32(rng.choice([P, 5, 0]))              # not a public key
        rnd = rng.choice(rnds) if rng.random() < 0.3 else b32(rng.getrandbits(256))
        stage.append({"e": "EllswiftEncode", "in": {"pk": pk, "rnd": rnd}})
    for i in range(4 * scale):
        key = edge_scalar(rng) if rng.random() < 0.35 else rng.randrange(1, N)
        rec = {"e": "EllswiftCreate", "in": {"key": b32(key)}}
        if rng.random() < 0.6: rec["in"]["aux"] = rng.choice(rnds) if rng.random() < 0.3 else b32(rng.getrandbits(256))
        stage.append(rec)
    for i in range(max(1, (6 * scale) // 5)):
        ska = rng.choice(secrets) if rng.random() < 0.5 else rng.randrange(1, N)
        skb = rng.randrange(1, N) if rng.random() < 0.9 else rng.choice([0, N])
        h = rng.choice([0, 0, 1, 2, 3])
        rec = {"e": "EllswiftXdhPair", "in": {"ska": b32(ska), "skb": b32(skb), "hash": h}}
        if h == 1: rec["in"]["data"] = [rng.randrange(256) for _ in range(64)]
        if rng.random() < 0.5: rec["in"]["auxa"] = b32(rng.getrandbits(256))
        if rng.random() < 0.5: rec["in"]["auxb"] = b32(rng.getrandbits(256))
        stage.append(rec)
    for i in range(10 * scale):
        stage.append({"e": "EllswiftDecode", "in": {"ell": b32(edge_fe(rng)) + b32(edge_fe(rng))}})
    for i in range(4 * scale):
        pt = list(rng.choice(pks))
        sc = edge_scalar(rng) if rng.random() < 0.4 else rng.randrange(1, N)
        stage.append({"e": "Ecdh", "in": {"point": pt, "scalar": b32(sc), "hash": rng.choice([0, 0, 1, 2, 3, 3, 4])}})
    for i in range(max(1, scale // 2)):
        stage.append({"e": "EcdhPair", "in": {"a": b32(rng.randrange(1, N)), "b": b32(rng.choice(secrets)), "hash": rng.choice([0, 3])}})
    ev1 = chk.record(stage, "std")
    # second stage: the library's own encodings as XDH inputs (honest roles, swapped role, swapped encodings, damaged encoding), and decoded again
    second = []
    for ev in ev1:
        o = ev["out"]
        if ev["e"] == "EllswiftXdhPair" and o.get("ca") == 1 and o.get("cb") == 1:
            ea, eb, i = o["ella"], o["ellb"], ev["in"]
            for (x, y, key, party) in [(ea, eb, i["ska"], 0), (ea, eb, i["skb"], 1), (ea, eb, i["ska"], 1), (eb, ea, i["ska"], 0)]:
                h = rng.choice([0, 1, 2])
                rec = {"e": "EllswiftXdh", "in": {"ella": x, "ellb": y, "key": key, "party": party, "hash": h}}
                if h == 1: rec["in"]["data"] = [rng.randrange(256) for _ in range(64)]
                second.append(rec)
        if ev["e"] in ("EllswiftEncode", "EllswiftCreate") and o.get("ret") == 1 and rng.random() < 0.3:
            second.append({"e": "EllswiftDecode", "in": {"ell": o["ell"]}})
    ev2 = chk.record(second, "std") if second else []
    return ev1 + ev2


def run(chk):
    quick = chk.tier == "quick"
    chk.groups = ["ecdh", "ellswift", "keys"]
    orders = [13] if quick else [7, 13, 199]
    chk.build(["std"] + ["tiny%d" % o for o in orders] + ([] if quick else ["verify", "i64", "noasm"]))
    # X: ECDH in the small groups
    for o in orders:
        recs = chk.generate(MODULE, "C18_tiny%d.cfg" % o, "tiny%d" % o, timeout=3000)
        chk.replay(recs, "tiny%d" % o, "order-%d group: ECDH, every point x every scalar encoding x hash choice, both roles" % o)
    chk.exhaustive = True
    # design-level model of the ElligatorSwift map algebra (independent of /repo; cfg C18_model.cfg) together with
    # G: boundary encodings, exceptional families, inverse branches, ECDH / XDH boundary secrets and roles (C18_gen.cfg);
    # C18_all.cfg runs both machines in one TLC process
    recs = chk.generate(MODULE, "C18_all.cfg", "gen", timeout=3000)
    for v in (["std"] if quick else ["std", "verify", "i64", "noasm"]):
        chk.replay(recs, v, "generated boundary records")
    # T: encodings and exchanges produced by the library, decided by TLC
    chk.validate(driver(chk, 10 if quick else 100), MODULE, "C18_trace.cfg", "driver", timeout=3000)
    return chk.finish(LEVEL,
        "Model: TLC checks the inverse/forward algebra of the map on a grid. G: TLC enumerates Cases of C18_Ecdh.tla and every record is executed on the "
        "real API (decode compared byte for byte, ECDH/XDH outputs and failure conditions). X: ECDH over every point and scalar encoding of the small "
        "groups. T: library-made encodings and exchanges decided by TLC (Decode(enc) = key, both roles equal the specification).",
        ["overrides agree with the TLA+ definitions (spec/selftest)", "small-group builds use scalar_low_impl.h",
         "ellswift_encode/create search order is unspecified; only the decoded key is decided"])
