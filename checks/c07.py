"""C07 -- untrusted bytes never cause undefined behaviour or callback aborts (level: exploration)."""
import random, json, collections, concurrent.futures as cf
import vlib
from vlib import Infra, log

LEVEL = "exploration"
MODULE = "C07_Untrusted.tla"
TRACE = (MODULE, "C07_trace.cfg")
REG = dict(category="exploration",
    text="C07_Untrusted.tla states the CONTRACT of 23 parsing/verification entry-point families (60+ API functions): the call returns only 0/1 (NULL/non-NULL), no "
    "illegal/error callback, no allocation outstanding, and a successfully parsed object is handed to every consumer of its type under the same contract; it has no "
    "action for a crash, sanitizer report, VERIFY_CHECK abort, callback or leak, so such an event is rejected. It also supplies the INPUT-SPACE STRUCTURE: one TLA+ "
    "grammar per wire format (public keys 0..70 bytes x every prefix byte, x-only/secret keys, compact/recoverable/DER signatures incl. length forms up to SIZE_MAX, "
    "BIP-340, commitments/generators/s2c openings x every prefix, MuSig 66/32-byte encodings, ElligatorSwift, 162-byte adaptor signatures, half-aggregates of every "
    "length 0..32(n+2) and count overflow, whitelist count byte with length +-1, surjection n_inputs 0..9/255..264/65535 x bitmap patterns x length +-1, range-proof "
    "header byte0 x mantissa x exponent x min-value x length around each threshold, BP++ generator lists 33k+-1 and norm proofs x sign bytes) and the mutation classes "
    "(every/sampled bit flip, truncation at every/sampled offset, extension, 32-byte boundary substitutions, header/count byte edits) applied by TLC to VALID artefacts "
    "that the library made itself. All generated inputs are executed on the clang ASan+UBSan build, the -DVERIFY build and the shipped configuration with exact-size "
    "heap buffers; crashes become explicit events; TLC decides every recorded event against the contract; results must agree across the three builds.",
    note="Exploration: memory safety is OBSERVED (sanitizer as event source) on the generated inputs only; intra-object overflows are outside ASan's reach (partly "
    "covered by the header-promised object facts nt<=256, nk<=255, sizes). Acceptance exactness is not re-decided here.",
    technique="TLA+ contract + input grammars enumerated by TLC; records replayed into sanitizer/VERIFY/std builds of the C API; recorded events validated by TLC",
    design_ref="DESIGN.md §4 C07, §6")

BATCH = 400
MAX_REPORT = 12


# ---------------------------------------------------------------------------------------------
def run_batches(chk, recs, variant, name):
    """execute records on one build in batches (one harness process each); a crash ends only its batch:
    the offending record is reported and the rest of the batch is executed by a fresh process.
    returns the list of (record, event-or-None)"""
    batches = [recs[i:i + BATCH] for i in range(0, len(recs), BATCH)]

    def one(batch):
        res, crashes = [], []
        todo = list(batch)
        while todo:
            obs, rc, err = vlib.harness(chk.bins[variant], todo, timeout=1800)
            crash = [o for o in obs if o.get("e") == "Crash"]
            obs = [o for o in obs if o.get("e") != "Crash"]
            if rc == 0 and len(obs) == len(todo) and not crash:
                res += list(zip(todo, obs))
                break
            if rc == 3 or (rc != 0 and not crash and "vh:" in err[-400:]):
                raise Infra("harness refused a record of %s [%s]: %s" % (name, variant, err.strip()[-300:]))
            k = len(obs)                      # complete events precede the crash; record k is the offender
            res += list(zip(todo[:k], obs))
            if k < len(todo):
                crashes.append((todo[k], crash[0] if crash else {"e": "Crash", "in": {}, "out": {"signal": -1, "rc": rc}}, err))
                res.append((todo[k], None))
            todo = todo[k + 1:]
        return res, crashes

    out, allcrash = [], []
    with cf.ThreadPoolExecutor(max_workers=16) as ex:
        for res, crashes in ex.map(one, batches):
            out += res
            allcrash += crashes
    # report per crash site (entry point, API call in progress): at most 2 inputs per site, MAX_REPORT sites
    sites = collections.OrderedDict()
    for c in allcrash:
        sites.setdefault((c[0]["e"], c[1]["out"].get("stage"), c[1]["out"].get("signal")), []).append(c)
    for site, lst in list(sites.items())[:MAX_REPORT]:
        for r, cev, err in lst[:2]:
            # must reproduce in a process of its own
            obs, rc, err2 = vlib.harness(chk.bins[variant], [r], timeout=600)
            if rc != 0 or any(o.get("e") == "Crash" for o in obs) or len(obs) != 1:
                tail = " | ".join(l.strip() for l in (err2 or err).strip().splitlines() if "ERROR" in l or "runtime error" in l or "SUMMARY" in l or "test condition" in l)[:400]
                chk.violation("%s on build '%s': %s crashed/aborted at %s (signal=%s sanitizer=%s; %d inputs at this site) %s" %
                              (name, variant, r["e"], cev["out"].get("stage"), cev["out"].get("signal"), cev["out"].get("san"), len(lst), tail),
                              [{"e": r["e"], "in": r["in"]}], variant)
                chk.crash_events.append(cev)
            else:
                chk.notes.append("crash of %s on %s not reproduced in isolation" % (r["e"], variant))
    if len(sites) > MAX_REPORT:
        chk.notes.append("%d further crash sites on %s not reported individually" % (len(sites) - MAX_REPORT, variant))
    log("[%s] %s on %s: %d records, %d crashes" % (chk.pid, name, variant, len(recs), len(allcrash)))
    return out


def check_spec_out(chk, pairs, variant, name):
    """G comparison: every field of the specified out (icb, leak) must be present and equal"""
    bad = collections.Counter()
    for r, o in pairs:
        if o is None or "out" not in r:
            continue
        d = vlib.sub_diff(r["out"], o["out"])
        if d:
            site = (r["e"], tuple(sorted(d.keys())))
            bad[site] += 1
            if bad[site] > 2 or len(bad) > MAX_REPORT:
                continue
            again, _, _ = vlib.harness(chk.bins[variant], [r])      # must reproduce
            if again and vlib.sub_diff(r["out"], again[0]["out"]):
                chk.violation("%s on build '%s': %s: specification and implementation disagree on %s" % (name, variant, r["e"], sorted(d.keys())),
                              [{"e": r["e"], "in": r["in"], "out": r["out"], "impl_out": o["out"]}], variant)
    chk.evaluations += len(pairs)
    return sum(bad.values())


def cross_check(chk, a, b, va, vb, name):
    """identical inputs must give identical observable results on every build"""
    bad = 0
    for (r, x), (_, y) in zip(a, b):
        if x is None or y is None:
            continue
        if x["out"] != y["out"]:
            bad += 1
            if bad <= 3:
                chk.violation("%s: result differs between builds '%s' and '%s'" % (name, va, vb),
                              [{"e": r["e"], "in": r["in"], "out_" + va: x["out"], "out_" + vb: y["out"]}], va)
    return bad


def slim(ev):
    """events for TLC: the contract does not read the bytes -- long arrays are replaced by the declared length"""
    i = {}
    for k, v in ev.get("in", {}).items():
        if k == "data":
            i["dlen"] = len(v)
        elif not (isinstance(v, list) and len(v) > 16):
            i[k] = v
    return {"e": ev["e"], "in": i, "out": {k: v for k, v in ev["out"].items() if k != "dg"}}


def distinct_events(events):
    """identical events get identical decisions: TLC sees each distinct (entry, declared length, small arguments, results) once"""
    seen, out = set(), []
    for e in events:
        k = json.dumps(e, sort_keys=True)
        if k not in seen:
            seen.add(k); out.append(e)
    return out


# ---------------------------------------------------------------------------------------------
def b8(x): return list(x.to_bytes(8, "big"))


def make_artefacts(chk):
    """valid artefacts of every format, produced by the library itself (std build), with their verification context"""
    seed = list(random.Random(chk.seed + 7).randbytes(32))
    thorough = chk.tier != "quick"
    req = [{"e": "UMakeFixtures", "in": {}},
           {"e": "UMakeRangeproof", "in": {"seed": seed, "exp": 0, "min_bits": 4, "value": b8(9), "msglen": 5}},
           {"e": "UMakeRangeproof", "in": {"seed": seed, "exp": 2, "min_bits": 0, "min": b8(50), "value": b8(12345), "extralen": 16, "gen": 1}},
           {"e": "UMakeRangeproof", "in": {"seed": seed, "exp": -1, "min_bits": 0, "value": b8(77)}},
           {"e": "UMakeSurjection", "in": {"seed": seed, "n": 3, "nuse": 2}},
           {"e": "UMakeSurjection", "in": {"seed": seed, "n": 9, "nuse": 3}},
           {"e": "UMakeWhitelist", "in": {"seed": seed, "n": 3, "idx": 1}},
           {"e": "UMakeHalfAgg", "in": {"seed": seed, "n": 2}},
           {"e": "UMakeBppp", "in": {"seed": seed, "glen": 4, "clen": 2}},
           {"e": "UMakeBpppGens", "in": {"n": 3}}]
    if thorough:
        req += [{"e": "UMakeRangeproof", "in": {"seed": seed, "exp": 0, "min_bits": 64, "value": b8(2**63 + 12345), "msglen": 100}},
                {"e": "UMakeSurjection", "in": {"seed": seed, "n": 40, "nuse": 3}},
                {"e": "UMakeWhitelist", "in": {"seed": seed, "n": 20, "idx": 19}},
                {"e": "UMakeHalfAgg", "in": {"seed": seed, "n": 5}},
                {"e": "UMakeBppp", "in": {"seed": seed, "glen": 8, "clen": 8}}]
    ev = chk.record(req, "std")
    if len(ev) != len(req) or any(e["out"].get("ret") != 1 for e in ev):
        raise Infra("the library failed to produce a valid artefact: %s" % [e["e"] for e in ev if e["out"].get("ret") != 1])
    fx = ev[0]["out"]
    arts = []

    def art(e, inn, var, hdr):
        arts.append({"e": e, "in": inn, "var": var, "hdr": hdr})
    art("UPubkey", {"data": fx["pk1"]}, 1, 1); art("UPubkey", {"data": fx["pk1u"]}, 1, 1)
    art("UXonly", {"data": fx["xo1"]}, 0, 0); art("USeckey", {"data": fx["sk1"]}, 0, 0)
    art("USigCompact", {"data": fx["compact"]}, 0, 0); art("USigDer", {"data": fx["der"]}, 1, 4)
    art("URecSig", {"data": fx["compact"], "recid": 1}, 0, 0); art("USchnorr", {"data": fx["schnorr"]}, 0, 0)
    art("UCommit", {"data": fx["commit"]}, 0, 1); art("UGenerator", {"data": fx["genh"]}, 0, 1); art("UOpening", {"data": fx["opening"]}, 0, 1)
    art("UPubnonce", {"data": fx["pubnonce"]}, 0, 1); art("UAggnonce", {"data": fx["aggnonce"]}, 0, 1); art("UPartialSig", {"data": fx["partialsig"]}, 0, 0)
    art("UMusigAdapt", {"data": fx["musig"]}, 0, 0); art("UEllswift", {"data": fx["ellswift"]}, 0, 0); art("UAdaptor", {"data": fx["adaptor"]}, 0, 1)
    art("URangeproof", {"data": fx["rangeproof"], "mcap": 7}, 1, 2)
    for e in ev[1:]:
        o = e["out"]
        if e["e"] == "UMakeRangeproof":
            i = {"data": o["data"], "commit": o["commit"], "gen": o["gen"], "nonce": o["nonce"]}
            if "extra" in o: i["extra"] = o["extra"]; i["mcap"] = -1
            art("URangeproof", i, 1, 2)
        elif e["e"] == "UMakeSurjection":
            art("USurjection", {"data": o["data"], "tags": o["tags"], "outtag": o["outtag"]}, 1, 3)
        elif e["e"] == "UMakeWhitelist":
            art("UWhitelist", {"data": o["data"], "ons": o["ons"], "offs": o["offs"], "sub": o["sub"]}, 1, 1)
        elif e["e"] == "UMakeHalfAgg":
            art("UAggVerify", {"data": o["data"], "pks": o["pks"], "msgs": o["msgs"], "n": o["n"]}, 1, 0)
            art("UIncAgg", {"data": o["data"] + [0] * 64, "nb": b8(o["n"]), "nn": b8(1)}, 1, 0)
        elif e["e"] == "UMakeBppp":
            art("UBpppVerify", {"data": o["data"], "glen": o["glen"], "clen": o["clen"], "rho": o["rho"], "commit": o["commit"], "cvec": o["cvec"]}, 1, 1)
        elif e["e"] == "UMakeBpppGens":
            art("UBpppGens", {"data": o["data"]}, 1, 1)
    return arts


def driver(chk, arts, per_art):
    """T direction: seeded random mutation stream over the valid artefacts (multi-bit flips, byte noise, splices, insert/delete,
    random strings of the same length) plus random strings for every entry point"""
    rng = random.Random(chk.seed + 70)
    recs = []
    edge = [0, 1, 0x7f, 0x80, 0xfe, 0xff]
    for a in arts:
        d0 = a["in"]["data"]
        for _ in range(per_art):
            d = list(d0); m = rng.random()
            if m < 0.25:
                for _ in range(rng.choice([2, 3, 5, 9])):
                    b = rng.randrange(len(d) * 8); d[b // 8] ^= 1 << (b % 8)
            elif m < 0.45:
                for _ in range(rng.choice([1, 2, 4])):
                    d[rng.randrange(len(d))] = rng.choice(edge) if rng.random() < 0.5 else rng.randrange(256)
            elif m < 0.6:
                other = rng.choice(arts)["in"]["data"]; n = rng.randrange(1, min(len(other), len(d), 64) + 1)
                p, q = rng.randrange(len(d) - n + 1), rng.randrange(len(other) - n + 1); d[p:p + n] = other[q:q + n]
            elif m < 0.7:
                d = [rng.randrange(256) for _ in d]
            elif m < 0.8:
                p = rng.randrange(len(d)); n = rng.randrange(1, min(33, len(d) - p) + 1); d[p:p + n] = [rng.choice([0, 255])] * n
            elif a["var"]:
                p = rng.randrange(len(d) + 1)
                if rng.random() < 0.5: d[p:p] = [rng.randrange(256) for _ in range(rng.choice([1, 2, 31, 32, 33]))]
                else: del d[p:p + rng.choice([1, 2, 32, 33])]
            else:
                b = rng.randrange(len(d) * 8); d[b // 8] ^= 1 << (b % 8)
            i = dict(a["in"]); i["data"] = d
            recs.append({"e": a["e"], "in": i})
    return recs


# ---------------------------------------------------------------------------------------------
def run(chk):
    quick = chk.tier == "quick"
    chk.groups = ["untrusted"]
    chk.crash_events = []
    chk.build(["std"])
    arts = make_artefacts(chk)
    apath = chk.out + "/arts.ndjson"
    vlib.write_ndjson(apath, arts)
    with cf.ThreadPoolExecutor(max_workers=2) as ex:
        fb = ex.submit(chk.build, ["asan", "verify"])
        recs = chk.generate(MODULE, "C07_gen.cfg", "generated", env={"C07_ARTS": apath}, timeout=3000)
        fb.result()
    mutcls = ("orig", "flip", "trunc", "ext", "sub32", "byte")
    n_mut = sum(1 for r in recs if r.get("cls") in mutcls)
    drv = driver(chk, arts, 40 if quick else 400)
    trace = []
    per_entry = collections.Counter()
    per_class = collections.Counter(r.get("cls", "?") for r in recs)
    name = "generated inputs (format grammars + mutations of valid artefacts)"
    on_asan = run_batches(chk, recs, "asan", name)
    on_std = run_batches(chk, recs, "std", name)
    sample = recs if not quick else recs[::4]
    on_ver = run_batches(chk, sample, "verify", name)
    check_spec_out(chk, on_asan, "asan", name); check_spec_out(chk, on_std, "std", name); check_spec_out(chk, on_ver, "verify", name)
    cross_check(chk, on_asan, on_std, "asan", "std", name)
    cross_check(chk, on_ver, on_std[::4] if quick else on_std, "verify", "std", name)
    # every unmutated artefact must be accepted on the sanitizer build (otherwise the mutations explore nothing deep)
    notdeep = [r["e"] for r, o in on_asan if r.get("cls") == "orig" and o is not None and o["out"].get("ret") != 1]
    if notdeep and not chk.violations:
        raise Infra("valid artefacts rejected by their own verifier: %s" % notdeep)
    full_input = {}
    for r, o in on_asan:
        if o is not None:
            trace.append(slim(o)); full_input.setdefault(json.dumps(trace[-1], sort_keys=True), {"e": r["e"], "in": r["in"]})
            per_entry[r["e"]] += 1
            chk.case_labels["%s/ret=%s/uses=%d" % (r["e"], o["out"].get("ret"), len(o["out"].get("use", {})))] += 1
    # T: the driver's mutation stream, recorded from the sanitizer build (and the VERIFY build)
    d_asan = run_batches(chk, drv, "asan", "driver mutation stream")
    d_ver = run_batches(chk, drv, "verify", "driver mutation stream")
    cross_check(chk, d_asan, d_ver, "asan", "verify", "driver mutation stream")
    for r, o in d_asan:
        if o is not None:
            trace.append(slim(o)); per_entry[r["e"]] += 1
            full_input.setdefault(json.dumps(trace[-1], sort_keys=True), {"e": r["e"], "in": r["in"]})
            chk.case_labels["T:%s/ret=%s/uses=%d" % (r["e"], o["out"].get("ret"), len(o["out"].get("use", {})))] += 1
    trace += chk.crash_events                      # a crash is an event the contract machine has no action for
    chk.samples.append({"direction": "spec->impl", "variant": "asan", "record": chk.shorten(trace[len(trace) // 2])})
    dist = distinct_events(trace)
    nviol = len(chk.violations)
    chk.validate(dist, MODULE, "C07_trace.cfg", "contract", variant="asan", timeout=3000)
    for v in chk.violations[nviol:]:          # rejected events were slimmed: append the exact input to the replay file
        lines = open(v["replay"]).read().splitlines()
        key = json.dumps(json.loads(lines[-1]), sort_keys=True)
        if key in full_input:
            with open(v["replay"], "w") as f:
                f.write(lines[0] + "\n" + json.dumps(full_input[key], separators=(",", ":")) + "\n")
            v["what"] += " -- %s out=%s" % (full_input[key]["e"], json.dumps(json.loads(lines[-1])["out"], separators=(",", ":"))[:300])
    chk.traces_validated += len(trace) - len(dist); chk.evaluations += len(trace) - len(dist)
    accepted = sum(1 for t in trace if t["out"].get("ret") == 1)
    return chk.finish(LEVEL,
        "G: TLC enumerates the format grammars (GrammarCases) and the mutation classes over library-made valid artefacts (MutCases) of C07_Untrusted.tla; every record is "
        "executed on the ASan+UBSan build and the shipped configuration (VERIFY build: %s) in batches of %d per process, a crash/abort/timeout becomes a Crash event and a "
        "violation with the offending input; specified out fields (icb, leak) compared; results must be identical across builds. T: a seeded python mutation stream over the "
        "same artefacts is recorded on the ASan and VERIFY builds. TLC then decides EVERY recorded event (G and T) against Contract. distinct_nontrivial counts distinct "
        "(entry point, result, number of consumers reached) classes." % ("sample of every 4th record" if quick else "all records", BATCH),
        ["undefined behaviour is observed by ASan/UBSan/VERIFY_CHECK on executed inputs only; intra-object overflow is invisible to ASan",
         "glibc malloc(0) returns non-NULL (bppp_generators_parse of an empty list); allocation failure paths are not explored",
         "context arguments (keys, commitments, tag lists) are valid objects built by the library; only the untrusted bytes vary",
         "contract events are slimmed for TLC (byte arrays replaced by their length, digest dropped, identical events decided once): the contract does not depend on the bytes"],
        extra_cov={"per_entry_point": dict(per_entry), "artefacts": len(arts), "accepted_inputs": accepted, "crash_events": len(chk.crash_events), "distinct_events_decided_by_tlc": len(dist),
                   "records": {"grammar": len(recs) - n_mut, "mutations": n_mut, "driver": len(drv)}, "per_class": dict(per_class)})


def replay(chk, path):
    recs = vlib.read_ndjson(path)
    variant = recs[0].get("variant", "asan") if recs and recs[0].get("e") == "Build" else "asan"
    recs = [{"e": r["e"], "in": r.get("in", {})} for r in recs if r.get("e") not in ("Build", "Crash")]
    chk.groups = ["untrusted"]; chk.crash_events = []
    chk.build([variant])
    pairs = run_batches(chk, recs, variant, "replay")
    ev = [slim(o) for _, o in pairs if o is not None] + chk.crash_events
    if ev:
        chk.validate(distinct_events(ev), MODULE, "C07_trace.cfg", "replay", variant)
    return chk.finish(LEVEL, "replay of " + path, [])
