"""C10 -- range-proof verification accepts exactly the specified proofs (consensus-exact)."""
import random
from c09 import b32, u64, N, label
LEVEL = "model_checking"
MODULE = "C10_RangeVerify.tla"
GROUPS = ["rangeproof"]
TRACE = (MODULE, "C10_trace.cfg")
REG = dict(category="model_checking",
    text="RangeProof!RpVerify is written from the proof format (reserved bit, exponent <= 18, mantissa <= 64, scale overflow, min+max < 2^64, sign bits with "
    "unused bits zero, digit x < p on the curve, derived last digit, scalars < n, exact length, message hash over commitment / generator / header / digits / "
    "extra data, Borromean ring equation). RangeForge.tla is an adversarial prover inside the specification: it reads a header leniently, knows the openings "
    "and chooses every free value (small forged scalars), so it produces ring-valid proofs for ANY header -- also for headers a rule forbids (reserved bit, "
    "exponent 19/31, min+max = 2^64, 64 bits above 1, scale overflow), for min = 2^63, for the full 64-bit range, and one whose digit commitment has a tiny x "
    "(adversarial generator) so that x+p fits. TLC mutates them: s -> s+n at every forged position, s = 0/n/2^256-1, x -> p / x+p / x+1, unused sign bits, "
    "sign flips, trailing byte, truncations, every single bit of the 65-byte proof and of the header region, seeded bits of larger proofs, other commitment / "
    "generator / extra data, other exponent or mantissa byte. Each case carries the verdict the property statement demands; TLC proves the specification "
    "delivers it with the promised range, and the implementation must return the same verdict, range, header info and rewind result. T: library-made proofs "
    "and mutated copies decided by TLC.",
    note="Trusted: TLC, overrides, harness. Mantissa bytes > 63 are only tested as rejections (a forged ring for them would overrun the verifier's arrays). "
    "e0 is compared bytewise, so it has no s+n analogue. Rewind of adversarial proofs is specified only up to the point where the C code would read an "
    "uninitialised slot (needs a 2^-129 coincidence).",
    technique="TLA+ spec executed by TLC; adversarial prover in the spec; spec-generated records replayed into the C API; implementation traces validated by TLC",
    design_ref="DESIGN.md §4 C10")

def driver(chk, n):
    rng = random.Random(chk.seed + 10)
    gens = [chk.record([{"e": "RpGenH", "in": {}}], "std")[0]["out"]["gen"]]
    gev = chk.record([{"e": "RpGenerate", "in": {"seed": b32(rng.getrandbits(256))}} for _ in range(2)], "std")
    gens += [e["out"]["gen"] for e in gev if e["out"].get("ret") == 1]
    sess = []
    for _ in range(n):
        span = rng.choice([0, 1, 2, 3, rng.randrange(4, 64)])
        minv = rng.choice([0, 1, rng.getrandbits(40)])
        sess.append(dict(gen=rng.choice(gens), value=minv + span, minv=rng.choice([0, minv]), exp=rng.choice([-1, 0, 0, 1]), mb=rng.choice([0, 0, 3]),
                         blind=rng.randrange(1, N), extra=[rng.randrange(256) for _ in range(rng.choice([0, 1, 20]))]))
    for s in sess:
        if s["value"] - s["minv"] >= 64: s["exp"] = -1      # keep the rings few: exact value for wide spans
    cev = chk.record([{"e": "RpCommit", "in": {"blind": b32(s["blind"]), "value": u64(s["value"]), "gen": s["gen"]}} for s in sess], "std")
    signs = [{"e": "RpSign", "in": {"commit": c["out"]["commit"], "gen": s["gen"], "blind": b32(s["blind"]), "nonce": b32(rng.getrandbits(256)),
                                    "value": u64(s["value"]), "min": u64(s["minv"]), "exp": s["exp"], "min_bits": s["mb"], "extra": s["extra"],
                                    "msg": [rng.randrange(256) for _ in range(rng.choice([0, 0, 5]))] if s["value"] - s["minv"] >= 4 and s["exp"] == 0 else []}}
             for s, c in zip(sess, cev)]
    sev = [e for e in chk.record(signs, "std") if e["out"].get("ret") == 1]
    ver = []
    for k, s in enumerate(sev):
        i, p = s["in"], list(s["out"]["proof"])
        base = {"commit": i["commit"], "gen": i["gen"], "proof": p, "extra": i["extra"]}
        ver.append({"e": "RpVerify", "in": dict(base, nonce=i["nonce"])})
        other = sev[(k + 1) % len(sev)]["in"]
        for _ in range(3):
            m = dict(base); q = list(p); r = rng.random()
            if r < 0.4: bit = rng.randrange(len(q) * 8); q[bit // 8] ^= 1 << (bit % 8); m["proof"] = q
            elif r < 0.5: m["proof"] = q + [rng.randrange(256)]
            elif r < 0.6: m["proof"] = q[:-rng.choice([1, 32])]
            elif r < 0.7: m["commit"] = other["commit"]
            elif r < 0.8: m["gen"] = rng.choice(gens)
            elif r < 0.9: m["extra"] = i["extra"] + [0] if rng.random() < 0.5 else i["extra"][:-1]
            else: q[0] ^= rng.choice([128, 64, 32, 1]); m["proof"] = q
            ver.append({"e": "RpVerify", "in": m})
    return chk.record(ver, "std")

def replay(chk, path):
    """re-execute the records of a violation file on the named build and let TLC decide them again"""
    import vlib
    recs = vlib.read_ndjson(path)
    variant = recs[0].get("variant", "std") if recs and recs[0].get("e") == "Build" else "std"
    recs = [r for r in recs if r.get("e") != "Build"]
    chk.label_of = label
    chk.groups = ["rangeproof"]
    chk.build([variant])
    chk.validate(chk.record(recs, variant), MODULE, TRACE[1], "replay", variant)
    return chk.finish(LEVEL, "replay of " + path, [])

def run(chk):
    quick = chk.tier == "quick"
    chk.label_of = label
    chk.groups = ["rangeproof"]
    variants = ["std"] if quick else ["std", "verify", "i64", "asan"]
    chk.build(variants)
    recs = chk.generate(MODULE, "C10_gen.cfg", "gen", timeout=2400 if quick else 7200)
    for v in variants:
        chk.replay(recs, v, "adversarial range proofs and mutations")
    chk.validate(driver(chk, 8 if quick else 120), MODULE, "C10_trace.cfg", "driver", timeout=2400 if quick else 7200)
    return chk.finish(LEVEL,
        "G: TLC enumerates Cases of C10_RangeVerify.tla: ring-valid proofs built by the specification's adversarial prover for allowed and forbidden headers, "
        "and their mutations, each with the verdict the property demands (checked against the specification's Verify by TLC) and the promised range; replayed "
        "on rangeproof_verify / _info / _rewind. T: library-made proofs and mutated copies decided by TLC. distinct_nontrivial counts distinct "
        "(verdict, header-info, rewind, mantissa) classes.",
        ["overrides agree with the TLA+ definitions (spec/selftest)", "forged rings for mantissa bytes > 63 not generated (would overrun arrays in a broken verifier)"])
