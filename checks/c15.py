"""C15 -- sign-to-contract commitments and the anti-exfil protocol are sound and complete."""
import random
from c01 import b32, edge_scalar, N, P
from c14 import flip, valid_key
LEVEL = "model_checking"
MODULE = "C15_S2c.tla"
TRACE = (MODULE, "C15_trace.cfg")
REG = dict(category="model_checking",
    text="S2C.tla defines sign-to-contract signing (original nonce = first valid RFC 6979 nonce with additional data TaggedHash('s2c/ecdsa/data', datum), tweak "
    "TaggedHash('s2c/ecdsa/point', R || datum), opening R), commitment verification, host commit, signer commit, anti-exfil signing and host verification; the "
    "original nonce has ONE definition used by both signing and signer-commit, so a divergence between the two separately written C derivations (static-context "
    "default nonce function vs. the signing loop bound to the caller's context) is a disagreement. TLC (a) explores the two-party protocol machine (HostCommit, "
    "SignerCommit, HostReveal incl. a cheating reveal, Sign, HostVerify, Restart with the same / different randomness) with the invariants 'committed opening = "
    "opening of the later signature iff the host revealed honestly', 'host accepts iff commitment check and ECDSA verification accept iff it revealed honestly', "
    "'same randomness => same opening, different => different nonce', and every transition is replayed as an API call; (b) generates call records: valid and "
    "invalid keys, messages 0, n-1, n, n+1, 2^256-1, data all-zero/all-one/random, every single-bit flip of signature, datum and 33-byte opening through "
    "verify_commit and (plus message and public key) through host_verify, high-S twin, s = 0, negated opening, committed point as opening, openings through the "
    "parser, both the default context and a context with a replaced (correct) SHA-256 compression function; (c) validates driver traces of repeated protocol runs.",
    note="Trusted: TLC, BigInteger/MessageDigest overrides, harness. The module does not work in the small test groups (a 256-bit hash is >= n and the default "
    "nonce function practically never yields a valid nonce there), so there is no exhaustive direction. Retry branches (invalid nonce, tweak >= n, r = 0) are "
    "specified but cryptographically unreachable. A commitment whose x coordinate is >= n (compared modulo n) has no constructible witness.",
    technique="TLA+ spec executed by TLC (protocol state machine + call-record machine); spec-generated records replayed into the C API; implementation traces validated by TLC",
    design_ref="DESIGN.md §4 C15")


def driver(chk, n):
    """repeated protocol runs recorded from the implementation: commit -> signer commit -> sign -> host verify, restarted with the same and with
    different host randomness, honest and cheating reveals, mutated verification inputs"""
    rng = random.Random(chk.seed + 15)
    runs, first = [], []
    for i in range(n):
        key = valid_key(rng)
        msg = edge_scalar(rng)
        rho = [0] * 32 if rng.random() < 0.1 else b32(rng.getrandbits(256))
        for rep in range(rng.choice([1, 2, 2])):
            rho_r = rho if rep == 0 or rng.random() < 0.5 else b32(rng.getrandbits(256))
            runs.append({"key": b32(key), "msg": b32(msg), "rho": rho_r, "ctx": rng.choice([0, 1])})
    for r in runs:
        first.append({"e": "PubkeyCreate", "in": {"key": r["key"]}})
        first.append({"e": "HostCommit", "in": {"rho": r["rho"], "ctx": r["ctx"]}})
    ev1 = chk.record(first, "std")
    second = []
    for r, pk, hc in zip(runs, ev1[0::2], ev1[1::2]):
        r["pk"], r["c"] = pk["out"]["pk"], hc["out"]["commitment"]
        second.append({"e": "SignerCommit", "in": {"key": r["key"], "msg": r["msg"], "commitment": r["c"], "ctx": rng.choice([0, 1])}})
        r["reveal"] = r["rho"] if rng.random() < 0.8 else b32(rng.getrandbits(256))
        if rng.random() < 0.5:
            second.append({"e": "S2cSign", "in": {"key": r["key"], "msg": r["msg"], "data": r["reveal"], "ctx": rng.choice([0, 1])}})
        else:
            second.append({"e": "AntiExfilSign", "in": {"key": r["key"], "msg": r["msg"], "data": r["reveal"], "ctx": rng.choice([0, 1])}})
    ev2 = chk.record(second, "std")
    third = []
    for r, sc, sg in zip(runs, ev2[0::2], ev2[1::2]):
        op, sig = sc["out"].get("opening"), sg["out"]["sig"]
        if op is None or sg["out"]["ret"] != 1: continue
        x = rng.choice([0, 1])
        third.append({"e": "HostVerify", "in": {"sig": sig, "msg": r["msg"], "pk": r["pk"], "data": r["rho"], "opening": op, "ctx": x}})
        third.append({"e": "S2cVerifyCommit", "in": {"sig": sig, "data": r["reveal"], "opening": op, "ctx": 1 - x}})
        third.append({"e": "S2cOpening", "in": {"opening": op}})
        sig2, data2, op2, msg2 = list(sig), list(r["rho"]), list(op), list(r["msg"])
        m = rng.random()
        if m < 0.25: sig2 = flip(sig, rng.randrange(512))
        elif m < 0.4: data2 = flip(data2, rng.randrange(256))
        elif m < 0.55: op2 = flip(op, rng.randrange(264))
        elif m < 0.65: op2 = [5 - op[0]] + op[1:]
        elif m < 0.75:
            s_int = int.from_bytes(bytes(sig[32:]), "big"); sig2 = sig[:32] + b32(N - s_int)
        elif m < 0.85:
            mi = int.from_bytes(bytes(msg2), "big")
            msg2 = b32(mi + N) if mi + N < 2**256 else (b32(mi - N) if mi >= N else flip(msg2, rng.randrange(256)))
        else: sig2 = sig[:32] + b32(edge_scalar(rng))
        third.append({"e": "HostVerify", "in": {"sig": sig2, "msg": msg2, "pk": r["pk"], "data": data2, "opening": op2, "ctx": x}})
        third.append({"e": "S2cVerifyCommit", "in": {"sig": sig2, "data": data2, "opening": op2}})
    ev3 = chk.record(third, "std")
    return [e for e in ev1 if e["e"] != "PubkeyCreate"] + ev2 + ev3


def run(chk):
    quick = chk.tier == "quick"
    chk.groups = ["keys", "s2c"]
    variants = ["std"] + ([] if quick else ["verify", "i64", "i128s", "noasm"])
    chk.build(variants)
    # the protocol machine: design-level invariants + one call record per transition
    recs = chk.generate(MODULE, "C15_proto.cfg", "proto", timeout=3000)
    for v in variants:
        chk.replay(recs, v, "anti-exfil protocol machine transitions")
    # G: boundary and mutation records
    recs = chk.generate(MODULE, "C15_gen.cfg", "gen", timeout=3000)
    for v in variants:
        chk.replay(recs, v, "generated boundary records")
    # T: driver protocol runs
    chk.validate(driver(chk, 30 if quick else 400), MODULE, "C15_trace.cfg", "driver", timeout=3000)
    return chk.finish(LEVEL,
        "Model: TLC explores the two-party anti-exfil machine of C15_S2c.tla (all runs over pools of keys, messages incl. >= n, three host randomness values; honest "
        "and cheating reveal; restart with same/different randomness) checking four protocol invariants in every state; each transition's call record is executed on "
        "the real API. G: Cases of C15_S2c.tla (sign / anti-exfil sign / signer commit / host commit over boundary pools, all single-bit flips of signature, datum, "
        "opening, message and key through verify_commit and host_verify, structured variants, parser inputs; default and replaced-compression-function contexts). "
        "T: seeded repeated protocol runs recorded from the implementation and decided by TLC. distinct_nontrivial counts distinct (action, specified result) classes.",
        ["overrides BigInteger/MessageDigest agree with the TLA+ definitions (spec/selftest)",
         "no small-group direction: sign-to-contract rejects tweaks >= n and needs valid RFC 6979 nonces",
         "retry branches are specified but cryptographically unreachable"])
