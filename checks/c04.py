"""C04 -- secret-key and public-key operations commute (key derivation algebra); cmp and sort."""
import random
import vlib
from c01 import b32, edge_scalar, N, P
LEVEL = "model_checking"
MODULE = "C04_Keys.tla"
TRACE = (MODULE, "C04_trace.cfg")
GROUPS = ["keys"]
REG = dict(category="model_checking",
    text="KeyAlgebra.tla defines every key operation twice and independently -- on secret scalars and on curve points -- with its documented failure cases "
    "(invalid key, tweak >= n, zero multiplicative tweak, result zero / infinity), plus x-only conversion, the keypair/Taproot tweak, tweak_add_check, the "
    "lexicographic order of compressed encodings and the sorted-permutation post-condition. C04_Keys.tla is a machine over the PAIRED state (d, Q): each step "
    "applies both sides; the invariant checked by TLC in every state is Q = d*G (both sides fail together, the keypair's key and the tweak check agree). "
    "X: in the order-13 group (7 and 199 in the thorough tier) the machine is run to closure over every key and every tweak encoding incl. the overflow encodings, "
    "every transition is replayed on the small-group build, plus all key lists up to length 2-3 for combine/sort, all pairs for cmp, all (key, tweak, claimed x, "
    "parity) for tweak_add_check. G: real-group one-step chains of every op x 20 boundary tweak kinds (0, 1, n-1, n, -key, -key+1, -key-1, -key+n, 2^256-1, 2^128, "
    "lambda, n-lambda, (n+-1)/2, 1/key, random) from boundary keys, seeded random mixed chains of up to 6 steps, combine lists with cancelling pairs at every "
    "position (with the theorem combine(d_i*G) = (sum d_i)*G), cmp pairs incl. same-x keys, sort lists of lengths 0,1,2,3,5,8,39,40,41,64,200 (scrambled, with "
    "duplicates, aliased pointers, mixed encodings), tweak_add_check with wrong parity / key / tweak. HeapSort.tla is a PlusCal transcription of src/hsort_impl.h "
    "model-checked over all arrays of length <= 6 over 3 keys (thorough: <= 7 over 4 keys; permutation, loop invariants, sorted at end, termination) and bound to the C function by comparing "
    "result and number of comparison-callback invocations for every such array. T: driver chains seeded from the implementation's own outputs decided by TLC.",
    note="Trusted: TLC, BigInteger/MessageDigest overrides, harness interpreter. Real-group keys and tweaks are a structured pool plus seeded random values; exhaustive "
    "only in the small groups (scalar_low_impl.h). One-step transitions from every reachable paired state cover all sequences because the API is a function of "
    "its arguments (history independence is C20's subject). The bytes of a secret key after a failing call are only required to be no valid key.",
    technique="TLA+ spec executed by TLC; paired state machine run to closure in the small groups; spec-generated records replayed into the C API; implementation "
    "traces validated by TLC; PlusCal transcription of the heap sort model-checked and bound to the C function",
    design_ref="DESIGN.md §4 C04")


def neg33(pk):
    return [5 - pk[0]] + pk[1:]

def tw(rng, sk=None):
    """edge-biased 32-byte tweak; with sk (int) also tweaks relative to the key"""
    pool = [0, 1, 2, N - 1, N, N + 1, 2**256 - 1, 2**128, 2**128 - 1, (N - 1) // 2, (N + 1) // 2, 2**255]
    if sk is not None:
        pool += [N - sk, (N - sk + 1) % N, (N - sk - 1) % N, pow(sk, -1, N), sk, min(2 * N - sk, 2**256 - 1)] * 2
    r = rng.random()
    if r < 0.5: return b32(rng.choice(pool))
    if r < 0.6: return b32(rng.getrandbits(rng.choice([8, 64, 128, 129, 200])))
    return b32(rng.getrandbits(256) if rng.random() < 0.2 else rng.randrange(N))

def op(k, t=None):
    return {"op": k, "t": t if t is not None else []}

def rand_ops(rng, n, sk=None):
    ops = []
    for j in range(n):
        k = rng.choice([1, 1, 2, 2, 3, 4, 5, 5])
        ops.append(op(k, tw(rng, sk if j == 0 else None) if k in (1, 2, 5) else None))
    return ops

def driver(chk, n):
    rng = random.Random(chk.seed + 4)
    first = []
    for _ in range(n):
        key = edge_scalar(rng) if rng.random() < 0.25 else rng.randrange(1, N)
        first.append({"e": "KeyChain", "in": {"key": b32(key), "ops": rand_ops(rng, rng.randrange(1, 7), key if 0 < key < N else None)}})
    for _ in range(n // 3):
        k = b32(edge_scalar(rng))
        first.append({"e": rng.choice(["PubkeyCreate", "KeypairCreate"]), "in": {"key": k}})
    ev1 = chk.record(first, "std")
    # stage 2: continue from the states the implementation reached, with tweaks relative to ITS secret key
    second, pool = [], []
    for ev in ev1:
        if ev["e"] != "KeyChain" or not ev["out"].get("cret"): continue
        pool.append(ev["out"]["pk0"])
        prev_pk = ev["out"]["pk0"]
        for st, o in zip(ev["out"]["steps"], ev["in"]["ops"]):
            if o["op"] == 5 and st.get("pkok"):
                good = {"ix": prev_pk[1:], "t": o["t"], "ox": st["pk"][1:], "par": st["pk"][0] - 2}
                second.append({"e": "XonlyTweakCheck", "in": dict(good)})
                bad = dict(good); m = rng.randrange(4)
                if m == 0: bad["par"] = 1 - bad["par"]
                elif m == 1: bad["ox"] = list(prev_pk[1:])
                elif m == 2: bad["t"] = b32((int.from_bytes(bytes(o["t"]), "big") + 1) % 2**256)
                else: bad["par"] = rng.choice([2, -1, 3])
                second.append({"e": "XonlyTweakCheck", "in": bad})
            if st.get("pkok"): prev_pk = st["pk"]; pool.append(st["pk"])
        last = ev["out"]["steps"][-1] if ev["out"]["steps"] else None
        if last and last.get("skok") and rng.random() < 0.7:
            sk = int.from_bytes(bytes(last["sk"]), "big")
            second.append({"e": "KeyChain", "in": {"key": last["sk"], "ops": rand_ops(rng, rng.randrange(1, 4), sk)}})
    more = chk.record([{"e": "PubkeyCreate", "in": {"key": b32(rng.randrange(1, N))}} for _ in range(60)], "std")
    pool += [m["out"]["pk"] for m in more]
    pool = [p for p in pool if any(p)]
    # combine: cancelling pairs at arbitrary positions, duplicates
    for _ in range(max(10, n // 2)):
        k = rng.randrange(0, 6); lst = [rng.choice(pool) for _ in range(k)]
        m = rng.random()
        if m < 0.3 and lst: lst.insert(rng.randrange(len(lst) + 1), neg33(rng.choice(lst)))
        elif m < 0.5: lst = lst + [neg33(p) for p in lst]; rng.shuffle(lst)
        elif m < 0.6 and lst: lst = lst + [lst[0]]
        second.append({"e": "PubkeyCombine", "in": {"pks": lst}})
    for _ in range(max(10, n // 2)):
        a = rng.choice(pool); b = rng.choice([rng.choice(pool), a, neg33(a)])
        second.append({"e": "PubkeyCmp", "in": {"a": a, "b": b}})
    for ln in [0, 1, 2, 3, 39, 40, 41, 64, 200] + [rng.randrange(2, 80) for _ in range(6)]:
        src = pool if rng.random() < 0.6 else pool[:max(1, ln // 3)]
        lst = [rng.choice(src) for _ in range(ln)]
        if rng.random() < 0.3: lst = [neg33(p) if rng.random() < 0.5 else p for p in lst]
        rec = {"e": "PubkeySort", "in": {"pks": lst}}
        if rng.random() < 0.2 and ln > 4: rec["in"]["alias"] = rng.choice([2, 3, 5])
        second.append(rec)
    return ev1 + chk.record(second, "std")


def classify(r):
    o = r.get("out", {})
    if r["e"] == "KeyChain":
        ops = r["in"].get("ops", [])
        st = o.get("steps", [])
        last = st[-1] if st else {}
        return "KeyChain/ops=%s/n=%d/last=%s%s" % ("".join(str(x["op"]) for x in ops[:3]), len(st), last.get("sret", "-"), last.get("pret", "-"))
    if r["e"] in ("PubkeySort", "PubkeyCombine"):
        return "%s/n=%s/ret=%s" % (r["e"], min(len(r["in"]["pks"]), 50), o.get("ret"))
    if r["e"] == "PubkeyCmp":
        return "PubkeyCmp/sign=%s" % o.get("sign")
    if r["e"] == "HsortInts":
        return "HsortInts/n=%d" % len(r["in"]["arr"])
    return "%s/ret=%s" % (r["e"], o.get("ret"))


def run(chk):
    quick = chk.tier == "quick"
    chk.groups = GROUPS
    chk.label_of = classify
    orders = [13] if quick else [7, 13, 199]
    std_like = ["std", "i64", "noasm"] + ([] if quick else ["verify", "i128s"])      # i64: the 8x32 scalar and 10x26 field back ends
    chk.build(std_like + ["tiny%d" % o for o in orders])
    # design-level model of the transcribed heap sort + binding of the transcription to secp256k1_hsort
    recs = chk.generate("HeapSort.tla", "C04_hsort.cfg" if quick else "C04_hsort_thorough.cfg", "hsort", timeout=3000)
    chk.replay(recs, "std", "heap sort transcription vs secp256k1_hsort (result and number of comparisons)")
    # X: the paired machine run to closure in the small groups; lists, pairs, tweak checks
    for o in orders:
        recs = chk.generate(MODULE, "C04_tiny%d.cfg" % o, "tiny%d" % o, timeout=3000)
        chk.replay(recs, "tiny%d" % o, "order-%d group: every transition of the paired machine; all lists/pairs/tweak checks" % o)
    chk.exhaustive = True
    # G: real group
    recs = chk.generate(MODULE, "C04_gen.cfg", "gen", timeout=3000)
    for v in std_like:
        chk.replay(recs, v, "generated chains, combine, cmp, sort")
    # T
    chk.validate(driver(chk, 60 if quick else 1200), MODULE, "C04_trace.cfg", "driver", timeout=3000)
    return chk.finish(LEVEL,
        "X: paired (secret, public) state machine of C04_Keys.tla run to closure in the order-13 (7, 199) group with the invariant Q = d*G, every transition replayed "
        "on the small-group build; G: real-group chains with boundary tweaks, combine with cancelling pairs, cmp, sort (lengths to 200 with duplicates), tweak checks, "
        "all executed on the real API; HeapSort.tla model-checked over all small arrays and bound to secp256k1_hsort; T: driver chains continued from the "
        "implementation's own states, decided by TLC. distinct_nontrivial counts distinct (action, op sequence prefix, result) labels.",
        ["overrides agree with the TLA+ definitions (spec/selftest)", "small-group builds use scalar_low_impl.h",
         "history independence of the API is assumed here (C20)"])


def replay(chk, path):
    recs = vlib.read_ndjson(path)
    variant = recs[0].get("variant", "std") if recs and recs[0].get("e") == "Build" else "std"
    recs = [r for r in recs if r.get("e") != "Build"]
    chk.groups = GROUPS
    chk.build([variant])
    ev = chk.record(recs, variant)
    if variant.startswith("tiny"):
        chk.replay([r for r in recs if "out" in r], variant, "replay of " + path)
    else:
        chk.validate(ev, MODULE, "C04_trace.cfg", "replay", variant)
    return chk.finish(LEVEL, "replay of " + path, [])
