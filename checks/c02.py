"""C02 -- BIP-340 Schnorr signing and verification are exact."""
import random
from c01 import b32, edge_scalar, N, P
LEVEL = "model_checking"
GROUPS = ["ecdsa", "schnorr", "keys"]
REPLAY_STATELESS = True
MODULE = "C02_Schnorr.tla"
TRACE = (MODULE, "C02_trace.cfg")
REG = dict(category="model_checking",
    text="Bip340.tla is BIP-340 written from the BIP text (tagged hashes computed from the tag strings, so a wrong midstate/mask constant in the C code is a "
    "disagreement). TLC enumerates the small test groups completely (all keys of both parities, all nonces, all (r32, s) pairs incl. non-canonical s+n encodings, "
    "with the invariant 'Verify accepts exactly what signing can produce'), generates real-group records (every message length 0..300 in the thorough tier and the "
    "block-boundary lengths in the quick tier, aux NULL/zero/random through sign32 and the three sign_custom routes, all 512 single-bit flips of a valid signature, "
    "odd-y R, R at infinity, r >= p, s >= n, off-curve r and keys) replayed on the real API, and validates implementation traces.",
    note="Trusted: TLC, overrides, harness. Valid signatures with s+n re-encodings are not constructible on secp256k1; that clause is decided in the small groups only.",
    technique="TLA+ spec executed by TLC; spec-generated records replayed into the C API; implementation traces validated by TLC; exhaustive small-group comparison",
    design_ref="DESIGN.md §4 C02")

def driver(chk, n):
    rng = random.Random(chk.seed + 2)
    signs = []
    for i in range(n):
        key = rng.randrange(1, N) if rng.random() < 0.8 else edge_scalar(rng)
        mode = rng.choice([0, 1, 2, 4])
        mlen = 32 if mode == 0 else rng.choice([0, 1, 32, 33, 63, 64, 65, 100, 299, 300, 301, 500, rng.randrange(0, 2000)])
        rec = {"e": "SchnorrSign", "in": {"key": b32(key), "msg": [rng.randrange(256) for _ in range(mlen)], "mode": mode}}
        if rng.random() < 0.6 and mode != 1: rec["in"]["aux"] = b32(rng.getrandbits(256)) if rng.random() < 0.8 else [0] * 32
        signs.append(rec)
    keys = [{"e": "PubkeyCreate", "in": {"key": s["in"]["key"]}} for s in signs]
    ev_sign = chk.record(signs, "std"); ev_keys = chk.record(keys, "std")
    second = []
    for s, k in zip(ev_sign, ev_keys):
        if s["out"].get("ret") != 1: continue
        sig, msg, pk = s["out"]["sig"], s["in"]["msg"], k["out"]["pk"][1:]
        second.append({"e": "SchnorrVerify", "in": {"sig": sig, "msg": msg, "pk": pk}})
        sig2, msg2, pk2 = list(sig), list(msg), list(pk)
        m = rng.random()
        if m < 0.4: bit = rng.randrange(512); sig2[bit // 8] ^= 1 << (bit % 8)
        elif m < 0.6 and msg2: bit = rng.randrange(len(msg2) * 8); msg2[bit // 8] ^= 1 << (bit % 8)
        elif m < 0.7: msg2 = msg2 + [0]
        elif m < 0.8: pk2 = b32(edge_scalar(rng))
        elif m < 0.9: sig2 = b32(edge_scalar(rng)) + sig[32:]
        else: sig2 = sig[:32] + b32(edge_scalar(rng))
        second.append({"e": "SchnorrVerify", "in": {"sig": sig2, "msg": msg2, "pk": pk2}})
    return ev_sign + chk.record(second, "std")

def run(chk):
    quick = chk.tier == "quick"
    chk.build(["std", "i64", "tiny13"] + ([] if quick else ["tiny7", "tiny199", "verify", "i64", "i128s", "noasm"]))
    for o in ([13] if quick else [7, 13, 199]):
        recs = chk.generate(MODULE, "C02_tiny%d.cfg" % o, "tiny%d" % o, timeout=3000)
        chk.replay(recs, "tiny%d" % o, "exhaustive order-%d group" % o)
    chk.exhaustive = True
    recs = chk.generate(MODULE, "C02_gen.cfg", "gen", timeout=3000)
    for v in (["std", "i64"] if quick else ["std", "verify", "i64", "i128s", "noasm"]):
        chk.replay(recs, v, "generated boundary records")
    chk.validate(driver(chk, 150 if quick else 1500), MODULE, "C02_trace.cfg", "driver")
    return chk.finish(LEVEL,
        "G: TLC enumerates Cases of C02_Schnorr.tla (keys of both parities, message lengths, aux variants, sign routes, every single-bit flip of a valid signature, "
        "structured invalid encodings); X: every key/nonce/(r,s)/x-only key of the order-7/13/199 groups; T: seeded random calls recorded from the implementation "
        "and decided by TLC. distinct_nontrivial counts distinct (action, specified result) classes.",
        ["overrides agree with the TLA+ definitions (spec/selftest)", "small-group builds use scalar_low_impl.h"])
