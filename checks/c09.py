"""C09 -- every range proof the library creates verifies, bounds the value and rewinds."""
import random
LEVEL = "model_checking"
MODULE = "C09_RangeProve.tla"
GROUPS = ["rangeproof"]
TRACE = (MODULE, "C09_trace.cfg")
REG = dict(category="model_checking",
    text="RangeProof.tla specifies the Borromean range proof from the format in include/secp256k1_rangeproof.h (header codec, Verify, Info, Rewind, MaxSize) and "
    "contains a deliberate transcription of the parameter clamps (secp256k1_range_proveparams) in 64-bit arithmetic (U64.tla) plus the deterministic prover "
    "(RFC 6979 DRBG stream, message/value embedding, Borromean signing), so TLC predicts every proof BYTE for byte. (P) TLC model-checks the design-level "
    "post-conditions of the clamps (v*scale+min = value exactly, rings <= 32, npub <= 128, proven range inside [0,2^64) and containing the value, digits = v, "
    "the written header decodes to the same range, size <= MaxSize <= 5134, relation to the documented parameter domain) over EDGE_U64^2 x exp[-2,19] x "
    "min_bits[-1,65]; a sample of these states is replayed on the real static function. (G) TLC generates sign calls over a parameter grid, the 2^63 guards, "
    "argument ranges, buffers 0..5134, messages 0..4000 against the capacity, extra data 0..100, blinding factors 0 / n-1 / n / n+1 / 2^256-1 / the zero-sum "
    "one, several nonces and generators, 63/64-bit mantissas; for each record TLC itself proves on the specified proof: Verify = 1, range = Info = parameter "
    "range, min <= value <= max < 2^64, length <= buffer and <= MaxSize, Rewind(nonce) = (value, blind, zero-padded message), Rewind(other nonce) fails; the "
    "implementation must return the same bytes twice and the same verify/info/rewind results. (T) seeded random sign calls are recorded from the library and "
    "the LIBRARY's proof bytes are verified and rewound by TLC.",
    note="Trusted: TLC, BigInteger/MessageDigest overrides, the harness. Parameter space is a structured pool plus seeded values, not all of 2^64^2. Refused "
    "corner value = min_value = 2^63-1 (exp >= 0) and the tolerated classes (exp = -1, min_value = 2^64-1, exp > 0 with value >= 2^63 and min_value = 0: "
    "exponent silently dropped) are stated as invariants of the transcription. An exact-value proof needs an output buffer 32 bytes larger than the proof "
    "(npub = 2 in the size test): specified as transcribed, see notes/C09.md. DRBG retry branches and 'hash >= n' are specified but unreachable.",
    technique="TLA+ spec executed by TLC; design-level model of the clamp logic; spec-generated records with byte-exact predicted proofs replayed into the C API; "
    "implementation traces (library-made proofs) verified and rewound by TLC",
    design_ref="DESIGN.md §4 C09")
N = 0xFFFFFFFFFFFFFFFFFFFFFFFFFFFFFFFEBAAEDCE6AF48A03BBFD25E8CD0364141
# clamp branches inside the signer's domain: each must occur among the replayed parameter states (vacuity guard of the P model)
BRANCHES = {"guard63", "min=max64", "exact", "mb-clamped+exp-reduced", "mb-clamped", "exp-disabled", "exp-reduced", "mantissa=min_bits", "odd-mantissa",
            "even-mantissa"}

def b32(x): return list(x.to_bytes(32, "big"))
def u64(x): return list(x.to_bytes(8, "big"))

def rings_of(value, minv, exp, mb):
    """ring count the library will choose (input shaping only: used to size the run and to aim message lengths at the
    capacity boundary, never to judge a result); None if the parameters are refused"""
    U, I = 2**64 - 1, 2**63 - 1
    if minv > value or not 0 <= mb <= 64 or not -1 <= exp <= 18: return None
    if minv == U or exp < 0: return 1
    if (minv and value > I) or (value and minv >= I): return None
    mb = min(mb, 64 - minv.bit_length() if minv else 64)
    if mb > 61 or value > I: exp = 0
    v, v2, i = value - minv, ((U >> (64 - mb)) if mb else 0), 0
    while i < exp and v2 <= U // 10: v //= 10; v2 *= 10; i += 1
    return (max(v.bit_length(), mb, 1) + 1) // 2

def label(r):
    o, i = r.get("out", {}), r.get("in", {})
    if r["e"] == "RpParams":
        return "RpParams/%s/ok=%s" % (i.get("br"), o.get("ok"))
    if r["e"] == "RpSign":
        return "RpSign/ret=%s/vret=%s/rret=%s/exp=%s/mant=%s" % (o.get("ret"), o.get("vret"), o.get("rret"), o.get("iexp"), o.get("imant"))
    if r["e"] == "RpVerify":
        return "RpVerify/vret=%s/iret=%s/rret=%s/mant=%s" % (o.get("vret"), o.get("iret"), o.get("rret"), o.get("imant"))
    return "%s/ret=%s" % (r["e"], o.get("ret", o.get("size", "?")))

def driver(chk, n_small, n_big):
    rng = random.Random(chk.seed + 9)
    gens = [chk.record([{"e": "RpGenH", "in": {}}], "std")[0]["out"]["gen"]]
    gev = chk.record([{"e": "RpGenerate", "in": {"seed": b32(rng.getrandbits(256))}} for _ in range(3)], "std")
    gens += [e["out"]["gen"] for e in gev if e["out"].get("ret") == 1]
    sess = []
    for k in range(n_small + n_big):
        big = k >= n_small
        if big:
            value = rng.choice([2**64 - 1, rng.getrandbits(64) | 2**63, 2**63 - 1]); minv = 0; exp = 0; mb = 0
        else:
            span = rng.choice([0, 1, 2, 3, rng.randrange(4, 64), rng.randrange(1, 4) * 10 ** rng.randrange(1, 4)])
            minv = rng.choice([0, 0, 1, rng.getrandbits(rng.choice([8, 32, 62]))])
            value = minv + span
            exp = rng.choice([-1, 0, 0, 1, 2, 3, 18])
            mb = rng.choice([0, 0, 1, 2, 3, 5, 6])
            r = rng.random()
            if r < 0.04: minv, value = value + 1, value                 # min > value
            elif r < 0.08: exp = rng.choice([-2, 19])
            elif r < 0.12: mb = rng.choice([-1, 65])
            elif r < 0.18: value = rng.choice([2**63 - 1, 2**63, 2**64 - 1]); minv = rng.choice([1, value])   # guards / exact for min = value = max
        blind = rng.randrange(1, N)
        r = rng.random()
        if r < 0.05: blind = rng.choice([N, N + 1, 2**256 - 1])
        elif r < 0.10: blind = 0
        rings = rings_of(value, minv, exp, mb) or 1
        cap = 128 * (rings - 1)
        ml = rng.choice([None, 0, min(cap, 1), min(cap, 40), cap, cap, cap + 1]) if not big else rng.choice([cap, 3000])
        xl = rng.choice([None, 0, 1, 32, rng.randrange(0, 101)])
        sess.append(dict(big=big, gen=rng.choice(gens), value=value, minv=minv, exp=exp, mb=mb, blind=blind, nonce=b32(rng.getrandbits(256)),
                         msg=None if ml is None else [rng.randrange(256) for _ in range(ml)],
                         extra=None if xl is None else [rng.randrange(256) for _ in range(xl)],
                         plen=rng.choice([5134] * 8 + [rng.randrange(0, 5135), rng.choice([64, 65, 100])])))
    cev = chk.record([{"e": "RpCommit", "in": {"blind": b32(s["blind"] % N or 1), "value": u64(s["value"]), "gen": s["gen"]}} for s in sess], "std")
    signs = []
    for s, c in zip(sess, cev):
        if c["out"].get("ret") != 1: continue
        i = {"commit": c["out"]["commit"], "gen": s["gen"], "blind": b32(s["blind"]), "nonce": s["nonce"], "nonce2": b32(rng.getrandbits(256)),
             "value": u64(s["value"]), "min": u64(s["minv"]), "exp": s["exp"], "min_bits": s["mb"], "plen": s["plen"], "mlen": rng.choice([4096, 4096, 0, 50])}
        if s["msg"] is not None: i["msg"] = s["msg"]
        if s["extra"] is not None: i["extra"] = s["extra"]
        signs.append({"e": "RpSign", "in": i, "big": s["big"]})
    sev = chk.record(signs, "std")
    for e, sg in zip(sev, signs): e["big"] = sg["big"]
    ver = []
    for s in sev:
        o, i = s["out"], s["in"]
        if o.get("ret") != 1: continue
        base = {"commit": i["commit"], "gen": i["gen"], "proof": o["proof"], "nonce": i["nonce"]}
        if "extra" in i: base["extra"] = i["extra"]
        if s.get("big"):
            ver.append({"e": "RpVerify", "in": dict(base)})             # 32-ring proof: the library's bytes verified and rewound by TLC
            continue                                                    # (small calls: Judge does that inside the RpSign event)
        m = dict(base); r = rng.random(); p = list(o["proof"])
        if r < 0.35: bit = rng.randrange(len(p) * 8); p[bit // 8] ^= 1 << (bit % 8); m["proof"] = p
        elif r < 0.5: m["nonce"] = i["nonce2"]
        elif r < 0.65: m["extra"] = (i.get("extra") or []) + [1]
        elif r < 0.8: m["proof"] = p + [0]
        else: m["proof"] = p[:-1]
        ver.append({"e": "RpVerify", "in": m})
    # TLC re-derives the proof bytes of the small sign calls; for the 32-ring ones it verifies and rewinds the library's bytes only
    # (their byte-exact prediction is part of the generated records)
    sev_small = [{k: v for k, v in e.items() if k != "big"} for e in sev if not e["big"]]
    return cev + sev_small + chk.record(ver, "std")

def replay(chk, path):
    """re-execute the records of a violation file on the named build and let TLC decide them again"""
    import vlib
    recs = vlib.read_ndjson(path)
    variant = recs[0].get("variant", "std") if recs and recs[0].get("e") == "Build" else "std"
    recs = [r for r in recs if r.get("e") != "Build"]
    chk.label_of = label
    chk.groups = ["rangeproof"]
    chk.build([variant])
    chk.validate(chk.record(recs, variant), MODULE, TRACE[1], "replay", variant)
    return chk.finish(LEVEL, "replay of " + path, [])

def run(chk):
    quick = chk.tier == "quick"
    chk.label_of = label
    chk.groups = ["rangeproof"]
    variants = ["std"] if quick else ["std", "verify", "i64", "asan"]
    chk.build(variants)
    # P: design-level model of the clamp logic (+ a sample of its states replayed on the real static function)
    precs = chk.generate(MODULE, "C09_params.cfg", "params", timeout=1200 if quick else 3000)
    seen = {r["in"]["br"] for r in precs}
    chk.notes.append("clamp branches among the replayed parameter states: " + ", ".join(sorted(seen)))
    if BRANCHES - seen:
        from vlib import Infra
        raise Infra("parameter model is vacuous for clamp branches %s" % sorted(BRANCHES - seen))
    for v in variants:
        chk.replay(precs, v, "parameter derivation states")
    # G: sign records with predicted proof bytes and the soundness theorems evaluated by TLC
    recs = chk.generate(MODULE, "C09_gen.cfg", "gen", timeout=2400 if quick else 7200)
    for v in variants:
        chk.replay(recs, v, "generated range-proof creation records", soft={"RpSign": ["proof"]}, soft_trace=TRACE)
    # T: library-made proofs verified and rewound by TLC
    events = driver(chk, 24 if quick else 300, 1 if quick else 6)
    chk.validate(events, MODULE, "C09_trace.cfg", "driver", timeout=2400 if quick else 7200)
    return chk.finish(LEVEL,
        "P: TLC checks the post-conditions of the transcribed clamp logic on every state of EDGE_U64^2 x exp[-2,19] x min_bits[-1,65] and a sample is executed "
        "on secp256k1_range_proveparams; G: TLC enumerates Cases of C09_RangeProve.tla (grid, 2^63 guards, argument ranges, buffers, message/extra lengths, "
        "blinding factors, nonces, generators, 63/64-bit mantissas) with byte-exact predicted proofs and proves Verify/Info/Rewind/MaxSize on each; T: seeded "
        "random sign calls, the library's proofs verified and rewound by TLC, plus mutated copies. distinct_nontrivial counts distinct (action, clamp branch or "
        "result/exponent/mantissa) classes.",
        ["overrides agree with the TLA+ definitions (spec/selftest)", "DRBG retry and hash >= n branches specified, not reached",
         "the signer does not check that the commitment opens to (blind, value); the promises are specified for commitments that do"])
