"""C14 -- ECDSA adaptor signatures are consistent end-to-end and verified exactly."""
import random
from c01 import b32, edge_scalar, N, P
LEVEL = "model_checking"
MODULE = "C14_Adaptor.tla"
TRACE = (MODULE, "C14_trace.cfg")
REG = dict(category="model_checking",
    text="EcdsaAdaptor.tla + Dleq.tla define the 162-byte codec with its range rules, encrypted signing with the module's nonce function (tagged hashes computed "
    "from the tag strings, aux present/absent, caller-supplied nonce function), the DLEQ proof system, adaptor verification (= DLEQ proof and adaptor equation), "
    "decryption with low-S normalisation and decryption-key recovery with sign disambiguation. TLC (a) enumerates the order-13 (thorough: 7/199) test groups: every "
    "signing key x decryption key x message residue x nonce through the whole pipeline, every value of every field of honest adaptor signatures (incl. overflow "
    "encodings), every ECDSA signature object against recovery, with the design-level invariants 'encrypt -> verify = 1 -> decrypt -> low-S ECDSA signature verifies "
    "-> recover returns the decryption key, also from the negated-s twin and for -Y' and 'accepted + true DLEQ statement => decryptable'; (b) generates real-group "
    "records: keys in {1, n-1, 2, n-2, (n-1)/2, random}, messages 0, 1, n-1, n, n+1, 2^256-1, all 1296 single-bit flips of one honest adaptor signature through verify, "
    "decrypt and recover, every scalar replaced by 0/1/n-1/n/n+1/s+n/2^256-1, points negated/off-curve/x>=p/other prefixes/exchanged, all bit flips of message and both "
    "keys, low-S boundary decryptions, unrelated and scaled ECDSA signatures for recovery, failing nonce callbacks, s' = 0; (c) validates implementation traces of "
    "driver pipelines. Every record is executed on the real API and every specified output compared.",
    note="Trusted: TLC, BigInteger/MessageDigest overrides, the harness interpreter. Real-group inputs are a structured finite pool plus seeded random values; "
    "exhaustive only in the small groups. The challenge e of the DLEQ proof is read modulo n by design of the codec (the repository's tests assert it), so e+n is an "
    "accepted re-encoding where it fits in 32 bytes -- witnesses exist only in the small groups. Small-group builds (scalar_low_impl.h + VERIFY) abort on the "
    "inverse of zero, so s = 0 / decryption key = 0 (mod n) are decided in the real group only.",
    technique="TLA+ spec executed by TLC; spec-generated records replayed into the C API; implementation traces validated by TLC; exhaustive small-group comparison",
    design_ref="DESIGN.md §4 C14")


def flip(b, bit):
    b = list(b); b[bit // 8] ^= 0x80 >> (bit % 8); return b


def src_fields(rng):
    r = rng.random()
    if r < 0.3: return {"nf": 0}
    if r < 0.5: return {"nf": rng.choice([0, 1]), "aux": b32(rng.getrandbits(256)) if rng.random() < 0.8 else [0] * 32}
    if r < 0.6: return {"nf": 1}
    d = {"nf": 2}
    if rng.random() < 0.93: d["k1"] = b32(edge_scalar(rng) if rng.random() < 0.3 else rng.getrandbits(256))
    if rng.random() < 0.93: d["k2"] = b32(edge_scalar(rng) if rng.random() < 0.3 else rng.getrandbits(256))
    return d


def valid_key(rng):
    return rng.choice([1, 2, N - 1, N - 2, (N - 1) // 2, (N + 1) // 2]) if rng.random() < 0.3 else rng.randrange(1, N)


def driver(chk, n):
    rng = random.Random(chk.seed + 14)
    pipes = []
    for i in range(n):
        key = edge_scalar(rng) if rng.random() < 0.2 else valid_key(rng)
        rec = {"e": "AdaptorPipeline", "in": {"key": b32(key), "deckey": b32(valid_key(rng)), "msg": b32(edge_scalar(rng))}}
        rec["in"].update(src_fields(rng))
        pipes.append(rec)
    ev1 = chk.record(pipes, "std")
    second = []
    for p in ev1:
        i, o = p["in"], p["out"]
        src = {k: i[k] for k in ("nf", "aux", "k1", "k2") if k in i}
        enc = {"e": "AdaptorEncrypt", "in": dict({"key": i["key"], "enckey": o["enckey"], "msg": i["msg"]}, **src)}
        second.append(enc)
        if o["ret"] != 1: continue
        asig, sig, pk, ek, msg = o["asig"], o["sig"], o["pk"], o["enckey"], i["msg"]
        second.append({"e": "AdaptorVerify", "in": {"asig": asig, "pk": pk, "msg": msg, "enckey": ek}})
        a2, m2, pk2, ek2 = list(asig), list(msg), pk, ek
        m = rng.random()
        if m < 0.35: a2 = flip(asig, rng.randrange(1296))
        elif m < 0.55:
            off = rng.choice([1, 66, 98, 130]); a2[off:off + 32] = b32(edge_scalar(rng))
        elif m < 0.65: m2 = flip(msg, rng.randrange(256))
        elif m < 0.72:
            mi = int.from_bytes(bytes(msg), "big")
            if mi + N < 2**256: m2 = b32(mi + N)
            elif mi >= N: m2 = b32(mi - N)
        elif m < 0.8: pk2, ek2 = ek, pk
        elif m < 0.85: a2[0] ^= 1
        elif m < 0.9: a2[33] ^= 1
        else: a2[rng.choice([0, 33])] = rng.choice([0, 1, 4, 6, 7, 0x0a, 0x12, 0x22, 0x42, 0x82, 0x83, 0xfe, 0xff, rng.randrange(256)])   # other tag bytes
        second.append({"e": "AdaptorVerify", "in": {"asig": a2, "pk": pk2, "msg": m2, "enckey": ek2}})
        second.append({"e": "AdaptorDecrypt", "in": {"deckey": i["deckey"], "asig": a2}})
        second.append({"e": "AdaptorDecrypt", "in": {"deckey": b32(edge_scalar(rng)), "asig": asig}})
        second.append({"e": "EcdsaVerify", "in": {"sig": sig, "msg": msg, "pk": pk}})
        s_int = int.from_bytes(bytes(sig[32:]), "big")
        twin = sig[:32] + b32(N - s_int)
        negek = [5 - ek[0]] + ek[1:]
        second.append({"e": "AdaptorRecover", "in": {"sig": twin, "asig": asig, "enckey": rng.choice([ek, negek])}})
        second.append({"e": "AdaptorRecover", "in": {"sig": rng.choice([sig, twin]), "asig": a2, "enckey": ek}})
        sig2 = rng.choice([flip(sig, rng.randrange(512)), sig[:32] + b32(edge_scalar(rng)), b32(edge_scalar(rng)) + sig[32:]])
        second.append({"e": "AdaptorRecover", "in": {"sig": sig2, "asig": asig, "enckey": rng.choice([ek, pk])}})
    return ev1 + chk.record(second, "std")


def run(chk):
    quick = chk.tier == "quick"
    chk.groups = ["ecdsa", "keys", "adaptor"]
    chk.build(["std", "tiny13"] + ([] if quick else ["tiny7", "tiny199", "verify", "i64", "i128s", "noasm"]))
    for o in ([13] if quick else [7, 13, 199]):
        recs = chk.generate(MODULE, "C14_tiny%d.cfg" % o, "tiny%d" % o, timeout=3000)
        chk.replay(recs, "tiny%d" % o, "exhaustive order-%d group" % o)
    chk.exhaustive = True
    recs = chk.generate(MODULE, "C14_gen.cfg", "gen", timeout=3000)
    for v in (["std"] if quick else ["std", "verify", "i64", "i128s", "noasm"]):
        chk.replay(recs, v, "generated boundary records")   # (the s = 0 abort on VERIFY builds was finding F2, fixed in /repo 66e0535)
    chk.validate(driver(chk, 30 if quick else 400), MODULE, "C14_trace.cfg", "driver", timeout=3000)
    return chk.finish(LEVEL,
        "G: TLC enumerates Cases of C14_Adaptor.tla (pipelines over boundary keys/messages/nonce sources; all 1296 single-bit flips of an honest adaptor signature "
        "through verify, decrypt and recover; scalar and point replacements; bit flips of message and keys; low-S boundary decryptions; related/unrelated ECDSA "
        "signatures for recovery; failing encryptions) and every record is executed on the real API; X: the order-13 (thorough: 7, 199) group -- every key pair, "
        "message residue and nonce through the pipeline, every value of every field of honest signatures, every ECDSA signature object for recovery; T: seeded "
        "driver pipelines with mutations recorded from the implementation and decided by TLC. distinct_nontrivial counts distinct (action, specified result) classes.",
        ["overrides BigInteger/MessageDigest agree with the TLA+ definitions (spec/selftest)",
         "tiny-group builds use scalar_low_impl.h: they decide API logic, not the real scalar arithmetic; they abort on inverse-of-zero, so s = 0 and "
         "decryption key = 0 (mod n) are decided in the real group only",
         "DLEQ soundness is computational: the spec decides the verification equation, not the existence of a witness"])
