"""C05 -- arithmetic and hashing kernel is mathematically exact on every configuration (exploration)."""
import collections, json, random, os, concurrent.futures as cf
import vlib, engine
from vlib import Infra, log
LEVEL = "exploration"
MODULE = "C05_Kernel.tla"
TRACE = (MODULE, "C05_trace.cfg")
REG = dict(category="exploration",
    text="Five specifications executed by TLC and bound to the INTERNAL routines of the library (the harness includes secp256k1.c). (1) FieldApi.tla transcribes the "
    "contract of src/field.h as a register machine (value mod p, magnitude, normalized); C05_Field.tla lets TLC explore every operation sequence to a depth bound "
    "from an edge start pool (0, 1, p-1, p, 2^256-1, all-ones limb patterns of the 5x52 and 10x26 layouts ...) and, with the (magnitude, normalized) pairs as VIEW, the "
    "WHOLE magnitude calculus 0..32 without depth bound; every labelled transition is replayed through secp256k1_fe_* behind the path TLC found: value, return value and -- on VERIFY builds -- the materialised magnitude/normalized fields must equal the spec after "
    "every step. (2) ScalarApi.tla: every scalar routine as arithmetic mod n incl. split_lambda (post-condition and documented algorithm), split_128, mul_shift_var, "
    "cadd_bit, get_bits over pools with n-neighbours, 2^128 neighbours, lambda, limb patterns and the lambda-split bound scalars. (3) GroupLaw.tla: every add/double/"
    "conversion routine x {generic, P+P, P+(-P), P+inf, inf+Q, inf+inf, equal-x, the beta-degenerate case} x Jacobian z rescalings x maximal magnitudes against the "
    "affine law. (4) ecmult, ecmult_const(+xonly), ecmult_gen (blinded/unblinded), ecmult_multi_var for batch sizes 0..300 with NULL/zero/too-small/ample scratch "
    "against Curve!PMul. (5) ShaStream.tla transcribes sha256_write/finalize; C05_Sha.tla explores every write-chunk-length sequence, checks digest = one-shot hash "
    "and the block count on the model, and every transition is replayed through the real code with a counting compression function installed via the public seam; "
    "all lengths 0..300, HMAC, RFC 6979 multi-generate, tagged hashes with long messages. The SAME expected records are replayed on every build variant "
    "(5x52/10x26 field, 4x64/8x32 scalar, int128 native/struct, asm on/off, window and comb sizes): bit-identical across configurations. "
    "(6) C05_Scratch.tla: the scratch-space allocator as a history machine (create/alloc/checkpoint/apply/max_allocation/destroy with size_t wrap-around, "
    "and ecmult_multi_var run on the space as it is); TLC checks no-overlap, alignment, alloc <= max and the max_allocation promise, and every labelled "
    "transition is replayed behind its shortest history on the real allocator (offsets, NULLs, zero-fill, error callbacks, result point, alloc restored). "
    "T direction also records limb-structured field operands (one cleared bit per limb of p in both layouts, values differing in one limb, 2^a + 2^b).",
    note="Exploration, not proof: operands come from edge-biased pools and seeded random values, not all 2^256; a carry bug needing one specific limb pattern outside "
    "the pools is missed; assembly is exercised, not analysed; only configurations that compile on x86-64. Sequences leading to the same abstract state are merged by "
    "TLC (transition tour). Trusted: TLC, BigInteger/MessageDigest overrides, the harness (which also normalises results for observation).",
    technique="TLC bounded model checking of two history machines (field registers, SHA-256 stream) with transition-tour replay into the C internals; TLC-generated "
    "boundary records for scalar/group/ecmult/hash routines replayed on a build matrix; implementation traces (seeded random, edge-biased) validated by TLC",
    design_ref="DESIGN.md §4 C05, §6")

P = 2**256 - 2**32 - 977
N = 0xFFFFFFFFFFFFFFFFFFFFFFFFFFFFFFFEBAAEDCE6AF48A03BBFD25E8CD0364141
LAMBDA = 0x5363AD4CC05C30E0A5261C028812645A122E22EA20816678DF02967C1B23BD72
QUICK_VARIANTS = ["std", "verify", "i64v", "noasm", "w8", "w2"]   # noasm: the portable C 4x64 scalar code is not compiled in the pinned build
THOROUGH_VARIANTS = ["std", "verify", "i64v", "i128sv", "noasm", "w2", "w8"]
VERIFY_VARIANTS = {"verify", "i64v", "i128sv"}


def tolerant_harness(binary, records, timeout=1800, env=None):
    """vlib.harness, except that a truncated last output line (the harness died in a VERIFY_CHECK abort while stdout was
    block-buffered) is dropped instead of raising: the caller then sees rc != 0 and fewer events, i.e. a crash at that record"""
    import subprocess
    data = "".join(json.dumps({"e": r["e"], "in": r.get("in", {})}, separators=(",", ":")) + "\n" for r in records)
    e = dict(os.environ)
    if env: e.update(env)
    try:
        p = subprocess.run([binary], input=data, timeout=timeout, stdout=subprocess.PIPE, stderr=subprocess.PIPE, text=True, env=e)
    except subprocess.TimeoutExpired:
        raise Infra("harness timed out: " + binary)
    outs = []
    for l in p.stdout.splitlines():
        if not l.startswith("{"): continue
        try: outs.append(json.loads(l))
        except ValueError: break
    return outs, p.returncode, p.stderr


def run_robust(chk, recs, variant, name):
    """execute records on a build; when the harness dies (VERIFY_CHECK abort, signal) the outputs still in its stdio buffer are
    lost, so the culprit is searched by executing the following records one process each; it is reported as a violation and
    removed, and the run is repeated without it.  Returns (records executed, observed events)."""
    recs = list(recs); crashes = 0
    while recs:
        obs, rc, err = tolerant_harness(chk.bins[variant], recs)
        if rc == 0 and len(obs) == len(recs): return recs, obs
        culprit = None
        for i in range(len(obs), len(recs)):
            o1, rc1, err1 = tolerant_harness(chk.bins[variant], [recs[i]])
            if rc1 != 0 or len(o1) != 1:
                culprit, rc, err = i, rc1, err1; break
        if culprit is None:
            raise Infra("harness failed on %s [%s] (rc=%s) but no single record reproduces it: %s" % (name, variant, rc, err[-300:]))
        crashes += 1
        chk.violation("implementation crashed or aborted (rc=%s) on a record of %s [%s]: %s" % (rc, name, variant, err.strip()[-300:]), [recs[culprit]], variant)
        del recs[culprit]
        if crashes >= 5:
            chk.notes.append("%s on %s: 5 crashing records found, the remaining records were not executed" % (name, variant)); return [], []
    return [], []


def replay_robust(chk, recs, variant, name):
    """the comparison of Check.replay on top of run_robust"""
    recs, obs = run_robust(chk, recs, variant, name)
    if not recs: return
    bad = vlib.compare(recs, obs)
    chk.evaluations += len(recs)
    for r in recs: chk.case_labels[chk.label_of(r)] += 1
    if len(chk.samples) < 4: chk.samples.append({"direction": "spec->impl", "variant": variant, "record": chk.shorten(recs[len(recs) // 2])})
    if bad:
        again, _, _ = tolerant_harness(chk.bins[variant], bad)        # a disagreement must reproduce on immediate re-run
        for b, o in list(zip(bad, again))[:25]:
            if vlib.sub_diff(b["spec_out"], o["out"]):
                chk.violation("%s on build '%s': specification and implementation disagree on %s" % (name, variant, sorted(b["diff"].keys())),
                              [{"e": b["e"], "in": b["in"], "out": b["spec_out"], "impl_out": b["impl_out"]}], variant)
    log("[%s] replay %s on %s: %d records, %d disagreements" % (chk.pid, name, variant, len(recs), len(bad)))


def iter_ndjson(path):
    """stream the lines TLC emitted (the thorough field machines write hundreds of megabytes)"""
    if not os.path.exists(path): return
    with open(path) as f:
        for l in f:
            l = l.strip()
            if not l: continue
            v = json.loads(l)
            if isinstance(v, str): v = json.loads(v)
            yield v


def b32(x): return list(x.to_bytes(32, "big"))
def le_int(d): return sum(v << (8 * i) for i, v in enumerate(d))


def my_label(r):
    i, o = r.get("in", {}), r.get("out", {})
    sub = i.get("op", i.get("fn", ""))
    ret = o.get("ret", o.get("ovf", ""))
    if isinstance(ret, list): ret = "seq"
    if r["e"] == "KGroup" and "r" in o: ret = "inf" if o["r"][0] == 1 else "pt"
    return "%s/%s/%s" % (r["e"], sub, ret)


def strip_verify(recs):
    """expected records for builds without -DVERIFY: magnitude / normalized are not materialised there"""
    out = []
    for r in recs:
        if r["e"] == "KFeSeq" and "mag" in r["out"]:
            r = dict(r, out={k: v for k, v in r["out"].items() if k not in ("mag", "nrm")})
        out.append(r)
    return out


# ---------------------------------------------------------------------------------------------------
# part 1: field machine -> transition tour
def field_tours(chk, lines, seen_edges):
    """one replay sequence per emitted state: the path TLC reached it by, a snapshot, then every operation enabled there
    (the harness restores the snapshot after each mutator -- plain struct copies, not API calls)"""
    def regs_of(s): return [s[str(i)] for i in range(len(s))] if isinstance(s, dict) else list(s)
    def step_exp(e):
        op, w, reg, ret, byts = e
        if w >= 0: return (b32(le_int(reg[0])) if reg[1] >= 0 else []), ret, reg[1], reg[2]
        return list(byts), ret, 0, 0
    recs = []; nsteps = 0; nedges = 0; nlines = 0
    for l in lines:
        nlines += 1
        ops = []; val = []; ret = []; mag = []; nrm = []
        def push(op, x):
            ops.append(op); val.append(x[0]); ret.append(x[1]); mag.append(x[2]); nrm.append(x[3])
        for e in l["path"]: push(e[0], step_exp(e))
        push(["snap", 0, 0, 0, 0], ([], 0, 0, 0))
        rk = json.dumps(regs_of(l["s"]), separators=(",", ":")); fresh = 0
        for kind in ("mut", "prd"):
            for e in l[kind]:
                ek = hash(rk + json.dumps(e[0], separators=(",", ":")))
                if ek in seen_edges: continue      # the same operation on the same register contents was already scheduled
                seen_edges.add(ek); fresh += 1
                push(e[0], step_exp(e))
                if kind == "mut":
                    push(["back", 0, 0, 0, 0], ([], 0, 0, 0))
                    chk.case_labels["KFeSeq/%s/m%d" % (e[0][0], e[2][1])] += 1
                else:
                    chk.case_labels["KFeSeq/%s/ret=%s" % (e[0][0], e[3])] += 1
        if not fresh: continue
        nedges += fresh; nsteps += len(ops)
        recs.append({"e": "KFeSeq", "in": {"init": l["root"], "ops": ops}, "out": {"val": val, "ret": ret, "mag": mag, "nrm": nrm, "icb": 0}})
    return recs, nlines, nedges, nsteps


# part 5: SHA stream machine -> transition tour
def sha_tours(chk, lines, rng, nwalks):
    st = {(l["t"], l["c"]): l for l in lines}
    msg = st[(0, 0)]["msg"]
    succ = {k: [(e[0], (k[0] + e[0], e[1])) for e in l["edges"]] for k, l in st.items()}
    parent = {(0, 0): None}; order = [(0, 0)]; i = 0
    while i < len(order):
        k = order[i]; i += 1
        for (c, d) in sorted(succ[k]):
            if d not in st: raise Infra("sha machine: successor state %s not emitted" % (d,))
            if d not in parent: parent[d] = (k, c); order.append(d)
    def rec_of(path):   # path: list of (chunk, dst)
        dst = st[path[-1][1]] if path else st[(0, 0)]
        return {"e": "KShaStream", "in": {"msg": msg, "chunks": [c for c, _ in path]},
                "out": {"calls": [d[1] for _, d in path], "blocks": [d[0] // 64 for _, d in path], "fblocks": dst["fblocks"],
                        "written": dst["t"], "digest": dst["digest"], "icb": 0}}
    recs = [rec_of([])]; ntr = 0
    for k in order:
        pre = []; kk = k
        while parent[kk] is not None:
            pk, c = parent[kk]; pre.append((c, kk)); kk = pk
        pre.reverse()
        for (c, d) in sorted(succ[k]):
            ntr += 1
            recs.append(rec_of(pre + [(c, d)]))
            chk.case_labels["KShaStream/buf%s/chunk%d/calls%d" % ("0" if k[0] % 64 == 0 else "+", c, d[1])] += 1
    for _ in range(nwalks):
        k = (0, 0); path = []
        for _ in range(40):
            if not succ[k]: break
            c, d = rng.choice(succ[k]); path.append((c, d)); k = d
        recs.append(rec_of(path))
    return recs, len(st), ntr


# ---------------------------------------------------------------------------------------------------
# T direction: python drivers (seeded random + edge-biased)
FE_EDGE = [0, 1, 2, P - 1, P - 2, P, P + 1, (P - 1) // 2, (P + 1) // 2, 2**255, 2**256 - 1, 2**256 - 2**32, 2**52 - 1, 2**52, 2**26 - 1, 2**26,
           2**104 - 1, 2**208 - 1, sum((2**52 - 1) << (104 * i) for i in range(3)) % 2**256, sum((2**26 - 1) << (52 * i) for i in range(5)), 2**32 + 977, 2**32 + 976]
SC_EDGE = [0, 1, 2, N - 1, N - 2, N, N + 1, (N - 1) // 2, (N + 1) // 2, 2**127, 2**128 - 1, 2**128, 2**128 + 1, LAMBDA, N - LAMBDA, 2**255, 2**256 - 1,
           2**64 - 1, 2**64, 2**192 - 1, sum((2**64 - 1) << (128 * i) for i in range(2)), sum((2**32 - 1) << (64 * i) for i in range(4)),
           0xa2a8918ca85bafe22016d0b917e4dd77, 0x8a65287bd47179fb2be08846cea267ed, N - 0xa2a8918ca85bafe22016d0b917e4dd77,
           0x7fffffffffffffffffffffffffffffffd576e73557a4501ddfe92f46681b20a0, 0xd363ad4cc05c30e0a5261c0288126459f85915d77825b696beebc5c2833ede11]


def fe_struct_values(quick):
    """limb-structured field values (both limb layouts): p with one bit of one limb cleared, the all-ones pattern with one limb lowered and
    the lowest limb at / above p's lowest limb, and sparse two-bit values 2^a + 2^b (the inputs on which a divstep-based inverse / Jacobi
    routine or a limb-wise range / zero test goes wrong when it consults the wrong limb or stops a batch early)"""
    vals = []
    for w in (52, 26):
        plow = P % (1 << w)
        for j in range(1, 256 // w + (1 if 256 % w else 0)):
            if w * j >= 256: break
            for c in (1, 2, 1 << (w - 1), (1 << w) - 1):
                if w * j + w > 256 and c >> (256 - w * j): continue
                vals += [P - (c << (w * j)), P - (c << (w * j)) + 1]
            vals += [2**256 - (1 << w) - (1 << (w * j)) + plow, 2**256 - (1 << w) - (1 << (w * j)) + plow + 1, 2**256 - (1 << w) - (1 << (w * j)) + (1 << w) - 1]
    step = 3 if quick else 1
    for d in (1, 26, 52, 62, 64, 124, 128):
        for a in range(0, 256 - d, step):
            vals.append((1 << a) + (1 << (a + d)))
    for a in range(1, 257, 5 if quick else 1): vals.append((1 << a) - 1)
    return [v % 2**256 for v in vals if v >= 0]


def fe_struct_driver(quick):
    recs = []
    for v in fe_struct_values(quick):
        ops = [["normalizes_to_zero", 0, 0, 0, 0], ["normalizes_to_zero_var", 0, 0, 0, 0], ["is_square_var", 0, 0, 0, 0], ["sqrt", 2, 0, 0, 0],
               ["inv_var", 2, 0, 0, 0], ["inv", 2, 0, 0, 0], ["set_b32_limit", 3, 0, 0, b32(v)],
               ["negate", 1, 0, 0, 1], ["add", 1, 0, 0, 0], ["normalizes_to_zero", 0, 1, 0, 0], ["normalizes_to_zero_var", 0, 1, 0, 0],
               ["normalize", 0, 0, 0, 0], ["is_zero", 0, 0, 0, 0], ["get_b32", 0, 0, 0, 0]]
        recs.append({"e": "KFeSeq", "in": {"init": [b32(v), b32(1)], "ops": ops}})
    # equality of values that differ in ONE limb only (fe_equal = normalizes_to_zero of the difference)
    for w in (52, 26):
        for j in range(1, 10):
            if w * j >= 256: break
            for c in (1, 1 << (w - 1), (1 << w) - 1):
                d = c << (w * j)
                if d >= P: continue
                for x in (1, 0x1234567890abcdef1122334455667788):
                    y = (x + d) % P
                    recs.append({"e": "KFeSeq", "in": {"init": [b32(x), b32(y)], "ops": [["normalize", 0, 0, 0, 0], ["normalize", 1, 1, 1, 0], ["equal", 0, 0, 1, 0], ["equal", 0, 1, 0, 0], ["cmp_var", 0, 0, 1, 0]]}})
    return recs


def edge(rng, pool, bits=256):
    r = rng.random()
    if r < 0.35: return rng.choice(pool)
    if r < 0.5: return (rng.choice(pool) + rng.randrange(-3, 4)) % 2**bits
    if r < 0.6: return rng.getrandbits(rng.choice([8, 52, 64, 128, 200]))
    return rng.getrandbits(bits)


def fe_driver(rng, nseq, with_bounds):
    """random legal operation sequences; the (magnitude, normalized) bookkeeping here only serves to generate legal inputs --
    TLC decides every step.  The third component marks registers whose LIMBS descend linearly from secp256k1_fe_get_bounds
    (limbs at the documented maximum of their magnitude): such a register is not grown to magnitude 32, because the 10x26
    normalisation routines overflow a 32-bit limb there (finding F2, reproduced by a dedicated probe in run())."""
    recs = []
    for _ in range(nseq):
        nr = rng.choice([2, 3, 3, 4])
        init = [edge(rng, FE_EDGE) for _ in range(nr)]
        st = [(1, 0, 0)] * nr; ops = []
        for _ in range(rng.randrange(6, 16)):
            for _try in range(20):
                r, a, b = rng.randrange(nr), rng.randrange(nr), rng.randrange(nr)
                nm = rng.choice(["normalize", "normalize_weak", "normalize_var", "negate", "add", "add", "add_int", "mul_int", "mul", "mul", "sqr", "half", "inv", "inv_var",
                                 "sqrt", "cmov", "set_int", "set_b32_mod", "set_b32_limit", "stor", "get_b32", "is_zero", "is_odd", "equal", "cmp_var",
                                 "normalizes_to_zero", "normalizes_to_zero_var", "is_square_var"] + (["get_bounds"] * 3 if with_bounds else []))
                R, A, B = st[r], st[a], st[b]; ok = lambda x: x[0] >= 0
                k = 0; new = None; pred = False
                if nm in ("normalize", "normalize_var"):
                    if not ok(R): continue
                    new = (1, 1, 0)
                elif nm == "normalize_weak":
                    if not ok(R): continue
                    new = (1, R[1], 0)
                elif nm == "negate":
                    if not ok(A) or A[0] > 31: continue
                    k = rng.choice([A[0], A[0], rng.randrange(A[0], 32), 31]); new = (k + 1, 0, A[2])
                elif nm == "add":
                    if not ok(R) or not ok(A) or R[0] + A[0] > 32: continue
                    new = (R[0] + A[0], 0, R[2] | A[2])
                elif nm == "add_int":
                    if not ok(R) or R[0] > 31: continue
                    k = rng.choice([0, 1, 7, 0x7FFF, rng.randrange(0x8000)]); new = (R[0] + 1, 0, R[2])
                elif nm == "mul_int":
                    if not ok(R): continue
                    k = rng.randrange(0, 33)
                    if R[0] * k > 32: k = 32 // R[0]
                    new = (R[0] * k, 0, R[2])
                elif nm == "mul":
                    if not ok(A) or not ok(B) or A[0] > 8 or B[0] > 8 or r == b or a == b: continue
                    new = (1, 0, 0)
                elif nm == "sqr":
                    if not ok(A) or A[0] > 8: continue
                    new = (1, 0, 0)
                elif nm == "half":
                    if not ok(R) or R[0] > 31: continue
                    new = (R[0] // 2 + 1, 0, R[2])
                elif nm in ("inv", "inv_var"):
                    if not ok(A): continue
                    new = (1 if A[0] else 0, 1, 0)
                elif nm == "sqrt":
                    if not ok(A) or A[0] > 8 or r == a: continue
                    new = (1, 0, 0)
                elif nm == "cmov":
                    if not ok(A) or not ok(R): continue
                    k = rng.randrange(2); new = (max(R[0], A[0]), R[1] & A[1], R[2] | A[2])
                elif nm == "set_int":
                    k = rng.choice([0, 1, 0x7FFF, rng.randrange(0x8000)]); new = (1 if k else 0, 1, 0)
                elif nm == "set_b32_mod":
                    k = b32(edge(rng, FE_EDGE)); new = (1, 0, 0)
                elif nm == "set_b32_limit":
                    v = edge(rng, FE_EDGE); k = b32(v); new = (1, 1, 0) if v < P else (-1, 0, 0)
                elif nm == "stor":
                    if not ok(A) or not A[1]: continue
                    new = (1, 1, 0)
                elif nm == "get_bounds":
                    k = rng.choice([0, 1, 2, 8, 9, 16, 31, 32, rng.randrange(33)]); new = (k, 1 if k == 0 else 0, 1)
                else:
                    pred = True
                    if nm in ("get_b32", "is_zero", "is_odd") and not (ok(A) and A[1]): continue
                    if nm == "equal" and not (ok(A) and ok(B) and A[0] <= 1 and B[0] <= 30): continue        # header says 31: erratum E3
                    if nm == "cmp_var" and not (ok(A) and ok(B) and A[1] and B[1]): continue
                    if nm in ("normalizes_to_zero", "normalizes_to_zero_var", "is_square_var") and not ok(A): continue
                if not pred and nm != "get_bounds" and new[2] and new[0] == 32: continue                       # F2, see docstring
                if nm in ("normalize", "normalize_weak", "normalize_var", "add_int", "mul_int", "half", "set_int", "set_b32_mod", "set_b32_limit", "get_bounds"): a = b = r
                if nm in ("negate", "sqr", "inv", "inv_var", "sqrt", "cmov", "stor", "add"): b = a
                ops.append([nm, r, a, b, k])
                if not pred: st[r] = new
                break
        recs.append({"e": "KFeSeq", "in": {"init": [b32(x) for x in init], "ops": ops}})
    return recs


def sc_driver(rng, n):
    recs = []
    unary = ["set_b32", "set_b32_seckey", "set_u64", "sqr", "negate", "inverse", "inverse_var", "half", "preds", "split_128", "split_lambda"]
    for _ in range(n):
        a, b = edge(rng, SC_EDGE), edge(rng, SC_EDGE)
        op = rng.choice(unary + ["add", "mul", "eq", "cmov", "cond_negate", "cadd_bit", "get_bits_var", "get_bits_limb32", "mul_shift_var", "split_lambda", "mul", "add"])
        k = f = 0
        if op in ("cmov", "cond_negate"): f = rng.randrange(2)
        elif op == "cadd_bit":
            k, f = rng.randrange(256), rng.randrange(2)
            if (a % N) + (f << k) >= N: f = 0
        elif op == "get_bits_var":
            k = rng.randrange(1, 33); f = rng.randrange(0, 257 - k)
        elif op == "get_bits_limb32":
            k = rng.randrange(1, 33); f = 32 * rng.randrange(8) + rng.randrange(0, 33 - k)
        elif op == "mul_shift_var": k = rng.choice([256, 272, 384, 511, 512, rng.randrange(256, 513)])
        recs.append({"e": "KScalar", "in": {"op": op, "a": b32(a), "b": b32(b), "k": k, "f": f}})
    return recs


def sc_struct_driver(quick):
    """limb-structured scalars for both limb layouts: n with one limb raised / lowered by one unit, the all-ones pattern with one limb
    lowered, values that differ from n in exactly one limb -- the operands on which a limb-wise range test (check_overflow, is_high) or a
    carry chain goes wrong when it consults the wrong limb"""
    vals = []
    HALF = N >> 1
    for w in (64, 32):
        for j in range(0, 256 // w):
            u = 1 << (w * j)
            for base in (N, HALF, N - 1, HALF + 1):
                vals += [(base + u) % 2**256, (base - u) % 2**256]
            vals.append((2**256 - 1 - u * ((1 << w) - 1)) % 2**256)          # all ones except limb j = 0
            vals.append((N & ~(((1 << w) - 1) << (w * j))) % 2**256)         # n with limb j cleared
            vals.append((N | (((1 << w) - 1) << (w * j))) % 2**256)          # n with limb j all ones
    recs = []
    for v in vals:
        for op in ("set_b32", "set_b32_seckey", "preds", "negate", "half") + (() if quick else ("inverse_var", "split_lambda", "split_128")):
            recs.append({"e": "KScalar", "in": {"op": op, "a": b32(v), "b": b32(1), "k": 0, "f": 0}})
        recs.append({"e": "KScalar", "in": {"op": "add", "a": b32(v), "b": b32(N - 1), "k": 0, "f": 0}})
        recs.append({"e": "KScalar", "in": {"op": "eq", "a": b32(v), "b": b32(v % N), "k": 0, "f": 0}})
    return recs


def group_driver(rng, pts, n):
    """pts: affine points [0, x, y] obtained from the implementation (first stage)"""
    INF = [1, [], []]
    def neg(p): return p if p[0] else [0, p[1], b32((P - int.from_bytes(bytes(p[2]), "big")) % P)]
    def z(): return b32(rng.choice([1, 2, P - 1, rng.randrange(1, P), rng.randrange(1, P)]))
    recs = []
    for _ in range(n):
        a = rng.choice(pts); sc = rng.random()
        if sc < 0.3: b = rng.choice(pts)
        elif sc < 0.45: b = a
        elif sc < 0.6: b = neg(a)
        elif sc < 0.7: b = INF
        elif sc < 0.8: a, b = INF, rng.choice(pts)
        elif sc < 0.85: a, b = INF, INF
        else: b = rng.choice(pts)
        fn = rng.choice(["add_var", "add_var_inplace", "add_ge_var", "add_ge", "add_ge_inplace", "add_zinv_var", "double", "double_var", "set_gej", "set_gej_var",
                         "eq_var", "eq_ge_var", "ge_eq_var", "neg", "cmov", "rescale", "eq_x_var", "has_quad_y_var", "storage", "set_all_gej_var", "is_valid_var"])
        i = {"fn": fn, "a": a, "az": z(), "mg": rng.randrange(2)}
        if fn in ("add_var", "add_var_inplace", "add_ge_var", "add_ge", "add_ge_inplace", "add_zinv_var", "eq_var", "eq_ge_var", "ge_eq_var", "cmov"):
            if fn in ("add_ge", "add_ge_inplace") and b[0]: b = rng.choice(pts)
            i["b"] = b; i["bz"] = z()
            if fn in ("add_var", "add_var_inplace", "add_ge_var") and not a[0] and rng.random() < 0.5: i["rzr"] = 1
            if fn == "cmov": i["f"] = rng.randrange(2)
        elif fn == "double_var" and rng.random() < 0.5: i["rzr"] = 1
        elif fn == "rescale": i["s"] = z()
        elif fn == "eq_x_var":
            if a[0]: a = i["a"] = rng.choice(pts)
            i["x"] = a[1] if rng.random() < 0.6 else rng.choice(pts)[1]
        elif fn == "storage":
            if a[0]: i["a"] = rng.choice(pts)
        elif fn == "is_valid_var":
            if not a[0] and rng.random() < 0.5: i["a"] = [0, a[1], b32(edge(rng, FE_EDGE) % P)]
        elif fn == "set_all_gej_var":
            k = rng.randrange(0, 12); i = {"fn": fn, "mg": rng.randrange(2), "pts": [rng.choice(pts + [INF]) for _ in range(k)], "zs": [z() for _ in range(k)]}
        recs.append({"e": "KGroup", "in": i})
    for _ in range(max(4, n // 10)):
        x = edge(rng, FE_EDGE) % P if rng.random() < 0.5 else int.from_bytes(bytes(rng.choice(pts)[1]), "big")
        fn = rng.choice(["set_xo_var", "set_xquad", "x_on_curve_var", "x_frac_on_curve_var"])
        d = rng.randrange(1, P)
        recs.append({"e": "KGroup", "in": {"fn": fn, "x": b32(x * d % P if fn == "x_frac_on_curve_var" else x), "d": b32(d), "f": rng.randrange(2)}})
    return recs


def ecmult_driver(rng, pts, n):
    INF = [1, [], []]; recs = []
    for _ in range(n):
        fn = rng.choice(["ecmult", "ecmult", "const", "xonly", "gen", "multi"])
        if fn == "ecmult":
            i = {"fn": fn, "p": rng.choice(pts + [INF]), "pz": b32(rng.randrange(1, P)), "na": b32(edge(rng, SC_EDGE)), "mg": rng.randrange(2)}
            if rng.random() < 0.7: i["ng"] = b32(edge(rng, SC_EDGE))
        elif fn == "const":
            i = {"fn": fn, "p": rng.choice(pts), "q": b32(edge(rng, SC_EDGE)), "mg": rng.randrange(2)}
        elif fn == "xonly":
            q = edge(rng, SC_EDGE)
            if q % N == 0: q = 1
            x = int.from_bytes(bytes(rng.choice(pts)[1]), "big") if rng.random() < 0.6 else rng.randrange(P)
            known = 0
            i = {"fn": fn, "q": b32(q), "known": known, "mg": rng.randrange(2)}
            if rng.random() < 0.5:
                d = rng.randrange(1, P); i["n"] = b32(x * d % P); i["d"] = b32(d)
            else: i["n"] = b32(x)
        elif fn == "gen":
            i = {"fn": fn, "a": b32(edge(rng, SC_EDGE))}
            if rng.random() < 0.5: i["seed"] = b32(rng.getrandbits(256))
        else:
            k = rng.choice([0, 1, 2, 3, 5, 8, 13, 20, 33])
            scs = [b32(rng.getrandbits(rng.choice([4, 8, 12, 16]))) for _ in range(k)]
            for j in range(min(k, 2)): scs[rng.randrange(k)] = b32(edge(rng, SC_EDGE))
            i = {"fn": fn, "sc": scs, "pts": [rng.choice(pts + [INF]) for _ in range(k)], "mg": rng.randrange(2),
                 "scratch": [-1, 0, rng.randrange(1, 2000), rng.randrange(2000, 100000), rng.randrange(100000, 3000000)]}
            if rng.random() < 0.5: i["ng"] = b32(edge(rng, SC_EDGE))
        recs.append({"e": "KEcmult", "in": i})
    return recs


def hash_driver(rng, n):
    recs = []
    for _ in range(n):
        L = rng.choice([0, 1, 55, 56, 63, 64, 65, 119, 120, 127, 128, rng.randrange(400), rng.randrange(3000)])
        msg = [rng.randrange(256) for _ in range(L)]
        chunks = []; left = L
        while left and len(chunks) < 30:
            c = min(left, rng.choice([0, 1, 8, 55, 56, 63, 64, 65, 119, 128, rng.randrange(200)])); chunks.append(c); left -= c
        k = rng.random()
        if k < 0.35: recs.append({"e": "KShaStream", "in": {"msg": msg, "chunks": chunks}})
        elif k < 0.6: recs.append({"e": "KHmac", "in": {"key": [rng.randrange(256) for _ in range(rng.choice([0, 1, 32, 63, 64, 65, 130]))], "msg": msg, "chunks": chunks}})
        elif k < 0.8: recs.append({"e": "KDrbg", "in": {"seed": msg[:200], "outlens": [rng.choice([0, 1, 31, 32, 33, 64, 100]) for _ in range(rng.randrange(5))]}})
        else: recs.append({"e": "KTagged", "in": {"tag": [rng.randrange(256) for _ in range(rng.choice([0, 5, 17, 64, 70]))], "msg": msg}})
    return recs


# ---------------------------------------------------------------------------------------------------
def scratch_tour(chk, edges):
    """one history per labelled transition of C05_Scratch.tla: ScrReset, shortest path from the initial state, the transition"""
    def skey(x): return json.dumps(x, sort_keys=True, separators=(",", ":"))
    succ = collections.defaultdict(list); seen = set()
    for e in edges:
        ks, kd = skey(e["src"]), skey(e["dst"])
        ek = (ks, skey(e["label"]))
        if ek in seen: continue
        seen.add(ek); succ[ks].append((e["label"], kd))
    init = skey({"live": 0})
    parent = {init: None}; order = [init]; i = 0
    while i < len(order):
        s = order[i]; i += 1
        for (lab, d) in succ[s]:
            if d not in parent: parent[d] = (s, lab); order.append(d)
    def prefix(s):
        p = []
        while parent[s] is not None:
            ps, lab = parent[s]; p.append(lab); s = ps
        return list(reversed(p))
    def rec_of(lab):
        return {"e": lab["a"], "in": lab["args"], "out": dict(lab["exp"], icb=0)}
    recs = []; ntr = 0
    for s in order:
        pre = prefix(s)
        for (lab, d) in succ[s]:
            ntr += 1
            recs.append({"e": "ScrReset", "in": {}, "out": {"ret": 1}})
            recs += [rec_of(l) for l in pre + [lab]]
    recs.append({"e": "ScrReset", "in": {}, "out": {"ret": 1}})
    return recs, len(order), ntr


def run(chk):
    quick = chk.tier == "quick"
    chk.groups = ["kernel", "scratch"]
    chk.label_of = my_label
    vlib.harness = tolerant_harness
    variants = QUICK_VARIANTS if quick else THOROUGH_VARIANTS
    rng = random.Random(chk.seed)
    vlib.setup_classes(); vlib.stage_specs(os.path.join(chk.out, "stage"))
    fpath, spath = chk.out + "/field.ndjson", chk.out + "/sha.ndjson"
    fcfgs = ["C05_field.cfg", "C05_field_mag.cfg"] if quick else ["C05_field_thorough.cfg", "C05_field_sym.cfg", "C05_field_mag_thorough.cfg", "C05_field_deep5.cfg"]
    with cf.ThreadPoolExecutor(max_workers=6) as ex:
        jb = ex.submit(chk.build, variants)
        jf = [ex.submit(chk.model, "C05_Field.tla", c, env={"GEN_OUT": "%s.%d" % (fpath, i)}, timeout=6000, workers=6, heap="4g") for i, c in enumerate(fcfgs)]
        js = ex.submit(chk.model, "C05_Sha.tla", "C05_sha.cfg" if quick else "C05_sha_thorough.cfg", env={"GEN_OUT": spath}, timeout=3000, workers=4, heap="3g")
        jg = ex.submit(chk.generate, MODULE, "C05_gen.cfg", "gen", timeout=6000, workers=8 if quick else 12, heap="6g")
        jq = ex.submit(chk.model, "C05_Scratch.tla", "C05_scratch.cfg" if quick else "C05_scratch_thorough.cfg", env={"GEN_OUT": chk.out + "/scratch.ndjson"}, timeout=3000, workers=4, heap="3g")
        jb.result(); [j.result() for j in jf]; js.result(); gen = jg.result(); jq.result()
    # ---- part 6: scratch-space allocator history machine (C05_Scratch.tla) ----
    qrecs, qst, qtr = scratch_tour(chk, vlib.read_ndjson(chk.out + "/scratch.ndjson"))
    if qtr < 100: raise Infra("scratch machine emitted too few transitions (%d)" % qtr)
    log("[C05] scratch allocator machine: %d states, %d labelled transitions -> %d allocator calls to replay" % (qst, qtr, len(qrecs)))
    for v in [x for x in variants if x in ("std", "verify", "noasm")]:
        chk.replay(qrecs, v, "scratch allocator transition tour", stateful="ScrReset")
    # ---- part 5: SHA stream transition tour ----
    stours, sst, str_ = sha_tours(chk, vlib.read_ndjson(spath), rng, 100 if quick else 1000)
    log("[C05] sha stream machine: %d states, %d transitions -> %d replay sequences" % (sst, str_, len(stours)))
    chk.exhaustive = False
    for v in variants:
        replay_robust(chk, stours, v, "SHA-256 write-sequence tour")
        replay_robust(chk, gen, v, "scalar / group law / ecmult / hash boundary records")
        # the actions of spec/api/Aliasing.tla once more with the output buffer aliased to an input buffer (same specified result)
        ae = engine.alias_events()
        sub = [dict(r, **{"in": dict(r.get("in", {}), alias=m)}) for r in gen if r["e"] in ae for m in range(1, ae[r["e"]] + 1)]
        if sub: replay_robust(chk, sub, v, "hash boundary records [output aliased to an input]")
    # ---- part 1: field transition tours (one machine at a time: the thorough ones are large) ----
    fstat = []; seen_edges = set()
    for i, c in enumerate(fcfgs):
        recs, nst, ned, nsteps = field_tours(chk, iter_ndjson("%s.%d" % (fpath, i)), seen_edges)
        if not recs: raise Infra("field machine %s emitted nothing" % c)
        # the depth-5 tour (1.2 million transitions) is replayed on one build per field layout and on the VERIFY build only
        on = [v for v in variants if v in ("std", "verify", "i64v")] if c == "C05_field_deep5.cfg" else variants
        log("[C05] field machine %s: %d states with outgoing transitions, %d labelled transitions -> %d replay sequences, %d steps, replayed on %s" % (c, nst, ned, len(recs), nsteps, on))
        fstat.append({"cfg": c, "states": nst, "transitions": ned, "steps": nsteps, "replayed_on": on})
        plain = None
        for v in on:
            if v in VERIFY_VARIANTS: replay_robust(chk, recs, v, "field API transition tour (%s)" % c)
            else:
                if plain is None: plain = strip_verify(recs)
                replay_robust(chk, plain, v, "field API transition tour (%s)" % c)
        del recs, plain
    # ---- T direction ----
    nfe, nsc, ngl, nem, nh = (120, 500, 250, 90, 60) if quick else (1500, 6000, 3000, 900, 600)
    stage1 = [{"e": "KEcmult", "in": {"fn": "gen", "a": b32(edge(rng, SC_EDGE))}} for _ in range(24)]
    _, ev1 = run_robust(chk, stage1, "std", "driver inputs (first stage)")
    pts = [e["out"]["r"] for e in ev1 if e["out"]["r"][0] == 0]
    if len(pts) < 4:
        if not chk.violations: raise Infra("driver: too few points from the first stage")
        chk.notes.append("T direction skipped: the first driver stage produced no points (the implementation already failed the replays above)")
        return finish(chk, variants, fstat, sst, str_, gen, {})
    common = sc_driver(rng, nsc) + group_driver(rng, pts, ngl) + ecmult_driver(rng, pts, nem) + hash_driver(rng, nh) + fe_driver(rng, nfe, False) + fe_struct_driver(quick) + sc_struct_driver(quick)
    events = {"std": list(ev1)}; seen = set(); per_variant = {}
    for v in variants:
        inputs = common + fe_driver(random.Random(chk.seed + 17), nfe // 2, True)     # get_bounds values are layout-specific: same inputs, recorded per variant
        _, ev = run_robust(chk, inputs, v, "driver inputs")
        per_variant[v] = len(ev); fresh = 0
        for e in ev:
            k = json.dumps(e, sort_keys=True, separators=(",", ":"))
            if k in seen: continue
            seen.add(k); events.setdefault(v, []).append(e); fresh += 1
        log("[C05] driver on %s: %d events recorded, %d not byte-identical to an earlier variant's" % (v, len(ev), fresh))
    # ---- dedicated probes for the two contract inconsistencies found (notes/C05.md) ----
    strict = os.environ.get("C05_STRICT", "0") == "1"
    # F2: a field element of magnitude 32 with limbs at the documented maximum (get_bounds(16) doubled) is mis-normalised by the 10x26 field
    f2 = [{"e": "KFeSeq", "in": {"init": [b32(1)], "ops": [["get_bounds", 0, 0, 0, 16], ["mul_int", 0, 0, 0, 2]]}},
          {"e": "KFeSeq", "in": {"init": [b32(1)], "ops": [["get_bounds", 0, 0, 0, 16], ["add", 0, 0, 0, 0], ["normalize", 0, 0, 0, 0], ["get_b32", 0, 0, 0, 0]]}}]
    # (the two probe records are listed by key in /verif/known_findings.txt; a different failing record is still a VIOLATION)
    for v in variants:
        _, ev = run_robust(chk, f2, v, "probe F2")
        for e in ev:
            k = json.dumps(e, sort_keys=True, separators=(",", ":"))
            if k not in seen: seen.add(k); events.setdefault(v, []).append(e)
    # E3: fe_equal(a, b) with b.magnitude = 31 is inside the documented precondition but aborts in VERIFY builds
    e3 = {"e": "KFeSeq", "in": {"init": [b32(5), b32(7)], "ops": [["normalize", 0, 0, 0, 0], ["negate", 1, 1, 1, 30], ["equal", 0, 0, 1, 0]]}}
    for v in variants:
        obs, rc, err = tolerant_harness(chk.bins[v], [e3])
        if rc != 0:
            msg = "E3 [%s]: secp256k1_fe_equal(a, b) with b.magnitude = 31 (allowed by field.h and by the function's own VERIFY precondition) aborts: %s" % (v, err.strip()[-160:])
            chk.violation(msg, [e3], v)      # listed by key in known_findings.txt
        elif obs and obs[0]["out"]["ret"][-1] != 0:
            chk.violation("fe_equal(5, -7) returned non-zero", [e3], v)
    # events of two variants differ legitimately only in KFeSeq records (mag/nrm presence, get_bounds values); anything else is a cross-configuration difference
    # that the specification will reject for at least one of the two
    # one validation per variant that contributed events (so that a rejected event is attributed to, and replayable on, its build)
    for v in variants:
        if events.get(v): chk.validate(events[v], MODULE, "C05_trace.cfg", "driver-" + v, variant=v, timeout=6000)
    return finish(chk, variants, fstat, sst, str_, gen, per_variant)


def finish(chk, variants, fstat, sst, str_, gen, per_variant):
    return chk.finish(LEVEL,
        "model: TLC explores the field register machine (C05_Field.tla) and the SHA-256 stream machine (C05_Sha.tla) completely within their bounds and checks the "
        "design-level invariants (well-formed magnitudes, algebraic post-conditions, digest = one-shot hash, block counts); G: every labelled transition of both "
        "machines behind a concrete prefix, and every boundary record of C05_Kernel.tla (scalars, group law, scalar multiplication, hashing), replayed on every "
        "build variant with the same expected bytes; T: seeded random / edge-biased calls recorded on every variant and decided by TLC. distinct_nontrivial counts "
        "distinct (routine, operation, result class) triples.",
        ["operands are pools + seeded random values, not all 2^256 (exploration)", "VERIFY builds abort on internal contract violations: an abort is reported as a violation",
         "header errata E1/E2 (fe_half) and E3 (fe_equal) follow the VERIFY wrappers; finding F2 (10x26 normalisation of maximal magnitude-32 limbs) is probed and reported as KNOWN-FINDING, see notes/C05.md", "get_bounds values are implementation-defined and adopted from the observation"],
        {"build_variants": variants, "field_machine": fstat, "sha_machine": {"states": sst, "transitions": str_}, "generated_records": len(gen),
         "driver_events_per_variant": per_variant})


def replay(chk, path):
    recs = vlib.read_ndjson(path)
    variant = recs[0].get("variant", "std") if recs and recs[0].get("e") == "Build" else "std"
    recs = [r for r in recs if r.get("e") != "Build"]
    chk.groups = ["kernel", "scratch"]; chk.label_of = my_label; vlib.harness = tolerant_harness
    chk.build([variant])
    ev = chk.record(recs, variant)
    if ev: chk.validate(ev, MODULE, "C05_trace.cfg", "replay", variant)
    return chk.finish(LEVEL, "replay of " + path, [])
