/* C05 (extension): the scratch-space allocator as a stateful object (spec/api/C05_Scratch.tla).  One global scratch space;
 * size_t values travel as 8 big-endian bytes.  Every op logs what the allocator returned plus its alloc_size / max_size
 * fields; "ecb" (error-callback count) is added by the main loop when non-zero. */
static secp256k1_scratch *SCR = NULL;
static size_t scr_u64_in(const jv *in, const char *key) {
    unsigned char b[8]; size_t v = 0; int i;
    jv_need(in, key, b, 8); for (i = 0; i < 8; i++) v = (v << 8) | b[i];
    return v;
}
static void scr_u64_out(jout *out, const char *key, size_t v) {
    unsigned char b[8]; int i; for (i = 7; i >= 0; i--) { b[i] = (unsigned char)(v & 0xff); v >>= 8; }
    jo_bytes(out, key, b, 8);
}
static void op_ScrReset(const jv *in, jout *out) {
    (void)in;
    if (SCR) { secp256k1_scratch_apply_checkpoint(&CTX->error_callback, SCR, 0); secp256k1_scratch_destroy(&CTX->error_callback, SCR); SCR = NULL; }
    jo_int(out, "ret", 1);
}
static void op_ScrCreate(const jv *in, jout *out) {
    unsigned long m0 = VH_MALLOCS;
    SCR = secp256k1_scratch_space_create(CTX, scr_u64_in(in, "size"));
    jo_int(out, "ret", SCR != NULL); jo_int(out, "align", ALIGNMENT); jo_int(out, "mallocs", (long long)(VH_MALLOCS - m0));
    if (SCR) { scr_u64_out(out, "max", SCR->max_size); scr_u64_out(out, "alloc", SCR->alloc_size);
               memset(SCR->data, 0xAB, SCR->max_size); }   /* the contents of a fresh scratch space are unspecified: make them dirty, frames must come zero-filled */
}
static void op_ScrAlloc(const jv *in, jout *out) {
    size_t n = scr_u64_in(in, "size"), before = SCR->alloc_size, i;
    unsigned char *p = (unsigned char*)secp256k1_scratch_alloc(&CTX->error_callback, SCR, n);
    jo_int(out, "ok", p != NULL);
    if (p) {
        int zero = 1; size_t got = SCR->alloc_size - before;
        scr_u64_out(out, "off", (size_t)(p - (unsigned char*)SCR->data));
        for (i = 0; i < got; i++) if (p[i]) zero = 0;
        jo_int(out, "zero", zero); jo_int(out, "aligned", ((uintptr_t)p % ALIGNMENT) == 0);
        memset(p, 0xAB, got);      /* dirty the frame: a later frame at the same place must be zero-filled again */
    }
    scr_u64_out(out, "alloc", SCR->alloc_size);
}
static void op_ScrCheckpoint(const jv *in, jout *out) {
    (void)in;
    scr_u64_out(out, "cp", secp256k1_scratch_checkpoint(&CTX->error_callback, SCR));
}
static void op_ScrApply(const jv *in, jout *out) {
   
    secp256k1_scratch_apply_checkpoint(&CTX->error_callback, SCR, scr_u64_in(in, "cp"));
    scr_u64_out(out, "alloc", SCR->alloc_size);
}
static void op_ScrMaxAlloc(const jv *in, jout *out) {
   
    scr_u64_out(out, "max", secp256k1_scratch_max_allocation(&CTX->error_callback, SCR, scr_u64_in(in, "objects")));
}
#define SCR_MAXN 128
static struct { secp256k1_scalar sc[SCR_MAXN]; secp256k1_ge pt[SCR_MAXN]; size_t n; } SCRM;
static int scr_multi_cb(secp256k1_scalar *sc, secp256k1_ge *pt, size_t idx, void *data) {
    (void)data; if (idx >= SCRM.n) return 0; *sc = SCRM.sc[idx]; *pt = SCRM.pt[idx]; return 1;
}
static void op_ScrMulti(const jv *in, jout *out) {
    size_t n = (size_t)jv_int(in, "n", 0), j; long g = (long)jv_int(in, "g", 0); int rv;
    secp256k1_scalar gs; secp256k1_gej r, pj; secp256k1_ge rg; unsigned char b33[33]; size_t l = 33; secp256k1_pubkey pk;
    if (n > SCR_MAXN) { fprintf(stderr, "vh: ScrMulti n too large\n"); exit(3); }
    for (j = 0; j < n; j++) {
        secp256k1_scalar k; secp256k1_scalar_set_int(&SCRM.sc[j], (unsigned int)(j + 1)); secp256k1_scalar_set_int(&k, (unsigned int)(j + 2));
        secp256k1_ecmult(&pj, NULL, &secp256k1_scalar_zero, &k); secp256k1_ge_set_gej(&SCRM.pt[j], &pj);
    }
    SCRM.n = n; secp256k1_scalar_set_int(&gs, (unsigned int)g);
    rv = secp256k1_ecmult_multi_var(&CTX->error_callback, SCR, &r, &gs, scr_multi_cb, NULL, n);
    jo_int(out, "ret", rv);
    secp256k1_ge_set_gej(&rg, &r);
    if (!secp256k1_ge_is_infinity(&rg)) { secp256k1_pubkey_save(&pk, &rg); secp256k1_ec_pubkey_serialize(CTX, b33, &l, &pk, SECP256K1_EC_COMPRESSED); jo_bytes(out, "r", b33, 33); }
    scr_u64_out(out, "alloc", SCR->alloc_size);
}
static void op_ScrDestroy(const jv *in, jout *out) {
    unsigned long f0 = VH_FREES; (void)in;
    secp256k1_scratch_space_destroy(CTX, SCR); SCR = NULL;
    jo_int(out, "frees", (long long)(VH_FREES - f0));
}
#define VH_OPS_SCRATCH \
    { "ScrReset", op_ScrReset }, { "ScrCreate", op_ScrCreate }, { "ScrAlloc", op_ScrAlloc }, { "ScrCheckpoint", op_ScrCheckpoint }, \
    { "ScrApply", op_ScrApply }, { "ScrMaxAlloc", op_ScrMaxAlloc }, { "ScrMulti", op_ScrMulti }, { "ScrDestroy", op_ScrDestroy },
