/* C04: key algebra.  Public keys travel as 33-byte compressed encodings (33 zero bytes = all-zero object). */
static void op_PubkeyCreate(const jv *in, jout *out) {
    unsigned char key[32]; secp256k1_pubkey pk; int ret;
    jv_need(in, "key", key, 32);
    memset(&pk, 0xAA, sizeof(pk));
    ret = secp256k1_ec_pubkey_create(CTX, &pk, key);
    jo_int(out, "ret", ret); vh_out_pk33(out, "pk", &pk);
    jo_int(out, "verify", secp256k1_ec_seckey_verify(CTX, key));
}

/* "usable" = the API accepts the object (an invalid object makes every consumer call the illegal callback);
 * the probe's own callback invocations are not charged to the call under observation */
static int vh_pk_usable(const secp256k1_pubkey *pk, unsigned char *b33) {
    long icb = ICB; size_t l = 33; int r;
    memset(b33, 0, 33);
    r = secp256k1_ec_pubkey_serialize(CTX, b33, &l, pk, SECP256K1_EC_COMPRESSED);
    ICB = icb;
    return r && l == 33;
}
static void vh_obj_open(jout *o, int *saved_first) { *saved_first = o->first; jo_raw(o, "{", 1); o->first = 1; }
static void vh_obj_close(jout *o, int saved_first) { jo_raw(o, "}", 1); o->first = saved_first; }

/* KeyChain: "key" = initial secret key, "ops" = [{"op":k,"t":[32 bytes or empty]}...].  Every step applies the secret-side
 * and the public-side API call to the paired state (sk, pk) and logs both sides; the chain stops after a failing step.
 *   op 1 tweak_add   2 tweak_mul   3 negate   4 x-only normalisation (xonly_from_pubkey / negate if odd)
 *   op 5 keypair_xonly_tweak_add on the keypair of sk  /  xonly_pubkey_tweak_add (+ tweak_add_check) on pk */
static void op_KeyChain(const jv *in, jout *out) {
    unsigned char sk[32], t[32], b33[33], x32[32]; secp256k1_pubkey pk; int cret, sf, first_step = 1;
    const jv *ops = jv_get(in, "ops"); const jv *c;
    jv_need(in, "key", sk, 32);
    memset(&pk, 0xAA, sizeof(pk));
    cret = secp256k1_ec_pubkey_create(CTX, &pk, sk);
    jo_int(out, "cret", cret);
    if (cret) vh_out_pk33(out, "pk0", &pk);
    jo_key(out, "steps"); jo_raw(out, "[", 1);
    for (c = (ops && cret) ? ops->child : NULL; c; c = c->next) {
        long op = jv_int(c, "op", 0); int sret = 0, pret = 0, skok, pkok, par = -1, kpar = -1, chk = -1, have_kp = 0;
        secp256k1_keypair kp; secp256k1_xonly_pubkey xo; secp256k1_pubkey kpk;
        unsigned char ox[32], kx[32];
        if (jv_bytes(c, "t", t, 32) != 32) memset(t, 0, 32);
        if (op == 1) { sret = secp256k1_ec_seckey_tweak_add(CTX, sk, t); pret = secp256k1_ec_pubkey_tweak_add(CTX, &pk, t); }
        else if (op == 2) { sret = secp256k1_ec_seckey_tweak_mul(CTX, sk, t); pret = secp256k1_ec_pubkey_tweak_mul(CTX, &pk, t); }
        else if (op == 3) { sret = secp256k1_ec_seckey_negate(CTX, sk); pret = secp256k1_ec_pubkey_negate(CTX, &pk); }
        else if (op == 4) {
            pret = secp256k1_xonly_pubkey_from_pubkey(CTX, &xo, &par, &pk);
            pret = pret && secp256k1_xonly_pubkey_serialize(CTX, x32, &xo);
            b33[0] = 2; memcpy(b33 + 1, x32, 32);
            pret = pret && secp256k1_ec_pubkey_parse(CTX, &pk, b33, 33);
            sret = par == 1 ? secp256k1_ec_seckey_negate(CTX, sk) : 1;
        } else if (op == 5) {
            int kc = secp256k1_keypair_create(CTX, &kp, sk);
            sret = kc && secp256k1_keypair_xonly_tweak_add(CTX, &kp, t);
            secp256k1_keypair_sec(CTX, sk, &kp);
            have_kp = sret;
            pret = secp256k1_xonly_pubkey_from_pubkey(CTX, &xo, &par, &pk);
            { secp256k1_pubkey q; pret = pret && secp256k1_xonly_pubkey_tweak_add(CTX, &q, &xo, t); pk = q; }
            if (pret) {
                secp256k1_xonly_pubkey xo2; int par2;
                secp256k1_xonly_pubkey_from_pubkey(CTX, &xo2, &par2, &pk);
                secp256k1_xonly_pubkey_serialize(CTX, ox, &xo2);
                chk = secp256k1_xonly_pubkey_tweak_add_check(CTX, ox, par2, &xo, t);
            }
        }
        if (!first_step) jo_raw(out, ",", 1);
        first_step = 0;
        vh_obj_open(out, &sf);
        jo_int(out, "sret", sret);
        skok = secp256k1_ec_seckey_verify(CTX, sk);
        jo_int(out, "skok", skok);
        if (skok) {
            secp256k1_pubkey cpk;
            jo_bytes(out, "sk", sk, 32);
            if (!secp256k1_ec_pubkey_create(CTX, &cpk, sk)) memset(&cpk, 0, sizeof(cpk)); vh_out_pk33(out, "ck", &cpk);
        }
        jo_int(out, "pret", pret);
        pkok = vh_pk_usable(&pk, b33);
        jo_int(out, "pkok", pkok);
        if (pkok) jo_bytes(out, "pk", b33, 33);
        if (op == 4 || op == 5) jo_int(out, "par", par);
        if (op == 5 && have_kp) {
            secp256k1_xonly_pubkey kxo;
            secp256k1_keypair_pub(CTX, &kpk, &kp); vh_out_pk33(out, "kpk", &kpk);
            secp256k1_keypair_xonly_pub(CTX, &kxo, &kpar, &kp); secp256k1_xonly_pubkey_serialize(CTX, kx, &kxo);
            jo_bytes(out, "kx", kx, 32); jo_int(out, "kpar", kpar);
        }
        if (op == 5 && pret) jo_int(out, "chk", chk);
        vh_obj_close(out, sf);
        if (!sret || !pret) break;
    }
    jo_raw(out, "]", 1);
}

static void op_KeypairCreate(const jv *in, jout *out) {
    unsigned char key[32], sec[32], x[32]; secp256k1_keypair kp; secp256k1_pubkey pk; secp256k1_xonly_pubkey xo; int ret, par = -1;
    jv_need(in, "key", key, 32);
    memset(&kp, 0xAA, sizeof(kp));
    ret = secp256k1_keypair_create(CTX, &kp, key);
    jo_int(out, "ret", ret);
    if (ret) {
        secp256k1_keypair_sec(CTX, sec, &kp); jo_bytes(out, "sk", sec, 32);
        secp256k1_keypair_pub(CTX, &pk, &kp); vh_out_pk33(out, "pk", &pk);
        jo_int(out, "xret", secp256k1_keypair_xonly_pub(CTX, &xo, &par, &kp));
        secp256k1_xonly_pubkey_serialize(CTX, x, &xo); jo_bytes(out, "x", x, 32); jo_int(out, "par", par);
    } else {
        secp256k1_keypair_sec(CTX, sec, &kp);
        jo_int(out, "skok", secp256k1_ec_seckey_verify(CTX, sec));
    }
}

#define VH_MAX_KEYS 4096
static secp256k1_pubkey VH_PKS[VH_MAX_KEYS];
static const secp256k1_pubkey *VH_PKP[VH_MAX_KEYS];
/* loads "pks" (list of 33/65-byte encodings); returns the count, or -1 if one does not parse */
static long vh_load_pks(const jv *in) {
    const jv *a = jv_get(in, "pks"); const jv *c; long n = 0; unsigned char b[80];
    for (c = a ? a->child : NULL; c; c = c->next) {
        long l = jv_bytes_v(c, b, sizeof(b));
        if (n >= VH_MAX_KEYS || l < 0 || !secp256k1_ec_pubkey_parse(CTX, &VH_PKS[n], b, (size_t)l)) return -1;
        VH_PKP[n] = &VH_PKS[n]; n++;
    }
    return n;
}
static void op_PubkeyCombine(const jv *in, jout *out) {
    secp256k1_pubkey r; unsigned char b33[33]; int ret, ok; long n = vh_load_pks(in);
    jo_int(out, "n", n);
    if (n < 0) return;
    memset(&r, 0xAA, sizeof(r));
    ret = secp256k1_ec_pubkey_combine(CTX, &r, VH_PKP, (size_t)n);
    jo_int(out, "ret", ret);
    ok = vh_pk_usable(&r, b33);
    jo_int(out, "pkok", ok);
    if (ok) jo_bytes(out, "pk", b33, 33);
}
static void op_PubkeyCmp(const jv *in, jout *out) {
    secp256k1_pubkey a, b; int r;
    if (!vh_load_pk(in, "a", &a) || !vh_load_pk(in, "b", &b)) { jo_int(out, "pret", 0); return; }
    jo_int(out, "pret", 1);
    r = secp256k1_ec_pubkey_cmp(CTX, &a, &b);
    jo_int(out, "sign", r < 0 ? -1 : (r > 0 ? 1 : 0));
}
/* "pks" sorted through the public API; "alias": k > 0 makes every k-th pointer refer to the previous entry's object */
static void op_PubkeySort(const jv *in, jout *out) {
    long n = vh_load_pks(in), i, alias = (long)jv_int(in, "alias", 0); int ret; unsigned char b33[33];
    jo_int(out, "n", n);
    if (n < 0) return;
    if (alias > 0) for (i = 1; i < n; i++) if (i % alias == 0) VH_PKP[i] = VH_PKP[i - 1];
    ret = secp256k1_ec_pubkey_sort(CTX, VH_PKP, (size_t)n);
    jo_int(out, "ret", ret);
    jo_key(out, "sorted"); jo_raw(out, "[", 1);
    for (i = 0; i < n; i++) {
        size_t l = 33;
        secp256k1_ec_pubkey_serialize(CTX, b33, &l, VH_PKP[i], SECP256K1_EC_COMPRESSED);
        if (i) jo_raw(out, ",", 1);
        jo_bytes_raw(out, b33, 33);
    }
    jo_raw(out, "]", 1);
}
static void op_XonlyTweakCheck(const jv *in, jout *out) {
    unsigned char ix[32], t[32], ox[32]; secp256k1_xonly_pubkey xo; int pret; long par = (long)jv_int(in, "par", 0);
    jv_need(in, "ix", ix, 32); jv_need(in, "t", t, 32); jv_need(in, "ox", ox, 32);
    pret = secp256k1_xonly_pubkey_parse(CTX, &xo, ix);
    jo_int(out, "pret", pret);
    if (pret) jo_int(out, "ret", secp256k1_xonly_pubkey_tweak_add_check(CTX, ox, (int)par, &xo, t));
}
/* the internal heap sort on an int array with a counting comparison callback (binds spec/scheme/HeapSort.tla) */
typedef struct { long ncmp; } vh_hs_count;
static int vh_hs_cmp(const void *a, const void *b, void *data) {
    int x = *(const int*)a, y = *(const int*)b; ((vh_hs_count*)data)->ncmp++;
    return x < y ? -1 : (x > y ? 1 : 0);
}
static void op_HsortInts(const jv *in, jout *out) {
    static int arr[4096]; const jv *a = jv_get(in, "arr"); const jv *c; size_t n = 0, i; vh_hs_count cnt; cnt.ncmp = 0;
    for (c = a ? a->child : NULL; c && n < 4096; c = c->next) arr[n++] = (int)c->i;
    secp256k1_hsort(arr, n, sizeof(int), vh_hs_cmp, &cnt);
    jo_key(out, "sorted"); jo_raw(out, "[", 1);
    for (i = 0; i < n; i++) { char tmp[24]; sprintf(tmp, i ? ",%d" : "%d", arr[i]); jo_str(out, tmp); }
    jo_raw(out, "]", 1);
    jo_int(out, "ncmp", cnt.ncmp);
}
/* secret-side operations on RAW key bytes, including invalid keys (0, >= n): "fails exactly in its documented cases (invalid key ...)
 * and then returns no usable key" -- in particular a key zeroed by an earlier failure stays dead */
static void op_SeckeyRaw(const jv *in, jout *out) {
    unsigned char sk[32], t[32]; long op = jv_int(in, "op", 1); int ret = 0;
    jv_need(in, "key", sk, 32); if (jv_bytes(in, "t", t, 32) != 32) memset(t, 0, 32);
    /* "alias": 1 = the tweak argument IS the key buffer (the prototypes are not restrict-qualified and the header does not forbid it) */
    if (jv_int(in, "alias", 0)) { ret = (op == 1) ? secp256k1_ec_seckey_tweak_add(CTX, sk, sk) : secp256k1_ec_seckey_tweak_mul(CTX, sk, sk); }
    else if (op == 1) ret = secp256k1_ec_seckey_tweak_add(CTX, sk, t);
    else if (op == 2) ret = secp256k1_ec_seckey_tweak_mul(CTX, sk, t);
    else if (op == 3) ret = secp256k1_ec_seckey_negate(CTX, sk);
    else { secp256k1_keypair kp; ret = secp256k1_keypair_create(CTX, &kp, sk) && secp256k1_keypair_xonly_tweak_add(CTX, &kp, t); }
    jo_int(out, "ret", ret); jo_int(out, "skok", secp256k1_ec_seckey_verify(CTX, sk));
    if (ret) jo_bytes(out, "sk", sk, 32);
}
#define VH_OPS_KEYS \
    { "SeckeyRaw", op_SeckeyRaw }, \
    { "PubkeyCreate", op_PubkeyCreate }, { "KeyChain", op_KeyChain }, { "KeypairCreate", op_KeypairCreate }, \
    { "PubkeyCombine", op_PubkeyCombine }, { "PubkeyCmp", op_PubkeyCmp }, { "PubkeySort", op_PubkeySort }, \
    { "XonlyTweakCheck", op_XonlyTweakCheck }, { "HsortInts", op_HsortInts },
