/* C04: key algebra.  Public keys travel as 33-byte compressed encodings (33 zero bytes = all-zero object). */
static void op_PubkeyCreate(const jv *in, jout *out) {
    unsigned char key[32]; secp256k1_pubkey pk; int ret;
    jv_need(in, "key", key, 32);
    memset(&pk, 0xAA, sizeof(pk));
    ret = secp256k1_ec_pubkey_create(CTX, &pk, key);
    jo_int(out, "ret", ret); vh_out_pk33(out, "pk", &pk);
    jo_int(out, "verify", secp256k1_ec_seckey_verify(CTX, key));
}
#define VH_OPS_KEYS \
    { "PubkeyCreate", op_PubkeyCreate },
