/* C17: Schnorr half-aggregation.  Keys travel as 32-byte x-only encodings ("pks": array of 32-byte arrays),
 * messages as "msgs" (array of 32-byte arrays), signatures as "sigs" (array of 64-byte arrays).
 * Every aggregate buffer is followed by a 64-byte canary region; "guard" = 1 iff it is intact after the call. */
#define VH_HA_MAX 300
static secp256k1_xonly_pubkey VH_HA_PK[VH_HA_MAX];
static unsigned char VH_HA_MSG[VH_HA_MAX * 32], VH_HA_SIG[VH_HA_MAX * 64];
static unsigned char VH_HA_BUF[32 * (VH_HA_MAX + 8) + 64];

static size_t vh_ha_count(const jv *in, const char *key) { const jv *a = jv_get(in, key); return (a && a->t == JV_ARR) ? a->n : 0; }
/* load "pks" (parsed) and "msgs"; returns 1 iff every key parses; *n = number of keys */
static int vh_ha_load(const jv *in, size_t *n) {
    const jv *a = jv_get(in, "pks"), *m = jv_get(in, "msgs"), *c; size_t k = 0; int ok = 1; unsigned char b[32];
    for (c = (a && a->t == JV_ARR) ? a->child : NULL; c; c = c->next) {
        if (k >= VH_HA_MAX) { fprintf(stderr, "vh: too many keys\n"); exit(3); }
        if (jv_bytes_v(c, b, 32) != 32) { fprintf(stderr, "vh: pks element must have 32 bytes\n"); exit(3); }
        ok &= secp256k1_xonly_pubkey_parse(CTX, &VH_HA_PK[k], b);
        k++;
    }
    *n = k; k = 0;
    for (c = (m && m->t == JV_ARR) ? m->child : NULL; c; c = c->next) {
        if (k >= VH_HA_MAX || jv_bytes_v(c, &VH_HA_MSG[32 * k], 32) != 32) { fprintf(stderr, "vh: bad msgs\n"); exit(3); }
        k++;
    }
    if (k != *n) { fprintf(stderr, "vh: msgs and pks differ in count\n"); exit(3); }
    return ok;
}
static size_t vh_ha_load_sigs(const jv *in) {
    const jv *s = jv_get(in, "sigs"), *c; size_t k = 0;
    for (c = (s && s->t == JV_ARR) ? s->child : NULL; c; c = c->next) {
        if (k >= VH_HA_MAX || jv_bytes_v(c, &VH_HA_SIG[64 * k], 64) != 64) { fprintf(stderr, "vh: bad sigs\n"); exit(3); }
        k++;
    }
    return k;
}
static void vh_ha_canary(size_t cap) { memset(VH_HA_BUF + cap, 0xC5, 64); }
static int vh_ha_guard(size_t cap) { size_t i; for (i = 0; i < 64; i++) if (VH_HA_BUF[cap + i] != 0xC5) return 0; return 1; }

/* one-shot aggregation into a buffer of "buflen" bytes (pre-filled with "fill") */
/* "nest": k > 0 = the aggregation runs on a context whose SHA-256 compression function is a caller's (correct) function that, at its
 * k-th invocation, itself aggregates the first two signatures on another context -- the deterministic single-threaded replay of two
 * aggregations in flight at once (re-entrancy; results are a function of the arguments only) */
static secp256k1_context *VH_HA_NCTX = NULL; static long VH_HA_NCOUNT = 0, VH_HA_NAT = 0; static int VH_HA_NIN = 0; static size_t VH_HA_NN = 0;
static void vh_ha_nest_fn(uint32_t *st, const unsigned char *blocks, size_t nb) {
    VH_HA_NCOUNT++;
    if (VH_HA_NCOUNT == VH_HA_NAT && !VH_HA_NIN && VH_HA_NN >= 2) {
        unsigned char tmp[96]; size_t tl = sizeof(tmp);
        VH_HA_NIN = 1; (void)secp256k1_schnorrsig_aggregate(CTX, tmp, &tl, VH_HA_PK, VH_HA_MSG, VH_HA_SIG, 2); VH_HA_NIN = 0;
    }
    secp256k1_sha256_transform(st, blocks, nb);
}
static void op_HalfAggAggregate(const jv *in, jout *out) {
    size_t n, ns, len; int pret, ret; long buflen = (long)jv_int(in, "buflen", 0); long fill = (long)jv_int(in, "fill", 0xAA);
    pret = vh_ha_load(in, &n); ns = vh_ha_load_sigs(in);
    if (ns != n || buflen < 0 || (size_t)buflen > sizeof(VH_HA_BUF) - 64) { fprintf(stderr, "vh: HalfAggAggregate arguments\n"); exit(3); }
    jo_int(out, "pret", pret);
    if (!pret) return;
    memset(VH_HA_BUF, (int)fill, (size_t)buflen); vh_ha_canary((size_t)buflen);
    len = (size_t)buflen;
    if (jv_int(in, "nest", 0) > 0) {
        if (!VH_HA_NCTX) { VH_HA_NCTX = secp256k1_context_create(SECP256K1_CONTEXT_NONE); secp256k1_context_set_illegal_callback(VH_HA_NCTX, vh_illegal_cb, NULL);
                           secp256k1_context_set_error_callback(VH_HA_NCTX, vh_error_cb, NULL); secp256k1_context_set_sha256_compression(VH_HA_NCTX, vh_ha_nest_fn); }
        VH_HA_NCOUNT = 0; VH_HA_NAT = (long)jv_int(in, "nest", 0); VH_HA_NN = n;
        ret = secp256k1_schnorrsig_aggregate(VH_HA_NCTX, VH_HA_BUF, &len, n ? VH_HA_PK : NULL, n ? VH_HA_MSG : NULL, n ? VH_HA_SIG : NULL, n);
        VH_HA_NAT = 0;
    } else
    ret = secp256k1_schnorrsig_aggregate(CTX, VH_HA_BUF, &len, n ? VH_HA_PK : NULL, n ? VH_HA_MSG : NULL, n ? VH_HA_SIG : NULL, n);
    jo_int(out, "ret", ret); jo_int(out, "guard", vh_ha_guard((size_t)buflen));
    jo_int(out, "lenout", (long long)len);
    if (ret) { jo_int(out, "len", (long long)len); jo_bytes(out, "agg", VH_HA_BUF, len <= (size_t)buflen ? len : (size_t)buflen); }
}
/* incremental aggregation: "buf" = initial contents AND capacity of the aggregate buffer, "nbefore", "sigs" = the new ones */
static void op_HalfAggInc(const jv *in, jout *out) {
    size_t n, ns, len; int pret, ret; long cap; long nb = (long)jv_int(in, "nbefore", 0);
    pret = vh_ha_load(in, &n); ns = vh_ha_load_sigs(in);
    cap = jv_bytes(in, "buf", VH_HA_BUF, sizeof(VH_HA_BUF) - 64);
    if (cap < 0 || nb < 0 || (size_t)nb + ns != n) { fprintf(stderr, "vh: HalfAggInc arguments\n"); exit(3); }
    jo_int(out, "pret", pret);
    if (!pret) return;
    vh_ha_canary((size_t)cap);
    len = (size_t)cap;
    ret = secp256k1_schnorrsig_inc_aggregate(CTX, VH_HA_BUF, &len, n ? VH_HA_PK : NULL, n ? VH_HA_MSG : NULL, ns ? VH_HA_SIG : NULL, (size_t)nb, ns);
    jo_int(out, "ret", ret); jo_int(out, "guard", vh_ha_guard((size_t)cap));
    jo_int(out, "lenout", (long long)len);
    if (ret) { jo_int(out, "len", (long long)len); jo_bytes(out, "agg", VH_HA_BUF, len <= (size_t)cap ? len : (size_t)cap); }
}
static void op_HalfAggVerify(const jv *in, jout *out) {
    size_t n; int pret; long alen;
    pret = vh_ha_load(in, &n);
    alen = jv_bytes(in, "agg", VH_HA_BUF, sizeof(VH_HA_BUF));
    if (alen < 0) { fprintf(stderr, "vh: HalfAggVerify needs agg\n"); exit(3); }
    jo_int(out, "pret", pret);
    if (!pret) return;
    jo_int(out, "ret", secp256k1_schnorrsig_aggverify(CTX, n ? VH_HA_PK : NULL, n ? VH_HA_MSG : NULL, n, VH_HA_BUF, (size_t)alen));
}
/* a whole schedule on the implementation, feeding its own output back: "parts" = n1, n2, ... (sum = number of sigs).
 * mode 0: the first part through secp256k1_schnorrsig_aggregate, mode 1: every part through inc_aggregate.
 * The buffer capacity passed at each step is exactly 32*(done+part+1) + "slack". */
static void op_HalfAggSchedule(const jv *in, jout *out) {
    size_t n, ns, len = 0, done = 0, k = 0; int pret, ret = 1, guard = 1; long mode = (long)jv_int(in, "mode", 0), slack = (long)jv_int(in, "slack", 0);
    const jv *parts = jv_get(in, "parts"), *c; unsigned char rets[64];
    pret = vh_ha_load(in, &n); ns = vh_ha_load_sigs(in);
    if (ns != n || slack < 0 || slack > 64) { fprintf(stderr, "vh: HalfAggSchedule arguments\n"); exit(3); }
    jo_int(out, "pret", pret);
    if (!pret) return;
    memset(VH_HA_BUF, 0x5A, sizeof(VH_HA_BUF));
    memset(VH_HA_BUF, 0, 32); /* the aggregate of no signatures */
    for (c = parts ? parts->child : NULL; c && k < 64; c = c->next, k++) {
        size_t part = (size_t)c->i, cap;
        if (done + part > n) { fprintf(stderr, "vh: parts exceed the number of signatures\n"); exit(3); }
        cap = 32 * (done + part + 1) + (size_t)slack;
        vh_ha_canary(cap); len = cap;
        if (k == 0 && mode == 0) rets[k] = (unsigned char)secp256k1_schnorrsig_aggregate(CTX, VH_HA_BUF, &len, part ? VH_HA_PK : NULL, part ? VH_HA_MSG : NULL, part ? VH_HA_SIG : NULL, part);
        else rets[k] = (unsigned char)secp256k1_schnorrsig_inc_aggregate(CTX, VH_HA_BUF, &len, (done + part) ? VH_HA_PK : NULL, (done + part) ? VH_HA_MSG : NULL, part ? &VH_HA_SIG[64 * done] : NULL, done, part);
        guard &= vh_ha_guard(cap);
        ret &= rets[k];
        if (!rets[k]) break;
        done += part;
    }
    if (done != n && ret) { fprintf(stderr, "vh: parts do not add up\n"); exit(3); }
    jo_bytes(out, "rets", rets, k < 64 && c ? k + 1 : k);
    jo_int(out, "ret", ret); jo_int(out, "guard", guard);
    if (ret) {
        jo_int(out, "len", (long long)len); jo_bytes(out, "agg", VH_HA_BUF, len);
        jo_int(out, "vret", secp256k1_schnorrsig_aggverify(CTX, n ? VH_HA_PK : NULL, n ? VH_HA_MSG : NULL, n, VH_HA_BUF, len));
    }
}
#define VH_OPS_HALFAGG \
    { "HalfAggAggregate", op_HalfAggAggregate }, { "HalfAggInc", op_HalfAggInc }, \
    { "HalfAggVerify", op_HalfAggVerify }, { "HalfAggSchedule", op_HalfAggSchedule },
