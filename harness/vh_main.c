/* Verification harness: an interpreter from call records to the real API.
 *   stdin : one JSON object per line  {"e":"<Action>","in":{...}}   (other members ignored)
 *   stdout: one JSON object per line  {"e":"<Action>","in":{...verbatim...},"out":{...}}
 * The translation unit includes the repository's secp256k1.c, so internal (static) functions are
 * reachable without hooks.  The harness never judges; it executes and logs. */
#ifndef VH_REPO
#define VH_REPO "/repo"
#endif
#include <stdlib.h>
#include <string.h>
/* counting allocator: every malloc/free made by the library (this translation unit) is counted */
static unsigned long VH_MALLOCS = 0, VH_FREES = 0;
static void *vh_counting_malloc(size_t n) { void *p = malloc(n); if (p) VH_MALLOCS++; return p; }
static void vh_counting_free(void *p) { if (p) VH_FREES++; free(p); }
#define malloc vh_counting_malloc
#define free vh_counting_free
#include "../../repo/src/secp256k1.c"
#undef malloc
#undef free
#include "../../repo/include/secp256k1_recovery.h"
#include "../../repo/include/secp256k1_extrakeys.h"
#include "../../repo/include/secp256k1_schnorrsig.h"
#ifdef EXHAUSTIVE_TEST_ORDER
#include "../../repo/src/ecmult_compute_table_impl.h"
#include "../../repo/src/ecmult_gen_compute_table_impl.h"
#endif
#include "vh_json.h"
#include <signal.h>
#include <unistd.h>
/* per-record watchdog: a call that does not return (e.g. an unbounded retry loop) ends the process with a diagnostic
 * instead of blocking the check; the engine reports the record that produced no output line */
static void vh_watchdog(int sig) { static const char m[] = "vh: WATCHDOG: the current API call did not return within 120 s\n"; (void)sig; if (write(2, m, sizeof(m) - 1)) {} _exit(4); }

static secp256k1_context *CTX;
static long ICB = 0, ECB = 0;
static void vh_illegal_cb(const char *msg, void *data) { (void)msg; (void)data; ICB++; }
static void vh_error_cb(const char *msg, void *data) { (void)msg; (void)data; ECB++; }

static void vh_custom_sha_fn(uint32_t *state, const unsigned char *blocks64, size_t n_blocks) { secp256k1_sha256_transform(state, blocks64, n_blocks); }
typedef void (*vh_op_fn)(const jv *in, jout *out);
typedef struct { const char *name; vh_op_fn fn; } vh_op;

/* ---------- shared helpers ---------- */
static int vh_load_pk(const jv *in, const char *key, secp256k1_pubkey *pk) {
    unsigned char b[80]; long n = jv_bytes(in, key, b, sizeof(b));
    if (n < 0) return 0;
    return secp256k1_ec_pubkey_parse(CTX, pk, b, (size_t)n);
}
static void vh_out_pk33(jout *out, const char *key, const secp256k1_pubkey *pk) {
    unsigned char b[33]; size_t l = 33;
    /* an all-zero object is logged as 33 zero bytes (serializing it would call the illegal callback) */
    if (secp256k1_is_zero_array((const unsigned char*)pk, sizeof(*pk))) { memset(b, 0, 33); }
    else { secp256k1_ec_pubkey_serialize(CTX, b, &l, pk, SECP256K1_EC_COMPRESSED); }
    jo_bytes(out, key, b, 33);
}

/* nonce function "seq": data = {n, nonces[n][32]}; returns nonces[counter] or fails */
typedef struct { size_t n; unsigned char k[8][32]; } vh_nonce_seq;
static int vh_nonce_fn_seq(unsigned char *nonce32, const unsigned char *msg32, const unsigned char *key32, const unsigned char *algo16, void *data, unsigned int counter) {
    const vh_nonce_seq *s = (const vh_nonce_seq*)data;
    (void)msg32; (void)key32; (void)algo16;
    if (counter >= s->n) return 0;
    memcpy(nonce32, s->k[counter], 32);
    return 1;
}
static void vh_load_nonce_seq(const jv *in, vh_nonce_seq *s) {
    const jv *a = jv_get(in, "nonces"); const jv *c; s->n = 0;
    for (c = a ? a->child : NULL; c && s->n < 8; c = c->next) { jv_bytes_v(c, s->k[s->n], 32); s->n++; }
}

#ifdef VH_G_ECDSA
#include "ops_ecdsa.h"
#else
#define VH_OPS_ECDSA
#endif
#ifdef VH_G_SCHNORR
#include "ops_schnorr.h"
#else
#define VH_OPS_SCHNORR
#endif
#ifdef VH_G_CODEC
#include "ops_codec.h"
#else
#define VH_OPS_CODEC
#endif
#ifdef VH_G_KEYS
#include "ops_keys.h"
#else
#define VH_OPS_KEYS
#endif
#ifdef VH_G_PEDERSEN
#include "ops_pedersen.h"
#else
#define VH_OPS_PEDERSEN
#endif
#ifdef VH_G_RANGEPROOF
#include "ops_rangeproof.h"
#else
#define VH_OPS_RANGEPROOF
#endif
#ifdef VH_G_SURJECTION
#include "ops_surjection.h"
#else
#define VH_OPS_SURJECTION
#endif
#ifdef VH_G_WHITELIST
#include "ops_whitelist.h"
#else
#define VH_OPS_WHITELIST
#endif
#ifdef VH_G_MUSIG
#include "ops_musig.h"
#else
#define VH_OPS_MUSIG
#endif
#ifdef VH_G_ADAPTOR
#include "ops_adaptor.h"
#else
#define VH_OPS_ADAPTOR
#endif
#ifdef VH_G_S2C
#include "ops_s2c.h"
#else
#define VH_OPS_S2C
#endif
#ifdef VH_G_HALFAGG
#include "ops_halfagg.h"
#else
#define VH_OPS_HALFAGG
#endif
#ifdef VH_G_ECDH
#include "ops_ecdh.h"
#else
#define VH_OPS_ECDH
#endif
#ifdef VH_G_ELLSWIFT
#include "ops_ellswift.h"
#else
#define VH_OPS_ELLSWIFT
#endif
#ifdef VH_G_BPPP
#include "ops_bppp.h"
#else
#define VH_OPS_BPPP
#endif
#ifdef VH_G_MUSIGNONCE
#include "ops_musignonce.h"
#else
#define VH_OPS_MUSIGNONCE
#endif
#ifdef VH_G_CTX
#include "ops_ctx.h"
#else
#define VH_OPS_CTX
#endif
#ifdef VH_G_KERNEL
#include "ops_kernel.h"
#else
#define VH_OPS_KERNEL
#endif
#ifdef VH_G_SCRATCH
#include "ops_scratch.h"
#else
#define VH_OPS_SCRATCH
#endif
#ifdef VH_G_UNTRUSTED
#include "ops_untrusted.h"
#else
#define VH_OPS_UNTRUSTED
#endif
#ifdef VH_G_CT
#include "ops_ct.h"
#else
#define VH_OPS_CT
#endif

static const vh_op OPS[] = {
    VH_OPS_ECDSA
    VH_OPS_SCHNORR
    VH_OPS_CODEC
    VH_OPS_KEYS
    VH_OPS_PEDERSEN
    VH_OPS_RANGEPROOF
    VH_OPS_SURJECTION
    VH_OPS_WHITELIST
    VH_OPS_MUSIG
    VH_OPS_ADAPTOR
    VH_OPS_S2C
    VH_OPS_HALFAGG
    VH_OPS_ECDH
    VH_OPS_ELLSWIFT
    VH_OPS_BPPP
    VH_OPS_MUSIGNONCE
    VH_OPS_CTX
    VH_OPS_KERNEL
    VH_OPS_SCRATCH
    VH_OPS_UNTRUSTED
    VH_OPS_CT
    { NULL, NULL }
};

static int vh_static_ctx = 0;
int main(int argc, char **argv) {
    char *line = NULL; size_t cap = 0; ssize_t n;
    jout out; memset(&out, 0, sizeof(out));
    (void)argc; (void)argv;
#ifdef EXHAUSTIVE_TEST_ORDER
    /* recreate the tables for the small test group, exactly as src/tests_exhaustive.c does */
    secp256k1_ecmult_gen_compute_table(&secp256k1_ecmult_gen_prec_table[0][0], &secp256k1_ge_const_g, COMB_BLOCKS, COMB_TEETH, COMB_SPACING);
    secp256k1_ecmult_compute_two_tables(secp256k1_pre_g, secp256k1_pre_g_128, WINDOW_G, &secp256k1_ge_const_g);
#endif
    signal(SIGALRM, vh_watchdog);
    /* VH_STATIC_CTX=1: the shared context is a COPY of secp256k1_context_static (callbacks may be set on copies, see
     * secp256k1_context_set_illegal_callback); only records of actions the specification lists as enabled on the static
     * context (spec/api/StaticCtx.tla) are replayed in this mode */
    if (getenv("VH_STATIC_CTX") != NULL) { CTX = (secp256k1_context*)malloc(sizeof(*CTX)); memcpy(CTX, secp256k1_context_static, sizeof(*CTX)); vh_static_ctx = 1; }
    else CTX = secp256k1_context_create(SECP256K1_CONTEXT_NONE);
    secp256k1_context_set_illegal_callback(CTX, vh_illegal_cb, NULL);
    secp256k1_context_set_error_callback(CTX, vh_error_cb, NULL);
    /* VH_CUSTOM_SHA=1: the shared context gets a replaced-but-correct SHA-256 compression function (C20: results must not change) */
    if (getenv("VH_CUSTOM_SHA") != NULL) secp256k1_context_set_sha256_compression(CTX, vh_custom_sha_fn);
    while ((n = getline(&line, &cap, stdin)) > 0) {
        jv *rec; const jv *e, *in; const vh_op *op;
        long icb0 = ICB, ecb0 = ECB;
        if (n < 2) continue;
        jv_reset(); jv_parse(line, &rec);
        e = jv_get(rec, "e"); in = jv_get(rec, "in");
        if (!e || e->t != JV_STR) { fprintf(stderr, "vh: record without \"e\"\n"); return 3; }
        for (op = OPS; op->name; op++) if (jv_is(e, op->name)) break;
        if (!op->name) { fprintf(stderr, "vh: unknown op %.*s\n", (int)e->slen, e->s); return 3; }
        alarm(120);
        out.len = 0; out.first = 1;
        jo_str(&out, "{\"e\":\""); jo_raw(&out, e->s, e->slen); jo_str(&out, "\",\"in\":");
        if (in) jo_raw(&out, in->src, in->srclen); else jo_str(&out, "{}");
        jo_str(&out, ",\"out\":{");
        op->fn(in, &out);
        jo_int(&out, "icb", ICB - icb0);
        if (ECB != ecb0) jo_int(&out, "ecb", ECB - ecb0);
        jo_str(&out, "}}\n");
        fwrite(out.b, 1, out.len, stdout);
        fflush(stdout);   /* a crash in the next call must not lose the lines already produced */
        alarm(0);
    }
    fflush(stdout);
    /* release the harness' own memory so that LeakSanitizer (asan variant) reports only leaks of the library */
    free(line); free(out.b); free(jv_arena); jv_arena = NULL;
    if (vh_static_ctx) free(CTX); else secp256k1_context_destroy(CTX);
    return 0;
}
