/* Verification harness: an interpreter from call records to the real API.
 *   stdin : one JSON object per line  {"e":"<Action>","in":{...}}   (other members ignored)
 *   stdout: one JSON object per line  {"e":"<Action>","in":{...verbatim...},"out":{...}}
 * The translation unit includes the repository's secp256k1.c, so internal (static) functions are
 * reachable without hooks.  The harness never judges; it executes and logs. */
#ifndef VH_REPO
#define VH_REPO "/repo"
#endif
#include "../../repo/src/secp256k1.c"
#include "../../repo/include/secp256k1_recovery.h"
#include "../../repo/include/secp256k1_extrakeys.h"
#include "../../repo/include/secp256k1_schnorrsig.h"
#ifdef EXHAUSTIVE_TEST_ORDER
#include "../../repo/src/ecmult_compute_table_impl.h"
#include "../../repo/src/ecmult_gen_compute_table_impl.h"
#endif
#include "vh_json.h"

static secp256k1_context *CTX;
static long ICB = 0, ECB = 0;
static void vh_illegal_cb(const char *msg, void *data) { (void)msg; (void)data; ICB++; }
static void vh_error_cb(const char *msg, void *data) { (void)msg; (void)data; ECB++; }

typedef void (*vh_op_fn)(const jv *in, jout *out);
typedef struct { const char *name; vh_op_fn fn; } vh_op;

/* ---------- shared helpers ---------- */
static int vh_load_pk(const jv *in, const char *key, secp256k1_pubkey *pk) {
    unsigned char b[80]; long n = jv_bytes(in, key, b, sizeof(b));
    if (n < 0) return 0;
    return secp256k1_ec_pubkey_parse(CTX, pk, b, (size_t)n);
}
static void vh_out_pk33(jout *out, const char *key, const secp256k1_pubkey *pk) {
    unsigned char b[33]; size_t l = 33;
    /* an all-zero object is logged as 33 zero bytes (serializing it would call the illegal callback) */
    if (secp256k1_is_zero_array((const unsigned char*)pk, sizeof(*pk))) { memset(b, 0, 33); }
    else { secp256k1_ec_pubkey_serialize(CTX, b, &l, pk, SECP256K1_EC_COMPRESSED); }
    jo_bytes(out, key, b, 33);
}

/* nonce function "seq": data = {n, nonces[n][32]}; returns nonces[counter] or fails */
typedef struct { size_t n; unsigned char k[8][32]; } vh_nonce_seq;
static int vh_nonce_fn_seq(unsigned char *nonce32, const unsigned char *msg32, const unsigned char *key32, const unsigned char *algo16, void *data, unsigned int counter) {
    const vh_nonce_seq *s = (const vh_nonce_seq*)data;
    (void)msg32; (void)key32; (void)algo16;
    if (counter >= s->n) return 0;
    memcpy(nonce32, s->k[counter], 32);
    return 1;
}
static void vh_load_nonce_seq(const jv *in, vh_nonce_seq *s) {
    const jv *a = jv_get(in, "nonces"); const jv *c; s->n = 0;
    for (c = a ? a->child : NULL; c && s->n < 8; c = c->next) { jv_bytes_v(c, s->k[s->n], 32); s->n++; }
}

#include "ops_ecdsa.h"
#include "ops_schnorr.h"
#include "ops_codec.h"
#include "ops_keys.h"
#include "ops_extra.h"

static const vh_op OPS[] = {
    VH_OPS_ECDSA
    VH_OPS_SCHNORR
    VH_OPS_CODEC
    VH_OPS_KEYS
    VH_OPS_EXTRA
    { NULL, NULL }
};

int main(int argc, char **argv) {
    char *line = NULL; size_t cap = 0; ssize_t n;
    jout out; memset(&out, 0, sizeof(out));
    (void)argc; (void)argv;
#ifdef EXHAUSTIVE_TEST_ORDER
    /* recreate the tables for the small test group, exactly as src/tests_exhaustive.c does */
    secp256k1_ecmult_gen_compute_table(&secp256k1_ecmult_gen_prec_table[0][0], &secp256k1_ge_const_g, COMB_BLOCKS, COMB_TEETH, COMB_SPACING);
    secp256k1_ecmult_compute_two_tables(secp256k1_pre_g, secp256k1_pre_g_128, WINDOW_G, &secp256k1_ge_const_g);
#endif
    CTX = secp256k1_context_create(SECP256K1_CONTEXT_NONE);
    secp256k1_context_set_illegal_callback(CTX, vh_illegal_cb, NULL);
    secp256k1_context_set_error_callback(CTX, vh_error_cb, NULL);
    vh_extra_init();
    while ((n = getline(&line, &cap, stdin)) > 0) {
        jv *rec; const jv *e, *in; const vh_op *op;
        long icb0 = ICB, ecb0 = ECB;
        if (n < 2) continue;
        jv_reset(); jv_parse(line, &rec);
        e = jv_get(rec, "e"); in = jv_get(rec, "in");
        if (!e || e->t != JV_STR) { fprintf(stderr, "vh: record without \"e\"\n"); return 3; }
        for (op = OPS; op->name; op++) if (jv_is(e, op->name)) break;
        if (!op->name) { fprintf(stderr, "vh: unknown op %.*s\n", (int)e->slen, e->s); return 3; }
        out.len = 0; out.first = 1;
        jo_str(&out, "{\"e\":\""); jo_raw(&out, e->s, e->slen); jo_str(&out, "\",\"in\":");
        if (in) jo_raw(&out, in->src, in->srclen); else jo_str(&out, "{}");
        jo_str(&out, ",\"out\":{");
        op->fn(in, &out);
        jo_int(&out, "icb", ICB - icb0);
        if (ECB != ecb0) jo_int(&out, "ecb", ECB - ecb0);
        jo_str(&out, "}}\n");
        fwrite(out.b, 1, out.len, stdout);
    }
    fflush(stdout);
    return 0;
}
