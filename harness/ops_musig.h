/* C12: MuSig2 (BIP-327).  One record = one program: in.steps is a list of API steps working on numbered
 * slots (keyagg caches c, nonce pairs n, aggregate nonces a, sessions s, partial signatures p, 64-byte
 * signatures g); out.res is the list of per-step results.  The harness executes and logs, nothing else.
 * Fields "exp"/"expt" of a step are annotations for the specification side and are ignored here.
 *
 * step ops and their results
 *   KeyAgg      c pks[] want(bit0 agg_pk, bit1 cache)      -> ret [aggpk32] [pk33 via musig_pubkey_get]
 *   Tweak       c xonly tweak32 outpk                       -> ret, ok: pk33 (cache afterwards) [out33]; fail: [outz]
 *   NonceGen    n rand32 pk33 [sk32] [msg32] [c] [extra32]  -> ret, ok: pubnonce66 randz
 *   NonceGenCtr n cnt8 sk32 [msg32] [c] [extra32]           -> kret [ret [pubnonce66]]
 *   NonceInject n k1 k2 pk33  (internal: secnonce/pubnonce from chosen scalars) -> pubnonce66
 *   PnParse     n in66                                      -> ret [ser66]
 *   NonceAgg    a ns[]                                      -> ret [aggnonce66]
 *   AnParse     a in66                                      -> ret [ser66]
 *   Process     s a msg32 c [adaptor33]                     -> ret [parity R32 b32 e32]
 *   Sign        p n sk32 c s                                -> kret [ret [psig32]]
 *   PsParse     p in32                                      -> ret
 *   PsMut       p from xor32  (parse(serialize(from) xor mask)) -> ret b32
 *   PsVerify    p n pk33 c s                                -> ret
 *   SigAgg      g s ps[]                                    -> ret [sig64]
 *   Verify      g msg c   (schnorrsig_verify under the cache's current aggregate key) -> ret
 *   Adapt       g pre t32 s                                 -> ret [sig64]
 *   Extract     g pre s                                     -> ret [t32]
 *   SigSet      g in64                                      -> ok
 */
#define VM_NC 8
#define VM_NN 80
#define VM_NA 8
#define VM_NS 8
#define VM_NP 96
#define VM_NG 8
typedef struct {
    secp256k1_musig_keyagg_cache cache[VM_NC];
    secp256k1_musig_secnonce sec[VM_NN];
    secp256k1_musig_pubnonce pub[VM_NN];
    secp256k1_musig_aggnonce agg[VM_NA];
    secp256k1_musig_session sess[VM_NS];
    secp256k1_musig_partial_sig psig[VM_NP];
    unsigned char sig[VM_NG][64];
} vm_state;
static vm_state VM;

static size_t vm_slot(const jv *x, const char *key, size_t max) {
    long long v = jv_int(x, key, -1);
    if (v < 0 || (size_t)v >= max) { fprintf(stderr, "vh musig: slot %s out of range\n", key); exit(3); }
    return (size_t)v;
}
static int vm_pk(const jv *x, const char *key, secp256k1_pubkey *pk) { return vh_load_pk(x, key, pk); }
static const unsigned char *vm_opt32(const jv *x, const char *key, unsigned char *buf) {
    return jv_bytes(x, key, buf, 32) == 32 ? buf : NULL;
}
static const secp256k1_musig_keyagg_cache *vm_optcache(const jv *x) {
    return jv_get(x, "c") ? &VM.cache[vm_slot(x, "c", VM_NC)] : NULL;
}
static void vm_out_pubnonce(jout *out, const char *key, const secp256k1_musig_pubnonce *pn) {
    unsigned char b[66];
    if (secp256k1_musig_pubnonce_serialize(CTX, b, pn)) jo_bytes(out, key, b, 66);
}
static void vm_out_cachepk(jout *out, const char *key, const secp256k1_musig_keyagg_cache *c) {
    secp256k1_pubkey pk;
    if (secp256k1_musig_pubkey_get(CTX, &pk, c)) vh_out_pk33(out, key, &pk);
}

static void vm_KeyAgg(const jv *x, jout *out) {
    static secp256k1_pubkey pk[64]; const secp256k1_pubkey *pp[64];
    const jv *pks = jv_get(x, "pks"); const jv *c; size_t n = 0, slot = vm_slot(x, "c", VM_NC); int ok = 1, ret;
    long want = (long)jv_int(x, "want", 3); secp256k1_xonly_pubkey xo; unsigned char b[80];
    for (c = pks ? pks->child : NULL; c && n < 64; c = c->next) {
        long l = jv_bytes_v(c, b, sizeof(b));
        if (l < 0 || !secp256k1_ec_pubkey_parse(CTX, &pk[n], b, (size_t)l)) ok = 0;
        pp[n] = &pk[n]; n++;
    }
    if (!ok || n == 0) { jo_int(out, "ret", 0); return; }
    ret = secp256k1_musig_pubkey_agg(CTX, (want & 1) ? &xo : NULL, (want & 2) ? &VM.cache[slot] : NULL, pp, n);
    jo_int(out, "ret", ret);
    if (!ret) return;
    if (want & 1) { secp256k1_xonly_pubkey_serialize(CTX, b, &xo); jo_bytes(out, "aggpk", b, 32); }
    if (want & 2) vm_out_cachepk(out, "pk", &VM.cache[slot]);
}
static void vm_Tweak(const jv *x, jout *out) {
    size_t slot = vm_slot(x, "c", VM_NC); unsigned char tw[32]; secp256k1_pubkey o; int ret;
    int xonly = (int)jv_int(x, "xonly", 0), outpk = (int)jv_int(x, "outpk", 0);
    jv_need(x, "tweak", tw, 32);
    memset(&o, 0xAA, sizeof(o));
    ret = xonly ? secp256k1_musig_pubkey_xonly_tweak_add(CTX, outpk ? &o : NULL, &VM.cache[slot], tw)
                : secp256k1_musig_pubkey_ec_tweak_add(CTX, outpk ? &o : NULL, &VM.cache[slot], tw);
    jo_int(out, "ret", ret);
    if (ret) { vm_out_cachepk(out, "pk", &VM.cache[slot]); if (outpk) vh_out_pk33(out, "out", &o); }
    else if (outpk) jo_int(out, "outz", secp256k1_is_zero_array((unsigned char*)&o, sizeof(o)));
}
static void vm_NonceGen(const jv *x, jout *out) {
    size_t n = vm_slot(x, "n", VM_NN); unsigned char rand[32], sk[32], msg[32], extra[32]; secp256k1_pubkey pk; int ret;
    jv_need(x, "rand", rand, 32);
    if (!vm_pk(x, "pk", &pk)) { jo_int(out, "ret", 0); return; }
    ret = secp256k1_musig_nonce_gen(CTX, &VM.sec[n], &VM.pub[n], rand, vm_opt32(x, "sk", sk), &pk, vm_opt32(x, "msg", msg), vm_optcache(x), vm_opt32(x, "extra", extra));
    jo_int(out, "ret", ret);
    if (ret) { vm_out_pubnonce(out, "pubnonce", &VM.pub[n]); jo_int(out, "randz", secp256k1_is_zero_array(rand, 32)); }
}
static void vm_NonceGenCtr(const jv *x, jout *out) {
    size_t n = vm_slot(x, "n", VM_NN); unsigned char cnt[8], sk[32], msg[32], extra[32]; secp256k1_keypair kp; int ret, kret;
    jv_need(x, "cnt", cnt, 8); jv_need(x, "sk", sk, 32);
    kret = secp256k1_keypair_create(CTX, &kp, sk);
    jo_int(out, "kret", kret);
    if (!kret) return;
    ret = secp256k1_musig_nonce_gen_counter(CTX, &VM.sec[n], &VM.pub[n], secp256k1_read_be64(cnt), &kp, vm_opt32(x, "msg", msg), vm_optcache(x), vm_opt32(x, "extra", extra));
    jo_int(out, "ret", ret);
    if (ret) vm_out_pubnonce(out, "pubnonce", &VM.pub[n]);
}
/* secnonce/pubnonce from caller-chosen scalars, through the module's own (static) constructors */
static void vm_NonceInject(const jv *x, jout *out) {
    size_t n = vm_slot(x, "n", VM_NN); unsigned char b[32]; secp256k1_scalar k[2]; secp256k1_pubkey pk; secp256k1_ge pkge, pts[2]; secp256k1_gej ptj; int i;
    jv_need(x, "k1", b, 32); secp256k1_scalar_set_b32(&k[0], b, NULL);
    jv_need(x, "k2", b, 32); secp256k1_scalar_set_b32(&k[1], b, NULL);
    if (!vm_pk(x, "pk", &pk) || !secp256k1_pubkey_load(CTX, &pkge, &pk)) { fprintf(stderr, "vh musig: NonceInject needs a valid pk\n"); exit(3); }
    secp256k1_musig_secnonce_save(&VM.sec[n], k, &pkge);
    for (i = 0; i < 2; i++) { secp256k1_ecmult_gen(&CTX->ecmult_gen_ctx, &ptj, &k[i]); secp256k1_ge_set_gej(&pts[i], &ptj); }
    secp256k1_musig_pubnonce_save(&VM.pub[n], pts);
    vm_out_pubnonce(out, "pubnonce", &VM.pub[n]);
}
static void vm_PnParse(const jv *x, jout *out) {
    size_t n = vm_slot(x, "n", VM_NN); unsigned char b[66]; int ret;
    jv_need(x, "in", b, 66);
    memset(&VM.sec[n], 0, sizeof(VM.sec[n]));
    ret = secp256k1_musig_pubnonce_parse(CTX, &VM.pub[n], b);
    jo_int(out, "ret", ret);
    if (ret) vm_out_pubnonce(out, "ser", &VM.pub[n]);
}
static void vm_NonceAgg(const jv *x, jout *out) {
    size_t a = vm_slot(x, "a", VM_NA), k = 0; const secp256k1_musig_pubnonce *pp[VM_NN]; const jv *ns = jv_get(x, "ns"); const jv *c; int ret; unsigned char b[66];
    for (c = ns ? ns->child : NULL; c && k < VM_NN; c = c->next) { if (c->i < 0 || c->i >= VM_NN) exit(3); pp[k++] = &VM.pub[c->i]; }
    ret = secp256k1_musig_nonce_agg(CTX, &VM.agg[a], pp, k);
    jo_int(out, "ret", ret);
    if (ret && secp256k1_musig_aggnonce_serialize(CTX, b, &VM.agg[a])) jo_bytes(out, "aggnonce", b, 66);
}
static void vm_AnParse(const jv *x, jout *out) {
    size_t a = vm_slot(x, "a", VM_NA); unsigned char b[66]; int ret;
    jv_need(x, "in", b, 66);
    ret = secp256k1_musig_aggnonce_parse(CTX, &VM.agg[a], b);
    jo_int(out, "ret", ret);
    if (ret && secp256k1_musig_aggnonce_serialize(CTX, b, &VM.agg[a])) jo_bytes(out, "ser", b, 66);
}
static void vm_Process(const jv *x, jout *out) {
    size_t s = vm_slot(x, "s", VM_NS), a = vm_slot(x, "a", VM_NA), c = vm_slot(x, "c", VM_NC); unsigned char msg[32], b[32]; secp256k1_pubkey ad; int has_ad, ret, par = -1;
    secp256k1_musig_session_internal si;
    jv_need(x, "msg", msg, 32);
    has_ad = jv_get(x, "adaptor") != NULL;
    if (has_ad && !vm_pk(x, "adaptor", &ad)) { jo_int(out, "ret", 0); return; }
    ret = secp256k1_musig_nonce_process(CTX, &VM.sess[s], &VM.agg[a], msg, &VM.cache[c], has_ad ? &ad : NULL);
    jo_int(out, "ret", ret);
    if (!ret) return;
    if (secp256k1_musig_nonce_parity(CTX, &par, &VM.sess[s])) jo_int(out, "parity", par);
    /* the session values of BIP-327 (final nonce, b, e), read with the module's own loader */
    if (secp256k1_musig_session_load(CTX, &si, &VM.sess[s])) {
        jo_bytes(out, "R", si.fin_nonce, 32);
        secp256k1_scalar_get_b32(b, &si.noncecoef); jo_bytes(out, "b", b, 32);
        secp256k1_scalar_get_b32(b, &si.challenge); jo_bytes(out, "e", b, 32);
    }
}
static void vm_Sign(const jv *x, jout *out) {
    size_t p = vm_slot(x, "p", VM_NP), n = vm_slot(x, "n", VM_NN), c = vm_slot(x, "c", VM_NC), s = vm_slot(x, "s", VM_NS);
    unsigned char sk[32], b[32]; secp256k1_keypair kp; int kret, ret;
    jv_need(x, "sk", sk, 32);
    kret = secp256k1_keypair_create(CTX, &kp, sk);
    jo_int(out, "kret", kret);
    if (!kret) return;
    ret = secp256k1_musig_partial_sign(CTX, &VM.psig[p], &VM.sec[n], &kp, &VM.cache[c], &VM.sess[s]);
    jo_int(out, "ret", ret);
    if (ret && secp256k1_musig_partial_sig_serialize(CTX, b, &VM.psig[p])) jo_bytes(out, "psig", b, 32);
}
static void vm_PsParse(const jv *x, jout *out) {
    size_t p = vm_slot(x, "p", VM_NP); unsigned char b[32];
    jv_need(x, "in", b, 32);
    jo_int(out, "ret", secp256k1_musig_partial_sig_parse(CTX, &VM.psig[p], b));
}
static void vm_PsMut(const jv *x, jout *out) {
    size_t p = vm_slot(x, "p", VM_NP), f = vm_slot(x, "from", VM_NP); unsigned char b[32], m[32]; int i;
    jv_need(x, "xor", m, 32);
    if (!secp256k1_musig_partial_sig_serialize(CTX, b, &VM.psig[f])) memset(b, 0, 32);
    for (i = 0; i < 32; i++) b[i] ^= m[i];
    jo_int(out, "ret", secp256k1_musig_partial_sig_parse(CTX, &VM.psig[p], b));
    jo_bytes(out, "b", b, 32);
}
static void vm_PsVerify(const jv *x, jout *out) {
    size_t p = vm_slot(x, "p", VM_NP), n = vm_slot(x, "n", VM_NN), c = vm_slot(x, "c", VM_NC), s = vm_slot(x, "s", VM_NS); secp256k1_pubkey pk;
    if (!vm_pk(x, "pk", &pk)) { jo_int(out, "ret", 0); return; }
    jo_int(out, "ret", secp256k1_musig_partial_sig_verify(CTX, &VM.psig[p], &VM.pub[n], &pk, &VM.cache[c], &VM.sess[s]));
}
static void vm_SigAgg(const jv *x, jout *out) {
    size_t g = vm_slot(x, "g", VM_NG), s = vm_slot(x, "s", VM_NS), k = 0; const secp256k1_musig_partial_sig *pp[VM_NP]; const jv *ps = jv_get(x, "ps"); const jv *c; int ret;
    for (c = ps ? ps->child : NULL; c && k < VM_NP; c = c->next) { if (c->i < 0 || c->i >= VM_NP) exit(3); pp[k++] = &VM.psig[c->i]; }
    memset(VM.sig[g], 0xAA, 64);
    ret = secp256k1_musig_partial_sig_agg(CTX, VM.sig[g], &VM.sess[s], pp, k);
    jo_int(out, "ret", ret);
    if (ret) jo_bytes(out, "sig", VM.sig[g], 64);
}
static void vm_Verify(const jv *x, jout *out) {
    size_t g = vm_slot(x, "g", VM_NG), c = vm_slot(x, "c", VM_NC); unsigned char msg[256]; long ml; secp256k1_pubkey pk; secp256k1_xonly_pubkey xo;
    ml = jv_bytes(x, "msg", msg, sizeof(msg)); if (ml < 0) ml = 0;
    if (!secp256k1_musig_pubkey_get(CTX, &pk, &VM.cache[c]) || !secp256k1_xonly_pubkey_from_pubkey(CTX, &xo, NULL, &pk)) { jo_int(out, "ret", -1); return; }
    jo_int(out, "ret", secp256k1_schnorrsig_verify(CTX, VM.sig[g], msg, (size_t)ml, &xo));
}
static void vm_Adapt(const jv *x, jout *out) {
    size_t g = vm_slot(x, "g", VM_NG), pre = vm_slot(x, "pre", VM_NG), s = vm_slot(x, "s", VM_NS); unsigned char t[32]; int par = 0, ret;
    jv_need(x, "t", t, 32);
    if (!secp256k1_musig_nonce_parity(CTX, &par, &VM.sess[s])) { jo_int(out, "ret", -1); return; }
    memset(VM.sig[g], 0xAA, 64);
    ret = secp256k1_musig_adapt(CTX, VM.sig[g], VM.sig[pre], t, par);
    jo_int(out, "ret", ret);
    if (ret) jo_bytes(out, "sig", VM.sig[g], 64);
}
static void vm_Extract(const jv *x, jout *out) {
    size_t g = vm_slot(x, "g", VM_NG), pre = vm_slot(x, "pre", VM_NG), s = vm_slot(x, "s", VM_NS); unsigned char t[32]; int par = 0, ret;
    if (!secp256k1_musig_nonce_parity(CTX, &par, &VM.sess[s])) { jo_int(out, "ret", -1); return; }
    ret = secp256k1_musig_extract_adaptor(CTX, t, VM.sig[g], VM.sig[pre], par);
    jo_int(out, "ret", ret);
    if (ret) jo_bytes(out, "t", t, 32);
}
static void vm_SigSet(const jv *x, jout *out) {
    size_t g = vm_slot(x, "g", VM_NG);
    jv_need(x, "in", VM.sig[g], 64);
    jo_int(out, "ok", 1);
}

typedef struct { const char *name; void (*fn)(const jv *x, jout *out); } vm_step;
static const vm_step VM_STEPS[] = {
    { "KeyAgg", vm_KeyAgg }, { "Tweak", vm_Tweak }, { "NonceGen", vm_NonceGen }, { "NonceGenCtr", vm_NonceGenCtr },
    { "NonceInject", vm_NonceInject }, { "PnParse", vm_PnParse }, { "NonceAgg", vm_NonceAgg }, { "AnParse", vm_AnParse },
    { "Process", vm_Process }, { "Sign", vm_Sign }, { "PsParse", vm_PsParse }, { "PsMut", vm_PsMut }, { "PsVerify", vm_PsVerify },
    { "SigAgg", vm_SigAgg }, { "Verify", vm_Verify }, { "Adapt", vm_Adapt }, { "Extract", vm_Extract }, { "SigSet", vm_SigSet },
    { NULL, NULL }
};
static void op_MusigProg(const jv *in, jout *out) {
    const jv *steps = jv_get(in, "steps"); const jv *x; int k = 0;
    /* everything logged so far is complete records: push it out, so that an abort inside the library
     * (VERIFY_CHECK in the small-group builds) leaves whole lines only and is reported as a crash on THIS record */
    fflush(stdout);
    memset(&VM, 0, sizeof(VM));
    jo_key(out, "res"); jo_raw(out, "[", 1);
    for (x = steps ? steps->child : NULL; x; x = x->next, k++) {
        const jv *op = jv_get(x, "op"); const vm_step *s;
        for (s = VM_STEPS; s->name; s++) if (jv_is(op, s->name)) break;
        if (!s->name) { fprintf(stderr, "vh musig: unknown step op\n"); exit(3); }
        if (k) jo_raw(out, ",", 1);
        jo_raw(out, "{", 1); out->first = 1;
        s->fn(x, out);
        jo_raw(out, "}", 1);
    }
    jo_raw(out, "]", 1); out->first = 0;
}
#define VH_OPS_MUSIG \
    { "MusigProg", op_MusigProg },
