/* C07: untrusted bytes never cause undefined behaviour or callback aborts (group "untrusted").
 *
 * One op per parsing / verification ENTRY POINT.  Conventions of this group:
 *   in.data   the untrusted bytes; the declared length handed to the API is the length of the array; the bytes live in a heap
 *             block that ENDS exactly at the last byte (and whose front pad is poisoned), so the sanitizer build sees every read
 *             outside [data, data+len); parsed objects and output buffers are allocated the same way with their exact size
 *   out.ret   result of the primary entry point (pointer results as 0/1)
 *   out.use   { name: result } of the further entry points run on the same bytes and -- iff the parse succeeded -- of every
 *             CONSUMER of the parsed object
 *   out.leak  change of the number of outstanding library allocations (VH_MALLOCS - VH_FREES) across the whole op
 *   out.rleak the same, measured directly after the primary call (reported when it rejected)
 *   out.dg    8-byte digest of the outputs the library produced on its success paths (compared across build variants)
 *   out.icb/ecb are added by vh_main.c.
 * A fatal signal, a sanitizer report, a VERIFY_CHECK abort or a call running longer than VU_ALARM seconds ends the process with
 * an explicit event line {"e":"Crash","in":{},"out":{"signal":N,"san":0|1,"seq":k,"op":..,"stage":..}} and exit status 1.
 * The ops execute and log; they never judge. */
#include <signal.h>
#include <unistd.h>
#include <stdint.h>
#if defined(__has_feature)
# if __has_feature(address_sanitizer)
#  define VU_ASAN 1
# endif
#endif
#if defined(__SANITIZE_ADDRESS__) && !defined(VU_ASAN)
# define VU_ASAN 1
#endif
#ifdef VU_ASAN
# include <sanitizer/common_interface_defs.h>
# include <sanitizer/asan_interface.h>
# define VU_POISON(p, n) __asan_poison_memory_region((p), (n))
# define VU_UNPOISON(p, n) __asan_unpoison_memory_region((p), (n))
# ifndef VH_BP_ASAN
/* the interpreter keeps its line/arena buffers until exit; leaks of the LIBRARY are counted by VH_MALLOCS/VH_FREES */
const char *__asan_default_options(void) { return "leak_check_at_exit=0:detect_leaks=0:allocator_may_return_null=1"; }
# endif
#else
# define VU_POISON(p, n) ((void)0)
# define VU_UNPOISON(p, n) ((void)0)
#endif
/* contrib/lax_der_parsing.c is found through -I$REPO (so VH_REPO_DIR is honoured) */
#include "contrib/lax_der_parsing.c"

#define VU_ALARM 120
#define VU_PAD 16
static const char *VU_CUR = "-"; static const char *VU_STAGE = "-"; static long VU_SEQ = 0;
static volatile int VU_DYING = 0;
static void vu_crash_event(int sig, int san) {
    char b[320]; int n;
    if (VU_DYING) _exit(1);
    VU_DYING = 1;
    fflush(stdout);
    n = snprintf(b, sizeof(b), "{\"e\":\"Crash\",\"in\":{},\"out\":{\"signal\":%d,\"san\":%d,\"seq\":%ld,\"op\":\"%s\",\"stage\":\"%s\"}}\n", sig, san, VU_SEQ, VU_CUR, VU_STAGE);
    if (n > 0 && write(1, b, (size_t)n) < 0) _exit(1);
}
static void vu_on_signal(int sig) { vu_crash_event(sig, 0); _exit(1); }
#ifdef VU_ASAN
static void vu_on_death(void) { vu_crash_event(0, 1); _exit(1); }
#endif
__attribute__((constructor)) static void vu_install(void) {
    signal(SIGABRT, vu_on_signal); signal(SIGILL, vu_on_signal); signal(SIGALRM, vu_on_signal);
#ifdef VU_ASAN
    /* the sanitizer runtime owns SEGV/BUS/FPE; every report ends in its death callback */
    __sanitizer_set_death_callback(vu_on_death);
#else
    signal(SIGSEGV, vu_on_signal); signal(SIGBUS, vu_on_signal); signal(SIGFPE, vu_on_signal);
#endif
}

/* ---------- exact-size heap blocks ---------- */
static void *vu_alloc(size_t n) {
    unsigned char *p = (unsigned char*)malloc(n + VU_PAD);
    if (!p) { fprintf(stderr, "vh: out of memory\n"); exit(3); }
    memset(p, 0xAA, n + VU_PAD);
    VU_POISON(p, VU_PAD);
    return p + VU_PAD;
}
static void vu_release(void *q) { if (q) { unsigned char *p = (unsigned char*)q - VU_PAD; VU_UNPOISON(p, VU_PAD); free(p); } }
static void *vu_copy(const void *src, size_t n) { void *p = vu_alloc(n); if (n) memcpy(p, src, n); return p; }
#define VU_TMPMAX (1u << 17)
static unsigned char VU_TMP[VU_TMPMAX];
/* exact copy of a byte field; *len = -1 (and NULL) if absent */
static unsigned char *vu_in(const jv *in, const char *key, long *len) {
    *len = jv_bytes(in, key, VU_TMP, sizeof(VU_TMP));
    if (*len < 0) return NULL;
    return (unsigned char*)vu_copy(VU_TMP, (size_t)*len);
}
static unsigned char *vu_in_fixed(const jv *in, const char *key, size_t n) {
    long len; unsigned char *p = vu_in(in, key, &len);
    if (len != (long)n) { fprintf(stderr, "vh: field %s must have %lu bytes (has %ld)\n", key, (unsigned long)n, len); exit(3); }
    return p;
}
/* optional fixed-size context field: copy into dst if present (must have the right size) */
static int vu_opt(const jv *in, const char *key, unsigned char *dst, size_t n) {
    long len = jv_bytes(in, key, VU_TMP, sizeof(VU_TMP));
    if (len < 0) return 0;
    if (len != (long)n) { fprintf(stderr, "vh: context field %s must have %lu bytes\n", key, (unsigned long)n); exit(3); }
    memcpy(dst, VU_TMP, n); return 1;
}
static uint64_t vu_u64(const jv *in, const char *key, uint64_t dflt) {
    unsigned char b[8]; uint64_t r = 0; int i;
    if (!vu_opt(in, key, b, 8)) return dflt;
    for (i = 0; i < 8; i++) r = (r << 8) | b[i];
    return r;
}

/* ---------- digest of outputs ---------- */
static secp256k1_sha256 VU_DG;
static void vu_dg_reset(void) { secp256k1_sha256_initialize(&VU_DG); }
static void vu_dg(const void *p, size_t n) { secp256k1_sha256_write(secp256k1_get_hash_context(CTX), &VU_DG, (const unsigned char*)p, n); }
static void vu_dg_int(long long v) { unsigned char b[8]; int i; for (i = 0; i < 8; i++) b[i] = (unsigned char)((unsigned long long)v >> (8 * i)); vu_dg(b, 8); }
static void vu_dg_out(jout *out) { unsigned char h[32]; secp256k1_sha256_finalize(secp256k1_get_hash_context(CTX), &VU_DG, h); jo_bytes(out, "dg", h, 8); }

/* ---------- "use" map ---------- */
static void vu_use_begin(jout *o) { jo_key(o, "use"); jo_raw(o, "{", 1); o->first = 1; }
static void vu_use_end(jout *o) { jo_raw(o, "}", 1); o->first = 0; }
#define VU_CALL(stage, expr) (VU_STAGE = (stage), (expr))
#define VU_USE(o, name, expr) do { long long vu_r_; VU_STAGE = (name); vu_r_ = (long long)(expr); jo_int((o), (name), vu_r_); vu_dg_int(vu_r_); } while (0)
static long long vu_live(void) { return (long long)VH_MALLOCS - (long long)VH_FREES; }

/* ---------- deterministic derivation ---------- */
static void vu_derive(unsigned char *out32, const unsigned char *seed32, const char *tag, unsigned idx) {
    secp256k1_sha256 s; unsigned char ib[4]; const secp256k1_hash_ctx *h = secp256k1_get_hash_context(CTX);
    ib[0] = (unsigned char)(idx >> 24); ib[1] = (unsigned char)(idx >> 16); ib[2] = (unsigned char)(idx >> 8); ib[3] = (unsigned char)idx;
    secp256k1_sha256_initialize(&s);
    secp256k1_sha256_write(h, &s, seed32, 32); secp256k1_sha256_write(h, &s, (const unsigned char*)tag, strlen(tag)); secp256k1_sha256_write(h, &s, ib, 4);
    secp256k1_sha256_finalize(h, &s, out32);
}
static void vu_seckey(unsigned char *out32, const unsigned char *seed32, const char *tag, unsigned idx) {
    vu_derive(out32, seed32, tag, idx);
    while (!secp256k1_ec_seckey_verify(CTX, out32)) { idx += 100000; vu_derive(out32, seed32, tag, idx); }
}
#define VU_MUST(x) do { if (!(x)) { fprintf(stderr, "vh: fixture construction failed: %s\n", #x); exit(3); } } while (0)

/* ---------- fixtures: valid objects of every type, built once with the library itself ---------- */
static const unsigned char VU_SEED0[32] = { 'C','0','7',' ','f','i','x','t','u','r','e','s',0 };
static struct {
    int ready;
    unsigned char sk1[32], sk2[32], msg[32], t32[32], aux[32], prefix64[64];
    secp256k1_pubkey pk1, pk2; secp256k1_keypair kp1, kp2; secp256k1_xonly_pubkey xo1; unsigned char xo1b[32]; int xo1par;
    secp256k1_ecdsa_signature esig; unsigned char ssig[64];
    secp256k1_musig_keyagg_cache cache; secp256k1_musig_pubnonce pn1, pn2; secp256k1_musig_secnonce sn1, sn2;
    secp256k1_musig_aggnonce an; secp256k1_musig_session sess; secp256k1_musig_partial_sig ps1, ps2; unsigned char msig[64];
    unsigned char adaptor[162], deckey[32]; secp256k1_ecdsa_signature adsig;
    secp256k1_ecdsa_s2c_opening opening; secp256k1_ecdsa_signature s2csig; unsigned char s2cdata[32];
    secp256k1_pedersen_commitment commit; unsigned char blind[32], nonce[32];
    unsigned char rproof[5134]; size_t rplen;
    unsigned char ell[64];
} F;
static void vu_fix(void) {
    const secp256k1_pubkey *pks[2]; const secp256k1_musig_pubnonce *pns[2]; const secp256k1_musig_partial_sig *pss[2];
    unsigned char rnd[32];
    if (F.ready) return;
    vu_seckey(F.sk1, VU_SEED0, "sk", 1); vu_seckey(F.sk2, VU_SEED0, "sk", 2);
    vu_derive(F.msg, VU_SEED0, "msg", 0); vu_seckey(F.t32, VU_SEED0, "tweak", 0); vu_derive(F.aux, VU_SEED0, "aux", 0);
    vu_derive(F.prefix64, VU_SEED0, "prefix", 0); vu_derive(F.prefix64 + 32, VU_SEED0, "prefix", 1);
    VU_MUST(secp256k1_ec_pubkey_create(CTX, &F.pk1, F.sk1)); VU_MUST(secp256k1_ec_pubkey_create(CTX, &F.pk2, F.sk2));
    VU_MUST(secp256k1_keypair_create(CTX, &F.kp1, F.sk1)); VU_MUST(secp256k1_keypair_create(CTX, &F.kp2, F.sk2));
    VU_MUST(secp256k1_keypair_xonly_pub(CTX, &F.xo1, &F.xo1par, &F.kp1)); VU_MUST(secp256k1_xonly_pubkey_serialize(CTX, F.xo1b, &F.xo1));
    VU_MUST(secp256k1_ecdsa_sign(CTX, &F.esig, F.msg, F.sk1, NULL, NULL));
    VU_MUST(secp256k1_schnorrsig_sign32(CTX, F.ssig, F.msg, &F.kp1, F.aux));
    /* a complete two-signer MuSig session */
    pks[0] = &F.pk1; pks[1] = &F.pk2;
    VU_MUST(secp256k1_musig_pubkey_agg(CTX, NULL, &F.cache, pks, 2));
    vu_derive(rnd, VU_SEED0, "secrand", 1); VU_MUST(secp256k1_musig_nonce_gen(CTX, &F.sn1, &F.pn1, rnd, F.sk1, &F.pk1, F.msg, &F.cache, NULL));
    vu_derive(rnd, VU_SEED0, "secrand", 2); VU_MUST(secp256k1_musig_nonce_gen(CTX, &F.sn2, &F.pn2, rnd, F.sk2, &F.pk2, F.msg, &F.cache, NULL));
    pns[0] = &F.pn1; pns[1] = &F.pn2;
    VU_MUST(secp256k1_musig_nonce_agg(CTX, &F.an, pns, 2));
    VU_MUST(secp256k1_musig_nonce_process(CTX, &F.sess, &F.an, F.msg, &F.cache, NULL));
    VU_MUST(secp256k1_musig_partial_sign(CTX, &F.ps1, &F.sn1, &F.kp1, &F.cache, &F.sess));
    VU_MUST(secp256k1_musig_partial_sign(CTX, &F.ps2, &F.sn2, &F.kp2, &F.cache, &F.sess));
    pss[0] = &F.ps1; pss[1] = &F.ps2;
    VU_MUST(secp256k1_musig_partial_sig_agg(CTX, F.msig, &F.sess, pss, 2));
    /* adaptor signature of sk1 encrypted to pk2 */
    VU_MUST(secp256k1_ecdsa_adaptor_encrypt(CTX, F.adaptor, F.sk1, &F.pk2, F.msg, NULL, NULL));
    memcpy(F.deckey, F.sk2, 32);
    VU_MUST(secp256k1_ecdsa_adaptor_decrypt(CTX, &F.adsig, F.deckey, F.adaptor));
    /* sign-to-contract */
    vu_derive(F.s2cdata, VU_SEED0, "s2c", 0);
    VU_MUST(secp256k1_ecdsa_s2c_sign(CTX, &F.s2csig, &F.opening, F.msg, F.sk1, F.s2cdata));
    /* commitment + range proof over the static generator h */
    vu_seckey(F.blind, VU_SEED0, "blind", 0); vu_derive(F.nonce, VU_SEED0, "nonce", 0);
    VU_MUST(secp256k1_pedersen_commit(CTX, &F.commit, F.blind, 86, secp256k1_generator_h));
    F.rplen = sizeof(F.rproof);
    VU_MUST(secp256k1_rangeproof_sign(CTX, F.rproof, &F.rplen, 0, &F.commit, F.blind, F.nonce, 0, 8, 86, (const unsigned char*)"hello", 5, NULL, 0, secp256k1_generator_h));
    VU_MUST(secp256k1_ellswift_create(CTX, F.ell, F.sk2, F.aux));
    F.ready = 1;
}
/* pools built on first use */
#define VU_NGENS 272
static secp256k1_generator *VU_GENS = NULL;       /* VU_NGENS NUMS generators */
static unsigned char VU_GENBLIND[VU_NGENS][32];
static void vu_fix_gens(void) {
    unsigned i; unsigned char tag[32];
    if (VU_GENS) return;
    VU_GENS = (secp256k1_generator*)malloc(sizeof(secp256k1_generator) * VU_NGENS);
    for (i = 0; i < VU_NGENS; i++) {
        vu_derive(tag, VU_SEED0, "asset", i % 7); vu_seckey(VU_GENBLIND[i], VU_SEED0, "assetblind", i);
        VU_MUST(secp256k1_generator_generate_blinded(CTX, &VU_GENS[i], tag, VU_GENBLIND[i]));
    }
}
#define VU_NKEYS 264
static secp256k1_pubkey *VU_ON = NULL, *VU_OFF = NULL; static secp256k1_xonly_pubkey *VU_XO = NULL; static unsigned char *VU_MSGS = NULL;
static void vu_fix_keys(void) {
    unsigned i; unsigned char sk[32]; secp256k1_keypair kp;
    if (VU_ON) return;
    VU_ON = (secp256k1_pubkey*)malloc(sizeof(secp256k1_pubkey) * VU_NKEYS); VU_OFF = (secp256k1_pubkey*)malloc(sizeof(secp256k1_pubkey) * VU_NKEYS);
    VU_XO = (secp256k1_xonly_pubkey*)malloc(sizeof(secp256k1_xonly_pubkey) * VU_NKEYS); VU_MSGS = (unsigned char*)malloc(32 * VU_NKEYS);
    for (i = 0; i < VU_NKEYS; i++) {
        vu_seckey(sk, VU_SEED0, "on", i); VU_MUST(secp256k1_ec_pubkey_create(CTX, &VU_ON[i], sk));
        VU_MUST(secp256k1_keypair_create(CTX, &kp, sk)); VU_MUST(secp256k1_keypair_xonly_pub(CTX, &VU_XO[i], NULL, &kp));
        vu_seckey(sk, VU_SEED0, "off", i); VU_MUST(secp256k1_ec_pubkey_create(CTX, &VU_OFF[i], sk));
        vu_derive(VU_MSGS + 32 * i, VU_SEED0, "aggmsg", i);
    }
}

#define VU_BEGIN(name) long long vu_m0; vu_fix(); VU_CUR = (name); VU_SEQ++; VU_STAGE = "-"; vu_dg_reset(); alarm(VU_ALARM); vu_m0 = vu_live()
#define VU_REJ(out) jo_int((out), "rleak", vu_live() - vu_m0)
#define VU_END(out) do { jo_int((out), "leak", vu_live() - vu_m0); vu_dg_out(out); alarm(0); VU_CUR = "-"; VU_STAGE = "-"; } while (0)

/* =============================== consumers ================================ */
/* every function that accepts a parsed public key */
static void vu_use_pubkey(jout *o, const secp256k1_pubkey *pk) {
    unsigned char *b33 = (unsigned char*)vu_alloc(33), *b65 = (unsigned char*)vu_alloc(65), *o32 = (unsigned char*)vu_alloc(32), *o64 = (unsigned char*)vu_alloc(64), *o162 = (unsigned char*)vu_alloc(162);
    size_t l; secp256k1_pubkey *t = (secp256k1_pubkey*)vu_alloc(sizeof(*t)), *u = (secp256k1_pubkey*)vu_alloc(sizeof(*u));
    const secp256k1_pubkey *two[2]; const secp256k1_pubkey *srt[3]; secp256k1_xonly_pubkey xo; int par = 0;
    secp256k1_musig_keyagg_cache cache; secp256k1_musig_secnonce sn; secp256k1_musig_pubnonce pn; secp256k1_musig_session sess; unsigned char rnd[32], sk[32];
    l = 33; VU_USE(o, "ser33", secp256k1_ec_pubkey_serialize(CTX, b33, &l, pk, SECP256K1_EC_COMPRESSED)); vu_dg(b33, 33);
    l = 65; VU_USE(o, "ser65", secp256k1_ec_pubkey_serialize(CTX, b65, &l, pk, SECP256K1_EC_UNCOMPRESSED)); vu_dg(b65, 65);
    *t = *pk; VU_USE(o, "neg", secp256k1_ec_pubkey_negate(CTX, t));
    two[0] = pk; two[1] = t; VU_USE(o, "combneg", secp256k1_ec_pubkey_combine(CTX, u, two, 2));
    two[1] = &F.pk1; VU_USE(o, "comb", secp256k1_ec_pubkey_combine(CTX, u, two, 2));
    *t = *pk; VU_USE(o, "tadd", secp256k1_ec_pubkey_tweak_add(CTX, t, F.t32));
    *t = *pk; VU_USE(o, "tmul", secp256k1_ec_pubkey_tweak_mul(CTX, t, F.t32));
    VU_USE(o, "cmp", secp256k1_ec_pubkey_cmp(CTX, pk, &F.pk1));
    srt[0] = &F.pk2; srt[1] = pk; srt[2] = &F.pk1; VU_USE(o, "sort", secp256k1_ec_pubkey_sort(CTX, srt, 3));
    VU_USE(o, "xonly", secp256k1_xonly_pubkey_from_pubkey(CTX, &xo, &par, pk));
    VU_USE(o, "xonly_np", secp256k1_xonly_pubkey_from_pubkey(CTX, &xo, NULL, pk));
    VU_USE(o, "ecdsa", secp256k1_ecdsa_verify(CTX, &F.esig, F.msg, pk));
    VU_USE(o, "ecdh", secp256k1_ecdh(CTX, o32, pk, F.sk1, NULL, NULL)); vu_dg(o32, 32);
    VU_USE(o, "ellenc", secp256k1_ellswift_encode(CTX, o64, pk, F.aux)); vu_dg(o64, 64);
    two[0] = pk; two[1] = &F.pk2;
    VU_USE(o, "magg_nopk", secp256k1_musig_pubkey_agg(CTX, NULL, &cache, two, 2));
    VU_USE(o, "magg_nocache", secp256k1_musig_pubkey_agg(CTX, &xo, NULL, two, 2));
    VU_USE(o, "magg_none", secp256k1_musig_pubkey_agg(CTX, NULL, NULL, two, 2));
    { int mr; VU_STAGE = "magg"; mr = secp256k1_musig_pubkey_agg(CTX, &xo, &cache, two, 2); jo_int(o, "magg", mr); vu_dg_int(mr);
      if (mr) { VU_USE(o, "mget", secp256k1_musig_pubkey_get(CTX, t, &cache));
                VU_USE(o, "mtweak_xo", secp256k1_musig_pubkey_xonly_tweak_add(CTX, t, &cache, F.t32));
                VU_USE(o, "mtweak_ec_null", secp256k1_musig_pubkey_ec_tweak_add(CTX, NULL, &cache, F.t32)); } }
    memcpy(rnd, F.aux, 32); VU_USE(o, "mngen", secp256k1_musig_nonce_gen(CTX, &sn, &pn, rnd, NULL, pk, F.msg, NULL, NULL));
    VU_USE(o, "mpsv", secp256k1_musig_partial_sig_verify(CTX, &F.ps1, &F.pn1, pk, &F.cache, &F.sess));
    VU_USE(o, "mnproc", secp256k1_musig_nonce_process(CTX, &sess, &F.an, F.msg, &F.cache, pk));
    memcpy(sk, F.sk1, 32); VU_USE(o, "adenc", secp256k1_ecdsa_adaptor_encrypt(CTX, o162, sk, pk, F.msg, NULL, NULL)); vu_dg(o162, 162);
    VU_USE(o, "adver_pk", secp256k1_ecdsa_adaptor_verify(CTX, F.adaptor, pk, F.msg, &F.pk2));
    VU_USE(o, "adver_ek", secp256k1_ecdsa_adaptor_verify(CTX, F.adaptor, &F.pk1, F.msg, pk));
    VU_USE(o, "adrec", secp256k1_ecdsa_adaptor_recover(CTX, o32, &F.adsig, F.adaptor, pk));
    VU_USE(o, "aeh", secp256k1_anti_exfil_host_verify(CTX, &F.s2csig, F.msg, pk, F.s2cdata, &F.opening));
    vu_release(b33); vu_release(b65); vu_release(o32); vu_release(o64); vu_release(o162); vu_release(t); vu_release(u);
}
/* every function that accepts a parsed x-only key */
static void vu_use_xonly(jout *o, const secp256k1_xonly_pubkey *xo) {
    unsigned char *b32 = (unsigned char*)vu_alloc(32), *agg = (unsigned char*)vu_alloc(64); secp256k1_pubkey t; size_t l;
    VU_USE(o, "ser", secp256k1_xonly_pubkey_serialize(CTX, b32, xo)); vu_dg(b32, 32);
    VU_USE(o, "cmp", secp256k1_xonly_pubkey_cmp(CTX, xo, &F.xo1));
    VU_USE(o, "tadd", secp256k1_xonly_pubkey_tweak_add(CTX, &t, xo, F.t32));
    VU_USE(o, "tcheck", secp256k1_xonly_pubkey_tweak_add_check(CTX, F.xo1b, 0, xo, F.t32));
    VU_USE(o, "schnorr", secp256k1_schnorrsig_verify(CTX, F.ssig, F.msg, 32, xo));
    l = 64; VU_USE(o, "agg", secp256k1_schnorrsig_aggregate(CTX, agg, &l, xo, F.msg, F.ssig, 1));
    VU_USE(o, "aggver", secp256k1_schnorrsig_aggverify(CTX, xo, F.msg, 1, agg, 64));
    vu_release(b32); vu_release(agg);
}
/* every function that accepts a parsed ECDSA signature */
static void vu_use_sig(jout *o, const secp256k1_ecdsa_signature *sig) {
    unsigned char *der = (unsigned char*)vu_alloc(72), *shortb = (unsigned char*)vu_alloc(7), *c64 = (unsigned char*)vu_alloc(64), *o32 = (unsigned char*)vu_alloc(32);
    size_t l; secp256k1_ecdsa_signature *n = (secp256k1_ecdsa_signature*)vu_alloc(sizeof(*n));
    l = 72; VU_USE(o, "der", secp256k1_ecdsa_signature_serialize_der(CTX, der, &l, sig)); if (l <= 72) vu_dg(der, l);
    l = 7; VU_USE(o, "der_short", secp256k1_ecdsa_signature_serialize_der(CTX, shortb, &l, sig));
    VU_USE(o, "compact", secp256k1_ecdsa_signature_serialize_compact(CTX, c64, sig)); vu_dg(c64, 64);
    VU_USE(o, "norm", secp256k1_ecdsa_signature_normalize(CTX, n, sig));
    VU_USE(o, "norm_null", secp256k1_ecdsa_signature_normalize(CTX, NULL, sig));
    VU_USE(o, "verify", secp256k1_ecdsa_verify(CTX, sig, F.msg, &F.pk1));
    VU_USE(o, "adrec", secp256k1_ecdsa_adaptor_recover(CTX, o32, sig, F.adaptor, &F.pk2));
    VU_USE(o, "s2c", secp256k1_ecdsa_s2c_verify_commit(CTX, sig, F.s2cdata, &F.opening));
    VU_USE(o, "aeh", secp256k1_anti_exfil_host_verify(CTX, sig, F.msg, &F.pk1, F.s2cdata, &F.opening));
    vu_release(der); vu_release(shortb); vu_release(c64); vu_release(o32); vu_release(n);
}

/* =============================== entry points: keys and signatures ================================ */
static void op_UPubkey(const jv *in, jout *out) {
    long len; unsigned char *d; secp256k1_pubkey *pk; int ret; VU_BEGIN("UPubkey");
    d = vu_in(in, "data", &len); if (len < 0) { fprintf(stderr, "vh: data missing\n"); exit(3); }
    pk = (secp256k1_pubkey*)vu_alloc(sizeof(*pk));
    ret = VU_CALL("ec_pubkey_parse", secp256k1_ec_pubkey_parse(CTX, pk, d, (size_t)len));
    jo_int(out, "ret", ret); if (!ret) VU_REJ(out);
    if (ret) { vu_use_begin(out); vu_use_pubkey(out, pk); vu_use_end(out); }
    vu_release(pk); vu_release(d); VU_END(out);
}
static void op_UXonly(const jv *in, jout *out) {
    unsigned char *d; secp256k1_xonly_pubkey *xo; int ret; VU_BEGIN("UXonly");
    d = vu_in_fixed(in, "data", 32); xo = (secp256k1_xonly_pubkey*)vu_alloc(sizeof(*xo));
    ret = VU_CALL("xonly_pubkey_parse", secp256k1_xonly_pubkey_parse(CTX, xo, d));
    jo_int(out, "ret", ret); if (!ret) VU_REJ(out);
    vu_use_begin(out);
    /* the raw 32 bytes are also the "tweaked key" argument of tweak_add_check */
    VU_USE(out, "tcheck_raw0", secp256k1_xonly_pubkey_tweak_add_check(CTX, d, 0, &F.xo1, F.t32));
    VU_USE(out, "tcheck_raw1", secp256k1_xonly_pubkey_tweak_add_check(CTX, d, 1, &F.xo1, F.t32));
    if (ret) vu_use_xonly(out, xo);
    vu_use_end(out);
    vu_release(xo); vu_release(d); VU_END(out);
}
/* 32 untrusted bytes as secret key / tweak */
static void op_USeckey(const jv *in, jout *out) {
    unsigned char *d, *t; secp256k1_pubkey pk; secp256k1_keypair kp; secp256k1_ecdsa_signature dsig; int ret; VU_BEGIN("USeckey");
    d = vu_in_fixed(in, "data", 32); t = (unsigned char*)vu_alloc(32);
    ret = VU_CALL("ec_seckey_verify", secp256k1_ec_seckey_verify(CTX, d));
    jo_int(out, "ret", ret); if (!ret) VU_REJ(out);
    vu_use_begin(out);
    VU_USE(out, "create", secp256k1_ec_pubkey_create(CTX, &pk, d));
    { int kr; secp256k1_xonly_pubkey kx; int kpar; VU_STAGE = "keypair"; kr = secp256k1_keypair_create(CTX, &kp, d); jo_int(out, "keypair", kr); vu_dg_int(kr);
      if (kr) { VU_USE(out, "kp_xonly", secp256k1_keypair_xonly_pub(CTX, &kx, &kpar, &kp)); VU_USE(out, "kp_xonly_np", secp256k1_keypair_xonly_pub(CTX, &kx, NULL, &kp));
                VU_USE(out, "kp_pub", secp256k1_keypair_pub(CTX, &pk, &kp)); VU_USE(out, "kp_sec", secp256k1_keypair_sec(CTX, t, &kp)); } }
    memcpy(t, d, 32); VU_USE(out, "negate", secp256k1_ec_seckey_negate(CTX, t));
    memcpy(t, d, 32); VU_USE(out, "sk_tadd", secp256k1_ec_seckey_tweak_add(CTX, t, F.t32));
    memcpy(t, F.sk1, 32); VU_USE(out, "tadd_by", secp256k1_ec_seckey_tweak_add(CTX, t, d));
    memcpy(t, F.sk1, 32); VU_USE(out, "tmul_by", secp256k1_ec_seckey_tweak_mul(CTX, t, d));
    pk = F.pk1; VU_USE(out, "pk_tadd_by", secp256k1_ec_pubkey_tweak_add(CTX, &pk, d));
    pk = F.pk1; VU_USE(out, "pk_tmul_by", secp256k1_ec_pubkey_tweak_mul(CTX, &pk, d));
    VU_USE(out, "xo_tadd_by", secp256k1_xonly_pubkey_tweak_add(CTX, &pk, &F.xo1, d));
    kp = F.kp1; VU_USE(out, "kp_tadd_by", secp256k1_keypair_xonly_tweak_add(CTX, &kp, d));
    VU_USE(out, "ecdh", secp256k1_ecdh(CTX, t, &F.pk2, d, NULL, NULL));
    VU_USE(out, "addec", secp256k1_ecdsa_adaptor_decrypt(CTX, &dsig, d, F.adaptor));
    vu_use_end(out);
    vu_release(t); vu_release(d); VU_END(out);
}
static void op_USigCompact(const jv *in, jout *out) {
    unsigned char *d; secp256k1_ecdsa_signature *sig; int ret; VU_BEGIN("USigCompact");
    d = vu_in_fixed(in, "data", 64); sig = (secp256k1_ecdsa_signature*)vu_alloc(sizeof(*sig));
    ret = VU_CALL("ecdsa_signature_parse_compact", secp256k1_ecdsa_signature_parse_compact(CTX, sig, d));
    jo_int(out, "ret", ret); if (!ret) VU_REJ(out);
    if (ret) { vu_use_begin(out); vu_use_sig(out, sig); vu_use_end(out); }
    vu_release(sig); vu_release(d); VU_END(out);
}
/* strict DER (primary) and the lax parser of contrib/ on the same bytes */
static void op_USigDer(const jv *in, jout *out) {
    long len; unsigned char *d; secp256k1_ecdsa_signature *sig, *lax; int ret, lret; VU_BEGIN("USigDer");
    d = vu_in(in, "data", &len); if (len < 0) { fprintf(stderr, "vh: data missing\n"); exit(3); }
    sig = (secp256k1_ecdsa_signature*)vu_alloc(sizeof(*sig)); lax = (secp256k1_ecdsa_signature*)vu_alloc(sizeof(*lax));
    ret = VU_CALL("ecdsa_signature_parse_der", secp256k1_ecdsa_signature_parse_der(CTX, sig, d, (size_t)len));
    jo_int(out, "ret", ret); if (!ret) VU_REJ(out);
    vu_use_begin(out);
    VU_STAGE = "ecdsa_signature_parse_der_lax"; lret = ecdsa_signature_parse_der_lax(CTX, lax, d, (size_t)len);
    jo_int(out, "lax", lret); vu_dg_int(lret);
    /* a signature object produced by the lax parser is a parsed object as well */
    if (lret) { VU_USE(out, "lax_norm", secp256k1_ecdsa_signature_normalize(CTX, NULL, lax)); VU_USE(out, "lax_verify", secp256k1_ecdsa_verify(CTX, lax, F.msg, &F.pk1));
                { unsigned char c[64]; VU_USE(out, "lax_compact", secp256k1_ecdsa_signature_serialize_compact(CTX, c, lax)); vu_dg(c, 64); } }
    if (ret) vu_use_sig(out, sig);
    vu_use_end(out);
    vu_release(sig); vu_release(lax); vu_release(d); VU_END(out);
}
static void op_URecSig(const jv *in, jout *out) {
    unsigned char *d, *c64; secp256k1_ecdsa_recoverable_signature *rs; secp256k1_ecdsa_signature cs; secp256k1_pubkey pk; int ret, recid = (int)jv_int(in, "recid", 0), rid2 = -1;
    VU_BEGIN("URecSig");
    if (recid < 0 || recid > 3) { fprintf(stderr, "vh: recid outside 0..3 is documented illegal use, not part of the input space\n"); exit(3); }
    d = vu_in_fixed(in, "data", 64); rs = (secp256k1_ecdsa_recoverable_signature*)vu_alloc(sizeof(*rs)); c64 = (unsigned char*)vu_alloc(64);
    ret = VU_CALL("recoverable_signature_parse_compact", secp256k1_ecdsa_recoverable_signature_parse_compact(CTX, rs, d, recid));
    jo_int(out, "ret", ret); if (!ret) VU_REJ(out);
    if (ret) {
        vu_use_begin(out);
        VU_USE(out, "compact", secp256k1_ecdsa_recoverable_signature_serialize_compact(CTX, c64, &rid2, rs)); vu_dg(c64, 64);
        VU_USE(out, "convert", secp256k1_ecdsa_recoverable_signature_convert(CTX, &cs, rs));
        VU_USE(out, "recover", secp256k1_ecdsa_recover(CTX, &pk, rs, F.msg));
        VU_USE(out, "verify", secp256k1_ecdsa_verify(CTX, &cs, F.msg, &F.pk1));
        vu_use_end(out);
    }
    vu_release(rs); vu_release(c64); vu_release(d); VU_END(out);
}
/* BIP-340 verification: 64 untrusted signature bytes, a message of any length, a 32-byte key */
static void op_USchnorr(const jv *in, jout *out) {
    long mlen; unsigned char *d, *m, pkb[32]; secp256k1_xonly_pubkey xo; int ret; VU_BEGIN("USchnorr");
    d = vu_in_fixed(in, "data", 64); m = vu_in(in, "msg", &mlen); if (mlen < 0) { m = (unsigned char*)vu_copy(F.msg, 32); mlen = 32; }
    if (vu_opt(in, "pk", pkb, 32)) { if (!secp256k1_xonly_pubkey_parse(CTX, &xo, pkb)) { fprintf(stderr, "vh: context pk invalid\n"); exit(3); } } else xo = F.xo1;
    ret = VU_CALL("schnorrsig_verify", secp256k1_schnorrsig_verify(CTX, d, m, (size_t)mlen, &xo));
    jo_int(out, "ret", ret); if (!ret) VU_REJ(out);
    vu_use_begin(out); VU_USE(out, "null_msg0", secp256k1_schnorrsig_verify(CTX, d, NULL, 0, &xo)); vu_use_end(out);
    vu_release(m); vu_release(d); VU_END(out);
}

/* =============================== 33-byte zkp objects ================================ */
static void vu_ctx_commit(const jv *in, const char *key, secp256k1_pedersen_commitment *c) {
    unsigned char b[33];
    if (vu_opt(in, key, b, 33)) { if (!secp256k1_pedersen_commitment_parse(CTX, c, b)) { fprintf(stderr, "vh: context %s invalid\n", key); exit(3); } } else *c = F.commit;
}
static void vu_ctx_gen(const jv *in, const char *key, secp256k1_generator *g) {
    unsigned char b[33];
    if (vu_opt(in, key, b, 33)) { if (!secp256k1_generator_parse(CTX, g, b)) { fprintf(stderr, "vh: context %s invalid\n", key); exit(3); } } else *g = *secp256k1_generator_h;
}
static void vu_ctx_pk(const jv *in, const char *key, secp256k1_pubkey *pk, const secp256k1_pubkey *dflt) {
    unsigned char b[33];
    if (vu_opt(in, key, b, 33)) { if (!secp256k1_ec_pubkey_parse(CTX, pk, b, 33)) { fprintf(stderr, "vh: context %s invalid\n", key); exit(3); } } else *pk = *dflt;
}
/* info / verify / rewind of one proof against a commitment and generator; results go into the use map under prefix-less names */
static void vu_rangeproof_calls(jout *o, const char *pfx, const unsigned char *proof, size_t plen, const secp256k1_pedersen_commitment *c, const secp256k1_generator *g,
                                const unsigned char *extra, size_t extralen, const unsigned char *nonce, long mcap) {
    uint64_t mn = 0, mx = 0, val = 0; int e = 0, m = 0, vret; static char name[32]; size_t mlen = mcap > 0 ? (size_t)mcap : 0;
    unsigned char *blind = (unsigned char*)vu_alloc(32), *msg = (unsigned char*)vu_alloc(mlen);
    snprintf(name, sizeof(name), "%sinfo", pfx); VU_USE(o, name, secp256k1_rangeproof_info(CTX, &e, &m, &mn, &mx, proof, plen));
    mn = mx = 0;
    snprintf(name, sizeof(name), "%sverify", pfx); VU_STAGE = name; vret = secp256k1_rangeproof_verify(CTX, &mn, &mx, c, proof, plen, extra, extralen, g);
    jo_int(o, name, vret); vu_dg_int(vret);
    mn = mx = 0;
    snprintf(name, sizeof(name), "%srewind", pfx);
    if (mcap < 0) VU_USE(o, name, secp256k1_rangeproof_rewind(CTX, blind, &val, NULL, NULL, nonce, &mn, &mx, c, proof, plen, extra, extralen, g));
    else { VU_USE(o, name, secp256k1_rangeproof_rewind(CTX, blind, &val, msg, &mlen, nonce, &mn, &mx, c, proof, plen, extra, extralen, g)); vu_dg_int((long long)mlen); }
    if (vret) {
        /* the proof passes ring verification: every legal combination of the optional (NULL-able) outputs of rewind, with the
         * prover's nonce ("r") and with a different one ("w"); message_out/outlen: both ("ml"), buffer only ("m"), neither ("0");
         * blind_out/value_out given ("bv") or NULL ("00") */
        static char vn[12][32]; int ni, oi, bi, k = 0; unsigned char wn[32];
        memcpy(wn, nonce, 32); wn[0] ^= 1;
        for (ni = 0; ni < 2; ni++) for (oi = 0; oi < 3; oi++) for (bi = 0; bi < 2; bi++) {
            unsigned char *m2 = (unsigned char*)vu_alloc(64); size_t l2 = 64; uint64_t v2 = 0;
            snprintf(vn[k], sizeof(vn[k]), "%srw_%s_%s_%s", pfx, ni ? "w" : "r", oi == 0 ? "ml" : oi == 1 ? "m" : "0", bi ? "00" : "bv");
            mn = mx = 0;
            VU_USE(o, vn[k], secp256k1_rangeproof_rewind(CTX, bi ? NULL : blind, bi ? NULL : &v2, oi == 2 ? NULL : m2, oi == 0 ? &l2 : NULL,
                                                         ni ? wn : nonce, &mn, &mx, c, proof, plen, extra, extralen, g));
            vu_release(m2); k++;
        }
    }
    vu_release(blind); vu_release(msg);
}
static void op_UCommit(const jv *in, jout *out) {
    unsigned char *d, *b33; secp256k1_pedersen_commitment *c; const secp256k1_pedersen_commitment *l1[2], *l2[1]; int ret; VU_BEGIN("UCommit");
    d = vu_in_fixed(in, "data", 33); c = (secp256k1_pedersen_commitment*)vu_alloc(sizeof(*c)); b33 = (unsigned char*)vu_alloc(33);
    ret = VU_CALL("pedersen_commitment_parse", secp256k1_pedersen_commitment_parse(CTX, c, d));
    jo_int(out, "ret", ret); if (!ret) VU_REJ(out);
    if (ret) {
        vu_use_begin(out);
        VU_USE(out, "ser", secp256k1_pedersen_commitment_serialize(CTX, b33, c)); vu_dg(b33, 33);
        l1[0] = c; l1[1] = &F.commit; l2[0] = c;
        VU_USE(out, "tally_eq", secp256k1_pedersen_verify_tally(CTX, l1, 1, l2, 1));
        VU_USE(out, "tally_2_0", secp256k1_pedersen_verify_tally(CTX, l1, 2, NULL, 0));
        VU_USE(out, "tally_0_1", secp256k1_pedersen_verify_tally(CTX, NULL, 0, l2, 1));
        vu_rangeproof_calls(out, "rp_", F.rproof, F.rplen, c, secp256k1_generator_h, NULL, 0, F.nonce, 64);
        vu_use_end(out);
    }
    vu_release(b33); vu_release(c); vu_release(d); VU_END(out);
}
/* a fixed valid surjection proof over the pool generators (3 inputs), built on first use */
static secp256k1_surjectionproof *VU_SJ_FIX = NULL; static secp256k1_generator VU_SJ_OUT;
static void vu_fix_sj(void) {
    secp256k1_fixed_asset_tag tags[3], otag; size_t idx = 0; unsigned i; unsigned char oblind[32], seed[32];
    if (VU_SJ_FIX) return;
    vu_fix_gens();
    for (i = 0; i < 3; i++) vu_derive(tags[i].data, VU_SEED0, "asset", i % 7);
    otag = tags[1]; vu_seckey(oblind, VU_SEED0, "oblind", 0); vu_derive(seed, VU_SEED0, "sjseed", 0);
    VU_MUST(secp256k1_generator_generate_blinded(CTX, &VU_SJ_OUT, otag.data, oblind));
    VU_SJ_FIX = (secp256k1_surjectionproof*)malloc(sizeof(*VU_SJ_FIX));
    VU_MUST(secp256k1_surjectionproof_initialize(CTX, VU_SJ_FIX, &idx, tags, 3, 2, &otag, 100, seed) > 0);
    VU_MUST(secp256k1_surjectionproof_generate(CTX, VU_SJ_FIX, VU_GENS, 3, &VU_SJ_OUT, idx, VU_GENBLIND[idx], oblind));
}
static void op_UGenerator(const jv *in, jout *out) {
    unsigned char *d, *b33; secp256k1_generator *g, *three; secp256k1_pedersen_commitment c; int ret; VU_BEGIN("UGenerator");
    vu_fix_sj();
    vu_m0 = vu_live();
    d = vu_in_fixed(in, "data", 33); g = (secp256k1_generator*)vu_alloc(sizeof(*g)); b33 = (unsigned char*)vu_alloc(33);
    ret = VU_CALL("generator_parse", secp256k1_generator_parse(CTX, g, d));
    jo_int(out, "ret", ret); if (!ret) VU_REJ(out);
    if (ret) {
        vu_use_begin(out);
        VU_USE(out, "ser", secp256k1_generator_serialize(CTX, b33, g)); vu_dg(b33, 33);
        VU_USE(out, "commit", secp256k1_pedersen_commit(CTX, &c, F.blind, 86, g));
        vu_rangeproof_calls(out, "rp_", F.rproof, F.rplen, &F.commit, g, NULL, 0, F.nonce, 64);
        /* as output tag and as one of the input tags of a surjection proof */
        VU_USE(out, "sj_out", secp256k1_surjectionproof_verify(CTX, VU_SJ_FIX, VU_GENS, 3, g));
        three = (secp256k1_generator*)vu_alloc(3 * sizeof(*three)); three[0] = VU_GENS[0]; three[1] = *g; three[2] = VU_GENS[2];
        VU_USE(out, "sj_in", secp256k1_surjectionproof_verify(CTX, VU_SJ_FIX, three, 3, &VU_SJ_OUT));
        vu_release(three);
        vu_use_end(out);
    }
    vu_release(b33); vu_release(g); vu_release(d); VU_END(out);
}
static void op_UOpening(const jv *in, jout *out) {
    unsigned char *d, *b33; secp256k1_ecdsa_s2c_opening *op; int ret; VU_BEGIN("UOpening");
    d = vu_in_fixed(in, "data", 33); op = (secp256k1_ecdsa_s2c_opening*)vu_alloc(sizeof(*op)); b33 = (unsigned char*)vu_alloc(33);
    ret = VU_CALL("ecdsa_s2c_opening_parse", secp256k1_ecdsa_s2c_opening_parse(CTX, op, d));
    jo_int(out, "ret", ret); if (!ret) VU_REJ(out);
    if (ret) {
        vu_use_begin(out);
        VU_USE(out, "ser", secp256k1_ecdsa_s2c_opening_serialize(CTX, b33, op)); vu_dg(b33, 33);
        VU_USE(out, "s2c", secp256k1_ecdsa_s2c_verify_commit(CTX, &F.s2csig, F.s2cdata, op));
        VU_USE(out, "aeh", secp256k1_anti_exfil_host_verify(CTX, &F.s2csig, F.msg, &F.pk1, F.s2cdata, op));
        vu_use_end(out);
    }
    vu_release(b33); vu_release(op); vu_release(d); VU_END(out);
}

/* =============================== MuSig encodings ================================ */
static void op_UPubnonce(const jv *in, jout *out) {
    unsigned char *d, *b66; secp256k1_musig_pubnonce *pn; const secp256k1_musig_pubnonce *two[2]; secp256k1_musig_aggnonce an; int ret; VU_BEGIN("UPubnonce");
    d = vu_in_fixed(in, "data", 66); pn = (secp256k1_musig_pubnonce*)vu_alloc(sizeof(*pn)); b66 = (unsigned char*)vu_alloc(66);
    ret = VU_CALL("musig_pubnonce_parse", secp256k1_musig_pubnonce_parse(CTX, pn, d));
    jo_int(out, "ret", ret); if (!ret) VU_REJ(out);
    if (ret) {
        vu_use_begin(out);
        VU_USE(out, "ser", secp256k1_musig_pubnonce_serialize(CTX, b66, pn)); vu_dg(b66, 66);
        two[0] = pn; two[1] = &F.pn2; VU_USE(out, "nagg", secp256k1_musig_nonce_agg(CTX, &an, two, 2));
        two[1] = pn; VU_USE(out, "nagg_self", secp256k1_musig_nonce_agg(CTX, &an, two, 2));
        VU_USE(out, "nagg_ser", secp256k1_musig_aggnonce_serialize(CTX, b66, &an)); vu_dg(b66, 66);
        VU_USE(out, "psv", secp256k1_musig_partial_sig_verify(CTX, &F.ps1, pn, &F.pk1, &F.cache, &F.sess));
        vu_use_end(out);
    }
    vu_release(b66); vu_release(pn); vu_release(d); VU_END(out);
}
static void op_UAggnonce(const jv *in, jout *out) {
    unsigned char *d, *b66, *s64; secp256k1_musig_aggnonce *an; secp256k1_musig_session *sess; const secp256k1_musig_partial_sig *pss[2]; int ret, r2, par = 0; VU_BEGIN("UAggnonce");
    d = vu_in_fixed(in, "data", 66); an = (secp256k1_musig_aggnonce*)vu_alloc(sizeof(*an)); b66 = (unsigned char*)vu_alloc(66);
    sess = (secp256k1_musig_session*)vu_alloc(sizeof(*sess)); s64 = (unsigned char*)vu_alloc(64);
    ret = VU_CALL("musig_aggnonce_parse", secp256k1_musig_aggnonce_parse(CTX, an, d));
    jo_int(out, "ret", ret); if (!ret) VU_REJ(out);
    if (ret) {
        vu_use_begin(out);
        VU_USE(out, "ser", secp256k1_musig_aggnonce_serialize(CTX, b66, an)); vu_dg(b66, 66);
        VU_STAGE = "nproc"; r2 = secp256k1_musig_nonce_process(CTX, sess, an, F.msg, &F.cache, NULL); jo_int(out, "nproc", r2); vu_dg_int(r2);
        VU_USE(out, "nproc_ad", secp256k1_musig_nonce_process(CTX, sess, an, F.msg, &F.cache, &F.pk2));
        if (r2) {
            /* the session derived from the untrusted aggregate nonce is itself an object handed on */
            r2 = secp256k1_musig_nonce_process(CTX, sess, an, F.msg, &F.cache, NULL);
            VU_USE(out, "s_psv", secp256k1_musig_partial_sig_verify(CTX, &F.ps1, &F.pn1, &F.pk1, &F.cache, sess));
            pss[0] = &F.ps1; pss[1] = &F.ps2; VU_USE(out, "s_agg", secp256k1_musig_partial_sig_agg(CTX, s64, sess, pss, 2)); vu_dg(s64, 64);
            VU_USE(out, "s_parity", secp256k1_musig_nonce_parity(CTX, &par, sess));
        }
        vu_use_end(out);
    }
    vu_release(b66); vu_release(an); vu_release(sess); vu_release(s64); vu_release(d); VU_END(out);
}
static void op_UPartialSig(const jv *in, jout *out) {
    unsigned char *d, *b32, *s64; secp256k1_musig_partial_sig *ps; const secp256k1_musig_partial_sig *pss[2]; int ret; VU_BEGIN("UPartialSig");
    d = vu_in_fixed(in, "data", 32); ps = (secp256k1_musig_partial_sig*)vu_alloc(sizeof(*ps)); b32 = (unsigned char*)vu_alloc(32); s64 = (unsigned char*)vu_alloc(64);
    ret = VU_CALL("musig_partial_sig_parse", secp256k1_musig_partial_sig_parse(CTX, ps, d));
    jo_int(out, "ret", ret); if (!ret) VU_REJ(out);
    if (ret) {
        vu_use_begin(out);
        VU_USE(out, "ser", secp256k1_musig_partial_sig_serialize(CTX, b32, ps)); vu_dg(b32, 32);
        VU_USE(out, "psv", secp256k1_musig_partial_sig_verify(CTX, ps, &F.pn1, &F.pk1, &F.cache, &F.sess));
        pss[0] = ps; pss[1] = &F.ps2; VU_USE(out, "agg", secp256k1_musig_partial_sig_agg(CTX, s64, &F.sess, pss, 2)); vu_dg(s64, 64);
        vu_use_end(out);
    }
    vu_release(b32); vu_release(s64); vu_release(ps); vu_release(d); VU_END(out);
}
/* musig_adapt / extract_adaptor on 64 untrusted pre-signature bytes and a 32-byte untrusted adaptor secret */
static void op_UMusigAdapt(const jv *in, jout *out) {
    unsigned char *d, *sec, *o64, *o32; int ret; VU_BEGIN("UMusigAdapt");
    d = vu_in_fixed(in, "data", 64); sec = (unsigned char*)vu_alloc(32); o64 = (unsigned char*)vu_alloc(64); o32 = (unsigned char*)vu_alloc(32);
    if (!vu_opt(in, "sec", sec, 32)) memcpy(sec, F.t32, 32);
    ret = VU_CALL("musig_adapt", secp256k1_musig_adapt(CTX, o64, d, sec, 0));
    jo_int(out, "ret", ret); if (!ret) VU_REJ(out);
    vu_use_begin(out);
    VU_USE(out, "adapt1", secp256k1_musig_adapt(CTX, o64, d, sec, 1));
    VU_USE(out, "extract_pre", secp256k1_musig_extract_adaptor(CTX, o32, F.msig, d, 0));
    VU_USE(out, "extract_sig", secp256k1_musig_extract_adaptor(CTX, o32, d, F.msig, 1));
    vu_use_end(out);
    vu_release(sec); vu_release(o64); vu_release(o32); vu_release(d); VU_END(out);
}

/* =============================== ElligatorSwift ================================ */
static void op_UEllswift(const jv *in, jout *out) {
    unsigned char *d, *o32; secp256k1_pubkey *pk; int ret; VU_BEGIN("UEllswift");
    d = vu_in_fixed(in, "data", 64); pk = (secp256k1_pubkey*)vu_alloc(sizeof(*pk)); o32 = (unsigned char*)vu_alloc(32);
    ret = VU_CALL("ellswift_decode", secp256k1_ellswift_decode(CTX, pk, d));
    jo_int(out, "ret", ret); if (!ret) VU_REJ(out);
    vu_use_begin(out);
    VU_USE(out, "xdh_a0", secp256k1_ellswift_xdh(CTX, o32, d, F.ell, F.sk1, 0, secp256k1_ellswift_xdh_hash_function_bip324, NULL)); vu_dg(o32, 32);
    VU_USE(out, "xdh_b1", secp256k1_ellswift_xdh(CTX, o32, F.ell, d, F.sk1, 1, secp256k1_ellswift_xdh_hash_function_bip324, NULL)); vu_dg(o32, 32);
    VU_USE(out, "xdh_b0", secp256k1_ellswift_xdh(CTX, o32, F.ell, d, F.sk2, 0, secp256k1_ellswift_xdh_hash_function_prefix, F.prefix64)); vu_dg(o32, 32);
    VU_USE(out, "xdh_aa", secp256k1_ellswift_xdh(CTX, o32, d, d, F.sk1, 1, secp256k1_ellswift_xdh_hash_function_prefix, F.prefix64)); vu_dg(o32, 32);
    if (ret) vu_use_pubkey(out, pk);
    vu_use_end(out);
    vu_release(o32); vu_release(pk); vu_release(d); VU_END(out);
}

/* =============================== ECDSA adaptor signatures (162 bytes) ================================ */
static void op_UAdaptor(const jv *in, jout *out) {
    unsigned char *d, *o32, msg[32], deckey[32], sb[64]; secp256k1_pubkey pk, ek; secp256k1_ecdsa_signature *sig, rsig; int ret, dr; VU_BEGIN("UAdaptor");
    d = vu_in_fixed(in, "data", 162); sig = (secp256k1_ecdsa_signature*)vu_alloc(sizeof(*sig)); o32 = (unsigned char*)vu_alloc(32);
    vu_ctx_pk(in, "pk", &pk, &F.pk1); vu_ctx_pk(in, "enckey", &ek, &F.pk2);
    if (!vu_opt(in, "msg", msg, 32)) memcpy(msg, F.msg, 32);
    if (!vu_opt(in, "deckey", deckey, 32)) memcpy(deckey, F.deckey, 32);
    if (vu_opt(in, "sig", sb, 64)) { if (!secp256k1_ecdsa_signature_parse_compact(CTX, &rsig, sb)) { fprintf(stderr, "vh: context sig invalid\n"); exit(3); } } else rsig = F.adsig;
    ret = VU_CALL("ecdsa_adaptor_verify", secp256k1_ecdsa_adaptor_verify(CTX, d, &pk, msg, &ek));
    jo_int(out, "ret", ret); if (!ret) VU_REJ(out);
    vu_use_begin(out);
    VU_STAGE = "decrypt"; dr = secp256k1_ecdsa_adaptor_decrypt(CTX, sig, deckey, d); jo_int(out, "decrypt", dr); vu_dg_int(dr);
    VU_USE(out, "recover", secp256k1_ecdsa_adaptor_recover(CTX, o32, &rsig, d, &ek));
    if (dr) {   /* the decrypted signature is an object produced from untrusted bytes */
        VU_USE(out, "d_verify", secp256k1_ecdsa_verify(CTX, sig, msg, &pk));
        VU_USE(out, "d_recover", secp256k1_ecdsa_adaptor_recover(CTX, o32, sig, d, &ek));
        { unsigned char c[64]; VU_USE(out, "d_compact", secp256k1_ecdsa_signature_serialize_compact(CTX, c, sig)); vu_dg(c, 64); }
    }
    vu_use_end(out);
    vu_release(o32); vu_release(sig); vu_release(d); VU_END(out);
}

/* =============================== range proofs ================================ */
/* data = proof; context: commit (33), gen (33), extra (bytes), nonce (32), mcap (capacity of message_out; -1 = NULL) */
static void op_URangeproof(const jv *in, jout *out) {
    long len, elen; unsigned char *d, *extra, nonce[32]; secp256k1_pedersen_commitment c; secp256k1_generator g;
    uint64_t mn = 0, mx = 0; int ret; long mcap = (long)jv_int(in, "mcap", 4096); VU_BEGIN("URangeproof");
    d = vu_in(in, "data", &len); if (len < 0) { fprintf(stderr, "vh: data missing\n"); exit(3); }
    extra = vu_in(in, "extra", &elen); if (elen < 0) elen = 0;
    vu_ctx_commit(in, "commit", &c); vu_ctx_gen(in, "gen", &g);
    if (!vu_opt(in, "nonce", nonce, 32)) memcpy(nonce, F.nonce, 32);
    ret = VU_CALL("rangeproof_verify", secp256k1_rangeproof_verify(CTX, &mn, &mx, &c, d, (size_t)len, extra, (size_t)elen, &g));
    jo_int(out, "ret", ret); if (!ret) VU_REJ(out);
    if (ret) { vu_dg_int((long long)mn); vu_dg_int((long long)mx); }
    vu_use_begin(out);
    vu_rangeproof_calls(out, "", d, (size_t)len, &c, &g, extra, (size_t)elen, nonce, mcap);
    vu_use_end(out);
    vu_release(extra); vu_release(d); VU_END(out);
}

/* =============================== surjection proofs ================================ */
/* flat list of n 33-byte generators (context); NULL if absent */
static secp256k1_generator *vu_ctx_gens(const jv *in, const char *key, size_t *n) {
    long len = jv_bytes(in, key, VU_TMP, sizeof(VU_TMP)); size_t i; secp256k1_generator *g;
    if (len < 0) return NULL;
    if (len % 33) { fprintf(stderr, "vh: context %s must be a multiple of 33 bytes\n", key); exit(3); }
    *n = (size_t)len / 33; g = (secp256k1_generator*)vu_alloc(*n * sizeof(*g));
    for (i = 0; i < *n; i++) if (!secp256k1_generator_parse(CTX, &g[i], VU_TMP + 33 * i)) { fprintf(stderr, "vh: context %s[%lu] invalid\n", key, (unsigned long)i); exit(3); }
    return g;
}
/* data = serialized proof; context: tags (flat 33n; default: the first n_total pool generators), outtag (33), ntags (count handed to verify) */
static void op_USurjection(const jv *in, jout *out) {
    long len; unsigned char *d, *ser; secp256k1_surjectionproof *p; secp256k1_generator otag, *tags, *exact; size_t ntags = 0, nt, nu, ssz, l, pass; int ret; VU_BEGIN("USurjection");
    vu_fix_sj(); vu_m0 = vu_live();
    d = vu_in(in, "data", &len); if (len < 0) { fprintf(stderr, "vh: data missing\n"); exit(3); }
    p = (secp256k1_surjectionproof*)vu_alloc(sizeof(*p));
    tags = vu_ctx_gens(in, "tags", &ntags);
    { unsigned char b[33]; if (vu_opt(in, "outtag", b, 33)) { if (!secp256k1_generator_parse(CTX, &otag, b)) { fprintf(stderr, "vh: context outtag invalid\n"); exit(3); } } else otag = VU_SJ_OUT; }
    ret = VU_CALL("surjectionproof_parse", secp256k1_surjectionproof_parse(CTX, p, d, (size_t)len));
    jo_int(out, "ret", ret); if (!ret) VU_REJ(out);
    if (ret) {
        nt = VU_CALL("n_total_inputs", secp256k1_surjectionproof_n_total_inputs(CTX, p));
        nu = VU_CALL("n_used_inputs", secp256k1_surjectionproof_n_used_inputs(CTX, p));
        ssz = VU_CALL("serialized_size", secp256k1_surjectionproof_serialized_size(CTX, p));
        jo_int(out, "nt", (long long)nt); jo_int(out, "nu", (long long)nu); jo_int(out, "ssz", (long long)ssz); jo_int(out, "len", len);
        vu_dg_int((long long)nt); vu_dg_int((long long)nu); vu_dg_int((long long)ssz);
        vu_use_begin(out);
        if (ssz > (1u << 20)) { fprintf(stderr, "vh: absurd serialized size\n"); exit(3); }
        ser = (unsigned char*)vu_alloc(ssz); l = ssz;
        VU_USE(out, "ser", secp256k1_surjectionproof_serialize(CTX, ser, &l, p)); if (l <= ssz) vu_dg(ser, l);
        vu_release(ser);
        ser = (unsigned char*)vu_alloc(ssz ? ssz - 1 : 0); l = ssz ? ssz - 1 : 0;
        VU_USE(out, "ser_short", secp256k1_surjectionproof_serialize(CTX, ser, &l, p));
        vu_release(ser);
        /* verify against a tag list of exactly the announced length (deep path) ... */
        pass = (size_t)jv_int(in, "ntags", (long long)(tags ? ntags : nt));
        if (tags) { if (pass > ntags) pass = ntags; exact = (secp256k1_generator*)vu_copy(tags, pass * sizeof(*tags)); }
        else { if (pass > VU_NGENS) pass = VU_NGENS; exact = (secp256k1_generator*)vu_copy(VU_GENS, pass * sizeof(*exact)); }
        VU_USE(out, "verify", secp256k1_surjectionproof_verify(CTX, p, exact, pass, &otag));
        vu_release(exact);
        /* ... and against a list one shorter (count mismatch must be refused before the list is read) */
        pass = pass ? pass - 1 : 1; if (pass > VU_NGENS) pass = VU_NGENS;
        exact = (secp256k1_generator*)vu_copy(VU_GENS, pass * sizeof(*exact));
        VU_USE(out, "verify_mis", secp256k1_surjectionproof_verify(CTX, p, exact, pass, &otag));
        vu_release(exact);
        vu_use_end(out);
    }
    vu_release(tags); vu_release(p); vu_release(d); VU_END(out);
}

/* =============================== whitelist signatures ================================ */
static secp256k1_pubkey *vu_ctx_pks(const jv *in, const char *key, size_t *n) {
    long len = jv_bytes(in, key, VU_TMP, sizeof(VU_TMP)); size_t i; secp256k1_pubkey *g;
    if (len < 0) return NULL;
    if (len % 33) { fprintf(stderr, "vh: context %s must be a multiple of 33 bytes\n", key); exit(3); }
    *n = (size_t)len / 33; g = (secp256k1_pubkey*)vu_alloc(*n * sizeof(*g));
    for (i = 0; i < *n; i++) if (!secp256k1_ec_pubkey_parse(CTX, &g[i], VU_TMP + 33 * i, 33)) { fprintf(stderr, "vh: context %s[%lu] invalid\n", key, (unsigned long)i); exit(3); }
    return g;
}
/* data = serialized signature; context: ons / offs (flat 33n; default pool keys), sub (33), nkeys (count handed to verify) */
static void op_UWhitelist(const jv *in, jout *out) {
    long len; unsigned char *d, *ser; secp256k1_whitelist_signature *sig; secp256k1_pubkey sub, *ons, *offs, *e1, *e2; size_t n1 = 0, n2 = 0, nk, l, pass; int ret; VU_BEGIN("UWhitelist");
    vu_fix_keys(); vu_m0 = vu_live();
    d = vu_in(in, "data", &len); if (len < 0) { fprintf(stderr, "vh: data missing\n"); exit(3); }
    sig = (secp256k1_whitelist_signature*)vu_alloc(sizeof(*sig));
    ons = vu_ctx_pks(in, "ons", &n1); offs = vu_ctx_pks(in, "offs", &n2); vu_ctx_pk(in, "sub", &sub, &F.pk2);
    if ((ons == NULL) != (offs == NULL) || n1 != n2) { fprintf(stderr, "vh: ons/offs mismatch\n"); exit(3); }
    ret = VU_CALL("whitelist_signature_parse", secp256k1_whitelist_signature_parse(CTX, sig, d, (size_t)len));
    jo_int(out, "ret", ret); if (!ret) VU_REJ(out);
    if (ret) {
        nk = VU_CALL("n_keys", secp256k1_whitelist_signature_n_keys(sig));
        jo_int(out, "nk", (long long)nk); jo_int(out, "len", len); vu_dg_int((long long)nk);
        vu_use_begin(out);
        if (nk > 100000) { fprintf(stderr, "vh: absurd key count\n"); exit(3); }
        ser = (unsigned char*)vu_alloc(1 + 32 * (nk + 1)); l = 1 + 32 * (nk + 1);
        VU_USE(out, "ser", secp256k1_whitelist_signature_serialize(CTX, ser, &l, sig)); if (l <= 1 + 32 * (nk + 1)) vu_dg(ser, l);
        vu_release(ser);
        ser = (unsigned char*)vu_alloc(32 * (nk + 1)); l = 32 * (nk + 1);
        VU_USE(out, "ser_short", secp256k1_whitelist_signature_serialize(CTX, ser, &l, sig));
        vu_release(ser);
        pass = (size_t)jv_int(in, "nkeys", (long long)(ons ? n1 : nk));
        if (ons) { if (pass > n1) pass = n1; e1 = (secp256k1_pubkey*)vu_copy(ons, pass * sizeof(*e1)); e2 = (secp256k1_pubkey*)vu_copy(offs, pass * sizeof(*e2)); }
        else { if (pass > VU_NKEYS) pass = VU_NKEYS; e1 = (secp256k1_pubkey*)vu_copy(VU_ON, pass * sizeof(*e1)); e2 = (secp256k1_pubkey*)vu_copy(VU_OFF, pass * sizeof(*e2)); }
        VU_USE(out, "verify", secp256k1_whitelist_verify(CTX, sig, e1, e2, pass, &sub));
        vu_release(e1); vu_release(e2);
        pass = pass ? pass - 1 : 1;
        e1 = (secp256k1_pubkey*)vu_copy(VU_ON, pass * sizeof(*e1)); e2 = (secp256k1_pubkey*)vu_copy(VU_OFF, pass * sizeof(*e2));
        VU_USE(out, "verify_mis", secp256k1_whitelist_verify(CTX, sig, e1, e2, pass, &sub));
        vu_release(e1); vu_release(e2);
        vu_use_end(out);
    }
    vu_release(ons); vu_release(offs); vu_release(sig); vu_release(d); VU_END(out);
}

/* =============================== Schnorr half-aggregation ================================ */
/* data = aggregate signature; n = key count handed to aggverify (default len/32 - 1); context: pks (flat 32n, default pool), msgs (flat 32n) */
static void op_UAggVerify(const jv *in, jout *out) {
    long len, pl, ml; unsigned char *d, *pkb, *msgs; secp256k1_xonly_pubkey *pks; size_t n, i; int ret; VU_BEGIN("UAggVerify");
    vu_fix_keys(); vu_m0 = vu_live();
    d = vu_in(in, "data", &len); if (len < 0) { fprintf(stderr, "vh: data missing\n"); exit(3); }
    n = (size_t)jv_int(in, "n", len >= 32 ? len / 32 - 1 : 0);
    pkb = vu_in(in, "pks", &pl); msgs = vu_in(in, "msgs", &ml);
    if (pkb) {
        if (pl != ml || pl % 32 || (size_t)pl / 32 < n) { fprintf(stderr, "vh: UAggVerify context\n"); exit(3); }
        pks = (secp256k1_xonly_pubkey*)vu_alloc(n * sizeof(*pks));
        for (i = 0; i < n; i++) if (!secp256k1_xonly_pubkey_parse(CTX, &pks[i], pkb + 32 * i)) { fprintf(stderr, "vh: context pks invalid\n"); exit(3); }
        { unsigned char *m2 = (unsigned char*)vu_copy(msgs, 32 * n); vu_release(msgs); msgs = m2; }
    } else {
        if (n > VU_NKEYS) { fprintf(stderr, "vh: n too large for the key pool\n"); exit(3); }
        pks = (secp256k1_xonly_pubkey*)vu_copy(VU_XO, n * sizeof(*pks)); msgs = (unsigned char*)vu_copy(VU_MSGS, 32 * n);
    }
    ret = VU_CALL("schnorrsig_aggverify", secp256k1_schnorrsig_aggverify(CTX, pks, msgs, n, d, (size_t)len));
    jo_int(out, "ret", ret); if (!ret) VU_REJ(out);
    vu_use_begin(out); VU_USE(out, "null0", secp256k1_schnorrsig_aggverify(CTX, NULL, NULL, 0, d, (size_t)len)); vu_use_end(out);
    vu_release(pks); vu_release(msgs); vu_release(pkb); vu_release(d); VU_END(out);
}
/* data = contents AND capacity of the aggregate buffer (*aggsig_len = len); nb / nn = n_before / n_new as 8-byte big-endian values.
 * Key/message arrays have exactly min(n, 264) entries, the signature array min(n_new, 64).  n_before + n_new overflowing size_t is documented illegal use. */
static void op_UIncAgg(const jv *in, jout *out) {
    long len; unsigned char *d, *d0, *msgs, *sigs; secp256k1_xonly_pubkey *pks; size_t nb, nn, n, na, ns, l, i; int ret; VU_BEGIN("UIncAgg");
    vu_fix_keys(); vu_m0 = vu_live();
    d = vu_in(in, "data", &len); if (len < 0) { fprintf(stderr, "vh: data missing\n"); exit(3); }
    d0 = (unsigned char*)vu_copy(d, (size_t)len);      /* untouched copy of the input for the zero-count call */
    nb = (size_t)vu_u64(in, "nb", 0); nn = (size_t)vu_u64(in, "nn", 0); n = nb + nn;
    na = n < VU_NKEYS ? n : VU_NKEYS; ns = nn < 64 ? nn : 64;
    /* the arrays are complete whenever the library's own length check (aggsig_len / 32 - 1 >= n) can pass */
    if ((size_t)len / 32 > 0 && (size_t)len / 32 - 1 >= n && (n > na || (nn > ns && nn <= n))) { fprintf(stderr, "vh: UIncAgg counts exceed the harness pools\n"); exit(3); }
    pks = (secp256k1_xonly_pubkey*)vu_copy(VU_XO, na * sizeof(*pks)); msgs = (unsigned char*)vu_copy(VU_MSGS, 32 * na);
    sigs = (unsigned char*)vu_alloc(64 * ns);
    for (i = 0; i < ns; i++) { memcpy(sigs + 64 * i, F.ssig, 64); sigs[64 * i + 63] ^= (unsigned char)i; }
    l = (size_t)len;
    ret = VU_CALL("schnorrsig_inc_aggregate", secp256k1_schnorrsig_inc_aggregate(CTX, d, &l, pks, msgs, sigs, nb, nn));
    jo_int(out, "ret", ret); if (!ret) VU_REJ(out);
    if (ret) { jo_int(out, "newlen", (long long)l); vu_dg_int((long long)l); if (l <= (size_t)len) vu_dg(d, l); }
    vu_use_begin(out);
    if (ret) VU_USE(out, "aggver", secp256k1_schnorrsig_aggverify(CTX, pks, msgs, n, d, l <= (size_t)len ? l : (size_t)len));
    { size_t l2 = (size_t)len; VU_USE(out, "null0", secp256k1_schnorrsig_inc_aggregate(CTX, d0, &l2, NULL, NULL, NULL, 0, 0)); vu_release(d0); }
    vu_use_end(out);
    vu_release(pks); vu_release(msgs); vu_release(sigs); vu_release(d); VU_END(out);
}

/* =============================== Bulletproofs++ ================================ */
static void vu_bp_transcript(secp256k1_sha256 *t, const unsigned char *commit33, const unsigned char *rho32, size_t glen, size_t clen) {
    const secp256k1_hash_ctx *h = secp256k1_get_hash_context(CTX); unsigned char le[8];
    secp256k1_bppp_sha256_tagged_commitment_init(t);
    secp256k1_sha256_write(h, t, commit33, 33); secp256k1_sha256_write(h, t, rho32, 32);
    secp256k1_bppp_le64(le, glen); secp256k1_sha256_write(h, t, le, 8); secp256k1_bppp_le64(le, clen); secp256k1_sha256_write(h, t, le, 8);
}
static void vu_bp_defaults(unsigned char *rho32, secp256k1_scalar *cv, size_t clen) {
    size_t i; unsigned char b[32];
    vu_seckey(rho32, VU_SEED0, "bp_rho", 0);
    for (i = 0; i < clen; i++) { vu_seckey(b, VU_SEED0, "bp_c", (unsigned)i); secp256k1_scalar_set_b32(&cv[i], b, NULL); }
}
/* data = generator list; if it parses: serialize, use as generator vector of a norm-argument verification, destroy */
static void op_UBpppGens(const jv *in, jout *out) {
    long len; unsigned char *d, *ser, rho32[32], c33[33]; secp256k1_bppp_generators *g; size_t l, n; secp256k1_scalar rho, cv[1]; secp256k1_ge commit; secp256k1_sha256 tr;
    secp256k1_scratch_space *scratch; unsigned char *proof; VU_BEGIN("UBpppGens");
    d = vu_in(in, "data", &len); if (len < 0) { fprintf(stderr, "vh: data missing\n"); exit(3); }
    g = VU_CALL("bppp_generators_parse", secp256k1_bppp_generators_parse(CTX, d, (size_t)len));
    jo_int(out, "ret", g != NULL); if (!g) VU_REJ(out);
    if (g) {
        n = g->n; jo_int(out, "n", (long long)n); jo_int(out, "len", len);
        vu_use_begin(out);
        ser = (unsigned char*)vu_alloc(33 * n); l = 33 * n;
        VU_USE(out, "ser", secp256k1_bppp_generators_serialize(CTX, g, ser, &l)); if (l <= 33 * n) vu_dg(ser, l);
        vu_release(ser);
        /* g_len = n - 1, one h generator: dimension checks refuse everything but powers of two */
        vu_bp_defaults(rho32, cv, 1); secp256k1_scalar_set_b32(&rho, rho32, NULL);
        { size_t sz = 33; secp256k1_ec_pubkey_serialize(CTX, c33, &sz, &F.pk1, SECP256K1_EC_COMPRESSED); secp256k1_eckey_pubkey_parse(&commit, c33, 33); }
        vu_bp_transcript(&tr, c33, rho32, n ? n - 1 : 0, 1);
        proof = (unsigned char*)vu_alloc(65 * 8 + 64); memset(proof, 0, 65 * 8 + 64);
        scratch = secp256k1_scratch_space_create(CTX, 1 << 20);
        { size_t gl = n ? n - 1 : 0, r = 0, t = gl; while (t > 1) { t >>= 1; r++; }
          VU_USE(out, "verify", secp256k1_bppp_rangeproof_norm_product_verify(CTX, scratch, proof, r <= 8 ? 65 * r + 64 : 64, &tr, &rho, g, gl, cv, 1, &commit)); }
        secp256k1_scratch_space_destroy(CTX, scratch);
        vu_release(proof);
        vu_use_end(out);
        VU_CALL("bppp_generators_destroy", secp256k1_bppp_generators_destroy(CTX, g));
    }
    vu_release(d); VU_END(out);
}
/* data = norm-argument proof; glen / clen = dimensions handed to the verifier; gn = size of the generator list (default glen + clen);
 * context: rho (32), commit (33, compressed point), cvec (flat 32*clen) */
static void op_UBpppVerify(const jv *in, jout *out) {
    long len, cl; unsigned char *d, *cvb, rho32[32], c33[33]; size_t glen = (size_t)jv_int(in, "glen", 1), clen = (size_t)jv_int(in, "clen", 1), gn, i;
    secp256k1_bppp_generators *g; secp256k1_scalar rho, *cv; secp256k1_ge commit; secp256k1_sha256 tr, tr2; secp256k1_scratch_space *scratch; int ret; VU_BEGIN("UBpppVerify");
    d = vu_in(in, "data", &len); if (len < 0) { fprintf(stderr, "vh: data missing\n"); exit(3); }
    gn = (size_t)jv_int(in, "gn", (long long)(glen + clen));
    if (glen > 256 || clen > 256 || gn > 512) { fprintf(stderr, "vh: UBpppVerify dimensions\n"); exit(3); }
    cv = (secp256k1_scalar*)vu_alloc(clen * sizeof(*cv));
    vu_bp_defaults(rho32, cv, clen);
    vu_opt(in, "rho", rho32, 32); secp256k1_scalar_set_b32(&rho, rho32, NULL);
    cvb = vu_in(in, "cvec", &cl);
    if (cvb) { if (cl != (long)(32 * clen)) { fprintf(stderr, "vh: cvec size\n"); exit(3); } for (i = 0; i < clen; i++) secp256k1_scalar_set_b32(&cv[i], cvb + 32 * i, NULL); }
    if (!vu_opt(in, "commit", c33, 33)) { size_t sz = 33; secp256k1_ec_pubkey_serialize(CTX, c33, &sz, &F.pk1, SECP256K1_EC_COMPRESSED); }
    if (!secp256k1_eckey_pubkey_parse(&commit, c33, 33)) { fprintf(stderr, "vh: context commit invalid\n"); exit(3); }
    g = secp256k1_bppp_generators_create(CTX, gn); VU_MUST(g != NULL);
    vu_bp_transcript(&tr, c33, rho32, glen, clen); tr2 = tr;
    scratch = secp256k1_scratch_space_create(CTX, (size_t)jv_int(in, "scratch", 1 << 20));
    ret = VU_CALL("bppp_norm_product_verify", secp256k1_bppp_rangeproof_norm_product_verify(CTX, scratch, d, (size_t)len, &tr, &rho, g, glen, cv, clen, &commit));
    jo_int(out, "ret", ret);
    vu_use_begin(out);
    /* the scratch space is reused: nothing may be left allocated in it by the first call */
    VU_USE(out, "again", secp256k1_bppp_rangeproof_norm_product_verify(CTX, scratch, d, (size_t)len, &tr2, &rho, g, glen, cv, clen, &commit));
    vu_use_end(out);
    VU_CALL("scratch_space_destroy", secp256k1_scratch_space_destroy(CTX, scratch));
    secp256k1_bppp_generators_destroy(CTX, g);
    vu_release(cvb); vu_release(cv); vu_release(d); VU_END(out);
}

/* =============================== valid artefacts, made by the library itself ================================ */
static void vu_out_pk33(jout *out, const char *key, const secp256k1_pubkey *pk) { unsigned char b[33]; size_t l = 33; secp256k1_ec_pubkey_serialize(CTX, b, &l, pk, SECP256K1_EC_COMPRESSED); jo_bytes(out, key, b, 33); }
/* all fixed-size fixtures (deterministic) */
static void op_UMakeFixtures(const jv *in, jout *out) {
    unsigned char b[80], der[72]; size_t l; (void)in; vu_fix();
    vu_out_pk33(out, "pk1", &F.pk1); vu_out_pk33(out, "pk2", &F.pk2);
    l = 65; secp256k1_ec_pubkey_serialize(CTX, b, &l, &F.pk1, SECP256K1_EC_UNCOMPRESSED); jo_bytes(out, "pk1u", b, 65);
    jo_bytes(out, "xo1", F.xo1b, 32); jo_bytes(out, "msg", F.msg, 32); jo_bytes(out, "sk1", F.sk1, 32);
    l = 72; secp256k1_ecdsa_signature_serialize_der(CTX, der, &l, &F.esig); jo_bytes(out, "der", der, l);
    secp256k1_ecdsa_signature_serialize_compact(CTX, b, &F.esig); jo_bytes(out, "compact", b, 64);
    jo_bytes(out, "schnorr", F.ssig, 64);
    secp256k1_musig_pubnonce_serialize(CTX, b, &F.pn1); jo_bytes(out, "pubnonce", b, 66);
    secp256k1_musig_aggnonce_serialize(CTX, b, &F.an); jo_bytes(out, "aggnonce", b, 66);
    secp256k1_musig_partial_sig_serialize(CTX, b, &F.ps1); jo_bytes(out, "partialsig", b, 32);
    jo_bytes(out, "musig", F.msig, 64);
    jo_bytes(out, "adaptor", F.adaptor, 162);
    VU_MUST(secp256k1_ecdsa_s2c_opening_serialize(CTX, b, &F.opening)); jo_bytes(out, "opening", b, 33);
    secp256k1_pedersen_commitment_serialize(CTX, b, &F.commit); jo_bytes(out, "commit", b, 33);
    secp256k1_generator_serialize(CTX, b, secp256k1_generator_h); jo_bytes(out, "genh", b, 33);
    jo_bytes(out, "rangeproof", F.rproof, F.rplen);
    jo_bytes(out, "ellswift", F.ell, 64);
    jo_int(out, "ret", 1);
}
/* seed (32), exp, min_bits, min (8), value (8), msglen, extralen, gen: 0 = static h, 1 = a generated generator */
static void op_UMakeRangeproof(const jv *in, jout *out) {
    unsigned char seed[32], blind[32], nonce[32], msg[128], extra[64], b[33]; static unsigned char proof[5134]; size_t plen = sizeof(proof), ml = (size_t)jv_int(in, "msglen", 0), el = (size_t)jv_int(in, "extralen", 0), i;
    secp256k1_generator g; secp256k1_pedersen_commitment c; uint64_t minv = vu_u64(in, "min", 0), value = vu_u64(in, "value", 0); int ret;
    vu_fix(); jv_need(in, "seed", seed, 32);
    if (ml > sizeof(msg) || el > sizeof(extra)) { fprintf(stderr, "vh: UMakeRangeproof sizes\n"); exit(3); }
    vu_seckey(blind, seed, "blind", 0); vu_derive(nonce, seed, "nonce", 0);
    for (i = 0; i < ml; i++) msg[i] = (unsigned char)(i * 7 + 1); for (i = 0; i < el; i++) extra[i] = (unsigned char)(i * 5 + 3);
    if (jv_int(in, "gen", 0)) { vu_derive(b, seed, "gen", 0); VU_MUST(secp256k1_generator_generate(CTX, &g, b)); } else g = *secp256k1_generator_h;
    VU_MUST(secp256k1_pedersen_commit(CTX, &c, blind, value, &g));
    ret = secp256k1_rangeproof_sign(CTX, proof, &plen, minv, &c, blind, nonce, (int)jv_int(in, "exp", 0), (int)jv_int(in, "min_bits", 0), value, ml ? msg : NULL, ml, el ? extra : NULL, el, &g);
    jo_int(out, "ret", ret);
    if (!ret) return;
    jo_bytes(out, "data", proof, plen);
    secp256k1_pedersen_commitment_serialize(CTX, b, &c); jo_bytes(out, "commit", b, 33);
    secp256k1_generator_serialize(CTX, b, &g); jo_bytes(out, "gen", b, 33);
    jo_bytes(out, "nonce", nonce, 32); if (el) jo_bytes(out, "extra", extra, el);
}
/* seed, n (inputs), nuse */
static void op_UMakeSurjection(const jv *in, jout *out) {
    unsigned char seed[32], oblind[32], rs[32]; size_t n = (size_t)jv_int(in, "n", 3), nuse = (size_t)jv_int(in, "nuse", 2), i, idx = 0, l;
    static secp256k1_fixed_asset_tag tags[256]; static secp256k1_generator gens[256]; static unsigned char blinds[256][32], ser[SECP256K1_SURJECTIONPROOF_SERIALIZATION_BYTES_MAX], flat[256 * 33];
    secp256k1_fixed_asset_tag otag; secp256k1_generator og; secp256k1_surjectionproof *p; int ret;
    vu_fix(); jv_need(in, "seed", seed, 32);
    if (n < 1 || n > 256 || nuse < 1 || nuse > n) { fprintf(stderr, "vh: UMakeSurjection sizes\n"); exit(3); }
    for (i = 0; i < n; i++) { vu_derive(tags[i].data, seed, "tag", (unsigned)i); vu_seckey(blinds[i], seed, "tagblind", (unsigned)i); VU_MUST(secp256k1_generator_generate_blinded(CTX, &gens[i], tags[i].data, blinds[i])); }
    otag = tags[n / 2]; vu_seckey(oblind, seed, "oblind", 0); vu_derive(rs, seed, "rs", 0);
    VU_MUST(secp256k1_generator_generate_blinded(CTX, &og, otag.data, oblind));
    p = (secp256k1_surjectionproof*)malloc(sizeof(*p));
    ret = secp256k1_surjectionproof_initialize(CTX, p, &idx, tags, n, nuse, &otag, 1000, rs) > 0;
    if (ret) ret = secp256k1_surjectionproof_generate(CTX, p, gens, n, &og, idx, blinds[idx], oblind);
    jo_int(out, "ret", ret);
    if (ret) {
        l = sizeof(ser); VU_MUST(secp256k1_surjectionproof_serialize(CTX, ser, &l, p)); jo_bytes(out, "data", ser, l);
        for (i = 0; i < n; i++) secp256k1_generator_serialize(CTX, flat + 33 * i, &gens[i]);
        jo_bytes(out, "tags", flat, 33 * n);
        secp256k1_generator_serialize(CTX, flat, &og); jo_bytes(out, "outtag", flat, 33);
    }
    free(p);
}
/* seed, n (keys), idx */
static void op_UMakeWhitelist(const jv *in, jout *out) {
    unsigned char seed[32], onsk[32], offsk[32], subsk[32], summed[32]; size_t n = (size_t)jv_int(in, "n", 3), idx = (size_t)jv_int(in, "idx", 0), i, l;
    static secp256k1_pubkey ons[255], offs[255]; static unsigned char flat[255 * 33], ser[1 + 32 * 256]; secp256k1_pubkey sub; secp256k1_whitelist_signature sig; int ret;
    vu_fix(); jv_need(in, "seed", seed, 32);
    if (n < 1 || n > 255 || idx >= n) { fprintf(stderr, "vh: UMakeWhitelist sizes\n"); exit(3); }
    vu_seckey(subsk, seed, "sub", 0); VU_MUST(secp256k1_ec_pubkey_create(CTX, &sub, subsk));
    for (i = 0; i < n; i++) {
        unsigned char a[32], b[32]; vu_seckey(a, seed, "on", (unsigned)i); vu_seckey(b, seed, "off", (unsigned)i);
        VU_MUST(secp256k1_ec_pubkey_create(CTX, &ons[i], a)); VU_MUST(secp256k1_ec_pubkey_create(CTX, &offs[i], b));
        if (i == idx) { memcpy(onsk, a, 32); memcpy(offsk, b, 32); }
    }
    memcpy(summed, offsk, 32); VU_MUST(secp256k1_ec_seckey_tweak_add(CTX, summed, subsk));
    ret = secp256k1_whitelist_sign(CTX, &sig, ons, offs, n, &sub, onsk, summed, idx);
    jo_int(out, "ret", ret);
    if (ret) {
        l = sizeof(ser); VU_MUST(secp256k1_whitelist_signature_serialize(CTX, ser, &l, &sig)); jo_bytes(out, "data", ser, l);
        for (i = 0; i < n; i++) { size_t s = 33; secp256k1_ec_pubkey_serialize(CTX, flat + 33 * i, &s, &ons[i], SECP256K1_EC_COMPRESSED); } jo_bytes(out, "ons", flat, 33 * n);
        for (i = 0; i < n; i++) { size_t s = 33; secp256k1_ec_pubkey_serialize(CTX, flat + 33 * i, &s, &offs[i], SECP256K1_EC_COMPRESSED); } jo_bytes(out, "offs", flat, 33 * n);
        vu_out_pk33(out, "sub", &sub);
    }
}
/* seed, n */
static void op_UMakeHalfAgg(const jv *in, jout *out) {
    unsigned char seed[32], sk[32], aux[32]; size_t n = (size_t)jv_int(in, "n", 2), i, l;
    static secp256k1_xonly_pubkey pks[64]; static unsigned char msgs[64 * 32], sigs[64 * 64], pkb[64 * 32], agg[32 * 65]; secp256k1_keypair kp; int ret;
    vu_fix(); jv_need(in, "seed", seed, 32);
    if (n > 64) { fprintf(stderr, "vh: UMakeHalfAgg sizes\n"); exit(3); }
    for (i = 0; i < n; i++) {
        vu_seckey(sk, seed, "sk", (unsigned)i); vu_derive(msgs + 32 * i, seed, "msg", (unsigned)i); vu_derive(aux, seed, "aux", (unsigned)i);
        VU_MUST(secp256k1_keypair_create(CTX, &kp, sk)); VU_MUST(secp256k1_keypair_xonly_pub(CTX, &pks[i], NULL, &kp));
        VU_MUST(secp256k1_schnorrsig_sign32(CTX, sigs + 64 * i, msgs + 32 * i, &kp, aux)); secp256k1_xonly_pubkey_serialize(CTX, pkb + 32 * i, &pks[i]);
    }
    l = sizeof(agg);
    ret = secp256k1_schnorrsig_aggregate(CTX, agg, &l, pks, msgs, sigs, n);
    jo_int(out, "ret", ret);
    if (ret) { jo_bytes(out, "data", agg, l); jo_bytes(out, "pks", pkb, 32 * n); jo_bytes(out, "msgs", msgs, 32 * n); jo_int(out, "n", (long long)n); }
}
/* seed, glen, clen (powers of two) */
static void op_UMakeBppp(const jv *in, jout *out) {
    unsigned char seed[32], rho32[32], b[32], c33[33], proof[65 * 8 + 64], cvb[32 * 64]; size_t glen = (size_t)jv_int(in, "glen", 2), clen = (size_t)jv_int(in, "clen", 2), i, plen = sizeof(proof);
    secp256k1_scalar nv[64], lv[64], cv[64], cv2[64], rho, mu; secp256k1_ge commit, *gs; secp256k1_bppp_generators *g; secp256k1_scratch_space *scratch; secp256k1_sha256 tr; int ret;
    vu_fix(); jv_need(in, "seed", seed, 32);
    if (glen < 1 || clen < 1 || glen > 64 || clen > 64 || (glen & (glen - 1)) || (clen & (clen - 1))) { fprintf(stderr, "vh: UMakeBppp sizes\n"); exit(3); }
    vu_seckey(rho32, seed, "rho", 0); secp256k1_scalar_set_b32(&rho, rho32, NULL); secp256k1_scalar_sqr(&mu, &rho);
    for (i = 0; i < glen; i++) { vu_seckey(b, seed, "n", (unsigned)i); secp256k1_scalar_set_b32(&nv[i], b, NULL); }
    for (i = 0; i < clen; i++) { vu_seckey(b, seed, "l", (unsigned)i); secp256k1_scalar_set_b32(&lv[i], b, NULL); vu_seckey(cvb + 32 * i, seed, "c", (unsigned)i); secp256k1_scalar_set_b32(&cv[i], cvb + 32 * i, NULL); cv2[i] = cv[i]; }
    g = secp256k1_bppp_generators_create(CTX, glen + clen); VU_MUST(g != NULL);
    scratch = secp256k1_scratch_space_create(CTX, 1 << 20);
    VU_MUST(secp256k1_bppp_commit(CTX, scratch, &commit, g, nv, glen, lv, clen, cv, clen, &mu));
    secp256k1_fe_normalize_var(&commit.x); secp256k1_fe_normalize_var(&commit.y); secp256k1_eckey_pubkey_serialize33(&commit, c33);
    vu_bp_transcript(&tr, c33, rho32, glen, clen);
    gs = (secp256k1_ge*)malloc(g->n * sizeof(*gs)); memcpy(gs, g->gens, g->n * sizeof(*gs));
    ret = secp256k1_bppp_rangeproof_norm_product_prove(CTX, scratch, proof, &plen, &tr, &rho, gs, g->n, nv, glen, lv, clen, cv2, clen);
    jo_int(out, "ret", ret);
    if (ret) { jo_bytes(out, "data", proof, plen); jo_bytes(out, "rho", rho32, 32); jo_bytes(out, "commit", c33, 33); jo_bytes(out, "cvec", cvb, 32 * clen); jo_int(out, "glen", (long long)glen); jo_int(out, "clen", (long long)clen); }
    free(gs); secp256k1_scratch_space_destroy(CTX, scratch); secp256k1_bppp_generators_destroy(CTX, g);
}
/* n -> serialized list of n library-made generators */
static void op_UMakeBpppGens(const jv *in, jout *out) {
    size_t n = (size_t)jv_int(in, "n", 2), l = 33 * n; unsigned char *b; secp256k1_bppp_generators *g;
    vu_fix(); if (n > 256) { fprintf(stderr, "vh: UMakeBpppGens size\n"); exit(3); }
    g = secp256k1_bppp_generators_create(CTX, n); VU_MUST(g != NULL);
    b = (unsigned char*)malloc(l + 1);
    jo_int(out, "ret", secp256k1_bppp_generators_serialize(CTX, g, b, &l)); jo_bytes(out, "data", b, l);
    free(b); secp256k1_bppp_generators_destroy(CTX, g);
}

#define VH_OPS_UNTRUSTED \
    { "UPubkey", op_UPubkey }, { "UXonly", op_UXonly }, { "USeckey", op_USeckey }, { "USigCompact", op_USigCompact }, { "USigDer", op_USigDer }, \
    { "URecSig", op_URecSig }, { "USchnorr", op_USchnorr }, { "UCommit", op_UCommit }, { "UGenerator", op_UGenerator }, { "UOpening", op_UOpening }, \
    { "UPubnonce", op_UPubnonce }, { "UAggnonce", op_UAggnonce }, { "UPartialSig", op_UPartialSig }, { "UMusigAdapt", op_UMusigAdapt }, \
    { "UEllswift", op_UEllswift }, { "UAdaptor", op_UAdaptor }, { "URangeproof", op_URangeproof }, { "USurjection", op_USurjection }, \
    { "UWhitelist", op_UWhitelist }, { "UAggVerify", op_UAggVerify }, { "UIncAgg", op_UIncAgg }, { "UBpppGens", op_UBpppGens }, { "UBpppVerify", op_UBpppVerify }, \
    { "UMakeFixtures", op_UMakeFixtures }, { "UMakeRangeproof", op_UMakeRangeproof }, { "UMakeSurjection", op_UMakeSurjection }, { "UMakeWhitelist", op_UMakeWhitelist }, \
    { "UMakeHalfAgg", op_UMakeHalfAgg }, { "UMakeBppp", op_UMakeBppp }, { "UMakeBpppGens", op_UMakeBpppGens },
