static void vh_extra_init(void) {}
#define VH_OPS_EXTRA
