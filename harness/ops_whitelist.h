/* C16: whitelist proofs.  Key lists are lists of 33-byte encodings; signatures travel serialized. */
static secp256k1_pubkey VH_WL_ON[256], VH_WL_OFF[256];
static size_t vh_wl_load_keys(const jv *in, const char *key, secp256k1_pubkey *dst) {
    const jv *a = jv_get(in, key); const jv *c; size_t n = 0; unsigned char b[33];
    for (c = a ? a->child : NULL; c && n < 256; c = c->next) {
        if (jv_bytes_v(c, b, 33) != 33 || !secp256k1_ec_pubkey_parse(CTX, &dst[n], b, 33)) { fprintf(stderr, "vh: bad key in %s\n", key); exit(3); }
        n++;
    }
    return n;
}
static void op_WlSign(const jv *in, jout *out) {
    unsigned char onsec[32], sumsec[32], ser[1 + 32 * 257]; size_t n, n2, len = sizeof(ser);
    secp256k1_pubkey sub; secp256k1_whitelist_signature sig; int ret;
    n = vh_wl_load_keys(in, "ons", VH_WL_ON); n2 = vh_wl_load_keys(in, "offs", VH_WL_OFF);
    if (n != n2 || !vh_load_pk(in, "sub", &sub)) { fprintf(stderr, "vh: WlSign bad input\n"); exit(3); }
    jv_need(in, "onsec", onsec, 32); jv_need(in, "sumsec", sumsec, 32);
    memset(&sig, 0, sizeof(sig));
    ret = secp256k1_whitelist_sign(CTX, &sig, VH_WL_ON, VH_WL_OFF, n, &sub, onsec, sumsec, (size_t)jv_int(in, "index", 0));
    jo_int(out, "ret", ret);
    if (ret) {
        jo_int(out, "nk", (long long)secp256k1_whitelist_signature_n_keys(&sig));
        jo_int(out, "sret", secp256k1_whitelist_signature_serialize(CTX, ser, &len, &sig));
        jo_bytes(out, "sig", ser, len);
    }
}
/* parse the serialized signature; if accepted: verify against the key list (nkeys = list length unless "nkeys" given),
 * and re-serialize with an ample and with a one-byte-short buffer */
static void op_WlVerify(const jv *in, jout *out) {
    static unsigned char raw[1 + 32 * 258 + 64], ser[1 + 32 * 258]; size_t n, n2, len; long rawlen;
    secp256k1_pubkey sub; secp256k1_whitelist_signature sig; int pret;
    n = vh_wl_load_keys(in, "ons", VH_WL_ON); n2 = vh_wl_load_keys(in, "offs", VH_WL_OFF);
    if (n != n2 || !vh_load_pk(in, "sub", &sub)) { fprintf(stderr, "vh: WlVerify bad input\n"); exit(3); }
    rawlen = jv_bytes(in, "sig", raw, sizeof(raw));
    pret = secp256k1_whitelist_signature_parse(CTX, &sig, raw, (size_t)rawlen);
    jo_int(out, "pret", pret);
    if (!pret) { jo_int(out, "ret", 0); return; }
    jo_int(out, "nk", (long long)secp256k1_whitelist_signature_n_keys(&sig));
    jo_int(out, "ret", secp256k1_whitelist_verify(CTX, &sig, VH_WL_ON, VH_WL_OFF, (size_t)jv_int(in, "nkeys", (long long)n), &sub));
    len = sizeof(ser);
    jo_int(out, "sret", secp256k1_whitelist_signature_serialize(CTX, ser, &len, &sig));
    jo_bytes(out, "ser", ser, len);
    len = (size_t)rawlen - 1;
    jo_int(out, "sret_short", secp256k1_whitelist_signature_serialize(CTX, ser, &len, &sig));
}
#define VH_OPS_WHITELIST \
    { "WlSign", op_WlSign }, { "WlVerify", op_WlVerify },
