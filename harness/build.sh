#!/bin/sh
# build.sh <variant> <outdir> <group>... -> <outdir>/vh_<variant>; always compiles from /repo's current
# working tree (or $VH_REPO_DIR for calibration against a scratch copy).  Only the named op groups
# (harness/ops_<group>.h) are compiled in.
set -e
V=${1:-std}
OUT=${2:-/verif/out/bin}; mkdir -p $OUT
shift; shift || true
GROUPS_DEF=""
for g in "$@"; do GROUPS_DEF="$GROUPS_DEF -DVH_G_$(echo $g | tr a-z A-Z)=1"; done
REPO=${VH_REPO_DIR:-/repo}
MODS="-DENABLE_MODULE_BPPP=1 -DENABLE_MODULE_ECDH=1 -DENABLE_MODULE_ECDSA_ADAPTOR=1 -DENABLE_MODULE_ECDSA_S2C=1 -DENABLE_MODULE_ELLSWIFT=1 -DENABLE_MODULE_EXTRAKEYS=1 -DENABLE_MODULE_GENERATOR=1 -DENABLE_MODULE_MUSIG=1 -DENABLE_MODULE_RANGEPROOF=1 -DENABLE_MODULE_SCHNORRSIG=1 -DENABLE_MODULE_SCHNORRSIG_HALFAGG=1 -DENABLE_MODULE_SURJECTIONPROOF=1 -DENABLE_MODULE_WHITELIST=1 -DENABLE_MODULE_RECOVERY=1"
BASE="-DSECP256K1_ZKP_VERIF=1 -I$REPO -I$REPO/src -I$REPO/include -Wno-unused-function -Wno-unused-parameter"
CC=gcc; OPT="-O2 -g"; CFG="-DCOMB_BLOCKS=43 -DCOMB_TEETH=6 -DECMULT_WINDOW_SIZE=15 -DUSE_ASM_X86_64=1"; TABLES=1; LIBS=""
case "$V" in
  std) ;;
  verify) CFG="$CFG -DVERIFY" ;;
  noasm) CFG="-DCOMB_BLOCKS=43 -DCOMB_TEETH=6 -DECMULT_WINDOW_SIZE=15" ;;
  i64) CFG="-DCOMB_BLOCKS=43 -DCOMB_TEETH=6 -DECMULT_WINDOW_SIZE=15 -DUSE_FORCE_WIDEMUL_INT64=1" ;;
  i64v) CFG="-DCOMB_BLOCKS=43 -DCOMB_TEETH=6 -DECMULT_WINDOW_SIZE=15 -DUSE_FORCE_WIDEMUL_INT64=1 -DVERIFY" ;;
  i128s) CFG="-DCOMB_BLOCKS=43 -DCOMB_TEETH=6 -DECMULT_WINDOW_SIZE=15 -DUSE_FORCE_WIDEMUL_INT128_STRUCT=1" ;;
  i128sv) CFG="-DCOMB_BLOCKS=43 -DCOMB_TEETH=6 -DECMULT_WINDOW_SIZE=15 -DUSE_FORCE_WIDEMUL_INT128_STRUCT=1 -DVERIFY" ;;
  w2) CFG="-DCOMB_BLOCKS=2 -DCOMB_TEETH=5 -DECMULT_WINDOW_SIZE=2 -DUSE_ASM_X86_64=1" ;;
  w8) CFG="-DCOMB_BLOCKS=11 -DCOMB_TEETH=6 -DECMULT_WINDOW_SIZE=8 -DUSE_ASM_X86_64=1" ;;
  asan) CC=clang; OPT="-O1 -g -fsanitize=address,undefined -fno-sanitize-recover=undefined -fno-omit-frame-pointer"; CFG="-DCOMB_BLOCKS=43 -DCOMB_TEETH=6 -DECMULT_WINDOW_SIZE=15" ;;
  tiny7|tiny13|tiny199) O=${V#tiny}; CFG="-DECMULT_WINDOW_SIZE=15 -DEXHAUSTIVE_TEST_ORDER=$O -DVERIFY"; TABLES=0 ;;
  *) echo "unknown variant $V" >&2; exit 2 ;;
esac
# the harness includes $REPO/src/secp256k1.c through a generated shim so that VH_REPO_DIR is honoured
SHIM=$OUT/shim_$V; mkdir -p $SHIM
sed "s#\"../../repo/#\"$REPO/#" /verif/harness/vh_main.c > $SHIM/vh_main_$V.c
SRC="$SHIM/vh_main_$V.c"
if [ $TABLES = 1 ]; then SRC="$SRC $REPO/src/precomputed_ecmult.c $REPO/src/precomputed_ecmult_gen.c"; fi
$CC $OPT $CFG $MODS $BASE $GROUPS_DEF -I/verif/harness $SRC -o $OUT/vh_$V $LIBS
