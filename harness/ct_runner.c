/* C06 recorder: runs ONE constant-time API call between two noinline markers so that a
 * valgrind --tool=lackey --trace-mem=yes log of this process can be cut at the markers.
 *   usage: ct_runner <api> <pubvariant> <secretfile> <sidefile>
 * Secrets are read from a binary file (parsing text would already depend on the secret).
 * Every secp256k1_declassify() is reported through the guarded hook: the callback copies the bytes
 * into a buffer and calls a third marker, so the trace can also be cut at declassification points.
 * After the call the declassified values and the public outputs are written to <sidefile>. */
#include "../../repo/src/secp256k1.c"
#include <stdio.h>

#define NOINLINE __attribute__((noinline))
static volatile int ct_sink;
static unsigned char SEC[8][32];   /* secret material, from the file */
/* TAINT MODE (-DVH_CT_TAINT -DVALGRIND, run under valgrind memcheck): at the begin marker the secret file contents and the
 * secret parts of objects derived from them during set-up (registered with TAINT) are marked UNDEFINED, the context is created
 * with SECP256K1_CONTEXT_DECLASSIFY so that the library's own declassifications mark their values defined again, and every
 * memcheck report between the markers (branch or address computed from undefined data) becomes a "Tainted" event of the
 * trace.  After the end marker reporting is switched off (the recorder itself prints secret-derived bytes). */
#ifdef VH_CT_TAINT
#include <valgrind/memcheck.h>
static struct { void *p; size_t n; } TAINTS[16]; static int NTAINT = 0;
#define TAINT(ptr, len) do { TAINTS[NTAINT].p = (void*)(ptr); TAINTS[NTAINT].n = (len); NTAINT++; } while (0)
#define CT_CTX_FLAGS SECP256K1_CONTEXT_DECLASSIFY
NOINLINE void vh_ct_begin(void) { int i; VALGRIND_MAKE_MEM_UNDEFINED(SEC, sizeof(SEC)); for (i = 0; i < NTAINT; i++) VALGRIND_MAKE_MEM_UNDEFINED(TAINTS[i].p, TAINTS[i].n);
                                  ct_sink = 1; __asm__ __volatile__("" ::: "memory"); }
NOINLINE void vh_ct_end(void) { VALGRIND_DISABLE_ERROR_REPORTING; ct_sink = 2; __asm__ __volatile__("" ::: "memory"); }
#else
#define TAINT(ptr, len) do { (void)(ptr); } while (0)
#define CT_CTX_FLAGS SECP256K1_CONTEXT_NONE
NOINLINE void vh_ct_begin(void) { ct_sink = 1; __asm__ __volatile__("" ::: "memory"); }
NOINLINE void vh_ct_end(void) { ct_sink = 2; __asm__ __volatile__("" ::: "memory"); }
#endif
NOINLINE void vh_ct_declass(void) { ct_sink = 3; __asm__ __volatile__("" ::: "memory"); }

static unsigned char DECL[4096]; static size_t DECL_LEN = 0; static size_t DECL_N = 0; static size_t DECL_LENS[256];
static void ct_declassify_cb(const void *p, size_t len) {
    if (DECL_LEN + len <= sizeof(DECL) && DECL_N < 256) { memcpy(DECL + DECL_LEN, p, len); DECL_LEN += len; DECL_LENS[DECL_N++] = len; }
    vh_ct_declass();
}

static unsigned char PUBOUT[1024]; static size_t PUBOUT_LEN = 0;
static unsigned char PUBIN[2048]; static size_t PUBIN_LEN = 0;
/* public ARGUMENTS of the call under test (part of the comparison key) */
static void pubin_add(const void *p, size_t n) { if (PUBIN_LEN + n <= sizeof(PUBIN)) { memcpy(PUBIN + PUBIN_LEN, p, n); PUBIN_LEN += n; } }
static void pub_add(const void *p, size_t n) { if (PUBOUT_LEN + n <= sizeof(PUBOUT)) { memcpy(PUBOUT + PUBOUT_LEN, p, n); PUBOUT_LEN += n; } }

int main(int argc, char **argv) {
    secp256k1_context *ctx; FILE *f; const char *api; int var, ret = -1; size_t i;
    unsigned char msg[32], pubseed[32]; secp256k1_pubkey peer; secp256k1_keypair kp; secp256k1_pubkey pk;
    static const unsigned char peer_sk[32] = { 9,9,9,9,9,9,9,9,9,9,9,9,9,9,9,9,9,9,9,9,9,9,9,9,9,9,9,9,9,9,9,7 };
    if (argc < 5) return 2;
    api = argv[1]; var = atoi(argv[2]);
    f = fopen(argv[3], "rb"); if (!f || fread(SEC, 1, sizeof(SEC), f) != sizeof(SEC)) return 2; fclose(f);
    ctx = secp256k1_context_create(CT_CTX_FLAGS);
    memset(msg, 0x3c, 32); msg[0] = (unsigned char)var; memset(pubseed, 0x6b, 32);
    if (var & 1) { if (!secp256k1_context_randomize(ctx, pubseed)) return 2; }   /* public variation: randomized vs unrandomized context */
    if (var & 8) {   /* the context was randomized with a SECRET seed (as in src/ctime_tests.c): its blinding state is secret data.
                      * In taint mode the seed is undefined already here, so the definedness of every field of the blinding state
                      * (including the infinity flag of ge_offset) is whatever the library's own computation propagates. */
#ifdef VH_CT_TAINT
        VALGRIND_MAKE_MEM_UNDEFINED(SEC[3], 32);
#endif
        if (!secp256k1_context_randomize(ctx, SEC[3])) return 2;
    }
    if (!secp256k1_ec_pubkey_create(ctx, &peer, peer_sk)) return 2;
#ifdef SECP256K1_ZKP_VERIF
    secp256k1_verif_declassify_cb = ct_declassify_cb;   /* taint mode is built WITHOUT the hooks: the unmodified library is observed */
#endif

#define API(name) if (!strcmp(api, name))
    API("pubkey_create") { vh_ct_begin(); ret = secp256k1_ec_pubkey_create(ctx, &pk, SEC[0]); vh_ct_end(); pub_add(&pk, sizeof(pk)); }
    API("ecdsa_sign") { secp256k1_ecdsa_signature s; vh_ct_begin(); ret = secp256k1_ecdsa_sign(ctx, &s, msg, SEC[0], NULL, (var & 2) ? SEC[1] : NULL); vh_ct_end(); pub_add(&s, sizeof(s)); }
    API("ecdsa_sign_recoverable") { secp256k1_ecdsa_recoverable_signature s; vh_ct_begin(); ret = secp256k1_ecdsa_sign_recoverable(ctx, &s, msg, SEC[0], NULL, NULL); vh_ct_end(); pub_add(&s, sizeof(s)); }
    API("ecdh") { unsigned char o[32]; vh_ct_begin(); ret = secp256k1_ecdh(ctx, o, &peer, SEC[0], NULL, NULL); vh_ct_end(); }
    API("seckey_verify") { vh_ct_begin(); ret = secp256k1_ec_seckey_verify(ctx, SEC[0]); vh_ct_end(); }
    API("seckey_negate") { vh_ct_begin(); ret = secp256k1_ec_seckey_negate(ctx, SEC[0]); vh_ct_end(); }
    API("seckey_tweak_add") { vh_ct_begin(); ret = secp256k1_ec_seckey_tweak_add(ctx, SEC[0], SEC[1]); vh_ct_end(); }
    API("seckey_tweak_mul") { vh_ct_begin(); ret = secp256k1_ec_seckey_tweak_mul(ctx, SEC[0], SEC[1]); vh_ct_end(); }
    API("keypair_create") { vh_ct_begin(); ret = secp256k1_keypair_create(ctx, &kp, SEC[0]); vh_ct_end(); }
    API("keypair_xonly_tweak_add") { if (!secp256k1_keypair_create(ctx, &kp, SEC[0])) return 2; DECL_LEN = DECL_N = 0; TAINT(kp.data, 32); vh_ct_begin(); ret = secp256k1_keypair_xonly_tweak_add(ctx, &kp, msg); vh_ct_end(); }
    API("keypair_sec") { unsigned char o[32]; if (!secp256k1_keypair_create(ctx, &kp, SEC[0])) return 2; DECL_LEN = DECL_N = 0; TAINT(kp.data, 32); vh_ct_begin(); ret = secp256k1_keypair_sec(ctx, o, &kp); vh_ct_end(); }
    API("schnorrsig_sign") { unsigned char s[64]; if (!secp256k1_keypair_create(ctx, &kp, SEC[0])) return 2; DECL_LEN = DECL_N = 0; TAINT(kp.data, 32); vh_ct_begin(); ret = secp256k1_schnorrsig_sign32(ctx, s, msg, &kp, (var & 2) ? SEC[1] : NULL); vh_ct_end(); pub_add(s, 64); }
    API("ellswift_create") { unsigned char e[64]; vh_ct_begin(); ret = secp256k1_ellswift_create(ctx, e, SEC[0], (var & 2) ? pubseed : NULL); vh_ct_end(); } /* auxrnd32 is PUBLIC in the maintainers' inventory (src/ctime_tests.c passes defined bytes) */
    API("ellswift_xdh") { unsigned char e1[64], e2[64], o[32]; if (!secp256k1_ellswift_create(ctx, e1, peer_sk, NULL)) return 2; memcpy(e2, e1, 64); e2[5] ^= 1; DECL_LEN = DECL_N = 0;
        vh_ct_begin(); ret = secp256k1_ellswift_xdh(ctx, o, e1, e2, SEC[0], (var >> 1) & 1, secp256k1_ellswift_xdh_hash_function_bip324, NULL); vh_ct_end(); }
    API("s2c_sign") { secp256k1_ecdsa_signature s; secp256k1_ecdsa_s2c_opening op; vh_ct_begin(); ret = secp256k1_ecdsa_s2c_sign(ctx, &s, &op, msg, SEC[0], SEC[1]); vh_ct_end(); pub_add(&s, sizeof(s)); }
    API("anti_exfil_host_commit") { unsigned char c[32]; vh_ct_begin(); ret = secp256k1_ecdsa_anti_exfil_host_commit(ctx, c, SEC[1]); vh_ct_end(); }
    API("anti_exfil_signer_commit") { secp256k1_ecdsa_s2c_opening op; vh_ct_begin(); ret = secp256k1_ecdsa_anti_exfil_signer_commit(ctx, &op, msg, SEC[0], SEC[1]); vh_ct_end(); }
    API("adaptor_encrypt") { unsigned char a[162]; vh_ct_begin(); ret = secp256k1_ecdsa_adaptor_encrypt(ctx, a, SEC[0], &peer, msg, NULL, (var & 2) ? SEC[1] : NULL); vh_ct_end(); pub_add(a, 162); }
    API("adaptor_decrypt") { unsigned char a[162]; secp256k1_ecdsa_signature s; secp256k1_pubkey enc; unsigned char sk[32]; memset(sk, 0x17, 32);
        /* the adaptor signature is a PUBLIC argument: keep it fixed (made for the peer key) and vary only the secret decryption key */
        enc = peer; if (!secp256k1_ecdsa_adaptor_encrypt(ctx, a, sk, &enc, msg, NULL, NULL)) return 2; DECL_LEN = DECL_N = 0; pubin_add(a, 162);
        vh_ct_begin(); ret = secp256k1_ecdsa_adaptor_decrypt(ctx, &s, SEC[0], a); vh_ct_end(); }
    API("context_randomize") { vh_ct_begin(); ret = secp256k1_context_randomize(ctx, SEC[0]); vh_ct_end(); }
    API("musig_nonce_gen") { secp256k1_musig_secnonce sn; secp256k1_musig_pubnonce pn; unsigned char rnd[32]; memcpy(rnd, SEC[1], 32);
        if (!secp256k1_ec_pubkey_create(ctx, &pk, SEC[0])) return 2; DECL_LEN = DECL_N = 0; TAINT(rnd, 32);
        vh_ct_begin(); ret = secp256k1_musig_nonce_gen(ctx, &sn, &pn, rnd, SEC[0], &pk, msg, NULL, (var & 2) ? SEC[2] : NULL); vh_ct_end(); }
    API("musig_partial_sign") { secp256k1_musig_secnonce sn; secp256k1_musig_pubnonce pn, pn2, pn3; secp256k1_musig_secnonce sn2; unsigned char rnd[32], rnd2[32]; secp256k1_musig_keyagg_cache cache;
        const secp256k1_pubkey *pks[2]; const secp256k1_musig_pubnonce *pns[2]; secp256k1_musig_aggnonce agg; secp256k1_musig_session sess; secp256k1_musig_partial_sig ps; secp256k1_pubkey adaptor;
        /* the session is a PUBLIC argument: it is built from fixed public nonces only (partial_sign does not require it to contain the
         * signer's own nonce), so that runs with different secret nonces have identical public arguments */
        memcpy(rnd, SEC[1], 32);
        if (!secp256k1_keypair_create(ctx, &kp, SEC[0]) || !secp256k1_keypair_pub(ctx, &pk, &kp)) return 2;
        pks[0] = &pk; pks[1] = &peer; if (!secp256k1_musig_pubkey_agg(ctx, NULL, &cache, pks, (var & 2) ? 2 : 1)) return 2;
        if (!secp256k1_musig_nonce_gen(ctx, &sn, &pn, rnd, SEC[0], &pk, msg, &cache, NULL)) return 2;
        memset(rnd2, 0x44, 32); if (!secp256k1_musig_nonce_gen(ctx, &sn2, &pn2, rnd2, NULL, &peer, msg, NULL, NULL)) return 2;
        memset(rnd2, 0x45, 32); if (!secp256k1_musig_nonce_gen(ctx, &sn2, &pn3, rnd2, NULL, &peer, msg, NULL, NULL)) return 2;
        pns[0] = &pn2; pns[1] = &pn3; if (!secp256k1_musig_nonce_agg(ctx, &agg, pns, (var & 2) ? 2 : 1)) return 2;
        if (!secp256k1_ec_pubkey_create(ctx, &adaptor, peer_sk)) return 2;
        if (!secp256k1_musig_nonce_process(ctx, &sess, &agg, msg, &cache, (var & 4) ? &adaptor : NULL)) return 2; DECL_LEN = DECL_N = 0;
        pubin_add(&cache, sizeof(cache)); pubin_add(&sess, sizeof(sess)); TAINT(kp.data, 32); TAINT(sn.data + 4, 64);
        vh_ct_begin(); ret = secp256k1_musig_partial_sign(ctx, &ps, &sn, &kp, &cache, &sess); vh_ct_end(); pub_add(&ps, sizeof(ps)); }
    API("musig_adapt") { unsigned char sig[64], pre[64]; memset(pre, 0x21, 64); pre[32] = 0;
        vh_ct_begin(); ret = secp256k1_musig_adapt(ctx, sig, pre, SEC[0], var & 1); vh_ct_end(); }
#ifdef SECP256K1_ZKP_VERIF
    secp256k1_verif_declassify_cb = NULL;
#endif
    if (ret == -1) { fprintf(stderr, "ct_runner: unknown api %s\n", api); return 2; }

    f = fopen(argv[4], "w"); if (!f) return 2;
    fprintf(f, "{\"api\":\"%s\",\"var\":%d,\"ret\":%d,\"declass\":[", api, var, ret);
    { size_t off = 0; for (i = 0; i < DECL_N; i++) { size_t j; fprintf(f, "%s[", i ? "," : ""); for (j = 0; j < DECL_LENS[i]; j++) fprintf(f, "%s%u", j ? "," : "", DECL[off + j]); fprintf(f, "]"); off += DECL_LENS[i]; } }
    fprintf(f, "],\"pubin\":[");
    for (i = 0; i < PUBIN_LEN; i++) fprintf(f, "%s%u", i ? "," : "", PUBIN[i]);
    fprintf(f, "],\"pubout\":[");
    for (i = 0; i < PUBOUT_LEN; i++) fprintf(f, "%s%u", i ? "," : "", PUBOUT[i]);
    fprintf(f, "]}\n"); fclose(f);
    secp256k1_context_destroy(ctx);
    return 0;
}
