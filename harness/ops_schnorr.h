/* C02: BIP-340.  mode 0 = sign32, 1 = sign_custom(extraparams NULL), 2 = sign_custom(extraparams{NULL fn, aux}),
 * 3 = sign_custom with a nonce function returning the caller's 32 bytes ("nonce"), 4 = explicit bip340 fn pointer */
static unsigned char VH_MSG[200000];
typedef struct { unsigned char k[32]; int fail; } vh_snonce;
static int vh_schnorr_nonce_fn(unsigned char *nonce32, const unsigned char *msg, size_t msglen, const unsigned char *key32, const unsigned char *xonly_pk32, const unsigned char *algo, size_t algolen, void *data) {
    const vh_snonce *s = (const vh_snonce*)data; (void)msg; (void)msglen; (void)key32; (void)xonly_pk32; (void)algo; (void)algolen;
    if (s->fail) return 0;
    memcpy(nonce32, s->k, 32); return 1;
}
/* a caller-written nonce callback (mode 5) that first SIGNS something else with another keypair -- a second signing call in flight
 * inside the first one: results are a function of the arguments only -- and then delegates to the EXPORTED
 * secp256k1_nonce_function_bip340 */
static int vh_schnorr_delegating_fn(unsigned char *nonce32, const unsigned char *msg, size_t msglen, const unsigned char *key32, const unsigned char *xonly_pk32, const unsigned char *algo, size_t algolen, void *data) {
    static secp256k1_keypair vh_nest_kp; static int vh_nest_ready = 0; unsigned char k[32], m[32], tmp[64];
    if (!vh_nest_ready) { memset(k, 0x55, 32); vh_nest_ready = secp256k1_keypair_create(CTX, &vh_nest_kp, k); }
    memset(m, 0x66, 32);
    if (vh_nest_ready) (void)secp256k1_schnorrsig_sign32(CTX, tmp, m, &vh_nest_kp, NULL);
    return secp256k1_nonce_function_bip340(nonce32, msg, msglen, key32, xonly_pk32, algo, algolen, data);
}
/* the exported nonce function called directly */
static void op_SchnorrNonceFn(const jv *in, jout *out) {
    unsigned char key[32], pk[32], aux[32], algo[64], nonce[32]; int has_aux, ret; long alen, mlen = jv_bytes(in, "msg", VH_MSG, sizeof(VH_MSG));
    jv_need(in, "key", key, 32); jv_need(in, "pk", pk, 32);
    has_aux = jv_bytes(in, "aux", aux, 32) == 32; alen = jv_bytes(in, "algo", algo, sizeof(algo));
    memset(nonce, 0xAA, 32);
    ret = secp256k1_nonce_function_bip340(nonce, VH_MSG, (size_t)(mlen < 0 ? 0 : mlen), key, pk, alen < 0 ? NULL : algo, alen < 0 ? 0 : (size_t)alen, has_aux ? aux : NULL);
    jo_int(out, "ret", ret); if (ret) jo_bytes(out, "nonce", nonce, 32);
}
static void op_SchnorrSign(const jv *in, jout *out) {
    unsigned char key[32], aux[32], sig[64]; secp256k1_keypair kp; int kret, ret = 0, has_aux;
    long mode = jv_int(in, "mode", 0); long mlen = jv_bytes(in, "msg", VH_MSG, sizeof(VH_MSG));
    vh_snonce sn; secp256k1_schnorrsig_extraparams ep = SECP256K1_SCHNORRSIG_EXTRAPARAMS_INIT;
    jv_need(in, "key", key, 32);
    has_aux = jv_bytes(in, "aux", aux, 32) == 32;
    memset(sig, 0xAA, 64);
    kret = secp256k1_keypair_create(CTX, &kp, key);
    jo_int(out, "kret", kret);
    if (!kret) { jo_int(out, "ret", 0); return; }
    /* "alias": 1 = the auxiliary randomness is staged at sig[0..31], 2 = the message (at most 32 bytes) at sig[32..63] -- the buffer that
     * receives the signature (spec/api/Aliasing.tla); modes with a caller-written nonce function are left alone */
    { long al = jv_int(in, "alias", 0); const unsigned char *pa = has_aux ? aux : NULL; const unsigned char *pm = VH_MSG;
      if (al && mode != 3 && mode != 5) {
        if (al == 1 && has_aux) { memcpy(sig, aux, 32); pa = sig; }
        else if (al == 2 && mlen <= 32) { memcpy(sig + 32, VH_MSG, (size_t)mlen); pm = sig + 32; }
        if (mode == 0) ret = secp256k1_schnorrsig_sign32(CTX, sig, pm, &kp, pa);
        else if (mode == 1) ret = secp256k1_schnorrsig_sign_custom(CTX, sig, pm, (size_t)mlen, &kp, NULL);
        else { if (mode == 4) ep.noncefp = secp256k1_nonce_function_bip340; ep.ndata = (void*)pa; ret = secp256k1_schnorrsig_sign_custom(CTX, sig, pm, (size_t)mlen, &kp, &ep); }
        jo_int(out, "ret", ret); jo_bytes(out, "sig", sig, 64); return;
      } }
    if (mode == 0) ret = secp256k1_schnorrsig_sign32(CTX, sig, VH_MSG, &kp, has_aux ? aux : NULL);
    else if (mode == 1) ret = secp256k1_schnorrsig_sign_custom(CTX, sig, VH_MSG, (size_t)mlen, &kp, NULL);
    else if (mode == 2) { ep.ndata = has_aux ? aux : NULL; ret = secp256k1_schnorrsig_sign_custom(CTX, sig, VH_MSG, (size_t)mlen, &kp, &ep); }
    else if (mode == 4) { ep.noncefp = secp256k1_nonce_function_bip340; ep.ndata = has_aux ? aux : NULL; ret = secp256k1_schnorrsig_sign_custom(CTX, sig, VH_MSG, (size_t)mlen, &kp, &ep); }
    else if (mode == 5) { ep.noncefp = vh_schnorr_delegating_fn; ep.ndata = has_aux ? aux : NULL; ret = secp256k1_schnorrsig_sign_custom(CTX, sig, VH_MSG, (size_t)mlen, &kp, &ep); }
    else { sn.fail = jv_bytes(in, "nonce", sn.k, 32) != 32; ep.noncefp = vh_schnorr_nonce_fn; ep.ndata = &sn; ret = secp256k1_schnorrsig_sign_custom(CTX, sig, VH_MSG, (size_t)mlen, &kp, &ep); }
    jo_int(out, "ret", ret); jo_bytes(out, "sig", sig, 64);
}
static void op_SchnorrVerify(const jv *in, jout *out) {
    unsigned char sig[64], pk32[32]; secp256k1_xonly_pubkey pk; int pret;
    long mlen = jv_bytes(in, "msg", VH_MSG, sizeof(VH_MSG));
    jv_need(in, "sig", sig, 64); jv_need(in, "pk", pk32, 32);
    pret = secp256k1_xonly_pubkey_parse(CTX, &pk, pk32);
    jo_int(out, "pret", pret);
    jo_int(out, "ret", pret ? secp256k1_schnorrsig_verify(CTX, sig, VH_MSG, (size_t)mlen, &pk) : 0);
}
#define VH_OPS_SCHNORR \
    { "SchnorrSign", op_SchnorrSign }, { "SchnorrVerify", op_SchnorrVerify }, { "SchnorrNonceFn", op_SchnorrNonceFn },
