/* C18: ElligatorSwift.  Encodings travel as 64 bytes, public keys as 33-byte compressed encodings.
 * xdh hash: 0 = secp256k1_ellswift_xdh_hash_function_bip324, 1 = ..._prefix with "data" (64 bytes),
 * 2 = a caller-supplied callback returning the shared x (it also reports whether it saw ell_a64 / ell_b64 in the
 * order the caller passed them: "cba"/"cbb"), 3 = a caller-supplied callback that fails. */
typedef struct { const unsigned char *a, *b; int saw_a, saw_b, calls; } vh_es_cb;
static int vh_es_hash_x(unsigned char *output, const unsigned char *x32, const unsigned char *ell_a64, const unsigned char *ell_b64, void *data) {
    vh_es_cb *c = (vh_es_cb*)data;
    c->calls++; c->saw_a = !memcmp(ell_a64, c->a, 64); c->saw_b = !memcmp(ell_b64, c->b, 64);
    /* a caller's hash function may write its output buffer before it has finished reading its (const) inputs */
    { unsigned char t[32]; memset(output, 0xEE, 32); memcpy(t, x32, 32); memcpy(output, t, 32); }
    return 1;
}
static int vh_es_hash_fail(unsigned char *output, const unsigned char *x32, const unsigned char *ell_a64, const unsigned char *ell_b64, void *data) {
    (void)output; (void)x32; (void)ell_a64; (void)ell_b64; (void)data; return 0;
}
static int vh_es_xdh(unsigned char *res, const unsigned char *ea, const unsigned char *eb, const unsigned char *key, int party, long h, unsigned char *data64, vh_es_cb *cb) {
    cb->a = ea; cb->b = eb; cb->saw_a = cb->saw_b = cb->calls = 0;
    if (h == 0) return secp256k1_ellswift_xdh(CTX, res, ea, eb, key, party, secp256k1_ellswift_xdh_hash_function_bip324, NULL);
    if (h == 1) return secp256k1_ellswift_xdh(CTX, res, ea, eb, key, party, secp256k1_ellswift_xdh_hash_function_prefix, data64);
    if (h == 2) return secp256k1_ellswift_xdh(CTX, res, ea, eb, key, party, vh_es_hash_x, cb);
    return secp256k1_ellswift_xdh(CTX, res, ea, eb, key, party, vh_es_hash_fail, NULL);
}
static void op_EllswiftDecode(const jv *in, jout *out) {
    unsigned char ell[64]; secp256k1_pubkey pk; int ret;
    jv_need(in, "ell", ell, 64);
    memset(&pk, 0, sizeof(pk));
    ret = secp256k1_ellswift_decode(CTX, &pk, ell);
    jo_int(out, "ret", ret); vh_out_pk33(out, "pk", &pk);
}
static void op_EllswiftEncode(const jv *in, jout *out) {
    unsigned char rnd[32], ell[64]; secp256k1_pubkey pk; int pret, ret;
    jv_need(in, "rnd", rnd, 32);
    pret = vh_load_pk(in, "pk", &pk);
    jo_int(out, "pret", pret);
    if (!pret) return;
    memset(ell, 0xAA, 64);
    ret = secp256k1_ellswift_encode(CTX, ell, &pk, rnd);
    jo_int(out, "ret", ret); jo_bytes(out, "ell", ell, 64);
}
static void op_EllswiftCreate(const jv *in, jout *out) {
    unsigned char key[32], aux[32], ell[64]; int ret, has_aux;
    jv_need(in, "key", key, 32); has_aux = jv_bytes(in, "aux", aux, 32) == 32;
    memset(ell, 0xAA, 64);
    ret = secp256k1_ellswift_create(CTX, ell, key, has_aux ? aux : NULL);
    jo_int(out, "ret", ret); jo_bytes(out, "ell", ell, 64);
}
static void op_EllswiftXdh(const jv *in, jout *out) {
    unsigned char ea[64], eb[64], key[32], data[64], res[32]; vh_es_cb cb; int ret; long h = (long)jv_int(in, "hash", 0), party = (long)jv_int(in, "party", 0);
    jv_need(in, "ella", ea, 64); jv_need(in, "ellb", eb, 64); jv_need(in, "key", key, 32);
    memset(data, 0, 64); if (h == 1) jv_need(in, "data", data, 64);
    memset(res, 0xAA, 32);
    /* "alias": 1 = the shared secret overwrites the caller's secret-key buffer */
    if (jv_int(in, "alias", 0)) { ret = vh_es_xdh(key, ea, eb, key, (int)party, h, data, &cb); memcpy(res, key, 32); }
    else ret = vh_es_xdh(res, ea, eb, key, (int)party, h, data, &cb);
    jo_int(out, "ret", ret);
    if (ret) jo_bytes(out, "out", res, 32);
    if (h == 2) { jo_int(out, "cba", cb.saw_a); jo_int(out, "cbb", cb.saw_b); jo_int(out, "cbn", cb.calls); }
}
/* a whole exchange by the library: both parties create their encodings, each computes the shared secret in its role */
static void op_EllswiftXdhPair(const jv *in, jout *out) {
    unsigned char ska[32], skb[32], auxa[32], auxb[32], ea[64], eb[64], data[64], ra[32], rb[32]; vh_es_cb cb; int ca, cbr, reta, retb, ha, hb;
    long h = (long)jv_int(in, "hash", 0);
    jv_need(in, "ska", ska, 32); jv_need(in, "skb", skb, 32);
    ha = jv_bytes(in, "auxa", auxa, 32) == 32; hb = jv_bytes(in, "auxb", auxb, 32) == 32;
    memset(data, 0, 64); if (h == 1) jv_need(in, "data", data, 64);
    ca = secp256k1_ellswift_create(CTX, ea, ska, ha ? auxa : NULL);
    cbr = secp256k1_ellswift_create(CTX, eb, skb, hb ? auxb : NULL);
    jo_int(out, "ca", ca); jo_int(out, "cb", cbr);
    jo_bytes(out, "ella", ea, 64); jo_bytes(out, "ellb", eb, 64);
    if (!ca || !cbr) return;
    reta = vh_es_xdh(ra, ea, eb, ska, 0, h, data, &cb);
    retb = vh_es_xdh(rb, ea, eb, skb, 1, h, data, &cb);
    jo_int(out, "ra", reta); jo_int(out, "rb", retb);
    if (reta) jo_bytes(out, "outa", ra, 32);
    if (retb) jo_bytes(out, "outb", rb, 32);
}
#define VH_OPS_ELLSWIFT \
    { "EllswiftDecode", op_EllswiftDecode }, { "EllswiftEncode", op_EllswiftEncode }, { "EllswiftCreate", op_EllswiftCreate }, \
    { "EllswiftXdh", op_EllswiftXdh }, { "EllswiftXdhPair", op_EllswiftXdhPair },
