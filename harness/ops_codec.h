#define VH_OPS_CODEC
