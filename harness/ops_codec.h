/* C03: encodings.  The harness executes and logs; it never judges.
 * Signature objects are observed through secp256k1_ecdsa_signature_serialize_compact (64 bytes),
 * public-key objects through secp256k1_ec_pubkey_serialize in both formats. */
static unsigned char VH_CODEC_BUF[1 << 16];

/* optional "prev": a compact signature parsed into the object before the call under observation
 * (otherwise the object is filled with 0xAA), so that "the parser did not write the object" is visible */
static void vh_sig_prefill(const jv *in, secp256k1_ecdsa_signature *sig) {
    unsigned char prev[64];
    memset(sig, 0xAA, sizeof(*sig));
    if (jv_bytes(in, "prev", prev, 64) == 64) secp256k1_ecdsa_signature_parse_compact(CTX, sig, prev);
}
/* optional "msg" + "pk": verify the object left by the parser */
static void vh_sig_probe_verify(const jv *in, jout *out, const secp256k1_ecdsa_signature *sig) {
    unsigned char msg[32]; secp256k1_pubkey pk;
    if (jv_bytes(in, "msg", msg, 32) == 32 && jv_get(in, "pk") && vh_load_pk(in, "pk", &pk)) {
        jo_int(out, "vret", secp256k1_ecdsa_verify(CTX, sig, msg, &pk));
    }
}

static void op_PubkeyParse(const jv *in, jout *out) {
    secp256k1_pubkey pk; int ret; unsigned char b[80]; size_t l;
    long n = jv_bytes(in, "pub", VH_CODEC_BUF, sizeof(VH_CODEC_BUF));
    if (n < 0) n = 0;
    memset(&pk, 0xAA, sizeof(pk));
    ret = secp256k1_ec_pubkey_parse(CTX, &pk, VH_CODEC_BUF, (size_t)n);
    jo_int(out, "ret", ret);
    if (ret) {
        int r;
        l = 33; memset(b, 0xAA, sizeof(b)); r = secp256k1_ec_pubkey_serialize(CTX, b, &l, &pk, SECP256K1_EC_COMPRESSED);
        jo_int(out, "r33", r); jo_int(out, "l33", (long long)l); jo_bytes(out, "ser33", b, l <= 80 ? l : 0);
        l = 65; memset(b, 0xAA, sizeof(b)); r = secp256k1_ec_pubkey_serialize(CTX, b, &l, &pk, SECP256K1_EC_UNCOMPRESSED);
        jo_int(out, "r65", r); jo_int(out, "l65", (long long)l); jo_bytes(out, "ser65", b, l <= 80 ? l : 0);
    } else {
        jo_int(out, "zero", secp256k1_is_zero_array((unsigned char*)&pk, sizeof(pk)));
    }
}
/* buffer-length contract of the serializer: "pub" must be a valid encoding */
static void op_PubkeySerialize(const jv *in, jout *out) {
    secp256k1_pubkey pk; int pret, ret; unsigned char b[128]; size_t l = (size_t)jv_int(in, "cap", 65);
    long comp = jv_int(in, "comp", 1);
    pret = vh_load_pk(in, "pub", &pk);
    jo_int(out, "pret", pret);
    if (!pret || l > sizeof(b)) return;
    memset(b, 0xAA, sizeof(b));
    ret = secp256k1_ec_pubkey_serialize(CTX, b, &l, &pk, comp ? SECP256K1_EC_COMPRESSED : SECP256K1_EC_UNCOMPRESSED);
    jo_int(out, "ret", ret); jo_int(out, "outlen", (long long)l);
    if (ret) jo_bytes(out, "out", b, l <= sizeof(b) ? l : 0);
}
static void op_XonlyParse(const jv *in, jout *out) {
    secp256k1_xonly_pubkey xo; unsigned char x[32], o[32]; int ret;
    jv_need(in, "x", x, 32);
    memset(&xo, 0xAA, sizeof(xo));
    ret = secp256k1_xonly_pubkey_parse(CTX, &xo, x);
    jo_int(out, "ret", ret);
    if (ret) {
        memset(o, 0xAA, 32);
        jo_int(out, "sret", secp256k1_xonly_pubkey_serialize(CTX, o, &xo)); jo_bytes(out, "ser", o, 32);
    } else {
        jo_int(out, "zero", secp256k1_is_zero_array((unsigned char*)&xo, sizeof(xo)));
    }
}
static void op_DerParse(const jv *in, jout *out) {
    secp256k1_ecdsa_signature sig; unsigned char c[64], d[80]; size_t l = sizeof(d); int ret;
    long n = jv_bytes(in, "der", VH_CODEC_BUF, sizeof(VH_CODEC_BUF));
    if (n < 0) n = 0;
    vh_sig_prefill(in, &sig);
    ret = secp256k1_ecdsa_signature_parse_der(CTX, &sig, VH_CODEC_BUF, (size_t)n);
    jo_int(out, "ret", ret);
    secp256k1_ecdsa_signature_serialize_compact(CTX, c, &sig);
    jo_bytes(out, "sig", c, 64);
    if (ret) {
        memset(d, 0xAA, sizeof(d));
        jo_int(out, "rret", secp256k1_ecdsa_signature_serialize_der(CTX, d, &l, &sig));
        jo_bytes(out, "reser", d, l <= sizeof(d) ? l : 0);
    }
    vh_sig_probe_verify(in, out, &sig);
}
/* size negotiation: "sig" compact, "cap" = *outputlen on entry */
static void op_DerSerialize(const jv *in, jout *out) {
    secp256k1_ecdsa_signature sig; unsigned char c[64], d[128]; size_t l = (size_t)jv_int(in, "cap", 72); int pret, ret;
    size_t cap = l, i, touched = 0;
    jv_need(in, "sig", c, 64);
    pret = secp256k1_ecdsa_signature_parse_compact(CTX, &sig, c);
    jo_int(out, "pret", pret);
    if (cap > sizeof(d)) return;
    memset(d, 0xAA, sizeof(d));
    ret = secp256k1_ecdsa_signature_serialize_der(CTX, d, &l, &sig);
    jo_int(out, "ret", ret); jo_int(out, "outlen", (long long)l);
    if (ret) jo_bytes(out, "der", d, l <= sizeof(d) ? l : 0);
    for (i = cap; i < sizeof(d); i++) touched |= (d[i] != 0xAA);
    jo_int(out, "overrun", (long long)touched);      /* bytes beyond the announced buffer were written */
}
static void op_CompactParse(const jv *in, jout *out) {
    secp256k1_ecdsa_signature sig; unsigned char c[64], o[64]; int ret;
    jv_need(in, "sig", c, 64);
    vh_sig_prefill(in, &sig);
    ret = secp256k1_ecdsa_signature_parse_compact(CTX, &sig, c);
    jo_int(out, "ret", ret);
    memset(o, 0xAA, 64);
    jo_int(out, "sret", secp256k1_ecdsa_signature_serialize_compact(CTX, o, &sig));
    jo_bytes(out, "sig", o, 64);
    vh_sig_probe_verify(in, out, &sig);
}
static void op_RecCompactParse(const jv *in, jout *out) {
    secp256k1_ecdsa_recoverable_signature rs; secp256k1_ecdsa_signature cs; unsigned char c[64], o[64]; int ret, recid = -7;
    long rid = jv_int(in, "recid", 0);
    jv_need(in, "sig", c, 64);
    memset(&rs, 0, sizeof(rs));
    ret = secp256k1_ecdsa_recoverable_signature_parse_compact(CTX, &rs, c, (int)rid);
    jo_int(out, "ret", ret);
    if (ret) {
        memset(o, 0xAA, 64);
        secp256k1_ecdsa_recoverable_signature_serialize_compact(CTX, o, &recid, &rs);
        jo_bytes(out, "sig", o, 64); jo_int(out, "recid", recid);
        secp256k1_ecdsa_recoverable_signature_convert(CTX, &cs, &rs);
        secp256k1_ecdsa_signature_serialize_compact(CTX, o, &cs);
        jo_bytes(out, "conv", o, 64);
    }
}
#define VH_OPS_CODEC \
    { "PubkeyParse", op_PubkeyParse }, { "PubkeySerialize", op_PubkeySerialize }, { "XonlyParse", op_XonlyParse }, \
    { "DerParse", op_DerParse }, { "DerSerialize", op_DerSerialize }, { "CompactParse", op_CompactParse }, \
    { "RecCompactParse", op_RecCompactParse },
