/* C08: Pedersen commitments and generators (group "pedersen").
 * Generators travel as their 33-byte serialization (prefix 10/11), commitments as 33 bytes (prefix 8/9),
 * uint64 values as 8 big-endian bytes, lists as arrays of byte arrays. */
#define VH_PED_MAX 80
static uint64_t vh_u64_v(const jv *v) {
    unsigned char b[8]; uint64_t r = 0; int i;
    if (jv_bytes_v(v, b, 8) != 8) { fprintf(stderr, "vh: uint64 must have 8 bytes\n"); exit(3); }
    for (i = 0; i < 8; i++) r = (r << 8) | b[i];
    return r;
}
static size_t vh_list_len(const jv *in, const char *key) { const jv *a = jv_get(in, key); return a ? a->n : 0; }
/* copy list element idx (a byte array of exactly len bytes) */
static void vh_list_bytes(const jv *in, const char *key, size_t idx, unsigned char *buf, size_t len) {
    if (jv_bytes_v(jv_elem(jv_get(in, key), idx), buf, len) != (long)len) { fprintf(stderr, "vh: %s[%lu] must have %lu bytes\n", key, (unsigned long)idx, (unsigned long)len); exit(3); }
}
static void vh_out_gen(jout *out, const char *key, const secp256k1_generator *g) {
    unsigned char b[33]; secp256k1_generator_serialize(CTX, b, g); jo_bytes(out, key, b, 33);
}
static void vh_list_begin(jout *o, const char *k) { jo_key(o, k); jo_raw(o, "[", 1); }
static void vh_list_item(jout *o, int first, const unsigned char *b, size_t n) { if (!first) jo_raw(o, ",", 1); jo_bytes_raw(o, b, n); }
static void vh_list_end(jout *o) { jo_raw(o, "]", 1); }

/* the static generator h */
static void op_GenH(const jv *in, jout *out) { (void)in; vh_out_gen(out, "gen", secp256k1_generator_h); }

/* generator_generate / generate_blinded (blind present); called twice: "same" = both results identical */
static void op_GenGenerate(const jv *in, jout *out) {
    unsigned char seed[32], blind[32]; secp256k1_generator g, g2; int ret, ret2, hb;
    jv_need(in, "seed", seed, 32); hb = jv_bytes(in, "blind", blind, 32) == 32;
    memset(&g, 0xAA, sizeof(g)); memset(&g2, 0x55, sizeof(g2));
    if (hb) { ret = secp256k1_generator_generate_blinded(CTX, &g, seed, blind); ret2 = secp256k1_generator_generate_blinded(CTX, &g2, seed, blind); }
    else { ret = secp256k1_generator_generate(CTX, &g, seed); ret2 = secp256k1_generator_generate(CTX, &g2, seed); }
    jo_int(out, "ret", ret);
    if (ret) { vh_out_gen(out, "gen", &g); jo_int(out, "same", ret2 == ret && memcmp(&g, &g2, sizeof(g)) == 0); }
}
/* internal probe: the Shallue-van de Woestijne map on a field element t (32 bytes, < p) */
static void op_PedSvdw(const jv *in, jout *out) {
    unsigned char t32[32], b[32]; secp256k1_fe t; secp256k1_ge ge; int ok;
    jv_need(in, "t", t32, 32);
    ok = secp256k1_fe_set_b32_limit(&t, t32);
    jo_int(out, "ok", ok);
    if (!ok) return;
    shallue_van_de_woestijne(&ge, &t);
    secp256k1_fe_normalize_var(&ge.x); secp256k1_fe_normalize_var(&ge.y);
    secp256k1_fe_get_b32(b, &ge.x); jo_bytes(out, "x", b, 32);
    secp256k1_fe_get_b32(b, &ge.y); jo_bytes(out, "y", b, 32);
}
static void op_GenParse(const jv *in, jout *out) {
    unsigned char b[33]; secp256k1_generator g; int ret;
    jv_need(in, "b", b, 33);
    ret = secp256k1_generator_parse(CTX, &g, b);
    jo_int(out, "ret", ret);
    if (ret) vh_out_gen(out, "ser", &g);
}
static void op_CommitParse(const jv *in, jout *out) {
    unsigned char b[33], s[33]; secp256k1_pedersen_commitment c; int ret;
    jv_need(in, "b", b, 33);
    ret = secp256k1_pedersen_commitment_parse(CTX, &c, b);
    jo_int(out, "ret", ret);
    if (ret) { jo_int(out, "sret", secp256k1_pedersen_commitment_serialize(CTX, s, &c)); jo_bytes(out, "ser", s, 33); }
}
/* pedersen_commit: generator = "gen" (33 bytes, through generator_parse) or, with genh = 1, the static secp256k1_generator_h */
static void op_PedCommit(const jv *in, jout *out) {
    unsigned char blind[32], gb[33], s[33]; secp256k1_generator g; const secp256k1_generator *gp = &g;
    secp256k1_pedersen_commitment c; int gret = 1, ret; uint64_t v;
    jv_need(in, "blind", blind, 32); v = vh_u64_v(jv_get(in, "value"));
    if (jv_int(in, "genh", 0)) gp = secp256k1_generator_h;
    else { jv_need(in, "gen", gb, 33); gret = secp256k1_generator_parse(CTX, &g, gb); }
    jo_int(out, "gret", gret);
    if (!gret) return;
    memset(&c, 0xAA, sizeof(c));
    ret = secp256k1_pedersen_commit(CTX, &c, blind, v, gp);
    jo_int(out, "ret", ret);
    if (ret) { secp256k1_pedersen_commitment_serialize(CTX, s, &c); jo_bytes(out, "commit", s, 33); }
}
static secp256k1_pedersen_commitment VH_PC[2][VH_PED_MAX]; static const secp256k1_pedersen_commitment *VH_PCP[2][VH_PED_MAX];
/* verify_tally over parsed commitments; nullp = 1: pass NULL for an empty list */
static void op_PedTally(const jv *in, jout *out) {
    static const char *keys[2] = { "pos", "neg" }; size_t cnt[2], i; int s, pret = 1; unsigned char b[33];
    long nullp = jv_int(in, "nullp", 0);
    for (s = 0; s < 2; s++) {
        cnt[s] = vh_list_len(in, keys[s]);
        if (cnt[s] > VH_PED_MAX) { fprintf(stderr, "vh: list too long\n"); exit(3); }
        for (i = 0; i < cnt[s]; i++) {
            vh_list_bytes(in, keys[s], i, b, 33);
            pret &= secp256k1_pedersen_commitment_parse(CTX, &VH_PC[s][i], b);
            VH_PCP[s][i] = &VH_PC[s][i];
        }
    }
    jo_int(out, "pret", pret);
    if (!pret) return;
    jo_int(out, "ret", secp256k1_pedersen_verify_tally(CTX, (cnt[0] || !nullp) ? VH_PCP[0] : NULL, cnt[0], (cnt[1] || !nullp) ? VH_PCP[1] : NULL, cnt[1]));
}
static unsigned char VH_BL[3][VH_PED_MAX][32]; static const unsigned char *VH_BLP[3][VH_PED_MAX]; static unsigned char *VH_BLW[VH_PED_MAX];
static size_t vh_load_blinds(const jv *in, const char *key, int slot) {
    size_t n = vh_list_len(in, key), i;
    if (n > VH_PED_MAX) { fprintf(stderr, "vh: list too long\n"); exit(3); }
    for (i = 0; i < n; i++) { vh_list_bytes(in, key, i, VH_BL[slot][i], 32); VH_BLP[slot][i] = VH_BL[slot][i]; }
    return n;
}
static void op_PedBlindSum(const jv *in, jout *out) {
    unsigned char sum[32], *dst = sum; size_t n = vh_load_blinds(in, "blinds", 0); int ret;
    memset(sum, 0xAA, 32);
    /* "alias": 1 = the output is the buffer of the FIRST input blind (the running-total idiom; the header does not forbid it) */
    if (jv_int(in, "alias", 0) && n > 0) dst = (unsigned char*)VH_BLP[0][0];
    ret = secp256k1_pedersen_blind_sum(CTX, dst, VH_BLP[0], n, (size_t)jv_int(in, "npos", 0));
    jo_int(out, "ret", ret);
    if (ret) jo_bytes(out, "sum", dst, 32);
}
static uint64_t VH_VAL[VH_PED_MAX];
static void op_PedBlindGenSum(const jv *in, jout *out) {
    size_t n = vh_list_len(in, "values"), i; int ret;
    if (n > VH_PED_MAX || vh_load_blinds(in, "gblinds", 0) != n || vh_load_blinds(in, "blinds", 1) != n) { fprintf(stderr, "vh: PedBlindGenSum list lengths\n"); exit(3); }
    for (i = 0; i < n; i++) { VH_VAL[i] = vh_u64_v(jv_elem(jv_get(in, "values"), i)); VH_BLW[i] = VH_BL[1][i]; }
    ret = secp256k1_pedersen_blind_generator_blind_sum(CTX, VH_VAL, VH_BLP[0], VH_BLW, n, (size_t)jv_int(in, "nin", 0));
    jo_int(out, "ret", ret);
    if (ret && n) jo_bytes(out, "last", VH_BL[1][n - 1], 32);
}
/* A whole balancing flow through the public API.  in: gens (list of 33-byte generators), gi (generator index per
 * item, 0-based), values (8 bytes each), blinds, npos, mode.
 *   mode 0: n items, blinds has n-1 entries; the first npos items are positive, the rest negative (npos <= n-1);
 *           the last blind = blind_sum(blinds, n-1, npos)
 *   mode 1: blinds has n entries, gblinds one entry per generator; the first npos items are inputs;
 *           blind_generator_blind_sum(values, gblinds[gi], blinds, n, npos) adjusts the last blind
 * then commit every item and verify_tally(first npos | rest) and with the sides exchanged.
 * out: gret, bsret, last, cret (list of ints), commits (list; empty array for a failed creation), ret, rret */
static void op_PedFlow(const jv *in, jout *out) {
    secp256k1_generator gens[8]; unsigned char b33[33]; size_t k = vh_list_len(in, "gens"), n = vh_list_len(in, "values"), i, npos = (size_t)jv_int(in, "npos", 0);
    long mode = jv_int(in, "mode", 0); int gret = 1, bsret, allc = 1; size_t gi[VH_PED_MAX]; int cret[VH_PED_MAX];
    if (k > 8 || n > VH_PED_MAX || n == 0 || vh_list_len(in, "gi") != n) { fprintf(stderr, "vh: PedFlow shape\n"); exit(3); }
    for (i = 0; i < k; i++) { vh_list_bytes(in, "gens", i, b33, 33); gret &= secp256k1_generator_parse(CTX, &gens[i], b33); }
    jo_int(out, "gret", gret);
    if (!gret) return;
    for (i = 0; i < n; i++) { gi[i] = (size_t)jv_elem(jv_get(in, "gi"), i)->i; VH_VAL[i] = vh_u64_v(jv_elem(jv_get(in, "values"), i)); if (gi[i] >= k) { fprintf(stderr, "vh: PedFlow gi\n"); exit(3); } }
    if (mode == 0) {
        if (vh_load_blinds(in, "blinds", 1) != n - 1) { fprintf(stderr, "vh: PedFlow blinds\n"); exit(3); }
        bsret = secp256k1_pedersen_blind_sum(CTX, VH_BL[1][n - 1], VH_BLP[1], n - 1, npos);
    } else {
        if (vh_load_blinds(in, "blinds", 1) != n || vh_load_blinds(in, "gblinds", 2) != k) { fprintf(stderr, "vh: PedFlow blinds\n"); exit(3); }
        for (i = 0; i < n; i++) { VH_BLP[0][i] = VH_BL[2][gi[i]]; VH_BLW[i] = VH_BL[1][i]; }
        bsret = secp256k1_pedersen_blind_generator_blind_sum(CTX, VH_VAL, VH_BLP[0], VH_BLW, n, npos);
    }
    jo_int(out, "bsret", bsret);
    if (!bsret) return;
    jo_bytes(out, "last", VH_BL[1][n - 1], 32);
    for (i = 0; i < n; i++) { cret[i] = secp256k1_pedersen_commit(CTX, &VH_PC[0][i], VH_BL[1][i], VH_VAL[i], &gens[gi[i]]); allc &= cret[i]; VH_PCP[0][i] = &VH_PC[0][i]; }
    vh_list_begin(out, "cret");
    for (i = 0; i < n; i++) { char t[8]; sprintf(t, i ? ",%d" : "%d", cret[i]); jo_str(out, t); }
    vh_list_end(out);
    vh_list_begin(out, "commits");
    for (i = 0; i < n; i++) { if (cret[i]) secp256k1_pedersen_commitment_serialize(CTX, b33, &VH_PC[0][i]); vh_list_item(out, i == 0, b33, cret[i] ? 33 : 0); }
    vh_list_end(out);
    if (!allc) return;
    jo_int(out, "ret", secp256k1_pedersen_verify_tally(CTX, VH_PCP[0], npos, VH_PCP[0] + npos, n - npos));
    jo_int(out, "rret", secp256k1_pedersen_verify_tally(CTX, VH_PCP[0] + npos, n - npos, VH_PCP[0], npos));
}
#define VH_OPS_PEDERSEN \
    { "GenH", op_GenH }, { "GenGenerate", op_GenGenerate }, { "PedSvdw", op_PedSvdw }, { "GenParse", op_GenParse }, \
    { "CommitParse", op_CommitParse }, { "PedCommit", op_PedCommit }, { "PedTally", op_PedTally }, \
    { "PedBlindSum", op_PedBlindSum }, { "PedBlindGenSum", op_PedBlindGenSum }, { "PedFlow", op_PedFlow },
