/* C05: the arithmetic and hashing kernel.  Every op calls the INTERNAL routines of the library (this
 * translation unit includes secp256k1.c) on the operands of the call record and logs what they return.
 * A missing internal symbol (renamed by a refactor) makes this file fail to compile: that is an
 * infrastructure error of the check, never a violation.
 *
 * Conventions: field elements and scalars travel as 32 big-endian bytes; a point is [inf, x32, y32]
 * ([1,[],[]] = infinity); "z" arguments are the Jacobian z the harness rescales an affine input with;
 * "mg" = 1 inflates the coordinates of the inputs to the maximal magnitudes group.h permits. */

/* ------------------------------------------------------------------------------------------------ */
/* small writers for nested values */
static void k_sep(jout *o, int *first) { if (!*first) jo_raw(o, ",", 1); *first = 0; }
static void k_int_raw(jout *o, long long v) { char t[32]; sprintf(t, "%lld", v); jo_str(o, t); }
static const jv *k_at(const jv *arr, size_t i) { return jv_elem(arr, i); }
static long long k_int_at(const jv *arr, size_t i, long long d) { const jv *e = jv_elem(arr, i); return (e && e->t == JV_INT) ? e->i : d; }
static void k_need_v(const jv *v, unsigned char *buf, size_t len, const char *what) {
    if (jv_bytes_v(v, buf, len) != (long)len) { fprintf(stderr, "vh: %s must have %lu bytes\n", what, (unsigned long)len); exit(3); }
}

static void k_fe_load(secp256k1_fe *r, const unsigned char *b32) { secp256k1_fe_set_b32_mod(r, b32); }
static void k_fe_bytes(unsigned char *b32, const secp256k1_fe *a) { secp256k1_fe t = *a; secp256k1_fe_normalize(&t); secp256k1_fe_get_b32(b32, &t); }
static void k_fe_out(jout *o, const char *key, const secp256k1_fe *a) { unsigned char b[32]; k_fe_bytes(b, a); jo_bytes(o, key, b, 32); }
static int k_fe_in(const jv *in, const char *key, secp256k1_fe *r) {
    unsigned char b[32]; if (jv_bytes(in, key, b, 32) != 32) return 0; k_fe_load(r, b); return 1;
}
static int k_sc_in(const jv *in, const char *key, secp256k1_scalar *r) {
    unsigned char b[32]; if (jv_bytes(in, key, b, 32) != 32) return 0; secp256k1_scalar_set_b32(r, b, NULL); return 1;
}
static void k_sc_out(jout *o, const char *key, const secp256k1_scalar *a) { unsigned char b[32]; secp256k1_scalar_get_b32(b, a); jo_bytes(o, key, b, 32); }

/* value-preserving magnitude inflation: x -> x + (-x) + x (magnitude 4), y -> -(-y) (magnitude 3) */
static void k_fe_mag4(secp256k1_fe *x) { secp256k1_fe n, x0; secp256k1_fe_normalize_weak(x); x0 = *x; secp256k1_fe_negate(&n, x, 1); secp256k1_fe_add(x, &n); secp256k1_fe_add(x, &x0); }
static void k_fe_mag3(secp256k1_fe *y) { secp256k1_fe n; secp256k1_fe_normalize_weak(y); secp256k1_fe_negate(&n, y, 1); secp256k1_fe_negate(y, &n, 2); }

/* point [inf, x, y] -> affine */
static void k_ge_in(const jv *pt, secp256k1_ge *r, int mg) {
    unsigned char b[32]; secp256k1_fe x, y;
    if (!pt || pt->t != JV_ARR) { fprintf(stderr, "vh: point expected\n"); exit(3); }
    if (k_int_at(pt, 0, 0)) { secp256k1_ge_set_infinity(r); return; }
    k_need_v(k_at(pt, 1), b, 32, "point x"); k_fe_load(&x, b);
    k_need_v(k_at(pt, 2), b, 32, "point y"); k_fe_load(&y, b);
    if (mg) { k_fe_mag4(&x); k_fe_mag3(&y); }
    r->x = x; r->y = y; r->infinity = 0;
}
/* point [inf, x, y] with Jacobian z -> (x z^2, y z^3, z) */
static void k_gej_in(const jv *pt, const jv *zv, secp256k1_gej *r, int mg) {
    unsigned char b[32]; secp256k1_fe x, y, z, z2, z3;
    if (!pt || pt->t != JV_ARR) { fprintf(stderr, "vh: point expected\n"); exit(3); }
    if (k_int_at(pt, 0, 0)) { secp256k1_gej_set_infinity(r); return; }
    k_need_v(k_at(pt, 1), b, 32, "point x"); k_fe_load(&x, b);
    k_need_v(k_at(pt, 2), b, 32, "point y"); k_fe_load(&y, b);
    if (zv && zv->t == JV_ARR && zv->n == 32) { jv_bytes_v(zv, b, 32); k_fe_load(&z, b); } else { secp256k1_fe_set_int(&z, 1); }
    secp256k1_fe_sqr(&z2, &z); secp256k1_fe_mul(&z3, &z2, &z);
    secp256k1_fe_mul(&r->x, &x, &z2); secp256k1_fe_mul(&r->y, &y, &z3); r->z = z; r->infinity = 0;
    if (mg) { k_fe_mag4(&r->x); k_fe_mag4(&r->y); }
}
static void k_pt_raw(jout *o, const secp256k1_ge *g) {
    unsigned char b[32];
    if (g->infinity) { jo_str(o, "[1,[],[]]"); return; }
    jo_str(o, "[0,"); k_fe_bytes(b, &g->x); jo_bytes_raw(o, b, 32); jo_raw(o, ",", 1);
    k_fe_bytes(b, &g->y); jo_bytes_raw(o, b, 32); jo_raw(o, "]", 1);
}
static void k_ge_out(jout *o, const char *key, const secp256k1_ge *g) { jo_key(o, key); k_pt_raw(o, g); }
static void k_gej_to_ge(secp256k1_ge *g, const secp256k1_gej *a) {
    secp256k1_gej t = *a;
    if (t.infinity) { secp256k1_ge_set_infinity(g); return; }
    secp256k1_ge_set_gej_var(g, &t);
}
static void k_gej_out(jout *o, const char *key, const secp256k1_gej *a) { secp256k1_ge g; k_gej_to_ge(&g, a); k_ge_out(o, key, &g); }

/* ------------------------------------------------------------------------------------------------ */
/* Part 1: the field API as a register machine.  in: init = list of 32-byte patterns (loaded with
 * set_b32_mod), ops = list of [name, r, a, b, k].  After every step: normalized value of the written
 * register ("val"), return value ("ret"), and on VERIFY builds its magnitude / normalized fields. */
#define KF_NR 4
static jout KF_VAL, KF_RET, KF_MAG, KF_NRM;
static void op_KFeSeq(const jv *in, jout *out) {
    secp256k1_fe R[KF_NR], S[KF_NR]; const jv *init = jv_get(in, "init"), *ops = jv_get(in, "ops"), *c, *op;
    int nr = 0, f1 = 1, f2 = 1, f3 = 1, f4 = 1, i;
    unsigned char b32[32];
    KF_VAL.len = KF_RET.len = KF_MAG.len = KF_NRM.len = 0;
    jo_raw(&KF_VAL, "[", 1); jo_raw(&KF_RET, "[", 1); jo_raw(&KF_MAG, "[", 1); jo_raw(&KF_NRM, "[", 1);
    for (i = 0; i < KF_NR; i++) { secp256k1_fe_set_int(&R[i], 0); S[i] = R[i]; }
    for (c = init ? init->child : NULL; c && nr < KF_NR; c = c->next) { k_need_v(c, b32, 32, "init"); secp256k1_fe_set_b32_mod(&R[nr], b32); nr++; }
    for (op = ops ? ops->child : NULL; op; op = op->next) {
        const jv *nm = k_at(op, 0), *kv = k_at(op, 4);
        int r = (int)k_int_at(op, 1, 0), a = (int)k_int_at(op, 2, 0), b = (int)k_int_at(op, 3, 0), k = (int)k_int_at(op, 4, 0);
        int dst = -1, rv = 0, hasbytes = 0;
        if (r < 0 || r >= KF_NR || a < 0 || a >= KF_NR || b < 0 || b >= KF_NR) { fprintf(stderr, "vh: bad register\n"); exit(3); }
        if (jv_is(nm, "normalize")) { secp256k1_fe_normalize(&R[r]); dst = r; }
        else if (jv_is(nm, "normalize_weak")) { secp256k1_fe_normalize_weak(&R[r]); dst = r; }
        else if (jv_is(nm, "normalize_var")) { secp256k1_fe_normalize_var(&R[r]); dst = r; }
        else if (jv_is(nm, "negate")) { secp256k1_fe_negate_unchecked(&R[r], &R[a], k); dst = r; }
        else if (jv_is(nm, "add")) { secp256k1_fe_add(&R[r], &R[a]); dst = r; }
        else if (jv_is(nm, "add_int")) { secp256k1_fe_add_int(&R[r], k); dst = r; }
        else if (jv_is(nm, "mul_int")) { secp256k1_fe_mul_int_unchecked(&R[r], k); dst = r; }
        else if (jv_is(nm, "mul")) { secp256k1_fe_mul(&R[r], &R[a], &R[b]); dst = r; }
        else if (jv_is(nm, "sqr")) { secp256k1_fe_sqr(&R[r], &R[a]); dst = r; }
        else if (jv_is(nm, "half")) { secp256k1_fe_half(&R[r]); dst = r; }
        else if (jv_is(nm, "inv")) { secp256k1_fe_inv(&R[r], &R[a]); dst = r; }
        else if (jv_is(nm, "inv_var")) { secp256k1_fe_inv_var(&R[r], &R[a]); dst = r; }
        else if (jv_is(nm, "sqrt")) { rv = secp256k1_fe_sqrt(&R[r], &R[a]); dst = r; }
        else if (jv_is(nm, "cmov")) { secp256k1_fe_cmov(&R[r], &R[a], k); dst = r; }
        else if (jv_is(nm, "set_int")) { secp256k1_fe_set_int(&R[r], k); dst = r; }
        else if (jv_is(nm, "set_b32_mod")) { k_need_v(kv, b32, 32, "set_b32_mod"); secp256k1_fe_set_b32_mod(&R[r], b32); dst = r; }
        else if (jv_is(nm, "set_b32_limit")) { k_need_v(kv, b32, 32, "set_b32_limit"); rv = secp256k1_fe_set_b32_limit(&R[r], b32); dst = rv ? r : -2; }
        else if (jv_is(nm, "stor")) { secp256k1_fe_storage st, st2; secp256k1_fe_to_storage(&st, &R[a]); memset(&st2, 0x5a, sizeof(st2));
                                      secp256k1_fe_storage_cmov(&st2, &st, 1); secp256k1_fe_storage_cmov(&st2, &st, 0); secp256k1_fe_from_storage(&R[r], &st2); dst = r; }
        else if (jv_is(nm, "get_bounds")) { secp256k1_fe_get_bounds(&R[r], k); dst = r; }
        else if (jv_is(nm, "get_b32")) { secp256k1_fe_get_b32(b32, &R[a]); hasbytes = 1; }
        else if (jv_is(nm, "is_zero")) rv = secp256k1_fe_is_zero(&R[a]);
        else if (jv_is(nm, "is_odd")) rv = secp256k1_fe_is_odd(&R[a]);
        else if (jv_is(nm, "equal")) rv = secp256k1_fe_equal(&R[a], &R[b]);
        else if (jv_is(nm, "cmp_var")) rv = secp256k1_fe_cmp_var(&R[a], &R[b]);
        else if (jv_is(nm, "normalizes_to_zero")) rv = secp256k1_fe_normalizes_to_zero(&R[a]);
        else if (jv_is(nm, "normalizes_to_zero_var")) rv = secp256k1_fe_normalizes_to_zero_var(&R[a]);
        else if (jv_is(nm, "is_square_var")) rv = secp256k1_fe_is_square_var(&R[a]);
        else if (jv_is(nm, "snap")) { for (i = 0; i < KF_NR; i++) S[i] = R[i]; }          /* harness bookkeeping, not an API call */
        else if (jv_is(nm, "back")) { for (i = 0; i < KF_NR; i++) R[i] = S[i]; }
        else { fprintf(stderr, "vh: unknown field op\n"); exit(3); }
        k_sep(&KF_VAL, &f1); k_sep(&KF_RET, &f2); k_sep(&KF_MAG, &f3); k_sep(&KF_NRM, &f4);
        if (dst >= 0) { k_fe_bytes(b32, &R[dst]); jo_bytes_raw(&KF_VAL, b32, 32); }
        else if (hasbytes) jo_bytes_raw(&KF_VAL, b32, 32);
        else jo_str(&KF_VAL, "[]");
        k_int_raw(&KF_RET, rv);
#ifdef VERIFY
        if (dst >= 0) { k_int_raw(&KF_MAG, R[dst].magnitude); k_int_raw(&KF_NRM, R[dst].normalized); }
        else if (dst == -2) { k_int_raw(&KF_MAG, R[r].magnitude < 0 ? -1 : R[r].magnitude); k_int_raw(&KF_NRM, 0); }
        else { k_int_raw(&KF_MAG, 0); k_int_raw(&KF_NRM, 0); }
#else
        k_int_raw(&KF_MAG, 0); k_int_raw(&KF_NRM, 0);
#endif
    }
    jo_raw(&KF_VAL, "]", 1); jo_raw(&KF_RET, "]", 1); jo_raw(&KF_MAG, "]", 1); jo_raw(&KF_NRM, "]", 1);
    jo_key(out, "val"); jo_raw(out, KF_VAL.b, KF_VAL.len);
    jo_key(out, "ret"); jo_raw(out, KF_RET.b, KF_RET.len);
#ifdef VERIFY
    jo_key(out, "mag"); jo_raw(out, KF_MAG.b, KF_MAG.len);
    jo_key(out, "nrm"); jo_raw(out, KF_NRM.b, KF_NRM.len);
#endif
}

/* ------------------------------------------------------------------------------------------------ */
/* Part 2: scalars.  in: op, a, b (32 bytes, reduced by set_b32), k (bit / shift / count), f (flag / offset) */
static void op_KScalar(const jv *in, jout *out) {
    const jv *op = jv_get(in, "op"); unsigned char ab[32], bb[32], o32[32]; secp256k1_scalar a, b, r, r2; int ovf = 0;
    int k = (int)jv_int(in, "k", 0), f = (int)jv_int(in, "f", 0);
    memset(ab, 0, 32); memset(bb, 0, 32);
    jv_bytes(in, "a", ab, 32); jv_bytes(in, "b", bb, 32);
    secp256k1_scalar_set_b32(&a, ab, &ovf); secp256k1_scalar_set_b32(&b, bb, NULL);
    if (jv_is(op, "set_b32")) { jo_int(out, "ovf", ovf != 0); k_sc_out(out, "r", &a); }
    else if (jv_is(op, "set_b32_seckey")) { jo_int(out, "ret", secp256k1_scalar_set_b32_seckey(&r, ab)); }
    else if (jv_is(op, "set_u64")) { uint64_t v = 0; int i; for (i = 24; i < 32; i++) v = (v << 8) | ab[i]; secp256k1_scalar_set_u64(&r, v); k_sc_out(out, "r", &r); }
    else if (jv_is(op, "set_int")) { secp256k1_scalar_set_int(&r, (unsigned int)k); k_sc_out(out, "r", &r); }
    else if (jv_is(op, "add")) { int rv = secp256k1_scalar_add(&r, &a, &b); jo_int(out, "ret", rv); k_sc_out(out, "r", &r); }
    else if (jv_is(op, "mul")) { secp256k1_scalar_mul(&r, &a, &b); k_sc_out(out, "r", &r); }
    else if (jv_is(op, "sqr")) { secp256k1_scalar_sqr(&r, &a); k_sc_out(out, "r", &r); }
    else if (jv_is(op, "negate")) { secp256k1_scalar_negate(&r, &a); k_sc_out(out, "r", &r); }
    else if (jv_is(op, "inverse")) { secp256k1_scalar_inverse(&r, &a); k_sc_out(out, "r", &r); }
    else if (jv_is(op, "inverse_var")) { secp256k1_scalar_inverse_var(&r, &a); k_sc_out(out, "r", &r); }
    else if (jv_is(op, "half")) { secp256k1_scalar_half(&r, &a); k_sc_out(out, "r", &r); }
    else if (jv_is(op, "preds")) {
        jo_int(out, "is_zero", secp256k1_scalar_is_zero(&a)); jo_int(out, "is_one", secp256k1_scalar_is_one(&a));
        jo_int(out, "is_even", secp256k1_scalar_is_even(&a)); jo_int(out, "is_high", secp256k1_scalar_is_high(&a));
        secp256k1_scalar_get_b32(o32, &a); jo_bytes(out, "b32", o32, 32);
    }
    else if (jv_is(op, "eq")) { jo_int(out, "ret", secp256k1_scalar_eq(&a, &b)); }
    else if (jv_is(op, "cond_negate")) { int rv; r = a; rv = secp256k1_scalar_cond_negate(&r, f); jo_int(out, "ret", rv); k_sc_out(out, "r", &r); }
    else if (jv_is(op, "cadd_bit")) { r = a; secp256k1_scalar_cadd_bit(&r, (unsigned int)k, f); k_sc_out(out, "r", &r); }
    else if (jv_is(op, "cmov")) { r = a; secp256k1_scalar_cmov(&r, &b, f); k_sc_out(out, "r", &r); }
    else if (jv_is(op, "get_bits_var")) { uint32_t v = secp256k1_scalar_get_bits_var(&a, (unsigned int)f, (unsigned int)k); secp256k1_write_be32(o32, v); jo_bytes(out, "bits", o32, 4); }
    else if (jv_is(op, "get_bits_limb32")) { uint32_t v = secp256k1_scalar_get_bits_limb32(&a, (unsigned int)f, (unsigned int)k); secp256k1_write_be32(o32, v); jo_bytes(out, "bits", o32, 4); }
    else if (jv_is(op, "split_128")) { secp256k1_scalar_split_128(&r, &r2, &a); k_sc_out(out, "r1", &r); k_sc_out(out, "r2", &r2); }
    else if (jv_is(op, "split_lambda")) { secp256k1_scalar_split_lambda(&r, &r2, &a); k_sc_out(out, "r1", &r); k_sc_out(out, "r2", &r2); }
    else if (jv_is(op, "mul_shift_var")) { secp256k1_scalar_mul_shift_var(&r, &a, &b, (unsigned int)k); k_sc_out(out, "r", &r); }
    else { fprintf(stderr, "vh: unknown scalar op\n"); exit(3); }
}

/* ------------------------------------------------------------------------------------------------ */
/* Part 3: group law.  in: fn, a (+az), b (+bz), mg, rzr; results converted to affine. */
static void k_rzr_out(jout *out, const secp256k1_gej *r, const secp256k1_gej *a, const secp256k1_fe *rzr) {
    /* projection of the documented relation  r->z == a->z * rzr  (infinity = implicit z 0) */
    secp256k1_fe za, zr, t;
    if (a->infinity) secp256k1_fe_set_int(&za, 0); else { za = a->z; secp256k1_fe_normalize_weak(&za); }
    if (r->infinity) secp256k1_fe_set_int(&zr, 0); else zr = r->z;
    t = *rzr; secp256k1_fe_normalize_weak(&t);
    secp256k1_fe_mul(&t, &t, &za); secp256k1_fe_normalize(&t); secp256k1_fe_normalize(&zr);
    jo_int(out, "rzr_ok", secp256k1_fe_equal(&t, &zr));
}
#define KG_MAXLIST 64
static void op_KGroup(const jv *in, jout *out) {
    const jv *fn = jv_get(in, "fn"); int mg = (int)jv_int(in, "mg", 0), want_rzr = (int)jv_int(in, "rzr", 0);
    secp256k1_gej a, b, r, a0; secp256k1_ge bg, g; secp256k1_fe rzr, s; secp256k1_fe *prz = want_rzr ? &rzr : NULL;
    secp256k1_fe_set_int(&rzr, 1);
    if (jv_get(in, "a")) k_gej_in(jv_get(in, "a"), jv_get(in, "az"), &a, mg); else secp256k1_gej_set_infinity(&a);
    a0 = a;
    if (jv_is(fn, "add_var")) {
        k_gej_in(jv_get(in, "b"), jv_get(in, "bz"), &b, mg);
        secp256k1_gej_add_var(&r, &a, &b, prz); k_gej_out(out, "r", &r); if (prz) k_rzr_out(out, &r, &a0, &rzr);
    } else if (jv_is(fn, "add_var_inplace")) {      /* r aliases a, as the library itself calls it */
        k_gej_in(jv_get(in, "b"), jv_get(in, "bz"), &b, mg);
        secp256k1_gej_add_var(&a, &a, &b, prz); k_gej_out(out, "r", &a); if (prz) k_rzr_out(out, &a, &a0, &rzr);
    } else if (jv_is(fn, "add_ge_var")) {
        k_ge_in(jv_get(in, "b"), &bg, mg);
        secp256k1_gej_add_ge_var(&r, &a, &bg, prz); k_gej_out(out, "r", &r); if (prz) k_rzr_out(out, &r, &a0, &rzr);
    } else if (jv_is(fn, "add_ge")) {
        k_ge_in(jv_get(in, "b"), &bg, mg);
        secp256k1_gej_add_ge(&r, &a, &bg); k_gej_out(out, "r", &r);
    } else if (jv_is(fn, "add_ge_inplace")) {
        k_ge_in(jv_get(in, "b"), &bg, mg);
        secp256k1_gej_add_ge(&a, &a, &bg); k_gej_out(out, "r", &a);
    } else if (jv_is(fn, "add_zinv_var")) {
        /* b is handed over as (x zb^2, y zb^3) together with bzinv = 1/zb */
        secp256k1_fe zb, zb2, zb3, zinv;
        k_ge_in(jv_get(in, "b"), &bg, 0);
        if (!k_fe_in(in, "bz", &zb)) secp256k1_fe_set_int(&zb, 1);
        if (!bg.infinity) {
            secp256k1_fe_sqr(&zb2, &zb); secp256k1_fe_mul(&zb3, &zb2, &zb);
            secp256k1_fe_mul(&bg.x, &bg.x, &zb2); secp256k1_fe_mul(&bg.y, &bg.y, &zb3);
            if (mg) { k_fe_mag4(&bg.x); k_fe_mag3(&bg.y); }
        }
        secp256k1_fe_inv(&zinv, &zb);
        secp256k1_gej_add_zinv_var(&r, &a, &bg, &zinv); k_gej_out(out, "r", &r);
    } else if (jv_is(fn, "double")) {
        secp256k1_gej_double(&r, &a); k_gej_out(out, "r", &r);
    } else if (jv_is(fn, "double_var")) {
        secp256k1_gej_double_var(&r, &a, prz); k_gej_out(out, "r", &r); if (prz) k_rzr_out(out, &r, &a0, &rzr);
    } else if (jv_is(fn, "set_gej")) {
        /* constant-time conversion: infinity flag copied, coordinates then unspecified */
        secp256k1_ge_set_gej(&g, &a); if (g.infinity) secp256k1_ge_set_infinity(&g); k_ge_out(out, "r", &g);
    } else if (jv_is(fn, "set_gej_var")) {
        secp256k1_ge_set_gej_var(&g, &a); k_ge_out(out, "r", &g);
    } else if (jv_is(fn, "set_all_gej_var") || jv_is(fn, "set_all_gej")) {
        static secp256k1_gej lj[KG_MAXLIST]; static secp256k1_ge lg[KG_MAXLIST];
        const jv *pts = jv_get(in, "pts"), *zs = jv_get(in, "zs"), *c, *z; size_t n = 0, i; int first = 1;
        for (c = pts ? pts->child : NULL, z = zs ? zs->child : NULL; c && n < KG_MAXLIST; c = c->next, z = z ? z->next : NULL) { k_gej_in(c, z, &lj[n], mg); n++; }
        if (jv_is(fn, "set_all_gej")) secp256k1_ge_set_all_gej(lg, lj, n); else secp256k1_ge_set_all_gej_var(lg, lj, n);
        jo_key(out, "rs"); jo_raw(out, "[", 1);
        for (i = 0; i < n; i++) { k_sep(out, &first); k_pt_raw(out, &lg[i]); }
        jo_raw(out, "]", 1);
    } else if (jv_is(fn, "eq_x_var")) {
        secp256k1_fe x; k_fe_in(in, "x", &x); if (mg) { k_fe_mag4(&x); }
        jo_int(out, "ret", secp256k1_gej_eq_x_var(&x, &a));
    } else if (jv_is(fn, "rescale")) {
        k_fe_in(in, "s", &s); secp256k1_gej_rescale(&a, &s); k_gej_out(out, "r", &a);
        { secp256k1_fe t = a0.z; secp256k1_fe_mul(&t, &t, &s); secp256k1_fe_normalize(&t); s = a.z; secp256k1_fe_normalize(&s); jo_int(out, "z_ok", secp256k1_fe_equal(&t, &s)); }
    } else if (jv_is(fn, "eq_var")) {
        k_gej_in(jv_get(in, "b"), jv_get(in, "bz"), &b, mg); jo_int(out, "ret", secp256k1_gej_eq_var(&a, &b));
    } else if (jv_is(fn, "eq_ge_var")) {
        k_ge_in(jv_get(in, "b"), &bg, mg); jo_int(out, "ret", secp256k1_gej_eq_ge_var(&a, &bg));
    } else if (jv_is(fn, "ge_eq_var")) {
        secp256k1_ge ag; k_ge_in(jv_get(in, "a"), &ag, mg); k_ge_in(jv_get(in, "b"), &bg, mg); jo_int(out, "ret", secp256k1_ge_eq_var(&ag, &bg));
    } else if (jv_is(fn, "neg")) {
        secp256k1_gej_neg(&r, &a); k_gej_out(out, "r", &r);
    } else if (jv_is(fn, "ge_neg")) {
        secp256k1_ge ag; k_ge_in(jv_get(in, "a"), &ag, mg); secp256k1_ge_neg(&g, &ag); k_ge_out(out, "r", &g);
    } else if (jv_is(fn, "cmov")) {
        k_gej_in(jv_get(in, "b"), jv_get(in, "bz"), &b, mg); secp256k1_gej_cmov(&a, &b, (int)jv_int(in, "f", 0)); k_gej_out(out, "r", &a);
    } else if (jv_is(fn, "mul_lambda")) {
        secp256k1_ge ag; k_ge_in(jv_get(in, "a"), &ag, mg); secp256k1_ge_mul_lambda(&g, &ag); k_ge_out(out, "r", &g);
    } else if (jv_is(fn, "set_xo_var")) {
        secp256k1_fe x; int rv; k_fe_in(in, "x", &x); rv = secp256k1_ge_set_xo_var(&g, &x, (int)jv_int(in, "f", 0));
        jo_int(out, "ret", rv); if (rv) k_ge_out(out, "r", &g);
    } else if (jv_is(fn, "set_xquad")) {
        secp256k1_fe x; int rv; k_fe_in(in, "x", &x); rv = secp256k1_ge_set_xquad(&g, &x);
        jo_int(out, "ret", rv); if (rv) k_ge_out(out, "r", &g);
    } else if (jv_is(fn, "x_on_curve_var")) {
        secp256k1_fe x; k_fe_in(in, "x", &x); jo_int(out, "ret", secp256k1_ge_x_on_curve_var(&x));
    } else if (jv_is(fn, "x_frac_on_curve_var")) {
        secp256k1_fe xn, xd; k_fe_in(in, "x", &xn); k_fe_in(in, "d", &xd); jo_int(out, "ret", secp256k1_ge_x_frac_on_curve_var(&xn, &xd));
    } else if (jv_is(fn, "is_valid_var")) {
        secp256k1_ge ag; k_ge_in(jv_get(in, "a"), &ag, mg); jo_int(out, "ret", secp256k1_ge_is_valid_var(&ag));
    } else if (jv_is(fn, "has_quad_y_var")) {
        jo_int(out, "ret", secp256k1_gej_has_quad_y_var(&a));
    } else if (jv_is(fn, "storage")) {
        secp256k1_ge ag; secp256k1_ge_storage st, st2; unsigned char buf[64];
        k_ge_in(jv_get(in, "a"), &ag, mg);
        secp256k1_ge_to_storage(&st, &ag); memset(&st2, 0, sizeof(st2)); secp256k1_ge_storage_cmov(&st2, &st, 1);
        secp256k1_ge_from_storage(&g, &st2); k_ge_out(out, "r", &g);
        secp256k1_ge_to_bytes_ext(buf, &ag); secp256k1_ge_from_bytes_ext(&g, buf); k_ge_out(out, "r2", &g);
    } else { fprintf(stderr, "vh: unknown group fn\n"); exit(3); }
}

/* ------------------------------------------------------------------------------------------------ */
/* Part 4: scalar multiplication */
#define KM_MAX 512
static struct { secp256k1_scalar sc[KM_MAX]; secp256k1_ge pt[KM_MAX]; size_t n; } KM;
static int k_multi_cb(secp256k1_scalar *sc, secp256k1_ge *pt, size_t idx, void *data) {
    (void)data; if (idx >= KM.n) return 0; *sc = KM.sc[idx]; *pt = KM.pt[idx]; return 1;
}
static secp256k1_context *K_BLIND_CTX = NULL;
static void op_KEcmult(const jv *in, jout *out) {
    const jv *fn = jv_get(in, "fn"); int mg = (int)jv_int(in, "mg", 0);
    secp256k1_gej r, a; secp256k1_ge ag; secp256k1_scalar na, ng; int has_ng;
    if (jv_is(fn, "ecmult")) {
        k_gej_in(jv_get(in, "p"), jv_get(in, "pz"), &a, mg); k_sc_in(in, "na", &na); has_ng = k_sc_in(in, "ng", &ng);
        secp256k1_ecmult(&r, &a, &na, has_ng ? &ng : NULL); k_gej_out(out, "r", &r);
    } else if (jv_is(fn, "const")) {
        k_ge_in(jv_get(in, "p"), &ag, mg); k_sc_in(in, "q", &na);
        secp256k1_ecmult_const(&r, &ag, &na); k_gej_out(out, "r", &r);
    } else if (jv_is(fn, "xonly")) {
        secp256k1_fe n, d, rx; int has_d, rv;
        k_fe_in(in, "n", &n); has_d = k_fe_in(in, "d", &d); k_sc_in(in, "q", &na);
        if (mg) { k_fe_mag4(&n); if (has_d) k_fe_mag4(&d); }
        rv = secp256k1_ecmult_const_xonly(&rx, &n, has_d ? &d : NULL, &na, (int)jv_int(in, "known", 0));
        jo_int(out, "ret", rv); if (rv) k_fe_out(out, "rx", &rx);
    } else if (jv_is(fn, "gen")) {
        unsigned char seed[32]; const secp256k1_context *c = CTX;
        k_sc_in(in, "a", &na);
        if (jv_bytes(in, "seed", seed, 32) == 32) {
            if (!K_BLIND_CTX) K_BLIND_CTX = secp256k1_context_create(SECP256K1_CONTEXT_NONE);
            jo_int(out, "rret", secp256k1_context_randomize(K_BLIND_CTX, seed)); c = K_BLIND_CTX;
        }
        secp256k1_ecmult_gen(&c->ecmult_gen_ctx, &r, &na); k_gej_out(out, "r", &r);
    } else if (jv_is(fn, "multi")) {
        const jv *scs = jv_get(in, "sc"), *pts = jv_get(in, "pts"), *szs = jv_get(in, "scratch"), *c, *p, *z; unsigned char b[32]; int f1 = 1, f2 = 1;
        static jout RS; RS.len = 0;
        KM.n = 0;
        for (c = scs ? scs->child : NULL, p = pts ? pts->child : NULL; c && p && KM.n < KM_MAX; c = c->next, p = p->next) {
            k_need_v(c, b, 32, "scalar"); secp256k1_scalar_set_b32(&KM.sc[KM.n], b, NULL); k_ge_in(p, &KM.pt[KM.n], mg); KM.n++;
        }
        has_ng = k_sc_in(in, "ng", &ng);
        jo_key(out, "ret"); jo_raw(out, "[", 1); jo_raw(&RS, "[", 1);
        for (z = szs ? szs->child : NULL; z; z = z->next) {
            secp256k1_scratch *scratch = z->i < 0 ? NULL : secp256k1_scratch_create(&CTX->error_callback, (size_t)z->i);
            int rv = secp256k1_ecmult_multi_var(&CTX->error_callback, scratch, &r, has_ng ? &ng : NULL, k_multi_cb, NULL, KM.n);
            secp256k1_ge g; k_gej_to_ge(&g, &r);
            k_sep(out, &f1); k_int_raw(out, rv); k_sep(&RS, &f2); k_pt_raw(&RS, &g);
            if (scratch) secp256k1_scratch_destroy(&CTX->error_callback, scratch);
        }
        jo_raw(out, "]", 1); jo_raw(&RS, "]", 1);
        jo_key(out, "rs"); jo_raw(out, RS.b, RS.len);
    } else { fprintf(stderr, "vh: unknown ecmult fn\n"); exit(3); }
}

/* ------------------------------------------------------------------------------------------------ */
/* Part 5: hashing.  A dedicated context carries a COUNTING (correct) compression function installed through
 * the public seam secp256k1_context_set_sha256_compression, so blocks per write are observed without a hook. */
static unsigned long K_SHA_CALLS = 0, K_SHA_BLOCKS = 0;
static void k_counting_compress(uint32_t *state, const unsigned char *blocks64, size_t n_blocks) {
    K_SHA_CALLS++; K_SHA_BLOCKS += n_blocks; secp256k1_sha256_transform(state, blocks64, n_blocks);
}
static secp256k1_context *K_SHA_CTX = NULL;
static const secp256k1_hash_ctx *k_hash_ctx(void) {
    if (!K_SHA_CTX) {
        K_SHA_CTX = secp256k1_context_create(SECP256K1_CONTEXT_NONE);
        secp256k1_context_set_illegal_callback(K_SHA_CTX, vh_illegal_cb, NULL);
        secp256k1_context_set_sha256_compression(K_SHA_CTX, k_counting_compress);
    }
    return secp256k1_get_hash_context(K_SHA_CTX);
}
/* message: explicit "msg" bytes, or the rule  byte i (0-based) = (pa * i + pb) mod 256  for "len" bytes */
static unsigned char *K_MSG = NULL; static size_t K_MSG_CAP = 0;
static size_t k_msg_in(const jv *in) {
    const jv *m = jv_get(in, "msg"); size_t n, i;
    if (m && m->t == JV_ARR) {
        n = m->n; if (n + 1 > K_MSG_CAP) { K_MSG_CAP = 2 * n + 64; K_MSG = (unsigned char*)realloc(K_MSG, K_MSG_CAP); }
        jv_bytes_v(m, K_MSG, K_MSG_CAP); return n;
    }
    n = (size_t)jv_int(in, "len", 0);
    if (n + 1 > K_MSG_CAP) { K_MSG_CAP = 2 * n + 64; K_MSG = (unsigned char*)realloc(K_MSG, K_MSG_CAP); }
    { unsigned long pa = (unsigned long)jv_int(in, "pa", 1), pb = (unsigned long)jv_int(in, "pb", 0);
      for (i = 0; i < n; i++) K_MSG[i] = (unsigned char)((pa * i + pb) & 0xff); }
    return n;
}
static void op_KShaStream(const jv *in, jout *out) {
    const secp256k1_hash_ctx *hc = k_hash_ctx(); size_t n = k_msg_in(in), off = 0; const jv *ch = jv_get(in, "chunks"), *c;
    secp256k1_sha256 h; unsigned char d[32]; int f1 = 1, f2 = 1; unsigned long c0, b0; static jout BL; BL.len = 0;
    secp256k1_sha256_initialize(&h); K_SHA_CALLS = K_SHA_BLOCKS = 0;
    jo_key(out, "calls"); jo_raw(out, "[", 1); jo_raw(&BL, "[", 1);
    for (c = ch ? ch->child : NULL; c; c = c->next) {
        size_t l = (size_t)c->i; if (off + l > n) { fprintf(stderr, "vh: chunks exceed message\n"); exit(3); }
        c0 = K_SHA_CALLS;
        secp256k1_sha256_write(hc, &h, K_MSG + off, l); off += l;
        k_sep(out, &f1); k_int_raw(out, (long long)(K_SHA_CALLS - c0)); k_sep(&BL, &f2); k_int_raw(&BL, (long long)K_SHA_BLOCKS);
    }
    jo_raw(out, "]", 1); jo_raw(&BL, "]", 1);
    jo_key(out, "blocks"); jo_raw(out, BL.b, BL.len);
    b0 = K_SHA_BLOCKS;
    secp256k1_sha256_finalize(hc, &h, d);
    jo_int(out, "fblocks", (long long)(K_SHA_BLOCKS - b0)); jo_int(out, "written", (long long)off);
    jo_bytes(out, "digest", d, 32);
}
static void op_KSha(const jv *in, jout *out) {
    const secp256k1_hash_ctx *hc = k_hash_ctx(); size_t n = k_msg_in(in); secp256k1_sha256 h; unsigned char d[32];
    secp256k1_sha256_initialize(&h); K_SHA_CALLS = K_SHA_BLOCKS = 0;
    secp256k1_sha256_write(hc, &h, K_MSG, n); secp256k1_sha256_finalize(hc, &h, d);
    jo_int(out, "blocks", (long long)K_SHA_BLOCKS); jo_bytes(out, "digest", d, 32);
    /* the same through the default (non-overridden) context */
    secp256k1_sha256_initialize(&h); secp256k1_sha256_write(secp256k1_get_hash_context(CTX), &h, K_MSG, n);
    secp256k1_sha256_finalize(secp256k1_get_hash_context(CTX), &h, d); jo_bytes(out, "digest_default", d, 32);
}
static void op_KHmac(const jv *in, jout *out) {
    const secp256k1_hash_ctx *hc = secp256k1_get_hash_context(CTX); size_t n = k_msg_in(in), off = 0; const jv *ch = jv_get(in, "chunks"), *c;
    static unsigned char key[4096]; long kl = jv_bytes(in, "key", key, sizeof(key)); secp256k1_hmac_sha256 h; unsigned char d[32];
    if (kl < 0) kl = 0;
    secp256k1_hmac_sha256_initialize(hc, &h, key, (size_t)kl);
    for (c = ch ? ch->child : NULL; c; c = c->next) {
        size_t l = (size_t)c->i; if (off + l > n) { fprintf(stderr, "vh: chunks exceed message\n"); exit(3); }
        secp256k1_hmac_sha256_write(hc, &h, K_MSG + off, l); off += l;
    }
    if (off < n) secp256k1_hmac_sha256_write(hc, &h, K_MSG + off, n - off);
    secp256k1_hmac_sha256_finalize(hc, &h, d); jo_bytes(out, "mac", d, 32);
}
static void op_KDrbg(const jv *in, jout *out) {
    const secp256k1_hash_ctx *hc = secp256k1_get_hash_context(CTX); static unsigned char seed[4096], buf[4096];
    long sl = jv_bytes(in, "seed", seed, sizeof(seed)); const jv *ol = jv_get(in, "outlens"), *c; secp256k1_rfc6979_hmac_sha256 rng; int first = 1;
    if (sl < 0) sl = 0;
    secp256k1_rfc6979_hmac_sha256_initialize(hc, &rng, seed, (size_t)sl);
    jo_key(out, "outs"); jo_raw(out, "[", 1);
    for (c = ol ? ol->child : NULL; c; c = c->next) {
        size_t l = (size_t)c->i; if (l > sizeof(buf)) { fprintf(stderr, "vh: outlen too large\n"); exit(3); }
        secp256k1_rfc6979_hmac_sha256_generate(hc, &rng, buf, l);
        k_sep(out, &first); jo_bytes_raw(out, buf, l);
    }
    jo_raw(out, "]", 1);
    secp256k1_rfc6979_hmac_sha256_finalize(&rng);
}
static void op_KTagged(const jv *in, jout *out) {
    size_t n = k_msg_in(in); static unsigned char tag[1024]; long tl = jv_bytes(in, "tag", tag, sizeof(tag)); unsigned char d[32]; int rv;
    if (tl < 0) tl = 0;
    memset(d, 0, 32);
    /* "alias": 1 = the digest overwrites the start of the message buffer, 2 = the start of the tag buffer (hashing in place; only when
     * that buffer holds at least 32 bytes; spec/api/Aliasing.tla) */
    { long al = jv_int(in, "alias", 0);
      if (al == 1 && n >= 32) { rv = secp256k1_tagged_sha256(CTX, K_MSG, tag, (size_t)tl, K_MSG, n); memcpy(d, K_MSG, 32); }
      else if (al == 2 && tl >= 32) { rv = secp256k1_tagged_sha256(CTX, tag, tag, (size_t)tl, K_MSG, n); memcpy(d, tag, 32); }
      else rv = secp256k1_tagged_sha256(CTX, d, tag, (size_t)tl, K_MSG, n); }
    jo_int(out, "ret", rv); jo_bytes(out, "hash", d, 32);
}

#define VH_OPS_KERNEL \
    { "KFeSeq", op_KFeSeq }, { "KScalar", op_KScalar }, { "KGroup", op_KGroup }, { "KEcmult", op_KEcmult }, \
    { "KShaStream", op_KShaStream }, { "KSha", op_KSha }, { "KHmac", op_KHmac }, { "KDrbg", op_KDrbg }, { "KTagged", op_KTagged },
