/* C01: ECDSA sign / verify / normalize / recover.  Signature objects travel as their compact 64 bytes. */
static void op_EcdsaVerify(const jv *in, jout *out) {
    unsigned char sig64[64], msg[32]; secp256k1_ecdsa_signature sig; secp256k1_pubkey pk; int pret, kret;
    jv_need(in, "sig", sig64, 64); jv_need(in, "msg", msg, 32);
    pret = secp256k1_ecdsa_signature_parse_compact(CTX, &sig, sig64);
    kret = vh_load_pk(in, "pk", &pk);
    jo_int(out, "pret", pret); jo_int(out, "kret", kret);
    jo_int(out, "ret", kret ? secp256k1_ecdsa_verify(CTX, &sig, msg, &pk) : 0);
}
/* nf: 0 = NULL (default), 1 = secp256k1_nonce_function_rfc6979, 2 = sequence of caller-chosen nonces,
 *     3 = a caller-written function that answers the first "skip" attempts with an all-zero nonce and hands every later attempt,
 *         with the attempt number it was given, to secp256k1_nonce_function_rfc6979 */
typedef struct { long skip; const void *data; } vh_skip_t;
static int vh_nonce_fn_skip(unsigned char *nonce32, const unsigned char *msg32, const unsigned char *key32, const unsigned char *algo16, void *data, unsigned int attempt) {
    const vh_skip_t *sk = (const vh_skip_t*)data;
    if ((long)attempt < sk->skip) { memset(nonce32, 0, 32); return 1; }
    return secp256k1_nonce_function_rfc6979(nonce32, msg32, key32, algo16, (void*)sk->data, attempt);
}
static void op_EcdsaSign(const jv *in, jout *out) {
    unsigned char key[32], msg[32], extra[32], sig64[64]; int has_extra, ret, recid = -1;
    long nf = jv_int(in, "nf", 0), rec = jv_int(in, "rec", 0);
    vh_nonce_seq seq; vh_skip_t skp; secp256k1_nonce_function fn = NULL; const void *data = NULL;
    jv_need(in, "key", key, 32); jv_need(in, "msg", msg, 32);
    has_extra = jv_bytes(in, "extra", extra, 32) == 32;
    if (nf == 1) fn = secp256k1_nonce_function_rfc6979;
    if (nf == 2) { vh_load_nonce_seq(in, &seq); fn = vh_nonce_fn_seq; data = &seq; }
    else if (nf == 3) { skp.skip = jv_int(in, "skip", 1); skp.data = has_extra ? extra : NULL; fn = vh_nonce_fn_skip; data = &skp; }
    else if (has_extra) data = extra;
    /* "alias": m = one input is stored INSIDE the object that receives the signature (m = 1 message at offset 0, 2 secret key at
     * offset 32, 3 extra nonce data at offset 0; see spec/api/Aliasing.tla) */
    if (rec) {
        secp256k1_ecdsa_recoverable_signature rs; long al = jv_int(in, "alias", 0); const unsigned char *pm = msg, *pk = key;
        memset(&rs, 0xAA, sizeof(rs));
        if (al == 1) { memcpy(rs.data, msg, 32); pm = rs.data; }
        else if (al == 2) { memcpy(rs.data + 32, key, 32); pk = rs.data + 32; }
        else if (al == 3 && data == extra) { memcpy(rs.data, extra, 32); data = rs.data; }
        ret = secp256k1_ecdsa_sign_recoverable(CTX, &rs, pm, pk, fn, data);
        secp256k1_ecdsa_recoverable_signature_serialize_compact(CTX, sig64, &recid, &rs);
        jo_int(out, "recid", recid);
    } else {
        secp256k1_ecdsa_signature s; long al = jv_int(in, "alias", 0); const unsigned char *pm = msg, *pk = key;
        memset(&s, 0xAA, sizeof(s));
        if (al == 1) { memcpy(s.data, msg, 32); pm = s.data; }
        else if (al == 2) { memcpy(s.data + 32, key, 32); pk = s.data + 32; }
        else if (al == 3 && data == extra) { memcpy(s.data, extra, 32); data = s.data; }
        ret = secp256k1_ecdsa_sign(CTX, &s, pm, pk, fn, data);
        secp256k1_ecdsa_signature_serialize_compact(CTX, sig64, &s);
    }
    jo_int(out, "ret", ret); jo_bytes(out, "sig", sig64, 64);
}
/* the exported nonce functions called directly; which: 0 = secp256k1_nonce_function_rfc6979, 1 = secp256k1_nonce_function_default */
static void op_EcdsaNonceFn(const jv *in, jout *out) {
    unsigned char key[32], msg[32], extra[32], algo[16], nonce[32]; int has_extra, has_algo, ret;
    secp256k1_nonce_function fn = jv_int(in, "which", 0) ? secp256k1_nonce_function_default : secp256k1_nonce_function_rfc6979;
    jv_need(in, "key", key, 32); jv_need(in, "msg", msg, 32);
    has_extra = jv_bytes(in, "extra", extra, 32) == 32; has_algo = jv_bytes(in, "algo", algo, 16) == 16;
    memset(nonce, 0xAA, 32);
    ret = fn(nonce, msg, key, has_algo ? algo : NULL, has_extra ? extra : NULL, (unsigned int)jv_int(in, "attempt", 0));
    jo_int(out, "ret", ret); jo_bytes(out, "nonce", nonce, 32);
}
static void op_EcdsaNormalize(const jv *in, jout *out) {
    unsigned char sig64[64]; secp256k1_ecdsa_signature a, b; int pret, ret;
    jv_need(in, "sig", sig64, 64);
    pret = secp256k1_ecdsa_signature_parse_compact(CTX, &a, sig64);
    /* "alias": 1 = normalised in place (sigout == sigin, the usual caller idiom; spec/api/Aliasing.tla) */
    if (jv_int(in, "alias", 0)) { b = a; ret = secp256k1_ecdsa_signature_normalize(CTX, &b, &b); }
    else ret = secp256k1_ecdsa_signature_normalize(CTX, &b, &a);
    secp256k1_ecdsa_signature_serialize_compact(CTX, sig64, &b);
    jo_int(out, "pret", pret); jo_int(out, "ret", ret); jo_bytes(out, "sig", sig64, 64);
}
static void op_EcdsaRecover(const jv *in, jout *out) {
    unsigned char sig64[64], msg[32]; secp256k1_ecdsa_recoverable_signature rs; secp256k1_ecdsa_signature cs;
    secp256k1_pubkey pk; int pret, ret; long recid = jv_int(in, "recid", 0);
    jv_need(in, "sig", sig64, 64); jv_need(in, "msg", msg, 32);
    pret = secp256k1_ecdsa_recoverable_signature_parse_compact(CTX, &rs, sig64, (int)recid);
    memset(&pk, 0xAA, sizeof(pk));
    ret = secp256k1_ecdsa_recover(CTX, &pk, &rs, msg);
    jo_int(out, "pret", pret); jo_int(out, "ret", ret);
    if (ret) vh_out_pk33(out, "pk", &pk);
    else jo_int(out, "pkzero", secp256k1_is_zero_array((unsigned char*)&pk, sizeof(pk)));
    secp256k1_ecdsa_recoverable_signature_convert(CTX, &cs, &rs);
    secp256k1_ecdsa_signature_serialize_compact(CTX, sig64, &cs);
    jo_bytes(out, "conv", sig64, 64);
}
#define VH_OPS_ECDSA \
    { "EcdsaVerify", op_EcdsaVerify }, { "EcdsaSign", op_EcdsaSign }, \
    { "EcdsaNormalize", op_EcdsaNormalize }, { "EcdsaRecover", op_EcdsaRecover }, { "EcdsaNonceFn", op_EcdsaNonceFn },
