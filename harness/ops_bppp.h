/* C19: Bulletproofs++ norm argument (internal static functions, reachable because the harness shares the
 * translation unit with secp256k1.c) and the public generator-list API.
 *
 * Record conventions of this group
 *   gens    flat byte array, 33 bytes per generator in the secp256k1_bppp_generators_serialize format; the
 *           ops obtain their generator object with secp256k1_bppp_generators_parse (out "gret" = 0 if that fails)
 *   nv lv cv flat byte arrays, 32 bytes (big endian) per scalar
 *   rho mu  32-byte scalars;   commit  33 bytes, compressed point or 33 zero bytes for infinity
 *   pre     bytes written into the tagged transcript hash ("Bulletproofs_pp/v0/commitment") before the argument starts
 *   scratch size in bytes of a fresh scratch space; absent = NULL scratch (prover/commit only)
 * Memory accounting for the leak clause: std builds replace malloc/calloc/realloc/free of the whole process by
 * counting wrappers around glibc's __libc_* entry points (the documented way of interposing malloc) and report
 * the change of the number of live heap objects across the call; sanitizer builds (which own malloc) report the
 * change of the sanitizer allocator's "currently allocated bytes" plus the result of a recoverable LeakSanitizer
 * pass.  The field is "leak"; the specification says 0. */
#if defined(__has_feature)
# if __has_feature(address_sanitizer)
#  define VH_BP_ASAN 1
# endif
#endif
#ifdef VH_BP_ASAN
#include <sanitizer/lsan_interface.h>
#include <sanitizer/allocator_interface.h>
/* the harness main loop keeps its line/output buffers until exit; leaks are looked for explicitly (below) */
const char *__asan_default_options(void) { return "leak_check_at_exit=0"; }
/* bytes currently allocated according to the sanitizer's allocator */
static long long vh_bp_heap(void) { return (long long)__sanitizer_get_current_allocated_bytes(); }
/* a LeakSanitizer pass scans the whole heap (slow): made at every 16th call; leaks persist, so a later pass still sees them */
static long long vh_bp_leakcheck(void) { static unsigned calls = 0; return (calls++ % 16 == 0 && __lsan_do_recoverable_leak_check()) ? 1 : 0; }
#else
extern void *__libc_malloc(size_t); extern void __libc_free(void*);
extern void *__libc_calloc(size_t, size_t); extern void *__libc_realloc(void*, size_t);
static volatile long long VH_BP_LIVE = 0;
void *malloc(size_t n) { void *p = __libc_malloc(n); if (p) VH_BP_LIVE++; return p; }
void free(void *p) { if (p) VH_BP_LIVE--; __libc_free(p); }
void *calloc(size_t a, size_t b) { void *p = __libc_calloc(a, b); if (p) VH_BP_LIVE++; return p; }
void *realloc(void *p, size_t n) {
    void *q = __libc_realloc(p, n);
    if (p == NULL) { if (q) VH_BP_LIVE++; } else if (n == 0 && q == NULL) VH_BP_LIVE--;
    return q;
}
static long long vh_bp_heap(void) { return VH_BP_LIVE; }
static long long vh_bp_leakcheck(void) { return 0; }
#endif

#define VH_BP_MAXBYTES (1u << 17)
static unsigned char VH_BP_BUF[VH_BP_MAXBYTES];

/* exact-size heap copy of a byte field (so that the sanitizer build sees every over-read); *len = -1 if absent */
static unsigned char *vh_bp_bytes(const jv *in, const char *key, long *len) {
    unsigned char *p;
    *len = jv_bytes(in, key, VH_BP_BUF, sizeof(VH_BP_BUF));
    p = (unsigned char*)malloc(*len > 0 ? (size_t)*len : 1);
    if (*len > 0) memcpy(p, VH_BP_BUF, (size_t)*len);
    return p;
}
static secp256k1_scalar *vh_bp_scalars(const jv *in, const char *key, size_t *count) {
    long len, i; unsigned char *b = vh_bp_bytes(in, key, &len); secp256k1_scalar *s;
    if (len < 0) len = 0;
    if (len % 32) { fprintf(stderr, "vh: field %s must be a multiple of 32 bytes\n", key); exit(3); }
    *count = (size_t)(len / 32);
    s = (secp256k1_scalar*)malloc(*count ? *count * sizeof(*s) : 1);
    for (i = 0; i < len / 32; i++) secp256k1_scalar_set_b32(&s[i], b + 32 * i, NULL);
    free(b);
    return s;
}
static void vh_bp_scalar(const jv *in, const char *key, secp256k1_scalar *s) {
    unsigned char b[32]; jv_need(in, key, b, 32); secp256k1_scalar_set_b32(s, b, NULL);
}
static secp256k1_bppp_generators *vh_bp_gens(const jv *in, jout *out) {
    long len; unsigned char *b = vh_bp_bytes(in, "gens", &len); secp256k1_bppp_generators *g;
    if (len < 0) { fprintf(stderr, "vh: field gens missing\n"); exit(3); }
    g = secp256k1_bppp_generators_parse(CTX, b, (size_t)len);
    free(b);
    jo_int(out, "gret", g != NULL);
    return g;
}
static secp256k1_scratch_space *vh_bp_scratch(const jv *in) {
    long long s = jv_int(in, "scratch", -1);
    return s < 0 ? NULL : secp256k1_scratch_space_create(CTX, (size_t)s);
}
static void vh_bp_transcript(const jv *in, secp256k1_sha256 *sha) {
    long len; unsigned char *b = vh_bp_bytes(in, "pre", &len);
    secp256k1_bppp_sha256_tagged_commitment_init(sha);
    if (len > 0) secp256k1_sha256_write(secp256k1_get_hash_context(CTX), sha, b, (size_t)len);
    free(b);
}
static void vh_bp_out_ge(jout *out, const char *key, secp256k1_ge *ge) {
    unsigned char b[33]; memset(b, 0, 33);
    if (!secp256k1_ge_is_infinity(ge)) { secp256k1_fe_normalize_var(&ge->x); secp256k1_fe_normalize_var(&ge->y); secp256k1_eckey_pubkey_serialize33(ge, b); }
    jo_bytes(out, key, b, 33);
}
static int vh_bp_in_ge(const jv *in, const char *key, secp256k1_ge *ge) {
    unsigned char b[33]; jv_need(in, key, b, 33);
    if (secp256k1_is_zero_array(b, 33)) { secp256k1_ge_set_infinity(ge); return 1; }
    return secp256k1_eckey_pubkey_parse(ge, b, 33);
}
static size_t vh_bp_rounds(size_t g, size_t h) {
    size_t a = 0, b = 0; while (g > 1) { g >>= 1; a++; } while (h > 1) { h >>= 1; b++; } return a > b ? a : b;
}
static int vh_bp_pow2(size_t n) { return n > 0 && (n & (n - 1)) == 0; }

/* secp256k1_bppp_commit */
static void op_BpppCommit(const jv *in, jout *out) {
    size_t nl, ll, cl; secp256k1_scalar mu; secp256k1_ge commit; int ret;
    secp256k1_bppp_generators *g = vh_bp_gens(in, out);
    secp256k1_scalar *nv = vh_bp_scalars(in, "nv", &nl), *lv = vh_bp_scalars(in, "lv", &ll), *cv = vh_bp_scalars(in, "cv", &cl);
    secp256k1_scratch_space *scratch = vh_bp_scratch(in);
    vh_bp_scalar(in, "mu", &mu);
    if (g != NULL) {
        /* documented preconditions of the internal function (VERIFY_CHECKs): not part of the input space */
        if (g->n != nl + ll || ll != cl || !vh_bp_pow2(nl) || !vh_bp_pow2(cl)) { fprintf(stderr, "vh: BpppCommit precondition\n"); exit(3); }
        secp256k1_ge_set_infinity(&commit);
        ret = secp256k1_bppp_commit(CTX, scratch, &commit, g, nv, nl, lv, ll, cv, cl, &mu);
        jo_int(out, "ret", ret);
        if (ret) vh_bp_out_ge(out, "commit", &commit);
    }
    if (scratch) secp256k1_scratch_space_destroy(CTX, scratch);
    secp256k1_bppp_generators_destroy(CTX, g);
    free(nv); free(lv); free(cv);
}

/* secp256k1_bppp_rangeproof_norm_product_prove (modifies its vector arguments: it gets copies) */
static void op_BpppProve(const jv *in, jout *out) {
    size_t nl, ll, cl, plen, cap; secp256k1_scalar rho; secp256k1_sha256 tr; int ret; unsigned char *proof; secp256k1_ge *gs;
    secp256k1_bppp_generators *g = vh_bp_gens(in, out);
    secp256k1_scalar *nv = vh_bp_scalars(in, "nv", &nl), *lv = vh_bp_scalars(in, "lv", &ll), *cv = vh_bp_scalars(in, "cv", &cl);
    secp256k1_scratch_space *scratch = vh_bp_scratch(in);
    vh_bp_scalar(in, "rho", &rho);
    vh_bp_transcript(in, &tr);
    if (g != NULL) {
        if (g->n != nl + ll || ll != cl || !vh_bp_pow2(nl) || !vh_bp_pow2(cl)) { fprintf(stderr, "vh: BpppProve precondition\n"); exit(3); }
        cap = 65 * vh_bp_rounds(nl, ll) + 64 + (size_t)jv_int(in, "slack", 0);
        plen = cap;
        proof = (unsigned char*)malloc(cap); memset(proof, 0xAA, cap);
        gs = (secp256k1_ge*)malloc(g->n * sizeof(*gs)); memcpy(gs, g->gens, g->n * sizeof(*gs));
        ret = secp256k1_bppp_rangeproof_norm_product_prove(CTX, scratch, proof, &plen, &tr, &rho, gs, g->n, nv, nl, lv, ll, cv, cl);
        jo_int(out, "ret", ret);
        if (ret && plen <= cap) jo_bytes(out, "proof", proof, plen);
        jo_int(out, "plen", (long long)plen);
        free(proof); free(gs);
    }
    if (scratch) secp256k1_scratch_space_destroy(CTX, scratch);
    secp256k1_bppp_generators_destroy(CTX, g);
    free(nv); free(lv); free(cv);
}

/* secp256k1_bppp_rangeproof_norm_product_verify; called twice on the same scratch space (ret2): the result
 * must not depend on what an earlier call left behind in the scratch space */
static void op_BpppVerify(const jv *in, jout *out) {
    size_t cl; long plen; secp256k1_scalar rho, zrho; secp256k1_sha256 tr, tr2, tr3, tr4; secp256k1_ge commit; unsigned char *proof;
    size_t glen = (size_t)jv_int(in, "glen", 0);
    secp256k1_bppp_generators *g = vh_bp_gens(in, out);
    secp256k1_scalar *cv = vh_bp_scalars(in, "cv", &cl);
    secp256k1_scratch_space *scratch = secp256k1_scratch_space_create(CTX, (size_t)jv_int(in, "scratch", 1 << 20));
    vh_bp_scalar(in, "rho", &rho);
    vh_bp_transcript(in, &tr); tr2 = tr; tr3 = tr; tr4 = tr; secp256k1_scalar_set_int(&zrho, 0);
    proof = vh_bp_bytes(in, "proof", &plen); if (plen < 0) plen = 0;
    if (!vh_bp_in_ge(in, "commit", &commit)) { fprintf(stderr, "vh: BpppVerify commit is not a point\n"); exit(3); }
    if (g != NULL) {
        jo_int(out, "ret", secp256k1_bppp_rangeproof_norm_product_verify(CTX, scratch, proof, (size_t)plen, &tr, &rho, g, glen, cv, cl, &commit));
        jo_int(out, "ret2", secp256k1_bppp_rangeproof_norm_product_verify(CTX, scratch, proof, (size_t)plen, &tr2, &rho, g, glen, cv, cl, &commit));
        /* history on ONE scratch space: a rejected call (unusable challenge base) must not consume scratch needed by the next one */
        jo_int(out, "retz", secp256k1_bppp_rangeproof_norm_product_verify(CTX, scratch, proof, (size_t)plen, &tr3, &zrho, g, glen, cv, cl, &commit));
        jo_int(out, "ret3", secp256k1_bppp_rangeproof_norm_product_verify(CTX, scratch, proof, (size_t)plen, &tr4, &rho, g, glen, cv, cl, &commit));
    }
    secp256k1_scratch_space_destroy(CTX, scratch);
    secp256k1_bppp_generators_destroy(CTX, g);
    free(proof); free(cv);
}

/* generator lists: create(n) twice, create(m), serialize each, parse the serialization of the first and serialize
 * again.  All buffers exist before the first heap measurement; nothing is logged until the last one. */
static void op_BpppGens(const jv *in, jout *out) {
    size_t n = (size_t)jv_int(in, "n", 0), m = (size_t)jv_int(in, "m", 0);
    size_t l1 = 33 * n + 7, l2 = 33 * n, lm = 33 * m + 1, lrt = 33 * n + 33;
    unsigned char *b1 = (unsigned char*)malloc(l1 + 1), *b2 = (unsigned char*)malloc(l2 + 1), *bm = (unsigned char*)malloc(lm + 1), *brt = (unsigned char*)malloc(lrt + 1);
    int r1 = 0, r2 = 0, rm = 0, rrt = 0;
    long long h0, h1;
    secp256k1_bppp_generators *g1, *g2, *g3, *g4 = NULL;
    memset(b1, 0x55, l1 + 1); memset(b2, 0x55, l2 + 1); memset(bm, 0x55, lm + 1); memset(brt, 0x55, lrt + 1);
    h0 = vh_bp_heap();
    g1 = secp256k1_bppp_generators_create(CTX, n);
    g2 = secp256k1_bppp_generators_create(CTX, n);
    g3 = secp256k1_bppp_generators_create(CTX, m);
    if (g1) r1 = secp256k1_bppp_generators_serialize(CTX, g1, b1, &l1);
    if (g2) r2 = secp256k1_bppp_generators_serialize(CTX, g2, b2, &l2);
    if (g3) rm = secp256k1_bppp_generators_serialize(CTX, g3, bm, &lm);
    if (r1) g4 = secp256k1_bppp_generators_parse(CTX, b1, l1);
    if (g4) rrt = secp256k1_bppp_generators_serialize(CTX, g4, brt, &lrt);
    secp256k1_bppp_generators_destroy(CTX, g1); secp256k1_bppp_generators_destroy(CTX, g2);
    secp256k1_bppp_generators_destroy(CTX, g3); secp256k1_bppp_generators_destroy(CTX, g4);
    secp256k1_bppp_generators_destroy(CTX, NULL);
    h1 = vh_bp_heap();
    jo_int(out, "ret", g1 != NULL && g2 != NULL && g3 != NULL);
    jo_int(out, "sret", r1); jo_int(out, "sret2", r2); jo_int(out, "sretm", rm); jo_int(out, "pret", g4 != NULL); jo_int(out, "sretrt", rrt);
    jo_bytes(out, "ser", b1, r1 ? l1 : 0); jo_bytes(out, "ser2", b2, r2 ? l2 : 0);
    jo_bytes(out, "serm", bm, rm ? lm : 0); jo_bytes(out, "rt", brt, rrt ? lrt : 0);
    jo_int(out, "leak", (h1 - h0) + vh_bp_leakcheck());
    free(b1); free(b2); free(bm); free(brt);
}
/* secp256k1_bppp_generators_parse on arbitrary bytes, with memory accounting around the call */
static void op_BpppGensParse(const jv *in, jout *out) {
    long len; unsigned char *b = vh_bp_bytes(in, "data", &len); size_t n = 0;
    long long h0, h1, h2; secp256k1_bppp_generators *g;
    unsigned char *ser;
    if (len < 0) len = 0;
    ser = (unsigned char*)malloc((size_t)len + 1);
    h0 = vh_bp_heap();
    g = secp256k1_bppp_generators_parse(CTX, b, (size_t)len);
    h1 = vh_bp_heap();
    if (g != NULL) {
        size_t sl = (size_t)len; int r;
        n = g->n;
        r = secp256k1_bppp_generators_serialize(CTX, g, ser, &sl);
        secp256k1_bppp_generators_destroy(CTX, g);
        h2 = vh_bp_heap();
        jo_int(out, "ret", 1); jo_int(out, "n", (long long)n); jo_int(out, "sret", r);
        jo_bytes(out, "ser", ser, r ? sl : 0);
        jo_int(out, "leak", (h2 - h0) + vh_bp_leakcheck());
    } else {
        jo_int(out, "ret", 0);
        jo_int(out, "leak", (h1 - h0) + vh_bp_leakcheck());
    }
    free(ser); free(b);
}
#define VH_OPS_BPPP \
    { "BpppCommit", op_BpppCommit }, { "BpppProve", op_BpppProve }, { "BpppVerify", op_BpppVerify }, \
    { "BpppGens", op_BpppGens }, { "BpppGensParse", op_BpppGensParse },
