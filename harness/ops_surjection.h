/* C11: surjection proofs.  Proofs travel serialized; fixed asset tags are 32-byte strings, ephemeral
 * tags (generators) 33-byte encodings.  Proof objects live on the heap with their exact size so that
 * the sanitizer build sees every write past the object. */
#define VH_SJ_MAXLIST 300
#define VH_SJ_MAXSER (2 + 8192 + 32 * 300)
static secp256k1_generator VH_SJ_GENS[VH_SJ_MAXLIST];
static secp256k1_fixed_asset_tag VH_SJ_TAGS[VH_SJ_MAXLIST];

static secp256k1_surjectionproof *vh_sj_new(void) {
    secp256k1_surjectionproof *p = (secp256k1_surjectionproof*)malloc(sizeof(*p));
    if (!p) { fprintf(stderr, "vh: out of memory\n"); exit(3); }
    memset(p, 0, sizeof(*p));
    return p;
}
static size_t vh_sj_load_gens(const jv *in, const char *key) {
    const jv *a = jv_get(in, key); const jv *c; size_t n = 0; unsigned char b[33];
    for (c = a ? a->child : NULL; c && n < VH_SJ_MAXLIST; c = c->next) {
        if (jv_bytes_v(c, b, 33) != 33 || !secp256k1_generator_parse(CTX, &VH_SJ_GENS[n], b)) { fprintf(stderr, "vh: bad generator in %s\n", key); exit(3); }
        n++;
    }
    return n;
}
static int vh_sj_load_gen(const jv *in, const char *key, secp256k1_generator *g) {
    unsigned char b[33];
    if (jv_bytes(in, key, b, 33) != 33 || !secp256k1_generator_parse(CTX, g, b)) { fprintf(stderr, "vh: bad generator %s\n", key); exit(3); }
    return 1;
}
/* serialize with an ample buffer (sret, bytes), report serialized_size, and try a buffer one byte short */
static void vh_sj_out_proof(jout *out, const char *key, const secp256k1_surjectionproof *p) {
    static unsigned char ser[SECP256K1_SURJECTIONPROOF_SERIALIZATION_BYTES_MAX + 64];
    size_t len = sizeof(ser), want = secp256k1_surjectionproof_serialized_size(CTX, p);
    int sret = secp256k1_surjectionproof_serialize(CTX, ser, &len, p);
    jo_int(out, "sret", sret);
    jo_int(out, "ssize", (long long)want);
    if (sret) jo_bytes(out, key, ser, len);
    len = want - 1;
    jo_int(out, "sret_short", secp256k1_surjectionproof_serialize(CTX, ser, &len, p));
}

/* object history: "dirty":1 = the object is pre-filled with 0xff; "prior":[bytes] = another string is parsed into the SAME
 * object first (prior_ret = that parse's result).  What the API shows afterwards must depend on the last parsed string only. */
static void vh_sj_history(const jv *in, jout *out, secp256k1_surjectionproof *p) {
    static unsigned char prior[VH_SJ_MAXSER + 64]; long pl;
    if (jv_int(in, "dirty", 0)) memset(p, 0xff, sizeof(*p));
    pl = jv_bytes(in, "prior", prior, sizeof(prior));
    if (pl >= 0) jo_int(out, "prior_ret", secp256k1_surjectionproof_parse(CTX, p, prior, (size_t)pl));
}

/* helper for drivers: a real (NUMS) generator from a 32-byte asset id, optionally blinded */
static void op_SjGen(const jv *in, jout *out) {
    unsigned char tag[32], blind[32], ser[33]; secp256k1_generator g; int ret;
    jv_need(in, "tag", tag, 32);
    if (jv_bytes(in, "blind", blind, 32) == 32) ret = secp256k1_generator_generate_blinded(CTX, &g, tag, blind);
    else ret = secp256k1_generator_generate(CTX, &g, tag);
    jo_int(out, "ret", ret);
    if (ret) { secp256k1_generator_serialize(CTX, ser, &g); jo_bytes(out, "gen", ser, 33); }
}

static void op_SjParse(const jv *in, jout *out) {
    static unsigned char raw[VH_SJ_MAXSER + 64]; long rawlen; int ret;
    unsigned char *exact; secp256k1_surjectionproof *p = vh_sj_new();
    rawlen = jv_bytes(in, "b", raw, sizeof(raw));
    if (rawlen < 0) { fprintf(stderr, "vh: SjParse needs b\n"); exit(3); }
    /* the input lives in a heap block of exactly its length: reads past the end are visible too */
    exact = (unsigned char*)malloc(rawlen ? (size_t)rawlen : 1); memcpy(exact, raw, (size_t)rawlen);
    vh_sj_history(in, out, p);
    ret = secp256k1_surjectionproof_parse(CTX, p, exact, (size_t)rawlen);
    jo_int(out, "ret", ret);
    if (ret) {
        jo_int(out, "nin", (long long)secp256k1_surjectionproof_n_total_inputs(CTX, p));
        jo_int(out, "nused", (long long)secp256k1_surjectionproof_n_used_inputs(CTX, p));
        vh_sj_out_proof(out, "ser", p);
    }
    free(exact); free(p);
}

static void op_SjInit(const jv *in, jout *out) {
    const jv *a = jv_get(in, "tags"); const jv *c; size_t n = 0, idx = (size_t)-1; int ret;
    secp256k1_fixed_asset_tag outtag; unsigned char seed[32];
    secp256k1_surjectionproof *p = NULL; int alloc = (int)jv_int(in, "alloc", 0);
    for (c = a ? a->child : NULL; c && n < VH_SJ_MAXLIST; c = c->next) {
        if (jv_bytes_v(c, VH_SJ_TAGS[n].data, 32) != 32) { fprintf(stderr, "vh: bad tag\n"); exit(3); }
        n++;
    }
    jv_need(in, "out", outtag.data, 32); jv_need(in, "seed", seed, 32);
    if (alloc) {
        ret = secp256k1_surjectionproof_allocate_initialized(CTX, &p, &idx, VH_SJ_TAGS, n, (size_t)jv_int(in, "nuse", 0), &outtag, (size_t)jv_int(in, "maxiter", 0), seed);
        jo_int(out, "null", p == NULL);
    } else {
        p = vh_sj_new();
        ret = secp256k1_surjectionproof_initialize(CTX, p, &idx, VH_SJ_TAGS, n, (size_t)jv_int(in, "nuse", 0), &outtag, (size_t)jv_int(in, "maxiter", 0), seed);
    }
    jo_int(out, "ret", ret);
    if (ret > 0 && p) {
        jo_int(out, "idx", (long long)idx);
        jo_int(out, "nin", (long long)secp256k1_surjectionproof_n_total_inputs(CTX, p));
        jo_int(out, "nused", (long long)secp256k1_surjectionproof_n_used_inputs(CTX, p));
        vh_sj_out_proof(out, "ser", p);
    }
    if (alloc) secp256k1_surjectionproof_destroy(p); else free(p);
}

/* in: proof = serialized proof object as left by initialize (count, bitmap, zero data) or any other
 * parsable string; gens/gout; index; inkey/outkey; optional ngens (count argument, default list length).
 * After a successful generation the new proof is verified against the same tags (vret). */
static void op_SjGenerate(const jv *in, jout *out) {
    static unsigned char raw[VH_SJ_MAXSER + 64]; long rawlen; size_t n, ng; int pret, ret, vret = 0;
    unsigned char inkey[32], outkey[32]; secp256k1_generator gout;
    secp256k1_surjectionproof *p = vh_sj_new();
    n = vh_sj_load_gens(in, "gens"); vh_sj_load_gen(in, "gout", &gout);
    ng = (size_t)jv_int(in, "ngens", (long long)n);
    jv_need(in, "inkey", inkey, 32); jv_need(in, "outkey", outkey, 32);
    rawlen = jv_bytes(in, "proof", raw, sizeof(raw));
    pret = rawlen >= 0 && ng <= n && secp256k1_surjectionproof_parse(CTX, p, raw, (size_t)rawlen);
    jo_int(out, "pret", pret);
    if (pret) {
#ifdef VERIFY
        p->initialized = 1;
#endif
        ret = secp256k1_surjectionproof_generate(CTX, p, VH_SJ_GENS, ng, &gout, (size_t)jv_int(in, "index", 0), inkey, outkey);
        jo_int(out, "ret", ret);
        if (ret) {
            vh_sj_out_proof(out, "proof", p);
            vret = secp256k1_surjectionproof_verify(CTX, p, VH_SJ_GENS, ng, &gout);
        }
        jo_int(out, "vret", vret);
    }
    free(p);
}

static void op_SjVerify(const jv *in, jout *out) {
    static unsigned char raw[VH_SJ_MAXSER + 64]; long rawlen; size_t n, ng; int pret;
    secp256k1_generator gout; secp256k1_surjectionproof *p = vh_sj_new();
    n = vh_sj_load_gens(in, "gens"); vh_sj_load_gen(in, "gout", &gout);
    ng = (size_t)jv_int(in, "ngens", (long long)n);
    rawlen = jv_bytes(in, "proof", raw, sizeof(raw));
    vh_sj_history(in, out, p);
    pret = rawlen >= 0 && ng <= n && secp256k1_surjectionproof_parse(CTX, p, raw, (size_t)rawlen);
    jo_int(out, "pret", pret);
    jo_int(out, "ret", pret ? secp256k1_surjectionproof_verify(CTX, p, VH_SJ_GENS, ng, &gout) : 0);
    if (pret) {
        jo_int(out, "nin", (long long)secp256k1_surjectionproof_n_total_inputs(CTX, p));
        jo_int(out, "nused", (long long)secp256k1_surjectionproof_n_used_inputs(CTX, p));
        vh_sj_out_proof(out, "ser", p);
    }
    free(p);
}
#define VH_OPS_SURJECTION \
    { "SjGen", op_SjGen }, { "SjParse", op_SjParse }, { "SjInit", op_SjInit }, { "SjGenerate", op_SjGenerate }, { "SjVerify", op_SjVerify },
