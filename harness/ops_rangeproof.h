/* C09 / C10: range proofs (group "rangeproof").
 * Commitments travel as 33 bytes (prefix 8/9, through secp256k1_pedersen_commitment_parse), generators as 33 bytes
 * (prefix 10/11, through secp256k1_generator_parse), uint64 values as 8 big-endian bytes, proofs as byte arrays.
 * An absent "msg"/"extra"/"nonce" field = NULL pointer.  The ops execute and log, they never judge. */
#define VH_RP_BUF 5134
#define VH_RP_GUARD 64
static uint64_t vh_rp_u64(const jv *in, const char *key) {
    unsigned char b[8]; uint64_t r = 0; int i;
    jv_need(in, key, b, 8);
    for (i = 0; i < 8; i++) r = (r << 8) | b[i];
    return r;
}
static void vh_rp_out_u64(jout *out, const char *key, uint64_t v) {
    unsigned char b[8]; int i;
    for (i = 0; i < 8; i++) b[i] = (unsigned char)(v >> (56 - 8 * i));
    jo_bytes(out, key, b, 8);
}
static void vh_rp_out_gen(jout *out, const char *key, const secp256k1_generator *g) {
    unsigned char b[33]; secp256k1_generator_serialize(CTX, b, g); jo_bytes(out, key, b, 33);
}
/* the static generator h */
static void op_RpGenH(const jv *in, jout *out) { (void)in; vh_rp_out_gen(out, "gen", secp256k1_generator_h); }
/* generator_generate (or _generate_blinded if "blind" present) */
static void op_RpGenerate(const jv *in, jout *out) {
    unsigned char seed[32], blind[32]; secp256k1_generator g; int ret;
    jv_need(in, "seed", seed, 32);
    if (jv_bytes(in, "blind", blind, 32) == 32) ret = secp256k1_generator_generate_blinded(CTX, &g, seed, blind);
    else ret = secp256k1_generator_generate(CTX, &g, seed);
    jo_int(out, "ret", ret);
    if (ret) vh_rp_out_gen(out, "gen", &g);
}
static void op_RpCommit(const jv *in, jout *out) {
    unsigned char blind[32], gb[33], s[33]; secp256k1_generator g; secp256k1_pedersen_commitment c; int gret, ret; uint64_t v;
    jv_need(in, "blind", blind, 32); v = vh_rp_u64(in, "value"); jv_need(in, "gen", gb, 33);
    gret = secp256k1_generator_parse(CTX, &g, gb);
    jo_int(out, "gret", gret);
    if (!gret) return;
    ret = secp256k1_pedersen_commit(CTX, &c, blind, v, &g);
    jo_int(out, "ret", ret);
    if (ret) { secp256k1_pedersen_commitment_serialize(CTX, s, &c); jo_bytes(out, "commit", s, 33); }
}
/* internal probe: the parameter derivation (static function, reachable because the harness shares the translation unit) */
static void op_RpParams(const jv *in, jout *out) {
    uint64_t v = 0, minv = vh_rp_u64(in, "min"), value = vh_rp_u64(in, "value"), scale = 0;
    size_t rings = 0, rsizes[32], secidx[32], npub = 0, i; int mantissa = 0, exp = (int)jv_int(in, "exp", 0), mb = (int)jv_int(in, "min_bits", 0), ok;
    unsigned char rs[32], si[32];
    ok = secp256k1_range_proveparams(&v, &rings, rsizes, &npub, secidx, &minv, &mantissa, &scale, &exp, &mb, value);
    jo_int(out, "ok", ok);
    if (!ok) return;
    vh_rp_out_u64(out, "v", v); vh_rp_out_u64(out, "pmin", minv); vh_rp_out_u64(out, "scale", scale);
    jo_int(out, "rings", (long long)rings); jo_int(out, "npub", (long long)npub); jo_int(out, "mantissa", mantissa);
    jo_int(out, "pexp", exp); jo_int(out, "pmin_bits", mb);
    for (i = 0; i < rings && i < 32; i++) { rs[i] = (unsigned char)rsizes[i]; si[i] = (unsigned char)secidx[i]; }
    jo_bytes(out, "rsizes", rs, rings); jo_bytes(out, "secidx", si, rings);
}
static void op_RpMaxSize(const jv *in, jout *out) {
    jo_int(out, "size", (long long)secp256k1_rangeproof_max_size(CTX, vh_rp_u64(in, "maxv"), (int)jv_int(in, "min_bits", 0)));
}
static int vh_rp_load(const jv *in, jout *out, secp256k1_pedersen_commitment *c, secp256k1_generator *g) {
    unsigned char cb[33], gb[33]; int pret, gret;
    jv_need(in, "commit", cb, 33); jv_need(in, "gen", gb, 33);
    pret = secp256k1_pedersen_commitment_parse(CTX, c, cb);
    jo_int(out, "pret", pret);
    if (!pret) return 0;
    gret = secp256k1_generator_parse(CTX, g, gb);
    jo_int(out, "gret", gret);
    return gret;
}
static unsigned char VH_RP_P1[VH_RP_BUF + VH_RP_GUARD], VH_RP_P2[VH_RP_BUF + VH_RP_GUARD], VH_RP_MSG[4096], VH_RP_MOUT[4096 + 64], VH_RP_EXTRA[256];
/* verify / info / rewind of one proof: fields prefixed v*, i*, r* ("w*" = rewind with the second nonce) */
static void vh_rp_check(jout *out, const secp256k1_pedersen_commitment *c, const secp256k1_generator *g, const unsigned char *proof, size_t plen,
                        const unsigned char *extra, size_t extralen, const unsigned char *nonce, const unsigned char *nonce2, size_t mlen_in) {
    uint64_t mn = 0, mx = 0, val = 0; int ret, exp = 0, mant = 0; unsigned char blind[32]; size_t mlen;
    ret = secp256k1_rangeproof_verify(CTX, &mn, &mx, c, proof, plen, extra, extralen, g);
    jo_int(out, "vret", ret);
    if (ret) { vh_rp_out_u64(out, "vmin", mn); vh_rp_out_u64(out, "vmax", mx); }
    mn = mx = 0;
    ret = secp256k1_rangeproof_info(CTX, &exp, &mant, &mn, &mx, proof, plen);
    jo_int(out, "iret", ret);
    if (ret) { jo_int(out, "iexp", exp); jo_int(out, "imant", mant); vh_rp_out_u64(out, "imin", mn); vh_rp_out_u64(out, "imax", mx); }
    if (nonce) {
        mn = mx = 0; mlen = mlen_in; memset(VH_RP_MOUT, 0xAA, sizeof(VH_RP_MOUT)); memset(blind, 0xAA, 32);
        ret = secp256k1_rangeproof_rewind(CTX, blind, &val, VH_RP_MOUT, &mlen, nonce, &mn, &mx, c, proof, plen, extra, extralen, g);
        jo_int(out, "rret", ret);
        if (ret) {
            vh_rp_out_u64(out, "rvalue", val); jo_bytes(out, "rblind", blind, 32); jo_bytes(out, "rmsg", VH_RP_MOUT, mlen <= 4096 ? mlen : 0);
            vh_rp_out_u64(out, "rmin", mn); vh_rp_out_u64(out, "rmax", mx);
            jo_int(out, "rguard", VH_RP_MOUT[mlen_in <= 4096 ? mlen_in : 4096] == 0xAA);   /* nothing written behind the caller's capacity */
        }
        /* the same rewind with no output requested ("is this output mine?"): same verdict */
        mn = mx = 0; jo_int(out, "rret0", secp256k1_rangeproof_rewind(CTX, NULL, NULL, NULL, NULL, nonce, &mn, &mx, c, proof, plen, extra, extralen, g));
    }
    if (nonce2) {
        mn = mx = 0; mlen = mlen_in;
        jo_int(out, "wret", secp256k1_rangeproof_rewind(CTX, blind, &val, VH_RP_MOUT, &mlen, nonce2, &mn, &mx, c, proof, plen, extra, extralen, g));
        mn = mx = 0; jo_int(out, "wret0", secp256k1_rangeproof_rewind(CTX, NULL, NULL, NULL, NULL, nonce2, &mn, &mx, c, proof, plen, extra, extralen, g));
    }
}
/* rangeproof_sign with a buffer of "plen" bytes, twice (determinism); on success the proof is verified, its header decoded,
 * rewound with the creator's nonce and with "nonce2" */
static void op_RpSign(const jv *in, jout *out) {
    secp256k1_pedersen_commitment c; secp256k1_generator g; unsigned char blind[32], nonce[32], nonce2[32];
    long msglen, extralen, has_n2; size_t plen_in = (size_t)jv_int(in, "plen", VH_RP_BUF), plen, plen2, i; int ret, ret2, guard = 1;
    uint64_t value = vh_rp_u64(in, "value"), minv = vh_rp_u64(in, "min");
    int exp = (int)jv_int(in, "exp", 0), mb = (int)jv_int(in, "min_bits", 0);
    if (!vh_rp_load(in, out, &c, &g)) return;
    jv_need(in, "blind", blind, 32); jv_need(in, "nonce", nonce, 32);
    has_n2 = jv_bytes(in, "nonce2", nonce2, 32) == 32;
    msglen = jv_bytes(in, "msg", VH_RP_MSG, sizeof(VH_RP_MSG));
    extralen = jv_bytes(in, "extra", VH_RP_EXTRA, sizeof(VH_RP_EXTRA));
    if (plen_in > VH_RP_BUF) { fprintf(stderr, "vh: RpSign plen too large\n"); exit(3); }
    memset(VH_RP_P1, 0xAA, sizeof(VH_RP_P1)); memset(VH_RP_P2, 0xAA, sizeof(VH_RP_P2));
    plen = plen_in; plen2 = plen_in;
    ret = secp256k1_rangeproof_sign(CTX, VH_RP_P1, &plen, minv, &c, blind, nonce, exp, mb, value, msglen >= 0 ? VH_RP_MSG : NULL, msglen >= 0 ? (size_t)msglen : 0,
                                    extralen >= 0 ? VH_RP_EXTRA : NULL, extralen >= 0 ? (size_t)extralen : 0, &g);
    ret2 = secp256k1_rangeproof_sign(CTX, VH_RP_P2, &plen2, minv, &c, blind, nonce, exp, mb, value, msglen >= 0 ? VH_RP_MSG : NULL, msglen >= 0 ? (size_t)msglen : 0,
                                     extralen >= 0 ? VH_RP_EXTRA : NULL, extralen >= 0 ? (size_t)extralen : 0, &g);
    for (i = plen_in; i < sizeof(VH_RP_P1); i++) guard &= VH_RP_P1[i] == 0xAA;    /* nothing written behind the caller's buffer */
    jo_int(out, "ret", ret); jo_int(out, "guard", guard);
    if (!ret) { jo_int(out, "same", ret2 == 0); return; }
    jo_bytes(out, "proof", VH_RP_P1, plen <= plen_in ? plen : 0);
    jo_int(out, "same", ret2 == 1 && plen2 == plen && plen <= plen_in && memcmp(VH_RP_P1, VH_RP_P2, plen) == 0);
    jo_int(out, "maxsz_ok", plen <= secp256k1_rangeproof_max_size(CTX, value, mb));
    if (plen > plen_in) return;
    vh_rp_check(out, &c, &g, VH_RP_P1, plen, extralen >= 0 ? VH_RP_EXTRA : NULL, extralen >= 0 ? (size_t)extralen : 0, nonce, has_n2 ? nonce2 : NULL,
                (size_t)jv_int(in, "mlen", 4096));
}
/* verify (+ info, + rewind if "nonce" present) of an arbitrary byte string */
static void op_RpVerify(const jv *in, jout *out) {
    static unsigned char proof[VH_RP_BUF + 4096]; secp256k1_pedersen_commitment c; secp256k1_generator g; unsigned char nonce[32];
    long plen, extralen, has_n;
    if (!vh_rp_load(in, out, &c, &g)) return;
    plen = jv_bytes(in, "proof", proof, sizeof(proof));
    if (plen < 0) { fprintf(stderr, "vh: RpVerify needs proof\n"); exit(3); }
    extralen = jv_bytes(in, "extra", VH_RP_EXTRA, sizeof(VH_RP_EXTRA));
    has_n = jv_bytes(in, "nonce", nonce, 32) == 32;
    vh_rp_check(out, &c, &g, proof, (size_t)plen, extralen >= 0 ? VH_RP_EXTRA : NULL, extralen >= 0 ? (size_t)extralen : 0, has_n ? nonce : NULL, NULL,
                (size_t)jv_int(in, "mlen", 4096));
}
#define VH_OPS_RANGEPROOF \
    { "RpGenH", op_RpGenH }, { "RpGenerate", op_RpGenerate }, { "RpCommit", op_RpCommit }, { "RpParams", op_RpParams }, \
    { "RpMaxSize", op_RpMaxSize }, { "RpSign", op_RpSign }, { "RpVerify", op_RpVerify },
