/* C20: context life cycle as a slot machine + "every API family on fixed inputs" probe.
 * Slots hold contexts created by malloc or in caller memory; the projection after each step is
 * (per slot) alive?, the internal blinding state of ecmult_gen (scalar_offset, ge_offset, proj_blind),
 * whether a custom compression function is installed, and the outstanding-allocation counter. */
#include <sys/mman.h>
#include <signal.h>
#include <unistd.h>
#define CX_SLOTS 4
static struct { secp256k1_context *ctx; int kind; void *mem; } CX[CX_SLOTS];
static unsigned long CX_SHA_CALLS = 0;
static void cx_sha_fn(uint32_t *state, const unsigned char *blocks64, size_t n_blocks) { CX_SHA_CALLS++; secp256k1_sha256_transform(state, blocks64, n_blocks); }
static void cx_set_callbacks(secp256k1_context *c) {
    secp256k1_context_set_illegal_callback(c, vh_illegal_cb, NULL);
    secp256k1_context_set_error_callback(c, vh_error_cb, NULL);
}
static void *cx_page_alloc(void) {
    void *p = mmap(NULL, 8192, PROT_READ | PROT_WRITE, MAP_PRIVATE | MAP_ANONYMOUS, -1, 0);
    if (p == MAP_FAILED) { fprintf(stderr, "vh: mmap failed\n"); exit(3); }
    return p;
}
static void cx_blind_out(jout *out, const secp256k1_context *c) {
    unsigned char b[32]; secp256k1_ge g = c->ecmult_gen_ctx.ge_offset; secp256k1_fe f = c->ecmult_gen_ctx.proj_blind; unsigned char p33[33];
    secp256k1_scalar_get_b32(b, &c->ecmult_gen_ctx.scalar_offset); jo_bytes(out, "scalar_offset", b, 32);
    secp256k1_fe_normalize_var(&g.x); secp256k1_fe_normalize_var(&g.y);
    secp256k1_eckey_pubkey_serialize33(&g, p33); jo_bytes(out, "ge_offset", p33, 33);
    secp256k1_fe_normalize_var(&f); secp256k1_fe_get_b32(b, &f); jo_bytes(out, "proj_blind", b, 32);
    jo_int(out, "custom_sha", c->hash_ctx.fn_sha256_compression != secp256k1_sha256_transform);
}
static void cx_projection(jout *out, int s) {
    int i; char key[16];
    for (i = 0; i < CX_SLOTS; i++) { sprintf(key, "alive%d", i); jo_int(out, key, CX[i].ctx != NULL); }
    jo_int(out, "outstanding", (long long)(VH_MALLOCS - VH_FREES));
    if (s >= 0 && CX[s].ctx) cx_blind_out(out, CX[s].ctx);
    jo_int(out, "comb_bits", COMB_BITS);
}
static void op_CtxReset(const jv *in, jout *out) {
    int i; (void)in;
    for (i = 0; i < CX_SLOTS; i++) if (CX[i].ctx) {
        if (CX[i].kind == 1) secp256k1_context_destroy(CX[i].ctx); else { secp256k1_context_preallocated_destroy(CX[i].ctx); munmap(CX[i].mem, 8192); }
        CX[i].ctx = NULL; CX[i].kind = 0;
    }
    VH_MALLOCS = VH_FREES = 0;
    jo_int(out, "ret", 1); cx_projection(out, -1);
}
static void op_CtxCreate(const jv *in, jout *out) {
    int s = (int)jv_int(in, "s", 0), pre = (int)jv_int(in, "prealloc", 0); unsigned long m0 = VH_MALLOCS;
    if (pre) { CX[s].mem = cx_page_alloc(); CX[s].ctx = secp256k1_context_preallocated_create(CX[s].mem, SECP256K1_CONTEXT_NONE); CX[s].kind = 2; }
    else { CX[s].ctx = secp256k1_context_create(SECP256K1_CONTEXT_NONE); CX[s].kind = 1; }
    cx_set_callbacks(CX[s].ctx);
    jo_int(out, "ret", CX[s].ctx != NULL); jo_int(out, "mallocs", (long long)(VH_MALLOCS - m0)); cx_projection(out, s);
}
static void op_CtxClone(const jv *in, jout *out) {
    int s = (int)jv_int(in, "s", 0), t = (int)jv_int(in, "t", 1), pre = (int)jv_int(in, "prealloc", 0); unsigned long m0 = VH_MALLOCS;
    if (pre) { CX[t].mem = cx_page_alloc(); CX[t].ctx = secp256k1_context_preallocated_clone(CX[s].ctx, CX[t].mem); CX[t].kind = 2; }
    else { CX[t].ctx = secp256k1_context_clone(CX[s].ctx); CX[t].kind = 1; }
    jo_int(out, "ret", CX[t].ctx != NULL); jo_int(out, "mallocs", (long long)(VH_MALLOCS - m0)); cx_projection(out, t);
}
static void op_CtxRandomize(const jv *in, jout *out) {
    int s = (int)jv_int(in, "s", 0); unsigned char seed[32]; int has = jv_bytes(in, "seed", seed, 32) == 32;
    jo_int(out, "ret", secp256k1_context_randomize(CX[s].ctx, has ? seed : NULL)); cx_projection(out, s);
}
static void op_CtxSetSha(const jv *in, jout *out) {
    int s = (int)jv_int(in, "s", 0);
    secp256k1_context_set_sha256_compression(CX[s].ctx, jv_int(in, "custom", 0) ? cx_sha_fn : NULL);
    jo_int(out, "ret", 1); cx_projection(out, s);
}
static void op_CtxDestroy(const jv *in, jout *out) {
    int s = (int)jv_int(in, "s", 0); unsigned long f0 = VH_FREES;
    if (CX[s].kind == 1) secp256k1_context_destroy(CX[s].ctx); else { secp256k1_context_preallocated_destroy(CX[s].ctx); munmap(CX[s].mem, 8192); }
    CX[s].ctx = NULL; CX[s].kind = 0;
    jo_int(out, "ret", 1); jo_int(out, "frees", (long long)(VH_FREES - f0)); cx_projection(out, -1);
}

/* ---- every API family on fixed inputs --------------------------------------------------------- */
typedef struct { secp256k1_sha256 sha; int ret; long icb0; } cx_fam;
static void cx_begin(cx_fam *f) { secp256k1_sha256_initialize(&f->sha); f->ret = 0; f->icb0 = ICB; }
static void cx_add(cx_fam *f, const void *p, size_t n) { secp256k1_sha256_write(secp256k1_get_hash_context(secp256k1_context_static), &f->sha, (const unsigned char*)p, n); }
static void cx_end(cx_fam *f, jout *out, const char *name) {
    unsigned char h[32]; unsigned char v[10];
    secp256k1_sha256_finalize(secp256k1_get_hash_context(secp256k1_context_static), &f->sha, h);
    v[0] = (unsigned char)f->ret; v[1] = (unsigned char)((ICB - f->icb0) > 0); memcpy(v + 2, h, 8);
    jo_bytes(out, name, v, 10);
}
static const unsigned char CX_SK[32] = { 0x01,2,3,4,5,6,7,8,9,10,11,12,13,14,15,16,17,18,19,20,21,22,23,24,25,26,27,28,29,30,31,32 };
static const unsigned char CX_SK2[32] = { 0x02,2,3,4,5,6,7,8,9,10,11,12,13,14,15,16,17,18,19,20,21,22,23,24,25,26,27,28,29,30,31,99 };
static const unsigned char CX_MSG[32] = { 0xaa,0xbb,3,4,5,6,7,8,9,10,11,12,13,14,15,16,17,18,19,20,21,22,23,24,25,26,27,28,29,30,31,77 };
/* public material prepared once with the harness' own context (inputs of the probe, not results) */
static struct { int ready; secp256k1_pubkey pk, pk2; secp256k1_xonly_pubkey xpk; secp256k1_ecdsa_signature esig; unsigned char ssig[64];
                secp256k1_keypair kp; unsigned char ell[64], ell2[64]; secp256k1_generator gen; secp256k1_pedersen_commitment com;
                unsigned char proof[5134]; size_t plen; unsigned char blind[32]; unsigned char adaptor[162];
                secp256k1_xonly_pubkey hxpk[2]; unsigned char hmsgs[64], hsigs[128], hagg[96]; size_t hagglen; secp256k1_ecdsa_signature s2csig; secp256k1_ecdsa_s2c_opening s2cop;
                secp256k1_ecdsa_signature adsig; } CXI;
static void cx_inputs(void) {
    if (CXI.ready) return;
    memset(CXI.blind, 0x21, 32);
    if (!secp256k1_ec_pubkey_create(CTX, &CXI.pk, CX_SK) || !secp256k1_ec_pubkey_create(CTX, &CXI.pk2, CX_SK2)) exit(3);
    if (!secp256k1_keypair_create(CTX, &CXI.kp, CX_SK) || !secp256k1_keypair_xonly_pub(CTX, &CXI.xpk, NULL, &CXI.kp)) exit(3);
    if (!secp256k1_ecdsa_sign(CTX, &CXI.esig, CX_MSG, CX_SK, NULL, NULL)) exit(3);
    if (!secp256k1_schnorrsig_sign32(CTX, CXI.ssig, CX_MSG, &CXI.kp, NULL)) exit(3);
    if (!secp256k1_ellswift_create(CTX, CXI.ell, CX_SK, NULL) || !secp256k1_ellswift_create(CTX, CXI.ell2, CX_SK2, NULL)) exit(3);
    if (!secp256k1_generator_generate(CTX, &CXI.gen, CX_MSG)) exit(3);
    if (!secp256k1_pedersen_commit(CTX, &CXI.com, CXI.blind, 77, &CXI.gen)) exit(3);
    CXI.plen = sizeof(CXI.proof);
    if (!secp256k1_rangeproof_sign(CTX, CXI.proof, &CXI.plen, 0, &CXI.com, CXI.blind, CX_MSG, 0, 8, 77, NULL, 0, NULL, 0, &CXI.gen)) exit(3);
    if (!secp256k1_ecdsa_adaptor_encrypt(CTX, CXI.adaptor, (unsigned char*)CX_SK, &CXI.pk2, CX_MSG, NULL, NULL)) exit(3);
    { secp256k1_keypair kp2; if (!secp256k1_keypair_create(CTX, &kp2, CX_SK2) || !secp256k1_keypair_xonly_pub(CTX, &CXI.hxpk[1], NULL, &kp2)) exit(3);
      CXI.hxpk[0] = CXI.xpk; memcpy(CXI.hmsgs, CX_MSG, 32); memset(CXI.hmsgs + 32, 0x19, 32);
      if (!secp256k1_schnorrsig_sign32(CTX, CXI.hsigs, CXI.hmsgs, &CXI.kp, NULL) || !secp256k1_schnorrsig_sign32(CTX, CXI.hsigs + 64, CXI.hmsgs + 32, &kp2, NULL)) exit(3);
      CXI.hagglen = sizeof(CXI.hagg); if (!secp256k1_schnorrsig_aggregate(CTX, CXI.hagg, &CXI.hagglen, CXI.hxpk, CXI.hmsgs, CXI.hsigs, 2)) exit(3); }
    if (!secp256k1_ecdsa_s2c_sign(CTX, &CXI.s2csig, &CXI.s2cop, CX_MSG, CX_SK, CX_SK2)) exit(3);
    if (!secp256k1_ecdsa_adaptor_decrypt(CTX, &CXI.adsig, CX_SK2, CXI.adaptor)) exit(3);
    CXI.ready = 1;
}
/* run all families on context c; mask selects cheap subset (bit0) or everything */
/* family selection: CX_ONLY < 0 runs all, otherwise only the family with that index */
static int CX_ONLY = -1, CX_FAMIDX = 0;
static int cx_take(void) { int k = CX_FAMIDX++; return CX_ONLY < 0 || CX_ONLY == k; }
#define FAM if (cx_take())
static void cx_call_all(const secp256k1_context *c, jout *out, int full) {
    cx_fam f; unsigned char b[200]; size_t l;
    cx_inputs(); CX_FAMIDX = 0;
    FAM { secp256k1_pubkey pk; cx_begin(&f); memset(&pk, 0, sizeof(pk)); f.ret = secp256k1_ec_pubkey_create(c, &pk, CX_SK); cx_add(&f, &pk, sizeof(pk)); cx_end(&f, out, "f_pubkey_create"); }
    FAM { secp256k1_ecdsa_signature s; cx_begin(&f); memset(&s, 0, sizeof(s)); f.ret = secp256k1_ecdsa_sign(c, &s, CX_MSG, CX_SK, NULL, NULL); cx_add(&f, &s, sizeof(s)); cx_end(&f, out, "f_ecdsa_sign"); }
    FAM { cx_begin(&f); f.ret = secp256k1_ecdsa_verify(c, &CXI.esig, CX_MSG, &CXI.pk); cx_end(&f, out, "f_ecdsa_verify"); }
    FAM { secp256k1_keypair kp; cx_begin(&f); memset(&kp, 0, sizeof(kp)); f.ret = secp256k1_keypair_create(c, &kp, CX_SK); cx_add(&f, &kp, sizeof(kp)); cx_end(&f, out, "f_keypair_create"); }
    FAM { unsigned char s64[64]; cx_begin(&f); memset(s64, 0, 64); f.ret = secp256k1_schnorrsig_sign32(c, s64, CX_MSG, &CXI.kp, CX_SK2); cx_add(&f, s64, 64); cx_end(&f, out, "f_schnorr_sign"); }
    FAM { cx_begin(&f); f.ret = secp256k1_schnorrsig_verify(c, CXI.ssig, CX_MSG, 32, &CXI.xpk); cx_end(&f, out, "f_schnorr_verify"); }
    FAM { unsigned char sk[32]; cx_begin(&f); memcpy(sk, CX_SK, 32); f.ret = secp256k1_ec_seckey_tweak_add(c, sk, CX_SK2); cx_add(&f, sk, 32); cx_end(&f, out, "f_seckey_tweak_add"); }
    FAM { secp256k1_pubkey pk = CXI.pk; cx_begin(&f); f.ret = secp256k1_ec_pubkey_tweak_add(c, &pk, CX_SK2); l = 33; secp256k1_ec_pubkey_serialize(c, b, &l, &pk, SECP256K1_EC_COMPRESSED); cx_add(&f, b, 33); cx_end(&f, out, "f_pubkey_tweak_add"); }
    FAM { secp256k1_pubkey pk = CXI.pk; cx_begin(&f); f.ret = secp256k1_ec_pubkey_tweak_mul(c, &pk, CX_SK2); cx_add(&f, &pk, sizeof(pk)); cx_end(&f, out, "f_pubkey_tweak_mul"); }
    FAM { secp256k1_keypair kp = CXI.kp; cx_begin(&f); f.ret = secp256k1_keypair_xonly_tweak_add(c, &kp, CX_SK2); cx_add(&f, &kp, sizeof(kp)); cx_end(&f, out, "f_keypair_tweak"); }
    FAM { cx_begin(&f); memset(b, 0, 32); f.ret = secp256k1_ecdh(c, b, &CXI.pk2, CX_SK, NULL, NULL); cx_add(&f, b, 32); cx_end(&f, out, "f_ecdh"); }
    FAM { cx_begin(&f); memset(b, 0, 32); f.ret = secp256k1_tagged_sha256(c, b, (const unsigned char*)"tag", 3, CX_MSG, 32); cx_add(&f, b, 32); cx_end(&f, out, "f_tagged_sha256"); }
    FAM { cx_begin(&f); memset(b, 0, 64); f.ret = secp256k1_ellswift_create(c, b, CX_SK, CX_SK2); cx_add(&f, b, 64); cx_end(&f, out, "f_ellswift_create"); }
    FAM { cx_begin(&f); memset(b, 0, 32); f.ret = secp256k1_ellswift_xdh(c, b, CXI.ell, CXI.ell2, CX_SK, 0, secp256k1_ellswift_xdh_hash_function_bip324, NULL); cx_add(&f, b, 32); cx_end(&f, out, "f_ellswift_xdh"); }
    FAM { secp256k1_pedersen_commitment pc; cx_begin(&f); memset(&pc, 0, sizeof(pc)); f.ret = secp256k1_pedersen_commit(c, &pc, CXI.blind, 77, &CXI.gen); cx_add(&f, &pc, sizeof(pc)); cx_end(&f, out, "f_pedersen_commit"); }
    FAM { secp256k1_generator g; cx_begin(&f); memset(&g, 0, sizeof(g)); f.ret = secp256k1_generator_generate_blinded(c, &g, CX_MSG, CXI.blind); cx_add(&f, &g, sizeof(g)); cx_end(&f, out, "f_generator_blinded"); }
    FAM { secp256k1_ecdsa_signature s2; cx_begin(&f); l = 80; memset(b, 0, 80); f.ret = secp256k1_ecdsa_signature_serialize_der(c, b, &l, &CXI.esig); cx_add(&f, b, l);
          f.ret += 2 * secp256k1_ecdsa_signature_parse_der(c, &s2, b, l); cx_add(&f, &s2, sizeof(s2)); cx_end(&f, out, "f_der"); }
    if (!full) return;
    FAM { unsigned char agg[96]; size_t al = sizeof(agg); cx_begin(&f); memset(agg, 0, 96); f.ret = secp256k1_schnorrsig_aggregate(c, agg, &al, CXI.hxpk, CXI.hmsgs, CXI.hsigs, 2); cx_add(&f, agg, al); cx_end(&f, out, "f_halfagg_aggregate"); }
    FAM { cx_begin(&f); f.ret = secp256k1_schnorrsig_aggverify(c, CXI.hxpk, CXI.hmsgs, 2, CXI.hagg, CXI.hagglen); cx_end(&f, out, "f_halfagg_verify"); }
    FAM { const secp256k1_pedersen_commitment *pc[1]; cx_begin(&f); pc[0] = &CXI.com; f.ret = secp256k1_pedersen_verify_tally(c, pc, 1, pc, 1); cx_end(&f, out, "f_pedersen_tally"); }
    FAM { cx_begin(&f); f.ret = secp256k1_ecdsa_s2c_verify_commit(c, &CXI.s2csig, CX_SK2, &CXI.s2cop); cx_end(&f, out, "f_s2c_verify_commit"); }
    FAM { cx_begin(&f); f.ret = secp256k1_anti_exfil_host_verify(c, &CXI.s2csig, CX_MSG, &CXI.pk, CX_SK2, &CXI.s2cop); cx_end(&f, out, "f_anti_exfil_host_verify"); }
    FAM { secp256k1_ecdsa_signature sg; cx_begin(&f); memset(&sg, 0, sizeof(sg)); f.ret = secp256k1_ecdsa_adaptor_decrypt(c, &sg, CX_SK2, CXI.adaptor); cx_add(&f, &sg, sizeof(sg)); cx_end(&f, out, "f_adaptor_decrypt"); }
    FAM { unsigned char dk[32]; cx_begin(&f); memset(dk, 0, 32); f.ret = secp256k1_ecdsa_adaptor_recover(c, dk, &CXI.adsig, CXI.adaptor, &CXI.pk2); cx_add(&f, dk, 32); cx_end(&f, out, "f_adaptor_recover"); }
    FAM { unsigned char bl[32], m[64]; size_t ml = sizeof(m); uint64_t v = 0, mn = 0, mx = 0; cx_begin(&f); memset(bl, 0, 32);
          f.ret = secp256k1_rangeproof_rewind(c, bl, &v, m, &ml, CX_MSG, &mn, &mx, &CXI.com, CXI.proof, CXI.plen, NULL, 0, &CXI.gen); cx_add(&f, bl, 32); cx_add(&f, &v, 8); cx_end(&f, out, "f_rangeproof_rewind"); }
    FAM { int e = 0, ma = 0; uint64_t mn = 0, mx = 0; cx_begin(&f); f.ret = secp256k1_rangeproof_info(c, &e, &ma, &mn, &mx, CXI.proof, CXI.plen); cx_add(&f, &e, sizeof(e)); cx_add(&f, &mx, 8); cx_end(&f, out, "f_rangeproof_info"); }
    FAM { secp256k1_pubkey dp; cx_begin(&f); memset(&dp, 0, sizeof(dp)); f.ret = secp256k1_ellswift_decode(c, &dp, CXI.ell); cx_add(&f, &dp, sizeof(dp)); cx_end(&f, out, "f_ellswift_decode"); }
    FAM { unsigned char e64[64]; cx_begin(&f); memset(e64, 0, 64); f.ret = secp256k1_ellswift_encode(c, e64, &CXI.pk, CX_SK2); cx_add(&f, e64, 64); cx_end(&f, out, "f_ellswift_encode"); }
    FAM { secp256k1_xonly_pubkey xo; secp256k1_pubkey tw; int par = 0; unsigned char x32[32]; cx_begin(&f);
          f.ret = secp256k1_xonly_pubkey_tweak_add(c, &tw, &CXI.xpk, CX_SK2) + 2 * secp256k1_xonly_pubkey_from_pubkey(c, &xo, &par, &tw);
          secp256k1_xonly_pubkey_serialize(c, x32, &xo); cx_add(&f, x32, 32);
          f.ret += 4 * secp256k1_xonly_pubkey_tweak_add_check(c, x32, par, &CXI.xpk, CX_SK2); cx_end(&f, out, "f_xonly"); }
    FAM { uint64_t mn = 0, mx = 0; cx_begin(&f); f.ret = secp256k1_rangeproof_verify(c, &mn, &mx, &CXI.com, CXI.proof, CXI.plen, NULL, 0, &CXI.gen); cx_add(&f, &mn, 8); cx_add(&f, &mx, 8); cx_end(&f, out, "f_rangeproof_verify"); }
    FAM { static unsigned char cx_pr[5134]; size_t pl = sizeof(cx_pr); cx_begin(&f); f.ret = secp256k1_rangeproof_sign(c, cx_pr, &pl, 0, &CXI.com, CXI.blind, CX_MSG, 0, 8, 77, NULL, 0, NULL, 0, &CXI.gen); if (f.ret) cx_add(&f, cx_pr, pl); cx_end(&f, out, "f_rangeproof_sign"); }
    FAM { unsigned char a[162]; cx_begin(&f); memset(a, 0, 162); f.ret = secp256k1_ecdsa_adaptor_encrypt(c, a, (unsigned char*)CX_SK, &CXI.pk2, CX_MSG, NULL, NULL); cx_add(&f, a, 162); cx_end(&f, out, "f_adaptor_encrypt"); }
    FAM { cx_begin(&f); f.ret = secp256k1_ecdsa_adaptor_verify(c, CXI.adaptor, &CXI.pk, CX_MSG, &CXI.pk2); cx_end(&f, out, "f_adaptor_verify"); }
    FAM { secp256k1_ecdsa_signature s; secp256k1_ecdsa_s2c_opening op; cx_begin(&f); memset(&s, 0, sizeof(s)); memset(&op, 0, sizeof(op)); f.ret = secp256k1_ecdsa_s2c_sign(c, &s, &op, CX_MSG, CX_SK, CX_SK2); cx_add(&f, &s, sizeof(s)); cx_add(&f, &op, sizeof(op)); cx_end(&f, out, "f_s2c_sign"); }
    FAM { secp256k1_musig_secnonce sn; secp256k1_musig_pubnonce pn; unsigned char rnd[32]; cx_begin(&f); memset(rnd, 0x42, 32); memset(&pn, 0, sizeof(pn));
      f.ret = secp256k1_musig_nonce_gen(c, &sn, &pn, rnd, CX_SK, &CXI.pk, CX_MSG, NULL, NULL); cx_add(&f, &pn, sizeof(pn)); cx_end(&f, out, "f_musig_nonce_gen"); }
    FAM { const secp256k1_pubkey *pks[2]; secp256k1_xonly_pubkey agg; secp256k1_musig_keyagg_cache cache; cx_begin(&f); pks[0] = &CXI.pk; pks[1] = &CXI.pk2; memset(&agg, 0, sizeof(agg));
      f.ret = secp256k1_musig_pubkey_agg(c, &agg, &cache, pks, 2); cx_add(&f, &agg, sizeof(agg)); cx_end(&f, out, "f_musig_keyagg"); }
    FAM { secp256k1_whitelist_signature ws; secp256k1_pubkey on[2], off[2]; unsigned char ser[200]; size_t sl = sizeof(ser); unsigned char sum[32];
      cx_begin(&f); on[0] = CXI.pk; on[1] = CXI.pk2; off[0] = CXI.pk2; off[1] = CXI.pk; memcpy(sum, CX_SK2, 32);
      /* summed key = offline secret (CX_SK2) + whitelisted secret (CX_SK); whitelisted key = CXI.pk */
      if (secp256k1_ec_seckey_tweak_add(CTX, sum, CX_SK)) { memset(&ws, 0, sizeof(ws)); f.ret = secp256k1_whitelist_sign(c, &ws, on, off, 2, &CXI.pk, CX_SK, sum, 0);
        if (f.ret) { secp256k1_whitelist_signature_serialize(c, ser, &sl, &ws); cx_add(&f, ser, sl); f.ret += 2 * secp256k1_whitelist_verify(c, &ws, on, off, 2, &CXI.pk); } }
      cx_end(&f, out, "f_whitelist"); }
    /* the optional-argument spellings of the signing calls (NULL auxiliary randomness / NULL extra parameters / explicit
     * nonce function with extra data): a result that absorbs context state only on the defaulted path shows up here */
    FAM { unsigned char s64[64]; cx_begin(&f); memset(s64, 0, 64); f.ret = secp256k1_schnorrsig_sign32(c, s64, CX_MSG, &CXI.kp, NULL); cx_add(&f, s64, 64); cx_end(&f, out, "f_schnorr_sign_noaux"); }
    FAM { unsigned char s64[64]; secp256k1_schnorrsig_extraparams ep = SECP256K1_SCHNORRSIG_EXTRAPARAMS_INIT; cx_begin(&f); memset(s64, 0, 64);
          f.ret = secp256k1_schnorrsig_sign_custom(c, s64, CX_MSG, 32, &CXI.kp, NULL); cx_add(&f, s64, 64);
          f.ret += 2 * secp256k1_schnorrsig_sign_custom(c, s64, CX_MSG, 17, &CXI.kp, &ep); cx_add(&f, s64, 64);
          ep.ndata = (void*)CX_SK2; f.ret += 4 * secp256k1_schnorrsig_sign_custom(c, s64, CX_MSG, 0, &CXI.kp, &ep); cx_add(&f, s64, 64); cx_end(&f, out, "f_schnorr_sign_custom"); }
    FAM { secp256k1_ecdsa_signature s; cx_begin(&f); memset(&s, 0, sizeof(s)); f.ret = secp256k1_ecdsa_sign(c, &s, CX_MSG, CX_SK, secp256k1_nonce_function_rfc6979, (void*)CX_SK2); cx_add(&f, &s, sizeof(s)); cx_end(&f, out, "f_ecdsa_sign_ndata"); }
    FAM { unsigned char a[162]; cx_begin(&f); memset(a, 0, 162); f.ret = secp256k1_ecdsa_adaptor_encrypt(c, a, (unsigned char*)CX_SK, &CXI.pk2, CX_MSG, secp256k1_nonce_function_ecdsa_adaptor, (void*)CX_SK2); cx_add(&f, a, 162); cx_end(&f, out, "f_adaptor_encrypt_ndata"); }
    FAM { secp256k1_musig_secnonce sn; secp256k1_musig_pubnonce pn; unsigned char rnd[32]; cx_begin(&f); memset(rnd, 0x43, 32); memset(&pn, 0, sizeof(pn));
      f.ret = secp256k1_musig_nonce_gen(c, &sn, &pn, rnd, NULL, &CXI.pk, NULL, NULL, NULL); cx_add(&f, &pn, sizeof(pn)); cx_end(&f, out, "f_musig_nonce_gen_min"); }
    /* a complete two-signer MuSig session on context c (both signers local): aggregate key, nonces, partial signatures, final signature */
    FAM { const secp256k1_pubkey *pks[2]; secp256k1_xonly_pubkey agg; secp256k1_musig_keyagg_cache cache; secp256k1_musig_secnonce sn[2]; secp256k1_musig_pubnonce pn[2];
      const secp256k1_musig_pubnonce *pnp[2]; secp256k1_musig_aggnonce an; secp256k1_musig_session ses; secp256k1_musig_partial_sig ps[2]; const secp256k1_musig_partial_sig *psp[2];
      secp256k1_keypair kp2; unsigned char rnd[32], sig[64]; int r = 1;
      cx_begin(&f); pks[0] = &CXI.pk; pks[1] = &CXI.pk2; pnp[0] = &pn[0]; pnp[1] = &pn[1]; psp[0] = &ps[0]; psp[1] = &ps[1]; memset(sig, 0, 64);
      r = r && secp256k1_keypair_create(CTX, &kp2, CX_SK2);
      r = r && secp256k1_musig_pubkey_agg(c, &agg, &cache, pks, 2);
      memset(rnd, 0x51, 32); r = r && secp256k1_musig_nonce_gen(c, &sn[0], &pn[0], rnd, CX_SK, &CXI.pk, CX_MSG, &cache, NULL);
      memset(rnd, 0x52, 32); r = r && secp256k1_musig_nonce_gen(c, &sn[1], &pn[1], rnd, CX_SK2, &CXI.pk2, CX_MSG, &cache, NULL);
      r = r && secp256k1_musig_nonce_agg(c, &an, pnp, 2);
      r = r && secp256k1_musig_nonce_process(c, &ses, &an, CX_MSG, &cache, NULL);
      r = r && secp256k1_musig_partial_sign(c, &ps[0], &sn[0], &CXI.kp, &cache, &ses);
      r = r && secp256k1_musig_partial_sign(c, &ps[1], &sn[1], &kp2, &cache, &ses);
      r = r && secp256k1_musig_partial_sig_verify(c, &ps[0], &pn[0], &CXI.pk, &cache, &ses);
      r = r && secp256k1_musig_partial_sig_agg(c, sig, &ses, psp, 2);
      r = r && secp256k1_schnorrsig_verify(c, sig, CX_MSG, 32, &agg);
      f.ret = r; cx_add(&f, sig, 64); cx_end(&f, out, "f_musig_session"); }
    /* the life cycle of a PRIVATE context (create, randomize, replace and restore the compression function, clone, destroy): it is a
     * family so that the write-footprint probe sees whether any of these calls touches library globals */
    FAM { secp256k1_context *a, *b2; unsigned char seed[32]; int r = 1;
      cx_begin(&f); memset(seed, 0x77, 32);
      a = secp256k1_context_create(SECP256K1_CONTEXT_NONE); r = r && a != NULL;
      if (a) { cx_set_callbacks(a); r = r && secp256k1_context_randomize(a, seed);
               secp256k1_context_set_sha256_compression(a, cx_sha_fn); secp256k1_context_set_sha256_compression(a, NULL);
               b2 = secp256k1_context_clone(a); r = r && b2 != NULL; if (b2) secp256k1_context_destroy(b2); secp256k1_context_destroy(a); }
      f.ret = r; cx_end(&f, out, "f_private_lifecycle"); }
    /* inputs long enough for a single SHA-256 write to hold several whole blocks (the block-wise path of sha256_write, which differs
     * between the built-in and a replaced compression function): tagged hash with a 200-byte tag and a 300-byte message,
     * BIP-340 signing and verification of a 300-byte message */
    FAM { unsigned char lm[300]; unsigned char h[32]; int i;
      cx_begin(&f); for (i = 0; i < 300; i++) lm[i] = (unsigned char)(i * 7 + 1);
      f.ret = secp256k1_tagged_sha256(c, h, lm, 200, lm, 300); cx_add(&f, h, 32); cx_end(&f, out, "f_tagged_sha256_long"); }
    FAM { unsigned char lm2[300]; unsigned char s64[64]; int i, r;
      cx_begin(&f); for (i = 0; i < 300; i++) lm2[i] = (unsigned char)(i * 5 + 3);
      memset(s64, 0, 64); r = secp256k1_schnorrsig_sign_custom(c, s64, lm2, 300, &CXI.kp, NULL); cx_add(&f, s64, 64);
      if (r) r += 2 * secp256k1_schnorrsig_verify(c, s64, lm2, 300, &CXI.xpk);
      f.ret = r; cx_end(&f, out, "f_schnorr_long_message"); }
}
/* a replaced compression function belongs to ONE context: install the counting function on a private context and hash through
 * the static context and through the exported (context-free) nonce function -- none of these calls may reach it */
static long cx_sha_foreign(void) {
    secp256k1_context *a = secp256k1_context_create(SECP256K1_CONTEXT_NONE); unsigned long c0; unsigned char b[32], n32[32]; long r;
    cx_set_callbacks(a); secp256k1_context_set_sha256_compression(a, cx_sha_fn); c0 = CX_SHA_CALLS;
    (void)secp256k1_tagged_sha256(secp256k1_context_static, b, (const unsigned char*)"tag", 3, CX_MSG, 32);
    (void)secp256k1_nonce_function_rfc6979(n32, CX_MSG, CX_SK, NULL, NULL, 0);
    (void)secp256k1_nonce_function_default(n32, CX_MSG, CX_SK, NULL, NULL, 1);
    r = (long)(CX_SHA_CALLS - c0);
    secp256k1_context_set_sha256_compression(a, NULL);
    secp256k1_context_destroy(a);
    /* ... and after the private context is gone */
    c0 = CX_SHA_CALLS; (void)secp256k1_tagged_sha256(secp256k1_context_static, b, (const unsigned char*)"tag", 3, CX_MSG, 32); r += (long)(CX_SHA_CALLS - c0);
    return r;
}
static void op_CtxCallAll(const jv *in, jout *out) {
    int s = (int)jv_int(in, "s", 0);
    cx_call_all(CX[s].ctx, out, (int)jv_int(in, "full", 1)); jo_int(out, "ret", 1);
    jo_int(out, "sha_foreign", cx_sha_foreign());
}
/* static context and a byte copy of it */
static void op_CtxCallStatic(const jv *in, jout *out) {
    secp256k1_context copy; const secp256k1_context *c = secp256k1_context_static;
    if (jv_int(in, "copy", 0)) { memcpy(&copy, secp256k1_context_static, sizeof(copy)); cx_set_callbacks(&copy); c = &copy; }
    else {
        /* the static context aborts on illegal use by default: observe through a copy with counting callbacks is the
         * only way to see a return value, so the genuine static object is used only for the documented-static families */
        cx_fam f; cx_inputs();
        cx_begin(&f); f.ret = secp256k1_ecdsa_verify(c, &CXI.esig, CX_MSG, &CXI.pk); cx_end(&f, out, "f_ecdsa_verify");
        cx_begin(&f); f.ret = secp256k1_schnorrsig_verify(c, CXI.ssig, CX_MSG, 32, &CXI.xpk); cx_end(&f, out, "f_schnorr_verify");
        { unsigned char b[32]; cx_begin(&f); memset(b, 0, 32); f.ret = secp256k1_tagged_sha256(c, b, (const unsigned char*)"tag", 3, CX_MSG, 32); cx_add(&f, b, 32); cx_end(&f, out, "f_tagged_sha256"); }
        { unsigned char b[32]; cx_begin(&f); memset(b, 0, 32); f.ret = secp256k1_ecdh(c, b, &CXI.pk2, CX_SK, NULL, NULL); cx_add(&f, b, 32); cx_end(&f, out, "f_ecdh"); }
        { uint64_t mn = 0, mx = 0; cx_begin(&f); f.ret = secp256k1_rangeproof_verify(c, &mn, &mx, &CXI.com, CXI.proof, CXI.plen, NULL, 0, &CXI.gen); cx_add(&f, &mn, 8); cx_add(&f, &mx, 8); cx_end(&f, out, "f_rangeproof_verify"); }
        cx_begin(&f); f.ret = secp256k1_ecdsa_adaptor_verify(c, CXI.adaptor, &CXI.pk, CX_MSG, &CXI.pk2); cx_end(&f, out, "f_adaptor_verify");
        jo_int(out, "ret", 1); return;
    }
    cx_call_all(c, out, 1); jo_int(out, "ret", 1);
}
/* const-context API on a READ-ONLY context: the context lives on its own page, PROT_READ during the calls */
static volatile sig_atomic_t CX_FAULT = 0;
static void cx_segv(int sig, siginfo_t *si, void *u) { (void)sig; (void)u; (void)si; CX_FAULT = 1; fprintf(stdout, "{\"e\":\"CtxFault\",\"in\":{},\"out\":{\"write_to_readonly_context\":1}}\n"); fflush(stdout); _exit(0); }
static void op_CtxReadOnlyCallAll(const jv *in, jout *out) {
    void *mem = cx_page_alloc(); secp256k1_context *c = secp256k1_context_preallocated_create(mem, SECP256K1_CONTEXT_NONE); unsigned char seed[32];
    struct sigaction sa; (void)in;
    cx_inputs(); cx_set_callbacks(c); memset(seed, 0x5c, 32); secp256k1_context_randomize(c, seed);
    memset(&sa, 0, sizeof(sa)); sa.sa_sigaction = cx_segv; sa.sa_flags = SA_SIGINFO; sigaction(SIGSEGV, &sa, NULL);
    mprotect(mem, 8192, PROT_READ);
    cx_call_all(c, out, 1);
    mprotect(mem, 8192, PROT_READ | PROT_WRITE);
    signal(SIGSEGV, SIG_DFL);
    secp256k1_context_preallocated_destroy(c); munmap(mem, 8192);
    jo_int(out, "ret", 1); jo_int(out, "fault", CX_FAULT);
}
/* which writable globals of the library does each API family modify?  in: syms = [[addr_hi, addr_lo, size], ...]
 * (addresses split in two 24-bit halves... given as decimal strings would not fit the int parser) */
static void op_CtxGlobalsProbe(const jv *in, jout *out) {
    const jv *syms = jv_get(in, "syms"); const jv *c; int k, nf = 0; char key[32];
    /* symbol offsets come from objdump of this (position-independent) binary; the anchor gives the load base */
    uintptr_t base = (uintptr_t)&VH_MALLOCS - (uintptr_t)jv_int(in, "anchor", 0);
    void *mem = cx_page_alloc(); secp256k1_context *ctx = secp256k1_context_preallocated_create(mem, SECP256K1_CONTEXT_NONE);
    static unsigned char cx_snap[1 << 16]; jout tmp; memset(&tmp, 0, sizeof(tmp));
    cx_set_callbacks(ctx); cx_inputs();
    /* count families */
    CX_ONLY = 1000; tmp.len = 0; tmp.first = 1; cx_call_all(ctx, &tmp, 1); nf = CX_FAMIDX;
    for (k = 0; k < nf; k++) {
        size_t off = 0; int idx = 0; unsigned char hits[64]; size_t nh = 0; static unsigned char cx_dirtied[256];
        /* snapshot; a global that is currently ALL-ZERO (unused .bss) is filled with 0xA5 for the duration of the call: a routine that
         * uses it as scratch space and wipes it afterwards would otherwise leave no net change */
        for (c = syms ? syms->child : NULL; c; c = c->next, idx++) { unsigned long long a = (unsigned long long)jv_elem(c, 0)->i; size_t n = (size_t)jv_elem(c, 1)->i, j; int allz = 1;
            unsigned char *g = (unsigned char*)(base + (uintptr_t)a);
            if (off + n > sizeof(cx_snap)) break;
            for (j = 0; j < n; j++) if (g[j]) allz = 0;
            if (idx < 256) cx_dirtied[idx] = (unsigned char)allz;
            if (allz) memset(g, 0xA5, n);
            memcpy(cx_snap + off, g, n); off += n; }
        CX_ONLY = k; tmp.len = 0; tmp.first = 1; cx_call_all(ctx, &tmp, 1);
        off = 0; idx = 0;
        for (c = syms ? syms->child : NULL; c; c = c->next, idx++) { unsigned long long a = (unsigned long long)jv_elem(c, 0)->i; size_t n = (size_t)jv_elem(c, 1)->i;
            unsigned char *g = (unsigned char*)(base + (uintptr_t)a);
            if (off + n > sizeof(cx_snap)) break;
            if (memcmp(cx_snap + off, g, n) != 0) { if (nh < 64) hits[nh++] = (unsigned char)idx; }
            if (idx < 256 && cx_dirtied[idx]) memset(g, 0, n);       /* back to the unused state */
            off += n; }
        sprintf(key, "w%d", k); jo_bytes(out, key, hits, nh);
    }
    CX_ONLY = -1;
    jo_int(out, "nfam", nf); jo_int(out, "ret", 1);
    secp256k1_context_preallocated_destroy(ctx); munmap(mem, 8192); free(tmp.b);
}
#define VH_OPS_CTX \
    { "CtxGlobalsProbe", op_CtxGlobalsProbe }, \
    { "CtxReset", op_CtxReset }, { "CtxCreate", op_CtxCreate }, { "CtxClone", op_CtxClone }, { "CtxRandomize", op_CtxRandomize }, \
    { "CtxSetSha", op_CtxSetSha }, { "CtxDestroy", op_CtxDestroy }, { "CtxCallAll", op_CtxCallAll }, { "CtxCallStatic", op_CtxCallStatic }, \
    { "CtxReadOnlyCallAll", op_CtxReadOnlyCallAll },
