/* C13: the MuSig secnonce life cycle as a slot machine.  The driver (Python, walking the TLC state
 * graph) issues one record per specification action; each reply carries the PROJECTION of the
 * concrete client state: class of every secnonce object (zero / live / junk), the key it is bound
 * to, which generated nonce it holds, and whether each randomness buffer is all-zero. */
#define MN_OBJ 4
#define MN_BUF 4
#define MN_KEY 4   /* keys 0..NKey-1; twin of key 0 (same x, opposite y) at index nkey; endomorphism image of key 0 (same y, x*beta) at nkey+1 */
#define MN_IDS 64
static struct {
    int nkey;
    unsigned char sk[MN_KEY + 2][32];
    secp256k1_keypair kp[MN_KEY + 2];
    secp256k1_pubkey pk[MN_KEY + 2];
    secp256k1_keypair kp_other; secp256k1_pubkey pk_other;
    secp256k1_musig_keyagg_cache cache[MN_KEY + 2];
    secp256k1_musig_secnonce obj[MN_OBJ];
    unsigned char buf[MN_BUF][64];   /* 32 bytes of session randomness each, followed by 32 guard bytes (0xA5) that are NOT part of the argument */
    /* per generated nonce */
    int nids;
    unsigned char kbytes[MN_IDS][64];
    int idkey[MN_IDS];
    secp256k1_musig_pubnonce pubnonce[MN_IDS];
    secp256k1_musig_session session[MN_IDS];
    secp256k1_musig_pubnonce other_pubnonce;
    secp256k1_musig_session default_session;
    unsigned char msg[32];
    unsigned long fresh_ctr;
    int dup;          /* number of successful nonce generations that returned secret-nonce bytes already handed out before */
    int nobj, nbuf;
} MN;

static void mn_make_session(secp256k1_musig_session *session, const secp256k1_musig_pubnonce *mine, int key) {
    const secp256k1_musig_pubnonce *pn[2]; secp256k1_musig_aggnonce agg;
    pn[0] = mine; pn[1] = &MN.other_pubnonce;
    if (!secp256k1_musig_nonce_agg(CTX, &agg, pn, 2) || !secp256k1_musig_nonce_process(CTX, session, &agg, MN.msg, &MN.cache[key], NULL)) {
        fprintf(stderr, "vh: mn_make_session failed\n"); exit(3);
    }
}
static void op_MnSetup(const jv *in, jout *out) {
    int i; unsigned char seed[32], osk[32]; secp256k1_musig_secnonce sn; secp256k1_musig_pubnonce pn0;
    memset(&MN, 0, sizeof(MN));
    { int gb; for (gb = 0; gb < MN_BUF; gb++) memset(MN.buf[gb] + 32, 0xA5, 32); }
    MN.nkey = (int)jv_int(in, "nkey", 2); MN.nobj = (int)jv_int(in, "nobj", 2); MN.nbuf = (int)jv_int(in, "nbuf", 1);
    memset(MN.msg, 0x4d, 32);
    for (i = 0; i < MN.nkey; i++) { memset(MN.sk[i], 0, 32); MN.sk[i][31] = (unsigned char)(11 + 2 * i); MN.sk[i][0] = 0x01; }
    memcpy(MN.sk[MN.nkey], MN.sk[0], 32);
    if (!secp256k1_ec_seckey_negate(CTX, MN.sk[MN.nkey])) exit(3);   /* twin: same x, opposite y */
    { static const unsigned char lambda[32] = { 0x53,0x63,0xad,0x4c,0xc0,0x5c,0x30,0xe0,0xa5,0x26,0x1c,0x02,0x88,0x12,0x64,0x5a,
                                                 0x12,0x2e,0x22,0xea,0x20,0x81,0x66,0x78,0xdf,0x02,0x96,0x7c,0x1b,0x23,0xbd,0x72 };
      memcpy(MN.sk[MN.nkey + 1], MN.sk[0], 32);
      if (!secp256k1_ec_seckey_tweak_mul(CTX, MN.sk[MN.nkey + 1], lambda)) exit(3); }   /* lambda*d: public key (beta*x, y) -- same y, other x */
    memset(osk, 0x33, 32);
    if (!secp256k1_keypair_create(CTX, &MN.kp_other, osk) || !secp256k1_keypair_pub(CTX, &MN.pk_other, &MN.kp_other)) exit(3);
    for (i = 0; i <= MN.nkey + 1; i++) {
        const secp256k1_pubkey *pks[2];
        if (!secp256k1_keypair_create(CTX, &MN.kp[i], MN.sk[i]) || !secp256k1_keypair_pub(CTX, &MN.pk[i], &MN.kp[i])) exit(3);
        pks[0] = &MN.pk[i]; pks[1] = &MN.pk_other;
        if (!secp256k1_musig_pubkey_agg(CTX, NULL, &MN.cache[i], pks, 2)) exit(3);
    }
    memset(seed, 0x77, 32);
    if (!secp256k1_musig_nonce_gen(CTX, &sn, &MN.other_pubnonce, seed, NULL, &MN.pk_other, NULL, NULL, NULL)) exit(3);
    memset(seed, 0x78, 32);
    if (!secp256k1_musig_nonce_gen(CTX, &sn, &pn0, seed, NULL, &MN.pk[0], NULL, NULL, NULL)) exit(3);
    mn_make_session(&MN.default_session, &pn0, 0);
    jo_int(out, "ret", 1);
}
static const char *mn_class(const secp256k1_musig_secnonce *s) {
    if (secp256k1_is_zero_array(s->data, sizeof(s->data))) return "zero";
    if (secp256k1_memcmp_var(s->data, secp256k1_musig_secnonce_magic, 4) == 0 && !secp256k1_is_zero_array(&s->data[4], 64)) return "live";
    return "junk";
}
static void mn_projection(jout *out) {
    int o, b, i, k; char key[16];
    for (o = 0; o < MN.nobj; o++) {
        const char *c = mn_class(&MN.obj[o]); int id = -1, bound = -1;
        if (c[0] == 'l') {
            for (i = 0; i < MN.nids; i++) if (!memcmp(MN.kbytes[i], &MN.obj[o].data[4], 64)) id = i + 1;
            for (k = 0; k <= MN.nkey + 1; k++) {
                secp256k1_ge ge; unsigned char gb[64];
                secp256k1_pubkey_load(CTX, &ge, &MN.pk[k]); secp256k1_ge_to_bytes(gb, &ge);
                if (!memcmp(gb, &MN.obj[o].data[68], 64)) bound = k;
            }
        }
        sprintf(key, "c%d", o); jo_strv(out, key, c);
        sprintf(key, "id%d", o); jo_int(out, key, id);
        sprintf(key, "key%d", o); jo_int(out, key, bound);
    }
    for (b = 0; b < MN.nbuf; b++) { sprintf(key, "rz%d", b); jo_int(out, key, secp256k1_is_zero_array(MN.buf[b], 32)); }
    jo_int(out, "dup", MN.dup);
}
static int mn_is(const jv *in, const char *cls) { return jv_is(jv_get(in, "cls"), cls); }
static void mn_register(int o, int key, const secp256k1_musig_pubnonce *pn) {
    int j;
    if (MN.nids >= MN_IDS) { fprintf(stderr, "vh: too many nonces\n"); exit(3); }
    for (j = 0; j < MN.nids; j++) if (!memcmp(MN.kbytes[j], &MN.obj[o].data[4], 64)) MN.dup++;
    memcpy(MN.kbytes[MN.nids], &MN.obj[o].data[4], 64);
    MN.idkey[MN.nids] = key; MN.pubnonce[MN.nids] = *pn;
    mn_make_session(&MN.session[MN.nids], pn, key);
    MN.nids++;
}
static void op_MnFillRand(const jv *in, jout *out) {
    int b = (int)jv_int(in, "b", 0), i;
    MN.fresh_ctr++;
    for (i = 0; i < 32; i++) MN.buf[b][i] = (unsigned char)(0x5a ^ (MN.fresh_ctr * 31 + i * 7));
    MN.buf[b][0] |= 1;
    jo_int(out, "ret", 1); mn_projection(out);
}
static void op_MnScribble(const jv *in, jout *out) {
    memset(&MN.obj[jv_int(in, "o", 0)], 0xAA, sizeof(secp256k1_musig_secnonce));
    jo_int(out, "ret", 1); mn_projection(out);
}
static void op_MnNonceGen(const jv *in, jout *out) {
    int o = (int)jv_int(in, "o", 0), b = (int)jv_int(in, "b", 0), k = (int)jv_int(in, "k", 0), ret;
    secp256k1_musig_pubnonce pn; secp256k1_pubkey badpk; secp256k1_musig_keyagg_cache badcache; unsigned char badsk[32];
    unsigned char zerosk[32];
    memset(&badpk, 0, sizeof(badpk)); memset(&badcache, 0x11, sizeof(badcache)); memset(badsk, 0xff, 32); memset(zerosk, 0, 32);
    /* the buffer contents are the client's input: "fresh" in the abstract state means non-zero bytes */
    if (jv_int(in, "fresh", 0) && secp256k1_is_zero_array(MN.buf[b], 32)) { MN.fresh_ctr++; memset(MN.buf[b], 0x5b, 32); MN.buf[b][1] = (unsigned char)MN.fresh_ctr; }
    ret = secp256k1_musig_nonce_gen(CTX,
        mn_is(in, "secnonce_null") ? NULL : &MN.obj[o],
        mn_is(in, "pubnonce_null") ? NULL : &pn,
        mn_is(in, "rand_null") ? NULL : MN.buf[b],
        mn_is(in, "seckey_invalid") ? badsk : mn_is(in, "seckey_zero") ? zerosk : (mn_is(in, "seckey_other") ? MN.sk[(k + 1) % MN.nkey] : MN.sk[k]),
        mn_is(in, "pubkey_null") ? NULL : (mn_is(in, "pubkey_invalid") ? &badpk : &MN.pk[k]),
        MN.msg,
        mn_is(in, "cache_bad") ? &badcache : &MN.cache[k],
        NULL);
    if (ret) mn_register(o, k, &pn);
    jo_int(out, "ret", ret); mn_projection(out);
}
static void op_MnNonceGenCounter(const jv *in, jout *out) {
    int o = (int)jv_int(in, "o", 0), k = (int)jv_int(in, "k", 0), ret;
    secp256k1_musig_pubnonce pn; secp256k1_musig_keyagg_cache badcache;
    memset(&badcache, 0x11, sizeof(badcache));
    MN.fresh_ctr++;
    ret = secp256k1_musig_nonce_gen_counter(CTX,
        mn_is(in, "secnonce_null") ? NULL : &MN.obj[o],
        mn_is(in, "pubnonce_null") ? NULL : &pn,
        ((uint64_t)MN.fresh_ctr << 32) | 5u,      /* non-repeating counters that differ only ABOVE bit 31 */
        mn_is(in, "keypair_null") ? NULL : &MN.kp[k],
        MN.msg,
        mn_is(in, "cache_bad") ? &badcache : &MN.cache[k],
        NULL);
    if (ret) mn_register(o, k, &pn);
    jo_int(out, "ret", ret); mn_projection(out);
}
/* k = keypair handed to the call.  The session is the one prepared for the nonce the object holds
 * (so that a produced signature can be attributed to a nonce by partial_sig_verify). */
/* "ctxstatic": 1 = partial_sign is called on a COPY of secp256k1_context_static (signing a partial signature needs no generator
 * tables; the copy carries the harness' counting callbacks, so an illegal-argument callback returns instead of aborting) */
static secp256k1_context *MN_STATIC = NULL;
static const secp256k1_context *mn_sign_ctx(const jv *in) {
    if (!jv_int(in, "ctxstatic", 0)) return CTX;
    if (!MN_STATIC) { MN_STATIC = (secp256k1_context*)malloc(sizeof(*MN_STATIC)); memcpy(MN_STATIC, secp256k1_context_static, sizeof(*MN_STATIC));
                      secp256k1_context_set_illegal_callback(MN_STATIC, vh_illegal_cb, NULL); secp256k1_context_set_error_callback(MN_STATIC, vh_error_cb, NULL); }
    return MN_STATIC;
}
static void op_MnPartialSign(const jv *in, jout *out) {
    int o = (int)jv_int(in, "o", 0), k = (int)jv_int(in, "k", 0), ret, i, id = -1, sigfor = -1;
    secp256k1_musig_partial_sig sig; secp256k1_keypair zerokp; secp256k1_musig_keyagg_cache badcache; secp256k1_musig_session badsession;
    const secp256k1_musig_session *sess = &MN.default_session; int ckey = 0;
    memset(&zerokp, 0, sizeof(zerokp)); memset(&badcache, 0x11, sizeof(badcache)); memset(&badsession, 0x11, sizeof(badsession));
    if (mn_class(&MN.obj[o])[0] == 'l')
        for (i = 0; i < MN.nids; i++) if (!memcmp(MN.kbytes[i], &MN.obj[o].data[4], 64)) id = i;
    if (id >= 0) { sess = &MN.session[id]; ckey = MN.idkey[id]; }
    memset(&sig, 0, sizeof(sig));      /* "produces no signature": a failed call must leave the (all-zero) output object all-zero */
    ret = secp256k1_musig_partial_sign(mn_sign_ctx(in),
        mn_is(in, "out_null") ? NULL : &sig,
        mn_is(in, "secnonce_null") ? NULL : &MN.obj[o],
        mn_is(in, "keypair_null") ? NULL : (mn_is(in, "keypair_invalid") ? &zerokp : &MN.kp[k]),
        mn_is(in, "cache_null") ? NULL : (mn_is(in, "cache_bad") ? &badcache : &MN.cache[ckey]),
        mn_is(in, "session_null") ? NULL : (mn_is(in, "session_bad") ? &badsession : sess));
    if (ret) {
        /* which generated nonce does this signature belong to? */
        for (i = 0; i < MN.nids; i++)
            if (secp256k1_musig_partial_sig_verify(CTX, &sig, &MN.pubnonce[i], &MN.pk[MN.idkey[i]], &MN.cache[MN.idkey[i]], &MN.session[i])) sigfor = i + 1;
    }
    jo_int(out, "ret", ret); jo_int(out, "sigfor", sigfor); jo_int(out, "sigzero", secp256k1_is_zero_array((unsigned char*)&sig, sizeof(sig))); mn_projection(out);
}
#define VH_OPS_MUSIGNONCE \
    { "MnSetup", op_MnSetup }, { "MnFillRand", op_MnFillRand }, { "MnScribble", op_MnScribble }, \
    { "MnNonceGen", op_MnNonceGen }, { "MnNonceGenCounter", op_MnNonceGenCounter }, { "MnPartialSign", op_MnPartialSign },
