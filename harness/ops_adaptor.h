/* C14: ECDSA adaptor signatures.  Adaptor signatures travel as their 162 bytes, ECDSA signature objects as
 * compact 64 bytes, public keys as 33/65-byte encodings.
 * Nonce source of AdaptorEncrypt / AdaptorPipeline ("nf"):
 *   0 = noncefp NULL (module default), 1 = explicit secp256k1_nonce_function_ecdsa_adaptor,
 *   2 = caller-supplied function returning "k1" for the adaptor nonce (algo "ECDSAadaptor/non") and "k2" for the
 *       DLEQ nonce (algo "DLEQ"); an absent k1/k2 makes the function fail for that request.
 *   "aux" (32 bytes, optional) is passed as ndata to the default function. */
typedef struct { unsigned char k1[32], k2[32]; int ok1, ok2; } vh_adaptor_nonce;
static int vh_adaptor_nonce_fn(unsigned char *nonce32, const unsigned char *msg32, const unsigned char *key32, const unsigned char *pk33, const unsigned char *algo, size_t algolen, void *data) {
    const vh_adaptor_nonce *s = (const vh_adaptor_nonce*)data; (void)msg32; (void)key32; (void)pk33; (void)algo;
    if (algolen == 4) { if (!s->ok2) return 0; memcpy(nonce32, s->k2, 32); return 1; }
    if (!s->ok1) return 0;
    memcpy(nonce32, s->k1, 32); return 1;
}
typedef struct { secp256k1_nonce_function_hardened_ecdsa_adaptor fn; void *data; vh_adaptor_nonce cn; unsigned char aux[32]; } vh_adaptor_src;
static void vh_adaptor_load_src(const jv *in, vh_adaptor_src *s) {
    long nf = jv_int(in, "nf", 0);
    s->fn = NULL; s->data = NULL;
    if (nf == 2) {
        s->cn.ok1 = jv_bytes(in, "k1", s->cn.k1, 32) == 32;
        s->cn.ok2 = jv_bytes(in, "k2", s->cn.k2, 32) == 32;
        s->fn = vh_adaptor_nonce_fn; s->data = &s->cn;
    } else {
        if (nf == 1) s->fn = secp256k1_nonce_function_ecdsa_adaptor;
        if (jv_bytes(in, "aux", s->aux, 32) == 32) s->data = s->aux;
    }
}
static void op_AdaptorEncrypt(const jv *in, jout *out) {
    unsigned char key[32], msg[32], asig[162]; secp256k1_pubkey enckey; vh_adaptor_src src; int kret, ret = 0;
    jv_need(in, "key", key, 32); jv_need(in, "msg", msg, 32);
    vh_adaptor_load_src(in, &src);
    kret = vh_load_pk(in, "enckey", &enckey);
    jo_int(out, "kret", kret);
    memset(asig, 0xAA, 162);
    if (kret) { ret = secp256k1_ecdsa_adaptor_encrypt(CTX, asig, key, &enckey, msg, src.fn, src.data); jo_bytes(out, "asig", asig, 162); }
    jo_int(out, "ret", ret);
}
static void op_AdaptorVerify(const jv *in, jout *out) {
    unsigned char msg[32], asig[162]; secp256k1_pubkey pk, enckey; int kret, eret;
    jv_need(in, "asig", asig, 162); jv_need(in, "msg", msg, 32);
    kret = vh_load_pk(in, "pk", &pk); eret = vh_load_pk(in, "enckey", &enckey);
    jo_int(out, "kret", kret); jo_int(out, "eret", eret);
    jo_int(out, "ret", (kret && eret) ? secp256k1_ecdsa_adaptor_verify(CTX, asig, &pk, msg, &enckey) : 0);
}
static void op_AdaptorDecrypt(const jv *in, jout *out) {
    unsigned char deckey[32], asig[162], sig64[64]; secp256k1_ecdsa_signature sig; int ret;
    jv_need(in, "asig", asig, 162); jv_need(in, "deckey", deckey, 32);
    memset(&sig, 0xAA, sizeof(sig));
    ret = secp256k1_ecdsa_adaptor_decrypt(CTX, &sig, deckey, asig);
    jo_int(out, "ret", ret);
    if (ret) { secp256k1_ecdsa_signature_serialize_compact(CTX, sig64, &sig); jo_bytes(out, "sig", sig64, 64); }
    else jo_int(out, "sigzero", secp256k1_is_zero_array((unsigned char*)&sig, sizeof(sig)));
}
static void op_AdaptorRecover(const jv *in, jout *out) {
    unsigned char asig[162], sig64[64], deckey[32]; secp256k1_ecdsa_signature sig; secp256k1_pubkey enckey; int pret, eret, ret = 0;
    jv_need(in, "asig", asig, 162); jv_need(in, "sig", sig64, 64);
    pret = secp256k1_ecdsa_signature_parse_compact(CTX, &sig, sig64);
    eret = vh_load_pk(in, "enckey", &enckey);
    jo_int(out, "pret", pret); jo_int(out, "eret", eret);
    memset(deckey, 0xAA, 32);
    if (eret) ret = secp256k1_ecdsa_adaptor_recover(CTX, deckey, &sig, asig, &enckey);
    jo_int(out, "ret", ret);
    if (ret) jo_bytes(out, "deckey", deckey, 32);
}
/* the whole life cycle through the public API: create both public keys, encrypt, verify, decrypt, ECDSA-verify the
 * decrypted signature, recover the decryption key from it */
static void op_AdaptorPipeline(const jv *in, jout *out) {
    unsigned char key[32], deckey[32], msg[32], asig[162], sig64[64], rec[32];
    secp256k1_pubkey pk, enckey; secp256k1_ecdsa_signature sig; vh_adaptor_src src; int ret, dret, rret;
    jv_need(in, "key", key, 32); jv_need(in, "deckey", deckey, 32); jv_need(in, "msg", msg, 32);
    vh_adaptor_load_src(in, &src);
    if (!secp256k1_ec_pubkey_create(CTX, &enckey, deckey)) { jo_int(out, "ret", 2); return; }
    vh_out_pk33(out, "enckey", &enckey);
    memset(asig, 0xAA, 162);
    ret = secp256k1_ecdsa_adaptor_encrypt(CTX, asig, key, &enckey, msg, src.fn, src.data);
    jo_int(out, "ret", ret); jo_bytes(out, "asig", asig, 162);
    if (!ret || !secp256k1_ec_pubkey_create(CTX, &pk, key)) return;
    vh_out_pk33(out, "pk", &pk);
    jo_int(out, "vret", secp256k1_ecdsa_adaptor_verify(CTX, asig, &pk, msg, &enckey));
    memset(&sig, 0xAA, sizeof(sig));
    dret = secp256k1_ecdsa_adaptor_decrypt(CTX, &sig, deckey, asig);
    jo_int(out, "dret", dret);
    if (!dret) return;
    secp256k1_ecdsa_signature_serialize_compact(CTX, sig64, &sig); jo_bytes(out, "sig", sig64, 64);
    jo_int(out, "everify", secp256k1_ecdsa_verify(CTX, &sig, msg, &pk));
    memset(rec, 0xAA, 32);
    rret = secp256k1_ecdsa_adaptor_recover(CTX, rec, &sig, asig, &enckey);
    jo_int(out, "rret", rret);
    if (rret) jo_bytes(out, "rkey", rec, 32);
}
#define VH_OPS_ADAPTOR \
    { "AdaptorEncrypt", op_AdaptorEncrypt }, { "AdaptorVerify", op_AdaptorVerify }, { "AdaptorDecrypt", op_AdaptorDecrypt }, \
    { "AdaptorRecover", op_AdaptorRecover }, { "AdaptorPipeline", op_AdaptorPipeline },
