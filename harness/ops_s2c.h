/* C15: sign-to-contract and the ECDSA anti-exfil protocol.  Signature objects travel as compact 64 bytes, openings as
 * their 33-byte serialization (always through secp256k1_ecdsa_s2c_opening_parse / _serialize), public keys as 33/65 bytes.
 * "ctx": 0 (default) = the harness context; 1 = a second context whose SHA-256 compression function has been replaced
 * (secp256k1_context_set_sha256_compression) by a caller-supplied, correct implementation; the number of calls that
 * reached the replacement during the operation is logged as "shacalls" (informational). */
static secp256k1_context *VH_CTX2 = NULL;
static long VH_SHA2_CALLS = 0;
static void vh_sha256_compression(uint32_t *s, const unsigned char *blocks, size_t n) { VH_SHA2_CALLS++; secp256k1_sha256_transform(s, blocks, n); }
static const secp256k1_context *vh_s2c_ctx(const jv *in) {
    if (jv_int(in, "ctx", 0) != 1) return CTX;
    if (!VH_CTX2) {
        VH_CTX2 = secp256k1_context_create(SECP256K1_CONTEXT_NONE);
        secp256k1_context_set_illegal_callback(VH_CTX2, vh_illegal_cb, NULL);
        secp256k1_context_set_error_callback(VH_CTX2, vh_error_cb, NULL);
        secp256k1_context_set_sha256_compression(VH_CTX2, vh_sha256_compression);
    }
    VH_SHA2_CALLS = 0;
    return VH_CTX2;
}
static void vh_s2c_ctx_done(const jv *in, jout *out) { if (jv_int(in, "ctx", 0) == 1) jo_int(out, "shacalls", VH_SHA2_CALLS); }
static int vh_load_opening(const secp256k1_context *c, const jv *in, const char *key, secp256k1_ecdsa_s2c_opening *o) {
    unsigned char b[33];
    if (jv_bytes(in, key, b, 33) != 33) return 0;
    return secp256k1_ecdsa_s2c_opening_parse(c, o, b);
}
static void vh_out_opening(const secp256k1_context *c, jout *out, const secp256k1_ecdsa_s2c_opening *o) {
    unsigned char b[33]; int r = secp256k1_ecdsa_s2c_opening_serialize(c, b, o);
    jo_int(out, "oser", r);
    if (r) jo_bytes(out, "opening", b, 33);
}
/* "open": 1 (default) = ask for the opening, 0 = pass NULL */
static void op_S2cSign(const jv *in, jout *out) {
    const secp256k1_context *c = vh_s2c_ctx(in);
    unsigned char key[32], msg[32], data[32], sig64[64]; secp256k1_ecdsa_signature sig; secp256k1_ecdsa_s2c_opening op; int ret;
    long want = jv_int(in, "open", 1);
    jv_need(in, "key", key, 32); jv_need(in, "msg", msg, 32); jv_need(in, "data", data, 32);
    memset(&sig, 0xAA, sizeof(sig)); memset(&op, 0, sizeof(op));
    ret = secp256k1_ecdsa_s2c_sign(c, &sig, want ? &op : NULL, msg, key, data);
    secp256k1_ecdsa_signature_serialize_compact(c, sig64, &sig);
    jo_int(out, "ret", ret); jo_bytes(out, "sig", sig64, 64);
    if (ret && want) vh_out_opening(c, out, &op);
    vh_s2c_ctx_done(in, out);
}
static void op_AntiExfilSign(const jv *in, jout *out) {
    const secp256k1_context *c = vh_s2c_ctx(in);
    unsigned char key[32], msg[32], data[32], sig64[64]; secp256k1_ecdsa_signature sig; int ret;
    jv_need(in, "key", key, 32); jv_need(in, "msg", msg, 32); jv_need(in, "data", data, 32);
    memset(&sig, 0xAA, sizeof(sig));
    ret = secp256k1_anti_exfil_sign(c, &sig, msg, key, data);
    secp256k1_ecdsa_signature_serialize_compact(c, sig64, &sig);
    jo_int(out, "ret", ret); jo_bytes(out, "sig", sig64, 64);
    vh_s2c_ctx_done(in, out);
}
static void op_S2cVerifyCommit(const jv *in, jout *out) {
    const secp256k1_context *c = vh_s2c_ctx(in);
    unsigned char sig64[64], data[32]; secp256k1_ecdsa_signature sig; secp256k1_ecdsa_s2c_opening op; int pret, oret;
    jv_need(in, "sig", sig64, 64); jv_need(in, "data", data, 32);
    pret = secp256k1_ecdsa_signature_parse_compact(c, &sig, sig64);
    oret = vh_load_opening(c, in, "opening", &op);
    jo_int(out, "pret", pret); jo_int(out, "oret", oret);
    jo_int(out, "ret", oret ? secp256k1_ecdsa_s2c_verify_commit(c, &sig, data, &op) : 0);
    vh_s2c_ctx_done(in, out);
}
static void op_HostCommit(const jv *in, jout *out) {
    const secp256k1_context *c = vh_s2c_ctx(in);
    unsigned char rho[32], com[32]; int ret;
    jv_need(in, "rho", rho, 32); memset(com, 0xAA, 32);
    /* "alias": 1 = the host hashes its randomness in place (output buffer = input buffer) */
    if (jv_int(in, "alias", 0)) { ret = secp256k1_ecdsa_anti_exfil_host_commit(c, rho, rho); memcpy(com, rho, 32); }
    else ret = secp256k1_ecdsa_anti_exfil_host_commit(c, com, rho);
    jo_int(out, "ret", ret); jo_bytes(out, "commitment", com, 32);
    vh_s2c_ctx_done(in, out);
}
static void op_SignerCommit(const jv *in, jout *out) {
    const secp256k1_context *c = vh_s2c_ctx(in);
    unsigned char key[32], msg[32], com[32]; secp256k1_ecdsa_s2c_opening op; int ret;
    jv_need(in, "key", key, 32); jv_need(in, "msg", msg, 32); jv_need(in, "commitment", com, 32);
    memset(&op, 0, sizeof(op));
    ret = secp256k1_ecdsa_anti_exfil_signer_commit(c, &op, msg, key, com);
    jo_int(out, "ret", ret);
    if (ret) vh_out_opening(c, out, &op);
    vh_s2c_ctx_done(in, out);
}
static void op_HostVerify(const jv *in, jout *out) {
    const secp256k1_context *c = vh_s2c_ctx(in);
    unsigned char sig64[64], msg[32], data[32]; secp256k1_ecdsa_signature sig; secp256k1_ecdsa_s2c_opening op; secp256k1_pubkey pk; int pret, oret, kret;
    jv_need(in, "sig", sig64, 64); jv_need(in, "msg", msg, 32); jv_need(in, "data", data, 32);
    pret = secp256k1_ecdsa_signature_parse_compact(c, &sig, sig64);
    oret = vh_load_opening(c, in, "opening", &op);
    kret = vh_load_pk(in, "pk", &pk);
    jo_int(out, "pret", pret); jo_int(out, "oret", oret); jo_int(out, "kret", kret);
    jo_int(out, "ret", (oret && kret) ? secp256k1_anti_exfil_host_verify(c, &sig, msg, &pk, data, &op) : 0);
    vh_s2c_ctx_done(in, out);
}
static void op_S2cOpening(const jv *in, jout *out) {
    const secp256k1_context *c = vh_s2c_ctx(in);
    secp256k1_ecdsa_s2c_opening op; int pret = vh_load_opening(c, in, "opening", &op);
    jo_int(out, "pret", pret);
    if (pret) vh_out_opening(c, out, &op);
    vh_s2c_ctx_done(in, out);
}
#define VH_OPS_S2C \
    { "S2cSign", op_S2cSign }, { "AntiExfilSign", op_AntiExfilSign }, { "S2cVerifyCommit", op_S2cVerifyCommit }, \
    { "HostCommit", op_HostCommit }, { "SignerCommit", op_SignerCommit }, { "HostVerify", op_HostVerify }, { "S2cOpening", op_S2cOpening },
