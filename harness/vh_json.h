/* Minimal JSON reader/writer for the verification harness (one record per line).
 * Values: integers, strings (no escapes needed), arrays, objects, null/true/false. */
#ifndef VH_JSON_H
#define VH_JSON_H
#include <stdio.h>
#include <stdlib.h>
#include <string.h>
#include <ctype.h>

typedef enum { JV_NULL, JV_INT, JV_STR, JV_ARR, JV_OBJ } jv_type;
typedef struct jv {
    jv_type t;
    long long i;            /* JV_INT (also true=1/false=0) */
    const char *s; size_t slen;   /* JV_STR (points into the line), or key for object members */
    const char *key; size_t keylen;
    struct jv *child;       /* first child (array element / object member) */
    struct jv *next;        /* sibling */
    size_t n;               /* number of children */
    const char *src; size_t srclen; /* raw source span of this value */
} jv;

#define JV_ARENA_MAX (1u << 22)
static jv *jv_arena = NULL; static size_t jv_used = 0;
static jv *jv_new(void) {
    if (!jv_arena) jv_arena = (jv*)malloc(sizeof(jv) * JV_ARENA_MAX);
    if (jv_used >= JV_ARENA_MAX) { fprintf(stderr, "vh_json: arena exhausted\n"); exit(3); }
    memset(&jv_arena[jv_used], 0, sizeof(jv));
    return &jv_arena[jv_used++];
}
static void jv_reset(void) { jv_used = 0; }
static const char *jv_ws(const char *p) { while (*p == ' ' || *p == '\t' || *p == '\n' || *p == '\r') p++; return p; }
static const char *jv_parse(const char *p, jv **out);
static const char *jv_parse(const char *p, jv **out) {
    jv *v = jv_new(); jv *last = NULL;
    p = jv_ws(p); v->src = p;
    if (*p == '{' || *p == '[') {
        char close = (*p == '{') ? '}' : ']';
        v->t = (*p == '{') ? JV_OBJ : JV_ARR;
        p = jv_ws(p + 1);
        while (*p && *p != close) {
            jv *c; const char *k = NULL; size_t kl = 0;
            if (v->t == JV_OBJ) {
                if (*p != '"') { fprintf(stderr, "vh_json: key expected\n"); exit(3); }
                k = ++p; while (*p && *p != '"') p++; kl = (size_t)(p - k);
                p = jv_ws(p + 1); if (*p != ':') { fprintf(stderr, "vh_json: ':' expected\n"); exit(3); }
                p++;
            }
            p = jv_parse(p, &c); c->key = k; c->keylen = kl;
            if (last) last->next = c; else v->child = c;
            last = c; v->n++;
            p = jv_ws(p); if (*p == ',') p = jv_ws(p + 1);
        }
        if (*p != close) { fprintf(stderr, "vh_json: unterminated container\n"); exit(3); }
        p++;
    } else if (*p == '"') {
        v->t = JV_STR; v->s = ++p; while (*p && *p != '"') p++; v->slen = (size_t)(p - v->s); p++;
    } else if (*p == '-' || isdigit((unsigned char)*p)) {
        char *e; v->t = JV_INT; v->i = strtoll(p, &e, 10); p = e;
    } else if (!strncmp(p, "null", 4)) { v->t = JV_NULL; p += 4; }
    else if (!strncmp(p, "true", 4)) { v->t = JV_INT; v->i = 1; p += 4; }
    else if (!strncmp(p, "false", 5)) { v->t = JV_INT; v->i = 0; p += 5; }
    else { fprintf(stderr, "vh_json: unexpected char '%c'\n", *p); exit(3); }
    v->srclen = (size_t)(p - v->src);
    *out = v; return p;
}
static const jv *jv_get(const jv *o, const char *key) {
    const jv *c; size_t kl = strlen(key);
    if (!o || o->t != JV_OBJ) return NULL;
    for (c = o->child; c; c = c->next) if (c->keylen == kl && !memcmp(c->key, key, kl)) return c;
    return NULL;
}
static int jv_is(const jv *v, const char *s) { return v && v->t == JV_STR && v->slen == strlen(s) && !memcmp(v->s, s, v->slen); }
static long long jv_int(const jv *o, const char *key, long long dflt) {
    const jv *v = jv_get(o, key); return (v && v->t == JV_INT) ? v->i : dflt;
}
/* copy an int array into buf (max cap); returns length, or -1 if absent/null */
static long jv_bytes_v(const jv *v, unsigned char *buf, size_t cap) {
    const jv *c; size_t k = 0;
    if (!v || v->t != JV_ARR) return -1;
    for (c = v->child; c; c = c->next) { if (k >= cap) { fprintf(stderr, "vh_json: byte array too long\n"); exit(3); } buf[k++] = (unsigned char)c->i; }
    return (long)k;
}
static long jv_bytes(const jv *o, const char *key, unsigned char *buf, size_t cap) { return jv_bytes_v(jv_get(o, key), buf, cap); }
static void jv_need(const jv *o, const char *key, unsigned char *buf, size_t len) {
    if (jv_bytes(o, key, buf, len) != (long)len) { fprintf(stderr, "vh: field %s must have %lu bytes\n", key, (unsigned long)len); exit(3); }
}
static const jv *jv_elem(const jv *arr, size_t idx) { const jv *c = arr ? arr->child : NULL; while (c && idx--) c = c->next; return c; }

/* ---- writer ---- */
typedef struct { char *b; size_t len, cap; int first; } jout;
static void jo_reserve(jout *o, size_t more) {
    if (o->len + more + 1 > o->cap) { o->cap = (o->len + more + 1) * 2; o->b = (char*)realloc(o->b, o->cap); }
}
static void jo_raw(jout *o, const char *s, size_t n) { jo_reserve(o, n); memcpy(o->b + o->len, s, n); o->len += n; o->b[o->len] = 0; }
static void jo_str(jout *o, const char *s) { jo_raw(o, s, strlen(s)); }
static void jo_key(jout *o, const char *k) { if (!o->first) jo_raw(o, ",", 1); o->first = 0; jo_raw(o, "\"", 1); jo_str(o, k); jo_raw(o, "\":", 2); }
static void jo_int(jout *o, const char *k, long long v) { char t[32]; jo_key(o, k); sprintf(t, "%lld", v); jo_str(o, t); }
static void jo_bytes_raw(jout *o, const unsigned char *b, size_t n) {
    size_t i; char t[8]; jo_raw(o, "[", 1);
    for (i = 0; i < n; i++) { sprintf(t, i ? ",%u" : "%u", b[i]); jo_str(o, t); }
    jo_raw(o, "]", 1);
}
static void jo_bytes(jout *o, const char *k, const unsigned char *b, size_t n) { jo_key(o, k); jo_bytes_raw(o, b, n); }
static void jo_strv(jout *o, const char *k, const char *v) { jo_key(o, k); jo_raw(o, "\"", 1); jo_str(o, v); jo_raw(o, "\"", 1); }
#endif
