/* C18: ECDH.  hash: 0 = NULL (default), 1 = secp256k1_ecdh_hash_function_sha256, 2 = secp256k1_ecdh_hash_function_default,
 * 3 = a caller-supplied callback writing x || y (64 bytes), 4 = a caller-supplied callback that fails. */
static int vh_ecdh_hash_xy(unsigned char *output, const unsigned char *x32, const unsigned char *y32, void *data) {
    unsigned char t[64]; (void)data;      /* writes its output before it has finished reading its (const) inputs: legal for a caller's hash */
    memset(output, 0xEE, 64); memcpy(t, x32, 32); memcpy(t + 32, y32, 32); memcpy(output, t, 64); return 1;
}
static int vh_ecdh_hash_fail(unsigned char *output, const unsigned char *x32, const unsigned char *y32, void *data) {
    (void)output; (void)x32; (void)y32; (void)data; return 0;
}
static secp256k1_ecdh_hash_function vh_ecdh_fn(long h) {
    switch (h) { case 1: return secp256k1_ecdh_hash_function_sha256; case 2: return secp256k1_ecdh_hash_function_default;
                 case 3: return vh_ecdh_hash_xy; case 4: return vh_ecdh_hash_fail; default: return NULL; }
}
static void op_Ecdh(const jv *in, jout *out) {
    unsigned char scalar[32], res[64]; secp256k1_pubkey pk; int pret, ret; long h = (long)jv_int(in, "hash", 0);
    jv_need(in, "scalar", scalar, 32);
    pret = vh_load_pk(in, "point", &pk);
    jo_int(out, "pret", pret);
    if (!pret) return;
    memset(res, 0xAA, 64);
    /* "alias": 1 = the shared secret overwrites the caller's secret-key buffer (32-byte outputs only) */
    if (jv_int(in, "alias", 0) && h != 3) { ret = secp256k1_ecdh(CTX, scalar, &pk, scalar, vh_ecdh_fn(h), NULL); memcpy(res, scalar, 32); }
    else ret = secp256k1_ecdh(CTX, res, &pk, scalar, vh_ecdh_fn(h), NULL);
    jo_int(out, "ret", ret);
    if (ret) jo_bytes(out, "out", res, h == 3 ? 64 : 32);
}
/* both roles: A = a*G, B = b*G by the library; party A computes ecdh(B, a), party B ecdh(A, b) */
static void op_EcdhPair(const jv *in, jout *out) {
    unsigned char a[32], b[32], ra[64], rb[64]; secp256k1_pubkey A, B; int ca, cb, reta, retb; long h = (long)jv_int(in, "hash", 0);
    jv_need(in, "a", a, 32); jv_need(in, "b", b, 32);
    ca = secp256k1_ec_pubkey_create(CTX, &A, a); cb = secp256k1_ec_pubkey_create(CTX, &B, b);
    jo_int(out, "ca", ca); jo_int(out, "cb", cb);
    if (!ca || !cb) return;
    vh_out_pk33(out, "pka", &A); vh_out_pk33(out, "pkb", &B);
    reta = secp256k1_ecdh(CTX, ra, &B, a, vh_ecdh_fn(h), NULL);
    retb = secp256k1_ecdh(CTX, rb, &A, b, vh_ecdh_fn(h), NULL);
    jo_int(out, "ra", reta); jo_int(out, "rb", retb);
    if (reta) jo_bytes(out, "outa", ra, h == 3 ? 64 : 32);
    if (retb) jo_bytes(out, "outb", rb, h == 3 ? 64 : 32);
}
#define VH_OPS_ECDH \
    { "Ecdh", op_Ecdh }, { "EcdhPair", op_EcdhPair },
