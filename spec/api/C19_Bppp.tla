------------------------------- MODULE C19_Bppp -------------------------------
(***************************************************************************)
(* C19 -- Bulletproofs++ norm argument and generator lists as a machine of *)
(* call records (same shape as C01_Ecdsa).  Generator points are inputs:   *)
(* the real list is measured once from the implementation (file named by   *)
(* $C19_GENS, one BpppGens event) and every record carries the generator   *)
(* bytes it uses.                                                          *)
(***************************************************************************)
EXTENDS BpppNorm, CurveParams, Verif

-----------------------------------------------------------------------------
\* specified results of the calls (field names = harness record fields, see harness/ops_bppp.h)
InRho(i) == Mod(FromBytesBE(i.rho), N)
InPre(i) == IF "pre" \in DOMAIN i THEN i.pre ELSE << >>
InScratch(i) == IF "scratch" \in DOMAIN i THEN i.scratch ELSE 1048576

OutCommit(i) ==
  LET g == BpGensParse(i.gens)  n == BpVec(i.nv)  l == BpVec(i.lv)  c == BpVec(i.cv) IN
  IF ~g[1] THEN [ gret |-> 0, icb |-> 0 ]
  ELSE [ gret |-> 1, ret |-> 1, icb |-> 0,
         commit |-> Ser33Ext(BpCommit(SubSeq(g[2], 1, Len(n)), SubSeq(g[2], Len(n) + 1, Len(n) + Len(l)),
                                      n, l, c, Mod(FromBytesBE(i.mu), N))) ]

\* the prover's output is specified for a usable challenge base only (with rho = 0 no proof can verify)
OutProve(i) ==
  LET g == BpGensParse(i.gens)  rho == InRho(i) IN
  IF ~g[1] THEN [ gret |-> 0, icb |-> 0 ]
  ELSE IF IsZero(rho) THEN [ gret |-> 1, icb |-> 0 ]
  ELSE LET pf == BpProve(BpTranscript(InPre(i)), rho, g[2], BpVec(i.nv), BpVec(i.lv), BpVec(i.cv))
       IN  [ gret |-> 1, ret |-> 1, proof |-> pf, plen |-> Len(pf), icb |-> 0 ]

VerifyAccepts(i) ==
  LET g == BpGensParse(i.gens)  c == BpVec(i.cv) IN
  /\ g[1]
  /\ InScratch(i) >= BpScratchNeed(i.glen, Len(c))
  /\ BpVerify(BpTranscript(InPre(i)), i.proof, InRho(i), g[2], i.glen, c, Parse33Ext(i.commit)[2])
OutVerify(i) ==
  IF ~BpGensParse(i.gens)[1] THEN [ gret |-> 0, icb |-> 0 ]
  \* the op repeats the call on the SAME scratch space (ret2), then calls with rho = 0 (retz: always rejected) and once more with the
  \* original rho (ret3): verification is a function of its arguments, whatever was verified on that scratch space before
  ELSE LET r == B2I(VerifyAccepts(i)) IN [ gret |-> 1, ret |-> r, ret2 |-> r, retz |-> 0, ret3 |-> r, icb |-> 0 ]

OutGensParse(i) ==
  LET p == BpGensParse(i.data) IN
  IF p[1] THEN [ ret |-> 1, n |-> Len(p[2]), sret |-> 1, ser |-> BpGensSer(p[2]), leak |-> 0, icb |-> 0 ]
  ELSE [ ret |-> 0, leak |-> 0, icb |-> 0 ]

\* generator creation: the bytes are not predicted here (inputs of this property); what is specified is
\* success, no leak, and the relations between the outputs of one event (RelGens)
OutGens(i) == [ ret |-> 1, sret |-> 1, sret2 |-> 1, sretm |-> 1, pret |-> 1, sretrt |-> 1, leak |-> 0, icb |-> 0 ]
RelGens(ev) ==
  LET o == ev.out  i == ev.in  p == BpGensParse(o.ser) IN
  /\ Len(o.ser) = 33 * i.n /\ Len(o.serm) = 33 * i.m
  /\ o.ser2 = o.ser                                                             \* deterministic
  /\ IF i.n <= i.m THEN BpIsPrefix(o.ser, o.serm) ELSE BpIsPrefix(o.serm, o.ser) \* prefix-consistent
  /\ o.rt = o.ser                                                               \* parse o serialize = id
  /\ p[1] /\ BpGensSer(p[2]) = o.ser                                            \* every entry is a canonical point encoding

Out(ev) == CASE ev.e = "BpppCommit"    -> OutCommit(ev.in)
             [] ev.e = "BpppProve"     -> OutProve(ev.in)
             [] ev.e = "BpppVerify"    -> OutVerify(ev.in)
             [] ev.e = "BpppGensParse" -> OutGensParse(ev.in)
             [] ev.e = "BpppGens"      -> OutGens(ev.in)
Rel(ev) == IF ev.e = "BpppGens" THEN RelGens(ev) ELSE TRUE

-----------------------------------------------------------------------------
\* generated input space
Thorough == EnvNat("VERIF_THOROUGH") = 1
Max256 == Sub(Pow2(256), One)
GenFile == ndJsonDeserialize(IOEnv.C19_GENS)
RealGenBytes == GenFile[1].out.ser                 \* the implementation's first 257 generators
RealGens == BpGensParse(RealGenBytes)[2]

RndScalar(salt, j) == Mod(FromBytesBE(Sha256Hash(Rnd32(salt) \o BE32(j))), N)
\* vector patterns: 1 zeros, 2 ones, 3 all n-1, 4 random, 5 boundary cycle 0,1,n-1,random,
\* 6 odd positions (0-based) zero, 7 even positions zero
VecPat(pat, len, salt) ==
  BpTup([j \in 1..len |->
     CASE pat = 1 -> Zero
       [] pat = 2 -> One
       [] pat = 3 -> Sub(N, One)
       [] pat = 4 -> RndScalar(salt, j)
       [] pat = 5 -> (CASE j % 4 = 1 -> Zero [] j % 4 = 2 -> One [] j % 4 = 3 -> Sub(N, One) [] OTHER -> RndScalar(salt, j))
       [] pat = 6 -> (IF j % 2 = 0 THEN Zero ELSE RndScalar(salt, j))
       [] pat = 7 -> (IF j % 2 = 1 THEN Zero ELSE RndScalar(salt, j))])
RhoPool(rid) == CASE rid = 1 -> RndScalar(20, 1) [] rid = 2 -> One [] rid = 3 -> Sub(N, One) [] rid = 4 -> Zero [] rid = 5 -> Two
PreBytes(len) == BpTup([j \in 1..len |-> (j * 37 + len) % 256])

\* a statement with its witness.  t = <<pattern of n, of l, of c>>; p = 0: stand-alone transcript prefix
\* (empty when the commitment is the point at infinity, which has no 33-byte encoding), p > 0: p-1 fixed bytes
Stmt(g, h, t, rid, p) ==
  LET gens == SubSeq(RealGens, 1, g + h)
      n == VecPat(t[1], g, 11)  l == VecPat(t[2], h, 12)  c == VecPat(t[3], h, 13)
      rho == RhoPool(rid)  mu == SMul(rho, rho)
      C == BpCommit(SubSeq(gens, 1, g), SubSeq(gens, g + 1, g + h), n, l, c, mu)
  IN  [ gens |-> gens, gb |-> SubSeq(RealGenBytes, 1, 33 * (g + h)), g |-> g, h |-> h, n |-> n, l |-> l, c |-> c,
        rho |-> rho, mu |-> mu, C |-> C,
        pre |-> IF p = 0 THEN (IF IsInf(C) THEN << >> ELSE BpStandalonePre(C, rho, gens, g, c)) ELSE PreBytes(p - 1) ]
StmtProof(s) == BpProve(BpTranscript(s.pre), s.rho, s.gens, s.n, s.l, s.c)

\* scratch argument of commit/prove: 0 = NULL, k + 1 = a scratch space of k bytes
WithScr(r, scr) == IF scr = 0 THEN r ELSE r @@ [ scratch |-> scr - 1 ]
RCommit(s, scr) == [ e |-> "BpppCommit", in |-> WithScr([ gens |-> s.gb, nv |-> BpVecBytes(s.n), lv |-> BpVecBytes(s.l),
                                                         cv |-> BpVecBytes(s.c), mu |-> Scalar32(s.mu) ], scr) ]
RProve(s, scr) == [ e |-> "BpppProve", in |-> WithScr([ gens |-> s.gb, nv |-> BpVecBytes(s.n), lv |-> BpVecBytes(s.l),
                                                       cv |-> BpVecBytes(s.c), rho |-> Scalar32(s.rho), pre |-> s.pre ], scr) ]
VIn(s, proof, scr) == [ gens |-> s.gb, glen |-> s.g, cv |-> BpVecBytes(s.c), rho |-> Scalar32(s.rho),
                        commit |-> Ser33Ext(s.C), proof |-> proof, pre |-> s.pre, scratch |-> scr ]
RVerify(vi) == [ e |-> "BpppVerify", in |-> vi ]
BigScr == 1048576

\* mutations of an honest verification call (r = number of rounds; most need r >= 1)
SetBytes(b, from, new) == BpTup([j \in 1..Len(b) |-> IF j >= from /\ j < from + Len(new) THEN new[j - from + 1] ELSE b[j]])
Resize(b, len) == IF len <= Len(b) THEN SubSeq(b, Len(b) - len + 1, Len(b)) ELSE Zeros(len - Len(b)) \o b
Mutate(s, pf, m) ==
  LET vi == VIn(s, pf, BigScr)
      r  == BpRounds(s.g, s.h)   L == Len(pf)
      b0 == pf[1]
      nn == FromBytesBE(SubSeq(pf, L - 63, L - 32))   ll == FromBytesBE(SubSeq(pf, L - 31, L))
      SetN(x) == [ vi EXCEPT !.proof = SetBytes(pf, L - 63, ToBytesBE(x, 32)) ]
      SetL(x) == [ vi EXCEPT !.proof = SetBytes(pf, L - 31, ToBytesBE(x, 32)) ]
      SetP(from, new) == [ vi EXCEPT !.proof = SetBytes(pf, from, new) ]
      extra == SubSeq(RealGenBytes, 33 * (s.g + s.h) + 1, 33 * (s.g + s.h + 1))
  IN CASE m = 1  -> [ vi EXCEPT !.proof = pf \o << 0 >> ]                       \* trailing byte
       [] m = 2  -> [ vi EXCEPT !.proof = pf \o << 255 >> ]
       [] m = 3  -> [ vi EXCEPT !.proof = SubSeq(pf, 1, L - 1) ]                \* truncated
       [] m = 4  -> [ vi EXCEPT !.proof = SubSeq(pf, 66, L) ]                   \* one round missing
       [] m = 5  -> [ vi EXCEPT !.proof = << >> ]
       [] m = 6  -> SetN(N)                                                     \* scalars >= n
       [] m = 7  -> SetN(Max256)
       [] m = 8  -> SetL(N)
       [] m = 9  -> SetL(Max256)
       [] m = 10 -> SetP(1, << b0 + 4 >>)                                       \* sign byte > 3
       [] m = 11 -> SetP(1, << 255 >>)
       [] m = 12 -> SetP(1, << b0 ^^ 2 >>)                                      \* -X (or infinity with sign bit)
       [] m = 13 -> SetP(1, << b0 ^^ 1 >>)                                      \* -R (or infinity with sign bit)
       [] m = 14 -> SetP(1, << b0 | 2 >> \o Zeros(32))                          \* X := infinity, sign bit set
       [] m = 15 -> SetP(1, << b0 & 1 >> \o Zeros(32))                          \* X := infinity, well-formed
       [] m = 16 -> [ vi EXCEPT !.proof = SetBytes(SetBytes(pf, 1, << b0 | 1 >>), 34, Zeros(32)) ]
       [] m = 17 -> [ vi EXCEPT !.proof = SetBytes(SetBytes(pf, 1, << b0 & 2 >>), 34, Zeros(32)) ]
       [] m = 18 -> SetP(2, ToBytesBE(P, 32))                                   \* x >= p
       [] m = 19 -> SetP(2, ToBytesBE(FromNat(5), 32))                          \* x not on the curve
       [] m = 20 -> SetN(SAdd(nn, One))
       [] m = 21 -> [ vi EXCEPT !.gens = s.gb \o extra ]                        \* generator-count mismatch
       [] m = 22 -> [ vi EXCEPT !.gens = SubSeq(s.gb, 1, Len(s.gb) - 33) ]
       [] m = 23 -> [ vi EXCEPT !.glen = s.g + 1 ]
       [] m = 24 -> [ vi EXCEPT !.cv = SetBytes(vi.cv, 1, Scalar32(SAdd(s.c[1], One))) ]
       [] m = 25 -> [ vi EXCEPT !.commit = Ser33Ext(PAdd(s.C, G)) ]
       [] m = 26 -> [ vi EXCEPT !.rho = Scalar32(SAdd(s.rho, One)) ]
       [] m = 27 -> [ vi EXCEPT !.pre = s.pre \o << 0 >> ]
       [] m = 28 -> SetP(65 * (r - 1) + 1, << pf[65 * (r - 1) + 1] + 4 >>)      \* sign byte > 3 in the last round
       [] m = 29 -> SetP(1, << 2 * (b0 % 2) + (b0 \div 2) >> \o SubSeq(pf, 34, 65) \o SubSeq(pf, 2, 33))  \* X <-> R
       [] m = 30 -> SetL(SAdd(ll, One))
       [] m = 31 -> [ vi EXCEPT !.glen = s.g - 1, !.cv = vi.cv \o Scalar32(One),       \* |n| not a power of two (g >= 4),
                                !.proof = Resize(pf, BpProofLen(s.g - 1, s.h + 1)) ]   \* counts and length consistent
       [] m = 32 -> [ vi EXCEPT !.cv = vi.cv \o Scalar32(One), !.gens = s.gb \o extra, \* |c| not a power of two (h >= 2)
                                !.proof = Resize(pf, BpProofLen(s.g, s.h + 1)) ]
       [] m = 33 -> [ vi EXCEPT !.glen = 0 ]
       [] m = 34 -> [ vi EXCEPT !.cv = << >> ]
       [] m = 35 -> [ vi EXCEPT !.rho = Scalar32(Zero) ]                        \* honest proof, verifier's rho = 0
       [] m = 36 -> [ vi EXCEPT !.rho = ToBytesBE(N, 32) ]                      \* rho = n encodes 0
       [] m \in 40..45 -> SetP(1, << b0 + 2^(m - 38) >>)                          \* one of the bits 2..7 of the first sign byte set
       [] m = 37 -> SetN(Add(nn, N))                                            \* non-canonical n (needs n < 2^256 - N)
       [] m = 38 -> SetL(Add(ll, N))
MutsAny == { 1, 2, 3, 5, 6, 7, 8, 9, 20, 21, 22, 23, 24, 25, 26, 30, 33, 34, 35, 36 }
MutsRound == { 4, 10, 11, 12, 13, 14, 15, 16, 17, 18, 19, 27, 28, 29 }   \* these need at least one round

\* generator-list encodings: k generators of the real list, variant v
GParse(k, v) ==
  LET b == SubSeq(RealGenBytes, 1, 33 * k)   last == 33 * (k - 1) + 1
      mid == 33 * ((k - 1) \div 2) + 1
      px == ToBytesBE(P, 32)
  IN CASE v = 1  -> b
       [] v = 2  -> b \o << 0 >>
       [] v = 3  -> b \o << 10 >>
       [] v = 4  -> SubSeq(b, 1, Len(b) - 1)
       [] v = 5  -> SetBytes(b, last, << 9 >>)
       [] v = 6  -> SetBytes(b, last, << 12 >>)
       [] v = 7  -> SetBytes(b, last, << 2 >>)
       [] v = 8  -> SetBytes(b, last, << 3 >>)
       [] v = 9  -> SetBytes(b, last, << 21 - b[last] >>)                       \* the other square class: valid, -point
       [] v = 10 -> SetBytes(b, last + 1, px)                                   \* x = p
       [] v = 11 -> SetBytes(b, last + 1, Zeros(32))                            \* x = 0: not on the curve
       [] v = 12 -> SetBytes(b, last + 1, ToBytesBE(FromNat(5), 32))
       [] v = 13 -> SetBytes(b, 2, ToBytesBE(Add(P, One), 32))                  \* first entry: x = p + 1
       [] v = 14 -> SetBytes(b, mid + 1, ToBytesBE(Add(P, Two), 32))            \* middle entry: x = p + 2
       [] v = 15 -> SetBytes(b, mid, << 0 >>)
       [] v = 16 -> SetBytes(b, mid + 32, << (b[mid + 32] + 1) % 256 >>)        \* x + 1 (mod 256 in the last byte): spec decides
       [] v = 17 -> SetBytes(b, 1, << 139 >>)                                   \* 0x8b: high bits must not be ignored
       [] v = 18 -> SetBytes(b, last + 1, Rep(255, 32))
       [] v = 19 -> SubSeq(b, 1, Len(b) - 32)
       [] v = 20 -> b \o Zeros(32)

Sizes == { 1, 2, 4, 8 }
AllSizes == { 1, 2, 4, 8, 16, 32, 64 }
T4 == << 4, 4, 4 >>
PatTriples == { T4, << 1, 1, 4 >>, << 1, 4, 4 >>, << 4, 1, 4 >>, << 3, 3, 3 >>, << 5, 5, 5 >>, << 6, 6, 4 >>, << 2, 7, 1 >> }
Kinds == { "commit", "prove", "verify" }
\* the statement whose proof is mutated bit by bit and verified with every scratch size
FlipStmt == Stmt(2, 2, T4, 1, 0)
FlipProof == StmtProof(FlipStmt)
FlipNeed == BpScratchNeed(2, 2)

\* descriptors << kind, g, h, t, rid, p, x >>: x = scratch (verify: size; commit/prove: 0 = NULL, k+1 = k bytes) / mutation / bit / variant
BigPair(g, h) == g + h > 8
Cases ==
       \* honest statements: commit, prove, verify; all vector patterns on the small size pairs, three on the large ones
       UNION { { << k, g, h, t, 1, 0, (IF k = "verify" THEN BigScr ELSE 100001) >> : k \in Kinds,
                   t \in IF BigPair(g, h) THEN (IF g + h = 16 THEN { T4, << 5, 5, 5 >>, << 6, 6, 4 >> } ELSE { T4, << 5, 5, 5 >> }) ELSE PatTriples } : g \in Sizes, h \in Sizes }
  \cup { << k, g, h, T4, rid, 0, BigScr >> : k \in Kinds, rid \in { 2, 3, 5 }, g \in { 1, 4 }, h \in { 1, 2 } }
       \* rho = 0: with an all-zero n the argument's equation holds although the challenge base is unusable
  \cup { << "verify", g, h, << 1, 4, 4 >>, 4, 0, BigScr >> : g \in Sizes, h \in Sizes }
  \cup { << k, g, h, T4, 4, 0, BigScr >> : k \in { "prove", "verify" }, g \in { 1, 2 }, h \in { 1, 2 } }
       \* transcript prefixes across the SHA-256 block boundaries
  \cup { << k, 2, 1, T4, 1, p, BigScr >> : k \in { "prove", "verify" },
           p \in IF Thorough THEN 1..140 ELSE { 1, 2, 24, 55, 56, 57, 64, 65, 66, 120, 121, 128, 129 } }
       \* prover and commitment without scratch space and with useless ones; verifier around the need
  \cup { << k, g, h, T4, 1, 0, x >> : k \in { "commit", "prove" }, x \in { 0, 1, 101, 5001 }, g \in { 1, 8 }, h \in { 1, 4 } }
  \cup { << "verify", gh[1], gh[2], T4, 1, 0, (BpScratchNeed(gh[1], gh[2]) + d) - 32 >> : d \in { 0, 31, 32, 33, 1032 }, gh \in { << 1, 1 >>, << 4, 8 >> } }
  \cup { << "verify", 8, 8, T4, 1, 0, (BpScratchNeed(8, 8) + d) - 32 >> : d \in { 31, 32 } }
  \cup { << "verify", g, h, T4, 1, 0, x >> : x \in { 0, 16, 32 }, g \in { 1, 8 }, h \in { 1, 2 } }
  \cup { << "scr", 2, 2, T4, 1, 0, x >> : x \in 0..(FlipNeed + 17) }
       \* altered proofs and statements
  \cup { << "flip", 2, 2, T4, 1, 0, bit >> : bit \in 0..(8 * BpProofLen(2, 2) - 1) }
  \cup { << "mut", gh[1], gh[2], T4, 1, 0, m >> : m \in MutsAny, gh \in { << 1, 1 >>, << 2, 4 >> } }
  \cup { << "mut", 1, 1, << 2, 2, 4 >>, 1, 0, m >> : m \in { 37, 38 } }
  \cup { << "mut", gh[1], gh[2], T4, 1, 0, m >> : m \in MutsRound, gh \in { << 2, 2 >>, << 4, 1 >>, << 1, 4 >>, << 2, 4 >> } }
  \cup { << "mut", gh[1], gh[2], t, 1, 0, m >> : m \in { 12, 13, 14, 16 }, gh \in { << 2, 2 >>, << 1, 2 >>, << 4, 2 >> },
                                                  t \in { << 6, 6, 4 >>, << 1, 1, 4 >> } }
       \* rounds whose X AND R are both the point at infinity (l all-zero, one n entry): the sign byte must still be 0..3
  \cup { << "mut", 1, h, << 4, 1, 4 >>, 1, 0, m >> : h \in { 2, 4 }, m \in { 10, 11, 28 } \cup 40..45 }
  \cup { << "mut", 2, 2, T4, 1, 0, m >> : m \in 40..45 }
  \cup { << "np2", gh[1], gh[2], T4, 1, 0, 0 >> : gh \in { << 1, 3 >>, << 3, 1 >>, << 4, 3 >>, << 3, 4 >>, << 8, 7 >>, << 2, 3 >>, << 5, 2 >>, << 3, 3 >>, << 2, 2 >> } }
  \cup { << "mut", 4, h, T4, 1, 0, 31 >> : h \in { 1, 2 } } \cup { << "mut", 8, 2, T4, 1, 0, 31 >> }
  \cup { << "mut", g, h, T4, 1, 0, 32 >> : g \in { 1, 4 }, h \in { 2, 4 } }
       \* generator-list encodings
  \cup { << "gparse", k, 0, T4, 1, 0, v >> : k \in { 1, 2, 3, 8 }, v \in 1..20 }
  \cup { << "gparse", k, 0, T4, 1, 0, v >> : k \in { 64, 256 }, v \in { 1, 2, 4, 9, 14 } }
  \cup { << "gparse", 0, 0, T4, 1, 0, v >> : v \in { 1, 2, 3, 20 } }
  \cup (IF Thorough
        THEN      { << k, g, h, T4, 1, 0, BigScr >> : k \in Kinds, g \in AllSizes, h \in AllSizes }
             \cup { << k, g, h, t, 1, 0, BigScr >> : k \in Kinds, g \in Sizes, h \in Sizes, t \in PatTriples }
             \cup { << k, gh[1], gh[2], t, 1, 0, BigScr >> : k \in Kinds, gh \in { << 64, 64 >>, << 16, 32 >>, << 1, 64 >>, << 64, 1 >> },
                                                              t \in { << 5, 5, 5 >>, << 6, 6, 4 >>, << 1, 1, 4 >> } }
             \cup { << "verify", 64, 64, T4, 1, 0, (BpScratchNeed(64, 64) + d) - 32 >> : d \in { 0, 31, 32 } }
             \cup { << "verify", g, h, T4, 1, 0, (BpScratchNeed(g, h) + d) - 32 >> : d \in { 0, 16, 31, 32, 33, 48 }, g \in Sizes, h \in Sizes }
             \cup { << "verify", 64, 64, << 1, 4, 4 >>, 4, 0, BigScr >> }
             \cup { << "verify", g, h, T4, 4, 0, BigScr >> : g \in Sizes, h \in Sizes }
             \cup { << "mut", 64, 64, T4, 1, 0, m >> : m \in { 1, 3, 6, 10, 16, 21, 28 } }
             \cup { << "mut", 16, 4, T4, 1, 0, m >> : m \in MutsAny \cup MutsRound \cup { 31, 32 } }
             \cup { << "mut", 4, 2, T4, 1, 0, m >> : m \in MutsAny \cup MutsRound \cup { 31, 32 } }
             \cup { << "gparse", k, 0, T4, 1, 0, v >> : k \in { 16, 64, 256 }, v \in 1..20 }
             \cup { << k, g, h, T4, 1, 0, x >> : k \in { "commit", "prove" }, x \in { 0, 1, 101, 5001 }, g \in Sizes, h \in Sizes }
             \cup { << "mut", g, h, T4, 1, 0, m >> : m \in MutsAny, g \in { 1, 2 }, h \in { 1, 4 } }
             \cup { << "mut", 4, 8, T4, 1, 0, m >> : m \in MutsRound }
        ELSE { })

\* X: the order-13 test group (cfg C19_tiny13: Cases <- TinyCases).  Generators are inputs, so any subgroup points
\* serve: G_vec = (2G, 3G), H_vec = (5G) resp. G_vec = (2G), H_vec = (3G, 5G).  Enumerated completely:
\*  "tw"  every witness (n, l) in Z_13^3 for both shapes, two challenge bases: commit, prove, verify;
\*  "tp"  every proof string made of two subgroup points (or infinity) and two scalar encodings 0..14 / 0..12
\*        for one fixed statement -- the only place where accepted proofs exist that no prover produced.
\* (complete in the thorough tier; the quick tier keeps all points and thins out the scalars)
TinyGens == << PMulG(Two), PMulG(Three), PMulG(FromNat(5)) >>
TinyStmt(g, n, l, rho) ==
  LET h == 3 - g   c == [j \in 1..h |-> FromNat(5 + j)]
      C == BpCommit(SubSeq(TinyGens, 1, g), SubSeq(TinyGens, g + 1, 3), n, l, c, SMul(rho, rho))
  IN  [ gens |-> TinyGens, gb |-> BpGensSer(TinyGens), g |-> g, h |-> h, n |-> n, l |-> l, c |-> BpTup(c),
        rho |-> rho, mu |-> SMul(rho, rho), C |-> C, pre |-> << 7, 7, 7 >> ]
TinyW(g, a, b, c, rho) == IF g = 2 THEN TinyStmt(2, << FromNat(a), FromNat(b) >>, << FromNat(c) >>, FromNat(rho))
                          ELSE TinyStmt(1, << FromNat(a) >>, << FromNat(b), FromNat(c) >>, FromNat(rho))
TinyFixed == TinyStmt(2, << Three, Seven >>, << FromNat(4) >>, Two)
TinyPt(k) == IF k = 0 THEN Inf ELSE PMulG(FromNat(k))
NN == ToNat(N)
TinyCases ==
       { << "tw", k, g, a, b, c, rho >> : k \in IF Thorough THEN Kinds ELSE { "prove", "verify" }, g \in IF Thorough THEN { 1, 2 } ELSE { 2 },
                                          a \in 0..(NN-1), b \in 0..(NN-1), c \in IF Thorough THEN 0..(NN-1) ELSE { 0, 1, 5, NN-1 },
                                          rho \in IF Thorough THEN { 2, 6 } ELSE { 2 } }
  \cup { << "tw", k, 1, a, b, c, 6 >> : k \in Kinds, a \in { 0, 1, NN-1 }, b \in 0..(NN-1), c \in { 0, 5 } }
  \cup { << "tp", x, r, n, l >> : x \in 0..(NN-1), r \in 0..(NN-1), n \in IF Thorough THEN 0..(NN+1) ELSE { 0, 1, 5, NN-1, NN, NN+1 },
                                  l \in IF Thorough THEN 0..(NN-1) ELSE { 0, 4, NN-1 } }
ExpandTiny(d) ==
  IF d[1] = "tw"
  THEN LET s == TinyW(d[3], d[4], d[5], d[6], d[7]) IN
       CASE d[2] = "commit" -> RCommit(s, BigScr)
         [] d[2] = "prove"  -> RProve(s, BigScr)
         [] d[2] = "verify" -> RVerify(VIn(s, StmtProof(s), BigScr))
  ELSE RVerify(VIn(TinyFixed, BpSerTwo(TinyPt(d[2]), TinyPt(d[3])) \o ToBytesBE(FromNat(d[4]), 32) \o ToBytesBE(FromNat(d[5]), 32), BigScr))

Expand(d) ==
  LET k == d[1] IN
  IF k \in { "tw", "tp" } THEN ExpandTiny(d) ELSE
  IF k = "np2" THEN   \* sizes of which EXACTLY ONE is not a power of two, with the one statement whose equation balances for any sizes:
                      \* commitment = infinity, all-zero proof (every X, R at infinity, n = l = 0).  Must be refused for its sizes alone.
       LET g == d[2]  h == d[3]
           fl(x) == CHOOSE j \in 0..8 : 2^j <= x /\ x < 2^(j + 1)
           r == IF fl(g) > fl(h) THEN fl(g) ELSE fl(h)
       IN  RVerify([ gens |-> SubSeq(RealGenBytes, 1, 33 * (g + h)), glen |-> g, cv |-> BpVecBytes([j \in 1..h |-> FromNat(j)]),
                     rho |-> Scalar32(FromNat(7)), commit |-> Zeros(33), proof |-> Zeros(65 * r + 64), pre |-> << >>, scratch |-> BigScr ])
  ELSE IF k = "gparse" THEN [ e |-> "BpppGensParse", in |-> [ data |-> GParse(d[2], d[7]) ] ]
  ELSE IF k = "flip" THEN RVerify(VIn(FlipStmt, FlipBit(FlipProof, d[7]), BigScr))
  ELSE IF k = "scr" THEN RVerify(VIn(FlipStmt, FlipProof, d[7]))
  ELSE LET s == Stmt(d[2], d[3], d[4], d[5], d[6]) IN
       CASE k = "commit" -> RCommit(s, d[7])
         [] k = "prove"  -> RProve(s, d[7])
         [] k = "verify" -> RVerify(VIn(s, StmtProof(s), d[7]))
         [] k = "mut"    -> RVerify(Mutate(s, StmtProof(s), d[7]))

-----------------------------------------------------------------------------
\* design-level theorems, evaluated on every generated record
\* the specified prover's proof has the specified shape; that it satisfies the specified verifier (completeness)
\* is the "honest proofs verify" clause of InvVerify, evaluated on the verify record of the same statement
ProveComplete(i, o) ==
  "proof" \in DOMAIN o =>
    LET L == Len(o.proof) IN
    /\ L = BpProofLen(Len(i.nv) \div 32, Len(i.lv) \div 32)
    /\ Lt(FromBytesBE(SubSeq(o.proof, L - 63, L - 32)), N) /\ Lt(FromBytesBE(SubSeq(o.proof, L - 31, L)), N)
    /\ \A k \in 1..((L - 64) \div 65) : o.proof[65 * (k - 1) + 1] <= 3
\* the final equation and the round-by-round reduction of the paper decide alike (small sizes: the reduction is expensive)
FoldAgrees(i, o) ==
  LET g == BpGensParse(i.gens)  c == BpVec(i.cv) IN
  (g[1] /\ Len(g[2]) <= 6 /\ InScratch(i) >= BpScratchNeed(i.glen, Len(c))) =>
     ((o.ret = 1) <=> /\ Len(i.proof) = BpProofLen(i.glen, Len(c))
                      /\ BpVerifyByFolding(BpTranscript(InPre(i)), i.proof, InRho(i), g[2], i.glen, c, Parse33Ext(i.commit)[2]))
\* a generator list that parses re-serializes to the very same bytes
GensRoundTrip(i, o) == o.ret = 1 => o.ser = i.data

VARIABLES phase, cur, rec
vars == << phase, cur, rec >>
Init == phase = "pick" /\ cur = << >> /\ rec = << >>
Pick == phase = "pick" /\ \E c \in Cases : cur' = c /\ phase' = "eval" /\ rec' = << >>
Eval == phase = "eval" /\ LET x == Expand(cur) IN rec' = [ e |-> x.e, in |-> x.in, out |-> Out(x) ]
        /\ phase' = "done" /\ cur' = cur
Next == Pick \/ Eval
Spec == Init /\ [][Next]_vars

InvProve == (phase = "done" /\ rec.e = "BpppProve") => ProveComplete(rec.in, rec.out)
InvVerify == (phase = "done" /\ rec.e = "BpppVerify") =>
               /\ (cur[1] = "flip" => cur[7] % 16 = 0) => FoldAgrees(rec.in, rec.out)
               /\ (cur[1] = "verify" /\ cur[5] # 4 /\ cur[7] >= BpScratchNeed(cur[2], cur[3])) => rec.out.ret = 1   \* honest proofs verify
               /\ (cur[1] \in { "mut", "flip" } \/ cur[5] = 4) => rec.out.ret = 0                                   \* altered ones and rho = 0 do not
               /\ (cur[1] = "scr") => (rec.out.ret = 1 <=> cur[7] >= FlipNeed)
InvGens == (phase = "done" /\ rec.e = "BpppGensParse") => GensRoundTrip(rec.in, rec.out)
\* order-13 group: every honest proof verifies (completeness for ALL witnesses), and a proof string is accepted
\* exactly when the paper's reduction accepts it
InvTiny == (phase = "done" /\ rec.e = "BpppVerify") =>
             /\ cur[1] = "tw" => rec.out.ret = 1
             /\ FoldAgrees(rec.in, rec.out)
Emit == phase = "done" => EmitRecord(rec)

-----------------------------------------------------------------------------
\* size arithmetic, for all lengths 1..64 (cfg C19_model: one initial state per pair)
MInit == phase = "size" /\ cur \in (1..64) \X (1..64) /\ rec = << >>
MNext == UNCHANGED vars
InvSizes ==
  phase = "size" =>
    LET g == cur[1]  h == cur[2] IN
    /\ 2^BpLog2(g) <= g /\ g < 2^(BpLog2(g) + 1)
    /\ BpIsPow2(g) <=> g \in { 1, 2, 4, 8, 16, 32, 64 }
    /\ BpHalvings(g, h) = BpRounds(g, h)                 \* rounds a prover performs = rounds the verifier expects
    /\ BpProofLen(g, h) = 65 * BpHalvings(g, h) + 64
    /\ BpProofLen(g, h) \in { 64, 129, 194, 259, 324, 389, 454 }
    /\ BpScratchNeed(g, h) >= 64 /\ BpScratchNeed(g, h) % 32 = 0
    /\ (g < 64 => BpScratchNeed(g + 1, h) > BpScratchNeed(g, h)) /\ (h < 64 => BpScratchNeed(g, h + 1) > BpScratchNeed(g, h))

-----------------------------------------------------------------------------
\* T direction: events recorded from the implementation, validated against Out and Rel
TraceEvents == LoadTrace
TInit == phase = "pick" /\ cur = 0 /\ rec = TRUE
TPick == phase = "pick" /\ \E i \in 1..Len(TraceEvents) : cur' = i /\ phase' = "eval" /\ rec' = rec
TEval == phase = "eval" /\ rec' = (SubRec(Out(TraceEvents[cur]), TraceEvents[cur].out) /\ Rel(TraceEvents[cur]))
         /\ phase' = "done" /\ cur' = cur
TNext == TPick \/ TEval
TraceOK == rec = TRUE
=============================================================================
