------------------------------- MODULE C03_Codec -------------------------------
(***************************************************************************)
(* C03 -- the parsers and serializers of public keys and ECDSA signatures  *)
(* as a machine of call records (same shape as C01_Ecdsa).  The accepted   *)
(* languages are the declarative definitions of Der.tla / PubkeyCodec.tla; *)
(* TLC builds the byte strings token by token from small descriptors       *)
(* (tag, length form, content kind, boundary value, trailing bytes,        *)
(* truncation, byte mutation).                                             *)
(***************************************************************************)
EXTENDS Der, PubkeyCodec, Ecdsa, CurveParams, Verif, FiniteSets

C3B(x) == ToBytesBE(x, 32)
C3Max256 == Sub(Pow2(256), One)
HasF(i, f) == f \in DOMAIN i

-----------------------------------------------------------------------------
\* specified results (field names = harness record fields, harness/ops_codec.h)
C3VerifyObj(obj, i) == LET q == PkParse(i.pk) IN q[1] /\ VerifyEq(obj[1], obj[2], i.msg, q[2])
C3WithVerify(base, obj, i) == IF HasF(i, "msg") /\ HasF(i, "pk") THEN base @@ [ vret |-> B2I(C3VerifyObj(obj, i)) ] ELSE base

OutPubkeyParse(i) ==
  LET p == PkParse(i.pub) IN
  IF p[1] THEN [ ret |-> 1, r33 |-> 1, l33 |-> 33, ser33 |-> PkEnc33(p[2]), r65 |-> 1, l65 |-> 65, ser65 |-> PkEnc65(p[2]), icb |-> 0 ]
  ELSE [ ret |-> 0, icb |-> 0 ]              \* header: "its value is undefined" -- the object is not constrained
OutPubkeySerialize(i) ==
  LET p == PkParse(i.pub) IN
  IF ~p[1] THEN [ pret |-> 0 ]
  ELSE LET s == PkSerialize(p[2], i.comp = 1, i.cap) IN
       IF s[1] = 1 THEN [ pret |-> 1, ret |-> 1, outlen |-> s[2], out |-> s[3], icb |-> 0 ]
       ELSE [ pret |-> 1, ret |-> 0, icb |-> 1 ]
OutXonlyParse(i) ==
  LET p == XoParse(i.x) IN
  IF p[1] THEN [ ret |-> 1, sret |-> 1, ser |-> PkEncX(p[2]), icb |-> 0 ]
  ELSE [ ret |-> 0, zero |-> 1, icb |-> 0 ]  \* header: "set to an invalid value"
OutDerParse(i) ==
  LET p == DerParse(i.der)
      base == [ ret |-> B2I(p[1]), sig |-> SigBytes(p[2]), icb |-> 0 ]
      full == IF p[1] THEN base @@ [ rret |-> 1, reser |-> DerEncode(p[2]) ] ELSE base
  IN  C3WithVerify(full, p[2], i)
OutDerSerialize(i) ==
  LET so == SigObj(i.sig)  s == DerSerialize(so[2], i.cap)
      base == [ pret |-> B2I(so[1]), ret |-> s[1], outlen |-> s[2], overrun |-> 0, icb |-> 0 ]
  IN  IF s[1] = 1 THEN base @@ [ der |-> s[3] ] ELSE base
OutCompactParse(i) ==
  LET so == SigObj(i.sig) IN
  C3WithVerify([ ret |-> B2I(so[1]), sret |-> 1, sig |-> SigBytes(so[2]), icb |-> 0 ], so[2], i)
OutRecCompactParse(i) ==
  LET so == SigObj(i.sig) IN
  IF i.recid < 0 \/ i.recid > 3 THEN [ ret |-> 0, icb |-> 1 ]
  ELSE IF so[1] THEN [ ret |-> 1, sig |-> i.sig, recid |-> i.recid, conv |-> i.sig, icb |-> 0 ]
  ELSE [ ret |-> 0, icb |-> 0 ]

Out(ev) == CASE ev.e = "PubkeyParse"     -> OutPubkeyParse(ev.in)
             [] ev.e = "PubkeySerialize" -> OutPubkeySerialize(ev.in)
             [] ev.e = "XonlyParse"      -> OutXonlyParse(ev.in)
             [] ev.e = "DerParse"        -> OutDerParse(ev.in)
             [] ev.e = "DerSerialize"    -> OutDerSerialize(ev.in)
             [] ev.e = "CompactParse"    -> OutCompactParse(ev.in)
             [] ev.e = "RecCompactParse" -> OutRecCompactParse(ev.in)

-----------------------------------------------------------------------------
\* design-level theorems, evaluated on every generated record
ThmDer(i, o) ==
  LET b == i.der  acc == StrictDer(b)  rd == DerRead(b)  p == DerParse(b) IN
  /\ Cardinality(DerPairs(b)) <= 1                                  \* the grammar is unambiguous
  /\ rd[1] = acc                                                    \* the left-to-right reader recognises the same language
  /\ acc => << rd[2], rd[3] >> = DerParsedContents(b)
  /\ (o.ret = 1) = acc
  /\ ~acc => p[2] = << Zero, Zero >>                                \* a rejected string leaves the dead object
  /\ acc => LET c == DerParsedContents(b)  inr == DerIntInRange(c[1]) /\ DerIntInRange(c[2]) IN
            /\ DerParse(DerEncode(p[2])) = << TRUE, p[2] >>         \* parse after serialize is the identity on objects
            /\ inr => DerEncode(p[2]) = b                           \* canonical: serialize after parse is the identity on strings
            /\ ~inr => (IsZero(p[2][1]) \/ IsZero(p[2][2]))         \* out of range: an object that no (message, key) verifies
  /\ (IsZero(p[2][1]) \/ IsZero(p[2][2])) => \A Q \in { G, PDbl(G) } : ~VerifyEq(p[2][1], p[2][2], Zeros(32), Q)
ThmPk(i, o) ==
  LET b == i.pub  p == PkParse(b) IN
  /\ Cardinality(PkPoints(b)) <= 1
  /\ ParsePub(b) = p                                                \* agrees with the parser of Curve.tla used by the other checks
  /\ p[1] => /\ PkParse(o.ser33) = p /\ PkParse(o.ser65) = p /\ PkParse(PkEncHybrid(p[2])) = p
             /\ b[1] \in {2, 3} => o.ser33 = b
             /\ b[1] = 4 => o.ser65 = b
             /\ b[1] \in {6, 7} => o.ser65 = << 4 >> \o Tail(b)     \* hybrid keys map to their uncompressed form
             /\ IsOnCurve(p[2])
ThmXo(i, o) ==
  LET p == XoParse(i.x) IN
  /\ ParseXOnly(i.x) = p
  /\ p[1] => o.ser = i.x /\ HasEvenY(p[2]) /\ PkParse(<< 2 >> \o i.x) = p
ThmSer(i, o) ==
  LET so == SigObj(i.sig) IN
  /\ o.ret = 0 => DerSerialize(so[2], o.outlen)[1] = 1 /\ o.outlen > i.cap  \* the reported size is sufficient and was necessary
  /\ o.ret = 1 => Len(o.der) = o.outlen /\ o.outlen <= i.cap /\ DerParse(o.der) = << TRUE, so[2] >> /\ o.outlen <= 72
ThmCompact(i, o) ==
  /\ o.ret = 1 => o.sig = i.sig
  /\ o.ret = 0 => AllZero(o.sig)
  /\ HasF(o, "vret") /\ o.ret = 0 => o.vret = 0

-----------------------------------------------------------------------------
\* generated input space
\* boundary values for INTEGER contents and scalars
C3Vals == << Zero, One, FromNat(127), FromNat(128), FromNat(255), FromNat(256), Sub(Pow2(255), One), Pow2(255),
             HalfN, Sub(N, One), N, Add(N, One), C3Max256, Pow2(256), Mod(FromBytesBE(Rnd32(31)), N),
             FromBytesBE(SubSeq(Rnd32(32), 1, 16)), Add(HalfN, One), Sub(Pow2(248), One) >>
NVals == Len(C3Vals)
C3Raw(v) == IF IsZero(v) THEN << 0 >> ELSE ToBytesBE(v, DerByteLen(v))
\* content kinds of an INTEGER carrying value v
C3Content(ck, v) ==
  CASE ck = 1  -> DerIntOf(v)                                        \* minimal
    [] ck = 2  -> C3Raw(v)                                           \* sign pad omitted: negative if the top bit is set
    [] ck = 3  -> << 0 >> \o DerIntOf(v)                             \* excess 0x00
    [] ck = 4  -> << 0, 0 >> \o DerIntOf(v)
    [] ck = 5  -> << 255 >> \o C3Raw(v)                              \* 0xFF in front: excess padding or a proper negative
    [] ck = 6  -> LET m == C3Raw(v) IN [ m EXCEPT ![1] = IF @ < 128 THEN @ + 128 ELSE @ ]   \* negative
    [] ck = 7  -> << >>                                              \* empty
    [] ck = 8  -> ToBytesBE(Mod(v, Pow2(256)), 32)                   \* fixed width
    [] ck = 9  -> << 0 >> \o ToBytesBE(Mod(v, Pow2(256)), 32)        \* 33 bytes with leading zero
    [] ck = 10 -> << 255 >>                                          \* -1
    [] ck = 11 -> << 255, 255 >>
    [] ck = 12 -> << 255 >> \o DerIntOf(v)
    [] ck >= 100 /\ ck < 1000 -> << 1 >> \o Zeros(ck - 101)          \* (ck-100) octets, positive, oversize
    [] ck >= 1000 -> << 0, 128 >> \o Zeros(ck - 1002)                \* (ck-1000) octets with a required sign pad
NKinds == 12
\* length forms announcing L content octets
C3LenForm(f, L) ==
  CASE f = 1  -> DerLen(L)                                           \* DER
    [] f = 2  -> << (L + 1) % 256 >>
    [] f = 3  -> << (L + 255) % 256 >>
    [] f = 4  -> << 129, L % 256 >>                                  \* long form, one octet (non-minimal below 128)
    [] f = 5  -> << 130, (L \div 256) % 256, L % 256 >>              \* long form, two octets (leading zero below 256)
    [] f = 6  -> << 128 >>                                           \* indefinite
    [] f = 7  -> << 255 >>                                           \* reserved
    [] f = 8  -> << 136, 0, 0, 0, 0, 0, 0, (L \div 256) % 256, L % 256 >>
    [] f = 9  -> << 136, 1, 0, 0, 0, 0, 0, 0, L % 256 >>
    [] f = 10 -> << 137, 1, 0, 0, 0, 0, 0, 0, 0, L % 256 >>          \* more length octets than a size_t has
    [] f = 11 -> << 132, 0, 0, (L \div 256) % 256, L % 256 >>
    [] f = 12 -> << L % 256 >>                                       \* one octet whatever L is
    [] f = 13 -> << >>                                               \* no length octet at all
    [] f = 14 -> << 129 >>                                           \* long form cut short
NForms == 14
SeqTags == { 48, 49, 0, 176, 16, 112 }
IntTags == { 2, 3, 130, 34, 0, 48 }

\* an INTEGER descriptor is <<tag, length form, content kind, value index>>
C3Int(d) == LET c == C3Content(d[3], C3Vals[d[4]]) IN << d[1] >> \o C3LenForm(d[2], Len(c)) \o c
\* trailing: 0 none, 1 one octet inside the SEQUENCE, 2 one octet after it, 3 s missing,
\* 4 a third INTEGER inside, 5 a second SEQUENCE after it
C3Sig(stag, slf, tr, rd, sd) ==
  LET body == C3Int(rd) \o (IF tr = 3 THEN << >> ELSE C3Int(sd))
              \o (IF tr = 1 THEN << 0 >> ELSE IF tr = 4 THEN << 2, 1, 1 >> ELSE << >>)
  IN  << stag >> \o C3LenForm(slf, Len(body)) \o body
      \o (IF tr = 2 THEN << 0 >> ELSE IF tr = 5 THEN << 48, 0 >> ELSE << >>)
C3Min(vi) == << 2, 1, 1, vi >>
C3Bases == << << C3Min(2), C3Min(2) >>, << C3Min(10), C3Min(9) >>, << C3Min(8), C3Min(7) >>, << C3Min(15), C3Min(16) >>,
              << C3Min(1), C3Min(1) >>, << C3Min(11), C3Min(13) >>, << << 2, 1, 112, 1 >>, C3Min(2) >>, << C3Min(7), << 2, 1, 1129, 1 >> >> >>
C3Base(k) == C3Sig(48, 1, 0, C3Bases[k][1], C3Bases[k][2])
C3Mut(b, pos, how) ==
  IF pos > Len(b) THEN b
  ELSE [ b EXCEPT ![pos] = CASE how = 1 -> 0 [] how = 2 -> 128 [] how = 3 -> 255 [] how = 4 -> (@ + 1) % 256
                                [] how = 5 -> (@ + 255) % 256 [] how = 6 -> (@ + 128) % 256 ]

Thorough == EnvNat("VERIF_THOROUGH") = 1
FewVals == { 2, 4, 8, 10, 11, 13 }
LongKs == { 2, 33, 34, 60, 119, 120, 121, 122, 123, 124, 126, 127, 128, 129, 200, 255, 256, 300 }
SerVals == IF Thorough THEN 1..NVals \ { 14 } ELSE { 1, 2, 3, 4, 7, 8, 10, 16 }
CapPool == 0..74
CompactVals == { 1, 2, 9, 10, 11, 12, 13, 8, 15 }

DerCases ==
       { << "derseq", st, lf, tr, vi >> : st \in SeqTags, lf \in 1..NForms, tr \in 0..5, vi \in { 2, 8, 10 } }
  \cup { << "derint", w, it, 1, ck, vi >> : w \in {1, 2}, it \in IntTags, ck \in 1..NKinds, vi \in 1..NVals }
  \cup { << "derint", w, 2, lf, ck, vi >> : w \in {1, 2}, lf \in 2..NForms, ck \in { 1, 2, 3, 5, 8, 9 }, vi \in (IF Thorough THEN 1..NVals ELSE FewVals) }
  \cup { << "derboth", ck1, v1, ck2, v2 >> : ck1 \in 1..NKinds, ck2 \in 1..NKinds, v1 \in { 2, 4, 10, 11, 13 }, v2 \in { 2, 4, 10, 11, 13 } }
  \cup { << "derlong", w, ck, slf, ilf >> : w \in {1, 2}, ck \in { 100 + k : k \in LongKs } \cup { 1000 + k : k \in LongKs },
                                             slf \in { 1, 4, 5, 8, 9, 10, 12 }, ilf \in { 1, 4, 5, 8, 9, 10, 12 } }
  \cup { << "dertrunc", k, n >> : k \in 1..Len(C3Bases), n \in 0..74 }
  \cup { << "dermut", k, pos, how >> : k \in (IF Thorough THEN 1..6 ELSE { 2, 3, 4 }), pos \in 1..72, how \in 1..6 }
  \cup { << "derprev", st, vi >> : st \in { 48, 49 }, vi \in { 2, 10, 11 } }
SerCases ==
       { << "derser", v1, v2, cap >> : v1 \in SerVals, v2 \in SerVals, cap \in CapPool }
CompactCases ==
       { << "compact", v1, v2, pv >> : v1 \in CompactVals, v2 \in CompactVals, pv \in {0, 1} }
  \cup { << "reccompact", v1, v2, rid >> : v1 \in { 1, 2, 10, 11, 13 }, v2 \in { 1, 2, 10, 11, 13 }, rid \in { 0, 1, 2, 3, 4, 255 } }
  \cup { << "splusn", d, k, s, mode >> : d \in { 1, 3 }, k \in { 1, 5 }, s \in 1..4, mode \in 0..3 }
  \cup { << "rplusn", j, mode >> : j \in 1..(IF Thorough THEN 40 ELSE 12), mode \in 0..2 }
\* public keys: every prefix byte x lengths x coordinate classes
PkLens == { 0, 1, 32, 33, 34, 64, 65, 66 }
PkCases ==
       { << "pk", pre, len, xc, yc >> : pre \in 0..255, len \in { 64, 65, 66 },
                                         xc \in (IF Thorough THEN 1..10 ELSE { 2, 5, 7, 8 }), yc \in (IF Thorough THEN 1..6 ELSE { 1, 2, 3 }) }
  \cup { << "pk", pre, len, xc, 1 >> : pre \in 0..255, len \in { 32, 33, 34 }, xc \in (IF Thorough THEN 1..10 ELSE { 2, 5, 7, 8 }) }   \* (no y octets in these)
  \cup { << "pk", pre, len, 2, 1 >> : pre \in 0..255, len \in { 0, 1 } }
  \cup { << "pk", pre, len, xc, yc >> : pre \in { 2, 3, 4, 6, 7 }, len \in { 33, 65 }, xc \in 1..10, yc \in 1..6 }
  \cup { << "pkser", k, comp, cap >> : k \in 1..3, comp \in {0, 1}, cap \in { 0, 1, 32, 33, 34, 64, 65, 66, 100 } }
  \cup { << "xo", j >> : j \in 0..40 }
  \cup { << "xop", j >> : j \in 0..40 }
  \cup { << "xov", v >> : v \in 1..NVals }
  \cup { << "xok", k >> : k \in 1..12 }
  \cup { << "xoe", j >> : j \in 1..6 }
  \cup { << "band", w, j, lo, form >> : w \in {52, 26}, j \in 1..9, lo \in 0..5, form \in 0..2 }
Cases == DerCases \cup SerCases \cup CompactCases \cup PkCases

-----------------------------------------------------------------------------
DP(der) == [ e |-> "DerParse", in |-> [ der |-> der ] ]
ExpandDer(c) ==
  CASE c[1] = "derseq"  -> DP(C3Sig(c[2], c[3], c[4], C3Min(c[5]), C3Min(10)))
    [] c[1] = "derint"  -> LET d == << c[3], c[4], c[5], c[6] >> IN
                           DP(IF c[2] = 1 THEN C3Sig(48, 1, 0, d, C3Min(10)) ELSE C3Sig(48, 1, 0, C3Min(2), d))
    [] c[1] = "derboth" -> DP(C3Sig(48, 1, 0, << 2, 1, c[2], c[3] >>, << 2, 1, c[4], c[5] >>))
    [] c[1] = "derlong" -> LET d == << 2, c[5], c[3], 1 >> IN
                           DP(IF c[2] = 1 THEN C3Sig(48, c[4], 0, d, C3Min(2)) ELSE C3Sig(48, c[4], 0, C3Min(10), d))
    [] c[1] = "dertrunc" -> LET b == C3Base(c[2]) IN DP(SubSeq(b, 1, IF c[3] < Len(b) THEN c[3] ELSE Len(b)))
    [] c[1] = "dermut"  -> DP(C3Mut(C3Base(c[2]), c[3], c[4]))
    [] c[1] = "derprev" -> \* the object held a valid signature before the call
         [ e |-> "DerParse", in |-> [ der |-> C3Sig(c[2], 1, 0, C3Min(c[3]), C3Min(2)), prev |-> C3B(FromNat(7)) \o C3B(FromNat(9)),
                                      msg |-> Rnd32(33), pk |-> Ser33(G) ] ]

\* a valid signature with a chosen small s (message solved for it, as in C01): m = s*k - r*d
C3SmallS == << One, Two, Pow2(128), Sub(Sub(Pow2(256), N), One) >>
C3Forge(d, k, s) ==
  LET R == PMulG(k)  r == Mod(R[1], N)  m == SSub(SMul(s, k), SMul(r, d))
  IN  [ r |-> r, s |-> s, msg |-> C3B(m), pk |-> Ser33(PMulG(d)) ]
CP(sig, f) == [ e |-> "CompactParse", in |-> [ sig |-> sig, msg |-> f.msg, pk |-> f.pk ] ]
ExpandSPlusN(d, k, si, mode) ==
  LET f == C3Forge(FromNat(d), FromNat(k), C3SmallS[si])
      good == C3B(f.r) \o C3B(f.s)
      over == C3B(f.r) \o C3B(Add(f.s, N))                     \* the same signature with s re-encoded as s + n
  IN  CASE mode = 0 -> CP(good, f)
        [] mode = 1 -> CP(over, f)
        [] mode = 2 -> [ e |-> "CompactParse", in |-> [ sig |-> over, prev |-> good, msg |-> f.msg, pk |-> f.pk ] ]
        [] mode = 3 -> [ e |-> "DerParse", in |-> [ der |-> DerSigOf(DerIntOf(f.r), DerIntOf(Add(f.s, N))), prev |-> good, msg |-> f.msg, pk |-> f.pk ] ]
\* the r + n < p family of C01: R with x(R) = n + j, r = j; the encoding r + n overflows
ExpandRPlusN(j, mode) ==
  LET x == Add(N, FromNat(j))  l == LiftX(x)  r == FromNat(j)  s == Two  m == FromNat(77) IN
  IF ~l[1] THEN [ e |-> "CompactParse", in |-> [ sig |-> C3B(x) \o C3B(s) ] ]
  ELSE LET Q == PMul(SMul(s, SInv(r)), PSub(l[2], PMulG(SMul(m, SInv(s)))))
           f == [ msg |-> C3B(m), pk |-> Ser33(Q) ]
       IN  CASE mode = 0 -> CP(C3B(r) \o C3B(s), f)
             [] mode = 1 -> CP(C3B(x) \o C3B(s), f)
             [] mode = 2 -> [ e |-> "CompactParse", in |-> [ sig |-> C3B(x) \o C3B(s), prev |-> C3B(r) \o C3B(s), msg |-> f.msg, pk |-> f.pk ] ]

\* coordinate classes
C3ValidX(k) == PMulG(FromNat(k))
C3X(xc) == CASE xc = 1 -> Zero [] xc = 2 -> One [] xc = 3 -> Sub(P, One) [] xc = 4 -> P [] xc = 5 -> Add(P, One)
             [] xc = 6 -> C3Max256 [] xc = 7 -> C3ValidX(3)[1] [] xc = 8 -> FromNat(5) [] xc = 9 -> C3ValidX(6)[1] [] xc = 10 -> Add(P, Two)
C3Y(x, yc) ==
  LET c == FSqrtCand(CurveRhs(Mod(x, P)))  ev == IF IsOdd(c) THEN FNeg(c) ELSE c IN
  CASE yc = 1 -> ev [] yc = 2 -> FNeg(ev) [] yc = 3 -> FAdd(ev, One) [] yc = 4 -> P [] yc = 5 -> C3Max256 [] yc = 6 -> Zero
\* coordinates just BELOW p whose limbs (52-bit or 26-bit layout) are all-ones except that one bit of limb j is cleared, with the lowest
\* limb at / above the lowest limb of p: a range check that consults the wrong limb misjudges exactly these.  Valid field elements.
C3PLow(w) == Mod(P, Pow2(w))
C3Band(w, j0, lo) ==
  LET j == ((j0 - 1) % ((256 \div w) - 1)) + 1                     \* limb index 1 .. number of limbs - 1 (j0 wraps for the 52-bit layout)
      low == CASE lo = 0 -> C3PLow(w) [] lo = 1 -> Add(C3PLow(w), One) [] lo = 2 -> Sub(Pow2(w), One) [] lo = 3 -> Add(C3PLow(w), FromNat(2))
               [] lo = 4 -> Add(C3PLow(w), FromNat(3)) [] lo = 5 -> Sub(Pow2(w), FromNat(2))
  IN  Add(Sub(Sub(Pow2(256), Pow2(w)), Pow2(w * j)), low)
C3PkString(pre, len, xc, yc) ==
  LET x == C3X(xc)  full == << pre >> \o C3B(x) \o C3B(C3Y(x, yc)) \o << 0 >> IN SubSeq(full, 1, len)
C3XoEdge == << Sub(P, One), P, Add(P, One), C3Max256, Sub(P, Two), Pow2(255) >>

ExpandOther(c) ==
  CASE c[1] = "derser"  -> [ e |-> "DerSerialize", in |-> [ sig |-> C3B(C3Vals[c[2]]) \o C3B(C3Vals[c[3]]), cap |-> c[4] ] ]
    [] c[1] = "compact" -> LET sg == C3B(C3Vals[c[2]]) \o C3B(C3Vals[c[3]]) IN
                           [ e |-> "CompactParse", in |-> IF c[4] = 1 THEN [ sig |-> sg, prev |-> C3B(FromNat(7)) \o C3B(FromNat(9)) ] ELSE [ sig |-> sg ] ]
    [] c[1] = "reccompact" -> [ e |-> "RecCompactParse", in |-> [ sig |-> C3B(C3Vals[c[2]]) \o C3B(C3Vals[c[3]]), recid |-> c[4] ] ]
    [] c[1] = "splusn"  -> ExpandSPlusN(c[2], c[3], c[4], c[5])
    [] c[1] = "rplusn"  -> ExpandRPlusN(c[2], c[3])
    [] c[1] = "pk"      -> [ e |-> "PubkeyParse", in |-> [ pub |-> C3PkString(c[2], c[3], c[4], c[5]) ] ]
    [] c[1] = "pkser"   -> LET Q == C3ValidX(c[2] + 1) IN
                           [ e |-> "PubkeySerialize", in |-> [ pub |-> IF c[2] = 2 THEN PkEncHybrid(Q) ELSE PkEnc33(Q), comp |-> c[3], cap |-> c[4] ] ]
    [] c[1] = "band"    -> LET x == C3Band(c[2], c[3], c[4])  l == LiftX(x) IN
                           IF c[5] = 0 THEN [ e |-> "XonlyParse", in |-> [ x |-> C3B(x) ] ]
                           ELSE IF c[5] = 1 THEN [ e |-> "PubkeyParse", in |-> [ pub |-> << 2 >> \o C3B(x) ] ]
                           ELSE [ e |-> "PubkeyParse", in |-> [ pub |-> << 4 >> \o C3B(x) \o C3B(IF l[1] THEN l[2][2] ELSE One) ] ]
    [] c[1] = "xo"      -> [ e |-> "XonlyParse", in |-> [ x |-> C3B(FromNat(c[2])) ] ]
    [] c[1] = "xop"     -> [ e |-> "XonlyParse", in |-> [ x |-> C3B(Add(P, FromNat(c[2]))) ] ]   \* x + p: same residue, not canonical
    [] c[1] = "xov"     -> [ e |-> "XonlyParse", in |-> [ x |-> C3B(Mod(C3Vals[c[2]], Pow2(256))) ] ]
    [] c[1] = "xok"     -> [ e |-> "XonlyParse", in |-> [ x |-> PkEncX(C3ValidX(c[2])) ] ]
    [] c[1] = "xoe"     -> [ e |-> "XonlyParse", in |-> [ x |-> C3B(C3XoEdge[c[2]]) ] ]
Expand(c) == IF c[1] \in { "derseq", "derint", "derboth", "derlong", "dertrunc", "dermut", "derprev" } THEN ExpandDer(c) ELSE ExpandOther(c)

-----------------------------------------------------------------------------
VARIABLES phase, cur, rec
vars == << phase, cur, rec >>
Init == phase = "pick" /\ cur = << >> /\ rec = << >>
Pick == phase = "pick" /\ \E c \in Cases : cur' = c /\ phase' = "eval" /\ rec' = << >>
Eval == phase = "eval" /\ LET x == Expand(cur) IN rec' = [ e |-> x.e, in |-> x.in, out |-> Out(x) ]
        /\ phase' = "done" /\ cur' = cur
Next == Pick \/ Eval
Spec == Init /\ [][Next]_vars

Done(e) == phase = "done" /\ rec.e = e
InvDer     == Done("DerParse") => ThmDer(rec.in, rec.out)
InvPk      == Done("PubkeyParse") => ThmPk(rec.in, rec.out)
InvXo      == Done("XonlyParse") => ThmXo(rec.in, rec.out)
InvSer     == Done("DerSerialize") => ThmSer(rec.in, rec.out)
InvCompact == Done("CompactParse") => ThmCompact(rec.in, rec.out)
\* the s + n / r + n re-encodings are rejected although the signature they re-encode verifies
InvReencode == (phase = "done" /\ cur[1] \in { "splusn", "rplusn" } /\ HasF(rec.in, "msg")) =>
                 IF cur[Len(cur)] = 0 THEN rec.out.ret = 1 /\ rec.out.vret = 1 ELSE rec.out.ret = (IF rec.e = "DerParse" THEN 1 ELSE 0) /\ rec.out.vret = 0
Emit == phase = "done" => EmitRecord(rec)
-----------------------------------------------------------------------------
TraceEvents == LoadTrace
TInit == phase = "pick" /\ cur = 0 /\ rec = TRUE
TPick == phase = "pick" /\ \E i \in 1..Len(TraceEvents) : cur' = i /\ phase' = "eval" /\ rec' = rec
TEval == phase = "eval" /\ rec' = SubRec(Out(TraceEvents[cur]), TraceEvents[cur].out) /\ phase' = "done" /\ cur' = cur
TNext == TPick \/ TEval
TraceOK == rec = TRUE
=============================================================================
