------------------------------- MODULE C14_Adaptor -------------------------------
(***************************************************************************)
(* C14 -- the ECDSA adaptor API as a machine of call records (same shape   *)
(* as C01_Ecdsa): Out(ev) is the specified observable result of each call, *)
(* Cases the generated input space, Expand builds the call record.         *)
(***************************************************************************)
EXTENDS EcdsaAdaptor, CurveParams, Verif

NBytes(x) == ToBytesBE(x, 32)
Max256 == Sub(Pow2(256), One)
Has(i, f) == f \in DOMAIN i

-----------------------------------------------------------------------------
\* specified results (field names = harness record fields, see harness/ops_adaptor.h)
SrcOf(i) == IF i.nf = 2 THEN << "two", Has(i, "k1"), IF Has(i, "k1") THEN i.k1 ELSE << >>,
                                       Has(i, "k2"), IF Has(i, "k2") THEN i.k2 ELSE << >> >>
            ELSE << "def", IF Has(i, "aux") THEN i.aux ELSE << >> >>

OutEncrypt(i) ==
  LET ek == ParsePub(i.enckey) IN
  IF ~ek[1] THEN [ kret |-> 0, ret |-> 0, icb |-> 0 ]
  ELSE LET a == AdEncrypt(i.key, ek[2], i.msg, SrcOf(i)) IN [ kret |-> 1, ret |-> a[1], asig |-> a[2], icb |-> 0 ]

OutVerify(i) ==
  LET pk == ParsePub(i.pk)  ek == ParsePub(i.enckey) IN
  [ kret |-> B2I(pk[1]), eret |-> B2I(ek[1]), icb |-> 0,
    ret |-> B2I(pk[1] /\ ek[1] /\ AdVerify(i.asig, pk[2], i.msg, ek[2])) ]

OutDecrypt(i) ==
  LET d == AdDecrypt(i.deckey, i.asig) IN
  IF d[1] = 1 THEN [ ret |-> 1, sig |-> SigBytes(d[2]), icb |-> 0 ] ELSE [ ret |-> 0, sigzero |-> 1, icb |-> 0 ]

OutRecover(i) ==
  LET so == SigObj(i.sig)  ek == ParsePub(i.enckey) IN
  IF ~ek[1] THEN [ pret |-> B2I(so[1]), eret |-> 0, ret |-> 0, icb |-> 0 ]
  ELSE LET rc == AdRecover(so[2], i.asig, ek[2])
           base == [ pret |-> B2I(so[1]), eret |-> 1, ret |-> rc[1], icb |-> 0 ]
       IN  IF rc[1] = 1 THEN base @@ [ deckey |-> NBytes(rc[2]) ] ELSE base

\* the life cycle; the generator only uses valid decryption keys
OutPipeline(i) ==
  LET pd == ParseSecret(i.deckey) IN
  IF ~pd[1] THEN [ ret |-> 2, icb |-> 0 ]
  ELSE LET Y == PMulG(pd[2])
           a == AdEncrypt(i.key, Y, i.msg, SrcOf(i))
           base == [ enckey |-> Ser33(Y), ret |-> a[1], asig |-> a[2], icb |-> 0 ]
       IN  IF a[1] = 0 THEN base
           ELSE LET X  == PMulG(FromBytesBE(i.key))
                    d  == AdDecrypt(i.deckey, a[2])
                    rc == AdRecover(d[2], a[2], Y)
                IN  base @@ [ pk |-> Ser33(X), vret |-> B2I(AdVerify(a[2], X, i.msg, Y)), dret |-> d[1], sig |-> SigBytes(d[2]),
                              everify |-> B2I(VerifyEq(d[2][1], d[2][2], i.msg, X)), rret |-> rc[1], rkey |-> NBytes(rc[2]) ]

\* events of other modules that the trace driver chains in
OutEcdsaVerify(i) ==
  LET so == SigObj(i.sig)  pk == ParsePub(i.pk) IN
  [ pret |-> B2I(so[1]), kret |-> B2I(pk[1]), icb |-> 0, ret |-> B2I(pk[1] /\ VerifyEq(so[2][1], so[2][2], i.msg, pk[2])) ]

Out(ev) == CASE ev.e = "AdaptorEncrypt"  -> OutEncrypt(ev.in)
             [] ev.e = "AdaptorVerify"   -> OutVerify(ev.in)
             [] ev.e = "AdaptorDecrypt"  -> OutDecrypt(ev.in)
             [] ev.e = "AdaptorRecover"  -> OutRecover(ev.in)
             [] ev.e = "AdaptorPipeline" -> OutPipeline(ev.in)
             [] ev.e = "EcdsaVerify"     -> OutEcdsaVerify(ev.in)

-----------------------------------------------------------------------------
\* design-level theorems, evaluated on every generated record
\* pipeline consistency: encrypt -> verify = 1 -> decrypt -> low-S ECDSA signature that verifies -> recover returns the
\* decryption key, also from the negated-s twin
PipelineSound(i, o) ==
  o.ret = 1 =>
    LET so == SigObj(o.sig)  Y == PMulG(FromBytesBE(i.deckey))  y == FromBytesBE(i.deckey) IN
    /\ o.vret = 1 /\ o.dret = 1 /\ o.everify = 1 /\ so[1] /\ ~IsHigh(so[2][2]) /\ ~IsZero(so[2][2])
    /\ o.rret = 1 /\ o.rkey = i.deckey
    /\ AdRecover(<< so[2][1], SNeg(so[2][2]) >>, o.asig, Y) = << 1, y >>
    /\ AdRecover(so[2], o.asig, PNeg(Y)) = << 1, SNeg(y) >>
PipelineFailZero(i, o) == o.ret = 0 => AllZero(o.asig)
\* with a valid signing key and the module's own nonce function encryption succeeds
PipelineTotal(i, o) == (N = SecpN /\ ParseSecret(i.key)[1] /\ i.nf # 2) => o.ret = 1
\* parsing an adaptor signature the specification produced gives back canonical fields
EncryptCanonical(o) ==
  o.ret = 1 => LET p == AdParse(o.asig) IN p.ok /\ AdSer(p.R, p.Rp, p.sp, p.e, p.sd) = o.asig

-----------------------------------------------------------------------------
\* generated input space (real group)
Rs(j) == LET x == Mod(FromBytesBE(Rnd32(j)), N) IN IF IsZero(x) THEN One ELSE x
KeySeq == << One, Sub(N, One), Rs(1), Two, Sub(N, Two), HalfN, Rs(2) >>
DecSeq == << One, Sub(N, One), Rs(3), Two, Add(HalfN, One), Rs(4) >>
MsgSeq == << Zero, One, Sub(N, One), N, Add(N, One), Max256, Pow2(255), FromBytesBE(Rnd32(5)), FromBytesBE(Rnd32(6)) >>
SrcRec(s) ==
  CASE s = 1 -> [ nf |-> 0 ]
    [] s = 2 -> [ nf |-> 0, aux |-> Zeros(32) ]
    [] s = 3 -> [ nf |-> 2, k1 |-> Rnd32(22), k2 |-> Rnd32(23) ]
    [] s = 4 -> [ nf |-> 1, aux |-> Rnd32(21) ]
    [] s = 5 -> [ nf |-> 1 ]
    [] s = 6 -> [ nf |-> 2, k1 |-> NBytes(One), k2 |-> NBytes(One) ]
    [] s = 7 -> [ nf |-> 2, k1 |-> NBytes(Sub(N, One)), k2 |-> NBytes(Add(N, One)) ]
    [] s = 8 -> [ nf |-> 2, k1 |-> NBytes(Max256), k2 |-> NBytes(Two) ]
    [] s = 9 -> [ nf |-> 0, aux |-> Rep(255, 32) ]
Thorough == EnvNat("VERIF_THOROUGH") = 1

\* the honest adaptor signatures all mutation cases start from (constant definitions)
HKey  == NBytes(Rs(11))
HDec  == NBytes(Rs(12))
HMsg  == Rnd32(13)
HX    == PMulG(FromBytesBE(HKey))
HY    == PMulG(FromBytesBE(HDec))
HSig  == AdEncrypt(HKey, HY, HMsg, << "def", << >> >>)[2]
HObj  == AdDecrypt(HDec, HSig)[2]                 \* the decrypted ECDSA signature object
H2Msg == NBytes(FromNat(5))
H2Sig == AdEncrypt(HKey, HY, H2Msg, << "def", Rnd32(14) >>)[2]
H2Obj == AdDecrypt(HDec, H2Sig)[2]
OtherPt == PMulG(Rs(15))
\* an honest adaptor signature whose s' is small (message solved for it: m = s'k - r x), so that s' + n fits in 32 bytes
H3K   == Rs(34)
H3Msg == NBytes(SSub(SMul(FromNat(7), H3K), SMul(Mod(PMul(H3K, HY)[1], N), FromBytesBE(HKey))))
H3Sig == AdEncrypt(HKey, HY, H3Msg, << "two", TRUE, NBytes(H3K), TRUE, Rnd32(35) >>)[2]
H3Obj == AdDecrypt(HDec, H3Sig)[2]
\* four honest adaptor signatures covering every combination of the tag bytes (parities) of R and R'.  A nonce k and its
\* negation give opposite parities of both points; a second nonce kB is searched whose two parities relate the other way round.
ParXor(k) == (IF FIsOdd(PMul(k, HY)[2]) THEN 1 ELSE 0) + (IF FIsOdd(PMulG(k)[2]) THEN 1 ELSE 0)   \* odd iff the tags differ
HQkA == Rs(61)
HQkB == Rs(61 + (CHOOSE j \in 1..40 : ParXor(Rs(61 + j)) % 2 # ParXor(HQkA) % 2))
HQSigOf(k) == AdEncrypt(HKey, HY, HMsg, << "two", TRUE, NBytes(k), TRUE, Rnd32(36) >>)[2]
HQ1 == HQSigOf(HQkA)
HQ2 == HQSigOf(SNeg(HQkA))
HQ3 == HQSigOf(HQkB)
HQ4 == HQSigOf(SNeg(HQkB))
HQ(c) == CASE c = 1 -> HQ1 [] c = 2 -> HQ2 [] c = 3 -> HQ3 [] c = 4 -> HQ4
HQ1Obj == AdDecrypt(HDec, HQ1)[2]
HonestTagsCover == { << HQ(c)[1], HQ(c)[34] >> : c \in 1..4 } = { << 2, 2 >>, << 2, 3 >>, << 3, 2 >>, << 3, 3 >> }

Cases == <<
       { << "pipe", k, d, m, s >> : k \in 1..(IF Thorough THEN 7 ELSE 3), d \in 1..(IF Thorough THEN 6 ELSE 3),
                                    m \in (IF Thorough THEN 1..9 ELSE {1, 3, 4, 6, 8}),
                                    s \in (IF Thorough THEN 1..9 ELSE {1, 3}) }
     , { << "pipe", k, d, ((k * 7 + d) % 9) + 1, ((k + d * 3) % 9) + 1 >> : k \in 1..7, d \in 1..6 }
     , { << "twin", k, d, m, s >> : k \in 1..3, d \in 1..3, m \in {1, 4, 8}, s \in {1, 3} }
     , { << "encf", v >> : v \in 1..16 }
     , { << "flipv", b >> : b \in 0..1295 }
     , { << "flipq", c, b >> : c \in 1..4, b \in { x \in 0..1295 : Thorough \/ x < 16 \/ (x >= 264 /\ x < 280) \/ x % 16 = 7 } }
     , { << "tag", c, pos, val, 1 >> : c \in 1..4, pos \in {1, 34}, val \in 0..255 }
     , { << "tag", 1, pos, val, 2 >> : pos \in {1, 34}, val \in 0..255 }
     , { << "tag", 1, pos, val, 3 >> : pos \in {1, 34}, val \in (IF Thorough THEN 0..255 ELSE {0, 1, 2, 3, 4, 6, 7, 130, 131, 255}) }
     , { << "flipd", b >> : b \in 0..1295 }
     , { << "flipr", b >> : b \in 0..1295 }
     , { << "flipm", b >> : b \in { x \in 0..255 : Thorough \/ x % 4 = 3 } }
     , { << "flipk", w, b >> : w \in {1, 2}, b \in { x \in 0..263 : Thorough \/ x % 4 = 3 } }
     , { << "ssp", v, op >> : v \in {1, 2}, op \in 1..3 }
     , { << "scal", f, v, op >> : f \in {0, 3, 4, 5}, v \in 1..9, op \in 1..3 }
     , { << "pt", f, v, op >> : f \in {1, 2}, v \in 1..12, op \in 1..3 }
     , { << "vk", v >> : v \in 1..14 }
     , { << "dec", v >> : v \in 1..7 }
     , { << "dect", t >> : t \in 1..8 }
     , { << "rec", v >> : v \in 1..19 }>>

AV(asig, pk, msg, enckey) == [ e |-> "AdaptorVerify", in |-> [ asig |-> asig, pk |-> pk, msg |-> msg, enckey |-> enckey ] ]
AD(deckey, asig) == [ e |-> "AdaptorDecrypt", in |-> [ deckey |-> deckey, asig |-> asig ] ]
AR(sig, asig, enckey) == [ e |-> "AdaptorRecover", in |-> [ sig |-> sig, asig |-> asig, enckey |-> enckey ] ]
AE(key, enckey, msg, src) == [ e |-> "AdaptorEncrypt", in |-> [ key |-> key, enckey |-> enckey, msg |-> msg ] @@ src ]
\* one mutated adaptor signature through verify (op = 1), decrypt (2) or recover (3)
ByOp(op, asig) == CASE op = 1 -> AV(asig, Ser33(HX), HMsg, Ser33(HY))
                    [] op = 2 -> AD(HDec, asig)
                    [] op = 3 -> AR(SigBytes(HObj), asig, Ser33(HY))
\* replace field f (1..5; 0 = the x coordinate of R, bytes 2..33) of an adaptor signature
SetField(a, f, v) ==
  CASE f = 0 -> SubSeq(a, 1, 1) \o v \o SubSeq(a, 34, 162)
    [] f = 1 -> v \o SubSeq(a, 34, 162)
    [] f = 2 -> SubSeq(a, 1, 33) \o v \o SubSeq(a, 67, 162)
    [] f = 3 -> SubSeq(a, 1, 66) \o v \o SubSeq(a, 99, 162)
    [] f = 4 -> SubSeq(a, 1, 98) \o v \o SubSeq(a, 131, 162)
    [] f = 5 -> SubSeq(a, 1, 130) \o v
Fits(x) == Lt(x, Pow2(256))
ScalarVariant(orig, v) ==
  CASE v = 1 -> Zero [] v = 2 -> One [] v = 3 -> Sub(N, One) [] v = 4 -> N [] v = 5 -> Add(N, One)
    [] v = 6 -> (IF Fits(Add(orig, N)) THEN Add(orig, N) ELSE Add(Mod(orig, Sub(Pow2(256), N)), N))   \* orig + n where it fits, else some value >= n
    [] v = 7 -> Max256 [] v = 8 -> SAdd(orig, One) [] v = 9 -> SNeg(orig)
OffCurveX(x) == LET j == CHOOSE j \in 1..64 : ~LiftX(Mod(Add(x, FromNat(j)), P))[1] IN Mod(Add(x, FromNat(j)), P)
OnCurveX(x)  == LET j == CHOOSE j \in 1..64 : LiftX(Mod(Add(x, FromNat(j)), P))[1] IN Mod(Add(x, FromNat(j)), P)
PointVariant(a, f, v) ==   \* f = 1: R, f = 2: R'
  LET o == AdField(a, f)  x == FromBytesBE(SubSeq(o, 2, 33)) IN
  CASE v = 1 -> << 5 - o[1] >> \o SubSeq(o, 2, 33)                   \* negated point
    [] v = 2 -> << 0 >> \o SubSeq(o, 2, 33)
    [] v = 3 -> << 4 >> \o SubSeq(o, 2, 33)
    [] v = 4 -> << 6 >> \o SubSeq(o, 2, 33)
    [] v = 5 -> << 7 >> \o SubSeq(o, 2, 33)
    [] v = 6 -> << o[1] >> \o NBytes(P)                              \* x = p (would be x = 0 after reduction)
    [] v = 7 -> << o[1] >> \o NBytes(Max256)
    [] v = 8 -> << o[1] >> \o NBytes(OffCurveX(x))
    [] v = 9 -> << o[1] >> \o NBytes(OnCurveX(x))                    \* a valid but different point
    [] v = 10 -> AdField(a, 3 - f)                                   \* R and R' exchanged (one at a time)
    [] v = 11 -> Ser33(G)
    [] v = 12 -> << o[1] >> \o NBytes(Zero)

ExpandPipe(k, d, m, s) ==
  [ e |-> "AdaptorPipeline", in |-> [ key |-> NBytes(KeySeq[k]), deckey |-> NBytes(DecSeq[d]), msg |-> NBytes(MsgSeq[m]) ] @@ SrcRec(s) ]
\* recovery from the negated-s twin of the decrypted signature, and with the negated encryption key
ExpandTwin(k, d, m, s) ==
  LET Y == PMulG(DecSeq[d])
      a == AdEncrypt(NBytes(KeySeq[k]), Y, NBytes(MsgSeq[m]), SrcOf(SrcRec(s)))
      o == AdDecrypt(NBytes(DecSeq[d]), a[2])[2]
  IN  AR(NBytes(o[1]) \o NBytes(SNeg(o[2])), a[2], IF (k + d) % 2 = 0 THEN Ser33(Y) ELSE Ser65(Y))

\* failing (and a few boundary succeeding) encryptions through the single-call op
ExpandEncFail(v) ==
  LET y33 == Ser33(HY)  two(k1, k2) == [ nf |-> 2, k1 |-> k1, k2 |-> k2 ] IN
  CASE v = 1 -> AE(NBytes(Zero), y33, HMsg, [ nf |-> 0 ])
    [] v = 2 -> AE(NBytes(N), y33, HMsg, [ nf |-> 0 ])
    [] v = 3 -> AE(NBytes(Max256), y33, HMsg, [ nf |-> 1, aux |-> Rnd32(31) ])
    [] v = 4 -> AE(HKey, y33, HMsg, [ nf |-> 2, k2 |-> Rnd32(32) ])                 \* adaptor nonce request fails
    [] v = 5 -> AE(HKey, y33, HMsg, [ nf |-> 2, k1 |-> Rnd32(32) ])                 \* DLEQ nonce request fails
    [] v = 6 -> AE(HKey, y33, HMsg, [ nf |-> 2 ])
    [] v = 7 -> AE(HKey, y33, HMsg, two(NBytes(Zero), Rnd32(32)))
    [] v = 8 -> AE(HKey, y33, HMsg, two(NBytes(N), Rnd32(32)))                      \* n = 0 (mod n)
    [] v = 9 -> AE(HKey, y33, HMsg, two(Rnd32(32), NBytes(Zero)))
    [] v = 10 -> AE(HKey, y33, HMsg, two(Rnd32(32), NBytes(N)))
    [] v = 11 -> LET k == Rs(33)  r == Mod(PMul(k, HY)[1], N)                        \* s' = 0:  m = -r x
                 IN  AE(HKey, y33, NBytes(SNeg(SMul(r, FromBytesBE(HKey)))), two(NBytes(k), Rnd32(32)))
    [] v = 12 -> AE(HKey, Ser65(HY), HMsg, [ nf |-> 0 ])                            \* uncompressed encryption key: same result
    [] v = 13 -> AE(HKey, << 5 - y33[1] >> \o SubSeq(y33, 2, 33), HMsg, [ nf |-> 0 ])   \* -Y
    [] v = 14 -> AE(HKey, << 2 >> \o NBytes(P), HMsg, [ nf |-> 0 ])                 \* invalid encryption key
    [] v = 15 -> AE(NBytes(Zero), y33, HMsg, two(Rnd32(32), Rnd32(34)))
    [] v = 16 -> AE(HKey, y33, HMsg, two(NBytes(Add(N, Two)), NBytes(Add(N, Two)))) \* nonces are reduced: k = 2

ExpandScal(f, v, op) ==
  LET orig == IF f = 0 THEN FromBytesBE(AdR32(HSig)) ELSE FromBytesBE(AdField(HSig, f))
  IN  ByOp(op, SetField(HSig, f, NBytes(ScalarVariant(orig, v))))

ExpandVk(v) ==
  LET x33 == Ser33(HX)  y33 == Ser33(HY)  neg(b) == << 5 - b[1] >> \o SubSeq(b, 2, 33)
      hyb(Q) == << IF FIsOdd(Q[2]) THEN 7 ELSE 6 >> \o X32(Q) \o Y32(Q) IN
  CASE v = 1 -> AV(HSig, x33, HMsg, y33)
    [] v = 2 -> AV(HSig, neg(x33), HMsg, y33)
    [] v = 3 -> AV(HSig, Ser33(OtherPt), HMsg, y33)
    [] v = 4 -> AV(HSig, x33, HMsg, neg(y33))
    [] v = 5 -> AV(HSig, x33, HMsg, Ser33(OtherPt))
    [] v = 6 -> AV(HSig, Ser65(HX), HMsg, y33)
    [] v = 7 -> AV(HSig, hyb(HX), HMsg, hyb(HY))
    [] v = 8 -> AV(HSig, x33, HMsg, Ser65(HY))
    [] v = 9 -> AV(H2Sig, x33, H2Msg, y33)
    [] v = 10 -> AV(H2Sig, x33, NBytes(Add(FromBytesBE(H2Msg), N)), y33)            \* message + n: the same scalar
    [] v = 11 -> AV(HSig, y33, HMsg, x33)
    [] v = 12 -> AV(HSig, << 4 >> \o SubSeq(x33, 2, 33), HMsg, y33)                  \* unparsable key
    [] v = 13 -> LET r == AdSigR(HSig)                                               \* s' = r, m = -r, X = G: derived R' is infinity
                 IN  AV(SetField(HSig, 3, NBytes(r)), Ser33(G), NBytes(SNeg(r)), y33)
    [] v = 14 -> AV(H2Sig, x33, HMsg, y33)                                           \* honest signature of another message

ExpandDec(v) ==
  CASE v = 1 -> AD(HDec, HSig)
    [] v = 2 -> AD(NBytes(Zero), HSig)
    [] v = 3 -> AD(NBytes(N), HSig)
    [] v = 4 -> AD(NBytes(Max256), HSig)
    [] v = 5 -> AD(NBytes(One), HSig)
    [] v = 6 -> AD(NBytes(Sub(N, One)), HSig)
    [] v = 7 -> AD(NBytes(Add(N, One)), H2Sig)                   \* >= n is refused, not reduced
\* decryption keys chosen so that s'/y hits the low-S boundary exactly:  y = s'/t
ExpandDecT(t) ==
  LET tv == CASE t = 1 -> HalfN [] t = 2 -> Add(HalfN, One) [] t = 3 -> Sub(HalfN, One) [] t = 4 -> Add(HalfN, Two)
              [] t = 5 -> One [] t = 6 -> Sub(N, One) [] t = 7 -> Two [] t = 8 -> Sub(N, Two)
  IN  AD(NBytes(SMul(AdSp(HSig), SInv(tv))), HSig)

ExpandRec(v) ==
  LET y33 == Ser33(HY)  r == HObj[1]  s == HObj[2]  cs(a, b) == NBytes(a) \o NBytes(b)
      neg(b) == << 5 - b[1] >> \o SubSeq(b, 2, 33) IN
  CASE v = 1 -> AR(cs(r, s), HSig, y33)
    [] v = 2 -> AR(cs(r, SNeg(s)), HSig, y33)                     \* the high-S twin
    [] v = 3 -> AR(cs(r, s), HSig, neg(y33))                      \* encryption key -Y: the key of -Y is returned
    [] v = 4 -> AR(cs(r, SNeg(s)), HSig, neg(y33))
    [] v = 5 -> AR(cs(r, s), HSig, Ser33(OtherPt))
    [] v = 6 -> AR(cs(r, One), HSig, y33)                         \* same r, unrelated s
    [] v = 7 -> AR(cs(r, Zero), HSig, y33)
    [] v = 8 -> AR(cs(Zero, s), HSig, y33)
    [] v = 9 -> AR(cs(SAdd(r, One), s), HSig, y33)
    [] v = 10 -> AR(cs(N, s), HSig, y33)                          \* unparsable compact signature
    [] v = 11 -> AR(SigBytes(SignDefault(HKey, H2Msg, << >>)[2]), HSig, y33)     \* ordinary signatures of the same signer
    [] v = 12 -> AR(SigBytes(SignDefault(HKey, HMsg, << >>)[2]), HSig, y33)
    [] v = 13 -> AR(SigBytes(H2Obj), HSig, y33)                   \* decryption of another adaptor signature
    [] v = 14 -> AR(cs(r, SMul(s, Two)), SetField(HSig, 3, NBytes(SMul(AdSp(HSig), Two))), y33)   \* s' and s scaled alike: same key
    [] v = 15 -> AR(cs(r, s), HSig, Ser65(HY))
    [] v = 16 -> AR(cs(r, s), HSig, << 2 >> \o NBytes(P))         \* invalid encryption key
    [] v = 17 -> AR(cs(r, SMul(s, Two)), HSig, y33)
    [] v = 18 -> AR(cs(SAdd(r, One), SNeg(s)), HSig, y33)        \* the high-S twin with another r: s' / s still gives -y
    [] v = 19 -> AR(cs(SAdd(r, One), s), HSig, Ser33(PNeg(HY)))

\* X: the order-7/13/199 test groups (cfg: Cases <- TinyCases).  Scalars as 32-byte encodings including the
\* overflow encodings; points restricted to the subgroup (the tiny curves have cofactors, the real one has not).
NN == ToNat(N)
TinyOffX == FromNat(CHOOSE j \in 1..200 : ~LiftX(FromNat(j))[1])
TinyMsgs == << Zero, One, FromNat(NN - 1), N, Add(N, Two), Max256 >>
Big == NN >= 50                                   \* order 199: sub-sampled where the full product would be millions of records
TinyFew(S) == IF ~Big THEN S ELSE { x \in S : x % 23 \in {1, 5, 22} \/ x = NN - 1 }
TinyYs == IF ~Big THEN 1..(NN-1) ELSE {1, 4, 100, NN - 1}
TinyVal(x) == IF x = NN + 3 \/ x = 2 * NN + 2 THEN Max256 ELSE FromNat(x)
TinyHonest == { << d, y, m, k1, k2 >> : d \in {1, NN - 1, 5}, y \in {1, NN - 1, 4}, m \in {1, 3}, k1 \in {1, 6}, k2 \in {3} }
TinyRecH == { x \in TinyHonest : x[1] = 5 /\ x[4] = 6 /\ ((Thorough /\ ~Big) \/ (x[2] = 4 /\ x[3] = 1)) }
TinyCases == <<
       { << "tpipe", d, y, m, k1, k2 >> : d \in TinyFew(1..(NN-1)), y \in TinyYs, m \in (IF Thorough /\ ~Big THEN 1..6 ELSE {1, 3, 4, 6}), k1 \in 0..NN,
                                           k2 \in (IF Thorough /\ ~Big THEN {1, 5} ELSE {1}) }
     , { << "tpipe", d, y, m, 2, k2 >> : d \in {3}, y \in {NN - 2}, m \in {2}, k2 \in 0..(NN + 1) }
     , { << "tpipedef", d, y, m, a >> : d \in TinyFew(0..(NN + 1)) \cup {0, NN, NN + 1}, y \in TinyYs, m \in {1, 3, 6}, a \in {1, 2, 9} }
     , { << "tver", h, f, val >> : h \in TinyHonest, f \in {1, 2}, val \in 0..NN }
     , { << "tver", h, f, val >> : h \in TinyHonest, f \in {3, 5}, val \in 0..(NN + 3) }
     , { << "tver", h, 4, val >> : h \in TinyHonest, val \in 0..(2 * NN + 2) }
     , { << "ttag", h, pos, val >> : h \in { x \in TinyHonest : x[1] = 5 /\ x[3] = 1 }, pos \in {1, 34}, val \in 0..255 }
     , { << "tverk", h, w, val >> : h \in TinyHonest, w \in 1..3, val \in 1..(NN - 1) }
     , { << "tdec", h, val >> : h \in TinyHonest, val \in { v \in 0..(NN + 3) : ~IsZero(Mod(TinyVal(v), N)) } }
     , { << "trec", h, r, s, y >> : h \in TinyRecH, r \in 0..(NN-1), s \in 1..(NN-1), y \in (IF ~Big THEN 1..(NN-1) ELSE {4, NN - 4}) }>>
TinySigOf(h) == AdEncrypt(NBytes(FromNat(h[1])), PMulG(FromNat(h[2])), NBytes(TinyMsgs[h[3]]),
                          << "two", TRUE, NBytes(FromNat(h[4])), TRUE, NBytes(FromNat(h[5])) >>)[2]
ExpandTiny(c) ==
  CASE c[1] = "tpipe" -> [ e |-> "AdaptorPipeline", in |-> [ key |-> NBytes(FromNat(c[2])), deckey |-> NBytes(FromNat(c[3])), msg |-> NBytes(TinyMsgs[c[4]]),
                                                            nf |-> 2, k1 |-> NBytes(FromNat(c[5])), k2 |-> NBytes(FromNat(c[6])) ] ]
    [] c[1] = "tpipedef" -> [ e |-> "AdaptorPipeline", in |-> [ key |-> NBytes(FromNat(c[2])), deckey |-> NBytes(FromNat(c[3])), msg |-> NBytes(TinyMsgs[c[4]]) ] @@ SrcRec(c[5]) ]
    [] c[1] = "tver" ->
         LET h == c[2]  a == TinySigOf(h)  f == c[3]  val == c[4]
             nv == IF f \in {1, 2}
                   THEN (IF val = 0 THEN << 2 >> \o NBytes(TinyOffX) ELSE IF val = NN THEN << 3 >> \o NBytes(P) ELSE Ser33(PMulG(FromNat(val))))
                   ELSE NBytes(TinyVal(val))
         IN  AV(SetField(a, f, nv), Ser33(PMulG(FromNat(h[1]))), NBytes(TinyMsgs[h[3]]), Ser33(PMulG(FromNat(h[2]))))
    [] c[1] = "tverk" ->   \* every other signer key / encryption key / message residue
         LET h == c[2]  a == TinySigOf(h)  w == c[3]  v == FromNat(c[4]) IN
         AV(a, Ser33(PMulG(IF w = 1 THEN v ELSE FromNat(h[1]))), NBytes(IF w = 3 THEN v ELSE TinyMsgs[h[3]]),
            Ser33(PMulG(IF w = 2 THEN v ELSE FromNat(h[2]))))
    [] c[1] = "ttag" ->
         LET h == c[2] IN AV([ TinySigOf(h) EXCEPT ![c[3]] = c[4] ], Ser33(PMulG(FromNat(h[1]))), NBytes(TinyMsgs[h[3]]), Ser33(PMulG(FromNat(h[2]))))
    [] c[1] = "tdec" -> AD(NBytes(TinyVal(c[3])), TinySigOf(c[2]))
    [] c[1] = "trec" ->    \* every ECDSA signature object with s # 0 against one adaptor signature and every encryption key.
                           \* s = 0 and decryption keys = 0 (mod n) are decided in the real group only: the small-group builds
                           \* (scalar_low_impl.h with VERIFY) abort on the inverse of zero that the constant-time code computes
                           \* before it masks the result (see notes/C14.md)
         LET a == TinySigOf(c[2])
         IN  AR(NBytes(FromNat(c[3])) \o NBytes(FromNat(c[4])), a, Ser33(PMulG(FromNat(c[5]))))

\* design-level theorem decided in the small groups on every generated verification record: if verification accepts and
\* the DLEQ statement is true (R' = kG and R = kY for one k) then decrypting with the discrete logarithm of Y gives an
\* ECDSA signature valid for X, from which recovery returns that logarithm
TinyVerifySound(i, o) ==
  o.ret = 1 =>
    LET p == AdParse(i.asig)  X == ParsePub(i.pk)[2]  Y == ParsePub(i.enckey)[2] IN
    (\E k \in 1..(NN-1) : PMulG(FromNat(k)) = p.Rp /\ PMul(FromNat(k), Y) = p.R) =>
       \A y \in 1..(NN-1) : PMulG(FromNat(y)) = Y =>
          LET d == AdDecrypt(NBytes(FromNat(y)), i.asig) IN
          d[1] = 1 /\ VerifyEq(d[2][1], d[2][2], i.msg, X) /\ AdRecover(d[2], i.asig, Y) = << 1, FromNat(y) >>

\* every value of the tag byte of R (pos = 1) or R' (pos = 34) of an honest signature: only the original value verifies;
\* decryption and recovery do not read the tags
ExpandTag(c, pos, val, op) ==
  LET a == [ HQ(c) EXCEPT ![pos] = val ] IN
  CASE op = 1 -> AV(a, Ser33(HX), HMsg, Ser33(HY))
    [] op = 2 -> AD(HDec, a)
    [] op = 3 -> AR(SigBytes(HQ1Obj), a, Ser33(HY))

ExpandSsp(v, op) ==
  LET a == IF v = 1 THEN H3Sig ELSE SetField(H3Sig, 3, NBytes(Add(AdSp(H3Sig), N))) IN
  CASE op = 1 -> AV(a, Ser33(HX), H3Msg, Ser33(HY))
    [] op = 2 -> AD(HDec, a)
    [] op = 3 -> AR(SigBytes(H3Obj), a, Ser33(HY))

Expand(c) ==
  CASE c[1] = "pipe"  -> ExpandPipe(c[2], c[3], c[4], c[5])
    [] c[1] = "twin"  -> ExpandTwin(c[2], c[3], c[4], c[5])
    [] c[1] = "encf"  -> ExpandEncFail(c[2])
    [] c[1] = "flipv" -> AV(FlipBit(HSig, c[2]), Ser33(HX), HMsg, Ser33(HY))
    [] c[1] = "flipq" -> AV(FlipBit(HQ(c[2]), c[3]), Ser33(HX), HMsg, Ser33(HY))
    [] c[1] = "tag"   -> ExpandTag(c[2], c[3], c[4], c[5])
    [] c[1] = "flipd" -> AD(HDec, FlipBit(HSig, c[2]))
    [] c[1] = "flipr" -> AR(SigBytes(HObj), FlipBit(HSig, c[2]), Ser33(HY))
    [] c[1] = "flipm" -> AV(HSig, Ser33(HX), FlipBit(HMsg, c[2]), Ser33(HY))
    [] c[1] = "flipk" -> IF c[2] = 1 THEN AV(HSig, FlipBit(Ser33(HX), c[3]), HMsg, Ser33(HY))
                         ELSE AV(HSig, Ser33(HX), HMsg, FlipBit(Ser33(HY), c[3]))
    [] c[1] = "ssp"   -> ExpandSsp(c[2], c[3])
    [] c[1] = "scal"  -> ExpandScal(c[2], c[3], c[4])
    [] c[1] = "pt"    -> ByOp(c[4], SetField(HSig, c[2], PointVariant(HSig, c[2], c[3])))
    [] c[1] = "vk"    -> ExpandVk(c[2])
    [] c[1] = "dec"   -> ExpandDec(c[2])
    [] c[1] = "dect"  -> ExpandDecT(c[2])
    [] c[1] = "rec"   -> ExpandRec(c[2])
    [] OTHER -> ExpandTiny(c)

-----------------------------------------------------------------------------
VARIABLES phase, cur, rec
vars == << phase, cur, rec >>
Init == phase = "pick" /\ cur = << >> /\ rec = << >>
\* Cases is a tuple of sets of descriptors (no union is ever built: TLC's set union is quadratic)
Pick == phase = "pick" /\ \E j \in DOMAIN Cases : \E c \in Cases[j] : cur' = c /\ phase' = "eval" /\ rec' = << >>
Eval == phase = "eval" /\ LET x == Expand(cur) IN rec' = [ e |-> x.e, in |-> x.in, out |-> Out(x) ]
        /\ phase' = "done" /\ cur' = cur
Next == Pick \/ Eval

\* model invariants (design level)
InvPipeline == (phase = "done" /\ rec.e = "AdaptorPipeline") =>
                 /\ PipelineSound(rec.in, rec.out) /\ PipelineFailZero(rec.in, rec.out)
                 /\ PipelineTotal(rec.in, rec.out) /\ EncryptCanonical(rec.out)
InvHonestTags == HonestTagsCover       \* the four honest signatures of the tag families realise all four tag combinations
InvEncrypt == (phase = "done" /\ rec.e = "AdaptorEncrypt" /\ rec.out.kret = 1) =>
                 (rec.out.ret = 0 => AllZero(rec.out.asig)) /\ EncryptCanonical(rec.out)
InvTinyVerify == (phase = "done" /\ rec.e = "AdaptorVerify") => TinyVerifySound(rec.in, rec.out)
Emit == phase = "done" => EmitRecord(rec)
-----------------------------------------------------------------------------
\* T direction
TraceEvents == LoadTrace
TInit == phase = "pick" /\ cur = 0 /\ rec = TRUE
TPick == phase = "pick" /\ \E i \in 1..Len(TraceEvents) : cur' = i /\ phase' = "eval" /\ rec' = rec
TEval == phase = "eval" /\ rec' = SubRec(Out(TraceEvents[cur]), TraceEvents[cur].out) /\ phase' = "done" /\ cur' = cur
TNext == TPick \/ TEval
TraceOK == rec = TRUE
=============================================================================
