------------------------------- MODULE C20_Context -------------------------------
(***************************************************************************)
(* C20 -- results depend only on arguments, not on context history.        *)
(*                                                                         *)
(* History machine: a small pool of context slots and the life-cycle API   *)
(* (create / preallocated create / clone / preallocated clone / randomize  *)
(* with a seed or NULL / set or reset the SHA-256 compression function /   *)
(* destroy).  A context's abstract state is its kind, the sequence of      *)
(* randomization seeds since its last reset, and whether a custom          *)
(* compression function is installed.  EcmultGenBlind below is the exact   *)
(* specification of the blinding state as a function of that seed history  *)
(* -- the replay compares the library's internal scalar_offset, ge_offset  *)
(* and proj_blind with it after every step, and calls every API family on  *)
(* fixed inputs (whose results must not depend on the history at all).     *)
(***************************************************************************)
EXTENDS Curve, Hmac, CurveParams, Verif, FiniteSets

CONSTANTS NSlot, MaxSeeds, MaxSteps
Slots == 0..(NSlot-1)
SeedIdx == {1, 2}
SeedBytes(i) == Rep(80 + i, 32)
None == [kind |-> "none"]

\* ---- the blinding state of ecmult_gen as a function of the seed history -------------------
\* diff = 2^(COMB_BITS-1) - 1/2 (mod N); reset state: scalar_offset = 1 + diff, ge_offset = -G, proj_blind = 1
Diff(combBits) == SSub(Mod(Pow2(combBits - 1), N), SInv(Two))
BlindReset(combBits) == [ so |-> SAdd(One, Diff(combBits)), ge |-> PNeg(G), pb |-> One ]
BlindStep(st, seed32, combBits) ==
  LET g1 == DrbgGenerate(DrbgInit(Scalar32(st.so) \o seed32), 32)
      f0 == Mod(FromBytesBE(g1[1]), P)
      g2 == DrbgGenerate(g1[2], 32)
      b0 == Mod(FromBytesBE(g2[1]), N)
      b  == IF IsZero(b0) THEN One ELSE b0
  IN  [ so |-> SAdd(SNeg(b), Diff(combBits)), ge |-> PMulG(b), pb |-> IF IsZero(f0) THEN One ELSE f0 ]
RECURSIVE BlindOf(_, _)
BlindOf(seeds, combBits) == IF Len(seeds) = 0 THEN BlindReset(combBits)
                            ELSE BlindStep(BlindOf(SubSeq(seeds, 1, Len(seeds) - 1), combBits), SeedBytes(seeds[Len(seeds)]), combBits)
\* the defining property of the blinding:  k*G = comb(k + scalar_offset) + ge_offset  with comb(x) = (x - diff)*G
BlindSound(st, combBits) == \A k \in { One, Two, HalfN } :
  PAdd(PMulG(SSub(SAdd(k, st.so), Diff(combBits))), st.ge) = PMulG(k)

\* ---- history machine ----------------------------------------------------------------------
VARIABLES ctx, steps, last, phase, cur, rec
vars == << ctx, steps, last >>
bvars == << phase, cur, rec >>
view == << ctx, steps >>
Alive(s) == ctx[s].kind # "none"
Outstanding(c) == Cardinality({ s \in Slots : c[s].kind = "malloc" })
Label(a, args, exp) == [a |-> a, args |-> args, exp |-> exp]
Proj(c, s) == [ alive |-> [t \in Slots |-> B2I(c[t].kind # "none")], outstanding |-> Outstanding(c),
                seeds |-> IF s >= 0 /\ c[s].kind # "none" THEN c[s].seeds ELSE << 99 >>,
                custom_sha |-> IF s >= 0 /\ c[s].kind # "none" THEN c[s].sha ELSE 0 ]

HInit == ctx = [s \in Slots |-> None] /\ steps = 0 /\ last = [a |-> "Init"]
Init == HInit /\ phase = "na" /\ cur = 0 /\ rec = 0
Step == steps' = steps + 1

Create(s, pre) ==
  /\ ~Alive(s)
  /\ ctx' = [ctx EXCEPT ![s] = [kind |-> IF pre = 1 THEN "prealloc" ELSE "malloc", seeds |-> << >>, sha |-> 0]]
  /\ last' = Label("CtxCreate", [s |-> s, prealloc |-> pre], [ret |-> 1, mallocs |-> 1 - pre] @@ Proj(ctx', s)) /\ Step
Clone(s, t, pre) ==
  /\ Alive(s) /\ ~Alive(t)
  /\ ctx' = [ctx EXCEPT ![t] = [ctx[s] EXCEPT !.kind = IF pre = 1 THEN "prealloc" ELSE "malloc"]]
  /\ last' = Label("CtxClone", [s |-> s, t |-> t, prealloc |-> pre], [ret |-> 1, mallocs |-> 1 - pre] @@ Proj(ctx', t)) /\ Step
Randomize(s, i) ==     \* i = 0: seed NULL (reset)
  /\ Alive(s) /\ (i # 0 => Len(ctx[s].seeds) < MaxSeeds)
  /\ ctx' = [ctx EXCEPT ![s].seeds = IF i = 0 THEN << >> ELSE Append(@, i)]
  /\ last' = Label("CtxRandomize", IF i = 0 THEN [s |-> s] ELSE [s |-> s, seed |-> SeedBytes(i)], [ret |-> 1] @@ Proj(ctx', s)) /\ Step
SetSha(s, custom) ==
  /\ Alive(s) /\ ctx[s].sha # custom
  /\ ctx' = [ctx EXCEPT ![s].sha = custom]
  /\ last' = Label("CtxSetSha", [s |-> s, custom |-> custom], [ret |-> 1] @@ Proj(ctx', s)) /\ Step
Destroy(s) ==
  /\ Alive(s)
  /\ ctx' = [ctx EXCEPT ![s] = None]
  /\ last' = Label("CtxDestroy", [s |-> s], [ret |-> 1, frees |-> B2I(ctx[s].kind = "malloc")] @@ Proj(ctx', 0 - 1)) /\ Step

HNext ==
  \/ \E s \in Slots, pre \in {0, 1} : Create(s, pre)
  \/ \E s, t \in Slots, pre \in {0, 1} : Clone(s, t, pre)
  \/ \E s \in Slots, i \in {0} \cup SeedIdx : Randomize(s, i)
  \/ \E s \in Slots, c \in {0, 1} : SetSha(s, c)
  \/ \E s \in Slots : Destroy(s)
Next == HNext /\ UNCHANGED bvars
Bound == steps <= MaxSteps

\* design-level invariants
AllocBound == Outstanding(ctx) <= NSlot          \* one allocation per malloc-created/cloned context, none for preallocated
TypeOK == \A s \in Slots : ctx[s] = None \/ (ctx[s].kind \in {"malloc", "prealloc"} /\ Len(ctx[s].seeds) <= MaxSeeds /\ ctx[s].sha \in {0, 1})

StateRec(c) == [ ctx |-> [s \in Slots |-> c[s]] ]
TransitionOut == AppendLine(ToJson([ src |-> StateRec(ctx), dst |-> StateRec(ctx'), label |-> last' ]), IOEnv.GEN_OUT)

-----------------------------------------------------------------------------
\* ---- generation of the specified blinding states (Pick/Eval machine; cfg C20_blind) ------------
RECURSIVE SeedSeqs(_)
SeedSeqs(n) == IF n = 0 THEN { << >> } ELSE SeedSeqs(n - 1) \cup { Append(q, i) : q \in SeedSeqs(n - 1), i \in SeedIdx }
BInit == HInit /\ phase = "pick" /\ cur = << >> /\ rec = << >>
BPick == phase = "pick" /\ \E q \in SeedSeqs(MaxSeeds), cb \in {258} : cur' = << q, cb >> /\ phase' = "eval" /\ rec' = << >>
BEval == phase = "eval" /\ LET st == BlindOf(cur[1], cur[2]) IN
            rec' = [ e |-> "Blind", in |-> [ seeds |-> cur[1], comb_bits |-> cur[2] ],
                     out |-> [ scalar_offset |-> Scalar32(st.so), ge_offset |-> Ser33(st.ge), proj_blind |-> ToBytesBE(st.pb, 32),
                               sound |-> B2I(BlindSound(st, cur[2])) ] ]
         /\ phase' = "done" /\ cur' = cur
BNext == (BPick \/ BEval) /\ UNCHANGED vars
BSound == phase = "done" => rec.out.sound = 1
BEmit == phase = "done" => EmitRecord(rec)

-----------------------------------------------------------------------------
\* ---- T direction: "every API family" probes recorded from the implementation ------------------
\* Trace: first event = reference probe on a pristine context; every later probe on a proper context must be
\* identical; a probe on (a copy of) the static context: each family either identical or (ret 0 and illegal callback);
\* the families documented to work with the static context must be identical.
TraceEvents == LoadTrace
Families(ev) == { k \in DOMAIN ev.out : k \notin { "ret", "icb", "fault", "ecb", "sha_foreign" } }
DocStatic == { "f_ecdsa_verify", "f_schnorr_verify", "f_tagged_sha256", "f_ecdh", "f_rangeproof_verify", "f_adaptor_verify",
               "f_seckey_tweak_add", "f_pubkey_tweak_add", "f_pubkey_tweak_mul", "f_ellswift_xdh", "f_musig_keyagg", "f_der", "f_keypair_tweak",
               "f_pedersen_tally", "f_s2c_verify_commit", "f_anti_exfil_host_verify", "f_rangeproof_info",
               "f_ellswift_decode", "f_ellswift_encode", "f_xonly", "f_adaptor_decrypt", "f_halfagg_aggregate", "f_tagged_sha256_long" }
ProbeOK(ref, ev) ==
  IF ev.e = "CtxCallStatic"
  THEN \A f \in Families(ev) : \/ ev.out[f] = ref.out[f]
                               \/ (f \notin DocStatic /\ ev.out[f][1] = 0 /\ ev.out[f][2] = 1)
  ELSE /\ ev.e # "CtxFault"                                   \* a write into a read-only (const) context: never a behaviour
       /\ \A f \in Families(ev) : f \in DOMAIN ref.out /\ ev.out[f] = ref.out[f]
       /\ ("fault" \in DOMAIN ev.out => ev.out.fault = 0)
       \* a compression function installed on one private context is never reached through the static context, through the exported
       \* context-free nonce functions, or after that context was destroyed (no mutable global state)
       /\ ("sha_foreign" \in DOMAIN ev.out => ev.out.sha_foreign = 0)
TInit == HInit /\ phase = "pick" /\ cur = 0 /\ rec = TRUE
TPick == phase = "pick" /\ \E i \in 1..Len(TraceEvents) : cur' = i /\ phase' = "eval" /\ rec' = rec
TEval == phase = "eval" /\ rec' = ProbeOK(TraceEvents[1], TraceEvents[cur]) /\ phase' = "done" /\ cur' = cur
TNext == (TPick \/ TEval) /\ UNCHANGED vars
TraceOK == rec = TRUE
=============================================================================
