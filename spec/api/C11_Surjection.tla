------------------------------- MODULE C11_Surjection -------------------------------
(* C11 -- surjection proofs as a machine of call records (same shape as C01_Ecdsa / C16_Whitelist), *)
(* plus the design-level model of Initialize over abstract tag lists (MInit/MNext).                  *)
EXTENDS Surjection, CurveParams, Verif

Pts(gens) == [i \in 1..Len(gens) |-> SjParseGen(gens[i])[2]]
\* the C API takes the list length as an argument: the tag list is the first ngens entries
GenList(i) == IF "ngens" \in DOMAIN i THEN SubSeq(i.gens, 1, i.ngens) ELSE i.gens
ZeroData(k) == Zeros(32 * (1 + k))

\* ---- specified results ------------------------------------------------------------------------------
\* object history ("dirty": pre-filled object, "prior": another string parsed into the same object first) must not show:
\* parse fully determines the object as far as the API can observe it
WithPrior(i, r) == IF "prior" \in DOMAIN i THEN r @@ [ prior_ret |-> B2I(SjParse(i.prior).ok) ] ELSE r
OutParse(i) ==
  LET p == SjParse(i.b) IN
  WithPrior(i, IF ~p.ok THEN [ ret |-> 0, icb |-> 0 ]
               ELSE [ ret |-> 1, nin |-> p.n, nused |-> SjPopcount(p.bitmap), ssize |-> Len(i.b),
                      sret |-> 1, ser |-> i.b, sret_short |-> 0, icb |-> 0 ])

\* allocate_initialized promises a NULL pointer on failure
WithNull(i, r, v) == IF "alloc" \in DOMAIN i /\ i.alloc = 1 THEN r @@ [ null |-> v ] ELSE r
OutInit(i) ==
  LET n == Len(i.tags) IN
  IF n > SjMaxInputs \/ i.nuse > SjMaxUsed \/ i.nuse > n THEN WithNull(i, [ ret |-> 0, icb |-> 1 ], 1)     \* documented illegal use
  ELSE LET r == SjInitialize([k \in 1..n |-> i.tags[k] = i.out], n, i.nuse, i.maxiter, i.seed) IN
       IF r.ret = 0 THEN WithNull(i, [ ret |-> 0, icb |-> 0 ], 1)
       ELSE WithNull(i, [ ret |-> r.ret, idx |-> r.idx, nin |-> n, nused |-> i.nuse, icb |-> 0, sret |-> 1, sret_short |-> 0,
                          ssize |-> 2 + SjBitmapLen(n) + 32 * (1 + i.nuse),
                          ser |-> SjSerialize(n, SjBitmapOf(n, r.used), ZeroData(i.nuse)) ], 0)

OutGenerate(i) ==
  LET p == SjParse(i.proof) IN
  IF ~p.ok THEN [ pret |-> 0, icb |-> 0 ]
  ELSE LET ins == Pts(GenList(i))  out == SjParseGen(i.gout)[2]
           g == SjGenerate(p.n, p.bitmap, ins, out, i.index, i.inkey, i.outkey) IN
       CASE g.st = "illegal"     -> [ pret |-> 1, ret |-> 0, icb |-> 1 ]
         [] g.st = "refuse"      -> [ pret |-> 1, ret |-> 0, vret |-> 0, icb |-> 0 ]
         [] g.st = "fail"        -> [ pret |-> 1, ret |-> 0, vret |-> 0, icb |-> 0 ]
         [] g.st = "nowitness"   -> [ pret |-> 1, vret |-> 0, icb |-> 0 ]
         [] g.st = "unspecified" -> [ pret |-> 1, icb |-> 0 ]
         [] g.st = "ok" ->
              [ pret |-> 1, ret |-> 1, icb |-> 0, sret |-> 1, sret_short |-> 0, ssize |-> Len(i.proof),
                proof |-> SjSerialize(p.n, p.bitmap, g.data),
                vret |-> B2I(SjVerify(p.n, p.bitmap, g.data, ins, out)) ]

OutVerify(i) ==
  LET p == SjParse(i.proof) IN
  WithPrior(i, IF ~p.ok THEN [ pret |-> 0, ret |-> 0, icb |-> 0 ]
               ELSE [ pret |-> 1, nin |-> p.n, nused |-> SjPopcount(p.bitmap), icb |-> 0,
                      ssize |-> Len(i.proof), sret |-> 1, ser |-> i.proof, sret_short |-> 0,
                      ret |-> B2I(SjVerify(p.n, p.bitmap, p.data, Pts(GenList(i)), SjParseGen(i.gout)[2])) ])

Out(ev) == CASE ev.e = "SjParse" -> OutParse(ev.in) [] ev.e = "SjInit" -> OutInit(ev.in)
             [] ev.e = "SjGenerate" -> OutGenerate(ev.in) [] ev.e = "SjVerify" -> OutVerify(ev.in)

\* ---- design-level theorems ------------------------------------------------------------------------------
\* Initialize: success only with a subset of the requested size that contains a matching input whose
\* number is returned; never more iterations than allowed; failure when nothing can match; success in
\* the first iteration when every subset of that size must contain a match (pigeonhole).
InitPost(matches, n, nuse, maxiter, r) ==
  LET nm == Cardinality({ k \in 1..n : matches[k] }) IN
  /\ r.ret > 0 => /\ r.used \subseteq 0..(n - 1) /\ Cardinality(r.used) = nuse
                  /\ r.idx \in r.used /\ matches[r.idx + 1]
                  /\ r.ret <= (IF maxiter = 0 THEN 1 ELSE maxiter)
  /\ (nm = 0 \/ nuse = 0) => r.ret = 0
  /\ (nuse >= 1 /\ nm > n - nuse) => r.ret = 1
\* the same on a call record
InitSound(i, o) ==
  LET n == Len(i.tags) IN
  (o.ret > 0) => LET p == SjParse(o.ser)  used == SjUsed(p.n, p.bitmap) IN
                 /\ p.ok /\ p.n = n /\ Len(used) = i.nuse /\ AllZero(p.data)
                 /\ o.idx < n /\ i.tags[o.idx + 1] = i.out /\ SjBit(p.bitmap, o.idx) = 1
\* a proof generated for a selected input with opening keys verifies; refusals as documented
GenSound(i, o) ==
  LET p == SjParse(i.proof) IN
  (p.ok /\ "ret" \in DOMAIN o /\ o.ret = 1) => o.vret = 1 /\ SjParse(o.proof).ok
GenRefuses(i, o) == (~Lt(FromBytesBE(i.inkey), N) \/ ~Lt(FromBytesBE(i.outkey), N)) => ("ret" \in DOMAIN o => o.ret = 0)
\* verification never accepts an empty selection or a list of another length
VerNever(i, o) ==
  LET p == SjParse(i.proof) IN
  (~p.ok \/ SjPopcount(p.bitmap) = 0 \/ p.n # Len(GenList(i))) => o.ret = 0

-----------------------------------------------------------------------------
NBytes(x) == ToBytesBE(x, 32)
Max256 == Sub(Pow2(256), One)
Thorough == EnvNat("VERIF_THOROUGH") = 1
MaskBit(mask, i) == (mask \div (2 ^ i)) % 2           \* i 0-based

\* fixed asset tags: all share a 30-byte prefix with the output tag (comparisons must look at every byte)
OutTag == Rep(187, 32)
TagOf(i) == Rep(187, 30) \o << i % 256, 1 + (i \div 256) >>
TagList(n, matched) == [i \in 1..n |-> IF (i - 1) \in matched THEN OutTag ELSE TagOf(i)]
MaskSet(n, mask) == { i \in 0..(n - 1) : MaskBit(mask, i) = 1 }
BigMatch(n, mk) == CASE mk = 0 -> {} [] mk = 1 -> {0} [] mk = 2 -> {n - 1} [] mk = 3 -> {0, n \div 2, n - 1} [] mk = 4 -> 0..(n - 1)

\* seeds: the seed is the generator's first state, so rejection (bytes >= limit) and the refresh at
\* position 31 are steered directly
SeedOf(k) == CASE k = 0 -> Zeros(32)
               [] k = 1 -> Rep(255, 32)
               [] k = 2 -> [j \in 1..32 |-> 256 - j]
               [] k = 3 -> [j \in 1..32 |-> IF j <= 30 THEN 255 ELSE 1]
               [] k = 4 -> [j \in 1..32 |-> (j * 37) % 256]
               [] OTHER -> Rnd32(1100 + k)

\* ephemeral tags with known differences: input i = (1000 + 17 i) G, output = OutSec G.  For the code
\* under test a generator is just a curve point; knowing every difference lets the specification's
\* prover sign for any input.
InSec(i) == FromNat(1000 + 17 * i)        \* i = 1..n
OutSec == FromNat(555555)
OutPt == PMulG(OutSec)
RECURSIVE PtsFrom(_, _, _, _)
StepPt == PMulG(FromNat(17))
PtsFrom(k, n, cur, acc) == IF k > n THEN acc ELSE PtsFrom(k + 1, n, PAdd(cur, StepPt), Append(acc, cur))
InPts(n) == PtsFrom(1, n, PMulG(InSec(1)), << >>)
GenBytes(pts) == [i \in 1..Len(pts) |-> SjSerGen(pts[i])]
OtherPt == PMulG(FromNat(424242))

\* a block of k selected inputs starting at input m (0-based), wrapping around
Block(n, k, m) == { (m + j) % n : j \in 0..(k - 1) }
InitProof(n, used) == SjSerialize(n, SjBitmapOf(n, used), ZeroData(Cardinality(used)))
Honest(n, used, idx) == SjGenerate(n, SjBitmapOf(n, used), InPts(n), OutPt, idx, NBytes(InSec(idx + 1)), NBytes(OutSec))
HonestProof(n, used, idx) == SjSerialize(n, SjBitmapOf(n, used), Honest(n, used, idx).data)

SV(proof, gens, gout) == [ e |-> "SjVerify", in |-> [ proof |-> proof, gens |-> gens, gout |-> gout ] ]
SG(proof, gens, gout, index, inkey, outkey) ==
  [ e |-> "SjGenerate", in |-> [ proof |-> proof, gens |-> gens, gout |-> gout, index |-> index, inkey |-> inkey, outkey |-> outkey ] ]
SetScalar(data, i, x) == SubSeq(data, 1, 32 * i) \o NBytes(x) \o SubSeq(data, 32 * i + 33, Len(data))
Swap(s, a, b) == [s EXCEPT ![a] = s[b], ![b] = s[a]]
NegGen(g) == [g EXCEPT ![1] = 21 - @]       \* 10 <-> 11: the negated point

\* ---- parser strings ---------------------------------------------------------------------------------
FieldVals == (0..9) \cup (255..264) \cup {65535}
\* pat 0: no input selected; 1: the first min(3, f) inputs; 2: every input (only while the string stays small)
ParseBitmap(f, pat) ==
  LET bl == SjBitmapLen(f) IN
  CASE pat = 0 -> Zeros(bl)
    [] pat = 1 -> SjBitmapOf(f, 0..((IF f < 3 THEN f ELSE 3) - 1))
    [] pat = 2 -> SjBitmapOf(f, 0..(f - 1))
ParseString(f, pat, dl) ==          \* dl = length offset + 40 (descriptors stay natural numbers)
  LET bm == ParseBitmap(f, pat)  len == 32 * (1 + SjPopcount(bm)) + dl - 40 IN
  << f % 256, f \div 256 >> \o bm \o [j \in 1..len |-> (j * 7) % 256]
\* padding: n inputs, `low` = pattern of the n real bits in the last byte's low part (0 = none, 1 = all),
\* `pad` = pattern of the padding bits; `lenmode` 0: length counts every set bit, 1: only the real ones
PadString(n, low, pad, lenmode) ==
  LET bl == SjBitmapLen(n)  r == n % 8
      lowbits == IF low = 1 THEN (2 ^ r) - 1 ELSE 0
      last == lowbits + pad * (2 ^ r)
      bm == [k \in 1..bl |-> IF k = bl THEN last ELSE (IF low = 1 THEN 255 ELSE 0)]
      cnt == IF lenmode = 0 THEN SjPopcount(bm) ELSE (IF low = 1 THEN n ELSE 0)
  IN  << n % 256, n \div 256 >> \o bm \o [j \in 1..(32 * (1 + cnt)) |-> (j * 11) % 256]
PadNs == IF Thorough THEN ((1..31) \cup (249..255)) \ {8, 16, 24} ELSE {1, 2, 3, 4, 5, 6, 7, 9, 12, 15, 250, 255}

\* ---- the generated input space: cheap descriptors, enumerated by nested quantifiers in Pick (never as one
\* big set: TLC would build and sort it single-threaded at start-up)
SmallInitN == IF Thorough THEN 1..6 ELSE 1..4
MidInitN == IF Thorough THEN 7..8 ELSE 5..6
PickCase(c) ==
  \/ \E f \in FieldVals, pat \in 0..2, dl \in {7, 8, 39, 40, 41, 72, 73} : (pat < 2 \/ f <= 264) /\ c = << "parse", f, pat, dl >>
  \/ \E n \in PadNs, low \in 0..1 : \E pad \in 0..(2 ^ (8 - (n % 8)) - 1) : \E lm \in 0..(IF pad > 0 THEN 1 ELSE 0) : c = << "pad", n, low, pad, lm >>
  \/ \E len \in 0..3, v \in {0, 1, 255} : c = << "short", len, v >>
  \/ \E n \in SmallInitN : \E mask \in 0..(2 ^ n - 1), nuse \in 0..(n + 1), mi \in {0, 1, 2, 7}, sd \in (IF Thorough THEN 0..6 ELSE {0, 1, 3, 5, 6}), al \in 0..1 :
        (al = 0 \/ sd = 5) /\ c = << "init", n, mask, nuse, mi, sd, al >>
  \/ \E n \in MidInitN : \E mask \in { k \in {0, 1, 6, 40, 63, 128, 255} : k < 2 ^ n }, nuse \in { k \in {0, 1, 2, 3, 6, 8, 9} : k <= n + 1 }, mi \in {1, 3}, sd \in {1, 5} :
        c = << "init", n, mask, nuse, mi, sd, 0 >>
  \/ \E n \in (IF Thorough THEN {128, 200, 255, 256} ELSE {200, 255, 256}), mk \in 0..4 :
        \/ \E nuse \in {0, 1, 3}, mi \in {1, 3}, sd \in (IF Thorough THEN {1, 2, 5} ELSE {1, 5}) : c = << "initbig", n, mk, nuse, mi, sd >>
        \/ \E nuse \in { k \in {128, 255, 256, 257} : k <= n + 1 } : c = << "initbig", n, mk, nuse, 1, 1 >>
  \/ c = << "initbig", 257, 1, 3, 1, 1 >>
  \/ \E n \in 1..6 : \E nuse \in (IF n > 4 THEN (IF Thorough THEN {1, 3, n} ELSE {3, n}) ELSE 1..n),
                       m \in (IF n > 4 /\ ~Thorough THEN {n - 1} ELSE { k \in {0, 3, 5} : k < n }), sd \in (IF Thorough THEN {2, 5, 6} ELSE {5}) :
        c = << "prove", n, nuse, m, sd >>
  \/ \E n \in {255, 256}, k \in (IF Thorough THEN {1, 3, 32, 256} ELSE {1, 3}) : \E m \in { j \in {0, 254, 255} : j < n /\ k <= n } : c = << "provebig", n, k, m >>
  \/ \E kind \in 0..16 : c = << "gen", kind >>
  \/ \E b \in 1..(IF Thorough THEN 5 ELSE 4), mut \in 0..17 : (Thorough \/ b \in {1, 3} \/ (b = 2 /\ mut \in {0, 5, 9, 10, 13}) \/ (b = 4 /\ mut \in {0, 2, 6, 13, 15})) /\ c = << "verify", b, mut >>
  \/ \E bit \in 0..(IF Thorough THEN 791 ELSE 535) : c = << "flip", bit >>
  \/ \E n \in {2, 3}, mut \in 0..6 : c = << "forge", n, mut >>
  \/ \E f \in {0, 1, 3, 8, 9, 250, 255, 256}, pat \in 0..2, hist \in 1..2 : c = << "dirty", 0, f, pat, hist >>
  \/ \E b \in {1, 3}, mut \in {0, 1, 14}, hist \in 1..2 : c = << "dirty", 1, b, mut, hist >>
  \/ \E n \in 1..3 : \E mask \in 1..(2 ^ n - 1) : \E m \in MaskSet(n, mask) : c = << "infring", n, mask, m >>

ExpandInit(n, matched, nuse, mi, sd, al) ==
  LET base == [ tags |-> TagList(n, matched), out |-> OutTag, nuse |-> nuse, maxiter |-> mi, seed |-> SeedOf(sd) ] IN
  [ e |-> "SjInit", in |-> IF al = 1 THEN base @@ [ alloc |-> 1 ] ELSE base ]

\* honest chain: the subset comes from the specification's Initialize (input m is the only match);
\* if that gives up, the block starting at m is used
ExpandProve(n, nuse, m, sd) ==
  LET r == SjInitialize([k \in 1..n |-> k - 1 = m], n, nuse, 64, SeedOf(sd))
      used == IF r.ret > 0 THEN r.used ELSE Block(n, nuse, m) IN
  SG(InitProof(n, used), GenBytes(InPts(n)), SjSerGen(OutPt), m, NBytes(InSec(m + 1)), NBytes(OutSec))

VerifyBase(c) == CASE c = 1 -> << 1, 1, 0 >> [] c = 2 -> << 2, 1, 1 >> [] c = 3 -> << 3, 2, 2 >> [] c = 4 -> << 5, 3, 1 >> [] c = 5 -> << 8, 8, 6 >>
ExpandVerify(c, mut) ==
  LET vb == VerifyBase(c)  n == vb[1]  k == vb[2]  m == vb[3]
      used == Block(n, k, m)  bm == SjBitmapOf(n, used)
      h == Honest(n, used, m)  proof == SjSerialize(n, bm, h.data)
      gens == GenBytes(InPts(n))  gout == SjSerGen(OutPt)
      pos == SjPos(SjUsed(n, bm), m)
  IN CASE mut = 0 -> SV(proof, gens, gout)
       [] mut = 1 -> SV(SjSerialize(n, bm, SetScalar(h.data, 1, Zero)), gens, gout)
       [] mut = 2 -> SV(SjSerialize(n, bm, SetScalar(h.data, k, N)), gens, gout)
       [] mut = 3 -> SV(SjSerialize(n, bm, SetScalar(h.data, pos + 1, SNeg(SjScalar(h.data, pos + 1)))), gens, gout)
       [] mut = 4 -> SV(SjSerialize(n, bm, SetScalar(h.data, 1, Max256)), gens, gout)
       [] mut = 5 -> SV(proof, IF n > 1 THEN Swap(gens, 1, n) ELSE << SjSerGen(OtherPt) >>, gout)          \* permuted / replaced tags
       [] mut = 6 -> SV(proof, [gens EXCEPT ![n] = SjSerGen(OtherPt)], gout)                               \* one tag altered (selected or not)
       [] mut = 7 -> SV(proof, gens, SjSerGen(OtherPt))                                                    \* other output tag
       [] mut = 8 -> SV(proof, Append(gens, SjSerGen(OtherPt)), gout)                                      \* count mismatch (longer)
       [] mut = 9 -> SV(proof, SubSeq(gens, 1, n - 1), gout)                                               \* count mismatch (shorter)
       [] mut = 10 -> [ e |-> "SjVerify", in |-> [ proof |-> proof, gens |-> gens, gout |-> gout, ngens |-> n - 1 ] ]
       [] mut = 11 -> SV(proof \o << 0 >>, gens, gout)                                                     \* trailing byte
       [] mut = 12 -> SV(SubSeq(proof, 1, Len(proof) - 1), gens, gout)                                     \* truncated
       [] mut = 13 -> SV(SjSerialize(n, SjBitmapOf(n, Block(n, k, (m + 1) % n)), h.data), gens, gout)      \* another subset of the same size
       [] mut = 14 -> SV(SjSerialize(n, Zeros(SjBitmapLen(n)), SubSeq(h.data, 1, 32)), gens, gout)         \* empty selection
       [] mut = 15 -> SV(proof, [gens EXCEPT ![m + 1] = gout], gout)                                       \* a selected input equals the output
       [] mut = 16 -> SV(proof, gens, NegGen(gout))                                                        \* output tag negated
       [] mut = 17 -> SV(proof, [gens EXCEPT ![m + 1] = NegGen(@)], gout)                                  \* selected input negated

\* generation: refusals, misuse, key edge values.  Base: 3 inputs, inputs 1 and 2 selected, claimed input 1.
GenSecDiff(idx) == SSub(OutSec, InSec(idx + 1))
ExpandGen(kind) ==
  LET n == 3  used == {1, 2}  idx == 1
      p0 == InitProof(n, used)  gens == GenBytes(InPts(n))  gout == SjSerGen(OutPt)
      ik == NBytes(InSec(idx + 1))  ok == NBytes(OutSec)
  IN CASE kind = 0 -> SG(p0, gens, gout, idx, NBytes(N), ok)
       [] kind = 1 -> SG(p0, gens, gout, idx, NBytes(Max256), ok)
       [] kind = 2 -> SG(p0, gens, gout, idx, ik, NBytes(N))
       [] kind = 3 -> SG(p0, gens, gout, idx, ik, NBytes(Add(N, One)))
       [] kind = 4 -> SG(p0, gens, gout, idx, ik, ik)                                                      \* zero difference, tags differ
       [] kind = 5 -> SG(p0, gens, gout, idx, NBytes(Zero), NBytes(GenSecDiff(idx)))                       \* input key 0
       [] kind = 6 -> SG(p0, gens, gout, idx, NBytes(SNeg(GenSecDiff(idx))), NBytes(Zero))                 \* output key 0
       [] kind = 7 -> SG(p0, [gens EXCEPT ![1] = gout], gout, idx, ik, ok)                                 \* an unselected input equals the output
       [] kind = 8 -> SG(p0, [gens EXCEPT ![2] = gout], gout, idx, ik, ok)                                 \* the claimed input equals the output
       [] kind = 9 -> SG(p0, Append(gens, SjSerGen(OtherPt)), gout, idx, ik, ok)                           \* count mismatch
       [] kind = 10 -> [ e |-> "SjGenerate", in |-> [ proof |-> p0, gens |-> gens, gout |-> gout, index |-> idx, inkey |-> ik, outkey |-> ok, ngens |-> 2 ] ]
       [] kind = 11 -> SG(InitProof(n, {}), gens, gout, idx, ik, ok)                                       \* empty selection
       [] kind = 12 -> SG(p0, gens, gout, 0, NBytes(InSec(1)), ok)                                         \* claimed input not selected
       [] kind = 13 -> SG(p0, gens, gout, n + 5, ik, ok)                                                   \* claimed input out of range
       [] kind = 14 -> SG(p0, gens, gout, idx, NBytes(InSec(3)), ok)                                       \* keys of another input
       [] kind = 15 -> SG(p0, gens, gout, idx, NBytes(Sub(N, One)), NBytes(SAdd(GenSecDiff(idx), Sub(N, One))))   \* largest input key
       [] kind = 16 -> SG(p0, gens, gout, idx, NBytes(Zero), NBytes(Zero))

\* a prover that knows the opening for input 0 and CHOOSES the other scalars small, so that s + N fits in 32 bytes
ExpandForge(n, mut) ==
  LET pts0 == InPts(n)
      pts == IF mut = 3 /\ n = 3 THEN [pts0 EXCEPT ![3] = OutPt] ELSE pts0     \* an UNSELECTED input may equal the output
      used == IF mut = 3 /\ n = 3 THEN {0, 1} ELSE 0..(n - 1)
      k == Cardinality(used)  useq == SjUsed(n, SjBitmapOf(n, used))
      b == BorSign(SjRingKeys(pts, OutPt, useq), [i \in 1..k |-> FromNat(100 + i)], << FromNat(12345) >>,
                   << GenSecDiff(0) >>, << k >>, << 0 >>, SjMsg(pts, OutPt))
      data == b[2] \o Flatten([i \in 1..k |-> Scalar32(b[3][i])])
      pr(d) == SjSerialize(n, SjBitmapOf(n, used), d)
      gens == GenBytes(pts)  gout == SjSerGen(OutPt)
  IN CASE mut = 0 -> SV(pr(data), gens, gout)
       [] mut = 1 -> SV(pr(SetScalar(data, k, Add(SjScalar(data, k), N))), gens, gout)                     \* s + N re-encoding (last)
       [] mut = 2 -> SV(pr(SetScalar(data, k, Add(SjScalar(data, k), One))), gens, gout)
       [] mut = 3 -> SV(pr(data), gens, gout)
       [] mut = 4 -> SV(pr(SetScalar(data, 2, Add(SjScalar(data, 2), N))), gens, gout)                     \* s + N re-encoding (second)
       [] mut = 5 -> SV(pr(SubSeq(data, 1, 31) \o << (data[32] + 1) % 256 >> \o SubSeq(data, 33, Len(data))), gens, gout)
       \* empty selection whose e0 is the hash the degenerate (zero-member) ring would need: computable from public data
       [] mut = 6 -> SV(SjSerialize(n, Zeros(SjBitmapLen(n)), Sha256Hash(SjMsg(pts, OutPt))), gens, gout)

\* A SELECTED input equal to the output makes its ring key the point at infinity, whose discrete logarithm (0) everybody
\* knows: e * infinity contributes nothing, so R at that ring position is s G whatever the challenge, and everything AFTER it
\* no longer depends on e0.  Forgery from public data: arbitrary small non-zero s values, walk the ring forward from the
\* infinity key, e0 = SHA256(ser33(R_last) || msg).  Works with the infinity key at ANY ring position (last: e0 =
\* SHA256(ser33(s_last G) || msg) directly).  Verification must reject (a selected input equals the output).
\* used = selected inputs (set), m = the selected input (0-based) that is replaced by the output tag.
ExpandInfRing(n, used, m) ==
  LET pts  == [InPts(n) EXCEPT ![m + 1] = OutPt]
      bm   == SjBitmapOf(n, used)  useq == SjUsed(n, bm)  k == Len(useq)
      pos  == SjPos(useq, m)                                   \* 0-based ring position of the infinity key
      keys == SjRingKeys(pts, OutPt, useq)
      msg  == SjMsg(pts, OutPt)
      ss   == [i \in 1..k |-> FromNat(40 + i)]
      f    == SignFwd(msg, 0, keys, ss, 0, k, pos + 1, Ser33(PMulG(ss[pos + 1])))
      e0   == Sha256Hash(f[2] \o msg)
  IN  SV(SjSerialize(n, bm, e0 \o Flatten([i \in 1..k |-> Scalar32(ss[i])])), GenBytes(pts), SjSerGen(OutPt))

\* object history: the string is parsed into an object that is pre-filled with 0xff (hist 1) or that held a 256-of-256 proof
\* before (hist 2); parse writes only ceil(n/8) bitmap bytes, so anything that looks at the rest of the bitmap goes wrong
Prior256 == << 0, 1 >> \o Rep(255, 32) \o [j \in 1..(32 * 257) |-> (j * 13) % 256]
WithHist(x, hist) == [ e |-> x.e, in |-> IF hist = 1 THEN x.in @@ [ dirty |-> 1 ] ELSE x.in @@ [ prior |-> Prior256 ] ]
ExpandDirty(kind, a, b, hist) ==
  IF kind = 0 THEN WithHist([ e |-> "SjParse", in |-> [ b |-> ParseString(a, b, 40) ] ], hist)
  ELSE WithHist(ExpandVerify(a, b), hist)

\* the proof whose every bit is flipped: constants (evaluated once per TLC run, not once per flip)
FlipBase == IF Thorough THEN << 2, {0, 1}, 1 >> ELSE << 2, {1}, 1 >>
FlipProof == HonestProof(FlipBase[1], FlipBase[2], FlipBase[3])
FlipGens == GenBytes(InPts(FlipBase[1]))
Expand(c) ==
  CASE c[1] = "parse" -> [ e |-> "SjParse", in |-> [ b |-> ParseString(c[2], c[3], c[4]) ] ]
    [] c[1] = "pad" -> [ e |-> "SjParse", in |-> [ b |-> PadString(c[2], c[3], c[4], c[5]) ] ]
    [] c[1] = "short" -> [ e |-> "SjParse", in |-> [ b |-> Rep(c[3], c[2]) ] ]
    [] c[1] = "init" -> ExpandInit(c[2], MaskSet(c[2], c[3]), c[4], c[5], c[6], c[7])
    [] c[1] = "initbig" -> ExpandInit(c[2], BigMatch(c[2], c[3]), c[4], c[5], c[6], 0)
    [] c[1] = "prove" -> ExpandProve(c[2], c[3], c[4], c[5])
    [] c[1] = "provebig" -> LET n == c[2]  used == Block(n, c[3], c[4]) IN
         SG(InitProof(n, used), GenBytes(InPts(n)), SjSerGen(OutPt), c[4], NBytes(InSec(c[4] + 1)), NBytes(OutSec))
    [] c[1] = "gen" -> ExpandGen(c[2])
    [] c[1] = "verify" -> ExpandVerify(c[2], c[3])
    [] c[1] = "flip" -> SV(FlipBit(FlipProof, c[2]), FlipGens, SjSerGen(OutPt))
    [] c[1] = "forge" -> ExpandForge(c[2], c[3])
    [] c[1] = "dirty" -> ExpandDirty(c[2], c[3], c[4], c[5])
    [] c[1] = "infring" -> ExpandInfRing(c[2], MaskSet(c[2], c[3]), c[4])

-----------------------------------------------------------------------------
VARIABLES phase, cur, rec
vars == << phase, cur, rec >>
Init == phase = "pick" /\ cur = << >> /\ rec = << >>
Pick == phase = "pick" /\ PickCase(cur') /\ phase' = "eval" /\ rec' = << >>
Eval == phase = "eval" /\ LET x == Expand(cur) IN rec' = [ e |-> x.e, in |-> x.in, out |-> Out(x) ]
        /\ phase' = "done" /\ cur' = cur
Next == Pick \/ Eval
InvInit == (phase = "done" /\ rec.e = "SjInit") => InitSound(rec.in, rec.out)
InvGen == (phase = "done" /\ rec.e = "SjGenerate") => GenSound(rec.in, rec.out) /\ GenRefuses(rec.in, rec.out)
InvVerify == (phase = "done" /\ rec.e = "SjVerify") => VerNever(rec.in, rec.out)
Emit == phase = "done" => EmitRecord(rec)

\* ---- design-level model of Initialize over abstract tag lists: every n, every match pattern (position
\* and multiplicity), every subset size, iteration limits incl. 0 and 1, several seeds
ModelN == IF Thorough THEN 1..8 ELSE 1..6
MSeeds == IF Thorough THEN 0..9 ELSE {0, 1, 3, 5, 6}
MInit == phase = "pick" /\ cur = << >> /\ rec = << >>
MPick == phase = "pick" /\ phase' = "eval" /\ rec' = << >>
         /\ \E n \in ModelN : \E mask \in 0..(2 ^ n - 1), nuse \in 0..n, mi \in {0, 1, 2, 5}, sd \in MSeeds : cur' = << n, mask, nuse, mi, sd >>
MEval == phase = "eval" /\ rec' = SjInitialize([k \in 1..cur[1] |-> MaskBit(cur[2], k - 1) = 1], cur[1], cur[3], cur[4], SeedOf(cur[5]))
         /\ phase' = "done" /\ cur' = cur
MNext == MPick \/ MEval
MInv == phase = "done" => InitPost([k \in 1..cur[1] |-> MaskBit(cur[2], k - 1) = 1], cur[1], cur[3], cur[4], rec)

TraceEvents == LoadTrace
TInit == phase = "pick" /\ cur = 0 /\ rec = TRUE
TPick == phase = "pick" /\ \E i \in 1..Len(TraceEvents) : cur' = i /\ phase' = "eval" /\ rec' = rec
\* ---- soft (implementation-defined) outputs ---------------------------------------------------------------
\* Which subset Initialize selects, which matching input it reports, how many iterations it needs (and whether it
\* gives up before the limit), and the BYTES of a generated proof are implementation-defined: the transcription
\* predicts them, but C11 promises only the post-conditions below.  An observed event that differs from the
\* transcription in soft fields only is judged by these post-conditions (replay: engine `soft=`; traces: always).
SoftInit == { "ret", "idx", "nin", "nused", "ser", "ssize", "sret", "sret_short", "null" }
Soft(ev) == CASE ev.e = "SjInit" -> SoftInit [] ev.e = "SjGenerate" -> { "proof" } [] OTHER -> { }
\* Initialize: illegal arguments / nothing can match => 0; a match is forced (pigeonhole) => success; success =>
\* at most the allowed number of iterations, a proof object with the stated count and exactly the requested number of
\* selected inputs that serializes consistently, and a returned index that is selected and equals the output tag.
\* A failure (0) is otherwise accepted: whether the limit was reached depends on the implementation-defined sampling.
PostInit(i, o) ==
  LET n == Len(i.tags)  nm == Cardinality({ k \in 1..n : i.tags[k] = i.out }) IN
  /\ "ret" \in DOMAIN o /\ o.ret >= 0
  /\ ("alloc" \in DOMAIN i /\ i.alloc = 1) => ("null" \in DOMAIN o /\ o.null = B2I(o.ret = 0))
  /\ IF n > SjMaxInputs \/ i.nuse > SjMaxUsed \/ i.nuse > n THEN o.ret = 0
     ELSE /\ (nm = 0 \/ i.nuse = 0) => o.ret = 0
          /\ (i.nuse >= 1 /\ nm > n - i.nuse) => o.ret >= 1
          /\ o.ret > 0 =>
               /\ o.ret <= (IF i.maxiter = 0 THEN 1 ELSE i.maxiter)
               /\ { "idx", "nin", "nused", "ser", "sret", "ssize", "sret_short" } \subseteq DOMAIN o
               /\ o.nin = n /\ o.nused = i.nuse /\ o.sret = 1 /\ o.sret_short = 0 /\ o.ssize = Len(o.ser)
               /\ LET p == SjParse(o.ser) IN
                  /\ p.ok /\ p.n = n /\ SjPopcount(p.bitmap) = i.nuse
                  /\ o.idx < n /\ i.tags[o.idx + 1] = i.out /\ SjBit(p.bitmap, o.idx) = 1
\* Generate for a selected input with opening keys (exp carries the transcribed proof): the OBSERVED proof keeps count
\* and selection and verifies under the specification's Verify for the same tags.
PostGen(i, o, exp) ==
  ("proof" \in DOMAIN exp /\ "ret" \in DOMAIN o /\ o.ret = 1) =>
     /\ "proof" \in DOMAIN o
     /\ \/ o.proof = exp.proof /\ exp.vret = 1
        \/ LET p0 == SjParse(i.proof)  p == SjParse(o.proof) IN
           /\ p.ok /\ p.n = p0.n /\ p.bitmap = p0.bitmap
           /\ SjVerify(p.n, p.bitmap, p.data, Pts(GenList(i)), SjParseGen(i.gout)[2])
Post(ev, exp) == CASE ev.e = "SjInit" -> PostInit(ev.in, ev.out) [] ev.e = "SjGenerate" -> PostGen(ev.in, ev.out, exp) [] OTHER -> TRUE
Judge(ev) == LET exp == Out(ev) IN
  /\ \A k \in (DOMAIN exp) \ Soft(ev) : k \in DOMAIN ev.out /\ ev.out[k] = exp[k]
  /\ Post(ev, exp)
TEval == phase = "eval" /\ rec' = Judge(TraceEvents[cur]) /\ phase' = "done" /\ cur' = cur
TNext == TPick \/ TEval
TraceOK == rec = TRUE
=============================================================================
