------------------------------- MODULE C10_RangeVerify -------------------------------
(***************************************************************************)
(* C10 -- range-proof verification accepts exactly the specified proofs.   *)
(* RangeProof!RpVerify (written from the format) decides every byte string; *)
(* RangeForge supplies an adversarial prover that builds ring-valid proofs  *)
(* for ANY header and chooses every free value, and this machine mutates    *)
(* them.  Every case carries the verdict the PROPERTY STATEMENT demands     *)
(* ("acc" with the range the header promises / "rej"); TLC checks that the  *)
(* specification's Verify delivers it (design level) and emits the record   *)
(* for the implementation.                                                  *)
(***************************************************************************)
EXTENDS RangeForge, CurveParams, Verif, Integers

Out(ev) == CASE ev.e = "RpVerify" -> RpOutVerify(ev.in)

GenHBytes == << 11, 80, 146, 155, 116, 193, 160, 73, 84, 183, 139, 75, 96, 53, 233, 122, 94, 7, 138, 90, 15, 40, 236, 150, 213,
                71, 191, 238, 154, 206, 128, 58, 192 >>
HPt == RpParseGen(GenHBytes)[2]
Extra0 == << 1, 2, 3 >>
Thorough == EnvNat("VERIF_THOROUGH") = 1

\* base headers the adversary proves for.  1..10, 21..23: the format allows them; 11..20: one header rule forbids them
BaseHdr(k) ==
  CASE k = 1  -> << 0 >>                                      \* exact value, no minimum (65 bytes, the smallest proof)
    [] k = 2  -> << 32 >> \o U64To8(FromNat(5))               \* exact value 5
    [] k = 3  -> << 96, 0 >> \o U64To8(Pow2(63))              \* 1 bit above min = 2^63 (the library's own signer refuses to make this)
    [] k = 4  -> << 66, 2 >>                                  \* 3 bits, exponent 2
    [] k = 5  -> << 96, 3 >> \o U64To8(FromNat(1000))         \* 4 bits above 1000
    [] k = 6  -> << 64, 19 >>                                 \* 20 bits: ten rings, two sign bytes
    [] k = 7  -> << 64, 63 >>                                 \* 64 bits, the full range [0, 2^64-1]
    [] k = 8  -> << 82, 3 >>                                  \* exponent 18, 4 bits: max 15 * 10^18 < 2^64
    [] k = 9  -> << 96, 62 >> \o U64To8(Pow2(63))             \* 63 bits above 2^63: max = 2^64 - 1
    [] k = 10 -> << 5 >>                                      \* exact value, unused exponent bits set (hashed, otherwise ignored)
    [] k = 21 -> << 32 >> \o U64To8(Zero)                     \* explicit minimum 0
    [] k = 22 -> << 96, 0 >> \o U64To8(Sub(U64Max, One))      \* [2^64-2, 2^64-1]: max just fits
    [] k = 23 -> << 64, 7 >>                                  \* 8 bits: four rings of 4, three sign bits used
    [] k = 11 -> << 128 >>                                    \* reserved bit, exact value
    [] k = 12 -> << 192, 0 >>                                 \* reserved bit, 1 bit
    [] k = 13 -> << 160 >> \o U64To8(FromNat(9))              \* reserved bit, exact value 9
    [] k = 14 -> << 83, 0 >>                                  \* exponent 19
    [] k = 15 -> << 95, 0 >>                                  \* exponent 31
    [] k = 16 -> << 96, 0 >> \o U64To8(U64Max)                \* min + max = 2^64: wraps
    [] k = 17 -> << 96, 63 >> \o U64To8(One)                  \* 64 bits above 1: wraps
    [] k = 18 -> << 82, 4 >>                                  \* exponent 18, 5 bits: 31 * 10^18 >= 2^64
    [] k = 19 -> << 65, 63 >>                                 \* 64 bits, exponent 1
    [] k = 20 -> << 96, 61 >> \o U64To8(Add(Sub(U64Max, Pow2(62)), Two))    \* 62 bits: max = 2^64 exactly
AllowedBases == { 1, 2, 3, 4, 5, 6, 7, 8, 9, 10, 21, 22, 23 }
Forge(k) == RfProof(BaseHdr(k), IF k = 5 \/ k = 8 THEN PMulG(FromNat(7)) ELSE HPt, Extra0)

\* the range a header promises, read leniently (the design-level expectation for accepted proofs)
PromisedRange(proof) ==
  LET L == RfLenient(proof) IN
  << L.minv, IF L.mant = 0 THEN L.minv ELSE Add(L.minv, Mul(U64LowMask(L.mant), U64Pow10(L.exp))) >>

V(f, proof, extra) == [ e |-> "RpVerify", in |-> [ commit |-> RpSerCommit(f.C), gen |-> RpSerGen(f.H), proof |-> proof, extra |-> extra ] ]
VN(f, proof, extra) == [ e |-> "RpVerify", in |-> [ commit |-> RpSerCommit(f.C), gen |-> RpSerGen(f.H), proof |-> proof, extra |-> extra, nonce |-> Rnd32(77) ] ]
SetByte(b, pos, v) == [b EXCEPT ![pos] = v]
RndNat(i, m) == (Rnd32(i)[1] * 65536 + Rnd32(i)[2] * 256 + Rnd32(i)[3]) % m

ExpandMut(k, mut, a) ==
  LET f  == Forge(k)
      pr == f.proof
      fp == RfForgedPos(f)
      p  == IF Len(fp) = 0 THEN 1 ELSE fp[(a % Len(fp)) + 1]
      x1 == SubSeq(pr, f.doff + 1, f.doff + 32)
  IN
  CASE mut = "ok"        -> VN(f, pr, Extra0)
    [] mut = "zeroat"    -> LET fz == RfProofZ(BaseHdr(k), HPt, Extra0, p) IN V(fz, fz.proof, Extra0)   \* the prover CHOSE s_p = 0: equation closes, must be refused
    [] mut = "splusn"    -> V(f, RfSetScalar(f, p, Add(RfScalarAt(f, p), N)), Extra0)          \* s -> s + n (same residue)
    [] mut = "sn"        -> V(f, RfSetScalar(f, p, N), Extra0)
    [] mut = "szero"     -> V(f, RfSetScalar(f, p, Zero), Extra0)
    [] mut = "splus1"    -> V(f, RfSetScalar(f, p, Add(RfScalarAt(f, p), One)), Extra0)
    [] mut = "smax"      -> V(f, RfSetScalar(f, p, Sub(Pow2(256), One)), Extra0)
    [] mut = "trail"     -> V(f, pr \o << 0 >>, Extra0)
    [] mut = "trunc1"    -> V(f, SubSeq(pr, 1, Len(pr) - 1), Extra0)
    [] mut = "trunc32"   -> V(f, SubSeq(pr, 1, Len(pr) - 32), Extra0)
    [] mut = "ext32"     -> V(f, pr \o Zeros(32), Extra0)
    [] mut = "spare"     -> V(f, SetByte(pr, f.doff, pr[f.doff] + 2^a), Extra0)                \* an unused sign bit (last sign byte)
    [] mut = "signflip"  -> V(f, SetByte(pr, f.doff - RpSignBytes(Len(f.rs)) + 1 + (a \div 8), pr[f.doff - RpSignBytes(Len(f.rs)) + 1 + (a \div 8)] ^^ (2^(a % 8))), Extra0)
    [] mut = "xp"        -> V(f, RfSetBytes(pr, f.doff, ToBytesBE(P, 32)), Extra0)
    [] mut = "xmax"      -> V(f, RfSetBytes(pr, f.doff, Rep(255, 32)), Extra0)
    [] mut = "xplus1"    -> V(f, RfSetBytes(pr, f.doff, ToBytesBE(Add(FromBytesBE(x1), One), 32)), Extra0)
    [] mut = "e0flip"    -> V(f, FlipBit(pr, 8 * (f.soff - 32) + a), Extra0)
    [] mut = "commitG"   -> V([f EXCEPT !.C = PAdd(f.C, G)], pr, Extra0)
    [] mut = "commitneg" -> V([f EXCEPT !.C = PNeg(f.C)], pr, Extra0)
    [] mut = "gen2"      -> V([f EXCEPT !.H = PAdd(f.H, G)], pr, Extra0)
    [] mut = "genneg"    -> V([f EXCEPT !.H = PNeg(f.H)], pr, Extra0)
    [] mut = "extra+"    -> V(f, pr, Extra0 \o << 0 >>)
    [] mut = "extra-"    -> V(f, pr, SubSeq(Extra0, 1, 2))
    [] mut = "extraflip" -> V(f, pr, FlipBit(Extra0, a))
    [] mut = "noextra"   -> [ e |-> "RpVerify", in |-> [ commit |-> RpSerCommit(f.C), gen |-> RpSerGen(f.H), proof |-> pr ] ]
    [] mut = "resv"      -> V(f, SetByte(pr, 1, pr[1] + 128), Extra0)
    [] mut = "exp"       -> V(f, SetByte(pr, 1, (pr[1] \div 32) * 32 + a), Extra0)
    [] mut = "mantbyte"  -> V(f, SetByte(pr, 2, a), Extra0)
    [] mut = "flip"      -> V(f, FlipBit(pr, a), Extra0)
    [] mut = "flipr"     -> V(f, FlipBit(pr, RndNat(500 + a, 8 * Len(pr))), Extra0)

\* ring keys at infinity (zero-blinding digit commitments): << header, position of the infinity key per ring >>
InfCase(k) ==
  CASE k = 1 -> << << 64, 0 >>, << 1 >> >>                                   \* ring of 2, last key
    [] k = 2 -> << << 64, 1 >>, << 3 >> >>                                   \* ring of 4, last key
    [] k = 3 -> << << 64, 1 >>, << 1 >> >>                                   \* ring of 4, second key
    [] k = 4 -> << << 64, 1 >>, << 2 >> >>                                   \* ring of 4, third key
    [] k = 5 -> << << 96, 0 >> \o U64To8(FromNat(1000)), << 1 >> >>          \* with a minimum value
    [] k = 6 -> << << 64, 3 >>, << 3, 2 >> >>                                \* two rings: explicit digit 3 H, derived digit 2 * 4 H
    [] k = 7 -> << << 66, 2 >>, << 1, 1 >> >>                                \* exponent 2, rings of 4 and 2
InfProof(k) == RfInfProof(InfCase(k)[1], HPt, InfCase(k)[2], Extra0)

Expand(c) ==
  CASE c[1] = "mut"  -> ExpandMut(c[3], c[4], c[5])
    [] c[1] = "inf"  -> LET f == InfProof(c[3]) IN
                        IF c[4] = 0 THEN VN(f, f.proof, Extra0)
                        ELSE V(f, RfSetScalar(f, 4 * (Len(f.rs) - 1) + f.secidx[Len(f.rs)] + 1, One), Extra0)    \* another s on the infinity key: same family
    [] c[1] = "tiny" -> LET f == RfTinyProof(Extra0, c[3] = 1) IN VN(f, f.proof, Extra0)

\* descriptors: << "mut", verdict, base, mutation, argument >>
M(x, k, m, a) == << "mut", x, k, m, a >>
QuickOk == { 1, 2, 3, 4, 5, 6, 7, 8, 10, 21, 22, 23 }
Cases ==
       { M("acc", k, "ok", 0) : k \in (IF Thorough THEN AllowedBases ELSE QuickOk) }
  \cup { M("rej", k, "ok", 0) : k \in (IF Thorough THEN 11..20 ELSE 11..18) }
  \cup { M("rej", 3, "splusn", 0) } \cup { M("rej", 4, "splusn", a) : a \in 0..3 } \cup { M("rej", 5, "splusn", a) : a \in 0..5 }
  \cup { M("rej", 6, "splusn", a) : a \in { 0, 13, 29 } }
  \cup (IF Thorough THEN { M("rej", 7, "splusn", a) : a \in { 0, 50, 95 } } ELSE { })
  \cup { M("rej", k, m, 0) : k \in { 3, 4 }, m \in { "sn", "szero", "splus1", "smax" } }
  \cup { M("rej", k, "zeroat", a) : k \in { 3, 4, 6 }, a \in 0..7 }            \* every forged position (a wraps over the forged positions of the proof)
  \cup { M("rej", k, m, 0) : k \in { 1, 3, 4 }, m \in { "trail", "trunc1", "trunc32", "ext32" } }
  \cup { M("rej", 4, "spare", a) : a \in { 1, 4, 7 } } \cup { M("rej", 6, "spare", a) : a \in { 1, 7 } } \cup { M("rej", 23, "spare", a) : a \in { 3, 7 } }
  \cup { M("rej", 4, "signflip", 0), M("rej", 6, "signflip", 8), M("rej", 23, "signflip", 2) }
  \cup { M("rej", 4, m, 0) : m \in { "xp", "xmax", "xplus1" } }
  \cup { M("rej", k, "e0flip", a) : k \in { 1, 4 }, a \in { 0, 255 } }
  \cup { M("rej", k, m, 0) : k \in { 1, 4 }, m \in { "commitG", "commitneg", "gen2", "genneg", "extra+", "extra-", "noextra", "resv" } }
  \cup { M("rej", k, "extraflip", a) : k \in { 1, 4 }, a \in { 0, 23 } }
  \cup { M("rej", k, "exp", 19) : k \in { 3, 4 } } \cup { M("rej", 3, "resv", 0) }
  \cup { M("rej", 4, "exp", a) : a \in { 0, 1, 3, 18, 31 } }                      \* another exponent: another ring base
  \cup { M("rej", 4, "mantbyte", a) : a \in { 0, 1, 3, 63, 64, 255 } }
  \cup { M("rej", 1, "flip", a) : a \in 0..519 }                                  \* every bit of the smallest proof
  \cup { M("rej", 3, "flip", a) : a \in (IF Thorough THEN 0..847 ELSE 0..79) }    \* header + first bits; all bits in thorough
  \cup { M("rej", 3, "flipr", a) : a \in (IF Thorough THEN { } ELSE 1..24) }
  \cup { M("rej", 5, "flipr", a) : a \in 1..(IF Thorough THEN 400 ELSE 12) }
  \cup { M("rej", 6, "flipr", a) : a \in 1..(IF Thorough THEN 100 ELSE 2) }
  \cup { << "tiny", "acc", 0 >>, << "tiny", "rej", 1 >> }
  \cup { << "inf", "rej", k, v >> : k \in 1..7, v \in { 0, 1 } }
ProbeInf == { << "inf", "rej", k, v >> : k \in 1..7, v \in { 0, 1 } }
ProbeCases == { M("acc", 4, "ok", 0), << "tiny", "acc", 0 >>, << "tiny", "rej", 1 >>, M("rej", 4, "splusn", 1), M("rej", 14, "ok", 0) }

-----------------------------------------------------------------------------
VARIABLES phase, cur, rec
vars == << phase, cur, rec >>
Init == phase = "pick" /\ cur = << >> /\ rec = << >>
Pick == phase = "pick" /\ \E c \in Cases : cur' = c /\ phase' = "eval" /\ rec' = << >>
Eval == phase = "eval" /\ LET x == Expand(cur) IN rec' = [ e |-> x.e, in |-> x.in, out |-> Out(x) ]
        /\ phase' = "done" /\ cur' = cur
Next == Pick \/ Eval
\* design level: the specification's Verify gives every case the verdict the property statement demands; an accepted
\* proof reports exactly the range its header promises, inside [0, 2^64); Info agrees; a foreign nonce does not rewind
InvVerdict == phase = "done" =>
  LET o == rec.out  r == PromisedRange(rec.in.proof) IN
  /\ o.pret = 1 /\ o.gret = 1
  /\ cur[2] = "rej" => o.vret = 0
  /\ cur[2] = "acc" => /\ o.vret = 1 /\ o.vmin = U64To8(r[1]) /\ IsU64(r[2]) /\ o.vmax = U64To8(r[2])
                       /\ o.iret = 1 /\ o.imin = o.vmin /\ o.imax = o.vmax
                       /\ ("nonce" \in DOMAIN rec.in => o.rret = 0)
Emit == phase = "done" => EmitRecord(rec)

TraceEvents == LoadTrace
TInit == phase = "pick" /\ cur = 0 /\ rec = TRUE
TPick == phase = "pick" /\ \E i \in 1..Len(TraceEvents) : cur' = i /\ phase' = "eval" /\ rec' = rec
TEval == phase = "eval" /\ rec' = SubRec(Out(TraceEvents[cur]), TraceEvents[cur].out) /\ phase' = "done" /\ cur' = cur
TNext == TPick \/ TEval
TraceOK == rec = TRUE
=============================================================================
