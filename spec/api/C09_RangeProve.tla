------------------------------- MODULE C09_RangeProve -------------------------------
(***************************************************************************)
(* C09 -- every range proof the library creates verifies, bounds the value *)
(* and rewinds.  Three machines over the same variables:                    *)
(*  (P) the parameter model: the transcribed clamp logic RpSignParams over  *)
(*      EDGE_U64^2 x exp in [-2,19] x min_bits in [-1,65] with its design-  *)
(*      level post-conditions as invariants (integer-only) -- a sample of   *)
(*      the states is also emitted and replayed on the real static function;*)
(*  (G) call records for secp256k1_rangeproof_sign with the SPECIFIED proof *)
(*      bytes (the prover is deterministic) and the specified verify / info *)
(*      / rewind results, plus the theorems "the specified proof verifies,  *)
(*      bounds the value and rewinds" evaluated by TLC on every record;     *)
(*  (T) events recorded from the implementation (incl. verification and     *)
(*      rewinding of the LIBRARY's proof bytes) decided by TLC.             *)
(***************************************************************************)
EXTENDS RangeProof, CurveParams, Verif, Integers

NBytes(x) == ToBytesBE(x, 32)
Max256 == Sub(Pow2(256), One)
\* serialization of the library's constant secp256k1_generator_h (an input of the repository; the record
\* RpGenH below makes the implementation confirm it)
GenHBytes == << 11, 80, 146, 155, 116, 193, 160, 73, 84, 183, 139, 75, 96, 53, 233, 122, 94, 7, 138, 90, 15, 40, 236, 150, 213,
                71, 191, 238, 154, 206, 128, 58, 192 >>

-----------------------------------------------------------------------------
\* specified results of the calls (field names = harness/ops_rangeproof.h)
PadTo(msg, n) == IF n = 0 THEN << >> ELSE [b \in 1..n |-> IF b <= Len(msg) THEN msg[b] ELSE 0]
IntOpt(i, k, d) == IF k \in DOMAIN i THEN i[k] ELSE d

OutSign(i) ==
  LET c == RpParseCommit(i.commit)  g == RpParseGen(i.gen) IN
  IF ~c[1] THEN [ pret |-> 0 ]
  ELSE IF ~g[1] THEN [ pret |-> 1, gret |-> 0 ]
  ELSE
  LET C == c[2]  H == g[2]
      value == U64From8(i.value)
      msg   == RpOpt(i, "msg")
      extra == RpOpt(i, "extra")
      mlen  == IntOpt(i, "mlen", 4096)
      sg    == RpSign(C, H, i.blind, i.nonce, value, U64From8(i.min), i.exp, i.min_bits, msg, extra, IntOpt(i, "plen", 5134))
  IN
  IF ~sg.ok THEN [ pret |-> 1, gret |-> 1, ret |-> 0, guard |-> 1, same |-> 1, icb |-> 0 ]
  ELSE
  LET pp   == sg.pp
      base == [ pret |-> 1, gret |-> 1, ret |-> 1, guard |-> 1, same |-> 1, proof |-> sg.proof, maxsz_ok |-> 1, icb |-> 0,
                iret |-> 1, iexp |-> IF pp.mant = 0 THEN -1 ELSE pp.exp, imant |-> pp.mant,
                imin |-> U64To8(pp.min), imax |-> U64To8(RpParamMax(pp)) ]
      other == IF "nonce2" \in DOMAIN i /\ i.nonce2 # i.nonce THEN [ wret |-> 0, wret0 |-> 0 ] ELSE [ icb |-> 0 ]
  IN
  \* the signer does not check that the commitment opens to (blind, value); the promises hold when it does
  IF RpCommitPoint(FromBytesBE(i.blind), value, H) = C
  THEN base @@ other @@
       [ vret |-> 1, vmin |-> U64To8(pp.min), vmax |-> U64To8(RpParamMax(pp)),
         rret |-> 1, rret0 |-> 1, rvalue |-> i.value, rblind |-> i.blind, rguard |-> 1,
         rmsg |-> PadTo(msg, RpMin2(mlen, 32 * (RpMax2(RpSum(pp.rsizes), 2) - 2))),
         rmin |-> U64To8(pp.min), rmax |-> U64To8(RpParamMax(pp)) ]
  ELSE base @@ other @@ RpApiCheck(C, H, sg.proof, extra, TRUE, i.nonce, mlen)

OutCommit(i) ==
  LET g == RpParseGen(i.gen)  b == FromBytesBE(i.blind) IN
  IF ~g[1] THEN [ gret |-> 0 ]
  ELSE IF ~Lt(b, N) THEN [ gret |-> 1, ret |-> 0, icb |-> 0 ]
  ELSE LET Q == RpCommitPoint(b, U64From8(i.value), g[2]) IN
       IF IsInf(Q) THEN [ gret |-> 1, ret |-> 0, icb |-> 0 ]
       ELSE [ gret |-> 1, ret |-> 1, commit |-> RpSerCommit(Q), icb |-> 0 ]

\* internal probe of the transcribed function (called only inside the domain secp256k1_rangeproof_sign_impl admits)
OutParams(i) ==
  LET pp == RpProveParams(U64From8(i.value), U64From8(i.min), i.exp, i.min_bits) IN
  IF ~pp.ok THEN [ ok |-> 0 ]
  ELSE [ ok |-> 1, v |-> U64To8(pp.v), pmin |-> U64To8(pp.min), scale |-> U64To8(pp.scale), rings |-> Len(pp.rsizes), npub |-> pp.npub,
         mantissa |-> pp.mant, pexp |-> pp.exp, pmin_bits |-> pp.mb, rsizes |-> pp.rsizes, secidx |-> pp.secidx ]

OutMaxSize(i) == [ size |-> RpMaxSize(U64From8(i.maxv), i.min_bits), icb |-> 0 ]

Out(ev) == CASE ev.e = "RpSign"    -> OutSign(ev.in)
             [] ev.e = "RpVerify"  -> RpOutVerify(ev.in)
             [] ev.e = "RpCommit"  -> OutCommit(ev.in)
             [] ev.e = "RpParams"  -> OutParams(ev.in)
             [] ev.e = "RpMaxSize" -> OutMaxSize(ev.in)
             [] ev.e = "RpGenH"    -> [ gen |-> GenHBytes, icb |-> 0 ]

-----------------------------------------------------------------------------
\* design-level theorems evaluated by TLC on the SPECIFIED proof of every generated sign record
\* (for commitments that open to (blind, value)):
\*   the proof verifies; the reported range equals what the header says and what the parameters promised, lies
\*   inside [0, 2^64) and contains the value; the proof fits the caller's buffer and the advertised maximum;
\*   rewinding with the creator's nonce returns value, blinding factor and zero-padded message; another nonce fails
\* (a) what a verifier sees -- needs only the proof bytes (vr = RpVerifyFull of them)
VerifiesWith(i, o, vr) ==
  LET value == U64From8(i.value)  h == RpInfo(o.proof) IN
  /\ vr.ok
  /\ U64To8(vr.min) = o.vmin /\ U64To8(vr.max) = o.vmax
  /\ IsU64(vr.max) /\ Leq(vr.min, value) /\ Leq(value, vr.max)
  /\ h.ok /\ h.min = vr.min /\ h.max = vr.max /\ h.exp = o.iexp /\ h.mant = o.imant
  /\ Len(o.proof) <= IntOpt(i, "plen", 5134) /\ Len(o.proof) <= RpMaxSize(value, i.min_bits)
\* (b) what the holder of the nonce recovers -- tied to the transcribed random stream
RewindsWith(i, o, vr, C, H) ==
  LET msg == RpOpt(i, "msg")  mlen == IntOpt(i, "mlen", 4096)
      rw == RpRewindFrom(vr, C, H, o.proof, i.nonce, mlen)
  IN  /\ rw.ok /\ rw.value = U64From8(i.value) /\ rw.blind = FromBytesBE(i.blind) /\ rw.msg = o.rmsg
      /\ \A k \in 1..Len(rw.msg) : rw.msg[k] = (IF k <= Len(msg) THEN msg[k] ELSE 0)
      /\ ("nonce2" \in DOMAIN i /\ i.nonce2 # i.nonce) => ~RpRewindFrom(vr, C, H, o.proof, i.nonce2, mlen).ok
SignVerifies(i, o) ==
  (o.ret = 1 /\ o.vret = 1) =>
    LET C == RpParseCommit(i.commit)[2]  H == RpParseGen(i.gen)[2] IN VerifiesWith(i, o, RpVerifyFull(C, H, RpOpt(i, "extra"), o.proof))
SignSound(i, o) ==
  (o.ret = 1 /\ o.vret = 1) =>
    LET C == RpParseCommit(i.commit)[2]  H == RpParseGen(i.gen)[2]
        vr == RpVerifyFull(C, H, RpOpt(i, "extra"), o.proof)
    IN  VerifiesWith(i, o, vr) /\ RewindsWith(i, o, vr, C, H)
\* refusal of out-of-range blinding factors
SignRefuses(i, o) == ~Lt(FromBytesBE(i.blind), N) => o.ret = 0

-----------------------------------------------------------------------------
\* (P) parameter model
Ten(k) == U64Pow10(k)
EdgeFull == << Zero, One, Two, FromNat(3), FromNat(9), FromNat(10), FromNat(11), FromNat(99), FromNat(100), FromNat(255), FromNat(256),
               Ten(9), Sub(Pow2(32), One), Pow2(32), Ten(18), Add(Ten(18), One), Sub(Pow2(61), One), Pow2(61), Sub(Pow2(62), One), Pow2(62),
               Sub(Pow2(63), Two), I64Max, Pow2(63), Add(Pow2(63), One), Ten(19), Sub(U64Max, One), U64Max,
               U64From8(SubSeq(Rnd32(40), 1, 8)), U64From8(SubSeq(Rnd32(41), 1, 5)) >>
EdgeQuick == << Zero, One, FromNat(10), FromNat(255), Ten(18), Sub(Pow2(62), One),
                Sub(Pow2(63), Two), I64Max, Pow2(63), Sub(U64Max, One), U64Max >>
EdgeU64 == IF EnvNat("VERIF_THOROUGH") = 1 THEN EdgeFull ELSE EdgeQuick
RECURSIVE DigitSum(_, _)
DigitSum(secidx, i) == IF i > Len(secidx) THEN Zero ELSE Add(Mul(FromNat(secidx[i]), Pow2(2 * (i - 1))), DigitSum(secidx, i + 1))

ParamPost(value, minv, exp, mb) ==
  LET pp == RpSignParams(value, minv, exp, mb)
      doc == RpDocValid(value, minv, exp, mb)
  IN
  /\ pp.ok =>
       LET rs == pp.rsizes  rings == Len(rs)  pmax == RpParamMax(pp)
           h == RpHeader(RpParamHeader(pp) \o Zeros(80))
       IN  /\ Add(Mul(pp.v, pp.scale), pp.min) = value                         \* v scale + min = value, exactly
           /\ rings >= 1 /\ rings <= 32 /\ pp.npub <= 128
           /\ rs = RpRsizes(pp.mant)                                            \* the verifier derives the same layout
           /\ (pp.mant > 0 => pp.npub = RpSum(rs))
           /\ IsU64(pmax) /\ Leq(pp.min, value) /\ Leq(value, pmax)             \* proven range inside [0,2^64), contains value
           /\ (pp.mant > 0 => Lt(pp.v, Pow2(pp.mant)))
           /\ (pp.mant = 0 => IsZero(pp.v) /\ pp.min = value)
           /\ \A k \in 1..rings : pp.secidx[k] < rs[k]
           /\ DigitSum(pp.secidx, 1) = pp.v
           /\ pp.exp >= 0 /\ pp.exp <= 18 /\ pp.exp <= RpMax2(exp, 0) /\ pp.scale = U64Pow10(pp.exp)
           /\ pp.mb <= mb /\ (pp.mant > 0 => pp.mant >= pp.mb) /\ pp.mant <= 64
           \* the header the signer writes is accepted by the verifier's header decoder and says the same
           /\ h.ok /\ h.mant = pp.mant /\ h.min = pp.min /\ h.max = pmax /\ h.scale = pp.scale
           /\ h.exp = (IF pp.mant = 0 THEN -1 ELSE pp.exp)
           /\ h.off = Len(RpParamHeader(pp))
           \* sizes
           /\ RpParamLen(pp) <= RpParamNeed(pp) /\ RpParamNeed(pp) <= RpMaxSize(value, mb) /\ RpMaxSize(value, mb) <= 5134
           /\ RpMsgCapacity(pp) <= 3968
  \* relation to the documented parameter domain: one refused corner, three tolerated classes
  /\ (doc /\ ~pp.ok) => (value = I64Max /\ minv = I64Max /\ exp >= 0)
  /\ (~doc /\ pp.ok) => /\ Leq(minv, value) /\ exp >= -1 /\ exp <= 18 /\ mb >= 0 /\ mb <= 64
                        /\ (exp = -1 \/ minv = U64Max \/ (IsZero(minv) /\ Lt(I64Max, value)))
  /\ (~doc /\ pp.ok /\ exp >= 0 /\ minv # U64Max) => pp.exp = 0                \* the exponent is dropped, not honoured

\* clamp-branch label of a parameter state (vacuity: every label must occur in the model run)
ParamBranch(value, minv, exp, mb) ==
  IF Lt(value, minv) THEN "min>value"
  ELSE IF mb > 64 \/ mb < 0 THEN "min_bits-range"
  ELSE IF exp < -1 \/ exp > 18 THEN "exp-range"
  ELSE LET pp == RpProveParams(value, minv, exp, mb) IN
       IF ~pp.ok THEN "guard63"
       ELSE IF pp.mant = 0 THEN (IF exp >= 0 THEN "min=max64" ELSE "exact")
       ELSE IF pp.mb < mb THEN (IF pp.exp < exp THEN "mb-clamped+exp-reduced" ELSE "mb-clamped")
       ELSE IF pp.exp < exp THEN (IF Lt(I64Max, value) \/ pp.mb > 61 THEN "exp-disabled" ELSE "exp-reduced")
       ELSE IF pp.mant = pp.mb /\ pp.mb > 0 THEN "mantissa=min_bits"
       ELSE IF pp.mant % 2 = 1 THEN "odd-mantissa" ELSE "even-mantissa"

-----------------------------------------------------------------------------
\* (G) generated sign records.  Descriptor: <<"sign", value, min, exp, min_bits, options>>
\* options: g generator, bl blinding factor, no nonce, ml message length (-1 absent), xl extra-data length (-1 absent),
\* pl output capacity (-1: 5134, -2: needed-1, -3: needed, -4: needed+1, -5: proof length), rl rewind capacity, cm commitment
DO == [ g |-> 1, bl |-> 1, no |-> 1, ml |-> -1, xl |-> -1, pl |-> -1, rl |-> 4096, cm |-> 0 ]
Thorough == EnvNat("VERIF_THOROUGH") = 1
GenPool == << GenHBytes, RpSerGen(PMulG(FromNat(7))), RpSerGen(PMulG(FromBytesBE(Rnd32(22)))) >>
NoncePool == << Rnd32(21), Zeros(32), Rep(255, 32) >>
RndLong(tag, len) == IF len <= 0 THEN << >>
                     ELSE LET ch == [c \in 1..(((len - 1) \div 32) + 1) |-> Rnd32(1000 * tag + c)]
                          IN  [k \in 1..len |-> IF k = len THEN 255 ELSE ch[((k - 1) \div 32) + 1][((k - 1) % 32) + 1]]

BlindOf(sel, C0, H, pp, nonce) ==
  CASE sel = 1 -> Mod(FromBytesBE(Rnd32(20)), N)
    [] sel = 2 -> Zero
    [] sel = 3 -> One
    [] sel = 4 -> Sub(N, One)
    [] sel = 5 -> N
    [] sel = 6 -> Add(N, One)
    [] sel = 7 -> Max256
    \* 8: the blinding factor that cancels the digits' blinding factors (for a commitment fixed beforehand)
    [] sel = 8 -> SNeg(RpGenRand(nonce, C0, H, RpParamHeader(pp), pp.rsizes, RpPrepChunks(<< >>, RpSum(pp.rsizes)))[2][Len(pp.rsizes)])

ExpandSign(value, minv, exp, mb, o) ==
  LET genb  == GenPool[o.g]
      H     == RpParseGen(genb)[2]
      pp    == RpSignParams(value, minv, exp, mb)
      nonce == NoncePool[o.no]
      C0    == RpCommitPoint(One, value, H)
      bl    == BlindOf(o.bl, C0, H, pp, nonce)
      blm   == Mod(bl, N)
      Cok   == IF o.bl = 8 THEN C0
               ELSE IF IsZero(blm) /\ IsZero(value) THEN G ELSE RpCommitPoint(blm, value, H)
      C     == IF o.cm = 0 THEN Cok ELSE PAdd(Cok, H)
      need  == IF pp.ok THEN RpParamNeed(pp) ELSE 65
      plen  == CASE o.pl = -1 -> 5134 [] o.pl = -2 -> need - 1 [] o.pl = -3 -> need [] o.pl = -4 -> need + 1
                 [] o.pl = -5 -> (IF pp.ok THEN RpParamLen(pp) ELSE 65) [] OTHER -> o.pl
      base  == [ commit |-> RpSerCommit(C), gen |-> genb, blind |-> NBytes(bl), nonce |-> nonce, nonce2 |-> Rnd32(23),
                 value |-> U64To8(value), min |-> U64To8(minv), exp |-> exp, min_bits |-> mb, plen |-> plen, mlen |-> o.rl ]
      inn   == IF o.ml >= 0 /\ o.xl >= 0 THEN base @@ [ msg |-> RndLong(1, o.ml), extra |-> RndLong(2, o.xl) ]
               ELSE IF o.ml >= 0 THEN base @@ [ msg |-> RndLong(1, o.ml) ]
               ELSE IF o.xl >= 0 THEN base @@ [ extra |-> RndLong(2, o.xl) ]
               ELSE base
  IN  [ e |-> "RpSign", in |-> inn ]

U(n) == FromNat(n)
\* a parameter set is cheap for TLC if it is refused or needs few rings
Cheap(v, m, e, b, lim) == LET pp == RpSignParams(v, m, e, b) IN ~pp.ok \/ pp.mant <= lim
SmallVals == IF Thorough THEN { 0, 1, 2, 3, 4, 10, 16, 77, 100, 255 } ELSE { 0, 1, 3, 10, 77, 255 }
SmallExps == IF Thorough THEN { -1, 0, 1, 2, 3, 18 } ELSE { -1, 0, 1 }
SmallBits == IF Thorough THEN { 0, 1, 2, 3, 5, 8 } ELSE { 0 }
Grid == { << "sign", U(v), U(m), e, b, DO >> : v \in SmallVals, m \in { 0, 1, 2, 3, 4, 9, 10, 15, 16, 77, 100, 200, 255 }, e \in SmallExps, b \in SmallBits }
        \cup { << "sign", U(v), Zero, e, 4, DO >> : v \in { 3, 77 }, e \in { 0, 1 } }
GridCases == { c \in Grid : c[3] = Zero \/ c[3] = One \/ c[3] = c[2] }
\* the 2^63 guards, min_value = 2^64-1, min_bits capped by clz(min_value): all refusals, and the acceptances that stay small
BigV == { Pow2(62), Sub(Pow2(63), Two), I64Max, Pow2(63), Add(Pow2(63), One), Sub(U64Max, One), U64Max }
BigM == { Zero, One, Pow2(62), Sub(Pow2(63), Two), I64Max, Pow2(63), U64Max }
GuardGrid == { << "sign", v, m, e, b, DO >> : v \in BigV, m \in BigM, e \in { 0, 1, 18 }, b \in { 0, 1, 61, 62, 64 } }
         \cup UNION { { << "sign", v, m, -1, 0, DO >> : m \in { Zero, One, v, U64Wrap(Add(v, One)), U64Max } } : v \in BigV }
\* quick: every refusal, and the small acceptances for a third of the grid
GuardCases == { c \in GuardGrid : LET pp == RpSignParams(c[2], c[3], c[4], c[5]) IN
                                  ~pp.ok \/ (pp.mant <= (IF Thorough THEN 8 ELSE 1) /\ (Thorough \/ (c[5] + c[4] + Len(c[2]) + Len(c[3])) % 3 = 0)) }
\* argument ranges
RangeCases == { c \in { << "sign", v, m, e, b, DO >> : v \in { U(10), Ten(18) }, m \in { Zero, U(11) }, e \in { -2, -1, 0, 18, 19, 100, -100 },
                                                        b \in { -1, 0, 1, 64, 65, 1000, -1000 } } : Cheap(c[2], c[3], c[4], c[5], 2) }
\* full-size proofs (32 rings): one in quick (a second one is verified and rewound in the T direction)
BigCases ==
       { << "sign", U64Max, Zero, 0, 0, [DO EXCEPT !.ml = 3968, !.xl = 100] >> }
  \cup (IF Thorough THEN { << "sign", I64Max, Zero, 0, 0, [DO EXCEPT !.ml = 100, !.g = 2] >> } ELSE { })
  \cup { << "sign", U64Max, Zero, 0, 0, [DO EXCEPT !.ml = 3969] >>, << "sign", I64Max, Zero, 0, 0, [DO EXCEPT !.ml = 4000] >>,
         << "sign", U64Max, Zero, 0, 0, [DO EXCEPT !.pl = -2] >>, << "sign", U64Max, Zero, 0, 0, [DO EXCEPT !.pl = 5000] >> }
  \cup (IF Thorough THEN { << "sign", v, m, e, b, DO >> : v \in { Pow2(62), Ten(18), Sub(U64Max, One) }, m \in { Zero }, e \in { 0, 4 }, b \in { 0, 62 } }
                         \cup { << "sign", Pow2(40), U(12345), 3, 20, [DO EXCEPT !.ml = 1000, !.xl = 7, !.g = 3] >>,
                                << "sign", One, Zero, 0, 64, DO >>,
                                << "sign", Add(Pow2(63), U(5)), Zero, 7, 0, [DO EXCEPT !.g = 2] >>,
                                << "sign", I64Max, Zero, 0, 0, [DO EXCEPT !.pl = -3, !.rl = 1000, !.ml = 2000] >>,
                                << "sign", U64Max, Zero, 0, 0, [DO EXCEPT !.pl = -5, !.bl = 2] >> }
        ELSE { })
\* variations on a few small parameter sets
P1 == << U(77), Zero, 0, 0 >>          \* 7 bits: three rings of 4 and one of 2, message capacity 384
P2 == << U(5), U(5), -1, 0 >>          \* exact value, minimum in the header
P2z == << Zero, Zero, -1, 0 >>         \* exact value 0: the smallest proof (65 bytes)
P3 == << One, Zero, 0, 0 >>            \* one ring of 2
P4 == << Two, Zero, 0, 2 >>            \* one ring of 4
P5 == << U(1234), U(34), 2, 0 >>       \* exponent 2, public offset 34, two rings, message capacity 128
Var(p, o) == << "sign", p[1], p[2], p[3], p[4], o >>
OptionCases ==
       { Var(P1, [DO EXCEPT !.ml = l]) : l \in (IF Thorough THEN { 0, 1, 31, 32, 33, 383, 384, 385, 4000 } ELSE { 0, 33, 384, 385, 4000 }) }
  \cup { Var(p, [DO EXCEPT !.ml = l]) : p \in { P2, P3, P4 }, l \in { 0, 1 } }
  \cup { Var(P5, [DO EXCEPT !.ml = l, !.xl = 5]) : l \in { 127, 128, 129 } }
  \cup { Var(p, [DO EXCEPT !.xl = l]) : p \in { P5, P2 }, l \in (IF Thorough THEN { 0, 1, 32, 100 } ELSE { 0, 100 }) }
  \cup { Var(p, [DO EXCEPT !.pl = l]) : p \in { P2, P2z, P3 }, l \in { 0, 1, 64, 65, 66, 73, 96, 97, -2, -3, -4, -5 } }
  \cup { Var(p, [DO EXCEPT !.pl = l]) : p \in { P1, P5 }, l \in (IF Thorough THEN { 0, 64, 65, 97, -2, -3, -4, -5 } ELSE { 0, 64, 65, 97, -2, -3 }) }
  \cup { Var(p, [DO EXCEPT !.bl = s]) : p \in { P2, P3, P4 }, s \in 2..8 }
  \cup { Var(P5, [DO EXCEPT !.bl = s]) : s \in (IF Thorough THEN 2..8 ELSE { 2, 5, 6, 7, 8 }) }
  \cup { Var(P1, [DO EXCEPT !.bl = s]) : s \in (IF Thorough THEN { 2, 4, 5, 8 } ELSE { 5, 8 }) }
  \cup { Var(p, [DO EXCEPT !.no = s]) : p \in { P3, P2 }, s \in { 2, 3 } }
  \cup { Var(P5, [DO EXCEPT !.ml = 100, !.rl = l]) : l \in (IF Thorough THEN { 0, 1, 33, 99, 100, 101, 127, 128, 129 } ELSE { 0, 33, 100, 129 }) }
  \cup { Var(p, [DO EXCEPT !.g = s]) : p \in { P5, P2, P3 }, s \in { 2, 3 } }
  \cup { Var(p, [DO EXCEPT !.cm = 1]) : p \in { P5, P2, P3 } }
MiscCases == { << "genh" >> }
         \cup { << "maxsize", v, b >> : v \in { Zero, One, Two, U(3), U(4), U(255), U(256), Sub(Pow2(32), One), I64Max, Pow2(63), U64Max }, b \in { 0, 1, 2, 3, 8, 9, 63, 64 } }
         \cup { << "commit", v, bl, g >> : v \in { Zero, One, U64Max }, bl \in { Zero, One, Sub(N, One), N, Max256 }, g \in { 1, 2 } }
\* development probes (cfg: Cases <- ProbeCases)
ProbeCases == { Var(P1, DO) }
ProbeNone == { << "genh" >> }
Cases == GridCases \cup GuardCases \cup RangeCases \cup BigCases \cup OptionCases \cup MiscCases

Expand(c) ==
  CASE c[1] = "sign" -> ExpandSign(c[2], c[3], c[4], c[5], c[6])
    [] c[1] = "genh" -> [ e |-> "RpGenH", in |-> [ x |-> 0 ] ]
    [] c[1] = "maxsize" -> [ e |-> "RpMaxSize", in |-> [ maxv |-> U64To8(c[2]), min_bits |-> c[3] ] ]
    [] c[1] = "commit" -> [ e |-> "RpCommit", in |-> [ value |-> U64To8(c[2]), blind |-> NBytes(c[3]), gen |-> GenPool[c[4]] ] ]

-----------------------------------------------------------------------------
VARIABLES phase, cur, rec
vars == << phase, cur, rec >>
Init == phase = "pick" /\ cur = << >> /\ rec = << >>
Pick == phase = "pick" /\ \E c \in Cases : cur' = c /\ phase' = "eval" /\ rec' = << >>
Eval == phase = "eval" /\ LET x == Expand(cur) IN rec' = [ e |-> x.e, in |-> x.in, out |-> Out(x) ]
        /\ phase' = "done" /\ cur' = cur
Next == Pick \/ Eval
InvSign == (phase = "done" /\ rec.e = "RpSign") => SignSound(rec.in, rec.out) /\ SignRefuses(rec.in, rec.out)
Emit == phase = "done" => EmitRecord(rec)

\* (P) two-level fan-out so that TLC's workers share the parameter states
PInit == phase = "p0" /\ cur = << >> /\ rec = << >>
PPick1 == phase = "p0" /\ \E vi \in 1..Len(EdgeU64), mi \in 1..Len(EdgeU64) : cur' = << vi, mi >> /\ phase' = "p1" /\ rec' = << >>
PPick2 == phase = "p1" /\ \E e \in -2..19, b \in -1..65 : cur' = << cur[1], cur[2], e, b >> /\ phase' = "p2"
          /\ rec' = ParamBranch(EdgeU64[cur[1]], EdgeU64[cur[2]], e, b)
PNext == PPick1 \/ PPick2
PInv == phase = "p2" => ParamPost(EdgeU64[cur[1]], EdgeU64[cur[2]], cur[3], cur[4])
\* a sample of the parameter states inside the signer's domain goes to the implementation's static function
PInDomain == Leq(EdgeU64[cur[2]], EdgeU64[cur[1]]) /\ cur[3] >= -1 /\ cur[3] <= 18 /\ cur[4] >= 0 /\ cur[4] <= 64
PSampled == (cur[1] * 7 + cur[2] * 3 + cur[3] * 5 + cur[4]) % (IF Thorough THEN 2 ELSE 9) = 0
PEmit == (phase = "p2" /\ PInDomain /\ PSampled) =>
           LET x == [ e |-> "RpParams", in |-> [ value |-> U64To8(EdgeU64[cur[1]]), min |-> U64To8(EdgeU64[cur[2]]), exp |-> cur[3], min_bits |-> cur[4], br |-> rec ] ]
           IN  EmitRecord([ e |-> x.e, in |-> x.in, out |-> Out(x) ])

TraceEvents == LoadTrace
TInit == phase = "pick" /\ cur = 0 /\ rec = TRUE
TPick == phase = "pick" /\ \E i \in 1..Len(TraceEvents) : cur' = i /\ phase' = "eval" /\ rec' = rec
\* SOFT output: the property promises determinism, verification, range, rewind and size of a created proof -- not THESE bytes.
\* The specification transcribes the prover to be able to predict them (and the generated records carry the prediction), but an
\* implementation whose proof differs is judged by the property's post-condition on ITS bytes: the library's proof verifies
\* under the specification's Verify with the specified range = Info, bounds the value, and is no longer than its buffer and MaxSize
\* (SignVerifies).  Everything else stays hard: ret and refusals, "second creation identical" (same), "nothing written behind the
\* buffer" (guard), maxsz_ok, ranges, Info, and what the IMPLEMENTATION's rewind returns for its own proof (value, blinding factor,
\* zero-padded message with the creator's nonce; failure with another nonce) -- these are specified from the inputs, not from the bytes.
Soft(ev) == IF ev.e = "RpSign" THEN { "proof" } ELSE { }
Post(ev) == ev.e = "RpSign" => SignVerifies(ev.in, ev.out)
Judge(ev) == LET exp == Out(ev) IN
  /\ \A k \in (DOMAIN exp) \ Soft(ev) : k \in DOMAIN ev.out /\ ev.out[k] = exp[k]
  /\ (ev.e = "RpSign" /\ "proof" \in DOMAIN exp) => "proof" \in DOMAIN ev.out
  /\ Post(ev)
TEval == phase = "eval" /\ rec' = Judge(TraceEvents[cur]) /\ phase' = "done" /\ cur' = cur
TNext == TPick \/ TEval
TraceOK == rec = TRUE
=============================================================================
