------------------------------ MODULE StaticCtx ------------------------------
(* Actions (harness operations = public API calls, see harness/ops_*.h) that the specification declares ENABLED on     *)
(* secp256k1_context_static with the same result as on a created context: everything that neither signs nor derives a  *)
(* public key from a secret (include/secp256k1*.h name the static context as excluded only for those).  The engine     *)
(* replays every generated record of these actions a further time on a copy of the static context (VH_STATIC_CTX=1);   *)
(* a call that needs the generator tables, or fires the illegal-argument callback there, disagrees with `out`.          *)
StaticEvents ==
  { "EcdsaVerify", "EcdsaRecover", "EcdsaNormalize", "EcdsaNonceFn", "SchnorrVerify", "SchnorrNonceFn",                         \* C01, C02
    "CompactParse", "DerParse", "DerSerialize", "PubkeyParse", "PubkeySerialize", "RecCompactParse", "XonlyParse", \* C03
    "HsortInts", "PubkeyCmp", "PubkeyCombine", "PubkeySort", "SeckeyRaw", "XonlyTweakCheck",                       \* C04
    "CommitParse", "GenH", "GenParse", "PedBlindGenSum", "PedBlindSum", "PedSvdw", "PedTally",                      \* C08
    "RpGenH", "RpMaxSize", "RpParams",                                                                              \* C09 / C10 (RpVerify also rewinds: not listed)
    "SjInit", "SjParse", "SjVerify",                                                                                \* C11
    "AdaptorVerify", "AdaptorDecrypt",                                                                              \* C14 (recover recomputes a generator multiple)
    "HostCommit", "HostVerify", "S2cOpening", "S2cVerifyCommit",                                                    \* C15
    "WlVerify",                                                                                                     \* C16
    "HalfAggAggregate", "HalfAggInc",                                                                               \* C17 (aggverify demands the generator context: not listed)
    "Ecdh", "EllswiftDecode", "EllswiftXdh",                                                                        \* C18
    "BpppCommit", "BpppGensParse", "BpppProve", "BpppVerify" }                                                      \* C19
=============================================================================
