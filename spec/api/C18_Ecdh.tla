------------------------------- MODULE C18_Ecdh -------------------------------
(***************************************************************************)
(* C18 -- ECDH and ElligatorSwift as a machine of call records.            *)
(* G: Out(ev) is the specified result of Ecdh / EcdhPair / EllswiftDecode  *)
(* / EllswiftXdh calls.  T: Decide(ev) additionally decides events whose   *)
(* output is not a function of the input in the specification (encodings   *)
(* chosen by the library): every encoding must decode to the key.          *)
(***************************************************************************)
EXTENDS Ecdh, EllSwift, CurveParams, Verif

VARIABLES phase, cur, rec
vars == << phase, cur, rec >>

-----------------------------------------------------------------------------
\* specified results (field names = harness record fields)
OutEcdh(i) ==
  LET pk == ParsePub(i.point) IN
  IF ~pk[1] THEN [ pret |-> 0, icb |-> 0 ]
  ELSE LET r == Ecdh(pk[2], i.scalar, i.hash) IN
       IF r[1] = 1 THEN [ pret |-> 1, ret |-> 1, out |-> r[2], icb |-> 0 ] ELSE [ pret |-> 1, ret |-> 0, icb |-> 0 ]

\* both roles of an exchange: each party multiplies the other's public key by its own secret
OutEcdhPair(i) ==
  LET va == ParseSecret(i.a)  vb == ParseSecret(i.b) IN
  IF ~va[1] \/ ~vb[1] THEN [ ca |-> B2I(va[1]), cb |-> B2I(vb[1]), icb |-> 0 ]
  ELSE LET A == PMulG(va[2])  Bp == PMulG(vb[2])
           ra == Ecdh(Bp, i.a, i.hash)  rb == Ecdh(A, i.b, i.hash)
           base == [ ca |-> 1, cb |-> 1, pka |-> Ser33(A), pkb |-> Ser33(Bp), ra |-> ra[1], rb |-> rb[1], icb |-> 0 ]
       IN  IF ra[1] = 1 THEN base @@ [ outa |-> ra[2], outb |-> rb[2] ] ELSE base

OutDecode(i) == [ ret |-> 1, pk |-> Ser33(EsDecode(i.ell)), icb |-> 0 ]

OutXdh(i) ==
  LET r == EsXdh(i.ella, i.ellb, i.key, i.party, i.hash, IF "data" \in DOMAIN i THEN i.data ELSE << >>)
      base == IF r[1] = 1 THEN [ ret |-> 1, out |-> r[2], icb |-> 0 ] ELSE [ ret |-> 0, icb |-> 0 ]
  IN  IF i.hash = 2 THEN base @@ [ cba |-> 1, cbb |-> 1, cbn |-> 1 ] ELSE base      \* the callback sees (ell_a64, ell_b64) as passed, once

Out(ev) == CASE ev.e = "Ecdh"           -> OutEcdh(ev.in)
             [] ev.e = "EcdhPair"       -> OutEcdhPair(ev.in)
             [] ev.e = "EllswiftDecode" -> OutDecode(ev.in)
             [] ev.e = "EllswiftXdh"    -> OutXdh(ev.in)

\* events of the T direction whose encodings are chosen by the library
DecideEncode(i, o) ==
  LET pk == ParsePub(i.pk) IN
  IF ~pk[1] THEN o.pret = 0
  ELSE o.pret = 1 /\ o.ret = 1 /\ o.icb = 0 /\ EsDecode(o.ell) = pk[2]
DecideCreate(i, o) ==
  LET v == ParseSecret(i.key) IN
  IF ~v[1] THEN o.ret = 0 /\ o.icb = 0
  ELSE o.ret = 1 /\ o.icb = 0 /\ EsDecode(o.ell) = PMulG(v[2])
DecideXdhPair(i, o) ==
  LET va == ParseSecret(i.ska)  vb == ParseSecret(i.skb)  data == IF "data" \in DOMAIN i THEN i.data ELSE << >> IN
  /\ o.ca = B2I(va[1]) /\ o.cb = B2I(vb[1]) /\ o.icb = 0
  /\ (va[1] => EsDecode(o.ella) = PMulG(va[2]))
  /\ (vb[1] => EsDecode(o.ellb) = PMulG(vb[2]))
  /\ (va[1] /\ vb[1]) =>
       LET ra == EsXdh(o.ella, o.ellb, i.ska, 0, i.hash, data)  rb == EsXdh(o.ella, o.ellb, i.skb, 1, i.hash, data) IN
       /\ o.ra = ra[1] /\ o.rb = rb[1]
       /\ (ra[1] = 1 => (o.outa = ra[2] /\ o.outb = rb[2] /\ o.outa = o.outb))
Decide(ev) == CASE ev.e = "EllswiftEncode"  -> DecideEncode(ev.in, ev.out)
                [] ev.e = "EllswiftCreate"  -> DecideCreate(ev.in, ev.out)
                [] ev.e = "EllswiftXdhPair" -> DecideXdhPair(ev.in, ev.out)
                [] OTHER -> SubRec(Out(ev), ev.out)

-----------------------------------------------------------------------------
NBytes(x) == ToBytesBE(x, 32)
Max256 == Sub(Pow2(256), One)
Thorough == EnvNat("VERIF_THOROUGH") = 1
NN == ToNat(N)               \* only meaningful in the small groups

\* field-element encodings at the boundaries of the 32-byte range
FePool == << Zero, One, Sub(P, One), P, Add(P, One), Max256, Two, Sub(P, Two), Add(P, Two) >>
\* cube roots of unity times -2: with t = 0 (remapped to 1) these u give g(u) = -1 = -t'^2, the double remap
EsOmega == FMul(FSub(EsC0, One), EsHalf)
UPool == << Zero, One, Two, Three, Sub(P, One), Sub(P, Two), FNeg(FMul(Two, EsOmega)), FNeg(FMul(Two, FSqr(EsOmega))),
            << 5 >>, << 6 >>, << 7 >>, << 8 >>, << 9 >>, << 10 >>, << 11 >>, << 12 >>, Mod(FromBytesBE(Rnd32(31)), P), Mod(FromBytesBE(Rnd32(32)), P),
            Mod(FromBytesBE(Rnd32(33)), P), Mod(FromBytesBE(Rnd32(34)), P) >>
\* x coordinates to encode: small ones, the generator's, seeded random ones
LiftableFrom(x0) == CHOOSE x \in x0..(x0 + 40) : LiftX(FromNat(x))[1] /\ \A y \in x0..(x - 1) : ~LiftX(FromNat(y))[1]
RndLift(i) == LET x == Mod(FromBytesBE(Rnd32(i)), P) IN IF LiftX(x)[1] THEN x ELSE
              LET x2 == Mod(FromBytesBE(Rnd32(i + 1000)), P) IN IF LiftX(x2)[1] THEN x2 ELSE G[1]
XPool == << FromNat(LiftableFrom(1)), FromNat(LiftableFrom(LiftableFrom(1) + 1)), G[1], RndLift(41), RndLift(42), RndLift(43) >>
SecretPool == << Zero, One, Two, Sub(N, One), N, Add(N, One), Max256, HalfN, Add(HalfN, One), Pow2(128), Sub(P, One), P,
                 FromBytesBE(Rnd32(51)), FromBytesBE(Rnd32(52)) >>
PointPool == << Ser33(G), Ser65(G), Ser33(PNeg(G)), Ser33(PMulG(Three)), Ser33(LiftX(FromNat(LiftableFrom(1)))[2]),
                Ser33(LiftXOdd(RndLift(44), TRUE)[2]), Ser65(LiftX(RndLift(45))[2]), << 6 >> \o SubSeq(Ser65(LiftX(RndLift(45))[2]), 2, 65),
                << 2 >> \o NBytes(P), << 2 >> \o NBytes(<< 5 >>), Zeros(33) >>
Prefix64 == Rnd32(61) \o Rnd32(62)
GoodKeys == << One, Two, Sub(N, One), HalfN, Mod(FromBytesBE(Rnd32(53)), N), Mod(FromBytesBE(Rnd32(54)), N) >>

Ell(u, t) == NBytes(u) \o NBytes(t)
DE(ell) == [ e |-> "EllswiftDecode", in |-> [ ell |-> ell ] ]
XD(ea, eb, key, party, hash) ==
  [ e |-> "EllswiftXdh", in |-> IF hash = 1 THEN [ ella |-> ea, ellb |-> eb, key |-> key, party |-> party, hash |-> hash, data |-> Prefix64 ]
                                ELSE [ ella |-> ea, ellb |-> eb, key |-> key, party |-> party, hash |-> hash ] ]

\* t with g(u') + t^2 = 0 for the (remapped) u', when it exists
SumFamilyT(u) == LET u1 == IF IsZero(Mod(u, P)) THEN One ELSE Mod(u, P)  m == FNeg(EsG(u1)) IN
                 IF IsSquare(m) THEN << TRUE, EsSqrt(m) >> ELSE << FALSE, Zero >>
Fits(x) == Lt(x, Pow2(256))
\* exceptional encodings used as the peer's key in XDH (the x-only ladder on remapped points)
ExcEll == << Ell(Zero, Zero), Ell(Zero, One), Ell(One, Zero), Ell(P, P), Ell(Max256, Max256), Ell(Sub(P, Two), Zero),
             LET s == SumFamilyT(Two) IN Ell(Two, IF s[1] THEN s[2] ELSE One),
             LET s == SumFamilyT(Three) IN Ell(Three, IF s[1] THEN s[2] ELSE One),
             LET s == SumFamilyT(<< 5 >>) IN Ell(<< 5 >>, IF s[1] THEN s[2] ELSE One),
             LET s == SumFamilyT(<< 6 >>) IN Ell(<< 6 >>, IF s[1] THEN FNeg(s[2]) ELSE One),
             Rnd32(63) \o Rnd32(64), Rnd32(65) \o Rnd32(66) >>

CasesAt(ph) ==
       { << "dec", ui, ti >> : ui \in 1..Len(FePool), ti \in 1..Len(FePool) }
  \cup { << "decsum", ui, v >> : ui \in 1..Len(UPool), v \in 1..6 }
  \cup { << "decrnd", i >> : i \in 1..(IF Thorough THEN 2000 ELSE 150) }
  \cup { d \in { << "decinv", xi, ui, c, neg >> : xi \in 1..Len(XPool), ui \in 2..Len(UPool), c \in 0..7, neg \in { 0, 1 } } :
             Thorough \/ d[3] % 3 = d[2] % 3 }
  \cup { << "ecdh", si, pi, h >> : si \in 1..Len(SecretPool), pi \in { 1, 6 }, h \in { 0, 3 } }
  \cup { << "ecdh", si, pi, h >> : si \in { 2, 5, 13 }, pi \in 1..Len(PointPool), h \in 0..4 }
  \cup { << "ecdh", si, pi, h >> : si \in { s \in 1..Len(SecretPool) : Thorough }, pi \in 1..Len(PointPool), h \in 0..4 }
  \cup { << "ecdhpair", ai, bi, h >> : ai \in { 1, 3, 5 }, bi \in { 2, 4, 6 }, h \in { 0 } }
  \cup { << "ecdhpair", ai, bi, h >> : ai \in { 1, 2, 5 }, bi \in { 1, 6 }, h \in { 3 } }
  \cup { << "ecdhbad", si, h >> : si \in { 1, 5, 7 }, h \in { 0, 4 } }
  \cup { << "xdhexc", ei, ki, party, h >> : ei \in 1..Len(ExcEll), ki \in { 2, 5 }, party \in { 0, 1 }, h \in { 0, 2 } }
  \cup { << "xdhsec", si, party, h >> : si \in 1..Len(SecretPool), party \in { 0, 1, 2, 3, 256, 65536 }, h \in 0..3 }   \* any non-zero party value selects role B
  \cup { << "xdhpair", ai, bi, ui, role, h >> : ai \in { 1, 3, 5 }, bi \in { 2, 4, 6 }, ui \in (IF Thorough THEN 1..4 ELSE { 1 }), role \in 0..3, h \in { 0, 1 } }
Cases == CasesAt(phase)

\* an encoding of Q made by the specification: the first seeded u (a given u has a preimage with probability 7/16)
SeedU(seed, j) == Mod(FromBytesBE(Rnd32(100 * seed + j)), P)
RECURSIVE EncodeFromJ(_, _, _)
EncodeFromJ(Q, seed, j) == LET r == EsEncodeWith(Q, SeedU(seed, j)) IN IF r[1] \/ j >= 60 THEN r[2] ELSE EncodeFromJ(Q, seed, j + 1)
EncodeFrom(Q, seed) == EncodeFromJ(Q, seed, 0)

ExpandDecSum(ui, v) ==
  LET u == UPool[ui]  s == SumFamilyT(u)  t == s[2]  tn == FNeg(t) IN
  IF ~s[1] THEN DE(Ell(u, Two))
  ELSE CASE v = 1 -> DE(Ell(u, t))
         [] v = 2 -> DE(Ell(u, tn))
         [] v = 3 -> DE(IF Fits(Add(t, P)) THEN Ell(u, Add(t, P)) ELSE Ell(IF Fits(Add(u, P)) THEN Add(u, P) ELSE u, tn))
         [] v = 4 -> DE(Ell(IF Fits(Add(u, P)) THEN Add(u, P) ELSE u, t))
         [] v = 5 -> DE(Ell(u, FMul(Two, t)))              \* where the remap lands
         [] v = 6 -> DE(Ell(u, FAdd(t, One)))              \* a neighbour that is not exceptional

ExpandDecInv(xi, ui, c, neg) ==
  LET x == XPool[xi]  u == UPool[ui]  r == XSwiftECInv(x, u, c) IN
  IF ~r[1] THEN DE(Ell(u, FromNat(c + 2)))
  ELSE [ e |-> "EllswiftDecode", in |-> [ ell |-> Ell(u, IF neg = 1 THEN FNeg(r[2]) ELSE r[2]), wantx |-> NBytes(x) ] ]

ExpandXdhPair(ai, bi, ui, role, h) ==
  LET a == GoodKeys[ai]  b == GoodKeys[bi]
      ea == EncodeFrom(PMulG(a), ui)  eb == EncodeFrom(PMulG(b), ui + 1) IN
  CASE role = 0 -> LET x == XD(ea, eb, NBytes(a), 0, h) IN [ e |-> x.e, in |-> x.in @@ [ peerkey |-> NBytes(b) ] ]   \* peerkey: for InvXdhAgree only
    [] role = 1 -> XD(ea, eb, NBytes(b), 1, h)
    [] role = 2 -> XD(ea, eb, NBytes(a), 1, h)            \* wrong role: a * A
    [] role = 3 -> XD(eb, ea, NBytes(a), 0, h)            \* encodings passed in the other order: a * A, other hash input

Expand(c) ==
  CASE c[1] = "dec"      -> DE(Ell(FePool[c[2]], FePool[c[3]]))
    [] c[1] = "decsum"   -> ExpandDecSum(c[2], c[3])
    [] c[1] = "decrnd"   -> DE(Rnd32(2000 + 2 * c[2]) \o Rnd32(2001 + 2 * c[2]))
    [] c[1] = "decinv"   -> ExpandDecInv(c[2], c[3], c[4], c[5])
    [] c[1] = "ecdh"     -> [ e |-> "Ecdh", in |-> [ point |-> PointPool[c[3]], scalar |-> NBytes(SecretPool[c[2]]), hash |-> c[4] ] ]
    [] c[1] = "ecdhpair" -> [ e |-> "EcdhPair", in |-> [ a |-> NBytes(GoodKeys[c[2]]), b |-> NBytes(GoodKeys[c[3]]), hash |-> c[4] ] ]
    [] c[1] = "ecdhbad"  -> [ e |-> "EcdhPair", in |-> [ a |-> NBytes(SecretPool[c[2]]), b |-> NBytes(One), hash |-> c[3] ] ]
    [] c[1] = "xdhexc"   -> LET me == Rnd32(67) \o Rnd32(68) IN
                            IF c[4] = 0 THEN XD(me, ExcEll[c[2]], NBytes(SecretPool[c[3]]), 0, c[5])
                                        ELSE XD(ExcEll[c[2]], me, NBytes(SecretPool[c[3]]), 1, c[5])
    [] c[1] = "xdhsec"   -> XD(Rnd32(69) \o Rnd32(70), Rnd32(71) \o Rnd32(72), NBytes(SecretPool[c[2]]), c[3], c[4])
    [] c[1] = "xdhpair"  -> ExpandXdhPair(c[2], c[3], c[4], c[5], c[6])
    [] OTHER -> [ e |-> "Ecdh", in |-> [ point |-> c[2], scalar |-> c[3], hash |-> c[4] ] ]     \* small groups: literal arguments

-----------------------------------------------------------------------------
\* X: ECDH in the small groups, every point of the subgroup, every scalar encoding
TinyScalars == { NBytes(FromNat(x)) : x \in 0..(NN + 2) } \cup { NBytes(Max256) }
TinyPoints == { Ser33(PMulG(FromNat(j))) : j \in 1..(NN - 1) }
TinyFew == IF NN <= 13 THEN 1..(NN - 1) ELSE { 1, 2, NN \div 2, NN - 2, NN - 1 }
TinyCasesAt(ph) ==
       { << "t", pt, sc, h >> : pt \in (IF NN <= 13 THEN TinyPoints ELSE { Ser33(PMulG(FromNat(j))) : j \in TinyFew }), sc \in TinyScalars, h \in { 0, 3, 4 } }
  \cup { << "t", pt, sc, h >> : pt \in { Ser33(PMulG(FromNat(j))) : j \in { 1, NN - 1 } }, sc \in { NBytes(FromNat(x)) : x \in { 0, 1, NN - 1, NN } }, h \in { 1, 2 } }
  \cup { << "ecdhtpair", a, b >> : a \in TinyFew, b \in TinyFew }
TinyCases == TinyCasesAt(phase)
ExpandAny(c) == IF c[1] = "ecdhtpair" THEN [ e |-> "EcdhPair", in |-> [ a |-> NBytes(FromNat(c[2])), b |-> NBytes(FromNat(c[3])), hash |-> 3 ] ]
                ELSE Expand(c)

-----------------------------------------------------------------------------
Init == phase = "pick" /\ cur = << >> /\ rec = << >>
Pick == phase = "pick" /\ \E c \in Cases : cur' = c /\ phase' = "eval" /\ rec' = << >>
Eval == phase = "eval" /\ LET x == ExpandAny(cur) IN rec' = [ e |-> x.e, in |-> x.in, out |-> Out(x) ]
        /\ phase' = "done" /\ cur' = cur
Next == Pick \/ Eval
Emit == phase = "done" => EmitRecord(rec)

\* design-level invariants, evaluated on every generated record
\* every (u, t) decodes to a point of the curve, with x = XSwiftEC(u, t) and the parity of y that of t
InvDecodeOnCurve == (phase = "done" /\ rec.e = "EllswiftDecode") =>
                      LET Q == EsDecode(rec.in.ell) IN
                      /\ IsOnCurve(Q) /\ ~IsInf(Q) /\ rec.out.pk = Ser33(Q)
                      /\ IsOdd(Q[2]) = IsOdd(EsT(rec.in.ell))
\* results of the inverse map back (the record was built from XSwiftECInv(x, u, c))
InvInverseMapsBack == (phase = "done" /\ rec.e = "EllswiftDecode" /\ "wantx" \in DOMAIN rec.in) =>
                        SubSeq(rec.out.pk, 2, 33) = rec.in.wantx
\* both roles of an ECDH exchange agree
InvEcdhAgree == (phase = "done" /\ rec.e = "EcdhPair" /\ "outa" \in DOMAIN rec.out) => rec.out.outa = rec.out.outb
\* an invalid secret or a failing callback is the only reason to fail
InvEcdhFail == (phase = "done" /\ rec.e = "Ecdh" /\ rec.out.pret = 1) =>
                 (rec.out.ret = 0 <=> (~ValidSecret(FromBytesBE(rec.in.scalar)) \/ rec.in.hash = 4))
InvXdhFail == (phase = "done" /\ rec.e = "EllswiftXdh") =>
                 (rec.out.ret = 0 <=> (~ValidSecret(FromBytesBE(rec.in.key)) \/ rec.in.hash = 3))
\* both roles of an ElligatorSwift exchange derive the same secret (records built from a pair of keys carry the peer's key)
InvXdhAgree == (phase = "done" /\ rec.e = "EllswiftXdh" /\ "peerkey" \in DOMAIN rec.in /\ rec.out.ret = 1) =>
                 EsXdh(rec.in.ella, rec.in.ellb, rec.in.peerkey, 1 - rec.in.party, rec.in.hash,
                       IF "data" \in DOMAIN rec.in THEN rec.in.data ELSE << >>) = << 1, rec.out.out >>
InvConst == EsC0Ok

\* the algebra of the inverse on a grid of (x, u) (own model, cfg C18_model.cfg): every successful branch maps back,
\* no two branches give the same t, no branch returns t = 0 or a t of the exceptional family, and -- conversely --
\* for a non-exceptional (u, t) some branch returns exactly t
AlgGridAt(ph) == { << "inv", xi, ui >> : xi \in 1..Len(XPool), ui \in 1..Len(UPool) } \cup { << "fwd", i >> : i \in 1..(IF Thorough THEN 400 ELSE 60) }
AlgGrid == AlgGridAt(phase)
AlgHolds(c) ==
  IF c[1] = "fwd"
  THEN LET u == Mod(FromBytesBE(Rnd32(3000 + 2 * c[2])), P)  t == Mod(FromBytesBE(Rnd32(3001 + 2 * c[2])), P)  x == XSwiftEC(u, t) IN
       /\ EsIsX(x)
       /\ (IsZero(u) \/ IsZero(t) \/ IsZero(FAdd(EsG(u), FSqr(t)))) \/ \E b \in 0..7 : XSwiftECInv(x, u, b) = << TRUE, t >>
       /\ XSwiftEC(u, FNeg(t)) = x
  ELSE LET x == XPool[c[2]]  u == UPool[c[3]]
           res == [b \in 0..7 |-> XSwiftECInv(x, u, b)] IN
       /\ \A b \in 0..7 : res[b][1] => /\ XSwiftEC(u, res[b][2]) = x
                                       /\ ~IsZero(res[b][2])
                                       /\ ~IsZero(FAdd(EsG(u), FSqr(res[b][2])))
       /\ \A b1, b2 \in 0..7 : (b1 # b2 /\ res[b1][1] /\ res[b2][1]) => res[b1][2] # res[b2][2]
       /\ (IsZero(u) => \A b \in 0..7 : ~res[b][1])
MInit == phase = "mpick" /\ cur = << >> /\ rec = TRUE
MPick == phase = "mpick" /\ \E c \in AlgGrid : cur' = c /\ phase' = "meval" /\ rec' = rec
MEval == phase = "meval" /\ rec' = AlgHolds(cur) /\ phase' = "mdone" /\ cur' = cur
MNext == MPick \/ MEval
MInv == (phase = "mdone" => rec = TRUE) /\ EsC0Ok
\* the design model and the generator in one TLC run (two initial states, disjoint phases)
AInit == Init \/ MInit
ANext == Next \/ MNext

-----------------------------------------------------------------------------
TraceEvents == LoadTrace
TInit == phase = "pick" /\ cur = 0 /\ rec = TRUE
TPick == phase = "pick" /\ \E i \in 1..Len(TraceEvents) : cur' = i /\ phase' = "eval" /\ rec' = rec
TEval == phase = "eval" /\ rec' = Decide(TraceEvents[cur]) /\ phase' = "done" /\ cur' = cur
TNext == TPick \/ TEval
TraceOK == rec = TRUE
=============================================================================
