------------------------------- MODULE C01_Ecdsa -------------------------------
(***************************************************************************)
(* C01 -- the ECDSA API as a machine of call records.  Out*(in) is the     *)
(* specified observable result of each public call; Cases is the generated *)
(* input space (boundary constructions done with BigNat algebra here, in   *)
(* the specification).  The machine picks a case (cheap), then evaluates   *)
(* it (expensive; separate action so that TLC's workers share the load).   *)
(***************************************************************************)
EXTENDS Ecdsa, CurveParams, Verif

-----------------------------------------------------------------------------
\* specified results of the API calls (field names = harness record fields)
OutVerify(i) ==
  LET so == SigObj(i.sig)  pk == ParsePub(i.pk) IN
  [ pret |-> B2I(so[1]), kret |-> B2I(pk[1]), icb |-> 0,
    ret  |-> B2I(pk[1] /\ VerifyEq(so[2][1], so[2][2], i.msg, pk[2])) ]

SignSrc(i) == IF i.nf = 2 THEN << "seq", i.nonces >>
              ELSE IF i.nf = 3 THEN << "rfcskip", i.key, IF "extra" \in DOMAIN i THEN i.extra ELSE << >>, i.skip >>
              ELSE << "rfc", i.key, IF "extra" \in DOMAIN i THEN i.extra ELSE << >> >>
OutSign(i) ==
  LET a == SignGeneric(i.key, i.msg, SignSrc(i))
      base == [ ret |-> a[1], sig |-> SigBytes(a[2]), icb |-> 0 ]
  IN  IF i.rec = 1 THEN base @@ [ recid |-> a[3] ] ELSE base

\* the exported nonce function called directly: secp256k1_nonce_function_rfc6979 / _default (nonce32, msg32, key32, algo16,
\* data, attempt) returns 1 and the (attempt+1)-th output of the RFC 6979 generator; different attempts give different nonces
OutNonceFn(i) ==
  [ ret |-> 1, icb |-> 0,
    nonce |-> Nonce6979(i.key, i.msg, IF "extra" \in DOMAIN i THEN i.extra ELSE << >>, IF "algo" \in DOMAIN i THEN i.algo ELSE << >>, i.attempt) ]

OutNormalize(i) ==
  LET so == SigObj(i.sig)  nm == Normalize(so[2]) IN
  [ pret |-> B2I(so[1]), ret |-> nm[1], sig |-> SigBytes(nm[2]), icb |-> 0 ]

OutRecover(i) ==
  LET so == SigObj(i.sig)  rc == Recover(so[2], i.recid, i.msg)
      base == [ pret |-> B2I(so[1]), ret |-> B2I(rc[1]), conv |-> SigBytes(so[2]), icb |-> 0 ]
  IN  IF rc[1] THEN base @@ [ pk |-> Ser33(rc[2]) ] ELSE base @@ [ pkzero |-> 1 ]

Out(ev) == CASE ev.e = "EcdsaVerify"    -> OutVerify(ev.in)
             [] ev.e = "EcdsaSign"      -> OutSign(ev.in)
             [] ev.e = "EcdsaNormalize" -> OutNormalize(ev.in)
             [] ev.e = "EcdsaNonceFn"   -> OutNonceFn(ev.in)
             [] ev.e = "EcdsaRecover"   -> OutRecover(ev.in)

-----------------------------------------------------------------------------
\* design-level theorems, evaluated on every generated record (model invariants)
\* a signature the specification produces verifies, is low-S, and recovers the signer's key
SignSound(i, o) ==
  o.ret = 1 =>
    LET so == SigObj(o.sig)  d == FromBytesBE(i.key)  Q == PMulG(d) IN
    /\ so[1] /\ ~IsHigh(so[2][2])
    /\ VerifyEq(so[2][1], so[2][2], i.msg, Q)
    /\ (i.rec = 1 => Recover(so[2], o.recid, i.msg) = << TRUE, Q >>)
SignFailZero(i, o) == o.ret = 0 => AllZero(o.sig) /\ (i.rec = 1 => o.recid = 0)
SignTotal(i, o) == (ParseSecret(i.key)[1] /\ i.nf # 2) => o.ret = 1

-----------------------------------------------------------------------------
\* generated input space
NBytes(x) == ToBytesBE(x, 32)
TwoTo(k) == Pow2(k)
Max256 == Sub(TwoTo(256), One)
KeyPool == { Zero, One, Two, HalfN, Add(HalfN, One), Sub(N, Two), Sub(N, One), N, Add(N, One),
             Sub(P, One), Max256, TwoTo(128), FromBytesBE(Rnd32(1)), FromBytesBE(Rnd32(2)) }
MsgPool == { Zero, One, Sub(N, One), N, Add(N, One), Add(N, FromNat(77)), Max256, TwoTo(255),
             FromBytesBE(Rnd32(3)), FromBytesBE(Rnd32(4)) }
ValidKeys == { d \in KeyPool : ValidSecret(d) }
SmallKeys == { One, Two, Sub(N, One), FromBytesBE(Rnd32(1)) } \cap ValidKeys
NoncePool == { One, Two, FromNat(3), Sub(N, One), HalfN, Mod(FromBytesBE(Rnd32(5)), N) } \ { Zero }

\* Cases are cheap descriptors; Expand(c) builds the call record (the expensive constructions --
\* solving for messages and public keys -- happen in the Eval action, shared by TLC's workers).
ExtraPool == << Zeros(32), Rnd32(6), Rep(255, 32), Rep(8, 32), << 128, 128 >> \o Zeros(30), Zeros(31) \o << 1 >> >>
NonceSeqs == << << >>, << Zeros(32) >>, << Zeros(32), NBytes(Two) >>,
                << NBytes(N), NBytes(Max256), NBytes(Sub(N, One)) >>, << NBytes(HalfN) >>, << Rnd32(7) >> >>
SPool == { One, Two, Sub(HalfN, One), HalfN, Add(HalfN, One), Add(HalfN, Two), Sub(N, One), FromBytesBE(SubSeq(Rnd32(8), 1, 16)) }
WrapJs == 1..60

Cases ==
       { << "sign", d, m, nf, rc >> : d \in KeyPool, m \in MsgPool, nf \in {0, 1}, rc \in {0, 1} }
  \cup { << "signx", d, m, rc, x >> : d \in SmallKeys \cup {Zero, N}, m \in {Zero, N, Max256, FromBytesBE(Rnd32(3))},
                                      rc \in {0, 1}, x \in 1..6 }
  \cup { << "signseq", d, m, ns >> : d \in SmallKeys \cup {Zero, Max256}, m \in {Zero, Add(N, One), FromBytesBE(Rnd32(4))}, ns \in 1..6 }
  \cup { << "signskip", d, m, x, skip, rc >> : d \in SmallKeys, m \in {Zero, Add(N, One), FromBytesBE(Rnd32(4))}, x \in 0..1, skip \in 1..3, rc \in {0, 1} }
  \cup { << "noncefn", d, m, x, a, att, which >> : d \in {One, FromBytesBE(Rnd32(1))}, m \in {Zero, Add(N, One), FromBytesBE(Rnd32(4))}, x \in 0..1, a \in 0..1,
                                                   att \in 0..4, which \in 0..1 }
  \cup { << "forge", d, k, s, 0 >> : d \in SmallKeys, k \in NoncePool, s \in SPool }
  \cup { << "forge", d, k, s, mut >> : d \in SmallKeys, k \in { One, HalfN }, s \in { One, HalfN, Add(HalfN, One) }, mut \in 1..10 }
  \cup { << "forge", d, k, s, 11 >> : d \in SmallKeys, k \in NoncePool \cup { FromNat(j) : j \in 4..40 }, s \in { One, HalfN } }
  \cup { << "wrap", j, odd, s, m, v >> : j \in WrapJs, odd \in BOOLEAN, s \in { One, HalfN }, m \in { Zero, FromBytesBE(Rnd32(9)) }, v \in 1..4 }
  \cup { << "recover", d, k, s, rid >> : d \in SmallKeys, k \in { One, Sub(N, One), Mod(FromBytesBE(Rnd32(5)), N) },
                                         s \in { One, HalfN, Sub(N, One) }, rid \in 0..3 }
  \cup { << "recraw", r, s, rid >> : r \in { Zero, One, Sub(Sub(P, N), One), Sub(P, N), N }, s \in { Zero, One, N }, rid \in 0..3 }
  \cup { << "norm", r, s >> : r \in { Zero, One, N, Max256 }, s \in { Zero, One, HalfN, Add(HalfN, One), Sub(N, One), N, Max256 } }

\* signatures with chosen (d, k) and a message solved for a chosen s:  m = s*k - r*d
Forge(d, k, s) ==
  LET R == PMulG(k)  r == Mod(R[1], N)
      m == SSub(SMul(s, k), SMul(r, d))
  IN  [ sig |-> NBytes(r) \o NBytes(s), msg |-> NBytes(m), pk |-> Ser33(PMulG(d)), r |-> r, m |-> m ]
Fits(x) == Lt(x, TwoTo(256))
V(sig, msg, pk) == [ e |-> "EcdsaVerify", in |-> [ sig |-> sig, msg |-> msg, pk |-> pk ] ]

ExpandForge(d, k, s, mut) ==
  LET f == Forge(d, k, s)  mm == Add(f.m, N)  rr == Add(f.r, N) IN
  CASE mut = 0 -> V(f.sig, f.msg, f.pk)
    [] mut = 1 -> V(f.sig, IF Fits(mm) THEN NBytes(mm) ELSE f.msg, f.pk)          \* message >= n
    [] mut = 2 -> V(f.sig, f.msg, Ser65(PMulG(IF SAdd(d, One) = Zero THEN Two ELSE SAdd(d, One))))  \* other key
    [] mut = 3 -> V(f.sig, f.msg, Ser65(PMulG(d)))                               \* same key, uncompressed
    [] mut = 4 -> V(NBytes(Zero) \o NBytes(s), f.msg, f.pk)
    [] mut = 5 -> V(NBytes(f.r) \o NBytes(Zero), f.msg, f.pk)
    [] mut = 6 -> V(NBytes(f.r) \o NBytes(SNeg(s)), f.msg, f.pk)                  \* high-S twin
    [] mut = 7 -> V((IF Fits(rr) THEN NBytes(rr) ELSE NBytes(f.r)) \o NBytes(s), f.msg, f.pk)  \* r + n: parser rejects
    [] mut = 8 -> V(NBytes(Sub(N, One)) \o NBytes(s), f.msg, f.pk)
    [] mut = 9 -> V(FlipBit(f.sig, ToNat(Mod(f.m, FromNat(512)))), f.msg, f.pk)
    [] mut = 10 -> V(f.sig, FlipBit(f.msg, ToNat(Mod(f.r, FromNat(256)))), f.pk)
    [] mut = 11 ->  \* r' = X(R) + (p - n) (mod-p wrapped twin of x): consistent with R through m' = s*k - r'*d, must be rejected
         LET R == PMulG(k)  rw == Add(R[1], Sub(P, N))
             m2 == SSub(SMul(s, k), SMul(Mod(rw, N), d)) IN
         IF Lt(rw, N) THEN V(NBytes(rw) \o NBytes(s), NBytes(m2), f.pk) ELSE V(f.sig, f.msg, f.pk)

\* the r + n < p family: R with x(R) in [n, p).  x = n + j on the curve, choose s and m, and solve
\* for the public key  Q = (s/r)(R - (m/s)G)  -- no discrete logarithm needed.
ExpandWrap(j, odd, s, m, v) ==
  LET x == Add(N, FromNat(j))  l == LiftXOdd(x, odd)  r == FromNat(j) IN
  IF ~l[1] THEN [ e |-> "EcdsaNormalize", in |-> [ sig |-> NBytes(r) \o NBytes(s) ] ]
  ELSE LET R == l[2]
           Q == PMul(SMul(s, SInv(r)), PSub(R, PMulG(SMul(m, SInv(s)))))
           sig == NBytes(r) \o NBytes(s)
       IN  IF IsInf(Q) THEN [ e |-> "EcdsaNormalize", in |-> [ sig |-> sig ] ]
           ELSE CASE v = 1 -> V(sig, NBytes(m), Ser33(Q))
                  [] v = 2 -> V(sig, NBytes(SAdd(m, One)), Ser33(Q))
                  [] v = 3 -> [ e |-> "EcdsaRecover", in |-> [ sig |-> sig, msg |-> NBytes(m), recid |-> 2 + B2I(odd) ] ]
                  [] v = 4 -> [ e |-> "EcdsaRecover", in |-> [ sig |-> sig, msg |-> NBytes(m), recid |-> B2I(odd) ] ]

\* X: the order-7/13/199 test groups -- the input space is enumerated completely
\* (cfg: Cases <- TinyCases, curve constants <- Tiny*).  Scalars are given as 32-byte encodings,
\* including the overflow encodings N, N+1, N+2 and 2^256-1.
NN == ToNat(N)
TinyScalars == { FromNat(x) : x \in 0..(NN + 2) } \cup { Max256 }
\* complete for the order-7 and order-13 groups; for order 199 the product is sampled on two axes (every r, every nonce)
TinyBig == NN > 20
Sample(k) == IF TinyBig THEN { x \in 0..(NN-1) : x % k = 0 \/ x < 3 \/ x > NN - 4 } ELSE 0..(NN-1)
TinyCases == IF ~TinyBig THEN
       { << "tsign", d, m, k >> : d \in TinyScalars, m \in TinyScalars, k \in { FromNat(x) : x \in 0..NN } }
  \cup { << "tverify", r, s, m, d >> : r \in 0..(NN-1), s \in 0..(NN-1), m \in 0..(NN-1), d \in 1..(NN-1) }
  \cup { << "trecover", r, s, m, rid >> : r \in 0..(NN-1), s \in 0..(NN-1), m \in 0..(NN-1), rid \in {0, 1} }
 ELSE
       { << "tsign", FromNat(d), FromNat(m), k >> : d \in Sample(37) \cup {NN, NN+1}, m \in Sample(67) \cup {NN, NN+2}, k \in { FromNat(x) : x \in 0..NN } }
  \cup { << "tverify", r, s, m, d >> : r \in 0..(NN-1), s \in Sample(23), m \in {0, 1, NN - 1}, d \in {1, 77, NN - 1} }
  \cup { << "trecover", r, s, m, rid >> : r \in 0..(NN-1), s \in {1, 2, NN - 1}, m \in {0, 5}, rid \in {0, 1} }
ExpandTiny(c) ==
  CASE c[1] = "tsign" -> [ e |-> "EcdsaSign", in |-> [ key |-> NBytes(c[2]), msg |-> NBytes(c[3]), nf |-> 2, rec |-> 0,
                                                      nonces |-> << NBytes(Zero), NBytes(c[4]) >> ] ]
    [] c[1] = "tverify" -> V(NBytes(FromNat(c[2])) \o NBytes(FromNat(c[3])), NBytes(FromNat(c[4])), Ser33(PMulG(FromNat(c[5]))))
    [] c[1] = "trecover" ->  \* only x coordinates that lift into the subgroup (the tiny curves have cofactors)
         LET l == LiftX(FromNat(c[2]))  sig == NBytes(FromNat(c[2])) \o NBytes(FromNat(c[3])) IN
         IF l[1] /\ ~IsInf(PMul(N, l[2])) THEN [ e |-> "EcdsaNormalize", in |-> [ sig |-> sig ] ]
         ELSE [ e |-> "EcdsaRecover", in |-> [ sig |-> sig, msg |-> NBytes(FromNat(c[4])), recid |-> c[5] ] ]
\* design-level theorem checked in the tiny groups: verification accepts (r,s) for (m,Q) iff some nonce k
\* yields that signature -- i.e. Verify is exactly "producible by the signing equation"
TinyVerifyExact(i, o) ==
  LET so == SigObj(i.sig)  Q == ParsePub(i.pk)[2]  r == so[2][1]  s == so[2][2]  m == MsgScalar(i.msg) IN
  (o.ret = 1) <=>
     /\ ~IsZero(r) /\ ~IsZero(s) /\ ~IsHigh(s)
     /\ \E k \in 1..(NN-1) : LET R == PMulG(FromNat(k)) IN
           /\ Mod(R[1], N) = r
           /\ PMul(s, R) = PAdd(PMulG(m), PMul(r, Q))

Expand(c) ==
  CASE c[1] = "sign"    -> [ e |-> "EcdsaSign", in |-> [ key |-> NBytes(c[2]), msg |-> NBytes(c[3]), nf |-> c[4], rec |-> c[5] ] ]
    [] c[1] = "signx"   -> [ e |-> "EcdsaSign", in |-> [ key |-> NBytes(c[2]), msg |-> NBytes(c[3]), nf |-> 0, rec |-> c[4], extra |-> ExtraPool[c[5]] ] ]
    [] c[1] = "signseq" -> [ e |-> "EcdsaSign", in |-> [ key |-> NBytes(c[2]), msg |-> NBytes(c[3]), nf |-> 2, rec |-> 1, nonces |-> NonceSeqs[c[4]] ] ]
    [] c[1] = "signskip" -> [ e |-> "EcdsaSign", in |-> [ key |-> NBytes(c[2]), msg |-> NBytes(c[3]), nf |-> 3, rec |-> c[6], skip |-> c[5] ]
                                                         @@ (IF c[4] = 1 THEN [ extra |-> ExtraPool[2] ] ELSE << >>) ]
    [] c[1] = "noncefn" -> [ e |-> "EcdsaNonceFn", in |-> [ key |-> NBytes(c[2]), msg |-> NBytes(c[3]), attempt |-> c[6], which |-> c[7] ]
                                                         @@ (IF c[4] = 1 THEN [ extra |-> ExtraPool[2] ] ELSE << >>)
                                                         @@ (IF c[5] = 1 THEN [ algo |-> [j \in 1..16 |-> 64 + j] ] ELSE << >>) ]
    [] c[1] = "forge"   -> ExpandForge(c[2], c[3], c[4], c[5])
    [] c[1] = "wrap"    -> ExpandWrap(c[2], c[3], c[4], c[5], c[6])
    [] c[1] = "recover" -> LET f == Forge(c[2], c[3], c[4]) IN [ e |-> "EcdsaRecover", in |-> [ sig |-> f.sig, msg |-> f.msg, recid |-> c[5] ] ]
    [] c[1] = "recraw"  -> [ e |-> "EcdsaRecover", in |-> [ sig |-> NBytes(c[2]) \o NBytes(c[3]), msg |-> Rnd32(9), recid |-> c[4] ] ]
    [] c[1] = "norm"    -> [ e |-> "EcdsaNormalize", in |-> [ sig |-> NBytes(c[2]) \o NBytes(c[3]) ] ]
    [] OTHER -> ExpandTiny(c)

-----------------------------------------------------------------------------
VARIABLES phase, cur, rec
vars == << phase, cur, rec >>
Init == phase = "pick" /\ cur = << >> /\ rec = << >>
Pick == phase = "pick" /\ \E c \in Cases : cur' = c /\ phase' = "eval" /\ rec' = << >>
Eval == phase = "eval" /\ LET x == Expand(cur) IN rec' = [ e |-> x.e, in |-> x.in, out |-> Out(x) ]
        /\ phase' = "done" /\ cur' = cur
Next == Pick \/ Eval
Spec == Init /\ [][Next]_vars

\* model invariants (design level): hold of every evaluated record
InvSign == (phase = "done" /\ rec.e = "EcdsaSign") =>
             SignSound(rec.in, rec.out) /\ SignFailZero(rec.in, rec.out) /\ SignTotal(rec.in, rec.out)
InvTinyVerify == (phase = "done" /\ rec.e = "EcdsaVerify") => TinyVerifyExact(rec.in, rec.out)
\* emission for replay into the implementation
Emit == phase = "done" => EmitRecord(rec)
-----------------------------------------------------------------------------
\* T direction: events recorded from the implementation, validated against Out.
\* Same two-step shape: choose an event (cheap), decide it (expensive).
TraceEvents == LoadTrace
TInit == phase = "pick" /\ cur = 0 /\ rec = TRUE
TPick == phase = "pick" /\ \E i \in 1..Len(TraceEvents) : cur' = i /\ phase' = "eval" /\ rec' = rec
TEval == phase = "eval" /\ rec' = SubRec(Out(TraceEvents[cur]), TraceEvents[cur].out) /\ phase' = "done" /\ cur' = cur
TNext == TPick \/ TEval
TraceOK == rec = TRUE
=============================================================================
