------------------------------- MODULE C05_Kernel -------------------------------
(***************************************************************************)
(* C05 -- the arithmetic and hashing kernel: scalars (ScalarApi), group    *)
(* law and scalar multiplication (GroupLaw), one-shot hashing / HMAC /     *)
(* RFC 6979 / tagged hashes (ShaStream, Hmac), plus the decision procedure *)
(* for field-operation sequences (FieldApi) recorded from the              *)
(* implementation.  Pick/Eval machine: Cases are cheap descriptors over    *)
(* the edge pools, Expand builds the call record, Out is the specified     *)
(* result.  The two history machines of C05 (field registers, SHA-256      *)
(* write sequences) live in C05_Field.tla and C05_Sha.tla.                 *)
(***************************************************************************)
EXTENDS FieldApi, GroupLaw, ShaStream, CurveParams, Verif, Tags

TwoTo(k) == Pow2(k)
Max256 == Sub(TwoTo(256), One)
Ones(lo, hi) == Sub(TwoTo(hi), TwoTo(lo))
B32(x) == ToBytesBE(x, 32)
Thorough == EnvNat("VERIF_THOROUGH") = 1

-----------------------------------------------------------------------------
\* field sequences (decided for traces; the G direction of the field machine is C05_Field.tla)
FeAcc(acc, v, r, m, n) == [ val |-> Append(acc.val, v), ret |-> Append(acc.ret, r), mag |-> Append(acc.mag, m), nrm |-> Append(acc.nrm, n), bad |-> acc.bad ]
RECURSIVE FeRun(_, _, _, _, _, _)
FeRun(regs, saved, ops, j, obs, acc) ==
  IF j > Len(ops) THEN acc
  ELSE LET op == ops[j] IN
    IF op[1] = "snap" THEN FeRun(regs, regs, ops, j + 1, obs, FeAcc(acc, << >>, 0, 0, 0))
    ELSE IF op[1] = "back" THEN FeRun(saved, saved, ops, j + 1, obs, FeAcc(acc, << >>, 0, 0, 0))
    ELSE IF op[1] = "get_bounds" THEN
      \* field.h: "sets r to a field element with magnitude m, normalized iff m = 0"; its VALUE is unspecified,
      \* so the value the implementation reports for this step is adopted as the register's value
      LET v == obs[j]  m == op[5]  x == FeReg(Mod(FromBytesBE(v), P), m, IF m = 0 THEN 1 ELSE 0) IN
      IF m \in 0..32 /\ Len(v) = 32 /\ (m = 0 => x.v = Zero)
      THEN FeRun([regs EXCEPT ![op[2]] = x], saved, ops, j + 1, obs, FeAcc(acc, v, 0, m, x.n))
      ELSE [acc EXCEPT !.bad = j]
    ELSE IF ~FePre(regs, op) THEN [acc EXCEPT !.bad = j]
    ELSE LET e == FeEffect(regs, op) IN
         FeRun(FeApply(regs, e), saved, ops, j + 1, obs, FeAcc(acc, FeObsVal(e), e.ret, FeObsMag(e), FeObsNrm(e)))
OutFeSeq(ev) ==
  LET i == ev.in
      regs0 == [r \in 0..(Len(i.init) - 1) |-> FeLoadMod(i.init[r + 1])]
      a == FeRun(regs0, regs0, i.ops, 1, ev.out.val, [ val |-> << >>, ret |-> << >>, mag |-> << >>, nrm |-> << >>, bad |-> 0 ])
  IN  IF a.bad # 0 THEN [ precondition_violated_at_step |-> a.bad ]
      ELSE IF "mag" \in DOMAIN ev.out THEN [ val |-> a.val, ret |-> a.ret, mag |-> a.mag, nrm |-> a.nrm ]
      ELSE [ val |-> a.val, ret |-> a.ret ]

-----------------------------------------------------------------------------
\* specified result of every record
Out(ev) ==
  (CASE ev.e = "KFeSeq"     -> OutFeSeq(ev)
     [] ev.e = "KScalar"    -> ScOut(ev.in)
     [] ev.e = "KGroup"     -> GlOut(ev.in)
     [] ev.e = "KEcmult"    -> EmOut(ev.in)
     [] ev.e = "KShaStream" -> OutShaStream(ev.in)
     [] ev.e = "KSha"       -> OutSha(ev.in)
     [] ev.e = "KHmac"      -> OutHmac(ev.in)
     [] ev.e = "KDrbg"      -> OutDrbg(ev.in)
     [] ev.e = "KTagged"    -> OutTagged(ev.in)) @@ [ icb |-> 0 ]

-----------------------------------------------------------------------------
\* pools
Alt64a == Add(Ones(0, 64), Ones(128, 192))
Alt64b == Add(Ones(64, 128), Ones(192, 256))
RECURSIVE Alt32(_)
Alt32(i) == IF i >= 8 THEN Zero ELSE Add(Ones(32 * i, 32 * i + 32), Alt32(i + 2))
NearPool == [j \in 1..20 |-> Add(ScNear[((j - 1) \div 4) + 1], FromNat((j - 1) % 4))]
ScPoolBase == << Zero, One, Two, Sub(N, One), Sub(N, Two), N, Add(N, One), HalfN, Add(HalfN, One), TwoTo(127), Sub(TwoTo(128), One), TwoTo(128),
                 Add(TwoTo(128), One), ScLambda, Sub(N, ScLambda), TwoTo(255), Max256, Alt64a, Alt64b, Alt32(0), Alt32(1),
                 ScK1Bound, Sub(ScK1Bound, One), ScK2Bound, Sub(N, ScK1Bound), Sub(N, ScK2Bound), ScG1, ScG2, ScMinusB1, ScMinusB2,
                 Sub(TwoTo(64), One), TwoTo(64), Sub(TwoTo(192), One), Sub(N, TwoTo(128)),
                 FromBytesBE(Rnd32(601)), FromBytesBE(Rnd32(602)), FromBytesBE(SubSeq(Rnd32(603), 1, 16)) >>
ScPool == ScPoolBase \o NearPool
NSc == Len(ScPool)
\* the binary operations run over the first ScBin entries of a permutation that puts the most interesting values first
ScBinIdx == IF Thorough THEN 1..NSc ELSE {1, 2, 4, 6, 8, 9, 11, 12, 14, 17, 18, 20, 22, 35, 38, 46}
ScCaddIdx == IF Thorough THEN 1..NSc ELSE {1, 2, 4, 5, 8, 10, 11, 12, 14, 15, 16, 18, 19, 21, 25, 34, 35, 37, 40, 50}
ScShiftIdx == {2, 4, 8, 11, 14, 17, 18, 20, 27, 28, 29, 30, 35, 38}
ScShiftMul == IF Thorough THEN ScShiftIdx ELSE {4, 8, 11, 14, 17, 18, 27, 28, 30, 35}
Shifts == {256, 257, 300, 320, 383, 384, 385, 448, 511, 512}
CaddBits == {0, 1, 31, 32, 63, 64, 127, 128, 191, 192, 254, 255}
BitsLimb == { << 0, 1 >>, << 0, 32 >>, << 31, 1 >>, << 32, 32 >>, << 60, 4 >>, << 252, 4 >>, << 255, 1 >>, << 128, 5 >>, << 224, 32 >>, << 5, 27 >>, << 96, 13 >> }
BitsVar == BitsLimb \cup { << 30, 4 >>, << 62, 4 >>, << 126, 8 >>, << 250, 6 >>, << 63, 2 >>, << 190, 5 >>, << 31, 32 >>, << 223, 32 >> }

ZPool == << One, FromBytesBE(Rnd32(611)), Sub(P, One), FromBytesBE(Rnd32(612)), Two >>
GPt(j) == PMulG(FromNat(j))
RndPt == PMulG(Mod(FromBytesBE(Rnd32(613)), N))
BetaPt(Q, negy) == << FMul(FeBeta, Q[1]), IF negy THEN FNeg(Q[2]) ELSE Q[2] >>
Scens == { "gen", "gen2", "dbl", "neg", "ainf", "binf", "inf2", "beta", "beta2" }
\* the operand pair of a scenario
ScenA(sc) == IF sc \in { "ainf", "inf2" } THEN Inf ELSE IF sc = "gen2" THEN RndPt ELSE GPt(5)
ScenB(sc) == CASE sc = "gen"   -> GPt(11)
               [] sc = "gen2"  -> GPt(2)
               [] sc = "dbl"   -> GPt(5)
               [] sc = "neg"   -> PNeg(GPt(5))
               [] sc = "ainf"  -> GPt(11)
               [] sc \in { "binf", "inf2" } -> Inf
               [] sc = "beta"  -> BetaPt(GPt(5), TRUE)       \* x1 # x2, y1 = -y2: the degenerate branch of the complete formula
               [] sc = "beta2" -> BetaPt(GPt(5), FALSE)
ZQuick == IF Thorough THEN {1, 2, 3, 4} ELSE {1, 2, 3}
Zb == IF Thorough THEN {1, 2, 4} ELSE {1, 4}

EmScalarsBase == << Zero, One, Two, Sub(N, One), HalfN, Add(HalfN, One), ScLambda, Sub(N, ScLambda), TwoTo(128), Sub(TwoTo(128), One),
                    ScK1Bound, Sub(N, ScK2Bound), TwoTo(255), Alt64a, FromBytesBE(Rnd32(621)), Mod(FromBytesBE(Rnd32(622)), N) >>
EmScalars == EmScalarsBase \o NearPool
NEm == Len(EmScalars)
EmQuick == {1, 2, 4, 5, 7, 8, 9, 11, 15, 17, 21, 25, 29, 33}
MultiSizes == IF Thorough THEN {0, 1, 2, 3, 8, 33, 88, 89, 100, 300} ELSE {0, 1, 2, 3, 8, 33, 88, 89, 100}
ScratchSizes == << -1, 0, 300, 6000, 70000, 400000, 6000000 >>

ShaLens == 0..300
ShaFixed == RndBytes(650, 96) \o RndBytes(651, 96) \o RndBytes(652, 96) \o PatMsg(64, 7, 3)     \* every prefix 0..300 is hashed
ShaLongLens == { 1000, 4095, 4096, 65535, 65536, 65537, 1048575, 1048576, 1048631 }
KeyLens == {0, 1, 31, 32, 63, 64, 65, 100, 128, 200}
MacLens == {0, 1, 55, 64, 100, 300}
SeedLens == {0, 1, 32, 64, 65, 100}
OutLenSeqs == << << 0, 1, 32, 33, 64, 100 >>, << 32, 32, 32 >>, << 100, 0, 1, 33 >>, << 33 >>, << 64, 64, 0, 0, 1 >>, << >>, << 1, 1, 1, 1 >> >>
TagPool == << << >>, TagBip340Challenge, Rep(84, 64), Rep(116, 100) >>
TaggedLens == {0, 1, 32, 63, 64, 999, 1000, 1001, 1024, 2000, 5000}

-----------------------------------------------------------------------------
Cases ==
       \* ---- scalars ----
       { << "sc1", op, a, 0, 0 >> : op \in { "set_b32", "set_b32_seckey", "set_u64", "sqr", "negate", "inverse", "inverse_var", "half", "preds",
                                           "split_128", "split_lambda" }, a \in 1..NSc }
  \cup { << "sc1", "cond_negate", a, 0, f >> : a \in 1..NSc, f \in {0, 1} }
  \cup { << "sc1", "cadd_bit", a, k, f >> : a \in ScCaddIdx, k \in CaddBits, f \in {0, 1} }
  \cup { << "sc1", "get_bits_limb32", a, oc[2], oc[1] >> : a \in ScShiftIdx, oc \in BitsLimb }
  \cup { << "sc1", "get_bits_var", a, oc[2], oc[1] >> : a \in ScShiftIdx, oc \in BitsVar }
  \cup { << "sc1", "set_int", 1, k, 0 >> : k \in {0, 1, 65535, 2147483647} }
  \cup { << "sc2", op, a, b, 0, 0 >> : op \in { "add", "mul", "eq" }, a \in ScBinIdx, b \in ScBinIdx }
  \cup { << "sc2", "cmov", a, b, 0, f >> : a \in {1, 4, 35}, b \in {2, 6, 36}, f \in {0, 1} }
  \cup { << "sc2", "mul_shift_var", a, b, k, 0 >> : a \in ScShiftMul, b \in ScShiftMul, k \in Shifts }
       \* ---- group law ----
  \cup { << "gl2", fn, sc, za, zb, mg, rz >> : fn \in { "add_var", "add_var_inplace", "add_ge_var" }, sc \in Scens, za \in ZQuick, zb \in Zb, mg \in {0, 1}, rz \in {0, 1} }
  \cup { << "gl2", fn, sc, za, zb, mg, 0 >> : fn \in { "add_ge", "add_ge_inplace", "add_zinv_var", "eq_var", "eq_ge_var", "ge_eq_var" }, sc \in Scens, za \in ZQuick, zb \in Zb, mg \in {0, 1} }
  \cup { << "gl2", "cmov", sc, za, 4, 0, f >> : sc \in { "gen", "ainf", "binf" }, za \in {1, 2}, f \in {0, 1} }
  \cup { << "gl1", fn, pt, za, mg, rz >> : fn \in { "double", "double_var", "set_gej", "set_gej_var", "neg", "has_quad_y_var" }, pt \in 0..4, za \in ZQuick, mg \in {0, 1}, rz \in {0, 1} }
  \cup { << "gl1", fn, pt, 1, mg, 0 >> : fn \in { "ge_neg", "mul_lambda", "storage" }, pt \in 1..4, mg \in {0, 1} }
  \cup { << "gl1", "rescale", pt, za, mg, s >> : pt \in 0..4, za \in ZQuick, mg \in {0, 1}, s \in {2, 3} }
  \cup { << "gl1", "eq_x_var", pt, za, mg, v >> : pt \in 1..4, za \in ZQuick, mg \in {0, 1}, v \in 0..2 }
  \cup { << "gl1", "is_valid_var", pt, 1, mg, v >> : pt \in 0..4, mg \in {0, 1}, v \in 0..2 }
  \cup { << "glall", fn, len, pat, mg >> : fn \in { "set_all_gej_var" }, len \in {0, 1, 2, 3, 5, 16}, pat \in 0..4, mg \in {0, 1} }
  \cup { << "glall", "set_all_gej", len, 0, mg >> : len \in {0, 1, 2, 3, 5, 16}, mg \in {0, 1} }
  \cup { << "glx", fn, x, f >> : fn \in { "set_xo_var", "set_xquad", "x_on_curve_var", "x_frac_on_curve_var" }, x \in 1..12, f \in {0, 1} }
       \* ---- scalar multiplication ----
  \cup { << "em", "ecmult", na, ng, pt, mg >> : na \in (IF Thorough THEN 1..NEm ELSE EmQuick), ng \in {0, 3}, pt \in {2}, mg \in {0, 1} }
  \cup { << "em", "ecmult", na, ng, pt, 0 >> : na \in {1, 2, 4, 15}, ng \in {0, 1, 2, 3, 4}, pt \in {0, 1, 2} }
  \cup { << "em", "const", q, 0, pt, mg >> : q \in (IF Thorough THEN 1..NEm ELSE EmQuick), pt \in {1, 2}, mg \in {0, 1} }
  \cup { << "em", "const", q, 0, 0, 0 >> : q \in {1, 15} }
  \cup { << "em", "xonly", q, form, x, known >> : q \in {2, 4, 7, 15, 17}, form \in {0, 1, 2}, x \in 1..6, known \in {0, 1} }
  \cup { << "em", "gen", a, seed, 0, 0 >> : a \in (IF Thorough THEN 1..NEm ELSE EmQuick \cup {3, 6, 10, 12}), seed \in {0, 1, 2} }
  \cup { << "multi", n, v >> : n \in MultiSizes, v \in 0..2 }
       \* ---- hashing ----
  \cup { << "sha", len >> : len \in ShaLens }
  \cup (IF Thorough THEN { << "shalong", len >> : len \in ShaLongLens } ELSE {})
  \cup { << "shastream", len, v >> : len \in {0, 64, 200, 300}, v \in 0..3 }
  \cup { << "hmac", kl, ml, v >> : kl \in KeyLens, ml \in MacLens, v \in {0, 1} }
  \cup { << "drbg", sl, ol >> : sl \in SeedLens, ol \in 1..Len(OutLenSeqs) }
  \cup { << "tagged", t, len >> : t \in 1..Len(TagPool), len \in TaggedLens }

-----------------------------------------------------------------------------
ScRec(op, a, b, k, f) == [ e |-> "KScalar", in |-> [ op |-> op, a |-> B32(a), b |-> B32(b), k |-> k, f |-> f ] ]
Pt5(j) == CASE j = 0 -> Inf [] j = 1 -> GPt(1) [] j = 2 -> RndPt [] j = 3 -> GPt(7) [] j = 4 -> PNeg(GPt(3))
Z32(j) == B32(ZPool[j])
GlRec(fields) == [ e |-> "KGroup", in |-> fields ]
\* pattern of infinities in a list of len points
AllPt(len, pat, j) == IF (pat = 1 /\ j = 1) \/ (pat = 2 /\ j = len) \/ (pat = 3 /\ j % 2 = 0) \/ pat = 4 THEN Inf ELSE GPt(j + 1)
XPool == << Zero, One, Two, FromNat(3), G[1], Sub(P, One), FromBytesBE(Rnd32(631)), FromBytesBE(Rnd32(632)), FromNat(5), Sub(P, Two), FMul(FeBeta, G[1]), FromNat(4) >>
\* ecmult_multi inputs: n points (a chain of small multiples of G with an infinity, a repeated point and a cancelling pair mixed in),
\* many small scalars plus a few full-size edge scalars
MultiPt(n, v, j) == IF v = 1 /\ j % 7 = 3 THEN Inf
                    ELSE IF v = 2 /\ j % 5 = 0 /\ j > 1 THEN PNeg(GPt(j))          \* = -(point j-1)
                    ELSE GPt(j + 1)
MultiSc(n, v, j) == IF j = 1 THEN (IF v = 0 THEN Sub(N, One) ELSE ScLambda)
                    ELSE IF j = n /\ n > 2 THEN (IF v = 2 THEN ScNear[3] ELSE Sub(N, ScLambda))
                    ELSE IF j = 2 THEN Zero
                    ELSE IF v = 2 /\ j % 5 = 0 THEN FromNat((((j - 1) * 40503) % 65521) + 1)   \* same scalar as the point before: the pair cancels
                    ELSE FromNat(((j * 40503) % 65521) + 1)
HmacChunks(ml, v) == IF v = 0 \/ ml < 2 THEN << ml >> ELSE << 1, ml - 2, 0, 1 >>
StreamChunks(len, v) == CASE v = 0 -> << len >>
                          [] v = 1 -> [j \in 1..len |-> 1]
                          [] v = 2 -> IF len >= 64 THEN << 63, 1, len - 64 >> ELSE << len >>
                          [] v = 3 -> IF len >= 129 THEN << 1, 127, 1, len - 129 >> ELSE << 0, len, 0 >>

Expand(c) ==
  CASE c[1] = "sc1" ->
         IF c[2] = "cadd_bit" /\ ~ScCaddPre(ScOfBytes(B32(ScPool[c[3]])), c[4], c[5])
         THEN ScRec("cadd_bit", ScPool[c[3]], Zero, c[4], 0)
         ELSE ScRec(c[2], ScPool[c[3]], Zero, c[4], c[5])
    [] c[1] = "sc2" -> ScRec(c[2], ScPool[c[3]], ScPool[c[4]], c[5], c[6])
    [] c[1] = "gl2" ->
         LET fn == c[2]  sc == c[3]
             noinfb == fn \in { "add_ge", "add_ge_inplace" } /\ sc \in { "binf", "inf2" }     \* b must not be infinity there
             A == ScenA(sc)  Bq == IF noinfb THEN GPt(11) ELSE ScenB(sc)
             rz == IF c[1] = "gl2" /\ fn \in { "add_var", "add_var_inplace", "add_ge_var" } /\ ~IsInf(A) THEN c[7] ELSE 0
             base == [ fn |-> fn, a |-> PtEnc(A), az |-> Z32(c[4]), b |-> PtEnc(Bq), bz |-> Z32(c[5]), mg |-> c[6] ]
         IN  GlRec(IF fn = "cmov" THEN base @@ [ f |-> c[7] ] ELSE IF rz = 1 THEN base @@ [ rzr |-> 1 ] ELSE base)
    [] c[1] = "gl1" ->
         LET fn == c[2]  A == Pt5(c[3])  base == [ fn |-> fn, a |-> PtEnc(A), az |-> Z32(c[4]), mg |-> c[5] ] IN
         (CASE fn = "double_var" -> GlRec(IF c[6] = 1 THEN base @@ [ rzr |-> 1 ] ELSE base)
           [] fn = "rescale"  -> GlRec(base @@ [ s |-> Z32(c[6]) ])
           [] fn = "eq_x_var" -> GlRec(base @@ [ x |-> B32(CASE c[6] = 0 -> A[1] [] c[6] = 1 -> FAdd(A[1], One) [] c[6] = 2 -> GPt(9)[1]) ])
           [] fn = "is_valid_var" ->
                GlRec([ fn |-> fn, mg |-> c[5],
                        a |-> IF IsInf(A) THEN PtEnc(A)
                              ELSE CASE c[6] = 0 -> PtEnc(A)
                                     [] c[6] = 1 -> << 0, X32(A), B32(FAdd(A[2], One)) >>
                                     [] c[6] = 2 -> << 0, B32(FAdd(A[1], One)), Y32(A) >> ])
           [] OTHER -> GlRec(base))
    [] c[1] = "glall" ->
         GlRec([ fn |-> c[2], mg |-> c[5], pts |-> [j \in 1..c[3] |-> PtEnc(AllPt(c[3], c[4], j))], zs |-> [j \in 1..c[3] |-> Z32((j % 5) + 1)] ])
    [] c[1] = "glx" ->
         GlRec([ fn |-> c[2], x |-> B32(XPool[c[3]]), d |-> B32(IF c[4] = 1 THEN ZPool[2] ELSE One), f |-> c[4] ])
    [] c[1] = "em" ->
         LET fn == c[2] IN
         (CASE fn = "ecmult" ->
                LET base == [ fn |-> fn, p |-> PtEnc(Pt5(c[5])), pz |-> Z32(2), na |-> B32(EmScalars[c[3]]), mg |-> c[6] ] IN
                [ e |-> "KEcmult", in |-> IF c[4] = 0 THEN base ELSE base @@ [ ng |-> B32(EmScalars[CASE c[4] = 1 -> 1 [] c[4] = 2 -> 2 [] c[4] = 3 -> 15 [] c[4] = 4 -> 4]) ] ]
           [] fn = "const" -> [ e |-> "KEcmult", in |-> [ fn |-> fn, p |-> PtEnc(Pt5(c[5])), q |-> B32(EmScalars[c[3]]), mg |-> c[6] ] ]
           [] fn = "xonly" ->
                \* x candidates; form 0: d absent, 1: n/d with d random, 2: n = x*d with d = p-1.  Known-on-curve only when it is.
                LET x == XPool[c[5]]   d == IF c[4] = 1 THEN ZPool[2] ELSE Sub(P, One)
                    oncurve == IsSquare(CurveRhs(x))
                    base == [ fn |-> fn, n |-> B32(IF c[4] = 0 THEN x ELSE FMul(x, d)), q |-> B32(EmScalars[c[3]]), known |-> IF oncurve THEN c[6] ELSE 0, mg |-> c[6] ]
                IN  [ e |-> "KEcmult", in |-> IF c[4] = 0 THEN base ELSE base @@ [ d |-> B32(d) ] ]
           [] fn = "gen" ->
                LET base == [ fn |-> fn, a |-> B32(EmScalars[c[3]]) ] IN
                [ e |-> "KEcmult", in |-> IF c[4] = 0 THEN base ELSE base @@ [ seed |-> IF c[4] = 1 THEN Rnd32(641) ELSE Zeros(32) ] ])
    [] c[1] = "multi" ->
         LET n == c[2]  v == c[3]
             base == [ fn |-> "multi", sc |-> [j \in 1..n |-> B32(MultiSc(n, v, j))], pts |-> [j \in 1..n |-> PtEnc(MultiPt(n, v, j))],
                       scratch |-> ScratchSizes, mg |-> IF v = 1 THEN 1 ELSE 0 ]
         IN  [ e |-> "KEcmult", in |-> IF v = 0 THEN base ELSE base @@ [ ng |-> B32(IF v = 1 THEN EmScalars[15] ELSE Sub(N, One)) ] ]
    [] c[1] = "sha" -> [ e |-> "KSha", in |-> [ msg |-> SubSeq(ShaFixed, 1, c[2]) ] ]
    [] c[1] = "shalong" -> [ e |-> "KSha", in |-> [ len |-> c[2], pa |-> 13, pb |-> 5 ] ]
    [] c[1] = "shastream" -> [ e |-> "KShaStream", in |-> [ msg |-> PatMsg(c[2], 3, 1), chunks |-> StreamChunks(c[2], c[3]) ] ]
    [] c[1] = "hmac" -> [ e |-> "KHmac", in |-> [ key |-> PatMsg(c[2], 5, c[3]), msg |-> PatMsg(c[3], 11, c[2]), chunks |-> HmacChunks(c[3], c[4]) ] ]
    [] c[1] = "drbg" -> [ e |-> "KDrbg", in |-> [ seed |-> PatMsg(c[2], 9, 2), outlens |-> OutLenSeqs[c[3]] ] ]
    [] c[1] = "tagged" -> [ e |-> "KTagged", in |-> IF c[3] <= 300 THEN [ tag |-> TagPool[c[2]], msg |-> PatMsg(c[3], 3, c[2]) ]
                                                    ELSE [ tag |-> TagPool[c[2]], len |-> c[3], pa |-> 3, pb |-> c[2] ] ]

-----------------------------------------------------------------------------
VARIABLES phase, cur, rec
vars == << phase, cur, rec >>
Init == phase = "pick" /\ cur = << >> /\ rec = << >>
Pick == phase = "pick" /\ \E c \in Cases : cur' = c /\ phase' = "eval" /\ rec' = << >>
Eval == phase = "eval" /\ LET x == Expand(cur) IN rec' = [ e |-> x.e, in |-> x.in, out |-> Out([ e |-> x.e, in |-> x.in, out |-> << >> ]) ]
        /\ phase' = "done" /\ cur' = cur
Next == Pick \/ Eval
Spec == Init /\ [][Next]_vars

\* design-level invariants on every evaluated record
InvConstants == ScConstantsOK
InvScalar == (phase = "done" /\ rec.e = "KScalar") => ScRecordSound(rec.in, rec.out)
InvGroup  == (phase = "done" /\ rec.e = "KGroup") => GlRecordSound(rec.in, rec.out)
Emit == phase = "done" => EmitRecord(rec)
-----------------------------------------------------------------------------
\* T direction: events recorded from the implementation, decided against Out
TraceEvents == LoadTrace
TInit == phase = "pick" /\ cur = 0 /\ rec = TRUE
TPick == phase = "pick" /\ \E i \in 1..Len(TraceEvents) : cur' = i /\ phase' = "eval" /\ rec' = rec
TEval == phase = "eval" /\ rec' = SubRec(Out(TraceEvents[cur]), TraceEvents[cur].out) /\ phase' = "done" /\ cur' = cur
TNext == TPick \/ TEval
TraceOK == rec = TRUE
=============================================================================
