------------------------------- MODULE C08_Pedersen -------------------------------
(***************************************************************************)
(* C08 -- the generator / Pedersen-commitment API as a machine of call     *)
(* records (same shape as C01_Ecdsa).  Record fields: generators = their   *)
(* 33-byte serialization, commitments = 33 bytes, uint64 = 8 bytes         *)
(* big-endian, lists = sequences of byte strings.  See harness/ops_pedersen.h *)
(***************************************************************************)
EXTENDS Pedersen, CurveParams, Verif

HasF(i, k) == k \in DOMAIN i
Pts(ps) == [k \in 1..Len(ps) |-> ps[k][2]]
AllOk(ps) == \A k \in 1..Len(ps) : ps[k][1]

-----------------------------------------------------------------------------
\* specified results of the calls
OutGenH(i) == [ gen |-> GenSer(PedGenH), icb |-> 0 ]
OutGenGenerate(i) ==
  LET g == IF HasF(i, "blind") THEN PedGenerateBlinded(i.seed, i.blind) ELSE PedGenerate(i.seed)
  IN  IF g[1] THEN [ ret |-> 1, gen |-> GenSer(g[2]), same |-> 1, icb |-> 0 ] ELSE [ ret |-> 0, icb |-> 0 ]
OutSvdw(i) ==
  LET t == FromBytesBE(i.t) IN
  IF ~Lt(t, P) THEN [ ok |-> 0, icb |-> 0 ]
  ELSE LET Q == PedSvdw(t) IN [ ok |-> 1, x |-> X32(Q), y |-> Y32(Q), icb |-> 0 ]
OutGenParse(i) ==
  LET g == GenParse(i.b) IN
  IF g[1] THEN [ ret |-> 1, ser |-> GenSer(g[2]), icb |-> 0 ] ELSE [ ret |-> 0, icb |-> 0 ]
OutCommitParse(i) ==
  LET c == PedParseCommit(i.b) IN
  IF c[1] THEN [ ret |-> 1, sret |-> 1, ser |-> PedSerCommit(c[2]), icb |-> 0 ] ELSE [ ret |-> 0, icb |-> 0 ]
CommitGen(i) == IF HasF(i, "genh") /\ i.genh = 1 THEN << TRUE, PedGenH >> ELSE GenParse(i.gen)
OutCommit(i) ==
  LET g == CommitGen(i) IN
  IF ~g[1] THEN [ gret |-> 0, icb |-> 0 ]
  ELSE LET c == PedCommit(i.blind, PedU64(i.value), g[2]) IN
       IF c[1] THEN [ gret |-> 1, ret |-> 1, commit |-> PedSerCommit(c[2]), icb |-> 0 ]
       ELSE [ gret |-> 1, ret |-> 0, icb |-> 0 ]
OutTally(i) ==
  LET pp == [k \in 1..Len(i.pos) |-> PedParseCommit(i.pos[k])]
      nn == [k \in 1..Len(i.neg) |-> PedParseCommit(i.neg[k])]
  IN  IF ~AllOk(pp) \/ ~AllOk(nn) THEN [ pret |-> 0, icb |-> 0 ]
      ELSE [ pret |-> 1, ret |-> B2I(PedTally(Pts(pp), Pts(nn))), icb |-> 0 ]
OutBlindSum(i) ==
  LET r == PedBlindSum(i.blinds, i.npos) IN
  IF r[1] THEN [ ret |-> 1, sum |-> Scalar32(r[2]), icb |-> 0 ] ELSE [ ret |-> 0, icb |-> 0 ]
U64s(vs) == [k \in 1..Len(vs) |-> PedU64(vs[k])]
OutBlindGenSum(i) ==
  LET r == PedBlindGenBlindSum(U64s(i.values), i.gblinds, i.blinds, i.nin) IN
  IF r[1] THEN [ ret |-> 1, last |-> Scalar32(r[2]), icb |-> 0 ] ELSE [ ret |-> 0, icb |-> 0 ]

\* the balancing flow (see ops_pedersen.h): helper blind, every commitment, the tally and its mirror image
FlowParts(i) ==
  LET gs   == [k \in 1..Len(i.gens) |-> GenParse(i.gens[k])]
      n    == Len(i.values)
      vals == U64s(i.values)
      bs   == IF i.mode = 0 THEN PedBlindSum(i.blinds, i.npos)
              ELSE PedBlindGenBlindSum(vals, [k \in 1..n |-> i.gblinds[i.gi[k] + 1]], i.blinds, i.npos)
      last == Scalar32(bs[2])
      bl   == IF i.mode = 0 THEN i.blinds \o << last >> ELSE [k \in 1..n |-> IF k = n THEN last ELSE i.blinds[k]]
  IN  [ gs |-> gs, n |-> n, vals |-> vals, bs |-> bs, last |-> last, bl |-> bl ]
OutFlow(i) ==
  LET f == FlowParts(i) IN
  IF ~AllOk(f.gs) THEN [ gret |-> 0, icb |-> 0 ]
  ELSE IF ~f.bs[1] THEN [ gret |-> 1, bsret |-> 0, icb |-> 0 ]
  ELSE LET cs == [k \in 1..f.n |-> PedCommit(f.bl[k], f.vals[k], f.gs[i.gi[k] + 1][2])]
           base == [ gret |-> 1, bsret |-> 1, last |-> f.last, icb |-> 0,
                     cret |-> [k \in 1..f.n |-> B2I(cs[k][1])],
                     commits |-> [k \in 1..f.n |-> IF cs[k][1] THEN PedSerCommit(cs[k][2]) ELSE << >>] ]
       IN  IF ~AllOk(cs) THEN base
           ELSE LET t == B2I(PedTally(Pts(SubSeq(cs, 1, i.npos)), Pts(SubSeq(cs, i.npos + 1, f.n))))
                IN  base @@ [ ret |-> t, rret |-> t ]

Out(ev) == CASE ev.e = "GenH"           -> OutGenH(ev.in)
             [] ev.e = "GenGenerate"    -> OutGenGenerate(ev.in)
             [] ev.e = "PedSvdw"        -> OutSvdw(ev.in)
             [] ev.e = "GenParse"       -> OutGenParse(ev.in)
             [] ev.e = "CommitParse"    -> OutCommitParse(ev.in)
             [] ev.e = "PedCommit"      -> OutCommit(ev.in)
             [] ev.e = "PedTally"       -> OutTally(ev.in)
             [] ev.e = "PedBlindSum"    -> OutBlindSum(ev.in)
             [] ev.e = "PedBlindGenSum" -> OutBlindGenSum(ev.in)
             [] ev.e = "PedFlow"        -> OutFlow(ev.in)

-----------------------------------------------------------------------------
\* design-level theorems, evaluated on every generated record (model invariants)

\* creation fails iff b >= n or b*G = -(v*H); a created commitment parses, is canonical, on the curve,
\* and opens: C - b*G = v*H
CommitExact(i, o) ==
  o.gret = 1 =>
    LET b == FromBytesBE(i.blind)  v == PedU64(i.value)  H == CommitGen(i)[2] IN
    /\ (o.ret = 0) <=> (~Lt(b, N) \/ PMulG(b) = PNeg(PMul(v, H)))
    /\ o.ret = 1 => LET c == PedParseCommit(o.commit) IN
                    /\ c[1] /\ ~IsInf(c[2]) /\ IsOnCurve(c[2]) /\ PedSerCommit(c[2]) = o.commit
                    /\ PSub(c[2], PMulG(b)) = PMul(v, H)
\* a 33-byte string is accepted iff its prefix is base or base+1 and x < p has a point (decided with the
\* even-y lift, independent of the codec's square-y lift); accepted strings re-serialize to themselves
CodecExact(base, i, o) ==
  /\ (o.ret = 1) <=> (i.b[1] \in { base, base + 1 } /\ LiftX(FromBytesBE(SubSeq(i.b, 2, 33)))[1])
  /\ o.ret = 1 => o.ser = i.b
\* derived generators are on the curve, serialize canonically, and blinded = unblinded + blind*G
GenerateSound(i, o) ==
  o.ret = 1 =>
    LET g == GenParse(o.gen) IN
    /\ g[1] /\ ~IsInf(g[2]) /\ IsOnCurve(g[2]) /\ GenSer(g[2]) = o.gen
    /\ HasF(i, "blind") => PSub(g[2], PMulG(FromBytesBE(i.blind))) = PedGenerate(i.seed)[2]
SvdwSound(i, o) == o.ok = 1 => IsOnCurve(<< FromBytesBE(o.x), FromBytesBE(o.y) >>)
\* the helper's result, added on the negative side, balances the blinds
BlindSumBalances(i, o) == o.ret = 1 => PedBlindSum(i.blinds \o << o.sum >>, i.npos) = << TRUE, Zero >>
\* with the adjusted last factor the helper is at its fixed point (total of v*r + r' is zero)
BlindGenSumBalances(i, o) ==
  o.ret = 1 => LET n == Len(i.values) IN
    PedBlindGenBlindSum(U64s(i.values), i.gblinds, [k \in 1..n |-> IF k = n THEN o.last ELSE i.blinds[k]], i.nin) = << TRUE, FromBytesBE(o.last) >>

\* With blinds from the helpers the tally holds iff the value parts cancel as group elements:
\*   sum_pos v*A - sum_neg v*A = infinity   (A = the unblinded generator of the item)
\* and, for independent generators (in.indep = 1: distinct seed-derived ones), iff the values balance
\* per generator as integers.
FlowValuePart(i) ==
  LET f == FlowParts(i)
      A(k) == LET g == f.gs[i.gi[k] + 1][2] IN
              IF i.mode = 0 THEN g ELSE PSub(g, PMulG(FromBytesBE(i.gblinds[i.gi[k] + 1])))
      term == [k \in 1..f.n |-> PMul(f.vals[k], A(k))]
  IN  PSub(SumPoints(SubSeq(term, 1, i.npos)), SumPoints(SubSeq(term, i.npos + 1, f.n)))
RECURSIVE NatSum(_)
NatSum(s) == IF Len(s) = 0 THEN Zero ELSE Add(Head(s), NatSum(Tail(s)))
SideSum(i, g, pos) ==
  NatSum([k \in 1..Len(i.values) |-> IF i.gi[k] = g /\ ((k <= i.npos) = pos) THEN PedU64(i.values[k]) ELSE Zero])
ValuesBalance(i) == \A g \in 0..(Len(i.gens) - 1) : SideSum(i, g, TRUE) = SideSum(i, g, FALSE)
FlowExact(i, o) ==
  HasF(o, "ret") =>
    /\ (o.ret = 1) <=> IsInf(FlowValuePart(i))
    /\ o.rret = o.ret
    /\ (HasF(i, "indep") /\ i.indep = 1) => ((o.ret = 1) <=> ValuesBalance(i))

-----------------------------------------------------------------------------
\* generated input space: the real group
NBytes(x) == ToBytesBE(x, 32)
Max256 == Sub(Pow2(256), One)
U64Max == Sub(Pow2(64), One)
Thorough == EnvNat("VERIF_THOROUGH") = 1
RndScalar(k) == Mod(FromBytesBE(Rnd32(k)), N)
RndU64(k) == FromBytesBE(SubSeq(Rnd32(k), 1, 8))
RECURSIVE Pow10(_)
Pow10(k) == IF k = 0 THEN One ELSE Mul(FromNat(10), Pow10(k - 1))
\* first x >= x0 with (x^3 + B is a non-zero square) = want
RECURSIVE FindX(_, _)
FindX(x0, want) == LET c == CurveRhs(x0) IN IF ~IsZero(c) /\ IsSquare(c) = want THEN x0 ELSE FindX(Add(x0, One), want)
RndX(k) == Mod(FromBytesBE(Rnd32(k)), Sub(P, FromNat(100000)))

BlindPool == { Zero, One, HalfN, Sub(N, Two), Sub(N, One), N, Add(N, One), Max256, FromBytesBE(Rnd32(11)), RndScalar(12) }
             \cup (IF Thorough THEN { Two, Pow2(255), Pow2(128), RndScalar(15), RndScalar(16) } ELSE { })
ValPool == { Zero, One, Sub(Pow2(63), One), Pow2(63), U64Max, RndU64(13), RndU64(14) }
            \cup { Pow10(k) : k \in IF Thorough THEN 1..19 ELSE { 1, 9, 18, 19 } }
            \cup (IF Thorough THEN { Two, Sub(U64Max, One), Pow2(32), RndU64(17), RndU64(18) } ELSE { })
\* generators: 1 = the static h (pointer), 2.. = 33-byte encodings: h, seed-derived, blinded, parsed (both signs), G, -G
GenTable == << GenSer(PedGenH), GenSer(PedGenerate(Rnd32(21))[2]), GenSer(PedGenerateBlinded(Rnd32(22), NBytes(RndScalar(23)))[2]),
               << 10 >> \o NBytes(FindX(RndX(24), TRUE)), << 11 >> \o NBytes(FindX(RndX(25), TRUE)), GenSer(G), GenSer(PNeg(G)) >>
SeedPool == << Zeros(32), Rep(255, 32), NBytes(One), NBytes(N), NBytes(P), Rep(128, 32) >>
NSeeds == IF Thorough THEN 200 ELSE 14
SeedOf(k) == IF k <= Len(SeedPool) THEN SeedPool[k] ELSE Rnd32(1000 + k)
GBlindPool == << Zero, One, Sub(N, One), N, Add(N, One), Max256, RndScalar(26) >>
XClasses == << Zero, One, Two, Sub(P, One), P, Add(P, One), Max256, FindX(RndX(41), TRUE), FindX(RndX(42), FALSE),
               FindX(RndX(43), TRUE), FindX(RndX(44), FALSE), G[1], PedGenH[1], Sub(P, Two), N >>
SvdwTs == { Zero, One, Two, FromNat(3), FromNat(4), FromNat(10), Sub(P, One), Sub(P, Two), P, Max256, N, HalfN,
            RndX(45), RndX(46), RndX(47), RndX(48) }

OkBlinds == << Zero, One, Sub(N, One), HalfN, RndScalar(61), RndScalar(62), Sub(N, Two), RndScalar(63), Two >>
BadBlinds == << N, Add(N, One), Max256 >>
BlindAt(j, salt) == OkBlinds[((j * 7 + salt * 3) % Len(OkBlinds)) + 1]
ValSeq == << U64Max, One, RndU64(64), Zero, Pow2(63), RndU64(65), Pow10(19), Two >>
ValAt(j, salt) == ValSeq[((j * 3 + salt) % Len(ValSeq)) + 1]
SumLens == IF Thorough THEN 0..8 \cup { 16, 31, 32 } ELSE 0..4
GbLens == IF Thorough THEN 1..6 \cup { 32 } ELSE 1..4

\* flow shapes: per generator << number of positive parts, number of negative parts >>
Shapes == << << <<1,1>> >>, << <<2,1>> >>, << <<1,2>> >>, << <<2,2>> >>, << <<0,1>> >>, << <<4,4>> >>, << <<1,4>> >>, << <<4,1>> >>,
             << <<1,1>>, <<1,1>> >>, << <<2,1>>, <<1,2>> >>, << <<2,2>>, <<2,2>> >>, << <<0,1>>, <<1,1>> >>, << <<3,1>>, <<1,3>> >>,
             << <<1,1>>, <<1,1>>, <<1,1>> >>, << <<2,1>>, <<1,1>>, <<1,2>> >>, << <<1,2>>, <<2,1>>, <<1,1>> >>, << <<0,2>>, <<2,1>>, <<1,0>> >>,
             \* thorough only (index > 17)
             << <<32,32>> >>, << <<16,16>>, <<8,8>>, <<8,8>> >>, << <<31,1>>, <<1,31>> >>, << <<11,10>>, <<11,11>>, <<10,11>> >>,
             << <<8,8>> >>, << <<1,32>> >>, << <<32,1>> >> >>
NShapes == IF Thorough THEN Len(Shapes) ELSE 17
\* generators of the flows: two seed-derived ones and h
FlowSeeds == << Rnd32(31), Rnd32(32) >>
FlowGenPts == << PedGenerate(FlowSeeds[1])[2], PedGenerate(FlowSeeds[2])[2], PedGenH >>

Cases ==
       { << "genh" >> }
  \cup { << "commit", b, v, g >> : b \in BlindPool, v \in ValPool, g \in IF Thorough THEN 1..(Len(GenTable) + 1) ELSE { 1, 3 } }
  \cup { << "commit", b, v, g >> : b \in { One, Sub(N, One), N, RndScalar(12) }, v \in { One, U64Max, RndU64(13) }, g \in 1..(Len(GenTable) + 1) }
  \cup { << "inf", v, g, d >> : v \in { One, U64Max, RndU64(13) }, g \in { 7, 8 }, d \in { 0, 1 } }
  \cup { << "generate", s >> : s \in 1..NSeeds }
  \cup { << "genblind", s, b >> : s \in { 1, 2, 7, 8 }, b \in 1..Len(GBlindPool) }
  \cup { << "svdw", t >> : t \in SvdwTs }
  \cup { << "parse", w, pfx, xc >> : w \in { 8, 10 }, pfx \in 0..255, xc \in 1..Len(XClasses) }
  \cup UNION { { << "bsum", len, np, bad, kind, salt >> : np \in 0..len, bad \in 0..len, kind \in 1..3, salt \in 1..2 } : len \in SumLens }
  \cup UNION { { << "gbsum", n, nin, bad, kind, salt >> : nin \in 0..(n - 1), bad \in 0..(2 * n), kind \in 1..3, salt \in 1..2 } : n \in GbLens }
  \cup { << "flow", sh, off, mode, ts >> : sh \in 1..NShapes, off \in 0..4, mode \in { 0, 1 }, ts \in IF Thorough THEN 1..3 ELSE { 1 } }
  \cup { << "flow", sh, off, 0, 2 >> : sh \in 1..NShapes, off \in { 0, 1 } }
  \cup { << "tallyraw", k >> : k \in 1..8 }
\* (descriptors outside the shape of their family are mapped to a canonical member by Expand and de-duplicated)

GenIn(g) == IF g = 1 THEN [ genh |-> 1 ] ELSE [ gen |-> GenTable[g - 1] ]
CommitRec(b32, v, g) == [ e |-> "PedCommit", in |-> [ blind |-> b32, value |-> PedU64Bytes(v) ] @@ GenIn(g) ]

ExpandBSum(len, np0, bad0, kind0, salt) ==
  LET np == IF np0 > len THEN len ELSE np0
      bad == IF bad0 > len THEN 0 ELSE bad0
      kind == IF bad = 0 THEN 1 ELSE kind0
      bl == [j \in 1..len |-> NBytes(IF j = bad THEN BadBlinds[kind] ELSE BlindAt(j + len, salt))]
  IN  [ e |-> "PedBlindSum", in |-> [ blinds |-> IF len = 0 THEN << >> ELSE bl, npos |-> np ] ]
ExpandGbSum(n, nin0, bad0, kind0, salt) ==
  LET nin == IF nin0 >= n THEN n - 1 ELSE nin0
      bad == IF bad0 > 2 * n THEN 0 ELSE bad0
      kind == IF bad = 0 THEN 1 ELSE kind0
  IN  [ e |-> "PedBlindGenSum", in |-> [ nin |-> nin,
          values  |-> [j \in 1..n |-> PedU64Bytes(ValAt(j + n, salt))],
          gblinds |-> [j \in 1..n |-> NBytes(IF j = bad THEN BadBlinds[kind] ELSE BlindAt(j + 2 * n, salt))],
          blinds  |-> [j \in 1..n |-> NBytes(IF j + n = bad THEN BadBlinds[kind] ELSE BlindAt(j + 3 * n, salt + 1))] ] ]

\* split total T into m >= 1 parts (BigNat), pseudo-randomly
RECURSIVE SplitParts(_, _, _, _)
SplitParts(T, m, cap, salt) ==
  IF m = 1 THEN << T >>
  ELSE LET p == Mod(RndU64(salt + m), Add(cap, One)) IN << p >> \o SplitParts(Sub(T, p), m - 1, cap, salt)
Split(T, m, salt) == IF m = 0 THEN << >> ELSE SplitParts(T, m, Div(T, FromNat(m)), salt)
RECURSIVE ConcatMap(_, _, _, _)
\* items of one side: for generator k = 1..K the parts of its total; returns sequence of << k-1, value >>
ConcatMap(shape, totals, side, k) ==
  IF k > Len(shape) THEN << >>
  ELSE LET parts == Split(totals[k], shape[k][side], 100 * k + side)
       IN  [j \in 1..Len(parts) |-> << k - 1, parts[j] >>] \o ConcatMap(shape, totals, side, k + 1)
ExpandFlow(sh, off0, mode, ts) ==
  LET shape == Shapes[sh]   K == Len(shape)
      total(k) == IF shape[k][1] = 0 \/ shape[k][2] = 0 THEN Zero
                  ELSE IF ts = 1 THEN RndU64(70 + k) ELSE IF ts = 2 THEN U64Max ELSE FromNat(k + 3)
      totals == [k \in 1..K |-> total(k)]
      posI == ConcatMap(shape, totals, 1, 1)   negI == ConcatMap(shape, totals, 2, 1)
      items0 == posI \o negI     n == Len(items0)    npos == Len(posI)
      off == IF off0 = 3 /\ K = 1 THEN 0 ELSE off0
      bump(v) == IF v = U64Max THEN Sub(v, One) ELSE Add(v, One)
      items == CASE off = 1 -> [items0 EXCEPT ![1] = << @[1], bump(@[2]) >>]               \* first item off by one unit
                 [] off = 2 -> [items0 EXCEPT ![n] = << @[1], bump(@[2]) >>]               \* last item (helper blind) off by one unit
                 [] off = 3 -> [items0 EXCEPT ![1] = << (@[1] + 1) % K, @[2] >>]           \* first item moved to another generator
                 [] OTHER -> items0
      r == [k \in 1..K |-> IF k = 2 THEN Zero ELSE RndScalar(80 + k)]                     \* generator blinds (mode 1)
      gens == [k \in 1..K |-> GenSer(IF mode = 0 THEN FlowGenPts[k] ELSE PAdd(FlowGenPts[k], PMulG(r[k])))]
      nb == IF mode = 0 THEN n - 1 ELSE n
      bl == [j \in 1..nb |-> NBytes(IF off = 4 /\ j = 1 THEN N ELSE BlindAt(j + sh, ts))]
      base == [ gens |-> gens, gi |-> [j \in 1..n |-> items[j][1]], values |-> [j \in 1..n |-> PedU64Bytes(items[j][2])],
                blinds |-> IF nb = 0 THEN << >> ELSE bl, npos |-> npos, mode |-> mode, indep |-> 1 ]
  IN  [ e |-> "PedFlow", in |-> IF mode = 0 THEN base ELSE base @@ [ gblinds |-> [k \in 1..K |-> NBytes(r[k])] ] ]

\* raw tallies: empty lists (NULL and non-NULL pointers), one-sided lists, C and C, C and -C, unparsable members
RawC == PedSerCommit(PedCommitPoint(FromNat(5), FromNat(7), PedGenH))
RawNegC == PedSerCommit(PNeg(PedCommitPoint(FromNat(5), FromNat(7), PedGenH)))
TallyRec(pos, neg, nullp) == [ e |-> "PedTally", in |-> [ pos |-> pos, neg |-> neg, nullp |-> nullp ] ]
ExpandTallyRaw(k) ==
  CASE k = 1 -> TallyRec(<< >>, << >>, 1)
    [] k = 2 -> TallyRec(<< >>, << >>, 0)
    [] k = 3 -> TallyRec(<< RawC >>, << >>, 1)
    [] k = 4 -> TallyRec(<< >>, << RawC >>, 1)
    [] k = 5 -> TallyRec(<< RawC >>, << RawC >>, 0)
    [] k = 6 -> TallyRec(<< RawC, RawNegC >>, << >>, 1)
    [] k = 7 -> TallyRec(<< RawC >>, << RawNegC >>, 0)
    [] k = 8 -> TallyRec(<< RawC, << 8 >> \o NBytes(P) >>, << RawC >>, 0)

-----------------------------------------------------------------------------
\* X: the order-7/13/199 test groups (cfg: Cases <- TinyCases).  Generators are injected as encodings of
\* subgroup points h*G; every blind residue and overflow encoding, every value residue, every point.
NN == ToNat(N)
Big == NN > 50       \* order 199: sample some dimensions
TinyBlinds == { FromNat(x) : x \in 0..(NN + 2) } \cup { Max256 }
TinyVals == { FromNat(x) : x \in 0..(NN + 1) } \cup { Pow2(63), U64Max, Sub(U64Max, One) }
TinyHs == IF Big THEN { 1, 2, 57, NN - 1 } ELSE 1..(NN - 1)
TinyCommitHs == IF Big THEN { 1, 57 } ELSE 1..(NN - 1)
TinyFlowVals == IF Big THEN { 0, 1, 2, 57, 100, NN - 1 } ELSE 0..(NN - 1)
TinySumVals == IF Big THEN { 0, 1, 2, 100, NN - 2, NN - 1, NN, NN + 1, NN + 2 } ELSE 0..(NN + 2)
TinyPt(c) == PMulG(FromNat(c))
TinyC(c) == PedSerCommit(TinyPt(c))
\* a point on the curve outside the subgroup (the tiny curves have cofactors)
RECURSIVE FindOutside(_)
FindOutside(x0) == LET x == FindX(x0, TRUE)  Q == LiftXQuad(x)[2] IN IF IsInf(PMul(N, Q)) THEN FindOutside(Add(x, One)) ELSE Q
\* (guarded: TLC evaluates constant definitions eagerly, and secp256k1 itself has no such point)
OutsidePt == IF Lt(N, Pow2(16)) THEN FindOutside(One) ELSE Inf
TinyXs == << Zero, One, Sub(P, One), P, Add(P, One), Max256, FindX(Two, FALSE), OutsidePt[1] >>
TallyPts == IF Big THEN { 1, 2, 99, 100, 197, 198 } ELSE 1..(NN - 1)
Lists2 == { << >> } \cup { << a >> : a \in TallyPts } \cup { << a, b >> : a \in TallyPts, b \in TallyPts }
Lists2s == { l \in Lists2 : Len(l) < 2 \/ l[1] <= l[2] }      \* unordered pairs
TinyPrefixes == IF Thorough THEN 0..255 ELSE { 0, 1, 2, 3, 4, 7, 8, 9, 10, 11, 12, 136, 137, 138, 139, 254, 255 }
TinyCases ==
       { << "tcommit", b, v, h >> : b \in TinyBlinds, v \in TinyVals, h \in TinyCommitHs }
  \cup { << "ttally", ps, ns >> : ps \in Lists2s, ns \in Lists2s }
  \cup { << "ttally", ps, ns >> : ps \in Lists2 \ Lists2s, ns \in { l \in Lists2s : Len(l) < 2 } }
  \cup { << "ttally3", a, b, c, d >> : a \in TallyPts, b \in TallyPts, c \in { 1, 2, NN - 1 }, d \in { 0, 1 } }
  \cup { << "ttallyout", k >> : k \in 1..4 }
  \cup { << "tflow", h1, h1, v1, v2, b1, 0 >> : h1 \in TinyHs, v1 \in TinyFlowVals, v2 \in TinyFlowVals, b1 \in { 0, 5 } }
  \cup { << "tflow", h1, (h1 * 5) % NN, v1, v2, 5, 0 >> : h1 \in TinyHs, v1 \in TinyFlowVals, v2 \in TinyFlowVals }
  \cup { << "tflow", h1, (h1 * 5) % NN, v1, v2, b1, 1 >> : h1 \in TinyHs, v1 \in TinyFlowVals, v2 \in TinyFlowVals, b1 \in { 4 } }
  \cup { << "tparse", w, pfx, x >> : w \in { 8, 10 }, pfx \in TinyPrefixes, x \in 1..(Len(TinyXs) + (IF Big THEN 6 ELSE (NN - 1) \div 2)) }
  \cup { << "tbsum", l >> : l \in { << >> } \cup { << a >> : a \in TinySumVals } \cup { << a, b >> : a \in TinySumVals, b \in TinySumVals }
                                 \cup { << a, b, c >> : a \in { 0, 1, NN - 1, NN }, b \in { 1, NN - 1, NN + 1 }, c \in { 0, 2, NN - 1 } } }
  \cup { << "tgbsum", v, r, rp >> : v \in { 0, 1, 5, NN - 1, NN }, r \in { 0, 1, 6, NN - 1, NN }, rp \in { 0, 1, 3, NN - 1, NN + 1 } }
  \cup { << "tgbsum2", v1, r1, v2, r2, rp, nin >> : v1 \in { 1, 5 }, r1 \in { 0, 6, NN }, v2 \in { 0, 1, NN - 1 }, r2 \in { 1, NN - 1 },
                                                     rp \in { 0, 3, NN - 1 }, nin \in { 0, 1 } }

TinyGen(h) == GenSer(TinyPt(h))
TB(x) == NBytes(FromNat(x))
TV(x) == PedU64Bytes(FromNat(x))
MapC(l) == [k \in 1..Len(l) |-> TinyC(l[k])]
L0(l) == IF Len(l) = 0 THEN << >> ELSE l
ExpandTiny(c) ==
  CASE c[1] = "tcommit" -> [ e |-> "PedCommit", in |-> [ blind |-> NBytes(c[2]), value |-> PedU64Bytes(c[3]), gen |-> TinyGen(c[4]) ] ]
    [] c[1] = "ttally"  -> TallyRec(L0(MapC(c[2])), L0(MapC(c[3])), 1)
    [] c[1] = "ttally3" -> \* three positives against one negative: a + b + c  vs  (a + b + c + d)
         TallyRec(MapC(<< c[2], c[3], c[4] >>), IF (c[2] + c[3] + c[4] + c[5]) % NN = 0 THEN << >> ELSE << TinyC((c[2] + c[3] + c[4] + c[5]) % NN) >>, 0)
    [] c[1] = "ttallyout" -> \* commitments that are curve points outside the subgroup
         LET o == PedSerCommit(OutsidePt)  no == PedSerCommit(PNeg(OutsidePt)) IN
         ( CASE c[2] = 1 -> TallyRec(<< o >>, << o >>, 0) [] c[2] = 2 -> TallyRec(<< o, no >>, << >>, 0)
             [] c[2] = 3 -> TallyRec(<< o, TinyC(1) >>, << TinyC(1) >>, 0)
             [] c[2] = 4 -> TallyRec(<< o, TinyC(1) >>, << PedSerCommit(PAdd(OutsidePt, TinyPt(1))) >>, 0) )
    [] c[1] = "tflow" ->
         IF c[7] = 0
         THEN [ e |-> "PedFlow", in |-> [ gens |-> << TinyGen(c[2]), TinyGen(c[3]) >>, gi |-> << 0, 1 >>, values |-> << TV(c[4]), TV(c[5]) >>,
                                           blinds |-> << TB(c[6]) >>, npos |-> 1, mode |-> 0 ] ]
         ELSE LET r1 == IF (c[2] + 3) % NN = 0 THEN 4 ELSE 3     \* generator blinds (the blinded generator must not be infinity)
                  r2 == IF (c[3] + 5) % NN = 0 THEN 6 ELSE 5 IN
              [ e |-> "PedFlow", in |-> [ gens |-> << TinyGen((c[2] + r1) % NN), TinyGen((c[3] + r2) % NN) >>, gi |-> << 0, 1 >>,
                                           values |-> << TV(c[4]), TV(c[5]) >>, blinds |-> << TB(c[6]), TB(2) >>, gblinds |-> << TB(r1), TB(r2) >>,
                                           npos |-> 1, mode |-> 1 ] ]
    [] c[1] = "tparse" ->
         LET x == IF c[4] <= Len(TinyXs) THEN TinyXs[c[4]] ELSE TinyPt(c[4] - Len(TinyXs))[1] IN
         [ e |-> IF c[2] = 8 THEN "CommitParse" ELSE "GenParse", in |-> [ b |-> << c[3] >> \o NBytes(x) ] ]
    [] c[1] = "tbsum" -> [ e |-> "PedBlindSum", in |-> [ blinds |-> L0([k \in 1..Len(c[2]) |-> TB(c[2][k])]), npos |-> (Len(c[2]) + 1) \div 2 ] ]
    [] c[1] = "tgbsum" -> [ e |-> "PedBlindGenSum", in |-> [ values |-> << TV(c[2]) >>, gblinds |-> << TB(c[3]) >>, blinds |-> << TB(c[4]) >>, nin |-> 0 ] ]
    [] c[1] = "tgbsum2" -> [ e |-> "PedBlindGenSum", in |-> [ values |-> << TV(c[2]), TV(c[4]) >>, gblinds |-> << TB(c[3]), TB(c[5]) >>,
                                                              blinds |-> << TB(c[6]), TB(2) >>, nin |-> c[7] ] ]

Expand(c) ==
  CASE c[1] = "genh"     -> [ e |-> "GenH", in |-> [ x |-> 0 ] ]
    [] c[1] = "commit"   -> CommitRec(NBytes(c[2]), c[3], c[4])
    [] c[1] = "inf"      -> \* generator +-G: b*G + v*(+-G) is infinity for b = -+v; d = 1: one off (not infinity)
         CommitRec(NBytes(SAdd(IF c[3] = 7 THEN SNeg(c[2]) ELSE Mod(c[2], N), FromNat(c[4]))), c[2], c[3])
    [] c[1] = "generate" -> [ e |-> "GenGenerate", in |-> [ seed |-> SeedOf(c[2]) ] ]
    [] c[1] = "genblind" -> [ e |-> "GenGenerate", in |-> [ seed |-> SeedOf(c[2]), blind |-> NBytes(GBlindPool[c[3]]) ] ]
    [] c[1] = "svdw"     -> [ e |-> "PedSvdw", in |-> [ t |-> NBytes(c[2]) ] ]
    [] c[1] = "parse"    -> [ e |-> IF c[2] = 8 THEN "CommitParse" ELSE "GenParse", in |-> [ b |-> << c[3] >> \o NBytes(XClasses[c[4]]) ] ]
    [] c[1] = "bsum"     -> ExpandBSum(c[2], c[3], c[4], c[5], c[6])
    [] c[1] = "gbsum"    -> ExpandGbSum(c[2], c[3], c[4], c[5], c[6])
    [] c[1] = "flow"     -> ExpandFlow(c[2], c[3], c[4], c[5])
    [] c[1] = "tallyraw" -> ExpandTallyRaw(c[2])
    [] OTHER -> ExpandTiny(c)

-----------------------------------------------------------------------------
VARIABLES phase, cur, rec
vars == << phase, cur, rec >>
Init == phase = "pick" /\ cur = << >> /\ rec = << >>
Pick == phase = "pick" /\ \E c \in Cases : cur' = c /\ phase' = "eval" /\ rec' = << >>
Eval == phase = "eval" /\ LET x == Expand(cur) IN rec' = [ e |-> x.e, in |-> x.in, out |-> Out(x) ]
        /\ phase' = "done" /\ cur' = cur
Next == Pick \/ Eval
Spec == Init /\ [][Next]_vars

Done(e) == phase = "done" /\ rec.e = e
InvCommit   == Done("PedCommit") => CommitExact(rec.in, rec.out)
InvCodec    == /\ Done("GenParse") => CodecExact(10, rec.in, rec.out)
               /\ Done("CommitParse") => CodecExact(8, rec.in, rec.out)
InvGenerate == /\ Done("GenGenerate") => GenerateSound(rec.in, rec.out)
               /\ Done("PedSvdw") => SvdwSound(rec.in, rec.out)
InvBlinds   == /\ Done("PedBlindSum") => BlindSumBalances(rec.in, rec.out)
               /\ Done("PedBlindGenSum") => BlindGenSumBalances(rec.in, rec.out)
InvFlow     == Done("PedFlow") => FlowExact(rec.in, rec.out)
Emit == phase = "done" => EmitRecord(rec)
-----------------------------------------------------------------------------
\* T direction
TraceEvents == LoadTrace
TInit == phase = "pick" /\ cur = 0 /\ rec = TRUE
TPick == phase = "pick" /\ \E i \in 1..Len(TraceEvents) : cur' = i /\ phase' = "eval" /\ rec' = rec
TEval == phase = "eval" /\ rec' = SubRec(Out(TraceEvents[cur]), TraceEvents[cur].out) /\ phase' = "done" /\ cur' = cur
TNext == TPick \/ TEval
TraceOK == rec = TRUE
=============================================================================
