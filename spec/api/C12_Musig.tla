------------------------------- MODULE C12_Musig -------------------------------
(***************************************************************************)
(* C12 -- the MuSig2 API as a machine of call records.                     *)
(*                                                                         *)
(* One record is one PROGRAM: in.steps is a sequence of API steps working  *)
(* on numbered slots (keyagg caches c, nonce pairs n, aggregate nonces a,  *)
(* sessions s, partial signatures p, 64-byte signatures g); out.res is the *)
(* sequence of specified per-step results.  Step(st, x) is the abstract    *)
(* semantics of one API call on the abstract client state st (BIP-327      *)
(* values: keyagg contexts, nonce pairs, session values, scalars).         *)
(*                                                                         *)
(* Three machines share the variables:                                     *)
(*   Init/Next    pick a case descriptor, expand it to a program, evaluate *)
(*   SInit/SNext  the multi-signer SESSION machine: the steps of one       *)
(*                signing session happen in any API-legal order (nonces    *)
(*                before/after key aggregation, tweaks interleaved,        *)
(*                signers in any order); every complete run is emitted     *)
(*   TInit/TNext  validation of programs recorded from the implementation  *)
(* Steps carry the annotation exp (the verdict the PROPERTY demands,       *)
(* independent of the computation: own partial signature verifies, foreign *)
(* one does not, aggregate verifies) and expt (the adaptor secret to be    *)
(* extracted); InvExp compares them with the specified results.            *)
(***************************************************************************)
EXTENDS Bip327, CurveParams, Verif

E0 == << >>
OptF(x, f) == IF f \in DOMAIN x THEN x[f] ELSE << >>
PutS(st, fld, k, v) == [st EXCEPT ![fld] = (k :> v) @@ @]
St0 == [ c |-> E0, n |-> E0, a |-> E0, s |-> E0, p |-> E0, g |-> E0 ]
NBytes(x) == ToBytesBE(x, 32)
\* TLC keeps [i \in S |-> e] as an unevaluated lambda and re-evaluates e at every application; concatenation
\* forces it into an evaluated tuple (matters where e contains a scalar multiplication)
Tup(f) == f \o << >>

-----------------------------------------------------------------------------
\* specified result of every API step: << new abstract state, result record >>

StKeyAgg(st, x) ==
  LET k == MsKeyAgg(x.pks) IN
  IF ~k.ok THEN << st, [ ret |-> 0 ] >>
  ELSE << IF x.want >= 2 THEN PutS(st, "c", x.c, k) ELSE st,
          CASE x.want = 0 -> [ ret |-> 1 ]
            [] x.want = 1 -> [ ret |-> 1, aggpk |-> X32(k.Q) ]
            [] x.want = 2 -> [ ret |-> 1, pk |-> Ser33(k.Q) ]
            [] x.want = 3 -> [ ret |-> 1, aggpk |-> X32(k.Q), pk |-> Ser33(k.Q) ] >>

\* a failing tweak leaves the cache as it was; the output key is then "invalid" (all zero)
StTweak(st, x) ==
  LET r == MsApplyTweak(st.c[x.c], x.tweak, x.xonly = 1) IN
  IF r.ok THEN << PutS(st, "c", x.c, r),
                  IF x.outpk = 1 THEN [ ret |-> 1, pk |-> Ser33(r.Q), out |-> Ser33(r.Q) ] ELSE [ ret |-> 1, pk |-> Ser33(r.Q) ] >>
  ELSE << st, IF x.outpk = 1 THEN [ ret |-> 0, outz |-> 1 ] ELSE [ ret |-> 0 ] >>

AggPkArg(st, x) == IF "c" \in DOMAIN x THEN X32(st.c[x.c].Q) ELSE << >>
StNonceGen(st, x) ==
  LET hassk == "sk" \in DOMAIN x
      pkp == ParsePub(x.pk)
      bad == AllZero(x.rand) \/ (hassk /\ ~ParseSecret(x.sk)[1]) \/ ~pkp[1]
  IN  IF bad THEN << st, [ ret |-> 0 ] >>
      ELSE LET nn == MsNonceGen(x.rand, OptF(x, "sk"), hassk, Ser33(pkp[2]), AggPkArg(st, x), OptF(x, "msg"), "msg" \in DOMAIN x, OptF(x, "extra"))
           IN  IF ~nn.ok THEN << st, [ ret |-> 0 ] >>
               ELSE << PutS(st, "n", x.n, nn), [ ret |-> 1, pubnonce |-> MsPubNonceBytes(nn), randz |-> 1 ] >>
StNonceGenCtr(st, x) ==
  LET ps == ParseSecret(x.sk) IN
  IF ~ps[1] THEN << st, [ kret |-> 0 ] >>
  ELSE LET nn == MsNonceGenCounter(x.cnt, x.sk, Ser33(PMulG(ps[2])), AggPkArg(st, x), OptF(x, "msg"), "msg" \in DOMAIN x, OptF(x, "extra"))
       IN  IF ~nn.ok THEN << st, [ kret |-> 1, ret |-> 0 ] >>
           ELSE << PutS(st, "n", x.n, nn), [ kret |-> 1, ret |-> 1, pubnonce |-> MsPubNonceBytes(nn) ] >>
StNonceInject(st, x) ==
  LET nn == MsNonceFrom(FromBytesBE(x.k1), FromBytesBE(x.k2), x.pk)
  IN  << PutS(st, "n", x.n, nn), [ pubnonce |-> MsPubNonceBytes(nn) ] >>
StPnParse(st, x) ==
  LET p == MsParsePubNonce(x.in) IN
  IF p[1] THEN << PutS(st, "n", x.n, [ R1 |-> p[2], R2 |-> p[3] ]), [ ret |-> 1, ser |-> Ser33(p[2]) \o Ser33(p[3]) ] >>
  ELSE << st, [ ret |-> 0 ] >>
StNonceAgg(st, x) ==
  LET an == MsNonceAgg([i \in 1..Len(x.ns) |-> << st.n[x.ns[i]].R1, st.n[x.ns[i]].R2 >>])
  IN  << PutS(st, "a", x.a, an), [ ret |-> 1, aggnonce |-> MsAggNonceBytes(an) ] >>
StAnParse(st, x) ==
  LET p == MsParseAggNonce(x.in) IN
  IF p[1] THEN << PutS(st, "a", x.a, << p[2], p[3] >>), [ ret |-> 1, ser |-> MsAggNonceBytes(<< p[2], p[3] >>) ] >>
  ELSE << st, [ ret |-> 0 ] >>
StProcess(st, x) ==
  LET hasad == "adaptor" \in DOMAIN x
      ad == IF hasad THEN ParsePub(x.adaptor) ELSE << TRUE, Inf >>
  IN  IF ~ad[1] THEN << st, [ ret |-> 0 ] >>
      ELSE LET sv == MsSessionValues(st.a[x.a], x.msg, st.c[x.c], ad[2], hasad)
           IN  << PutS(st, "s", x.s, sv),
                  [ ret |-> 1, parity |-> MsNonceParity(sv), R |-> X32(sv.R), b |-> Scalar32(sv.b), e |-> Scalar32(sv.e) ] >>
StSign(st, x) ==
  LET ps == ParseSecret(x.sk) IN
  IF ~ps[1] THEN << st, [ kret |-> 0 ] >>
  ELSE LET r == MsPartialSign(st.n[x.n], ps[2], st.c[x.c], st.s[x.s]) IN
       IF ~r[1] THEN << st, [ kret |-> 1, ret |-> 0 ] >>
       ELSE << PutS(st, "p", x.p, r[2]), [ kret |-> 1, ret |-> 1, psig |-> Scalar32(r[2]) ] >>
StPsParse(st, x) ==
  LET s == FromBytesBE(x.in) IN
  IF Lt(s, N) THEN << PutS(st, "p", x.p, s), [ ret |-> 1 ] >> ELSE << st, [ ret |-> 0 ] >>
StPsMut(st, x) ==
  LET b == BXor(Scalar32(st.p[x.from]), x.xor)  s == FromBytesBE(b) IN
  IF Lt(s, N) THEN << PutS(st, "p", x.p, s), [ ret |-> 1, b |-> b ] >> ELSE << st, [ ret |-> 0, b |-> b ] >>
StPsVerify(st, x) ==
  << st, [ ret |-> B2I(MsPartialSigVerify(st.p[x.p], << st.n[x.n].R1, st.n[x.n].R2 >>, x.pk, st.c[x.c], st.s[x.s])) ] >>
StSigAgg(st, x) ==
  LET sig == MsPartialSigAgg([i \in 1..Len(x.ps) |-> st.p[x.ps[i]]], st.s[x.s])
  IN  << PutS(st, "g", x.g, sig), [ ret |-> 1, sig |-> sig ] >>
StVerify(st, x) == << st, [ ret |-> B2I(Verify(st.g[x.g], x.msg, X32(st.c[x.c].Q))) ] >>
StAdapt(st, x) ==
  LET r == MsAdapt(st.g[x.pre], x.t, MsNonceParity(st.s[x.s])) IN
  IF r[1] THEN << PutS(st, "g", x.g, r[2]), [ ret |-> 1, sig |-> r[2] ] >> ELSE << st, [ ret |-> 0 ] >>
StExtract(st, x) ==
  LET r == MsExtractAdaptor(st.g[x.g], st.g[x.pre], MsNonceParity(st.s[x.s])) IN
  IF r[1] THEN << st, [ ret |-> 1, t |-> r[2] ] >> ELSE << st, [ ret |-> 0 ] >>
StSigSet(st, x) == << PutS(st, "g", x.g, x.in), [ ok |-> 1 ] >>

Step(st, x) ==
  CASE x.op = "KeyAgg" -> StKeyAgg(st, x)         [] x.op = "Tweak" -> StTweak(st, x)
    [] x.op = "NonceGen" -> StNonceGen(st, x)     [] x.op = "NonceGenCtr" -> StNonceGenCtr(st, x)
    [] x.op = "NonceInject" -> StNonceInject(st, x) [] x.op = "PnParse" -> StPnParse(st, x)
    [] x.op = "NonceAgg" -> StNonceAgg(st, x)     [] x.op = "AnParse" -> StAnParse(st, x)
    [] x.op = "Process" -> StProcess(st, x)       [] x.op = "Sign" -> StSign(st, x)
    [] x.op = "PsParse" -> StPsParse(st, x)       [] x.op = "PsMut" -> StPsMut(st, x)
    [] x.op = "PsVerify" -> StPsVerify(st, x)     [] x.op = "SigAgg" -> StSigAgg(st, x)
    [] x.op = "Verify" -> StVerify(st, x)         [] x.op = "Adapt" -> StAdapt(st, x)
    [] x.op = "Extract" -> StExtract(st, x)       [] x.op = "SigSet" -> StSigSet(st, x)

\* << final state, results >>
RECURSIVE RunFrom(_, _, _, _)
RunFrom(steps, i, st, acc) ==
  IF i > Len(steps) THEN << st, acc >>
  ELSE LET r == Step(st, steps[i]) IN RunFrom(steps, i + 1, r[1], Append(acc, r[2]))
Run(steps) == RunFrom(steps, 1, St0, << >>)
Out(ev) == [ res |-> Run(ev.in.steps)[2], icb |-> 0 ]

\* design-level expectations carried by the steps
ExpOK(steps, res) ==
  \A i \in 1..Len(steps) :
     /\ ("exp" \in DOMAIN steps[i]) => res[i].ret = steps[i].exp
     /\ ("expt" \in DOMAIN steps[i]) => (res[i].ret = 1 /\ res[i].t = steps[i].expt)
\* every result field the specification constrains is present and equal, step by step
ResOK(exp, act) == Len(exp) = Len(act) /\ \A i \in 1..Len(exp) : SubRec(exp[i], act[i])

-----------------------------------------------------------------------------
\* step constructors
OpKeyAgg(c, pks, want) == [ op |-> "KeyAgg", c |-> c, pks |-> pks, want |-> want ]
OpTweak(c, xonly, t32, outpk) == [ op |-> "Tweak", c |-> c, xonly |-> xonly, tweak |-> t32, outpk |-> outpk ]
BitOf(mask, k) == ((mask \div (2^k)) % 2) = 1
\* mask bits: 0 sk, 1 msg, 2 cache, 3 extra
OpNonceGen(n, rand, pk, mask, sk, msg, c, extra) ==
  [ op |-> "NonceGen", n |-> n, rand |-> rand, pk |-> pk ]
    @@ (IF BitOf(mask, 0) THEN [ sk |-> sk ] ELSE E0) @@ (IF BitOf(mask, 1) THEN [ msg |-> msg ] ELSE E0)
    @@ (IF BitOf(mask, 2) THEN [ c |-> c ] ELSE E0) @@ (IF BitOf(mask, 3) THEN [ extra |-> extra ] ELSE E0)
OpNonceGenCtr(n, cnt8, sk, mask, msg, c, extra) ==
  [ op |-> "NonceGenCtr", n |-> n, cnt |-> cnt8, sk |-> sk ]
    @@ (IF BitOf(mask, 1) THEN [ msg |-> msg ] ELSE E0)
    @@ (IF BitOf(mask, 2) THEN [ c |-> c ] ELSE E0) @@ (IF BitOf(mask, 3) THEN [ extra |-> extra ] ELSE E0)
OpNonceInject(n, k1, k2, pk) == [ op |-> "NonceInject", n |-> n, k1 |-> NBytes(k1), k2 |-> NBytes(k2), pk |-> pk ]
OpNonceAgg(a, ns) == [ op |-> "NonceAgg", a |-> a, ns |-> ns ]
OpProcess(s, a, msg, c, ad) == IF Len(ad) = 0 THEN [ op |-> "Process", s |-> s, a |-> a, msg |-> msg, c |-> c ]
                               ELSE [ op |-> "Process", s |-> s, a |-> a, msg |-> msg, c |-> c, adaptor |-> ad ]
OpSign(p, n, d, c, s) == [ op |-> "Sign", p |-> p, n |-> n, sk |-> NBytes(d), c |-> c, s |-> s ]
OpPsVerify(p, n, pk, c, s) == [ op |-> "PsVerify", p |-> p, n |-> n, pk |-> pk, c |-> c, s |-> s ]
OpPsVerifyE(p, n, pk, c, s, e) == [ op |-> "PsVerify", p |-> p, n |-> n, pk |-> pk, c |-> c, s |-> s, exp |-> e ]
OpSigAgg(g, s, ps) == [ op |-> "SigAgg", g |-> g, s |-> s, ps |-> ps ]
OpVerify(g, msg, c) == [ op |-> "Verify", g |-> g, msg |-> msg, c |-> c ]
OpVerifyE(g, msg, c, e) == [ op |-> "Verify", g |-> g, msg |-> msg, c |-> c, exp |-> e ]
OpAdapt(g, pre, t32, s) == [ op |-> "Adapt", g |-> g, pre |-> pre, t |-> t32, s |-> s ]
OpExtractE(g, pre, s, t32) == [ op |-> "Extract", g |-> g, pre |-> pre, s |-> s, expt |-> t32 ]
Prog(steps) == [ e |-> "MusigProg", in |-> [ steps |-> steps ] ]
Nop == Prog(<< [ op |-> "PsParse", p |-> 1, in |-> NBytes(One) ] >>)

-----------------------------------------------------------------------------
\* G: generated programs in the real group
Max256 == Sub(Pow2(256), One)
Thorough == EnvNat("VERIF_THOROUGH") = 1
RndScalar(i) == LET r == Mod(FromBytesBE(Rnd32(i)), N) IN IF IsZero(r) THEN One ELSE r
\* signer keys: 1, 2, n-1 (same x as key 1, other parity) and seeded random ones
KeyOf(j) == CASE j = 1 -> One [] j = 2 -> Two [] j = 3 -> Sub(N, One) [] OTHER -> RndScalar(100 + j)
PkOf(d) == Ser33(PMulG(d))

\* key lists (indices into KeyOf): single, distinct, duplicates, first key repeated, all equal, +-G
KeyPatsQ == << <<4>>, <<1>>, <<4,5>>, <<4,4>>, <<1,3>>, <<5,4>>, <<4,5,6>>, <<4,4,5>>, <<4,5,4>>, <<4,4,4>>, <<4,5,5>>,
               <<4,5,6,7>>, <<4,4,5,5>>, <<4,4,4,5>>, <<4,5,6,4>>, <<4,4,4,4>>, <<3,1,3,2>> >>
KeyPatsT == << [i \in 1..8 |-> 3 + i], [i \in 1..16 |-> 3 + i], [i \in 1..16 |-> 4], [i \in 1..16 |-> IF i < 16 THEN 4 ELSE 5],
               [i \in 1..16 |-> IF (i % 2) = 1 THEN 4 ELSE 5], [i \in 1..12 |-> 4 + (i % 3)], [i \in 1..7 |-> 20 - i] >>
KeyPats == IF Thorough THEN KeyPatsQ \o KeyPatsT ELSE KeyPatsQ

\* tweak sequences: << xonly, kind >>; kind 0 seeded random, 1 result has odd y (so that a following x-only
\* tweak negates: the parity accumulator flips at every step), 2 result has even y, 3 zero, 4 n-1,
\* 5 n (invalid), 6 2^256-1 (invalid), 7 the tweak that sends the key to infinity (invalid)
TwPatsQ == << << >>, << <<1,1>> >>, << <<0,1>> >>, << <<0,1>>, <<1,1>> >>, << <<1,1>>, <<1,1>> >>, << <<1,2>>, <<1,0>> >>,
              << <<1,1>>, <<0,1>>, <<1,1>> >>, << <<1,1>>, <<1,1>>, <<1,1>> >>, << <<0,0>>, <<0,3>>, <<1,4>> >>,
              << <<1,1>>, <<0,7>> >>, << <<1,7>> >>, << <<0,5>> >>, << <<1,1>>, <<1,6>> >>, << <<1,3>>, <<1,1>>, <<1,5>> >> >>
TwPatsT == << << <<1,1>>, <<1,1>>, <<1,1>>, <<1,1>> >>, << <<1,1>>, <<0,1>>, <<1,1>>, <<0,2>>, <<1,1>> >>,
              << <<1,1>>, <<1,1>>, <<1,1>>, <<1,1>>, <<1,1>>, <<1,1>> >>, << <<0,1>>, <<1,1>>, <<0,1>>, <<1,1>>, <<0,1>>, <<1,1>> >>,
              << <<1,2>>, <<1,1>>, <<1,2>>, <<1,1>>, <<0,0>>, <<1,0>> >>, << <<0,0>>, <<0,0>>, <<0,0>>, <<0,0>>, <<0,0>>, <<0,0>> >>,
              << <<1,1>>, <<1,1>>, <<1,1>>, <<1,1>>, <<1,1>>, <<1,7>> >> >>
TwPats == IF Thorough THEN TwPatsQ \o TwPatsT ELSE TwPatsQ

\* search t = t0, t0+1, t0+2, ... until the tweaked key has the wanted parity; candidate j+1 is candidate j plus G
RECURSIVE FindTweakFrom(_, _, _, _, _)
FindTweakFrom(t, Q1, wantodd, limit, j) ==
  IF j >= limit \/ (~IsInf(Q1) /\ (HasEvenY(Q1) # wantodd)) THEN NBytes(t)
  ELSE FindTweakFrom(SAdd(t, One), PAdd(Q1, G), wantodd, limit, j + 1)
FindTweak(kctx, xo, wantodd, seed) ==
  LET t0 == RndScalar(seed)
      Qg == IF xo /\ ~HasEvenY(kctx.Q) THEN PNeg(kctx.Q) ELSE kctx.Q
  IN  FindTweakFrom(t0, PAdd(Qg, PMulG(t0)), wantodd, 64, 0)

\* -> << tweak steps, final keyagg context, a tweak failed >>; a failing tweak ends the list
RECURSIVE BuildTweaks(_, _, _, _, _, _, _)
BuildTweaks(kctx, pks, ds, pat, i, seed, acc) ==
  IF i > Len(pat) THEN << acc, kctx, FALSE >>
  ELSE LET xo == pat[i][1] = 1   kind == pat[i][2]
           g == IF xo /\ ~HasEvenY(kctx.Q) THEN MsMinusOne ELSE One
           t32 == CASE kind = 0 -> Rnd32(seed + 50 * i)
                    [] kind = 1 -> FindTweak(kctx, xo, TRUE, seed + 50 * i)
                    [] kind = 2 -> FindTweak(kctx, xo, FALSE, seed + 50 * i)
                    [] kind = 3 -> Zeros(32)
                    [] kind = 4 -> NBytes(Sub(N, One))
                    [] kind = 5 -> NBytes(N)
                    [] kind = 6 -> NBytes(Max256)
                    [] kind = 7 -> NBytes(SNeg(SMul(g, MsAggSecret(kctx, pks, ds))))
           r == MsApplyTweak(kctx, t32, xo)
           step == OpTweak(1, pat[i][1], t32, (i % 2))
       IN  IF r.ok THEN BuildTweaks(r, pks, ds, pat, i + 1, seed, Append(acc, step))
           ELSE << Append(acc, step), kctx, TRUE >>

CounterPoolQ == << Zero, One, Sub(Pow2(32), One), Pow2(32), Add(Pow2(32), One), Pow2(63), Sub(Pow2(64), One) >>
CounterPoolT == << Pow2(8), Pow2(16), Pow2(24), Pow2(31), Pow2(33), Add(Pow2(33), One), Pow2(40), Pow2(48), Pow2(56),
                   Add(Pow2(56), One), Sub(Pow2(63), One), Add(Pow2(63), Pow2(31)), Sub(Pow2(64), Two), Add(Pow2(32), Pow2(31)) >>
CounterPool == IF Thorough THEN CounterPoolQ \o CounterPoolT ELSE CounterPoolQ
Cnt8(x) == ToBytesBE(x, 8)

\* A session description sd:
\*   kp  key pattern        tp  tweak pattern
\*   nk  nonces: 0 nonce_gen, 1 nonce_gen_counter, 5 injected; 2/3/4: the last signer's nonce is the negation
\*       of the sum of the others' in the first / second / both components (aggregate component = infinity)
\*   ad  0 no adaptor, 1 random adaptor, 2 the adaptor that cancels the first aggregate nonce
\*   ord 0 keyagg, tweaks, nonces   1 nonces, keyagg, tweaks   2 keyagg, nonces, tweaks
\*   ex  1 = add foreign-signer / foreign-nonce / foreign-session / mutated-signature checks
\*   seed individualises the seeded random values
RECURSIVE SumK(_, _, _, _)
SumK(st, comp, i, upto) == IF i > upto THEN Zero
                           ELSE SAdd(IF comp = 1 THEN st.n[i].k1 ELSE st.n[i].k2, SumK(st, comp, i + 1, upto))
BuildSession(sd) ==
  LET n == Len(sd.kp)
      ds == Tup([i \in 1..n |-> KeyOf(sd.kp[i])])
      pks == Tup([i \in 1..n |-> PkOf(ds[i])])
      msg == Rnd32(sd.seed + 3)
      k0 == MsKeyAgg(pks)
      tw == BuildTweaks(k0, pks, ds, sd.tp, 1, sd.seed + 1000, << >>)
      agg == << OpKeyAgg(1, pks, 3) >>
      cacheok == sd.ord # 1
      lastneg == sd.nk \in {2, 3, 4} /\ n >= 2
      nsteps0 == Tup([i \in 1..n |->
                   IF sd.nk = 1
                   THEN OpNonceGenCtr(i, Cnt8(CounterPool[((sd.seed + i) % Len(CounterPool)) + 1]), NBytes(ds[i]),
                                      IF cacheok THEN ((sd.seed + 3 * i) % 16) ELSE ((sd.seed + 3 * i) % 4) + (8 * ((sd.seed + i) % 2)),
                                      msg, 1, Rnd32(sd.seed + 7 * i + 2))
                   ELSE IF sd.nk = 5
                   THEN OpNonceInject(i, RndScalar(sd.seed + 7 * i + 4), RndScalar(sd.seed + 7 * i + 5), pks[i])
                   ELSE OpNonceGen(i, Rnd32(sd.seed + 7 * i + 1), pks[i],
                                   IF cacheok THEN ((sd.seed + 5 * i) % 16) ELSE ((sd.seed + 5 * i) % 4) + (8 * ((sd.seed + i) % 2)),
                                   NBytes(ds[i]), msg, 1, Rnd32(sd.seed + 7 * i + 2))])
      pre0 == CASE sd.ord = 0 -> agg \o tw[1] \o SubSeq(nsteps0, 1, n - 1)
                [] sd.ord = 1 -> SubSeq(nsteps0, 1, n - 1) \o agg \o tw[1]
                [] sd.ord = 2 -> agg \o SubSeq(nsteps0, 1, n - 1) \o tw[1]
      st0 == Run(pre0)[1]
      lastn == IF lastneg
               THEN OpNonceInject(n, IF sd.nk \in {2, 4} THEN SNeg(SumK(st0, 1, 1, n - 1)) ELSE RndScalar(sd.seed + 11),
                                     IF sd.nk \in {3, 4} THEN SNeg(SumK(st0, 2, 1, n - 1)) ELSE RndScalar(sd.seed + 12), pks[n])
               ELSE nsteps0[n]
      nsteps == [i \in 1..n |-> IF i = n THEN lastn ELSE nsteps0[i]]
      pre == CASE sd.ord = 0 -> agg \o tw[1] \o nsteps
               [] sd.ord = 1 -> nsteps \o agg \o tw[1]
               [] sd.ord = 2 -> agg \o nsteps \o tw[1]
      t == CASE sd.ad = 0 -> Zero
             [] sd.ad = 1 -> RndScalar(sd.seed + 13)
             [] sd.ad = 2 -> SNeg(SumK(Run(pre)[1], 1, 1, n))
      adp == IF sd.ad = 0 THEN << >> ELSE PkOf(t)
      sigok == IF sd.nk = 4 /\ n >= 2 /\ sd.ad = 0 THEN 0 ELSE 1       \* both aggregate components infinite: R := G, invalid signature
      core == << OpNonceAgg(1, [i \in 1..n |-> i]), OpProcess(1, 1, msg, 1, adp) >>
              \o [i \in 1..n |-> OpSign(i, i, ds[i], 1, 1)]
              \o [i \in 1..n |-> OpPsVerifyE(i, i, pks[i], 1, 1, 1)]
      extra == IF sd.ex = 1 /\ n >= 2
               THEN << OpPsVerifyE(1, 2, pks[2], 1, 1, 0), OpPsVerifyE(1, 2, pks[1], 1, 1, 0),
                       OpProcess(2, 1, Rnd32(sd.seed + 14), 1, adp), OpPsVerifyE(1, 1, pks[1], 1, 2, 0),
                       [ op |-> "PsMut", p |-> n + 1, from |-> 1, xor |-> FlipBit(Zeros(32), 8 + (sd.seed % 240)) ],
                       OpPsVerifyE(n + 1, 1, pks[1], 1, 1, 0),
                       OpSigAgg(3, 1, [i \in 1..n |-> IF i = 1 THEN n + 1 ELSE i]), OpVerifyE(3, msg, 1, 0) >>
                    \o (IF pks[2] # pks[1] THEN << OpPsVerifyE(1, 1, pks[2], 1, 1, 0) >> ELSE << >>)
               ELSE << >>
      fin == << OpSigAgg(1, 1, [i \in 1..n |-> i]) >>
             \o (IF sd.ad = 0 THEN << OpVerifyE(1, msg, 1, sigok) >>
                 ELSE << OpVerifyE(1, msg, 1, 0), OpAdapt(2, 1, NBytes(t), 1), OpVerifyE(2, msg, 1, 1), OpExtractE(2, 1, 1, NBytes(t)) >>)
  IN  IF tw[3] THEN Prog(agg \o tw[1]) ELSE Prog(pre \o core \o extra \o fin)

SessOf(c) == [ kp |-> KeyPats[c[2]], tp |-> TwPats[c[3]], nk |-> c[4], ad |-> c[5], ord |-> c[6], ex |-> c[7],
               seed |-> 2000 * ((((c[2] * 32 + c[3]) * 8 + c[4]) * 4 + c[5]) * 4 + c[6]) ]

\* nonce_gen_counter over the counter pool, one program per optional-argument mask (bit 1 msg, 2 cache, 3 extra)
BuildCtr(mask) ==
  LET d == KeyOf(4)  pks == << PkOf(d), PkOf(KeyOf(5)) >> IN
  Prog(<< OpKeyAgg(1, pks, 2) >> \o
       [j \in 1..Len(CounterPool) |-> OpNonceGenCtr(j, Cnt8(CounterPool[j]), NBytes(d), mask, Rnd32(31), 1, Rnd32(32))])
\* nonce_gen with every combination of optional arguments; v: 0 plain, 1 public key not matching the secret key,
\* 2 secret key 0, 3 secret key n, 4 uncompressed public key argument, 5 tweaked cache
BuildNg(mask, v) ==
  LET d == KeyOf(4)  pks == << PkOf(d), PkOf(KeyOf(5)) >>
      sk == CASE v = 2 -> Zeros(32) [] v = 3 -> NBytes(N) [] OTHER -> NBytes(d)
      pk == CASE v = 1 -> PkOf(KeyOf(6)) [] v = 4 -> Ser65(PMulG(d)) [] OTHER -> PkOf(d) IN
  Prog(<< OpKeyAgg(1, pks, 2) >> \o (IF v = 5 THEN << OpTweak(1, 1, Rnd32(35), 0) >> ELSE << >>) \o
       << OpNonceGen(1, Rnd32(33), pk, mask, sk, Rnd32(31), 1, Rnd32(32)) >>)
\* key aggregation output-argument combinations
BuildWant(kp, want) == Prog(<< OpKeyAgg(1, Tup([i \in 1..Len(KeyPats[kp]) |-> PkOf(KeyOf(KeyPats[kp][i]))]), want) >>)

\* parsers of the public objects, and overflow handling of adapt / extract
OffCurveX == NBytes(FromNat(5))     \* x = 5 has no point on secp256k1
BuildParse ==
  LET g1 == Ser33(G)  g2 == Ser33(PMulG(Two))  bad == << 2 >> \o OffCurveX  z == Zeros(33)
      d == KeyOf(4)  pk == PkOf(d)
      goodsig == X32(G) \o NBytes(One) IN
  Prog(<< [ op |-> "PnParse", n |-> 1, in |-> g1 \o g2 ], [ op |-> "PnParse", n |-> 2, in |-> bad \o g2 ],
          [ op |-> "PnParse", n |-> 2, in |-> g1 \o bad ], [ op |-> "PnParse", n |-> 2, in |-> z \o g2 ],
          [ op |-> "PnParse", n |-> 2, in |-> g1 \o z ], [ op |-> "PnParse", n |-> 2, in |-> (<< 4 >> \o Tail(g1)) \o g2 ],
          [ op |-> "PnParse", n |-> 2, in |-> g1 \o (<< 2 >> \o NBytes(P)) ],
          [ op |-> "AnParse", a |-> 1, in |-> z \o z ], [ op |-> "AnParse", a |-> 2, in |-> z \o g2 ],
          [ op |-> "AnParse", a |-> 3, in |-> g1 \o z ], [ op |-> "AnParse", a |-> 4, in |-> g1 \o g2 ],
          [ op |-> "AnParse", a |-> 5, in |-> bad \o g2 ], [ op |-> "AnParse", a |-> 5, in |-> g1 \o (<< 0 >> \o Tail(g1)) ],
          [ op |-> "PsParse", p |-> 1, in |-> Zeros(32) ], [ op |-> "PsParse", p |-> 2, in |-> NBytes(Sub(N, One)) ],
          [ op |-> "PsParse", p |-> 3, in |-> NBytes(N) ], [ op |-> "PsParse", p |-> 3, in |-> NBytes(Max256) ],
          OpKeyAgg(1, << pk >>, 2), OpNonceInject(3, Two, FromNat(3), pk), OpNonceAgg(6, << 3 >>),
          OpProcess(1, 6, Rnd32(41), 1, << >>), OpProcess(2, 1, Rnd32(41), 1, << >>), OpProcess(3, 2, Rnd32(41), 1, << >>),
          OpProcess(4, 3, Rnd32(41), 1, << >>),
          [ op |-> "SigSet", g |-> 1, in |-> goodsig ], [ op |-> "SigSet", g |-> 2, in |-> X32(G) \o NBytes(N) ],
          [ op |-> "SigSet", g |-> 3, in |-> X32(G) \o NBytes(Sub(N, One)) ],
          OpAdapt(4, 1, NBytes(Two), 1), OpAdapt(4, 1, NBytes(Zero), 1), OpAdapt(4, 1, NBytes(N), 1), OpAdapt(4, 1, NBytes(Max256), 1),
          OpAdapt(4, 2, NBytes(Two), 1), OpAdapt(4, 3, NBytes(Two), 1), OpAdapt(5, 3, NBytes(Sub(N, One)), 2),
          [ op |-> "Extract", g |-> 3, pre |-> 1, s |-> 1 ], [ op |-> "Extract", g |-> 1, pre |-> 3, s |-> 2 ],
          [ op |-> "Extract", g |-> 2, pre |-> 1, s |-> 1 ], [ op |-> "Extract", g |-> 1, pre |-> 2, s |-> 1 ],
          [ op |-> "Extract", g |-> 1, pre |-> 1, s |-> 3 ] >>)

NKP == Len(KeyPats)
NTP == Len(TwPats)
\* quick tier: a covering selection; thorough tier: the products
CasesQ ==
       { << "sess", kp, 7, (kp % 2), 0, (kp % 3), 0 >> : kp \in 1..NKP }                      \* every key list, tweaks x,p,x with parity flips
  \cup { << "sess", kp, 1, ((kp + 1) % 2), 0, ((kp + 1) % 3), 0 >> : kp \in {1, 4, 10, 13} }  \* untweaked
  \cup { << "sess", 3, tp, (tp % 2), (tp % 2), (tp % 3), IF tp \in {2, 5} THEN 1 ELSE 0 >> : tp \in 1..NTP }   \* every tweak sequence
  \cup { << "sess", 8, tp, ((tp + 1) % 2), ((tp + 1) % 2), (tp % 3), 0 >> : tp \in {4, 8, 9} }
  \cup { << "sess", 3, 1, nk, ad, 0, IF ad = 0 THEN 1 ELSE 0 >> : nk \in {2, 3, 4}, ad \in {0, 1} }    \* aggregate nonce components at infinity
  \cup { << "sess", 3, 2, 4, 0, 0, 0 >>, << "sess", 3, 2, 2, 1, 0, 0 >> }
  \cup { << "sess", 7, 2, nk, (nk % 2), 0, 0 >> : nk \in {2, 3, 4} }
  \cup { << "sess", 3, 1, 0, 2, 0, 0 >>, << "sess", 3, 2, 1, 2, 0, 0 >> }                     \* the adaptor cancels the first aggregate nonce
  \cup { << "sess", 5, 4, 5, 1, 1, 1 >> }
CasesT ==
       { << "sess", kp, tp, (kp % 2), ((kp + tp) % 2), (kp % 3), 0 >> : kp \in 1..NKP, tp \in {1, 7, 8, NTP - 2, NTP - 4} }
  \cup { << "sess", kp, tp, (tp % 2), ad, (tp % 3), 1 >> : kp \in {3, 8}, tp \in 1..NTP, ad \in {0, 1} }
  \cup { << "sess", kp, tp, nk, ad, ord, 1 >> : kp \in {3, 7}, tp \in {1, 2}, nk \in {2, 3, 4}, ad \in {0, 1}, ord \in {0, 2} }
  \cup { << "sess", kp, tp, nk, 2, 0, 0 >> : kp \in {3, 7, 10}, tp \in {1, 2}, nk \in {0, 1} }
  \cup { << "sess", kp, 4, 5, 1, 1, 1 >> : kp \in {5, 13} }
Cases ==
       (IF Thorough THEN CasesT ELSE CasesQ)
  \cup { << "ctr", mask >> : mask \in {0, 2, 4, 6, 8, 10, 12, 14} }
  \cup { << "ng", mask, 0 >> : mask \in 0..15 }
  \cup { << "ng", mask, v >> : mask \in {1, 15}, v \in 1..5 }
  \cup { << "want", kp, w >> : kp \in {3, 10}, w \in 0..3 }
  \cup { << "parse" >> }

-----------------------------------------------------------------------------
\* X: the order-7/13/199 test groups.  Nonces are injected (a hash output is a valid small nonce only by
\* chance), keys/nonces/tweaks/adaptors range over ALL residues in the order-7/13 groups (sampled at 199).
NN == ToNat(N)
Res == IF NN <= 13 THEN 1..(NN - 1) ELSE { 1, 2, 3, (NN - 1) \div 2, NN - 2, NN - 1, 1 + (Seed % (NN - 1)), 1 + ((7 * Seed + 3) % (NN - 1)) }
TMsg(m) == Rep(m, 32)
\* ds: key scalars (TLC ints); tws: << xonly, t >> with t an int (may be >= NN: invalid);
\* ks: << k1, k2 >> per signer; adt: adaptor secret or 0; m: message number
K(v) == 1 + ((v - 1) % (NN - 1))      \* any positive int -> a nonzero residue
\* -> << context after the successful tweaks, number of successful tweaks >> (stops at the first failing one)
RECURSIVE TinyTw(_, _, _)
TinyTw(kc, tws, i) == IF i > Len(tws) THEN << kc, i - 1 >>
                      ELSE LET r == MsApplyTweak(kc, NBytes(FromNat(tws[i][2])), tws[i][1] = 1)
                           IN  IF r.ok THEN TinyTw(r, tws, i + 1) ELSE << kc, i - 1 >>
TinySession(ds, tws, ks, adt, m) ==
  LET n == Len(ds)
      pks == Tup([i \in 1..n |-> PkOf(FromNat(ds[i]))])
      msg == TMsg(m)
      k0 == MsKeyAgg(pks)
      twsteps == [i \in 1..Len(tws) |-> OpTweak(1, tws[i][1], NBytes(FromNat(tws[i][2])), (i % 2))]
  IN  IF ~k0.ok THEN Nop
      ELSE LET kf == TinyTw(k0, tws, 1) IN
           IF kf[2] < Len(tws) THEN Prog(<< OpKeyAgg(1, pks, 3) >> \o SubSeq(twsteps, 1, kf[2] + 1))    \* ends with the failing tweak
           ELSE LET an == MsNonceAgg([i \in 1..n |-> << PMulG(FromNat(ks[i][1])), PMulG(FromNat(ks[i][2])) >>])
                    T  == IF adt = 0 THEN Inf ELSE PMulG(FromNat(adt))
                    sv == MsSessionValues(an, msg, kf[1], T, adt # 0)
                    ok == IF sv.rinf THEN 0 ELSE 1
                    adp == IF adt = 0 THEN << >> ELSE Ser33(T)
                IN  Prog(<< OpKeyAgg(1, pks, 3) >> \o twsteps
                         \o [i \in 1..n |-> OpNonceInject(i, FromNat(ks[i][1]), FromNat(ks[i][2]), pks[i])]
                         \o << OpNonceAgg(1, [i \in 1..n |-> i]), OpProcess(1, 1, msg, 1, adp) >>
                         \o [i \in 1..n |-> OpSign(i, i, FromNat(ds[i]), 1, 1)]
                         \o [i \in 1..n |-> OpPsVerifyE(i, i, pks[i], 1, 1, 1)]
                         \o (IF n >= 2 THEN << OpPsVerify(1, 2, pks[2], 1, 1), OpPsVerify(2, 1, pks[1], 1, 1), OpPsVerify(1, 1, pks[2], 1, 1) >> ELSE << >>)
                         \o << OpSigAgg(1, 1, [i \in 1..n |-> i]) >>
                         \o (IF adt = 0 THEN << OpVerifyE(1, msg, 1, ok) >>
                             ELSE << OpVerify(1, msg, 1), OpAdapt(2, 1, NBytes(FromNat(adt)), 1), OpVerifyE(2, msg, 1, ok),
                                     OpExtractE(2, 1, 1, NBytes(FromNat(adt))) >>))
NegK(k) == IF ((NN - k) % NN) = 0 THEN 1 ELSE ((NN - k) % NN)
\* quick tier: every key pair, every nonce pair of signer 1 against the cancelling nonces of signer 2, every tweak residue
\* (also as a second tweak), every adaptor; the thorough tier takes the larger products
TinyCases ==
       { << "tk", d1, d2, nv, tw >> : d1 \in Res, d2 \in Res \cup {0}, nv \in IF Thorough THEN 1..2 ELSE {1}, tw \in 0..2 }
  \cup { << "tn", kv, a1, a2, m >> : kv \in IF Thorough THEN 1..2 ELSE {1}, a1 \in Res, a2 \in Res, m \in 1..4 }
  \cup { << "tn", 2, a1, a2, 3 >> : a1 \in Res, a2 \in {1, NN - 1} }
  \cup { << "tt", x1, t1, x2, t2 >> : x1 \in 0..1, t1 \in Res \cup {0, NN, NN + 1}, x2 \in 0..1,
                                       t2 \in IF Thorough THEN Res \cup {0, NN, NN + 1} ELSE {0, NN - 2, NN} }
  \cup { << "tt1", x1, t1 >> : x1 \in 0..1, t1 \in Res \cup {0, NN, NN + 1} }
  \cup { << "ta", t, a1, bm >> : t \in Res, a1 \in Res, bm \in IF Thorough THEN 1..3 ELSE 1..2 }
  \cup { << "t3", d1, d2, d3 >> : d1 \in IF Thorough THEN {1, 4} ELSE {4}, d2 \in Res, d3 \in Res }
ExpandTiny(c) ==
  CASE c[1] = "tk" -> LET ds == IF c[3] = 0 THEN << c[2] >> ELSE << c[2], c[3] >>
                          ks == IF c[4] = 1 THEN << <<2, K(7)>>, <<5, 3>> >> ELSE << <<NN - 1, 1>>, <<4, NN - 2>> >>
                          tws == CASE c[5] = 0 -> << >> [] c[5] = 1 -> << <<1, 4>> >> [] c[5] = 2 -> << <<1, 2>>, <<0, 5>>, <<1, 3>> >>
                      IN  TinySession(ds, tws, SubSeq(ks, 1, Len(ds)), 0, 1 + (c[2] % 2))
    [] c[1] = "tn" -> LET ds == IF c[2] = 1 THEN << 3, 5 >> ELSE << 4, 4 >>
                          k2 == CASE c[5] = 1 -> << NegK(c[3]), 2 >>           \* first components cancel
                                  [] c[5] = 2 -> << 3, NegK(c[4]) >>           \* second components cancel
                                  [] c[5] = 3 -> << NegK(c[3]), NegK(c[4]) >>  \* both cancel
                                  [] c[5] = 4 -> << 2, K(6) >>
                      IN  TinySession(ds, << >>, << << c[3], c[4] >>, k2 >>, 0, 2)
    [] c[1] = "tt" -> TinySession(<< 3, 5 >>, << << c[2], c[3] >>, << c[4], c[5] >> >>, << <<2, K(6)>>, <<5, 3>> >>, 0, 3)
    [] c[1] = "tt1" -> TinySession(<< 2, 2 >>, << << c[2], c[3] >> >>, << <<1, 3>>, <<4, 5>> >>, 0, 3)
    [] c[1] = "ta" -> LET b1 == CASE c[4] = 1 -> NegK((c[3] + c[2]) % NN)    \* R1 + T cancels
                                  [] c[4] = 2 -> 2 [] c[4] = 3 -> NegK(c[3])
                      IN  TinySession(IF (c[2] % 2) = 1 THEN << 3, 5 >> ELSE << 4, 4 >>, << << 1, 3 >> >>, << << c[3], 3 >>, << b1, 5 >> >>, c[2], 4)
    [] c[1] = "t3" -> TinySession(<< c[2], c[3], c[4] >>, << << 1, 2 >> >>, << <<2, 3>>, <<4, 1>>, <<6, 5>> >>, 0, 5)

Expand(c) ==
  CASE c[1] = "sess" -> BuildSession(SessOf(c))
    [] c[1] = "ctr" -> BuildCtr(c[2])
    [] c[1] = "ng" -> BuildNg(c[2], c[3])
    [] c[1] = "want" -> BuildWant(c[2], c[3])
    [] c[1] = "parse" -> BuildParse
    [] OTHER -> ExpandTiny(c)

-----------------------------------------------------------------------------
VARIABLES phase, cur, rec
vars == << phase, cur, rec >>
Init == phase = "pick" /\ cur = << >> /\ rec = << >>
Pick == phase = "pick" /\ \E c \in Cases : cur' = c /\ phase' = "eval" /\ rec' = << >>
Eval == phase = "eval" /\ LET x == Expand(cur) IN rec' = [ e |-> x.e, in |-> x.in, out |-> Out(x) ]
        /\ phase' = "done" /\ cur' = cur
Next == Pick \/ Eval

\* design-level invariants on every evaluated program
\* (1) the verdicts the property demands: own partial signatures verify, foreign ones (other key, other nonce,
\*     other session, mutated) do not, the aggregate is a valid BIP-340 signature for the tweaked aggregate key,
\*     adapt and extract are inverse
InvExp == phase \in { "done", "sdone" } => ExpOK(rec.in.steps, rec.out.res)
\* (2) the counter nonce generator is injective on the counter pool (2^32 apart => different nonces)
InvCtr == (phase = "done" /\ cur[1] = "ctr") =>
            \A i, j \in 2..Len(rec.out.res) : i # j => rec.out.res[i].pubnonce # rec.out.res[j].pubnonce
Emit == phase \in { "done", "sdone" } => EmitRecord(rec)

-----------------------------------------------------------------------------
\* The multi-signer session machine.  cur = the protocol state: abstract client state st, the steps taken
\* so far and their specified results, and the progress flags.  Any enabled step may be taken next:
\*   KeyAgg           any time (once)
\*   Tweak k          after KeyAgg and tweak k-1, before Process
\*   Nonce i          any time (once per signer); with the cache argument when a cache exists (both choices)
\*   NonceAgg         after all nonces
\*   Process          after NonceAgg, KeyAgg and all tweaks
\*   Sign i           after Process, signers in any order
\*   SigAgg           after all Sign; then the verification steps are appended and the run is emitted.
\* cfg: [ ds (key scalars), tws (<< xonly, tweak32 >>), msg, adt (adaptor scalar or Zero), inj (<< k1, k2 >> per signer, or << >> = nonce_gen),
\*        wcs (which choices a nonce generation after KeyAgg has: 1 = pass the cache, 0 = do not) ]
SessCfgsReal ==
  IF Thorough
  THEN { [ ds |-> << KeyOf(4), KeyOf(5) >>, tws |-> << << 1, Rnd32(51) >>, << 0, Rnd32(57) >> >>, msg |-> Rnd32(52), adt |-> Zero, inj |-> << >>, wcs |-> { 0, 1 } ],
         [ ds |-> << KeyOf(4), KeyOf(4), KeyOf(6) >>, tws |-> << << 1, Rnd32(53) >> >>, msg |-> Rnd32(55),
           adt |-> RndScalar(56), inj |-> << >>, wcs |-> { 1 } ] }
  ELSE { [ ds |-> << KeyOf(4), KeyOf(5) >>, tws |-> << << 1, Rnd32(51) >> >>, msg |-> Rnd32(52), adt |-> RndScalar(56), inj |-> << >>, wcs |-> { 1 } ] }
SessCfgsTiny ==
  { [ ds |-> << FromNat(3), FromNat(5) >>, tws |-> << << 1, NBytes(FromNat(4)) >>, << 0, NBytes(FromNat(2)) >> >>, msg |-> TMsg(7), adt |-> Zero,
      inj |-> << << FromNat(2), FromNat(K(6)) >>, << FromNat(5), FromNat(3) >> >>, wcs |-> { 0 } ],
    [ ds |-> << FromNat(4), FromNat(4) >>, tws |-> << << 1, NBytes(FromNat(1)) >> >>, msg |-> TMsg(8), adt |-> FromNat(5),
      inj |-> << << FromNat(1), FromNat(3) >>, << FromNat(NN - 1), FromNat(2) >> >>, wcs |-> { 0 } ] }
  \cup (IF Thorough THEN { [ ds |-> << FromNat(2), FromNat(6), FromNat(2) >>, tws |-> << << 1, NBytes(FromNat(3)) >>, << 1, NBytes(FromNat(5)) >> >>,
                             msg |-> TMsg(9), adt |-> Zero,
                             inj |-> << << FromNat(2), FromNat(3) >>, << FromNat(4), FromNat(1) >>, << FromNat(6), FromNat(5) >> >>, wcs |-> { 0 } ] } ELSE { })
SessCfgs == SessCfgsReal

MS0(cfg) == [ cfg |-> cfg, pks |-> Tup([i \in 1..Len(cfg.ds) |-> PkOf(cfg.ds[i])]), st |-> St0, steps |-> << >>, res |-> << >>, agg |-> FALSE, tw |-> 0, ng |-> { }, na |-> FALSE, pr |-> FALSE, sg |-> { }, sa |-> FALSE ]
MSApply(ms, x) == LET r == Step(ms.st, x) IN [ ms EXCEPT !.st = r[1], !.steps = Append(@, x), !.res = Append(@, r[2]) ]
MSAdaptor(cfg) == IF IsZero(cfg.adt) THEN << >> ELSE PkOf(cfg.adt)
\* the set of protocol states reachable from ms by one API step
MSSucc(ms) ==
  LET cfg == ms.cfg  n == Len(cfg.ds)  pks == ms.pks IN
       { [ MSApply(ms, OpKeyAgg(1, pks, 3)) EXCEPT !.agg = TRUE ] : z \in IF ms.agg THEN { } ELSE { 1 } }
  \cup { [ MSApply(ms, OpTweak(1, cfg.tws[ms.tw + 1][1], cfg.tws[ms.tw + 1][2], (ms.tw % 2))) EXCEPT !.tw = ms.tw + 1 ]
         : z \in IF ms.agg /\ ms.tw < Len(cfg.tws) /\ ~ms.pr THEN { 1 } ELSE { } }
  \cup { [ MSApply(ms, IF Len(cfg.inj) > 0 THEN OpNonceInject(i, cfg.inj[i][1], cfg.inj[i][2], pks[i])
                       ELSE IF (i % 2) = 1
                       THEN OpNonceGen(i, Rnd32(60 + i), pks[i], 3 + (4 * wc) + (8 * (i % 2)), NBytes(cfg.ds[i]), cfg.msg, 1, Rnd32(70 + i))
                       ELSE OpNonceGenCtr(i, Cnt8(Add(Pow2(32), FromNat(i))), NBytes(cfg.ds[i]), 2 + (4 * wc), cfg.msg, 1, Rnd32(70 + i)))
           EXCEPT !.ng = ms.ng \cup { i } ]
         : i \in (1..n) \ ms.ng, wc \in IF ms.agg /\ Len(cfg.inj) = 0 THEN cfg.wcs ELSE { 0 } }
  \cup { [ MSApply(ms, OpNonceAgg(1, [i \in 1..n |-> i])) EXCEPT !.na = TRUE ] : z \in IF ms.ng = 1..n /\ ~ms.na THEN { 1 } ELSE { } }
  \cup { [ MSApply(ms, OpProcess(1, 1, cfg.msg, 1, MSAdaptor(cfg))) EXCEPT !.pr = TRUE ]
         : z \in IF ms.na /\ ms.agg /\ ms.tw = Len(cfg.tws) /\ ~ms.pr THEN { 1 } ELSE { } }
  \cup { [ MSApply(ms, OpSign(i, i, cfg.ds[i], 1, 1)) EXCEPT !.sg = ms.sg \cup { i } ] : i \in IF ms.pr THEN (1..n) \ ms.sg ELSE { } }
  \cup { [ MSApply(ms, OpSigAgg(1, 1, [i \in 1..n |-> i])) EXCEPT !.sa = TRUE ] : z \in IF ms.sg = 1..n /\ ms.pr /\ ~ms.sa THEN { 1 } ELSE { } }
\* the closing verification steps of a complete run, with the verdicts the property demands
\* (foreign-signer verdicts are demanded in the real group only: in a 13-element group they can collide)
MSFinal(ms) ==
  LET cfg == ms.cfg  n == Len(cfg.ds)  pks == ms.pks  real == Len(N) > 4
      ok == IF ms.st.s[1].rinf THEN 0 ELSE 1
      t32 == NBytes(cfg.adt) IN
     [i \in 1..n |-> OpPsVerifyE(i, i, pks[i], 1, 1, 1)]
  \o (IF n >= 2 THEN (IF real THEN << OpPsVerifyE(1, 2, pks[2], 1, 1, 0) >>
                      ELSE << OpPsVerify(1, 2, pks[2], 1, 1), OpPsVerify(2, 1, pks[1], 1, 1) >>) ELSE << >>)
  \o (IF IsZero(cfg.adt) THEN << OpVerifyE(1, cfg.msg, 1, ok) >>
      ELSE << OpVerify(1, cfg.msg, 1), OpAdapt(2, 1, t32, 1), OpVerifyE(2, cfg.msg, 1, ok), OpExtractE(2, 1, 1, t32) >>)
SInit == phase = "run" /\ rec = << >> /\ \E cfg \in SessCfgs : cur = MS0(cfg)
SStep == phase = "run" /\ ~cur.sa /\ \E m \in MSSucc(cur) : cur' = m /\ phase' = "run" /\ rec' = << >>
SDone == phase = "run" /\ cur.sa /\ phase' = "sdone" /\ cur' = cur
         /\ LET fin == MSFinal(cur) IN
            rec' = [ e |-> "MusigProg", in |-> [ steps |-> cur.steps \o fin ],
                     out |-> [ res |-> RunFrom(fin, 1, cur.st, cur.res)[2], icb |-> 0 ] ]
SNext == SStep \/ SDone
\* InvExp on the complete runs says: the demanded verdicts hold whatever the order of the steps was.
\* Both generators in one TLC run (their phases are disjoint):
InitAll == Init \/ SInit
NextAll == Next \/ SNext

-----------------------------------------------------------------------------
\* T direction: programs recorded from the implementation; every specified result field must be present and
\* equal, no illegal-argument callback, and the verdicts demanded by the driver's annotations must hold
TraceEvents == LoadTrace
TInit == phase = "pick" /\ cur = 0 /\ rec = TRUE
TPick == phase = "pick" /\ \E i \in 1..Len(TraceEvents) : cur' = i /\ phase' = "eval" /\ rec' = rec
TEval == phase = "eval" /\ phase' = "done" /\ cur' = cur
         /\ LET ev == TraceEvents[cur] IN
            rec' = (ResOK(Run(ev.in.steps)[2], ev.out.res) /\ ev.out.icb = 0 /\ ExpOK(ev.in.steps, ev.out.res))
TNext == TPick \/ TEval
TraceOK == rec = TRUE
=============================================================================
