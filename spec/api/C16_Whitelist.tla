------------------------------- MODULE C16_Whitelist -------------------------------
(* C16 -- whitelist proofs as a machine of call records (same shape as C01_Ecdsa). *)
EXTENDS Whitelist, CurveParams, Verif

Pts(keys33) == [i \in 1..Len(keys33) |-> ParsePub(keys33[i])[2]]

OutSign(i) ==
  LET n == Len(i.ons) IN
  IF n > WlMaxKeys \/ i.index >= n THEN [ ret |-> 0, icb |-> 1 ]      \* documented illegal use
  ELSE LET a == WlSign(Pts(i.ons), Pts(i.offs), ParsePub(i.sub)[2], i.onsec, i.sumsec, i.index) IN
       IF a[1] = 1 THEN [ ret |-> 1, nk |-> n, sret |-> 1, sig |-> WlSerialize(a[2], a[3]), icb |-> 0 ]
       ELSE [ ret |-> 0, icb |-> 0 ]

OutVerify(i) ==
  LET p == WlParse(i.sig)  nk == IF "nkeys" \in DOMAIN i THEN i.nkeys ELSE Len(i.ons) IN
  IF ~p[1] THEN [ pret |-> 0, ret |-> 0, icb |-> 0 ]
  \* the C API takes the list length as an argument: the key list is the first nk entries
  ELSE LET ons == IF nk <= Len(i.ons) THEN SubSeq(i.ons, 1, nk) ELSE i.ons
           offs == IF nk <= Len(i.offs) THEN SubSeq(i.offs, 1, nk) ELSE i.offs IN
       [ pret |-> 1, nk |-> p[2], icb |-> 0, sret |-> 1, ser |-> i.sig, sret_short |-> 0,
         ret |-> B2I(nk <= Len(i.ons) /\ WlVerify(p[2], p[3], Pts(ons), Pts(offs), ParsePub(i.sub)[2])) ]

Out(ev) == CASE ev.e = "WlSign" -> OutSign(ev.in) [] ev.e = "WlVerify" -> OutVerify(ev.in)

\* design-level theorems on generated records
SignSound(i, o) == o.ret = 1 =>
  LET p == WlParse(o.sig) IN p[1] /\ WlVerify(p[2], p[3], Pts(i.ons), Pts(i.offs), ParsePub(i.sub)[2])
SignRefuses(i, o) == (~ValidSecret(FromBytesBE(i.onsec)) \/ ~ValidSecret(FromBytesBE(i.sumsec))) => o.ret = 0
NeverEmpty(i, o) == Len(i.ons) = 0 => o.ret = 0

-----------------------------------------------------------------------------
NBytes(x) == ToBytesBE(x, 32)
Max256 == Sub(Pow2(256), One)
\* key material: small secret scalars keep the specification's multiplications cheap
OnSec(i)  == FromNat(3 + 2 * i)           \* i = 1..n
SumSec(i) == FromNat(1000 + 7 * i)        \* summed key = offline secret + whitelisted secret
WSec      == FromNat(77)
WPt       == PMulG(WSec)
OnPt(i)   == PMulG(OnSec(i))
OffPt(i)  == PSub(PMulG(SumSec(i)), WPt)
OnList(n)  == [i \in 1..n |-> Ser33(OnPt(i))]
OffList(n) == [i \in 1..n |-> Ser33(OffPt(i))]
Honest(n, idx) == WlSign([i \in 1..n |-> OnPt(i)], [i \in 1..n |-> OffPt(i)], WPt, NBytes(OnSec(idx + 1)), NBytes(SumSec(idx + 1)), idx)

SmallN == IF EnvNat("VERIF_THOROUGH") = 1 THEN 1..8 ELSE 1..5
BigN   == IF EnvNat("VERIF_THOROUGH") = 1 THEN {16, 254, 255} ELSE {255}
Cases ==
       { << "sign", n, idx >> : n \in SmallN, idx \in 0..7 }                       \* idx >= n: illegal use
  \cup { << "signbig", n, idx >> : n \in BigN, idx \in {0} }
  \cup { << "signbad", n, which, val >> : n \in {1, 3}, which \in {1, 2}, val \in { Zero, N, Add(N, One), Max256 } }
  \cup { << "verify", n, idx, mut >> : n \in SmallN, idx \in {0, 1, 4}, mut \in 0..12 }
  \cup { << "flip", bit >> : bit \in 0..775 }
  \cup { << "forge", n, mut >> : n \in {1, 2, 3}, mut \in 0..3 }
  \cup { << "forgepos", n, j >> : n \in {2, 3, 4}, j \in 2..4 }              \* s_j + N at EVERY non-signer position (j > n: skipped to j = n)
  \cup { << "empty", v >> : v \in 0..3 }
  \cup { << "forgezero", n, j >> : n \in {2, 3}, j \in 2..3 }                  \* a ring member CHOOSES s_j = 0 for another member: the equation closes, verification must refuse
  \cup { << "offnegw", n, pos, what >> : n \in {2, 3}, pos \in 1..3, what \in 0..1 }      \* offline_pos = -W at a NON-signer position (signer = member 1 or 2)
  \cup { << "infring", n, v >> : n \in {1, 2, 3}, v \in 0..1 }
  \cup { << "count", c, dl >> : c \in 0..255, dl \in {0, 1, 2} }

WV(sig, ons, offs, sub) == [ e |-> "WlVerify", in |-> [ sig |-> sig, ons |-> ons, offs |-> offs, sub |-> sub ] ]
SetScalar(data, i, x) == SubSeq(data, 1, 32 * i) \o NBytes(x) \o SubSeq(data, 32 * i + 33, Len(data))
Swap(s, a, b) == [s EXCEPT ![a] = s[b], ![b] = s[a]]

ExpandVerify(n, idx0, mut) ==
  LET idx == idx0 % n
      h == Honest(n, idx)  sig == WlSerialize(h[2], h[3])  ons == OnList(n)  offs == OffList(n)  sub == Ser33(WPt)
  IN CASE mut = 0 -> WV(sig, ons, offs, sub)
       [] mut = 1 -> WV(WlSerialize(n, SetScalar(h[3], 1, Zero)), ons, offs, sub)
       [] mut = 2 -> WV(WlSerialize(n, SetScalar(h[3], n, N)), ons, offs, sub)
       [] mut = 3 -> WV(WlSerialize(n, SetScalar(h[3], idx + 1, SNeg(WlScalar(h[3], idx + 1)))), ons, offs, sub)
       [] mut = 4 -> WV(sig, IF n > 1 THEN Swap(ons, 1, n) ELSE << Ser33(PMulG(FromNat(5))) >>, offs, sub)       \* permuted / replaced online keys
       [] mut = 5 -> WV(sig, ons, IF n > 1 THEN Swap(offs, 1, n) ELSE << Ser33(PMulG(FromNat(6))) >>, sub)
       [] mut = 6 -> WV(sig, ons, offs, Ser33(PMulG(FromNat(78))))                                                \* other whitelisted key
       [] mut = 7 -> WV(sig, Append(ons, Ser33(PMulG(FromNat(9)))), Append(offs, Ser33(PMulG(FromNat(10)))), sub)  \* count mismatch (list longer)
       [] mut = 8 -> WV(sig, SubSeq(ons, 1, n - 1), SubSeq(offs, 1, n - 1), sub)                                   \* count mismatch (list shorter)
       [] mut = 9 -> WV(sig \o << 0 >>, ons, offs, sub)                                                            \* trailing byte
       [] mut = 10 -> WV(SubSeq(sig, 1, Len(sig) - 1), ons, offs, sub)                                             \* truncated
       [] mut = 11 -> [ e |-> "WlVerify", in |-> [ sig |-> sig, ons |-> ons, offs |-> offs, sub |-> sub, nkeys |-> n + 1 ] ]
       [] mut = 12 -> WV(WlSerialize(n, SetScalar(h[3], 1, Max256)), ons, offs, sub)

\* a prover that knows member 1's secret and CHOOSES the other scalars small, so that s + N still fits in 32 bytes
ExpandForge(n, mut) ==
  LET onp == [i \in 1..n |-> OnPt(i)]  offp == [i \in 1..n |-> OffPt(i)]
      keys == WlRingKeys(onp, offp, WPt)  msg == WlMsg(onp, offp, WPt)
      sec == SAdd(SMul(SumSec(1), FromBytesBE(Sha256Hash(Ser33(PMulG(SumSec(1)))))), OnSec(1))
      b == BorSign(keys, [i \in 1..n |-> FromNat(100 + i)], << FromNat(12345) >>, << sec >>, << n >>, << 0 >>, msg)
      data == b[2] \o Flatten([i \in 1..n |-> Scalar32(b[3][i])])
  IN CASE mut = 0 -> WV(WlSerialize(n, data), OnList(n), OffList(n), Ser33(WPt))
       [] mut = 1 -> WV(WlSerialize(n, SetScalar(data, n, Add(WlScalar(data, n), IF n > 1 THEN N ELSE Zero))), OnList(n), OffList(n), Ser33(WPt))  \* s + N re-encoding
       [] mut = 2 -> WV(WlSerialize(n, SetScalar(data, n, Add(WlScalar(data, n), One))), OnList(n), OffList(n), Ser33(WPt))
       [] mut = 3 -> WV(WlSerialize(n, SubSeq(data, 1, 31) \o << (data[32] + 1) % 256 >> \o SubSeq(data, 33, Len(data))), OnList(n), OffList(n), Ser33(WPt))

\* the same prover, re-encoding the chosen scalar of member j (any position, not only the last) as s_j + N
ExpandForgePos(n, j0) ==
  LET j == IF j0 > n THEN n ELSE j0
      onp == [i \in 1..n |-> OnPt(i)]  offp == [i \in 1..n |-> OffPt(i)]
      keys == WlRingKeys(onp, offp, WPt)  msg == WlMsg(onp, offp, WPt)
      sec == SAdd(SMul(SumSec(1), FromBytesBE(Sha256Hash(Ser33(PMulG(SumSec(1)))))), OnSec(1))
      b == BorSign(keys, [i \in 1..n |-> FromNat(100 + i)], << FromNat(12345) >>, << sec >>, << n >>, << 0 >>, msg)
      data == b[2] \o Flatten([i \in 1..n |-> Scalar32(b[3][i])])
  IN WV(WlSerialize(n, SetScalar(data, j, Add(WlScalar(data, j), N))), OnList(n), OffList(n), Ser33(WPt))

\* a key list in which offline_pos = -W (pos is not the signer): signing (what = 0) and verifying the specified signature (what = 1)
ExpandOffNegW(n, pos0, what) ==
  LET pos == IF pos0 > n THEN n ELSE pos0
      signer == IF pos = 1 THEN 2 ELSE 1
      offp == [i \in 1..n |-> IF i = pos THEN PNeg(WPt) ELSE OffPt(i)]
      onp  == [i \in 1..n |-> OnPt(i)]
      offs == [i \in 1..n |-> Ser33(offp[i])]
      sg == WlSign(onp, offp, WPt, NBytes(OnSec(signer)), NBytes(SumSec(signer)), signer - 1)
  IN  IF what = 0 THEN [ e |-> "WlSign", in |-> [ ons |-> OnList(n), offs |-> offs, sub |-> Ser33(WPt), onsec |-> NBytes(OnSec(signer)),
                                                   sumsec |-> NBytes(SumSec(signer)), index |-> signer - 1 ] ]
      ELSE WV(WlSerialize(sg[2], sg[3]), OnList(n), offs, Ser33(WPt))

ExpandForgeZero(n, j0) ==
  LET j == IF j0 > n THEN n ELSE j0
      onp == [i \in 1..n |-> OnPt(i)]  offp == [i \in 1..n |-> OffPt(i)]
      keys == WlRingKeys(onp, offp, WPt)  msg == WlMsg(onp, offp, WPt)
      sec == SAdd(SMul(SumSec(1), FromBytesBE(Sha256Hash(Ser33(PMulG(SumSec(1)))))), OnSec(1))
      b == BorSign(keys, [i \in 1..n |-> IF i = j THEN Zero ELSE FromNat(100 + i)], << FromNat(12345) >>, << sec >>, << n >>, << 0 >>, msg)
      data == b[2] \o Flatten([i \in 1..n |-> Scalar32(b[3][i])])
  IN WV(WlSerialize(n, data), OnList(n), OffList(n), Ser33(WPt))

\* finding F1: for an EMPTY key list the ring chain degenerates to e0 = H(msg), computable by anyone
ExpandEmpty(v) ==
  LET msg == Sha256Hash(Ser33(WPt))  e0 == Sha256Hash(msg) IN
  CASE v = 0 -> WV(<< 0 >> \o e0, << >>, << >>, Ser33(WPt))
    [] v = 1 -> WV(<< 0 >> \o Zeros(32), << >>, << >>, Ser33(WPt))
    [] v = 2 -> WV(<< 0 >> \o e0, OnList(1), OffList(1), Ser33(WPt))
    [] v = 3 -> [ e |-> "WlVerify", in |-> [ sig |-> << 0 >> \o e0, ons |-> OnList(1), offs |-> OffList(1), sub |-> Ser33(WPt), nkeys |-> 0 ] ]

\* a key list whose LAST ring key is the point at infinity: online_n = -H(offline_n + W)(offline_n + W), computable from
\* public keys.  Infinity has the known discrete logarithm 0, so e0 = H(ser33(s_n G) || m) closes the ring for ANY
\* s values -- a forgery from public data unless verification rejects infinity ring keys.
ExpandInfRing(n, v) ==
  LET onp  == [i \in 1..n |-> IF i = n THEN PNeg(WlTweaked(OffPt(n), WPt)) ELSE OnPt(i)]
      offp == [i \in 1..n |-> OffPt(i)]
      ons  == [i \in 1..n |-> Ser33(onp[i])]
      msg  == WlMsg(onp, offp, WPt)
      ss   == [i \in 1..n |-> FromNat(40 + i)]
      e0   == Sha256Hash(Ser33(PMulG(ss[n])) \o msg)
      data == e0 \o Flatten([i \in 1..n |-> Scalar32(ss[i])])
  IN  IF v = 0 THEN WV(WlSerialize(n, data), ons, OffList(n), Ser33(WPt))
      ELSE WV(WlSerialize(n, SetScalar(data, n, One)), ons, OffList(n), Ser33(WPt))

Expand(c) ==
  CASE c[1] = "infring" -> ExpandInfRing(c[2], c[3])
    [] c[1] = "sign" \/ c[1] = "signbig" ->
         [ e |-> "WlSign", in |-> [ ons |-> OnList(c[2]), offs |-> OffList(c[2]), sub |-> Ser33(WPt),
                                    onsec |-> NBytes(OnSec((c[3] % c[2]) + 1)), sumsec |-> NBytes(SumSec((c[3] % c[2]) + 1)), index |-> c[3] ] ]
    [] c[1] = "signbad" ->
         [ e |-> "WlSign", in |-> [ ons |-> OnList(c[2]), offs |-> OffList(c[2]), sub |-> Ser33(WPt),
                                    onsec |-> IF c[3] = 1 THEN NBytes(c[4]) ELSE NBytes(OnSec(1)),
                                    sumsec |-> IF c[3] = 2 THEN NBytes(c[4]) ELSE NBytes(SumSec(1)), index |-> 0 ] ]
    [] c[1] = "verify" -> ExpandVerify(c[2], c[3], c[4])
    [] c[1] = "flip" -> LET h == Honest(2, 1) IN WV(FlipBit(WlSerialize(h[2], h[3]), c[2]), OnList(2), OffList(2), Ser33(WPt))
    [] c[1] = "forge" -> ExpandForge(c[2], c[3])
    [] c[1] = "empty" -> ExpandEmpty(c[2])
    [] c[1] = "forgezero" -> ExpandForgeZero(c[2], c[3])
    [] c[1] = "offnegw" -> ExpandOffNegW(c[2], c[3], c[4])
    [] c[1] = "forgepos" -> ExpandForgePos(c[2], c[3])
    [] c[1] = "count" -> WV(<< c[2] >> \o Rep(1, 32 * (IF c[2] = 255 THEN 256 ELSE c[2] + c[3])), OnList(1), OffList(1), Ser33(WPt))

-----------------------------------------------------------------------------
VARIABLES phase, cur, rec
vars == << phase, cur, rec >>
Init == phase = "pick" /\ cur = << >> /\ rec = << >>
Pick == phase = "pick" /\ \E c \in Cases : cur' = c /\ phase' = "eval" /\ rec' = << >>
Eval == phase = "eval" /\ LET x == Expand(cur) IN rec' = [ e |-> x.e, in |-> x.in, out |-> Out(x) ]
        /\ phase' = "done" /\ cur' = cur
Next == Pick \/ Eval
InvSign == (phase = "done" /\ rec.e = "WlSign") => SignSound(rec.in, rec.out) /\ SignRefuses(rec.in, rec.out)
InvVerify == (phase = "done" /\ rec.e = "WlVerify") => NeverEmpty(rec.in, rec.out)
Emit == phase = "done" => EmitRecord(rec)

TraceEvents == LoadTrace
TInit == phase = "pick" /\ cur = 0 /\ rec = TRUE
TPick == phase = "pick" /\ \E i \in 1..Len(TraceEvents) : cur' = i /\ phase' = "eval" /\ rec' = rec
\* The signature BYTES are implementation-defined (the nonce / forged-scalar derivation is transcribed only to predict
\* them): the property promises a signature that verifies.  Observed events are judged by that post-condition.
Soft(ev) == IF ev.e = "WlSign" THEN { "sig" } ELSE { }
\* "signing with the CORRECT secrets yields a signature that verifies" (the API does not check that the secrets belong to
\* the member at `index`; with foreign secrets it returns 1 and a signature that does not verify)
SecretsCorrect(i) ==
  LET idx == i.index + 1  W == ParsePub(i.sub)[2] IN
  /\ idx <= Len(i.ons)
  /\ PMulG(FromBytesBE(i.onsec)) = ParsePub(i.ons[idx])[2]
  /\ PMulG(FromBytesBE(i.sumsec)) = PAdd(ParsePub(i.offs[idx])[2], W)
Post(ev) == (ev.e = "WlSign" /\ ev.out.ret = 1 /\ SecretsCorrect(ev.in)) => SignSound(ev.in, ev.out)
Judge(ev) == LET exp == Out(ev) IN
  /\ \A k \in (DOMAIN exp) \ Soft(ev) : k \in DOMAIN ev.out /\ ev.out[k] = exp[k]
  /\ Post(ev)
TEval == phase = "eval" /\ rec' = Judge(TraceEvents[cur]) /\ phase' = "done" /\ cur' = cur
TNext == TPick \/ TEval
TraceOK == rec = TRUE
=============================================================================
