------------------------------- MODULE C17_HalfAgg -------------------------------
(***************************************************************************)
(* C17 -- the half-aggregation API as (a) a machine of call records        *)
(* (Pick/Eval, as C01/C02), (b) a HISTORY machine: a sequence of valid     *)
(* signatures aggregated by every composition n = n1 + ... + nk of         *)
(* incremental steps (HInit/HNext), (c) the trace machine.                 *)
(* Keys are 32-byte x-only encodings, messages 32 bytes, signatures 64.    *)
(***************************************************************************)
EXTENDS HalfAgg, CurveParams, Verif

VARIABLES phase, cur, rec
vars == << phase, cur, rec >>
\* TLC evaluates every parameterless constant-level definition eagerly at start-up (in every run, whatever the cfg);
\* the large case sets are therefore written as operators applied to a variable (state level: evaluated on use only)

-----------------------------------------------------------------------------
\* specified results of the API calls (field names = harness record fields)
KeysOk(pks) == \A i \in 1..Len(pks) : ParseXOnly(pks[i])[1]

\* secp256k1_schnorrsig_aggregate into a buffer of i.buflen bytes: succeeds iff the buffer can hold
\* 32(n+1) bytes; the length is set to exactly 32(n+1); nothing is written beyond the buffer (guard)
OutAggregate(i) ==
  LET n == Len(i.pks) IN
  IF ~KeysOk(i.pks) THEN [ pret |-> 0, icb |-> 0 ]
  ELSE IF (i.buflen \div 32) >= n + 1
       THEN [ pret |-> 1, ret |-> 1, len |-> 32 * (n + 1), agg |-> Aggregate(i.pks, i.msgs, i.sigs)[2], guard |-> 1, icb |-> 0 ]
       ELSE [ pret |-> 1, ret |-> 0, guard |-> 1, icb |-> 0 ]

\* secp256k1_schnorrsig_inc_aggregate: i.buf is the buffer (contents and capacity), its first 32(nbefore+1)
\* bytes the input aggregate; i.pks/i.msgs all n keys/messages, i.sigs the n - nbefore new signatures.
\* (nbefore = 0: the aggregate of no signatures, 32 zero bytes -- records are only generated with such a buffer)
OutInc(i) ==
  LET n == Len(i.pks)  v == i.nbefore IN
  IF ~KeysOk(i.pks) THEN [ pret |-> 0, icb |-> 0 ]
  ELSE IF (Len(i.buf) \div 32) >= n + 1
       THEN [ pret |-> 1, ret |-> 1, len |-> 32 * (n + 1), guard |-> 1, icb |-> 0,
              agg |-> IncAggregate(SubSeq(i.buf, 1, 32 * (v + 1)), i.pks, i.msgs, i.sigs)[2] ]
       ELSE [ pret |-> 1, ret |-> 0, guard |-> 1, icb |-> 0 ]

OutVerify(i) ==
  IF ~KeysOk(i.pks) THEN [ pret |-> 0, icb |-> 0 ]
  ELSE [ pret |-> 1, ret |-> B2I(AggVerify(i.pks, i.msgs, i.agg)), icb |-> 0 ]

\* a whole schedule executed by the implementation on its own outputs: whatever the composition i.parts,
\* the final bytes are the one-shot aggregate
OutScheduleV(i, v) ==
  [ pret |-> 1, rets |-> [j \in 1..Len(i.parts) |-> 1], ret |-> 1, guard |-> 1, len |-> 32 * (Len(i.pks) + 1),
    agg |-> Aggregate(i.pks, i.msgs, i.sigs)[2], vret |-> v, icb |-> 0 ]
OutSchedule(i) ==
  IF ~KeysOk(i.pks) THEN [ pret |-> 0, icb |-> 0 ]
  ELSE OutScheduleV(i, B2I(AggVerify(i.pks, i.msgs, Aggregate(i.pks, i.msgs, i.sigs)[2])))

Out(ev) == CASE ev.e = "HalfAggAggregate" -> OutAggregate(ev.in)
             [] ev.e = "HalfAggInc"       -> OutInc(ev.in)
             [] ev.e = "HalfAggVerify"    -> OutVerify(ev.in)
             [] ev.e = "HalfAggSchedule"  -> OutSchedule(ev.in)

-----------------------------------------------------------------------------
\* signature material constructed by the specification
NBytes(x) == ToBytesBE(x, 32)
Max256 == Sub(Pow2(256), One)
Thorough == EnvNat("VERIF_THOROUGH") = 1
NN == ToNat(N)               \* only meaningful in the small groups

\* a valid BIP-340 signature with secret key d0 and nonce k0 (both in [1, n-1])
HaSign(d0, k0, msg) ==
  LET Pt == PMulG(d0)  d == IF HasEvenY(Pt) THEN d0 ELSE SNeg(d0)  pk == X32(Pt)
      R == PMulG(k0)   k == IF HasEvenY(R) THEN k0 ELSE SNeg(k0)
      e == Challenge(X32(R), pk, msg)
  IN  [ pk |-> pk, m |-> msg, sig |-> X32(R) \o NBytes(SAdd(k, SMul(e, d))) ]

\* variant 1: small keys and nonces (cheap to construct); variant 2: boundary and seeded random keys/messages
EdgeKeys == << One, Sub(N, One), HalfN, Add(HalfN, One), Two, Sub(N, Two), FromBytesBE(Rnd32(11)), FromBytesBE(Rnd32(12)) >>
EdgeMsgs == << Zeros(32), Rep(255, 32), NBytes(N), NBytes(P) >>
NonZeroModN(x) == LET r == Mod(x, N) IN IF IsZero(r) THEN One ELSE r
SqKey(v, j) == IF v = 1 THEN FromNat(j + 1) ELSE IF j <= 8 THEN NonZeroModN(EdgeKeys[j]) ELSE NonZeroModN(FromBytesBE(Rnd32(200 + j)))
SqNonce(v, j) == IF v = 1 THEN FromNat(2 * j + 1) ELSE NonZeroModN(FromBytesBE(Rnd32(300 + j)))
SqMsg(v, j) == IF v = 2 /\ j <= 4 THEN EdgeMsgs[j] ELSE Rnd32(400 + j)
\* variant 1 is a constant of the model (TLC evaluates it once per run): most cases share it
SeqV1All == [j \in 1..(IF Thorough THEN 64 ELSE 8) |-> HaSign(SqKey(1, j), SqNonce(1, j), SqMsg(1, j))]
SeqV(v, n) == IF v = 1 THEN SubSeq(SeqV1All, 1, n) ELSE [j \in 1..n |-> HaSign(SqKey(v, j), SqNonce(v, j), SqMsg(v, j))]

\* small groups: a sequence is a tuple of <<d, k, m>> with d, k in 1..N-1 and m an index into TinyMsgs
TinyMsgs == << Zeros(32), [j \in 1..32 |-> (7 * j) % 256] >>
TinyDK == (IF NN <= 13 THEN 1..(NN \div 2) ELSE { 1, 2, NN \div 4, NN \div 2 }) \cup { 1, 2, NN \div 2, (NN \div 2) - 1, 3, 4 }
TinySigTab == [t \in TinyDK \X TinyDK \X (1..2) |-> HaSign(FromNat(t[1]), FromNat(t[2]), TinyMsgs[t[3]])]    \* constant: evaluated once
SeqT(t) == [j \in 1..Len(t) |-> TinySigTab[t[j]]]

\* sequence descriptors: <<"sq", n, v>> or <<"tsq", t>>
SeqOf(c) == IF c[1] = "sq" THEN SeqV(c[3], c[2]) ELSE SeqT(c[2])
Pks(sq)  == [j \in 1..Len(sq) |-> sq[j].pk]
Msgs(sq) == [j \in 1..Len(sq) |-> sq[j].m]
Sigs(sq) == [j \in 1..Len(sq) |-> sq[j].sig]
AggOf(sq) == Aggregate(Pks(sq), Msgs(sq), Sigs(sq))[2]

SetAt(s, i, x) == [s EXCEPT ![i] = x]
SwapAt(s, i, j) == [s EXCEPT ![i] = s[j], ![j] = s[i]]
MkAgg(rs, s32) == Flatten(rs) \o s32

HV(pks, msgs, agg) == [ e |-> "HalfAggVerify", in |-> [ pks |-> pks, msgs |-> msgs, agg |-> agg ] ]
\* 'want' = the verdict known by construction (ignored by the implementation harness; design-level invariant InvWant)
HVW(pks, msgs, agg, w) == [ e |-> "HalfAggVerify", in |-> [ pks |-> pks, msgs |-> msgs, agg |-> agg, want |-> w ] ]
HA(sq, buflen, fill) == [ e |-> "HalfAggAggregate", in |-> [ pks |-> Pks(sq), msgs |-> Msgs(sq), sigs |-> Sigs(sq), buflen |-> buflen, fill |-> fill ] ]

-----------------------------------------------------------------------------
\* G: generated input space in the real group
NPool == IF Thorough THEN 0..64 ELSE 0..8
NPool2 == IF Thorough THEN 0..64 ELSE { 3, 8 }          \* sequences with boundary / random keys (a scalar multiplication costs 25-80 ms in TLC)
FlipBits == 0..767                      \* every bit of an aggregate of two signatures
MutKinds == 1..36

CasesAt(ph) ==
       { << "agg", n, 1 >> : n \in NPool } \cup { << "agg", n, 2 >> : n \in NPool2 }
  \cup { << "ver", n, 1 >> : n \in NPool } \cup { << "ver", n, 2 >> : n \in NPool2 }
  \cup UNION { { << "buflen", n, len >> : len \in 0..(32 * (n + 2)) } : n \in 0..8 }
  \cup { << "incbuf", nb, len >> : nb \in 0..3, len \in 0..160 }
  \cup { << "vflip", bit >> : bit \in { b \in FlipBits : Thorough \/ b % 16 = 7 } }
  \cup { << "vflipm", bit >> : bit \in { b \in 0..511 : Thorough \/ b % 32 = 1 } }
  \cup { << "vflipk", bit >> : bit \in { b \in 0..511 : Thorough \/ b % 32 = 2 } }
  \cup { << "vmut", 2, 1, kind, pos >> : kind \in MutKinds, pos \in 1..2 }
  \cup { << "vmut", 3, 1, kind, 2 >> : kind \in MutKinds }
  \cup { << "vmut", n, v, kind, pos >> : n \in { 2, 3, 4 }, v \in 1..2, kind \in { k \in MutKinds : Thorough }, pos \in 1..4 }
  \cup { << "v0", kind >> : kind \in 1..9 }
Cases == CasesAt(phase)

\* the smallest x >= 1 that is the x coordinate of a curve point, and one that is not
SmallLiftX == FromNat(CHOOSE x \in 1..60 : LiftX(FromNat(x))[1] /\ \A y \in 1..(x - 1) : ~LiftX(FromNat(y))[1])
SmallNoLiftX == FromNat(CHOOSE x \in 1..60 : ~LiftX(FromNat(x))[1] /\ \A y \in 1..(x - 1) : LiftX(FromNat(y))[1])

ExpandMut(n, v, kind, pos0) ==
  LET pos == ((pos0 - 1) % n) + 1   q == (pos % n) + 1
      sq == SeqV(v, n)  pks == Pks(sq)  ms == Msgs(sq)  sigs == Sigs(sq)
      agg == AggOf(sq)  rs == HaAggR(agg, n)  s == HaAggS(agg, n)  s32 == NBytes(s)
      alt == HaSign(SqKey(v, pos), SqNonce(v, pos), Rnd32(77))       \* same key, another message
  IN CASE kind = 1  -> HVW(pks, ms, MkAgg(SetAt(rs, pos, NBytes(P)), s32), 0)
       [] kind = 2  -> HVW(pks, ms, MkAgg(SetAt(rs, pos, NBytes(Add(P, One))), s32), 0)
       [] kind = 3  -> HVW(pks, ms, MkAgg(SetAt(rs, pos, NBytes(Max256)), s32), 0)
       [] kind = 4  -> HVW(pks, ms, MkAgg(SetAt(rs, pos, NBytes(SmallNoLiftX)), s32), 0)
       [] kind = 5  -> HVW(pks, ms, MkAgg(SetAt(rs, pos, NBytes(Add(P, SmallLiftX))), s32), 0)   \* r mod p on the curve, r >= p
       [] kind = 6  -> HVW(pks, ms, MkAgg(rs, NBytes(N)), 0)
       [] kind = 7  -> HVW(pks, ms, MkAgg(rs, NBytes(Max256)), 0)
       [] kind = 8  -> HV(pks, ms, MkAgg(rs, NBytes(Zero)))
       [] kind = 9  -> HVW(pks, ms, MkAgg(rs, NBytes(SAdd(s, One))), 0)
       [] kind = 10 -> HV(pks, ms, MkAgg(SetAt(rs, pos, X32(PMulG(FromNat(7)))), s32))           \* another valid R
       [] kind = 11 -> HV(pks, ms, MkAgg(SwapAt(rs, pos, q), s32))                                \* r values reordered
       [] kind = 12 -> HV(SwapAt(pks, pos, q), ms, agg)                                           \* keys reordered
       [] kind = 13 -> HV(pks, SwapAt(ms, pos, q), agg)                                           \* messages reordered
       [] kind = 14 -> HV(SwapAt(pks, pos, q), SwapAt(ms, pos, q), agg)                           \* (key, message) pairs reordered
       [] kind = 15 -> HV(pks, ms, Aggregate(SwapAt(pks, pos, q), SwapAt(ms, pos, q), SwapAt(sigs, pos, q))[2])  \* aggregate of the reordered sequence
       [] kind = 16 -> HVW(SwapAt(pks, pos, q), SwapAt(ms, pos, q), Aggregate(SwapAt(pks, pos, q), SwapAt(ms, pos, q), SwapAt(sigs, pos, q))[2], 1)
       [] kind = 17 -> LET sg == sigs[pos]  s1 == SAdd(FromBytesBE(SubSeq(sg, 33, 64)), One)      \* one signature altered before aggregation
                       IN HV(pks, ms, Aggregate(pks, ms, SetAt(sigs, pos, SubSeq(sg, 1, 32) \o NBytes(s1)))[2])
       [] kind = 18 -> HV(pks, ms, Aggregate(pks, ms, SetAt(sigs, pos, alt.sig))[2])              \* one signature is for another message
       [] kind = 19 -> HVW(pks, ms, agg \o << 0 >>, 0)
       [] kind = 20 -> HVW(pks, ms, agg \o Zeros(31), 0)
       [] kind = 21 -> HVW(pks, ms, agg \o Zeros(32), 0)                                          \* the length for n+1
       [] kind = 22 -> HVW(pks, ms, agg \o Rep(1, 16), 0)
       [] kind = 23 -> HVW(pks, ms, SubSeq(agg, 1, Len(agg) - 1), 0)
       [] kind = 24 -> HVW(pks, ms, SubSeq(agg, 1, Len(agg) - 31), 0)
       [] kind = 25 -> HVW(pks, ms, SubSeq(agg, 1, Len(agg) - 32), 0)                             \* the length for n-1 (s dropped)
       [] kind = 26 -> HVW(pks, ms, MkAgg(SubSeq(rs, 1, n - 1), s32), 0)                          \* the length for n-1 (r_n dropped)
       [] kind = 27 -> HVW(SubSeq(pks, 1, n - 1), SubSeq(ms, 1, n - 1), agg, 0)                   \* n-1 keys, aggregate of n
       [] kind = 28 -> HVW(Append(pks, pks[n]), Append(ms, ms[n]), agg, 0)                        \* n+1 keys, aggregate of n
       [] kind = 29 -> LET a1 == Aggregate(SubSeq(pks, 1, n - 1), SubSeq(ms, 1, n - 1), SubSeq(sigs, 1, n - 1))[2]
                       IN HVW(SubSeq(pks, 1, n - 1), SubSeq(ms, 1, n - 1), a1, 1)                  \* the prefix verifies
       [] kind = 30 -> HVW(pks, ms, << >>, 0)
       [] kind = 31 -> HV(SetAt(pks, pos, NBytes(P)), ms, agg)                                    \* key does not parse
       [] kind = 32 -> HV(SetAt(pks, pos, NBytes(SmallNoLiftX)), ms, agg)
       [] kind = 33 -> HVW(pks, SetAt(ms, pos, FlipBit(ms[pos], 255)), agg, 0)
       [] kind = 34 -> HVW(pks, ms, MkAgg(rs, NBytes(SNeg(s))), 0)
       [] kind = 35 -> HV(pks, ms, Zeros(32 * (n + 1)))
       [] kind = 36 -> HV(SetAt(pks, pos, pks[q]), ms, agg)                                       \* one key replaced by another signer's

\* no signatures at all: the aggregate is 32 zero bytes.  kind 3 (s = n, i.e. the re-encoding 0 + n of the valid s = 0)
\* is the one real-group witness of the "s >= n" clause.
ExpandV0(kind) ==
  CASE kind = 1 -> HVW(<< >>, << >>, Zeros(32), 1)
    [] kind = 2 -> HVW(<< >>, << >>, NBytes(One), 0)
    [] kind = 3 -> HVW(<< >>, << >>, NBytes(N), 0)
    [] kind = 4 -> HVW(<< >>, << >>, NBytes(Max256), 0)
    [] kind = 5 -> HVW(<< >>, << >>, << >>, 0)
    [] kind = 6 -> HVW(<< >>, << >>, Zeros(31), 0)
    [] kind = 7 -> HVW(<< >>, << >>, Zeros(33), 0)
    [] kind = 8 -> HVW(<< >>, << >>, Zeros(64), 0)
    [] kind = 9 -> HVW(<< >>, << >>, NBytes(Add(N, One)), 0)

ExpandIncBuf(nb, len) ==
  LET sq == SeqV(1, 3)  pks == Pks(sq)  ms == Msgs(sq)  sigs == Sigs(sq)
      a0 == Aggregate(SubSeq(pks, 1, nb), SubSeq(ms, 1, nb), SubSeq(sigs, 1, nb))[2]
      buf == IF len <= Len(a0) THEN SubSeq(a0, 1, len) ELSE a0 \o Rep(165, len - Len(a0))
  IN [ e |-> "HalfAggInc", in |-> [ pks |-> pks, msgs |-> ms, sigs |-> SubSeq(sigs, nb + 1, 3), nbefore |-> nb, buf |-> buf ] ]

-----------------------------------------------------------------------------
\* X: the small groups.  Every point of the subgroup, every scalar, every re-encoding class.
SubgroupXs == { X32(PMulG(FromNat(j))) : j \in 1..(NN - 1) }
\* d and n-d give the same x-only key (and k, n-k the same r), hence the same signature: half the range is complete
TinyHalf == 1..(NN \div 2)
FewDK == IF NN <= 13 THEN TinyHalf ELSE { 1, 2, NN \div 4, NN \div 2 }
TinyTrip == { << d, k, m >> : d \in FewDK, k \in FewDK, m \in 1..2 }
TinyTripA == { << d, k, 1 >> : d \in FewDK, k \in FewDK }
TinyTripB == { << d, k, 2 >> : d \in { 1, NN \div 2 }, k \in (IF Thorough THEN { 2, (NN \div 2) - 1 } ELSE { 2 }) }
\* middle elements with the other message (a history with n_before = 2 then needs the right message in the prefix hash)
TinyTripM == { << 2, 3, 1 >>, << NN \div 2, 1, 1 >> } \cup { << d, k, 2 >> : d \in { 1 }, k \in { k \in { 2 } : Thorough } }
\* sequences whose honest aggregate is re-encoded
TinySeqs == { << >> } \cup { << a >> : a \in (IF Thorough THEN TinyTrip ELSE TinyTripA) }
            \cup { << a, b >> : a \in { x \in TinyTripA : Thorough \/ x[2] \in { 1, 3, NN \div 2 } }, b \in TinyTripB }
            \cup { << a, b, c >> : a \in TinyTripB, b \in TinyTripB, c \in { << 3, 4, 1 >> } }
\* encodings of the aggregate scalar: j < 1000 is the literal value j (every residue and the first overflow values);
\* 1100 + k (k = 1..9) is the re-encoding s + k*n of the true s; 1000 + i are re-encodings s + K_i * n with huge K_i
SEncs == 0..(IF NN <= 13 THEN NN + 2 ELSE 14) \cup 1000..1005 \cup 1101..1109
SEnc(j, s) ==
  IF j < 1000 THEN FromNat(j)
  ELSE IF j > 1100 THEN Add(s, Mul(FromNat(j - 1100), N))
  ELSE LET room == Div(Sub(Max256, s), N)                       \* the largest K with s + K*n < 2^256
           K == CASE j = 1000 -> room
                  [] j = 1001 -> Sub(room, One)
                  [] j = 1002 -> Pow2(64)
                  [] j = 1003 -> Pow2(128)
                  [] j = 1004 -> Pow2(200)
                  [] j = 1005 -> Div(room, Two)
       IN  Add(s, Mul(K, N))
TinyXPool == IF NN <= 13 THEN SubgroupXs ELSE { X32(PMulG(FromNat(j))) : j \in { 1, 2, NN \div 2 } }
\* quick tier: the second position ranges over half of the x coordinates
TinyXPool2 == IF Thorough /\ NN <= 13 THEN TinyXPool ELSE { X32(PMulG(FromNat(j))) : j \in (IF Thorough THEN { 1, 2, NN \div 2 } ELSE { 1, NN \div 2 }) }
TinyBadR == { NBytes(SmallNoLiftX), NBytes(P), NBytes(Max256) }
TinySPool == IF NN <= 13 THEN 0..(NN + 2) ELSE { 0, 1, 2, NN \div 2, NN - 1, NN, NN + 1 }
TinyCasesAt(ph) ==
       { << "tvs", t, j >> : t \in TinySeqs, j \in SEncs }
  \cup { << "tv1", rx, s, px, m >> : rx \in TinyXPool \cup TinyBadR, s \in TinySPool, px \in TinyXPool, m \in (IF Thorough THEN 1..2 ELSE { 2 }) }
  \cup { << "tv2", r1, r2, s, p1, p2 >> : r1 \in TinyXPool, r2 \in TinyXPool2 \cup { NBytes(SmallNoLiftX) }, s \in (IF NN <= 13 THEN 0..NN ELSE TinySPool), p1 \in TinyXPool2, p2 \in TinyXPool2 }
TinyCases == TinyCasesAt(phase)
ExpandTiny(c) ==
  CASE c[1] = "tvs" -> LET sq == SeqT(c[2])  n == Len(sq)  agg == AggOf(sq)  s == HaAggS(agg, n)  enc == SEnc(c[3], s)
                       IN HVW(Pks(sq), Msgs(sq), MkAgg(HaAggR(agg, n), NBytes(enc)), B2I(enc = s))
    [] c[1] = "tv1" -> HV(<< c[4] >>, << TinyMsgs[c[5]] >>, c[2] \o NBytes(FromNat(c[3])))
    [] c[1] = "tv2" -> HV(<< c[5], c[6] >>, << TinyMsgs[1], TinyMsgs[2] >>, c[2] \o c[3] \o NBytes(FromNat(c[4])))

\* design-level theorem in the small groups (scalar side of the point equation): with k_j = dlog lift_x(r_j),
\* d_j = dlog lift_x(pk_j), verification accepts iff the 32 bytes of s encode exactly sum z_j (k_j + e_j d_j) mod n
TinyTab == [j \in 0..(NN - 1) |-> PMulG(FromNat(j))]
TinyInSub(Q) == \E j \in 0..(NN - 1) : TinyTab[j] = Q
TinyDlog(Q) == CHOOSE j \in 0..(NN - 1) : TinyTab[j] = Q
RECURSIVE TinySumS(_, _, _, _)
TinySumS(rs, pks, ms, j) ==
  IF j > Len(pks) THEN Zero
  ELSE LET k == FromNat(TinyDlog(LiftX(FromBytesBE(rs[j]))[2]))  d == FromNat(TinyDlog(LiftX(FromBytesBE(pks[j]))[2]))
       IN  SAdd(SMul(HaZ(rs, pks, ms, j), SAdd(k, SMul(Challenge(rs[j], pks[j], ms[j]), d))), TinySumS(rs, pks, ms, j + 1))
TinyVerifyExact(i, o) ==
  LET u == Len(i.pks) IN
  IF o.pret = 0 THEN TRUE
  ELSE IF Len(i.agg) # 32 * (u + 1) THEN o.ret = 0
  ELSE LET rs == HaAggR(i.agg, u)
           lr == [j \in 1..u |-> LiftX(FromBytesBE(rs[j]))]
           lp == [j \in 1..u |-> LiftX(FromBytesBE(i.pks[j]))]
       IN  IF \E j \in 1..u : ~lr[j][1] THEN o.ret = 0
           ELSE IF \E j \in 1..u : ~TinyInSub(lr[j][2]) \/ ~TinyInSub(lp[j][2]) THEN TRUE   \* outside the subgroup: not generated
           ELSE o.ret = B2I(HaAggS(i.agg, u) = TinySumS(rs, i.pks, i.msgs, 1))

Expand(c) ==
  CASE c[1] = "agg"    -> HA(SeqV(c[3], c[2]), 32 * (c[2] + 1), 170)
    [] c[1] = "ver"    -> LET sq == SeqV(c[3], c[2]) IN HVW(Pks(sq), Msgs(sq), AggOf(sq), 1)
    [] c[1] = "buflen" -> HA(SeqV(1, c[2]), c[3], (c[3] * 37) % 256)
    [] c[1] = "incbuf" -> ExpandIncBuf(c[2], c[3])
    [] c[1] = "vflip"  -> LET sq == SeqV(1, 2) IN HVW(Pks(sq), Msgs(sq), FlipBit(AggOf(sq), c[2]), 0)
    [] c[1] = "vflipm" -> LET sq == SeqV(1, 2)  ms == Msgs(sq)  j == (c[2] \div 256) + 1
                          IN HVW(Pks(sq), SetAt(ms, j, FlipBit(ms[j], c[2] % 256)), AggOf(sq), 0)
    [] c[1] = "vflipk" -> LET sq == SeqV(1, 2)  pks == Pks(sq)  j == (c[2] \div 256) + 1
                          IN HV(SetAt(pks, j, FlipBit(pks[j], c[2] % 256)), Msgs(sq), AggOf(sq))
    [] c[1] = "vmut"   -> ExpandMut(c[2], c[3], c[4], c[5])
    [] c[1] = "v0"     -> ExpandV0(c[2])
    [] OTHER -> ExpandTiny(c)

-----------------------------------------------------------------------------
Init == phase = "pick" /\ cur = << >> /\ rec = << >>
Pick == phase = "pick" /\ \E c \in Cases : cur' = c /\ phase' = "eval" /\ rec' = << >>
Eval == phase = "eval" /\ LET x == Expand(cur) IN rec' = [ e |-> x.e, in |-> x.in, out |-> Out(x) ]
        /\ phase' = "done" /\ cur' = cur
Next == Pick \/ Eval
\* design level: what is known by construction (honest aggregates verify; structurally damaged ones do not)
InvWant == (phase = "done" /\ "want" \in DOMAIN rec.in /\ rec.out.pret = 1) => rec.out.ret = rec.in.want
\* design level: an aggregation the specification performs with a sufficient buffer yields 32(n+1) bytes
\* (that they verify is InvWant on the "ver" cases and HInvVerify in the history machine)
InvAggVerifies == (phase = "done" /\ rec.e = "HalfAggAggregate" /\ rec.out.pret = 1 /\ rec.out.ret = 1 /\ rec.in.fill = 170) =>
                     Len(rec.out.agg) = 32 * (Len(rec.in.pks) + 1)
InvTinyVerify == (phase = "done" /\ rec.e = "HalfAggVerify") => TinyVerifyExact(rec.in, rec.out)
Emit == phase = "done" => EmitRecord(rec)

-----------------------------------------------------------------------------
\* the HISTORY machine: choose a sequence of valid signatures (HStart, HSign), then aggregate it by any
\* composition of incremental steps (HStep; one step of zero signatures is allowed per history).  Every
\* transition is an IncAggregate call record; every complete history additionally yields a Schedule record
\* (the implementation runs the same composition on its own outputs).
HistMax == IF Thorough THEN 6 ELSE 5
HistSeqsAt(ph) == { << "sq", n, 1 >> : n \in 0..HistMax } \cup { << "sq", n, 2 >> : n \in (IF Thorough THEN 1..HistMax ELSE { 2, HistMax }) }
HistSeqs == HistSeqsAt(phase)
TinyHistSeqsAt(ph) == { << "tsq", t >> :
                  t \in { << >> } \cup { << a >> : a \in TinyTrip }
                        \cup { << a, b >> : a \in (IF Thorough THEN TinyTrip ELSE TinyTripA), b \in (IF Thorough /\ NN <= 13 THEN TinyTrip ELSE TinyTripB) }
                        \cup { << a, b, c >> : a \in (IF Thorough THEN TinyTripA ELSE TinyTripB), b \in TinyTripM, c \in TinyTripB } }
TinyHistSeqs == TinyHistSeqsAt(phase)

HInit == phase = "start" /\ cur = << >> /\ rec = << >>
HStart == phase = "start" /\ \E c \in HistSeqs : cur' = c /\ phase' = "sign" /\ rec' = << >>
HSign == /\ phase = "sign"
         /\ LET sq == SeqOf(cur)  x == HA(sq, 32 * (Len(sq) + 1), 170) IN
            /\ rec' = [ e |-> x.e, in |-> x.in, out |-> Out(x) ]
            \* vfull: does the one-shot aggregate verify?  (decided once per sequence; HInvSame ties every schedule to these bytes)
            /\ cur' = [ pks |-> Pks(sq), msgs |-> Msgs(sq), sigs |-> Sigs(sq), done |-> 0, agg |-> Zeros(32), hist |-> << >>,
                        vfull |-> B2I(AggVerify(Pks(sq), Msgs(sq), AggOf(sq))) ]
         /\ phase' = "run"
HStep == /\ phase = "run"
         /\ \E k \in 0..(Len(cur.pks) - cur.done) :
              /\ (k = 0 => \A j \in 1..Len(cur.hist) : cur.hist[j] # 0)
              /\ LET nd == cur.done + k
                     inp == [ pks |-> SubSeq(cur.pks, 1, nd), msgs |-> SubSeq(cur.msgs, 1, nd), sigs |-> SubSeq(cur.sigs, cur.done + 1, nd),
                              nbefore |-> cur.done, buf |-> cur.agg \o Rep(90, 32 * k) ]
                     o == OutInc(inp)
                 IN  /\ rec' = [ e |-> "HalfAggInc", in |-> inp, out |-> o ]
                     /\ cur' = [ cur EXCEPT !.done = nd, !.agg = o.agg, !.hist = Append(@, k) ]
         /\ phase' = "run"
HFinish == /\ phase = "run" /\ cur.done = Len(cur.pks) /\ Len(cur.hist) > 0
           /\ LET inp == [ pks |-> cur.pks, msgs |-> cur.msgs, sigs |-> cur.sigs, parts |-> cur.hist,
                           mode |-> Len(cur.hist) % 2, slack |-> 7 * (cur.hist[1] % 3) ]
              IN rec' = [ e |-> "HalfAggSchedule", in |-> inp, out |-> OutScheduleV(inp, cur.vfull) ]
           /\ phase' = "fin" /\ cur' = cur
HNext == HStart \/ HSign \/ HStep \/ HFinish
\* every schedule, at every point, holds exactly the bytes of the one-shot aggregate of what it has consumed
HInvSame == phase \in { "run", "fin" } =>
              cur.agg = Aggregate(SubSeq(cur.pks, 1, cur.done), SubSeq(cur.msgs, 1, cur.done), SubSeq(cur.sigs, 1, cur.done))[2]
\* ... and the complete aggregate verifies for the same (key, message) sequence
HInvVerify == phase = "fin" => (rec.out.agg = cur.agg /\ rec.out.vret = 1 /\ Len(cur.agg) = 32 * (Len(cur.pks) + 1))
HEmit == phase \in { "run", "fin" } => EmitRecord(rec)

\* both machines in one TLC run (two initial states; the phases are disjoint)
AInit == Init \/ HInit
ANext == Next \/ HNext
AEmit == Emit /\ HEmit

-----------------------------------------------------------------------------
TraceEvents == LoadTrace
TInit == phase = "pick" /\ cur = 0 /\ rec = TRUE
TPick == phase = "pick" /\ \E i \in 1..Len(TraceEvents) : cur' = i /\ phase' = "eval" /\ rec' = rec
TEval == phase = "eval" /\ rec' = SubRec(Out(TraceEvents[cur]), TraceEvents[cur].out) /\ phase' = "done" /\ cur' = cur
TNext == TPick \/ TEval
TraceOK == rec = TRUE
=============================================================================
