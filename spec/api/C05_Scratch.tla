------------------------------- MODULE C05_Scratch -------------------------------
(***************************************************************************)
(* C05 (extension) -- the scratch-space allocator that multi-scalar        *)
(* multiplication, the Bulletproofs++ prover/verifier and batch inversion  *)
(* allocate from (src/scratch_impl.h), as a history machine.               *)
(*                                                                         *)
(* Abstract state of one scratch space: max (capacity in bytes), alloc     *)
(* (bytes handed out), the ghost list of live frames <<offset, size>> and  *)
(* the ghost set of checkpoint values obtained so far.  All sizes are      *)
(* size_t values of the C code: BigNat numbers below W = 2^64, and the     *)
(* arithmetic is transcribed WITH its wrap-around (ROUND_TO_ALIGN adds     *)
(* ALIGNMENT-1 modulo 2^64 before dividing).                               *)
(*                                                                         *)
(* One action per allocator entry point; ScrMulti is                       *)
(* secp256k1_ecmult_multi_var run ON the scratch space in its current      *)
(* state: whatever has been allocated before, it returns 1, the            *)
(* mathematically defined sum, and leaves alloc where it was (every        *)
(* internal frame is released by a checkpoint).                            *)
(*                                                                         *)
(* Binding: TLC emits every labelled transition of the bounded machine     *)
(* (ACTION_CONSTRAINT TransitionOut); checks/c05.py turns them into one    *)
(* history per transition (shortest path from the initial state + the      *)
(* transition) and replays them on the real allocator, comparing every     *)
(* specified output of every step ("ecb" = number of error-callback calls; *)
(* the harness logs it only when non-zero and the comparison treats an     *)
(* unspecified "ecb" as a disagreement).                                   *)
(***************************************************************************)
EXTENDS Curve, CurveParams, Verif, FiniteSets

CONSTANTS MaxSteps, Capacities
W == Pow2(64)
A == FromNat(16)                      \* ALIGNMENT of the pinned platform; the harness reports it (ScrCreate.align)
Am1 == FromNat(15)
U64(x) == ToBytesBE(x, 8)             \* size_t values travel as 8 big-endian bytes

\* ROUND_TO_ALIGN(size) = ((size + ALIGNMENT - 1) / ALIGNMENT) * ALIGNMENT in size_t arithmetic
RoundUp(x) == Mul(Div(Mod(Add(x, Am1), W), A), A)

VARIABLES sc, steps, last
vars == << sc, steps, last >>
view == << sc, steps >>
None == [ live |-> 0 ]
Label(a, args, exp) == [a |-> a, args |-> args, exp |-> exp]
Step == steps' = steps + 1
Avail(s) == Sub(s.max, s.alloc)

Init == sc = None /\ steps = 0 /\ last = [a |-> "Init"]

Create(cap) ==
  /\ sc.live = 0
  /\ sc' = [ live |-> 1, max |-> cap, alloc |-> Zero, frames |-> << >>, cps |-> { Zero } ]
  /\ last' = Label("ScrCreate", [ size |-> U64(cap) ], [ ret |-> 1, align |-> 16, max |-> U64(cap), alloc |-> U64(Zero), mallocs |-> 1 ]) /\ Step

\* secp256k1_scratch_alloc: NULL if rounding wrapped or the frame does not fit; otherwise the frame starts at `alloc`,
\* is zero-filled, and alloc grows by the ROUNDED size
Alloc(n) ==
  /\ sc.live = 1
  /\ LET r == RoundUp(n)  ok == ~Lt(r, n) /\ ~Lt(Avail(sc), r) IN
     /\ sc' = IF ok THEN [sc EXCEPT !.alloc = Add(@, r), !.frames = Append(@, << sc.alloc, r >>)] ELSE sc
     /\ last' = Label("ScrAlloc", [ size |-> U64(n) ],
                      IF ok THEN [ ok |-> 1, off |-> U64(sc.alloc), zero |-> 1, aligned |-> 1, alloc |-> U64(Add(sc.alloc, r)) ]
                            ELSE [ ok |-> 0, alloc |-> U64(sc.alloc) ])
  /\ Step

Checkpoint ==
  /\ sc.live = 1
  /\ sc' = [sc EXCEPT !.cps = @ \cup { sc.alloc }]
  /\ last' = Label("ScrCheckpoint", [ x |-> 0 ], [ cp |-> U64(sc.alloc) ]) /\ Step

\* secp256k1_scratch_apply_checkpoint: a checkpoint above alloc is refused through the error callback and changes nothing
Apply(cp) ==
  /\ sc.live = 1
  /\ LET bad == Lt(sc.alloc, cp) IN
     /\ sc' = IF bad THEN sc
              ELSE [sc EXCEPT !.alloc = cp,
                              !.frames = SelectSeq(@, LAMBDA f : Leq(Add(f[1], f[2]), cp)),
                              !.cps = { c \in @ : Leq(c, cp) }]
     /\ last' = Label("ScrApply", [ cp |-> U64(cp) ], IF bad THEN [ alloc |-> U64(sc.alloc), ecb |-> 1 ] ELSE [ alloc |-> U64(cp) ])
  /\ Step

\* secp256k1_scratch_max_allocation(objects): what is left after reserving ALIGNMENT-1 bytes of padding per object
MaxAllocOf(s, k) ==
  IF Lt(Div(Sub(W, One), Am1), k) THEN Zero
  ELSE LET need == Mul(k, Am1) IN IF Leq(Avail(s), need) THEN Zero ELSE Sub(Avail(s), need)
MaxAlloc(k) ==
  /\ sc.live = 1 /\ sc' = sc
  /\ last' = Label("ScrMaxAlloc", [ objects |-> U64(k) ], [ max |-> U64(MaxAllocOf(sc, k)) ]) /\ Step

\* n-point multi-scalar multiplication on the scratch space AS IT IS: scalars j+1 on points (j+2)G (j = 0..n-1) plus g*G
RECURSIVE MultiSum(_, _)
MultiSum(j, n) == IF j = n THEN 0 ELSE (j + 1) * (j + 2) + MultiSum(j + 1, n)
MultiTotal(n, g) == FromNat(g + MultiSum(0, n))
Multi(n, g) ==
  /\ sc.live = 1 /\ sc' = sc
  /\ last' = Label("ScrMulti", [ n |-> n, g |-> g ], [ ret |-> 1, r |-> Ser33(PMulG(MultiTotal(n, g))), alloc |-> U64(sc.alloc) ]) /\ Step

Destroy ==
  /\ sc.live = 1 /\ IsZero(sc.alloc)            \* VERIFY builds insist that every checkpoint has been applied
  /\ sc' = None
  /\ last' = Label("ScrDestroy", [ x |-> 0 ], [ frees |-> 1 ]) /\ Step

AllocArgs(s) == { Zero, One, FromNat(16), FromNat(17), FromNat(4000), Avail(s), Add(Avail(s), One),
                  Sub(W, One), Sub(W, FromNat(15)), Sub(W, FromNat(16)) }
ObjArgs == { Zero, One, FromNat(3), FromNat(300), Div(Sub(W, One), Am1), Add(Div(Sub(W, One), Am1), One), Sub(W, One) }
Next ==
  \/ \E cap \in Capacities : Create(FromNat(cap))
  \/ sc.live = 1 /\ \E n \in AllocArgs(sc) : Alloc(n)
  \/ Checkpoint
  \/ sc.live = 1 /\ \E cp \in sc.cps \cup { Add(sc.alloc, A) } : Apply(cp)
  \/ \E k \in ObjArgs : MaxAlloc(k)
  \/ sc.live = 1 /\ Lt(FromNat(4999), sc.max) /\ \E n \in {1, 5, 90}, g \in {0, 7} : Multi(n, g)
  \/ Destroy
Bound == steps <= MaxSteps

\* ---- design-level invariants --------------------------------------------------------------
Live == sc.live = 1
InBounds   == Live => Leq(sc.alloc, sc.max)
\* frames handed out and not yet released never overlap and lie inside the capacity
NoOverlap  == Live => /\ \A i \in 1..Len(sc.frames) : Leq(Add(sc.frames[i][1], sc.frames[i][2]), sc.alloc)
                      /\ \A i \in 1..(Len(sc.frames) - 1) : Leq(Add(sc.frames[i][1], sc.frames[i][2]), sc.frames[i + 1][1])
\* every live frame starts at a multiple of the alignment (checkpoints come from ScrCheckpoint only)
Aligned    == Live => /\ IsZero(Mod(sc.alloc, A)) /\ \A i \in 1..Len(sc.frames) : IsZero(Mod(sc.frames[i][1], A))
\* what max_allocation promises for k objects can be allocated as k objects, however the bytes are split (k = 1, 2 over a sample)
PromiseKept == Live => \A k \in {1, 2} : LET m == MaxAllocOf(sc, FromNat(k)) IN
                 IsZero(m) \/ \A a \in { Zero, One, FromNat(17), m } :
                    Lt(m, a) \/ (IF k = 1 THEN Leq(RoundUp(m), Avail(sc))
                                 ELSE Leq(Add(RoundUp(a), RoundUp(Sub(m, a))), Avail(sc)))
CheckpointsValid == Live => \A c \in sc.cps : Leq(c, sc.alloc)

StateRec(s) == IF s.live = 0 THEN [ live |-> 0 ] ELSE [ live |-> 1, max |-> U64(s.max), alloc |-> U64(s.alloc), nframes |-> Len(s.frames), cps |-> { U64(c) : c \in s.cps } ]
TransitionOut == AppendLine(ToJson([ src |-> StateRec(sc), dst |-> StateRec(sc'), label |-> last' ]), IOEnv.GEN_OUT)
=============================================================================
