------------------------------- MODULE C06_NonInterference -------------------------------
(***************************************************************************)
(* C06 -- secret-independent control flow and memory addresses, stated as  *)
(* it is worded: the sequence of observations (instruction addresses and   *)
(* data addresses with sizes) of a run is a FUNCTION of the public inputs  *)
(* and of the values declassified so far.                                   *)
(*                                                                         *)
(* A run is recorded as  Call(api, pub) ; Segment(d) ; Declassify(v) ;     *)
(* Segment(d) ; ... ; Return  where d is the digest of the observation     *)
(* lines between two cut points.  The checker keeps a table                 *)
(*    <<api, pub, declassified-so-far, segment number>>  ->  digest         *)
(* and a Segment event is enabled only if it agrees with the table.  Two    *)
(* runs that agree on the public inputs may therefore differ only AFTER     *)
(* they have declassified different values (strict mode: no feature         *)
(* abstraction of declassified values, hence no false-alarm channel).       *)
(***************************************************************************)
EXTENDS Naturals, Sequences, FiniteSets, TLC, Json, IOUtils

TraceEvents == ndJsonDeserialize(IOEnv.TRACE)

VARIABLES l, table, key, compared, dtable, grp
vars == << l, table, key, compared, dtable, grp >>
\* key = <<api, pub, decl (sequence of declassified values), idx>> of the run in progress, or << >>
\* grp # 0: the run belongs to a group of runs that differ ONLY in secrets the library never declassifies anything of (the seed of
\* context_randomize): within such a group the declassified VALUES must coincide as well -- otherwise a declassification hands out
\* data derived from that secret (and would, by the strict comparison below, excuse every later divergence).
\* dtable: <<api, pub, grp, number of the declassification>> -> value
Init == l = 1 /\ table = << >> /\ key = << >> /\ compared = 0 /\ dtable = << >> /\ grp = 0

Ev == TraceEvents[l]
TCall == /\ l <= Len(TraceEvents) /\ Ev.e = "Call" /\ key = << >>
         /\ key' = << Ev.api, Ev.pub, << >>, 1 >>
         /\ grp' = IF "grp" \in DOMAIN Ev THEN Ev.grp ELSE 0
         /\ l' = l + 1 /\ UNCHANGED << table, compared, dtable >>
TSegment == /\ l <= Len(TraceEvents) /\ Ev.e = "Segment" /\ key # << >>
            /\ IF key \in DOMAIN table
               THEN table[key] = Ev.d /\ table' = table /\ compared' = compared + 1      \* must agree with every earlier run
               ELSE table' = table @@ (key :> Ev.d) /\ compared' = compared
            /\ key' = << key[1], key[2], key[3], key[4] + 1 >>
            /\ l' = l + 1 /\ UNCHANGED << dtable, grp >>
TDeclassify == /\ l <= Len(TraceEvents) /\ Ev.e = "Declassify" /\ key # << >>
               /\ key' = << key[1], key[2], Append(key[3], Ev.v), key[4] >>
               /\ LET dk == << key[1], key[2], grp, Len(key[3]) + 1 >> IN
                  IF grp = 0 THEN dtable' = dtable
                  ELSE IF dk \in DOMAIN dtable THEN dtable[dk] = Ev.v /\ dtable' = dtable
                  ELSE dtable' = dtable @@ (dk :> Ev.v)
               /\ l' = l + 1 /\ UNCHANGED << table, compared, grp >>
TReturn == /\ l <= Len(TraceEvents) /\ Ev.e = "Return" /\ key # << >>
           /\ key' = << >> /\ l' = l + 1 /\ UNCHANGED << table, compared, dtable, grp >>
\* A "Tainted" event is a valgrind-memcheck report between the markers of a run whose secret arguments were marked undefined
\* (and whose declassifications were honoured): a branch, or an address, was computed from data derived from a secret and
\* never declassified.  The specification has NO transition that consumes such an event -- a trace containing one is not a
\* behaviour of a constant-time library, whatever the values of the secrets were in that run.
Next == TCall \/ TSegment \/ TDeclassify \/ TReturn
\* the machine is deterministic: the position determines the state, so TLC fingerprints only the position (linear instead of
\* quadratic cost in the trace length; the table is still carried and consulted)
TraceView == l
\* error traces print the position and the comparison count only (the table would make the printout quadratic)
TraceAlias == [ l |-> l, compared |-> compared ]
\* accepted iff all events are consumed (TLC reports this "invariant" violated exactly then)
NotAccepted == l <= Len(TraceEvents)

=============================================================================
