------------------------------ MODULE Aliasing ------------------------------
(* Actions whose specified result does not depend on whether the OUTPUT buffer is one of the INPUT buffers of the same call  *)
(* (the C prototypes are not restrict-qualified, the headers do not forbid the overlap, and the idioms are natural: a        *)
(* running total of blinding factors, hashing host randomness in place, a shared secret overwriting the secret key).  The    *)
(* engine replays every generated record of these actions a further time with "alias": 1 in the input and the SAME          *)
(* specified output; the harness operation then passes the input buffer as the output argument (harness/ops_*.h).           *)
(* ec_pubkey_combine is deliberately absent: it clears its output before reading its inputs on the unchanged tree.           *)
AliasEvents == { "PedBlindSum", "HostCommit", "Ecdh", "EllswiftXdh" }
=============================================================================
