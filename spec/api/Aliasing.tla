------------------------------ MODULE Aliasing ------------------------------
(* Actions whose specified result does not depend on whether the OUTPUT buffer is (or contains) one of the INPUT buffers of the  *)
(* same call: the C prototypes are not restrict-qualified, the headers do not forbid the overlap, the unchanged library reads     *)
(* every input before its first write to the output, and the idioms are natural (a running total of blinding factors, hashing    *)
(* host randomness in place, a shared secret overwriting the secret key, staging message / key / auxiliary randomness in the     *)
(* buffer that will receive the signature).  Each entry is <<action, number of alias modes>>: the engine replays every generated  *)
(* record of the action once per mode m with "alias": m in the input and the SAME specified output; what mode m aliases is        *)
(* defined next to the harness operation (harness/ops_*.h).                                                                      *)
(* ec_pubkey_combine is deliberately absent: it clears its output before reading its inputs on the unchanged tree.               *)
AliasEvents == { <<"PedBlindSum", 1>>,      \* 1: blind_out = buffer of the first input blind
                 <<"HostCommit", 1>>,       \* 1: commitment written over the randomness buffer
                 <<"Ecdh", 1>>,             \* 1: output = secret-key buffer (32-byte outputs)
                 <<"EllswiftXdh", 1>>,      \* 1: output = secret-key buffer
                 <<"EcdsaSign", 3>>,        \* 1: message, 2: secret key, 3: extra nonce data stored inside the signature object
                 <<"SchnorrSign", 2>>,      \* 1: auxiliary randomness at sig64, 2: message (<= 32 bytes) at sig64 + 32
                 <<"EcdsaNormalize", 1>>,   \* 1: sigout = sigin (normalised in place)
                 <<"KTagged", 2>> }         \* 1: hash32 = start of the message buffer, 2: start of the tag buffer (when >= 32 bytes)
=============================================================================
