------------------------------- MODULE C05_Field -------------------------------
(***************************************************************************)
(* C05 part 1 -- the field API as a state machine explored by TLC.         *)
(*                                                                         *)
(* State: NR registers (value mod p, magnitude, normalized) and the number *)
(* of mutating operations still allowed ("fuel").  Next applies every      *)
(* operation of FieldApi whose documented precondition holds, with every   *)
(* choice of registers and of the small argument pools below.  Two ways of *)
(* exploring it (chosen by the cfg):                                       *)
(*  * bounded  (VIEW view, Bounded = TRUE): all operation sequences up to  *)
(*    the depth bound from every value of the edge start pool; states are  *)
(*    identified by the register contents (values included);               *)
(*  * magnitude-complete (VIEW absview, Bounded = FALSE): no depth bound;  *)
(*    states are identified by the (magnitude, normalized) pairs of the    *)
(*    registers only, so TLC explores the WHOLE magnitude calculus 0..32   *)
(*    of the header (a finite space) while carrying concrete values.       *)
(* Every distinct state is emitted once (EmitState, an invariant: TLC      *)
(* evaluates invariants on new states only) with the path that led to it   *)
(* and ALL operations enabled in it with their specified effects; the      *)
(* runner replays every one of these labelled transitions through the real *)
(* secp256k1_fe_* functions behind that path, on every build variant, and  *)
(* compares value / return value / magnitude / normalized after every step.*)
(***************************************************************************)
EXTENDS FieldApi, CurveParams, Verif, FiniteSets

CONSTANTS NR,          \* number of registers (2 or 3)
          DeepFuel,    \* depth bound for the first NDeep start values
          ShallowFuel, \* depth bound for the other start values
          NDeep,
          MaxStart,    \* number of start values used (capped by the pool; the quick tier additionally caps at 16)
          Bounded,     \* TRUE: fuel is consumed (depth bound); FALSE: magnitude-complete exploration (use VIEW absview)
          Symmetric    \* TRUE: every register is a full accumulator; FALSE: only register 0 is, the others are operands
Regs == 0..(NR-1)

TwoTo(k) == Pow2(k)
Max256 == Sub(TwoTo(256), One)
\* all-ones limb patterns of the 5x52 and 10x26 layouts (as 256-bit integers)
Ones(lo, hi) == Sub(TwoTo(hi), TwoTo(lo))                    \* bits lo..hi-1 set
Alt52a == Add(Add(Ones(0, 52), Ones(104, 156)), Ones(208, 256))      \* limbs 0, 2, 4 all ones
Alt52b == Add(Ones(52, 104), Ones(156, 208))                          \* limbs 1, 3 all ones
RECURSIVE Alt26(_)
Alt26(i) == IF i >= 10 THEN Zero ELSE Add(Ones(26 * i, IF 26 * i + 26 > 256 THEN 256 ELSE 26 * i + 26), Alt26(i + 2))
HalfP == Shr(P, 1)
\* start values are 32-byte PATTERNS loaded with set_b32_mod (so patterns >= p are non-canonical representations)
StartPool == << Sub(P, One), Max256, P, FromBytesBE(Rnd32(501)), Zero, One, Sub(P, Two), HalfP, Add(HalfP, One), TwoTo(255),
                Alt52a, Alt52b, Alt26(0), Alt26(1), Add(P, One), Sub(TwoTo(256), TwoTo(32)), Ones(0, 52), Ones(52, 256), TwoTo(52), TwoTo(26),
                Sub(TwoTo(208), One), FromBytesBE(Rnd32(502)) >>
Min2(a, b) == IF a <= b THEN a ELSE b
NStart == Min2(MaxStart, IF EnvNat("VERIF_THOROUGH") = 1 THEN Len(StartPool) ELSE 16)
Companion == << FromBytesBE(Rnd32(503)), Sub(P, Two), Alt26(1) >>     \* start patterns of registers 1, 2
LoadPool == << ToBytesBE(Sub(P, One), 32), ToBytesBE(P, 32), ToBytesBE(Max256, 32), ToBytesBE(FromBytesBE(Rnd32(504)), 32) >>
IntPool == {1, 32767}
MulIntPool == {0, 2, 3, 8, 32}

\* the operations offered in a state (filtered by FePre)
AccOps(regs, r) ==
  LET others == Regs \ {r} IN
       { << nm, r, r, r, 0 >> : nm \in { "normalize", "normalize_weak", "normalize_var", "half", "inv", "inv_var", "sqr", "stor" } }
  \cup { << "add_int", r, r, r, k >> : k \in IntPool }
  \cup { << "mul_int", r, r, r, k >> : k \in MulIntPool }
  \cup { << "negate", r, r, r, k >> : k \in { regs[r].m, 31 } }
  \cup { << "add", r, a, a, 0 >> : a \in Regs }
  \cup { << "mul", r, r, b, 0 >> : b \in others }
  \cup { << "mul", r, a, b, 0 >> : a \in others, b \in others }
  \cup { << nm, r, a, a, 0 >> : nm \in { "sqrt", "sqr", "inv_var" }, a \in others }
  \cup { << "negate", r, a, a, regs[a].m >> : a \in others }
  \cup { << "cmov", r, a, a, k >> : a \in others, k \in {0, 1} }
  \cup { << "set_int", r, r, r, k >> : k \in {0, 7} }
  \cup { << nm, r, r, r, LoadPool[i] >> : nm \in { "set_b32_mod", "set_b32_limit" }, i \in 1..Len(LoadPool) }
OperandOps(regs, r) ==
       { << nm, r, r, r, 0 >> : nm \in { "normalize", "normalize_weak" } }
  \cup { << "negate", r, r, r, regs[r].m >>, << "set_b32_limit", r, r, r, LoadPool[2] >>, << "mul_int", r, r, r, 3 >> }
PredOps(regs) ==
       { << nm, 0, a, a, 0 >> : nm \in { "get_b32", "is_zero", "is_odd", "normalizes_to_zero", "normalizes_to_zero_var", "is_square_var" }, a \in Regs }
  \cup { << nm, 0, a, b, 0 >> : nm \in { "equal", "cmp_var" }, a \in Regs, b \in Regs }
MutOps(regs) == UNION { IF Symmetric \/ r = 0 THEN AccOps(regs, r) ELSE OperandOps(regs, r) : r \in Regs }
EnabledMut(regs) == { op \in MutOps(regs) : FePre(regs, op) }
EnabledPred(regs) == { op \in PredOps(regs) : FePre(regs, op) }

VARIABLES regs, fuel, root, path
vars == << regs, fuel, root, path >>
MagOf(rg) == [r \in Regs |-> << rg[r].m, rg[r].n >>]
view    == << regs, fuel, IF path = << >> THEN root ELSE << >> >>
absview == << MagOf(regs), root >>

PatBytes(x) == ToBytesBE(x, 32)
StartRegs(i) == [r \in Regs |-> FeLoadMod(PatBytes(IF r = 0 THEN StartPool[i] ELSE Companion[r]))]
RegOut(x) == << x.v, x.m, x.n >>
EdgeOut(rg, op) == LET e == FeEffect(rg, op) IN << op, e.w, RegOut(e.reg), e.ret, e.bytes >>
Init == \E i \in 1..NStart :
          /\ regs = StartRegs(i)
          /\ fuel = IF i <= NDeep THEN DeepFuel ELSE ShallowFuel
          /\ root = << PatBytes(StartPool[i]) >> \o [r \in 1..(NR-1) |-> PatBytes(Companion[r])]
          /\ path = << >>
Next == /\ fuel > 0
        /\ \E op \in EnabledMut(regs) :
              /\ regs' = FeApply(regs, FeEffect(regs, op))
              /\ fuel' = IF Bounded THEN fuel - 1 ELSE fuel
              /\ path' = Append(path, EdgeOut(regs, op))
              /\ root' = root
Spec == Init /\ [][Next]_vars

\* ---- design-level invariants ---------------------------------------------------------------
TypeOK == \A r \in Regs : FeWellFormed(regs[r])
\* every effect offered in this state satisfies the algebraic post-conditions of the header
EffectsSound == fuel > 0 => \A op \in EnabledMut(regs) : FeEffectSound(regs, op, FeEffect(regs, op))

\* ---- emission: one line per distinct state with its path and every enabled operation with its specified effect ----
EmitState == fuel > 0 =>
  AppendLine(ToJson([ s |-> [r \in Regs |-> RegOut(regs[r])], f |-> fuel, root |-> root, path |-> path,
                      mut |-> { EdgeOut(regs, op) : op \in EnabledMut(regs) },
                      prd |-> { EdgeOut(regs, op) : op \in EnabledPred(regs) } ]), IOEnv.GEN_OUT)
=============================================================================
