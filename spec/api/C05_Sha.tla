------------------------------- MODULE C05_Sha -------------------------------
(***************************************************************************)
(* C05 part 5 -- SHA-256 write-chunk sequences as a state machine.         *)
(* The message is a fixed seeded byte string; a state is the stream object *)
(* of ShaStream.tla after some sequence of writes.  Next = write the next  *)
(* c bytes for every chunk length c of the pool; TLC explores EVERY        *)
(* sequence of chunk lengths up to the total bound (sequences that lead to *)
(* the same stream object are merged -- the object is all a continuation   *)
(* can depend on) and checks in every reachable state that finalizing      *)
(* gives the one-shot Sha256Hash of the bytes written so far and that the  *)
(* number of compressed blocks is the specified one.  Every (state, chunk) *)
(* transition is emitted and replayed through secp256k1_sha256_write with  *)
(* a counting compression function behind the state's shortest prefix.     *)
(***************************************************************************)
EXTENDS ShaStream, Verif

CONSTANTS MaxTotal
ChunkPool == {0, 1, 8, 55, 56, 63, 64, 65, 119, 120, 127, 128, 129}
StreamMsg == [j \in 1..MaxTotal |-> Rnd32(700 + ((j - 1) \div 32))[((j - 1) % 32) + 1]]

VARIABLES h
Init == h = ShsInit
Fits(c) == h.bytes + c <= MaxTotal
After(c) == ShsWrite(h, SubSeq(StreamMsg, h.bytes + 1, h.bytes + c))
Next == \E c \in ChunkPool : Fits(c) /\ h' = After(c)
Spec == Init /\ [][Next]_h

WellFormed == ShsWellFormed(h)
DigestAgrees == ShsAgrees(h, SubSeq(StreamMsg, 1, h.bytes))
EmitState ==
  LET f == ShsFinalize(h) IN
  AppendLine(ToJson([ t |-> h.bytes, c |-> h.calls, b |-> h.blocks, digest |-> f.digest, fblocks |-> f.blocks - h.blocks,
                      msg |-> IF h.bytes = 0 THEN StreamMsg ELSE << >>,
                      edges |-> { << c, After(c).calls >> : c \in { x \in ChunkPool : Fits(x) } } ]), IOEnv.GEN_OUT)
=============================================================================
