------------------------------- MODULE C07_Untrusted -------------------------------
(***************************************************************************)
(* C07 -- untrusted bytes never cause undefined behaviour or callback      *)
(* aborts.  Level: exploration.  This module contributes                   *)
(*  (1) the CONTRACT of every parsing / verification entry point: the call *)
(*      returns only 0 or 1 (NULL / non-NULL), neither callback fires,     *)
(*      nothing stays allocated, and an object produced by a successful    *)
(*      parse is handed to every consumer of its type under the same       *)
(*      contract.  There is no action for a crash, a sanitizer report, a   *)
(*      VERIFY_CHECK abort, a callback or a leak: an event of that kind    *)
(*      is rejected by Contract.                                           *)
(*  (2) the INPUT-SPACE STRUCTURE: one grammar per wire format, enumerated *)
(*      by TLC (GrammarCases), and the mutation classes applied to valid   *)
(*      artefacts that the library produced itself (MutCases).             *)
(* Undefined behaviour itself is not defined here; it is observed by the   *)
(* sanitizer / VERIFY builds of the harness, which turn it into a "Crash"  *)
(* event.  Acceptance exactness is not re-decided (C03/C10/C11/C16/C17/C19).*)
(***************************************************************************)
EXTENDS Integers, Curve, CurveParams, Verif

Thorough == EnvNat("VERIF_THOROUGH") = 1

-----------------------------------------------------------------------------
(* ============================ the contract ============================= *)
PubkeyUses == { "ser33", "ser65", "neg", "combneg", "comb", "tadd", "tmul", "cmp", "sort", "xonly", "xonly_np", "ecdsa", "ecdh", "ellenc",
                "magg", "magg_nopk", "magg_nocache", "magg_none", "mngen", "mpsv", "mnproc", "adenc", "adver_pk", "adver_ek", "adrec", "aeh" }
XonlyUses  == { "ser", "cmp", "tadd", "tcheck", "schnorr", "agg", "aggver" }
SigUses    == { "der", "der_short", "compact", "norm", "norm_null", "verify", "adrec", "s2c", "aeh" }
RpUses(p)  == IF p = 1 THEN { "rp_info", "rp_verify", "rp_rewind" } ELSE { "info", "verify", "rewind" }

\* entry points that are run on the bytes whatever the primary call returned
Always(e) ==
  CASE e = "UXonly"      -> { "tcheck_raw0", "tcheck_raw1" }
    [] e = "USeckey"     -> { "create", "keypair", "negate", "sk_tadd", "tadd_by", "tmul_by", "pk_tadd_by", "pk_tmul_by", "xo_tadd_by", "kp_tadd_by", "ecdh", "addec" }
    [] e = "USigDer"     -> { "lax" }
    [] e = "UMusigAdapt" -> { "adapt1", "extract_pre", "extract_sig" }
    [] e = "UEllswift"   -> { "xdh_a0", "xdh_b1", "xdh_b0", "xdh_aa" }
    [] e = "UAdaptor"    -> { "decrypt", "recover" }
    [] e = "URangeproof" -> RpUses(0)
    [] e = "UBpppVerify" -> { "again" }
    [] e = "USchnorr"    -> { "null_msg0" }          \* msg = NULL is legal iff msglen = 0
    [] e = "UAggVerify"  -> { "null0" }              \* NULL arrays are legal iff the counts are 0
    [] e = "UIncAgg"     -> { "null0" }
    [] OTHER -> { }
\* consumers of the object a successful parse produced
IfOk(e) ==
  CASE e = "UPubkey"     -> PubkeyUses
    [] e = "UEllswift"   -> PubkeyUses
    [] e = "UXonly"      -> XonlyUses
    [] e = "USigCompact" -> SigUses
    [] e = "USigDer"     -> SigUses
    [] e = "URecSig"     -> { "compact", "convert", "recover", "verify" }
    [] e = "UCommit"     -> { "ser", "tally_eq", "tally_2_0", "tally_0_1" } \cup RpUses(1)
    [] e = "UGenerator"  -> { "ser", "commit", "sj_out", "sj_in" } \cup RpUses(1)
    [] e = "UOpening"    -> { "ser", "s2c", "aeh" }
    [] e = "UPubnonce"   -> { "ser", "nagg", "nagg_self", "nagg_ser", "psv" }
    [] e = "UAggnonce"   -> { "ser", "nproc", "nproc_ad" }
    [] e = "UPartialSig" -> { "ser", "psv", "agg" }
    [] e = "USurjection" -> { "ser", "ser_short", "verify", "verify_mis" }
    [] e = "UWhitelist"  -> { "ser", "ser_short", "verify", "verify_mis" }
    [] e = "UIncAgg"     -> { "aggver" }
    [] e = "UBpppGens"   -> { "ser", "verify" }
    [] OTHER -> { }
\* objects derived from the untrusted bytes by a further call are handed on as well
Has1(u, k) == k \in DOMAIN u /\ u[k] = 1
\* a proof that passes ring verification: rewind with the prover's nonce (r) and another one (w), message buffer and length (ml) /
\* buffer only (m) / neither (0), blind and value outputs given (bv) or NULL (00) -- every legal combination of the optional outputs
RwNames(pfx) == { pfx \o "rw_" \o n \o "_" \o o \o "_" \o b : n \in { "r", "w" }, o \in { "ml", "m", "0" }, b \in { "bv", "00" } }
RwChain(pfx, u) == IF Has1(u, pfx \o "verify") THEN RwNames(pfx) ELSE { }
MaggChain(u) == IF Has1(u, "magg") THEN { "mget", "mtweak_xo", "mtweak_ec_null" } ELSE { }
Chained(e, u) ==
  CASE e = "UPubkey"   -> MaggChain(u)
    [] e = "UEllswift" -> MaggChain(u)
    [] e = "USeckey"   -> IF Has1(u, "keypair") THEN { "kp_xonly", "kp_xonly_np", "kp_pub", "kp_sec" } ELSE { }
    [] e = "URangeproof" -> RwChain("", u)
    [] e = "UCommit"   -> RwChain("rp_", u)
    [] e = "UGenerator" -> RwChain("rp_", u)
    [] e = "USigDer"   -> IF Has1(u, "lax") THEN { "lax_norm", "lax_verify", "lax_compact" } ELSE { }
    [] e = "UAggnonce" -> IF Has1(u, "nproc") THEN { "s_psv", "s_agg", "s_parity" } ELSE { }
    [] e = "UAdaptor"  -> IF Has1(u, "decrypt") THEN { "d_verify", "d_recover", "d_compact" } ELSE { }
    [] OTHER -> { }
EntryOps == { "UPubkey", "UXonly", "USeckey", "USigCompact", "USigDer", "URecSig", "USchnorr", "UCommit", "UGenerator", "UOpening",
              "UPubnonce", "UAggnonce", "UPartialSig", "UMusigAdapt", "UEllswift", "UAdaptor", "URangeproof", "USurjection",
              "UWhitelist", "UAggVerify", "UIncAgg", "UBpppGens", "UBpppVerify" }
\* result range of one call: comparison functions return a memcmp-style difference, everything else 0 or 1
Range(k) == IF k = "cmp" THEN -255..255 ELSE { 0, 1 }

DLen(ev) == IF "dlen" \in DOMAIN ev.in THEN ev.in.dlen ELSE Len(ev.in.data)
\* documented illegal use inside the generated space: n_before + n_new overflowing size_t (the header demands the callback)
TwoTo64 == Pow2(64)
IncOverflows(i) == ~Lt(Add(FromBytesBE(i.nb), FromBytesBE(i.nn)), TwoTo64)
Icb(ev) == IF ev.e = "UIncAgg" /\ IncOverflows(ev.in) THEN 1 ELSE 0

Uses(o) == IF "use" \in DOMAIN o THEN o.use ELSE << >>
\* facts about a parsed object that the public headers promise (sizes and count limits)
ObjectOK(ev) ==
  LET o == ev.out IN
  CASE ev.e = "USurjection" -> o.nt <= 256 /\ o.nu <= o.nt /\ o.ssz = DLen(ev) /\ o.ssz = 2 + ((o.nt + 7) \div 8) + 32 * (1 + o.nu)
    [] ev.e = "UWhitelist"  -> o.nk <= 255 /\ DLen(ev) = 1 + 32 * (o.nk + 1)
    [] ev.e = "UBpppGens"   -> 33 * o.n = DLen(ev)
    [] ev.e = "UIncAgg"     -> o.newlen <= DLen(ev) /\ (o.newlen % 32) = 0 /\ o.newlen >= 32
    [] OTHER -> TRUE

Contract(ev) ==
  /\ ev.e \in EntryOps                                   \* in particular: e = "Crash" is no action of this machine
  /\ LET o == ev.out  u == Uses(ev.out) IN
     /\ "ret" \in DOMAIN o /\ o.ret \in { 0, 1 }
     /\ "icb" \in DOMAIN o /\ o.icb = Icb(ev)
     /\ "ecb" \notin DOMAIN o
     /\ "leak" \in DOMAIN o /\ o.leak = 0
     /\ ("rleak" \in DOMAIN o => o.rleak = 0)
     /\ (Icb(ev) = 1 => o.ret = 0)
     /\ DOMAIN u = Always(ev.e) \cup (IF o.ret = 1 THEN IfOk(ev.e) ELSE { }) \cup Chained(ev.e, u)
     /\ \A k \in DOMAIN u : u[k] \in Range(k)
     /\ (o.ret = 1 => ObjectOK(ev))

\* the equality part of the contract (what the replay comparison demands field by field)
Out(x) == [ icb |-> Icb(x), leak |-> 0 ]

-----------------------------------------------------------------------------
(* ============================ boundary pools ============================ *)
B32(x) == ToBytesBE(x, 32)
Max256 == Sub(Pow2(256), One)
Z32 == Zeros(32)   F32 == Rep(255, 32)   One32 == B32(One)
P32 == B32(P)   PM1 == B32(Sub(P, One))   PP1 == B32(Add(P, One))
N32 == B32(N)   NM1 == B32(Sub(N, One))   NP1 == B32(Add(N, One))
GX == B32(G[1])   GY == B32(G[2])   GYN == B32(FNeg(G[2]))
Pool32 == << Z32, One32, F32, P32, PM1, PP1, N32, NM1, NP1, GX, Rnd32(11), Rnd32(12) >>
NPool == Len(Pool32)
PoolIdx == 1..NPool
X5 == << GX, Z32, F32, P32, Rnd32(13) >>
Nat0(n) == IF n < 0 THEN 0 ELSE n
Cut(b, n) == IF n <= Len(b) THEN SubSeq(b, 1, n) ELSE b \o Rep(1, n - Len(b))
U64(hi, lo) == << hi, 0, 0, 0, 0, 0, 0, lo >>        \* 8-byte big-endian: hi * 2^56 + lo
MkRec(e, in) == [ e |-> e, in |-> in ]
DRec(e, data) == MkRec(e, [ data |-> data ])

(* ---------------- public keys, x-only keys, secret keys ---------------- *)
PkCases ==
       { << "pk33", p, x >> : p \in 0..255, x \in (IF Thorough THEN 1..5 ELSE { 1, 4 }) }
  \cup { << "pk33", p, x >> : p \in { 0, 2, 3, 4, 6, 7 }, x \in 1..5 }
  \cup { << "pk65", p, v >> : p \in 0..255, v \in (IF Thorough THEN 1..4 ELSE { 1, 3 }) }
  \cup { << "pk65", p, v >> : p \in { 0, 2, 3, 4, 5, 6, 7 }, v \in 1..4 }
  \cup { << "pklen", l, p >> : l \in 0..70, p \in { 2, 4, 6, 7 } }
  \cup { << "xo", i >> : i \in PoolIdx } \cup { << "sk", i >> : i \in PoolIdx }
Pk65Body(v) == CASE v = 1 -> GX \o GY [] v = 2 -> GX \o GYN [] v = 3 -> GX \o Rnd32(14) [] v = 4 -> P32 \o GY

(* ---------------- ECDSA signatures: compact, recoverable, DER ---------------- *)
LenEnc(f, n) ==
  CASE f = 0 -> << n % 256 >>
    [] f = 1 -> << 129, n % 256 >>
    [] f = 2 -> << 130, (n \div 256) % 256, n % 256 >>
    [] f = 3 -> << 131, 0, (n \div 256) % 256, n % 256 >>
    [] f = 4 -> << 128 >>                                     \* indefinite length
    [] f = 5 -> << 132, 0, 0, 0, n % 256 >>
    [] f = 6 -> << 136 >> \o Zeros(7) \o << n % 256 >>         \* 8 length bytes = sizeof(size_t)
    [] f = 7 -> << 137 >> \o Zeros(8) \o << n % 256 >>         \* 9 length bytes
    [] f = 8 -> << 255 >>
    [] f = 9 -> << 136 >> \o Rep(255, 8)                      \* SIZE_MAX
    [] f = 10 -> << 132, 255, 255, 255, 255 >>
    [] f = 11 -> << 136, 128 >> \o Zeros(6) \o << n % 256 >>  \* 2^63 + n
LenForms == 0..11
IntBody(c) ==
  CASE c = 1 -> << 1 >>  [] c = 2 -> << >>  [] c = 3 -> << 0 >>  [] c = 4 -> << 128 >>
    [] c = 5 -> << 0, 1 >>  [] c = 6 -> << 0, 128 >>  [] c = 7 -> << 255, 127 >>  [] c = 8 -> << 255, 128 >>
    [] c = 9 -> << Rnd32(21)[1] % 128 >> \o SubSeq(Rnd32(21), 2, 32)
    [] c = 10 -> << 0 >> \o F32  [] c = 11 -> << 0 >> \o N32  [] c = 12 -> << 0, 0 >> \o F32
    [] c = 13 -> Rep(1, 40)  [] c = 14 -> << 0 >> \o NM1
IntClasses == 1..14
Der(st, f1, d1, t1, f2, d2, rc, t2, f3, d3, sc, tail) ==
  LET r == IntBody(rc)  s == IntBody(sc)
      ri == << t1 >> \o LenEnc(f2, Nat0(Len(r) + d2)) \o r
      si == << t2 >> \o LenEnc(f3, Nat0(Len(s) + d3)) \o s
  IN  << st >> \o LenEnc(f1, Nat0(Len(ri) + Len(si) + d1)) \o ri \o si \o tail
DerDefault == Der(48, 0, 0, 2, 0, 0, 9, 2, 0, 0, 9, << >>)
DerDeltas == { -1, 0, 1, 100 }
SigCases ==
       { << "sigc", i, j >> : i \in PoolIdx, j \in PoolIdx }
  \cup { << "recsig", i, j, rid >> : i \in { 1, 2, 4, 7, 10, 11 }, j \in { 1, 2, 7, 8, 11 }, rid \in 0..3 }
  \cup { << "der_seq", f, d >> : f \in LenForms, d \in DerDeltas }
  \cup { << "der_int", w, f, d, c >> : w \in { 1, 2 }, f \in LenForms, d \in DerDeltas, c \in { 1, 2, 9, 10, 13 } }
  \cup { << "der_rs", rc, sc >> : rc \in IntClasses, sc \in IntClasses }
  \cup { << "der_tag", w, t >> : w \in 1..3, t \in 0..255 }
  \cup { << "der_trunc", k >> : k \in 0..Len(DerDefault) }
  \cup { << "der_tail", v >> : v \in 1..3 }
  \cup { << "der_lt", w, f, k >> : w \in { 1, 2 }, f \in LenForms, k \in 1..12 }     \* input ends inside a (long-form) length field
ExpandDer(c) ==
  CASE c[1] = "der_seq" -> Der(48, c[2], c[3], 2, 0, 0, 9, 2, 0, 0, 9, << >>)
    [] c[1] = "der_int" -> IF c[2] = 1 THEN Der(48, 0, 0, 2, c[3], c[4], c[5], 2, 0, 0, 9, << >>)
                                       ELSE Der(48, 0, 0, 2, 0, 0, 9, 2, c[3], c[4], c[5], << >>)
    [] c[1] = "der_rs" -> Der(48, 0, 0, 2, 0, 0, c[2], 2, 0, 0, c[3], << >>)
    [] c[1] = "der_tag" -> IF c[2] = 1 THEN Der(c[3], 0, 0, 2, 0, 0, 9, 2, 0, 0, 9, << >>)
                           ELSE IF c[2] = 2 THEN Der(48, 0, 0, c[3], 0, 0, 9, 2, 0, 0, 9, << >>)
                           ELSE Der(48, 0, 0, 2, 0, 0, 9, c[3], 0, 0, 9, << >>)
    [] c[1] = "der_trunc" -> SubSeq(DerDefault, 1, c[2])
    [] c[1] = "der_lt" -> LET full == IF c[2] = 1 THEN << 48 >> \o LenEnc(c[3], 70) ELSE << 48, 70, 2 >> \o LenEnc(c[3], 33)
                          IN  SubSeq(full, 1, IF c[4] <= Len(full) THEN c[4] ELSE Len(full))
    [] c[1] = "der_tail" -> DerDefault \o (CASE c[2] = 1 -> << 0 >> [] c[2] = 2 -> << 48, 0 >> [] c[2] = 3 -> Rep(255, 40))

(* ---------------- BIP-340 verification ---------------- *)
MsgLens == { 0, 1, 31, 32, 33, 55, 56, 63, 64, 65, 119, 120, 200 }
SchnorrCases == { << "schnorr", i, j, 32 >> : i \in PoolIdx, j \in PoolIdx }
           \cup { << "schnorr", i, j, m >> : i \in { 10, 11 }, j \in { 2, 7 }, m \in MsgLens }

(* ---------------- 33-byte zkp objects: commitments (prefix 8/9), generators (10/11), s2c openings (2/3) ---------------- *)
P33Cases == { << "p33", k, p, x >> : k \in 1..3, p \in 0..255, x \in (IF Thorough THEN 1..5 ELSE { 1 }) }
       \cup { << "p33", k, p, x >> : k \in 1..3, p \in { 0, 2, 3, 4, 8, 9, 10, 11, 255 }, x \in 1..5 }
P33Op(k) == CASE k = 1 -> "UCommit" [] k = 2 -> "UGenerator" [] k = 3 -> "UOpening"

(* ---------------- MuSig: 66-byte public / aggregate nonces, 32-byte partial signatures, adapt ---------------- *)
X3 == << GX, Z32, P32 >>
MusigCases ==
       { << "n66", k, h, p, x >> : k \in 1..2, h \in 1..2, p \in 0..255, x \in (IF Thorough THEN 1..2 ELSE { 1 }) }
  \cup { << "n66x", k, x, y, p, q >> : k \in 1..2, x \in 1..3, y \in 1..3, p \in { 0, 2, 3, 4 }, q \in { 0, 2, 3 } }
  \cup { << "psig", i >> : i \in PoolIdx }
  \cup { << "madapt", i, j, k >> : i \in PoolIdx, j \in PoolIdx, k \in { 1, 7, 11 } }
Ok33 == << 2 >> \o GX

(* ---------------- ElligatorSwift (64 bytes) ---------------- *)
EllCases == { << "ell", i, j >> : i \in PoolIdx, j \in PoolIdx }

(* ---------------- ECDSA adaptor signatures: R (33) || R' (33) || s' (32) || DLEQ e (32) || DLEQ s (32) ---------------- *)
AdaptorCases ==
       { << "ad_pt", w, p, x >> : w \in 1..2, p \in 0..255, x \in (IF Thorough THEN 1..3 ELSE { 1 }) }
  \cup { << "ad_pt", w, p, x >> : w \in 1..2, p \in { 0, 2, 3, 4 }, x \in 1..3 }
  \cup { << "ad_sc", i, j, k >> : i \in PoolIdx, j \in PoolIdx, k \in { 2 } }
  \cup { << "ad_sc", 2, 2, k >> : k \in PoolIdx }
Adaptor(r, rp, sp, e, s) == r \o rp \o sp \o e \o s

(* ---------------- Schnorr half-aggregates: r_1 .. r_n || s, every length 0..32(n+2) ---------------- *)
HaggBody(v, len) == CASE v = 1 -> Zeros(len) [] v = 2 -> Rep(255, len)
                      [] v = 3 -> [ i \in 1..len |-> IF i > len - 32 THEN One32[i - (len - 32)] ELSE GX[((i - 1) % 32) + 1] ]
HaggN == IF Thorough THEN 0..5 ELSE 0..3
HaggCases == { << "hagg", n, l, v >> : n \in HaggN, l \in 0..(32 * (5 + 2)), v \in 1..3 }   \* l > 32(n+2) is mapped onto Skip
        \cup { << "hinc", l, nb, nn >> : l \in { 0, 31, 32, 33, 64, 95, 96, 97, 128, 160 }, nb \in 1..7, nn \in 1..6 }
IncNb == << U64(0, 0), U64(0, 1), U64(0, 2), U64(0, 3), Rep(255, 8), Rep(255, 7) \o << 254 >>, U64(128, 0) >>       \* .., 2^64-1, 2^64-2, 2^63
IncNn == << U64(0, 0), U64(0, 1), U64(0, 2), Rep(255, 8), U64(128, 0), << 127 >> \o Rep(255, 7) >>                      \* .., 2^64-1, 2^63, 2^63-1
\* small counts stay inside the harness pools; huge counts that do not overflow are refused by the length check; overflowing ones
\* are documented illegal use (Icb)

(* ---------------- whitelist signatures: count byte || e0 || count scalars ---------------- *)
WlDeltas(c) == IF Thorough \/ (c % 32) = 0 \/ c >= 253 \/ c <= 3 THEN { -1, 0, 1 }
               ELSE IF (c % 8) = 0 \/ c <= 16 \/ c >= 248 THEN { 0 } ELSE { }
WlCases == { << "wl", c, d >> : c \in 0..255, d \in { -1, 0, 1 } }                          \* filtered by WlDeltas (others are mapped onto Skip)

(* ---------------- surjection proofs: n_inputs (LE16) || bitmap || e0 || n_used scalars ---------------- *)
SjN == (0..9) \cup (255..264) \cup { 1000, 65535 }
SjCases == { << "sj", n, pat, d >> : n \in SjN, pat \in 1..5, d \in { -1, 0, 1, 2 } }        \* n > 264: patterns 1 and 4 only
Popcount8(b) == (b % 2) + ((b \div 2) % 2) + ((b \div 4) % 2) + ((b \div 8) % 2) + ((b \div 16) % 2) + ((b \div 32) % 2) + ((b \div 64) % 2) + (b \div 128)
RECURSIVE PopcountFrom(_, _)
PopcountFrom(b, i) == IF i > Len(b) THEN 0 ELSE Popcount8(b[i]) + PopcountFrom(b, i + 1)
SjBitmap(n, pat) ==
  LET bl == (n + 7) \div 8
      lastmask == IF (n % 8) = 0 THEN 255 ELSE (2 ^ (n % 8)) - 1
  IN CASE pat = 1 -> Zeros(bl)
       [] pat = 2 -> [ i \in 1..bl |-> IF i = bl THEN lastmask ELSE 255 ]          \* every input used, canonical padding
       [] pat = 3 -> Rep(255, bl)                                                \* padding bits set
       [] pat = 4 -> [ i \in 1..bl |-> IF i = 1 THEN 1 ELSE 0 ]
       [] pat = 5 -> [ i \in 1..bl |-> IF i = bl THEN 85 & lastmask ELSE 85 ]
SjData(n, pat, d) ==
  LET bm == SjBitmap(n, pat)  sl == 32 * (1 + PopcountFrom(bm, 1)) IN
  << n % 256, n \div 256 >> \o bm \o (IF d = 2 THEN << >> ELSE Rep(1, Nat0(sl + d)))

(* ---------------- range proofs: header (rangeproof_impl.h:487-538) and body length (564-646) ---------------- *)
\* ring structure the verifier derives from the mantissa
RpRings(m) == IF m = 0 THEN 1 ELSE (m \div 2) + (m % 2)
RpNpub(m)  == IF m = 0 THEN 1 ELSE 4 * (m \div 2) + 2 * (m % 2)
RpNeed(m)  == 32 * (RpNpub(m) + RpRings(m) - 1) + 32 + ((RpRings(m) + 6) \div 8)
RpMin == << U64(0, 0), U64(0, 1), U64(128, 0), Rep(255, 8), Rep(255, 7) \o << 254 >>, << 127 >> \o Rep(255, 7) >>   \* 0, 1, 2^63, 2^64-1, 2^64-2, 2^63-1
\* b0: header byte (bit 7 reserved, bit 6 non-zero range, bit 5 minimum present, bits 0..4 exponent); b1: mantissa - 1
RpProof(b0, b1, mi, sg, d) ==
  LET nz == ((b0 \div 64) % 2) = 1   hasmin == ((b0 \div 32) % 2) = 1
      m == IF nz /\ b1 <= 63 THEN b1 + 1 ELSE 0
      hdr == << b0 >> \o (IF nz THEN << b1 >> ELSE << >>) \o (IF hasmin THEN RpMin[mi] ELSE << >>)
      rings == RpRings(m)
      signs == Rep(sg, (rings + 6) \div 8)
      pts == Flatten([ i \in 1..(rings - 1) |-> GX ])
      body == signs \o pts \o Flatten([ i \in 1..(RpNpub(m) + 1) |-> One32 ])
  IN  hdr \o Cut(body, Nat0(RpNeed(m) + d))
RpB1 == IF Thorough THEN 0..255 ELSE { 0, 1, 2, 3, 6, 7, 30, 31, 32, 61, 62, 63, 64, 65, 127, 128, 255 }
RpHdr == << 64, 96, 64 + 18, 64 + 19, 96 + 18 >>
RpCases ==
       { << "rp0", b0, d >> : b0 \in 0..255, d \in { -1, 0, 1 } }
  \cup { << "rp1", b1, h, d, sg >> : b1 \in RpB1, h \in 1..5, d \in { -1, 0, 1 }, sg \in (IF Thorough THEN { 0, 255 } ELSE { 0 }) }
  \cup { << "rpmin", b0, mi, d >> : b0 \in { 32, 96, 96 + 18, 96 + 1 }, mi \in 1..6, d \in { -1, 0 } }
  \cup { << "rplen", l, b0 >> : l \in 0..140, b0 \in { 0, 32, 64, 96 } }

(* ---------------- Bulletproofs++: generator lists (33 bytes each) and norm-argument proofs ---------------- *)
OkGen == << 10 >> \o GX
BadGen(v) == CASE v = 1 -> << 2 >> \o GX [] v = 2 -> << 10 >> \o P32 [] v = 3 -> << 11 >> \o F32
BgCases == { << "bg", k, d, bad, pos >> : k \in 0..5, d \in { -1, 0, 1 }, bad \in 0..3, pos \in 1..3 }
BgList(k, bad, pos) ==
  LET at == IF pos = 1 THEN 1 ELSE IF pos = 2 THEN (k + 1) \div 2 ELSE k IN
  Flatten([ i \in 1..k |-> IF bad # 0 /\ i = at THEN BadGen(bad) ELSE OkGen ])
BpDims == << << 1, 1 >>, << 2, 1 >>, << 4, 2 >>, << 8, 8 >>, << 3, 1 >>, << 0, 1 >>, << 1, 0 >>, << 2, 3 >> >>
Log2(n) == IF n >= 8 THEN 3 ELSE IF n >= 4 THEN 2 ELSE IF n >= 2 THEN 1 ELSE 0
BpRounds(dm) == LET a == Log2(BpDims[dm][1])  b == Log2(BpDims[dm][2]) IN IF a > b THEN a ELSE b
\* rounds * (sign byte || X_x || R_x) || n || l
BpProof(dm, sign, x, y, i, j) == Flatten([ r \in 1..BpRounds(dm) |-> << sign >> \o X3[x] \o X3[y] ]) \o Pool32[i] \o Pool32[j]
BpCases ==
       { << "bp", dm, sign, 1, 1, 2, 2, 0 >> : dm \in { 2, 3, 4 }, sign \in 0..255 }
  \cup { << "bp", dm, sign, x, y, 2, 2, 0 >> : dm \in 1..8, sign \in 0..3, x \in 1..3, y \in 1..3 }
  \cup { << "bp", 3, 1, 1, 1, i, j, 0 >> : i \in PoolIdx, j \in PoolIdx }
  \cup { << "bp", dm, 0, 1, 1, 2, 2, d >> : dm \in 1..8, d \in { -1, 1, 65 } }

GrammarCases == PkCases \cup SigCases \cup SchnorrCases \cup P33Cases \cup MusigCases \cup EllCases \cup AdaptorCases
                \cup HaggCases \cup WlCases \cup SjCases \cup RpCases \cup BgCases \cup BpCases

\* descriptors of the product sets that fall outside the intended space are mapped onto one harmless record
Skip == DRec("USeckey", One32)
ExpandGrammar(c) ==
  CASE c[1] = "pk33"  -> DRec("UPubkey", << c[2] >> \o X5[c[3]])
    [] c[1] = "pk65"  -> DRec("UPubkey", << c[2] >> \o Pk65Body(c[3]))
    [] c[1] = "pklen" -> DRec("UPubkey", SubSeq(<< c[3] >> \o GX \o GY \o Rnd32(15), 1, c[2]))
    [] c[1] = "xo"    -> DRec("UXonly", Pool32[c[2]])
    [] c[1] = "sk"    -> DRec("USeckey", Pool32[c[2]])
    [] c[1] = "sigc"  -> DRec("USigCompact", Pool32[c[2]] \o Pool32[c[3]])
    [] c[1] = "recsig" -> MkRec("URecSig", [ data |-> Pool32[c[2]] \o Pool32[c[3]], recid |-> c[4] ])
    [] c[1] \in { "der_seq", "der_int", "der_rs", "der_tag", "der_trunc", "der_tail", "der_lt" } -> DRec("USigDer", ExpandDer(c))
    [] c[1] = "schnorr" -> MkRec("USchnorr", [ data |-> Pool32[c[2]] \o Pool32[c[3]], msg |-> Cut(Rnd32(16), c[4]) ])
    [] c[1] = "p33"   -> DRec(P33Op(c[2]), << c[3] >> \o X5[c[4]])
    [] c[1] = "n66"   -> LET half == << c[4] >> \o X3[c[5]] IN
                         DRec(IF c[2] = 1 THEN "UPubnonce" ELSE "UAggnonce", IF c[3] = 1 THEN half \o Ok33 ELSE Ok33 \o half)
    [] c[1] = "n66x"  -> DRec(IF c[2] = 1 THEN "UPubnonce" ELSE "UAggnonce", << c[5] >> \o X3[c[3]] \o << c[6] >> \o X3[c[4]])
    [] c[1] = "psig"  -> DRec("UPartialSig", Pool32[c[2]])
    [] c[1] = "madapt" -> MkRec("UMusigAdapt", [ data |-> Pool32[c[2]] \o Pool32[c[3]], sec |-> Pool32[c[4]] ])
    [] c[1] = "ell"   -> DRec("UEllswift", Pool32[c[2]] \o Pool32[c[3]])
    [] c[1] = "ad_pt" -> LET pt == << c[3] >> \o X3[c[4]] IN
                         DRec("UAdaptor", IF c[2] = 1 THEN Adaptor(pt, Ok33, One32, One32, One32) ELSE Adaptor(Ok33, pt, One32, One32, One32))
    [] c[1] = "ad_sc" -> DRec("UAdaptor", Adaptor(Ok33, Ok33, Pool32[c[2]], Pool32[c[3]], Pool32[c[4]]))
    [] c[1] = "hagg"  -> IF c[3] > 32 * (c[2] + 2) THEN Skip ELSE MkRec("UAggVerify", [ data |-> HaggBody(c[4], c[3]), n |-> c[2] ])
    [] c[1] = "hinc"  -> MkRec("UIncAgg", [ data |-> HaggBody(3, c[2]), nb |-> IncNb[c[3]], nn |-> IncNn[c[4]] ])
    [] c[1] = "wl"    -> IF c[3] \notin WlDeltas(c[2]) THEN Skip ELSE DRec("UWhitelist", << c[2] >> \o Rep(1, Nat0(32 * (c[2] + 1) + c[3])))
    [] c[1] = "sj"    -> IF c[2] > 264 /\ (c[3] \notin { 1, 4 } \/ c[4] # 0) THEN Skip ELSE DRec("USurjection", SjData(c[2], c[3], c[4]))
    [] c[1] = "rp0"   -> DRec("URangeproof", RpProof(c[2], 0, 1, 0, c[3]))
    [] c[1] = "rp1"   -> DRec("URangeproof", RpProof(RpHdr[c[3]], c[2], 2, c[5], c[4]))
    [] c[1] = "rpmin" -> DRec("URangeproof", RpProof(c[2], 1, c[3], 0, c[4]))
    [] c[1] = "rplen" -> DRec("URangeproof", SubSeq(<< c[3], 0 >> \o Rep(1, 140), 1, c[2]))
    [] c[1] = "bg"    -> LET l == BgList(c[2], c[4], c[5]) IN
                         DRec("UBpppGens", IF c[3] = -1 THEN SubSeq(l, 1, Nat0(Len(l) - 1)) ELSE IF c[3] = 1 THEN l \o << 0 >> ELSE l)
    [] c[1] = "bp"    -> LET p == BpProof(c[2], c[3], c[4], c[5], c[6], c[7]) IN
                         MkRec("UBpppVerify", [ data |-> IF c[8] = -1 THEN SubSeq(p, 1, Len(p) - 1) ELSE IF c[8] = 0 THEN p ELSE p \o Zeros(c[8]),
                                              glen |-> BpDims[c[2]][1], clen |-> BpDims[c[2]][2] ])

-----------------------------------------------------------------------------
(* ============ mutation classes over valid artefacts made by the library ============ *)
\* one line per artefact: [ e, in (context + data), var (1 = the API takes a length), hdr (number of leading header bytes) ]
Arts == ndJsonDeserialize(IOEnv.C07_ARTS)
ALen(a) == Len(Arts[a].in.data)
RndNat(k) == LET h == Rnd32(5000 + (k \div 10))  o == 3 * (k % 10) IN h[o + 1] * 65536 + h[o + 2] * 256 + h[o + 3]
SmallLen == IF Thorough THEN 700 ELSE 100
NSample == IF Thorough THEN 2000 ELSE 160
FlipBits(a) == IF ALen(a) <= SmallLen THEN 0..(8 * ALen(a) - 1)
               ELSE { RndNat(10000 * a + j) % (8 * ALen(a)) : j \in 1..NSample }
TruncAt(a) == IF ALen(a) <= SmallLen THEN 0..(ALen(a) - 1)
              ELSE (0..70) \cup ((ALen(a) - 70)..(ALen(a) - 1)) \cup { RndNat(10000 * a + 5000 + j) % ALen(a) : j \in 1..(NSample \div 2) }
MutPool == << Z32, F32, P32, PM1, N32, NM1, GX, One32 >>
NFields == IF Thorough THEN 8 ELSE 4
\* 32-byte windows: aligned to the end (al = 1), to the start (al = 2), to the start after one prefix byte (al = 3)
FieldPos(a, al, f) == CASE al = 1 -> ALen(a) - 32 * f + 1 [] al = 2 -> 32 * (f - 1) + 1 [] al = 3 -> 32 * (f - 1) + 2
FieldOk(a, al, f) == FieldPos(a, al, f) >= 1 /\ FieldPos(a, al, f) + 31 <= ALen(a)
\* header / count byte edits: every value for the first byte, the neighbourhood of the thresholds (and of the current value) after it
ByteVals(a, pos) == IF pos = 1 THEN 0..255
                    ELSE (0..9) \cup { 31, 32, 33, 63, 64, 65, 127, 128, 129, 253, 254, 255 }
                         \cup { (Arts[a].in.data[pos] + 1) % 256, (Arts[a].in.data[pos] + 255) % 256 }
MutCases ==
  UNION { { << "orig", a >> }
          \cup { << "flip", a, b >> : b \in FlipBits(a) }
          \cup (IF Arts[a].var = 1 THEN { << "trunc", a, k >> : k \in TruncAt(a) } \cup { << "ext", a, v >> : v \in 1..4 } ELSE { })
          \cup { << "sub32", a, al, f, p >> : al \in 1..3, f \in { g \in 1..NFields : \E al2 \in 1..3 : FieldOk(a, al2, g) }, p \in 1..Len(MutPool) }
          \cup UNION { { << "byte", a, pos, v >> : v \in (IF Thorough THEN 0..255 ELSE ByteVals(a, pos)) } : pos \in 1..Arts[a].hdr }
        : a \in 1..Len(Arts) }
SetBytes(b, pos, v) == [ i \in 1..Len(b) |-> IF i >= pos /\ i < pos + Len(v) THEN v[i - pos + 1] ELSE b[i] ]
Mutate(c) ==
  LET a == c[2]  d == Arts[a].in.data IN
  CASE c[1] = "orig"  -> d
    [] c[1] = "flip"  -> FlipBit(d, c[3])
    [] c[1] = "trunc" -> SubSeq(d, 1, c[3])
    [] c[1] = "ext"   -> d \o (CASE c[3] = 1 -> << 0 >> [] c[3] = 2 -> << 255 >> [] c[3] = 3 -> Zeros(32) [] c[3] = 4 -> Rep(255, 33))
    [] c[1] = "sub32" -> IF FieldOk(a, c[3], c[4]) THEN SetBytes(d, FieldPos(a, c[3], c[4]), MutPool[c[5]]) ELSE d
    [] c[1] = "byte"  -> IF c[3] <= Len(d) THEN [ d EXCEPT ![c[3]] = c[4] ] ELSE d
ExpandMut(c) == MkRec(Arts[c[2]].e, [ Arts[c[2]].in EXCEPT !.data = Mutate(c) ])

-----------------------------------------------------------------------------
Cases == GrammarCases
AllCases == GrammarCases \cup MutCases
Expand(c) == IF c[1] \in { "orig", "flip", "trunc", "ext", "sub32", "byte" } THEN ExpandMut(c) ELSE ExpandGrammar(c)

\* design-level invariant of the generated space: every record addresses an entry point with bytes, and the entry points whose
\* API has no length argument get exactly their size (the harness refuses anything else as an infrastructure error)
FixedLen(e) ==
  CASE e = "UXonly" -> 32 [] e = "USeckey" -> 32 [] e = "USigCompact" -> 64 [] e = "URecSig" -> 64 [] e = "USchnorr" -> 64
    [] e = "UCommit" -> 33 [] e = "UGenerator" -> 33 [] e = "UOpening" -> 33 [] e = "UPubnonce" -> 66 [] e = "UAggnonce" -> 66
    [] e = "UPartialSig" -> 32 [] e = "UMusigAdapt" -> 64 [] e = "UEllswift" -> 64 [] e = "UAdaptor" -> 162 [] OTHER -> -1
WellFormed(r) == /\ r.e \in EntryOps /\ IsBytes(r.in.data)
                 /\ (FixedLen(r.e) >= 0 => Len(r.in.data) = FixedLen(r.e))
                 /\ (r.e = "URecSig" => r.in.recid \in 0..3)

VARIABLES phase, cur, rec
vars == << phase, cur, rec >>
Init == phase = "pick" /\ cur = << >> /\ rec = << >>
Pick == phase = "pick" /\ \E c \in Cases : cur' = c /\ phase' = "eval" /\ rec' = << >>
Eval == phase = "eval" /\ LET x == Expand(cur) IN rec' = [ e |-> x.e, in |-> x.in, out |-> Out(x), cls |-> cur[1] ]
        /\ phase' = "done" /\ cur' = cur
Next == Pick \/ Eval
InvWellFormed == phase = "done" => WellFormed(rec)
Emit == phase = "done" => EmitRecord(rec)

\* T direction: every event recorded from the implementation is decided by the contract
TraceEvents == LoadTrace
TInit == phase = "pick" /\ cur = 0 /\ rec = TRUE
TPick == phase = "pick" /\ \E i \in 1..Len(TraceEvents) : cur' = i /\ phase' = "eval" /\ rec' = rec
TEval == phase = "eval" /\ rec' = Contract(TraceEvents[cur]) /\ phase' = "done" /\ cur' = cur
TNext == TPick \/ TEval
TraceOK == rec = TRUE
=============================================================================
