------------------------------- MODULE C13_Inductive -------------------------------
(***************************************************************************)
(* C13, unbounded histories: the single-use invariants of C13_MuSigNonce   *)
(* as an INDUCTIVE invariant, discharged symbolically by Apalache          *)
(* (Init => IndInv with --length=0; IndInv /\ Next => IndInv' with          *)
(* --length=1 and --init=IndInit).  Same actions as C13_MuSigNonce, written *)
(* with uniformly typed records (Apalache's type system) and without the   *)
(* ghost label.  Randomness buffers do not influence the invariants and    *)
(* are abstracted away (NonceGen succeeds or fails nondeterministically).  *)
(***************************************************************************)
EXTENDS Integers, FiniteSets

CONSTANTS
  \* @type: Int;
  NObj,
  \* @type: Int;
  NKey,
  \* @type: Int;
  MaxId

Objs == 0..(NObj-1)
Keys == 0..(NKey-1)
AllKeys == 0..(NKey+1)

VARIABLES
  \* @type: Int -> { c: Str, id: Int, key: Int };
  obj,
  \* @type: Int -> Int;
  sigs,
  \* @type: Int;
  nextId

\* @type: { c: Str, id: Int, key: Int };
Zero == [c |-> "zero", id |-> 0, key |-> 0]
\* @type: { c: Str, id: Int, key: Int };
Junk == [c |-> "junk", id |-> 0, key |-> 0]
\* @type: (Int, Int) => { c: Str, id: Int, key: Int };
Live(i, k) == [c |-> "live", id |-> i, key |-> k]

CInit == NObj = 3 /\ NKey = 2 /\ MaxId = 8

Init == /\ obj = [o \in Objs |-> Zero]
        /\ sigs = [i \in 1..MaxId |-> 0]
        /\ nextId = 1

Scribble(o) == obj[o] = Zero /\ obj' = [obj EXCEPT ![o] = Junk] /\ UNCHANGED << sigs, nextId >>
GenOk(o, k) == /\ nextId <= MaxId
               /\ obj' = [obj EXCEPT ![o] = Live(nextId, k)]
               /\ nextId' = nextId + 1 /\ UNCHANGED sigs
GenFail(o) == obj' = [obj EXCEPT ![o] = Zero] /\ UNCHANGED << sigs, nextId >>      \* every failing class with a non-NULL object
GenNull == UNCHANGED << obj, sigs, nextId >>                                          \* secnonce NULL
\* ok = all other arguments valid
PartialSign(o, k, ok) ==
  LET before == obj[o]
      signs == before.c = "live" /\ ok /\ before.key = k IN
  /\ obj' = [obj EXCEPT ![o] = Zero]
  /\ sigs' = IF signs THEN [sigs EXCEPT ![before.id] = @ + 1] ELSE sigs
  /\ UNCHANGED nextId

Next ==
  \/ \E o \in Objs : Scribble(o)
  \/ \E o \in Objs, k \in Keys : GenOk(o, k)
  \/ \E o \in Objs : GenFail(o)
  \/ GenNull
  \/ \E o \in Objs, k \in AllKeys, ok \in BOOLEAN : PartialSign(o, k, ok)

TypeOK == /\ obj \in [Objs -> [c : {"zero", "junk", "live"}, id : 0..MaxId, key : 0..(NKey+1)]]
          /\ sigs \in [1..MaxId -> 0..2]
          /\ nextId \in 1..(MaxId + 1)
SingleUse == \A i \in 1..MaxId : sigs[i] <= 1
NoAlias == \A o1, o2 \in Objs : (o1 # o2 /\ obj[o1].c = "live" /\ obj[o2].c = "live") => obj[o1].id # obj[o2].id
UsedIsGone == \A o \in Objs : obj[o].c = "live" => (obj[o].id \in 1..MaxId /\ sigs[obj[o].id] = 0)
Fresh == /\ \A o \in Objs : obj[o].c = "live" => obj[o].id < nextId
         /\ \A i \in 1..MaxId : i >= nextId => sigs[i] = 0
IndInv == TypeOK /\ SingleUse /\ NoAlias /\ UsedIsGone /\ Fresh
IndInit == IndInv
=============================================================================
