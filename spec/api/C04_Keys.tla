------------------------------- MODULE C04_Keys -------------------------------
(***************************************************************************)
(* C04 -- the key-derivation API as a machine over the PAIRED state        *)
(* (secret key d, public key Q).  Every step applies the secret-side and   *)
(* the public-side operation of KeyAlgebra.tla (defined independently of   *)
(* each other); the design-level theorem checked in every state is that    *)
(* they commute: both sides fail together and otherwise Q' = d'*G.         *)
(*  - K machine (KInit/KNext): a genuine state machine, run to closure in  *)
(*    the order-7/13/199 groups over every key and every tweak encoding;   *)
(*    each transition is a one-step call record for the small-group build. *)
(*  - Pick/Eval machine: chains of mixed tweaks with boundary tweaks in    *)
(*    the real group, combine / cmp / sort / tweak_add_check records.      *)
(***************************************************************************)
EXTENDS Integers, KeyAlgebra, PubkeyCodec, CurveParams, Verif, FiniteSets

KB(x) == ToBytesBE(x, 32)
KMax256 == Sub(Pow2(256), One)
KNone == [ x \in {} |-> 0 ]
KOpt(c, r) == IF c THEN r ELSE KNone
KPt(b) == PkParse(b)[2]

-----------------------------------------------------------------------------
\* one step on the paired state (d, Q): the record the harness logs (harness/ops_keys.h op_KeyChain)
KSec(d, Q, op) ==
  CASE op.op = 1 -> KaSecTweakAdd(d, op.t)
    [] op.op = 2 -> KaSecTweakMul(d, op.t)
    [] op.op = 3 -> KaSecNegate(d)
    [] op.op = 4 -> KaOk(IF KaParity(Q) = 1 THEN SNeg(d) ELSE d)     \* what a BIP-340 signer does with its secret key
    [] op.op = 5 -> KaKeypairTweakAdd(d, op.t)
KPub(d, Q, op) ==
  CASE op.op = 1 -> KaPubTweakAdd(Q, op.t)
    [] op.op = 2 -> KaPubTweakMul(Q, op.t)
    [] op.op = 3 -> KaPubNegate(Q)
    [] op.op = 4 -> KaOk(KaEven(Q))
    [] op.op = 5 -> KaXonlyTweakAdd(Q, op.t)
KStep(d, Q, op) ==
  LET sec == KSec(d, Q, op)  pub == KPub(d, Q, op)
      C == IF sec[1] THEN PMulG(sec[2]) ELSE Inf                      \* the public key derived from the new secret key
      r == [ sret |-> B2I(sec[1]), skok |-> B2I(sec[1]), pret |-> B2I(pub[1]), pkok |-> B2I(pub[1]) ]
           @@ KOpt(sec[1], [ sk |-> KB(sec[2]), ck |-> Ser33(C) ])
           @@ KOpt(pub[1], [ pk |-> Ser33(pub[2]) ])
           @@ KOpt(op.op \in {4, 5}, [ par |-> KaParity(Q) ])
           @@ KOpt(op.op = 5 /\ sec[1], [ kpk |-> Ser33(C), kx |-> X32(C), kpar |-> KaParity(C) ])
           @@ KOpt(op.op = 5 /\ pub[1], [ chk |-> B2I(KaTweakAddCheckR(X32(pub[2]), KaParity(pub[2]), pub)) ])  \* pub = KaXonlyTweakAdd(Q, t)
  IN  [ ok |-> sec[1] /\ pub[1], d |-> sec[2], Q |-> pub[2], rec |-> r ]
RECURSIVE KChain(_, _, _, _)
KChain(d, Q, ops, acc) ==
  IF Len(ops) = 0 THEN acc
  ELSE LET s == KStep(d, Q, Head(ops)) IN
       IF s.ok THEN KChain(s.d, s.Q, Tail(ops), Append(acc, s.rec)) ELSE Append(acc, s.rec)

OutPubkeyCreate(i) ==
  LET ps == ParseSecret(i.key) IN
  [ ret |-> B2I(ps[1]), verify |-> B2I(ps[1]), pk |-> IF ps[1] THEN Ser33(PMulG(ps[2])) ELSE Zeros(33), icb |-> 0 ]
OutKeypairCreate(i) ==
  LET ps == ParseSecret(i.key) IN
  IF ~ps[1] THEN [ ret |-> 0, skok |-> 0, icb |-> 0 ]
  ELSE LET Q == PMulG(ps[2]) IN [ ret |-> 1, sk |-> i.key, pk |-> Ser33(Q), xret |-> 1, x |-> X32(Q), par |-> KaParity(Q), icb |-> 0 ]
OutKeyChain(i) ==
  LET ps == ParseSecret(i.key) IN
  IF ~ps[1] THEN [ cret |-> 0, steps |-> << >>, icb |-> 0 ]
  ELSE LET Q == PMulG(ps[2]) IN [ cret |-> 1, pk0 |-> Ser33(Q), steps |-> KChain(ps[2], Q, i.ops, << >>), icb |-> 0 ]
KPoints(pks) == [ j \in 1..Len(pks) |-> KPt(pks[j]) ]
OutPubkeyCombine(i) ==
  IF Len(i.pks) = 0 THEN [ n |-> 0, ret |-> 0, pkok |-> 0, icb |-> 1 ]                    \* "n must be at least 1"
  ELSE LET r == KaCombine(KPoints(i.pks)) IN
       [ n |-> Len(i.pks), ret |-> B2I(r[1]), pkok |-> B2I(r[1]), icb |-> 0 ] @@ KOpt(r[1], [ pk |-> Ser33(r[2]) ])
OutPubkeyCmp(i) == [ pret |-> 1, sign |-> KaCmp(KPt(i.a), KPt(i.b)), icb |-> 0 ]
KSer33s(pks) == [ j \in 1..Len(pks) |-> Ser33(KPt(pks[j])) ]
\* "alias" k >= 2 (harness): every k-th pointer of the array refers to the object of the entry before it
KAliased(i) == IF "alias" \in DOMAIN i /\ i.alias >= 2
               THEN [ j \in 1..Len(i.pks) |-> IF j >= 2 /\ (j - 1) % i.alias = 0 THEN i.pks[j - 1] ELSE i.pks[j] ]
               ELSE i.pks
OutPubkeySort(i) == [ n |-> Len(i.pks), ret |-> 1, sorted |-> KaSort(KSer33s(KAliased(i))), icb |-> 0 ]
OutXonlyTweakCheck(i) ==
  LET p == XoParse(i.ix) IN
  IF ~p[1] THEN [ pret |-> 0, icb |-> 0 ]
  ELSE [ pret |-> 1, ret |-> B2I(KaTweakAddCheck(i.ox, i.par, p[2], i.t)), icb |-> 0 ]

\* secret-side operation on raw key bytes: an invalid key (0 or >= n) makes every operation fail and leaves no usable key
OutSeckeyRaw(i) ==
  LET ps == ParseSecret(i.key) IN
  IF ~ps[1] THEN [ ret |-> 0, skok |-> 0, icb |-> 0 ]
  ELSE LET t == IF "alias" \in DOMAIN i /\ i.alias = 1 THEN i.key ELSE i.t      \* alias = 1: the tweak argument is the key buffer itself
           r == CASE i.op = 1 -> KaSecTweakAdd(ps[2], t) [] i.op = 2 -> KaSecTweakMul(ps[2], t) [] i.op = 3 -> KaSecNegate(ps[2]) IN
       IF r[1] THEN [ ret |-> 1, skok |-> 1, sk |-> KB(r[2]), icb |-> 0 ] ELSE [ ret |-> 0, skok |-> 0, icb |-> 0 ]

Out(ev) == CASE ev.e = "SeckeyRaw"       -> OutSeckeyRaw(ev.in)
             [] ev.e = "KeyChain"        -> OutKeyChain(ev.in)
             [] ev.e = "PubkeyCreate"    -> OutPubkeyCreate(ev.in)
             [] ev.e = "KeypairCreate"   -> OutKeypairCreate(ev.in)
             [] ev.e = "PubkeyCombine"   -> OutPubkeyCombine(ev.in)
             [] ev.e = "PubkeyCmp"       -> OutPubkeyCmp(ev.in)
             [] ev.e = "PubkeySort"      -> OutPubkeySort(ev.in)
             [] ev.e = "XonlyTweakCheck" -> OutXonlyTweakCheck(ev.in)

-----------------------------------------------------------------------------
\* design-level theorems on records
HasF(r, f) == f \in DOMAIN r
\* the two sides commute in every step: they fail together, and otherwise the public-side result is the
\* public key of the secret-side result; the keypair and the tweak check agree with both
ThmStep(s) ==
  /\ s.sret = s.pret /\ s.skok = s.sret /\ s.pkok = s.pret
  /\ s.sret = 1 => s.pk = s.ck
  /\ HasF(s, "kpk") => s.kpk = s.pk /\ s.kx = SubSeq(s.pk, 2, 33) /\ s.kpar = s.pk[1] - 2
  /\ HasF(s, "chk") => s.chk = 1
ThmChain(i, o) == \A j \in 1..Len(o.steps) : ThmStep(o.steps[j])
ThmSort(i, o) == KaSortedPermutation(KSer33s(KAliased(i)), o.sorted)
ThmCmp(i, o) ==
  LET A == KPt(i.a)  Bp == KPt(i.b) IN
  /\ o.sign = 0 <=> A = Bp
  /\ o.sign = - KaCmp(Bp, A)
  /\ (A[1] = Bp[1] /\ A # Bp) => (o.sign = -1 <=> HasEvenY(A))          \* same x: the even-y key (prefix 02) is the smaller one
  /\ Lt(A[1], Bp[1]) /\ HasEvenY(A) = HasEvenY(Bp) => o.sign = -1

-----------------------------------------------------------------------------
\* generated input space (real group)
Thorough == EnvNat("VERIF_THOROUGH") = 1
KLambda == FromBytesBE(<< 83,99,173,76,192,92,48,224,165,38,28,2,136,18,100,90,18,46,34,234,32,129,102,120,223,2,150,124,27,35,189,114 >>)
KeyPool == << One, Two, FromNat(3), Sub(N, One), Sub(N, Two), HalfN, Add(HalfN, One), Mod(FromBytesBE(Rnd32(41)), N),
              Mod(FromBytesBE(Rnd32(42)), N), KLambda, Pow2(128), Sub(N, KLambda) >>
\* tweak kinds, resolved against the secret key d the tweak is applied to
NTweaks == 20
KTweak(tk, d, salt) ==
  CASE tk = 1 -> Zero [] tk = 2 -> One [] tk = 3 -> Sub(N, One) [] tk = 4 -> N
    [] tk = 5 -> Sub(N, d)                                  \* -key: the result is zero / infinity
    [] tk = 6 -> Add(Sub(N, d), One)                        \* result 1
    [] tk = 7 -> Sub(Sub(N, d), One)                        \* result n-1 (tweak 0 when d = n-1)
    [] tk = 8 -> KMax256 [] tk = 9 -> Pow2(128) [] tk = 10 -> Sub(Pow2(128), One) [] tk = 11 -> KLambda
    [] tk = 12 -> Add(N, One) [] tk = 13 -> FromBytesBE(Rnd32(300 + salt)) [] tk = 14 -> SInv(d)
    [] tk = 15 -> HalfN [] tk = 16 -> Pow2(255) [] tk = 17 -> Add(HalfN, One) [] tk = 18 -> Sub(N, KLambda)
    [] tk = 19 -> Mod(FromBytesBE(Rnd32(400 + salt)), N) [] tk = 20 -> Add(Sub(N, d), N)   \* -key + n: >= n, must be refused
SafeTweaks == << 2, 3, 6, 7, 9, 10, 11, 13, 14, 15, 17, 18, 19, 19, 19, 19 >>
\* resolve a chain of <<op, tweak kind>> descriptors into concrete ops by following the secret side
RECURSIVE KResolve(_, _, _, _)
KResolve(d, descr, j, acc) ==
  IF j > Len(descr) THEN acc
  ELSE LET op == descr[j][1]
           base == IF op \in {4, 5} THEN KaSecEven(d) ELSE d
           tv == KTweak(descr[j][2], base, j)
           t == IF op \in {3, 4} THEN << >> ELSE KB(IF Lt(tv, Pow2(256)) THEN tv ELSE KMax256)
           o == [ op |-> op, t |-> t ]
           sec == CASE op = 1 -> KaSecTweakAdd(d, t) [] op = 2 -> KaSecTweakMul(d, t) [] op = 3 -> KaSecNegate(d)
                    [] op = 4 -> KaOk(base) [] op = 5 -> KaSecTweakAdd(base, t)
       IN  IF sec[1] THEN KResolve(sec[2], descr, j + 1, Append(acc, o)) ELSE Append(acc, o)
KC(key, descr) == [ e |-> "KeyChain", in |-> [ key |-> KB(key), ops |-> KResolve(key, descr, 1, << >>) ] ]
RndDescr(j) ==
  LET r == Rnd32(500 + j) IN
  [ k \in 1..6 |-> << (r[2 * k] % 5) + 1, IF k < 6 THEN SafeTweaks[(r[2 * k + 1] % 16) + 1] ELSE (r[2 * k + 1] % NTweaks) + 1 >> ]

\* signed small multiples of a base point: entry k stands for k*D (k < 0: the negated point)
KBaseScalars == << One, Mod(FromBytesBE(Rnd32(43)), N) >>
KBasePts == << G, PMulG(KBaseScalars[2]) >>                \* evaluated once
KMultiple(Dp, k) == IF k > 0 THEN PMul(FromNat(k), Dp) ELSE PNeg(PMul(FromNat(0 - k), Dp))
KEnc(Q, how) == CASE how % 3 = 0 -> PkEnc33(Q) [] how % 3 = 1 -> PkEnc65(Q) [] how % 3 = 2 -> PkEncHybrid(Q)
CombLists == << << 1 >>, << 1, -1 >>, << 1, 2, -3 >>, << 1, -1, 2 >>, << 1, 1 >>, << 1, 1, 1 >>, << 1, -1, 1, -1 >>, << 2, 3, -5, 7 >>,
                << 5, -2, -3 >>, << >>, << -4 >>, << 1, 2, 3, 4, 5, 6, -21 >>, << 1, 2, 3, 4, 5, 6, -20 >>, << 7, 7, -14, 7, 7, -14 >>,
                << 3, -3, 3, -3, 3 >>, [ j \in 1..40 |-> 1 ], [ j \in 1..41 |-> IF j = 41 THEN -40 ELSE 1 ], [ j \in 1..64 |-> IF j % 2 = 0 THEN 0 - j ELSE j + 1 ],
                << 1, 2, -2, -1, 9 >>, << 2, -1, -1 >>, << 2, -1, -1, 1 >> >>
SortLens == { 0, 1, 2, 3, 5, 8, 39, 40, 41, 64, 200 } \cup (IF Thorough THEN { 4, 6, 7, 16, 17, 100, 199, 201, 500 } ELSE {})
\* len keys P_j = (j+3)*D in a scrambled order (mode 1 distinct, 2 with duplicates, 3 ascending multiples, 4 a constant list)
RECURSIVE KRun(_, _, _)
KRun(Dp, Q, n) == IF n = 0 THEN << >> ELSE << Q >> \o KRun(Dp, PAdd(Q, Dp), n - 1)
KSortList(len, mode, bi) ==
  LET Dp == KBasePts[bi]  pts == KRun(Dp, PMul(FromNat(4), Dp), IF len = 0 THEN 1 ELSE len)
      idx(j) == CASE mode = 1 -> ((j * 37 + 11) % len) + 1
                  [] mode = 2 -> (((j * 37 + 11) % len) % 7) + 1
                  [] mode = 3 -> j
                  [] mode = 4 -> 1
  IN  [ j \in 1..len |-> KEnc(pts[idx(j)], IF mode = 2 THEN j ELSE 0) ]

StepKeys == IF Thorough THEN 1..Len(KeyPool) ELSE { 1, 4, 10 }
EdgeTweaks == { 1, 4, 5, 6, 7, 8, 12, 14, 20 }
Cases ==
       { << "step", ki, op, tk >> : ki \in StepKeys, op \in {1, 2, 5}, tk \in (IF Thorough THEN 1..NTweaks ELSE EdgeTweaks) }
  \cup { << "step", 8, op, tk >> : op \in {1, 2, 5}, tk \in 1..NTweaks }
  \cup { << "step", ki, op, 1 >> : ki \in 1..Len(KeyPool), op \in {3, 4} }
  \cup { << "rchain", j >> : j \in 1..(IF Thorough THEN 600 ELSE 30) }
  \cup { << "create", v, w >> : v \in { Zero, One, Sub(N, One), N, Add(N, One), KMax256, HalfN, Pow2(255), Mod(FromBytesBE(Rnd32(44)), N), Sub(P, One) }, w \in {0, 1} }
  \cup { << "comb", k, 2, enc >> : k \in 1..Len(CombLists), enc \in {0, 1} }
  \cup { << "comb", k, 1, 0 >> : k \in 1..Len(CombLists) }
  \cup { << "cmp", a, b, 2 >> : a \in { -3, -2, -1, 1, 2, 3, 5 }, b \in { -3, -2, -1, 1, 2, 3, 5 } }
  \cup { << "cmp", a, b, 1 >> : a \in { -2, -1, 1, 2 }, b \in { -1, 1, 2 } }
  \cup { << "sort", len, mode, bi, 0 >> : len \in SortLens, mode \in (IF Thorough THEN 1..4 ELSE 1..2), bi \in (IF Thorough THEN 1..2 ELSE {2}) }
  \cup { << "sort", len, mode, 1, 0 >> : len \in { 2, 41 }, mode \in 3..4 }
  \cup { << "sort", len, 1, 2, al >> : len \in { 5, 41, 64 }, al \in { 2, 3 } }
  \cup { << "skalias", v, op >> : v \in { One, Two, Sub(N, One), HalfN, Add(HalfN, One), Mod(FromBytesBE(Rnd32(41)), N), Zero, N }, op \in {1, 2} }
  \cup { << "skraw", v, op, t >> : v \in { Zero, One, Sub(N, One), N, Add(N, One), KMax256 }, op \in {1, 2, 3}, t \in { One, FromNat(5), Sub(N, One) } }
       \* keys and tweaks just below n that differ from n in one 32-bit / 64-bit limb only (a limb-wise range test that consults the wrong limb)
  \cup UNION { { << "skraw", Sub(N, Pow2(w)), op, t >> : op \in {1, 2, 3}, t \in { FromNat(5), Sub(N, Pow2(w)) } } : w \in { 32, 64, 96, 128, 192, 224 } }
  \cup { << "skraw", Sub(Sub(N, Pow2(32)), FromNat(5)), 1, FromNat(5) >> }
  \cup { << "tchkwrap", x, v >> : x \in 1..8, v \in {0, 1} }
  \cup { << "tchkinf", ki, claim, par >> : ki \in { 1, 4, 8 }, claim \in 0..3, par \in {0, 1} }
  \cup { << "tchk", ki, tk, mut >> : ki \in (IF Thorough THEN { 1, 4, 8, 9 } ELSE { 4, 8 }), tk \in (IF Thorough THEN { 1, 2, 3, 4, 5, 8, 13, 19 } ELSE { 1, 3, 4, 5, 8, 19 }), mut \in 0..6 }

ExpandTchk(ki, tk, mut) ==
  LET Q0 == PMulG(KeyPool[ki])  Q == KaEven(Q0)
      d == IF KaParity(Q0) = 1 THEN SNeg(KeyPool[ki]) ELSE KeyPool[ki]
      tv == KTweak(tk, d, ki)  t == KB(IF Lt(tv, Pow2(256)) THEN tv ELSE KMax256)
      r == KaXonlyTweakAdd(Q, t)
      ox == IF r[1] THEN X32(r[2]) ELSE X32(Q)
      par == IF r[1] THEN KaParity(r[2]) ELSE 0
      T(ix, tt, oo, pp) == [ e |-> "XonlyTweakCheck", in |-> [ ix |-> ix, t |-> tt, ox |-> oo, par |-> pp ] ]
  IN  CASE mut = 0 -> T(X32(Q), t, ox, par)
        [] mut = 1 -> T(X32(Q), t, ox, 1 - par)                                  \* the other parity
        [] mut = 2 -> T(X32(Q), t, ox, 2)
        [] mut = 3 -> T(X32(Q), t, X32(Q), par)                                  \* the untweaked key
        [] mut = 4 -> T(X32(Q), KB(Mod(Add(FromBytesBE(t), One), Pow2(256))), ox, par)   \* neighbouring tweak
        [] mut = 5 -> T(ox, t, X32(Q), par)                                      \* roles exchanged
        [] mut = 6 -> T(KB(FromNat(5)), t, ox, par)                              \* internal key does not parse

\* X: the order-7/13/199 groups.  Scalars as 32-byte encodings incl. the overflow encodings N, N+1, N+2, 2^256-1.
NN == ToNat(N)
TinyScalars == { FromNat(x) : x \in 0..(NN + 2) } \cup { KMax256 }
TinyOps == { [ op |-> o, t |-> KB(t) ] : o \in {1, 2, 5}, t \in TinyScalars } \cup { [ op |-> 3, t |-> << >> ], [ op |-> 4, t |-> << >> ] }
TinyPt(k) == IF k > 0 THEN PMulG(FromNat(k)) ELSE PNeg(PMulG(FromNat(0 - k)))
TinyListMax == IF NN > 20 THEN 2 ELSE IF Thorough \/ NN < 10 THEN 3 ELSE 2
TinyLists == UNION { [ 1..n -> 1..(NN - 1) ] : n \in 0..TinyListMax }
TinyCases ==
       { << "tcomb", l >> : l \in TinyLists }
  \cup { << "tcmp", a, b >> : a \in 1..(NN - 1), b \in 1..(NN - 1) }
  \cup { << "tsort", l >> : l \in TinyLists }
  \cup { << "tsortall", r >> : r \in 1..3 }
  \cup { << "ttchk", k, t, x, par >> : k \in (IF NN > 20 THEN { 1, 2, 3, 50, 99, 100, 197, 198 } ELSE 1..(NN - 1)),
                                        t \in (IF NN > 20 THEN { Zero, One, FromNat(NN - 1), N, KMax256 } ELSE TinyScalars),
                                        x \in 1..((NN - 1) \div 2) \cup { 0 }, par \in {0, 1} }
  \cup { << "tkp", s >> : s \in TinyScalars }
ExpandTiny(c) ==
  CASE c[1] = "tcomb" -> [ e |-> "PubkeyCombine", in |-> [ pks |-> [ j \in 1..Len(c[2]) |-> KEnc(TinyPt(c[2][j]), j) ] ] ]
    [] c[1] = "tcmp"  -> [ e |-> "PubkeyCmp", in |-> [ a |-> PkEnc33(TinyPt(c[2])), b |-> PkEnc65(TinyPt(c[3])) ] ]
    [] c[1] = "tsort" -> [ e |-> "PubkeySort", in |-> [ pks |-> [ j \in 1..Len(c[2]) |-> KEnc(TinyPt(c[2][j]), j) ] ] ]
    [] c[1] = "tsortall" -> \* every key of the group several times over, scrambled
         LET len == c[2] * (NN - 1) IN
         [ e |-> "PubkeySort", in |-> [ pks |-> [ j \in 1..len |-> PkEnc33(TinyPt(((j * 5 + 3) % (NN - 1)) + 1)) ] ] ]
    [] c[1] = "ttchk" -> \* internal key k*G; claimed output key: x(j*G) for every j (x = 0: a non-key), both parities
         LET Q == KaEven(TinyPt(c[2]))  ox == IF c[4] = 0 THEN KB(FromNat(5)) ELSE X32(TinyPt(c[4])) IN
         [ e |-> "XonlyTweakCheck", in |-> [ ix |-> X32(Q), t |-> KB(c[3]), ox |-> ox, par |-> c[5] ] ]
    [] c[1] = "tkp" -> [ e |-> "KeypairCreate", in |-> [ key |-> KB(c[2]) ] ]

\* a tweaked key whose x is tiny, so that x + p still fits in 32 bytes: the check must accept the canonical bytes of x only.
\* Q = lift_x(x); internal key P = Q - t*G; if P has odd y the even internal key is -P and the tweak -t leads to -Q (parity 1).
ExpandTchkWrap(x, v) ==
  LET l == LiftX(FromNat(x))  t == FromNat(9) IN
  IF ~l[1] THEN [ e |-> "XonlyTweakCheck", in |-> [ ix |-> KB(FromNat(5)), t |-> KB(t), ox |-> KB(FromNat(x)), par |-> 0 ] ]
  ELSE LET Q == l[2]  Pp == PSub(Q, PMulG(t))
           odd == KaParity(Pp) = 1
           tt == IF odd THEN SNeg(t) ELSE t
           ox == IF v = 0 THEN KB(FromNat(x)) ELSE KB(Add(FromNat(x), P))
       IN  [ e |-> "XonlyTweakCheck", in |-> [ ix |-> X32(Pp), t |-> KB(tt), ox |-> ox, par |-> IF odd THEN 1 ELSE 0 ] ]

Expand(c) ==
  CASE c[1] = "skalias" -> [ e |-> "SeckeyRaw", in |-> [ key |-> KB(c[2]), op |-> c[3], t |-> KB(c[2]), alias |-> 1 ] ]
    [] c[1] = "skraw"  -> [ e |-> "SeckeyRaw", in |-> [ key |-> KB(c[2]), op |-> c[3], t |-> KB(c[4]) ] ]
    [] c[1] = "tchkwrap" -> ExpandTchkWrap(c[2], c[3])
    [] c[1] = "tchkinf" ->   \* the tweak cancels the (even) internal key: the tweaked point is infinity and NO (x, parity) claim may be accepted,
                             \* in particular not the 32 zero bytes that an unchecked conversion of infinity would read as
         LET Q0 == PMulG(KeyPool[c[2]])  Q == KaEven(Q0)
             d == IF KaParity(Q0) = 1 THEN SNeg(KeyPool[c[2]]) ELSE KeyPool[c[2]]
             ox == CASE c[3] = 0 -> KB(Zero) [] c[3] = 1 -> X32(Q) [] c[3] = 2 -> KB(One) [] c[3] = 3 -> X32(PMulG(Two))
         IN  [ e |-> "XonlyTweakCheck", in |-> [ ix |-> X32(Q), t |-> KB(SNeg(d)), ox |-> ox, par |-> c[4] ] ]
    [] c[1] = "step"   -> KC(KeyPool[c[2]], << << c[3], c[4] >> >>)
    [] c[1] = "rchain" -> KC(KeyPool[(c[2] % Len(KeyPool)) + 1], RndDescr(c[2]))
    [] c[1] = "create" -> IF c[3] = 1 THEN [ e |-> "PubkeyCreate", in |-> [ key |-> KB(c[2]) ] ]
                          ELSE [ e |-> "KeypairCreate", in |-> [ key |-> KB(c[2]) ] ]
    [] c[1] = "comb"   -> LET Dp == KBasePts[c[3]]  l == CombLists[c[2]] IN
                          [ e |-> "PubkeyCombine", in |-> [ pks |-> [ j \in 1..Len(l) |-> KEnc(KMultiple(Dp, l[j]), c[4] * j) ] ] ]
    [] c[1] = "cmp"    -> LET Dp == KBasePts[c[4]] IN
                          [ e |-> "PubkeyCmp", in |-> [ a |-> KEnc(KMultiple(Dp, c[2]), c[2] + 3), b |-> KEnc(KMultiple(Dp, c[3]), c[3] + 4) ] ]
    [] c[1] = "sort"   -> [ e |-> "PubkeySort", in |-> IF c[5] = 0 THEN [ pks |-> KSortList(c[2], c[3], c[4]) ]
                                                        ELSE [ pks |-> KSortList(c[2], c[3], c[4]), alias |-> c[5] ] ]
    [] c[1] = "tchk"   -> ExpandTchk(c[2], c[3], c[4])
    [] OTHER -> ExpandTiny(c)

-----------------------------------------------------------------------------
VARIABLES phase, cur, rec
vars == << phase, cur, rec >>
Init == phase = "pick" /\ cur = << >> /\ rec = << >>
Pick == phase = "pick" /\ \E c \in Cases : cur' = c /\ phase' = "eval" /\ rec' = << >>
Eval == phase = "eval" /\ LET x == Expand(cur) IN rec' = [ e |-> x.e, in |-> x.in, out |-> Out(x) ]
        /\ phase' = "done" /\ cur' = cur
Next == Pick \/ Eval
Done(e) == phase = "done" /\ rec.e = e
InvChain == Done("KeyChain") => ThmChain(rec.in, rec.out)
InvSort  == Done("PubkeySort") => ThmSort(rec.in, rec.out)
InvCmp   == Done("PubkeyCmp") => ThmCmp(rec.in, rec.out)
\* combining public keys commutes with adding secret keys: the list is given by secret multipliers of a base key
InvCombine == (phase = "done" /\ cur[1] = "comb") =>
  LET l == CombLists[cur[2]]  d == KBaseScalars[cur[3]]
      RECURSIVE Sum(_) Sum(j) == IF j = 0 THEN Zero ELSE SAdd(Sum(j - 1), IF l[j] > 0 THEN SMul(FromNat(l[j]), d) ELSE SNeg(SMul(FromNat(0 - l[j]), d)))
      s == Sum(Len(l))
  IN  IF Len(l) = 0 THEN rec.out.ret = 0
      ELSE /\ rec.out.ret = 0 <=> IsZero(s)
           /\ rec.out.ret = 1 => rec.out.pk = Ser33(PMulG(s))
\* the tweak check accepts exactly the pair the tweak produces
InvTchk == (phase = "done" /\ cur[1] = "tchk") =>
  LET k == KeyPool[cur[2]]  t == FromBytesBE(rec.in.t) IN
  /\ cur[4] = 0 => /\ rec.out.ret = 1 => Lt(t, N)                            \* refused exactly for t >= n and t = -d, d in {k, -k}
                   /\ (rec.out.ret = 0 /\ Lt(t, N)) => t \in { k, Sub(N, k) }  \* (exact in the small groups: KFailures)
  /\ cur[4] \in { 1, 2 } => rec.out.ret = 0
  /\ (cur[4] \in { 3, 4 } /\ ~IsZero(t)) => rec.out.ret = 0                   \* (with the zero tweak the untweaked key IS the result;
                                                                            \*  mut 5 is accepted exactly when the tweaked key has odd y)
Emit == phase = "done" => EmitRecord(rec)

-----------------------------------------------------------------------------
\* the paired state machine (exhaustive in the small groups) on the same variables:
\*   phase = "k"     cur = <<d, Q>> (the paired state) or KDead, rec = << >>        -- a state of the client
\*   phase = "kcall" cur = the paired state after the call, rec = the call record     -- a transition, to be replayed
KDead == << Zero, Inf >>
KInit == \E s \in TinyScalars :
           LET x == [ e |-> "PubkeyCreate", in |-> [ key |-> KB(s) ] ]  o == Out(x) IN
           /\ phase = "kcall"
           /\ rec = [ e |-> x.e, in |-> x.in, out |-> o ]
           /\ cur = IF o.ret = 1 THEN << s, KPt(o.pk) >> ELSE KDead
KCall == /\ phase = "k" /\ cur # KDead
         /\ \E op \in TinyOps :
              LET s == KStep(cur[1], cur[2], op) IN
              /\ rec' = [ e |-> "KeyChain", in |-> [ key |-> KB(cur[1]), ops |-> << op >> ],
                          out |-> [ cret |-> 1, pk0 |-> Ser33(cur[2]), steps |-> << s.rec >>, icb |-> 0 ] ]
              /\ cur' = IF s.ok THEN << s.d, s.Q >> ELSE KDead
              /\ phase' = "kcall"
KRet == phase = "kcall" /\ phase' = "k" /\ cur' = cur /\ rec' = << >>
KNext == KCall \/ KRet
KAt == phase = "kcall"
\* THE property: the public key is always the public key of the secret key
KPaired == phase \in { "k", "kcall" } => (cur = KDead \/ (ValidSecret(cur[1]) /\ cur[2] = PMulG(cur[1])))
KStepThm == (KAt /\ rec.e = "KeyChain") => ThmChain(rec.in, rec.out)
\* the machine and the record function agree (the K machine is the chain semantics, one step at a time)
KConsistent == KAt => rec.out = Out(rec)
\* each side fails exactly in its documented cases
KFailures == (KAt /\ rec.e = "KeyChain") =>
  LET op == rec.in.ops[1]  s == rec.out.steps[1]  d == FromBytesBE(rec.in.key)
      t == FromBytesBE(op.t)
      base == IF op.op = 5 THEN KaSecEven(d) ELSE d
  IN  s.sret = 0 <=> \/ op.op \in {1, 2, 5} /\ ~Lt(t, N)
                     \/ op.op \in {1, 5} /\ Lt(t, N) /\ IsZero(SAdd(base, t))
                     \/ op.op = 2 /\ IsZero(t)
KEmit == KAt => EmitRecord(rec)
\* both machines in one TLC run (small groups): the paired machine and the Pick/Eval cases
XInit == KInit \/ Init
XNext == KNext \/ Next
XEmit == (KAt \/ phase = "done") => EmitRecord(rec)
-----------------------------------------------------------------------------
TraceEvents == LoadTrace
TInit == phase = "pick" /\ cur = 0 /\ rec = TRUE
TPick == phase = "pick" /\ \E i \in 1..Len(TraceEvents) : cur' = i /\ phase' = "eval" /\ rec' = rec
TEval == phase = "eval" /\ rec' = SubRec(Out(TraceEvents[cur]), TraceEvents[cur].out) /\ phase' = "done" /\ cur' = cur
TNext == TPick \/ TEval
TraceOK == rec = TRUE
=============================================================================
