------------------------------- MODULE C13_MuSigNonce -------------------------------
(***************************************************************************)
(* C13 -- a MuSig secret nonce signs at most once, whatever happens.       *)
(*                                                                         *)
(* A pure HISTORY property: the state is what a client holds -- a small    *)
(* pool of secnonce objects and session-randomness buffers -- and the      *)
(* actions are the three stateful API calls, one action per ARGUMENT CLASS *)
(* (which argument is NULL / invalid / mismatched), because the order of   *)
(* the argument checks relative to the wipe is exactly what the property   *)
(* is about.  TLC explores every call sequence over the pools; the         *)
(* labelled transitions are emitted (TransitionOut) and replayed through   *)
(* the real API, comparing the projected object state after every call.    *)
(***************************************************************************)
EXTENDS Naturals, Sequences, FiniteSets, TLC, Json, IOUtils, CSV

CONSTANTS NObj,        \* number of secnonce objects the client owns
          NBuf,        \* number of session_secrand32 buffers
          NKey,        \* number of distinct keypairs; key 0 additionally has two relatives (indices NKey, NKey+1), see below
          MaxId        \* bound on generated nonces (state constraint)

Objs == 0..(NObj-1)
Bufs == 0..(NBuf-1)
Keys == 0..(NKey-1)
Twin == NKey                  \* keypair whose public key is the negation of key 0's (same x, opposite y)
LTwin == NKey + 1             \* keypair lambda*d0: public key (beta*x, y) -- same y, other x (endomorphism image)
AllKeys == 0..(NKey + 1)

\* classes of a secnonce object
Zero == [c |-> "zero"]                     \* all 132 bytes zero
Junk == [c |-> "junk"]                     \* uninitialised / garbage memory (magic mismatch)
Live(id, k) == [c |-> "live", id |-> id, key |-> k]   \* generated nonce number id, bound to public key k

GenClasses == { "ok", "seckey_other", "zero_rand", "secnonce_null", "rand_null", "pubnonce_null", "pubkey_null",
                "pubkey_invalid", "seckey_invalid", "seckey_zero", "cache_bad" }
\* "seckey_invalid": the optional seckey argument is 0xff..ff (>= n); "seckey_zero": it is the all-zero key -- both are invalid keys
\* "seckey_other": the optional seckey argument belongs to ANOTHER key than the supplied pubkey (the API does not check that
\* they correspond): the nonce is bound to the SUPPLIED PUBLIC KEY
CtrClasses == { "ok", "secnonce_null", "keypair_null", "pubnonce_null", "cache_bad" }
SignClasses == { "ok", "out_null", "keypair_null", "keypair_invalid", "cache_null", "cache_bad",
                 "session_null", "session_bad", "secnonce_null" }

VARIABLES obj,      \* [Objs -> object class]
          rand,     \* [Bufs -> {"zero", "fresh"}]
          sigs,     \* [1..MaxId -> number of partial signatures made with that nonce]
          nextId,
          last      \* ghost: label and specified result of the last call (hidden by the VIEW)
vars == << obj, rand, sigs, nextId, last >>
view == << obj, rand, sigs, nextId >>

Init == /\ obj = [o \in Objs |-> Zero]
        /\ rand = [b \in Bufs |-> "zero"]
        /\ sigs = [i \in 1..MaxId |-> 0]
        /\ nextId = 1
        /\ last = [a |-> "Init"]

Label(a, args, ret, icb) == [a |-> a, args |-> args, ret |-> ret, icb |-> icb]

\* ---- client steps that are not API calls ------------------------------------------------
FillRand(b) ==      \* the client draws fresh randomness into a buffer
  /\ rand[b] = "zero"
  /\ rand' = [rand EXCEPT ![b] = "fresh"]
  /\ last' = Label("FillRand", << b >>, 1, 0)
  /\ UNCHANGED << obj, sigs, nextId >>
Scribble(o) ==      \* an object holding uninitialised memory
  /\ obj[o] = Zero
  /\ obj' = [obj EXCEPT ![o] = Junk]
  /\ last' = Label("Scribble", << o >>, 1, 0)
  /\ UNCHANGED << rand, sigs, nextId >>

\* ---- secp256k1_musig_nonce_gen ----------------------------------------------------------
NonceGen(o, b, k, cls) ==
  /\ nextId <= MaxId
  /\ CASE cls \in { "ok", "seckey_other" } ->
            /\ rand[b] = "fresh"
            /\ obj' = [obj EXCEPT ![o] = Live(nextId, k)]       \* bound to the supplied public key k in both classes
            /\ rand' = [rand EXCEPT ![b] = "zero"]           \* RandWipedOnSuccess
            /\ nextId' = nextId + 1
            /\ last' = Label("NonceGen", << o, b, k, cls >>, 1, 0)
       [] cls = "zero_rand" ->                                 \* ZeroRandRejected
            /\ rand[b] = "zero"
            /\ obj' = [obj EXCEPT ![o] = Zero]
            /\ last' = Label("NonceGen", << o, b, k, cls >>, 0, 0)
            /\ UNCHANGED << rand, nextId >>
       [] cls = "secnonce_null" ->
            /\ rand[b] = "fresh"
            /\ last' = Label("NonceGen", << o, b, k, cls >>, 0, 1)
            /\ UNCHANGED << obj, rand, nextId >>
       [] cls \in { "seckey_invalid", "seckey_zero" } ->          \* no callback: an ordinary failure
            /\ rand[b] = "fresh"
            /\ obj' = [obj EXCEPT ![o] = Zero]                 \* GenFailZero
            /\ last' = Label("NonceGen", << o, b, k, cls >>, 0, 0)
            /\ UNCHANGED << rand, nextId >>
       [] OTHER ->                                             \* illegal arguments: callback, failure, object zeroed
            /\ rand[b] = "fresh"
            /\ obj' = [obj EXCEPT ![o] = Zero]                 \* GenFailZero
            /\ last' = Label("NonceGen", << o, b, k, cls >>, 0, 1)
            /\ UNCHANGED << rand, nextId >>
  /\ UNCHANGED sigs

\* ---- secp256k1_musig_nonce_gen_counter --------------------------------------------------
NonceGenCounter(o, k, cls) ==
  /\ nextId <= MaxId
  /\ CASE cls = "ok" ->
            /\ obj' = [obj EXCEPT ![o] = Live(nextId, k)]
            /\ nextId' = nextId + 1
            /\ last' = Label("NonceGenCounter", << o, k, cls >>, 1, 0)
       [] cls = "secnonce_null" ->
            /\ last' = Label("NonceGenCounter", << o, k, cls >>, 0, 1)
            /\ UNCHANGED << obj, nextId >>
       [] OTHER ->
            /\ obj' = [obj EXCEPT ![o] = Zero]
            /\ last' = Label("NonceGenCounter", << o, k, cls >>, 0, 1)
            /\ UNCHANGED nextId
  /\ UNCHANGED << rand, sigs >>

\* ---- secp256k1_musig_partial_sign -------------------------------------------------------
\* k = the keypair handed to the call.  Whatever happens, a non-NULL secnonce object is all-zero afterwards.
PartialSign(o, k, cls) ==
  /\ IF cls = "secnonce_null"
     THEN /\ last' = Label("PartialSign", << o, k, cls >>, 0, 1)
          /\ UNCHANGED << obj, sigs >>
     ELSE LET before == obj[o]
              signs == /\ before.c = "live" /\ cls = "ok" /\ before.key = k IN
          /\ obj' = [obj EXCEPT ![o] = Zero]                                    \* WipeAlways
          /\ sigs' = IF signs THEN [sigs EXCEPT ![before.id] = @ + 1] ELSE sigs
          /\ last' = Label("PartialSign", << o, k, cls >>,
                           IF signs THEN 1 ELSE 0,
                           \* a dead object, a wrong keypair and every NULL / bad-magic argument are illegal use;
                           \* an all-zero keypair is refused without a promise about the callback (9 = not compared)
                           IF signs THEN 0 ELSE IF before.c = "live" /\ cls = "keypair_invalid" THEN 9 ELSE 1)
  /\ UNCHANGED << rand, nextId >>

Next ==
  \/ \E b \in Bufs : FillRand(b)
  \/ \E o \in Objs : Scribble(o)
  \/ \E o \in Objs, b \in Bufs, k \in Keys, cls \in GenClasses : NonceGen(o, b, k, cls)
  \/ \E o \in Objs, k \in Keys, cls \in CtrClasses : NonceGenCounter(o, k, cls)
  \/ \E o \in Objs, k \in AllKeys, cls \in SignClasses : PartialSign(o, k, cls)
Spec == Init /\ [][Next]_vars

-----------------------------------------------------------------------------
\* the property
SingleUse == \A i \in 1..MaxId : sigs[i] <= 1
\* two objects never hold the same live nonce (the API offers no way to duplicate one)
NoAlias == \A o1, o2 \in Objs : (o1 # o2 /\ obj[o1].c = "live" /\ obj[o2].c = "live") => obj[o1].id # obj[o2].id
\* a nonce that has signed is no longer held by any object
UsedIsGone == \A o \in Objs : obj[o].c = "live" => sigs[obj[o].id] = 0
\* action properties (checked as invariants on the ghost label)
SignOnlyLiveBound == (last.a = "PartialSign" /\ last.ret = 1) => last.args[3] = "ok"
TypeOK == /\ \A o \in Objs : obj[o] \in ({Zero, Junk} \cup { Live(i, k) : i \in 1..MaxId, k \in Keys })
          /\ nextId \in 1..(MaxId + 1)

\* ---- emission of labelled transitions for the replay tour -------------------------------
StateRec == [ obj |-> [o \in Objs |-> obj[o]], rand |-> [b \in Bufs |-> rand[b]], nextId |-> nextId ]
StateRecNext == [ obj |-> [o \in Objs |-> obj'[o]], rand |-> [b \in Bufs |-> rand'[b]], nextId |-> nextId' ]
AppendLine(line, file) == CSVWrite("%1$s", << line >>, file)
TransitionOut == AppendLine(ToJson([ src |-> StateRec, dst |-> StateRecNext, label |-> last' ]), IOEnv.GEN_OUT)
=============================================================================
