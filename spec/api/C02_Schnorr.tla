------------------------------- MODULE C02_Schnorr -------------------------------
(* C02 -- the BIP-340 API as a machine of call records (same shape as C01_Ecdsa). *)
EXTENDS Bip340, CurveParams, Verif

OutSign(i) ==
  LET ps == ParseSecret(i.key) IN
  IF ~ps[1] THEN [ kret |-> 0, ret |-> 0, icb |-> 0 ]
  ELSE LET aux == IF "aux" \in DOMAIN i THEN i.aux ELSE << >>
           a == IF i.mode = 3
                THEN (IF "nonce" \in DOMAIN i THEN SignWithNonce(i.key, i.msg, i.nonce) ELSE << 0, Zeros(64) >>)
                ELSE Sign(i.key, i.msg, IF i.mode = 1 THEN << >> ELSE aux)
       IN  [ kret |-> 1, ret |-> a[1], sig |-> a[2], icb |-> 0 ]
OutVerify(i) ==
  LET pl == ParseXOnly(i.pk) IN
  [ pret |-> B2I(pl[1]), ret |-> B2I(pl[1] /\ Verify(i.sig, i.msg, i.pk)), icb |-> 0 ]
OutNonceFn(i) ==
  LET r == NonceFn(i.msg, i.key, i.pk, IF "algo" \in DOMAIN i THEN i.algo ELSE << >>, "algo" \in DOMAIN i, IF "aux" \in DOMAIN i THEN i.aux ELSE << >>) IN
  IF r[1] = 1 THEN [ ret |-> 1, nonce |-> r[2], icb |-> 0 ] ELSE [ ret |-> 0, icb |-> 0 ]
Out(ev) == CASE ev.e = "SchnorrSign" -> OutSign(ev.in) [] ev.e = "SchnorrVerify" -> OutVerify(ev.in) [] ev.e = "SchnorrNonceFn" -> OutNonceFn(ev.in)

\* design-level theorems on generated records
SignSound(i, o) == (o.kret = 1 /\ o.ret = 1) => Verify(o.sig, i.msg, X32(PMulG(FromBytesBE(i.key))))
SignTotal(i, o) == (ParseSecret(i.key)[1] /\ i.mode # 3) => o.ret = 1
SignFailZero(i, o) == (o.kret = 1 /\ o.ret = 0) => AllZero(o.sig)

-----------------------------------------------------------------------------
NBytes(x) == ToBytesBE(x, 32)
Max256 == Sub(Pow2(256), One)
Msg(len) == [j \in 1..len |-> (j * 7 + len) % 256]
KeyPool == { Zero, One, Two, FromNat(3), HalfN, Sub(N, Two), Sub(N, One), N, Max256,
             FromBytesBE(Rnd32(1)), FromBytesBE(Rnd32(2)), FromBytesBE(Rnd32(3)) }
ValidKeys == { d \in KeyPool : ValidSecret(d) }
FewKeys == { One, FromNat(3), Sub(N, One), Mod(FromBytesBE(Rnd32(1)), N) }
LenPool == IF EnvNat("VERIF_THOROUGH") = 1 THEN 0..300 \cup { 1000, 1001, 4096, 65537, 100000 }
           ELSE { 0, 1, 31, 32, 33, 55, 56, 57, 63, 64, 65, 119, 120, 127, 128, 129, 255, 256, 299, 300, 301, 1000, 1001 }
AuxPool == << << >>, Zeros(32), Rnd32(4), Rep(255, 32) >>
\* auxiliary randomness that is NOT all-zero but folds to zero under a sloppy zero test (byte sum = 0 mod 256, XOR of all bytes = 0,
\* first / last word zero), and single set bits at both ends: must be hashed like any other value
AuxPatterns == << Rep(8, 32), Rep(64, 32), Rep(128, 32), << 128, 128 >> \o Zeros(30), Zeros(30) \o << 255, 1 >>, << 1 >> \o Zeros(31), Zeros(31) \o << 1 >>,
                 Zeros(15) \o << 1 >> \o Zeros(16), Zeros(8) \o Rep(255, 24), Rep(255, 24) \o Zeros(8), Zeros(31) \o << 128 >>, << 128 >> \o Zeros(31) >>

Cases ==
       { << "sign32", d, a >> : d \in KeyPool, a \in 1..4 }
  \cup { << "signlen", d, len, a, mode >> : d \in FewKeys, len \in LenPool, a \in 1..3, mode \in {1, 2, 4} }
  \cup { << "signlen", d, len, a, 5 >> : d \in FewKeys, len \in { 0, 32, 33, 127, 128, 129, 300 }, a \in 1..3 }
  \cup { << "noncefn", d, len, a, al >> : d \in FewKeys, len \in { 0, 32, 64, 128, 200 }, a \in 1..3, al \in 0..2 }
  \cup { << "auxpat", d, p, how >> : d \in { FromNat(3), Mod(FromBytesBE(Rnd32(1)), N) }, p \in 1..12, how \in 0..2 }
  \cup { << "signnonce", d, k >> : d \in FewKeys, k \in { Zero, One, N, Add(N, One), Sub(N, One), Max256, FromBytesBE(Rnd32(5)) } }
  \cup { << "signnonce", d, << >> >> : d \in FewKeys }
  \cup { << "vlen", d, len >> : d \in FewKeys, len \in LenPool }
  \cup { << "vflip", d, bit >> : d \in { FromNat(3) }, bit \in 0..511 }
  \cup { << "vflipmsg", d, bit >> : d \in { FromNat(3) }, bit \in 0..255 }
  \cup { << "vmut", d, k, mut >> : d \in FewKeys, k \in { One, Two, Sub(N, One), Mod(FromBytesBE(Rnd32(6)), N) }, mut \in 0..12 }

SV(sig, msg, pk) == [ e |-> "SchnorrVerify", in |-> [ sig |-> sig, msg |-> msg, pk |-> pk ] ]
ExpandMut(d0, k0, mut) ==
  LET msg == Rnd32(7)
      Pt == PMulG(d0)  d == IF HasEvenY(Pt) THEN d0 ELSE SNeg(d0)  pk == X32(Pt)
      R == PMulG(k0)   k == IF HasEvenY(R) THEN k0 ELSE SNeg(k0)
      e == Challenge(X32(R), pk, msg)
      s == SAdd(k, SMul(e, d))
      sig == X32(R) \o NBytes(s)
  IN CASE mut = 0 -> SV(sig, msg, pk)
       [] mut = 1 -> SV(X32(R) \o NBytes(SAdd(SNeg(k), SMul(e, d))), msg, pk)       \* R with odd y
       [] mut = 2 -> SV(X32(R) \o NBytes(IF Lt(Add(s, N), Pow2(256)) THEN Add(s, N) ELSE N), msg, pk)
       [] mut = 3 -> SV(NBytes(P) \o NBytes(s), msg, pk)                             \* r = p
       [] mut = 4 -> SV(NBytes(Max256) \o NBytes(s), msg, pk)
       [] mut = 5 -> SV(NBytes(Add(P, One)) \o NBytes(s), msg, pk)
       [] mut = 6 -> SV(X32(R) \o NBytes(N), msg, pk)                                \* s = n
       [] mut = 7 -> SV(X32(R) \o NBytes(Max256), msg, pk)
       [] mut = 8 -> SV(sig, msg, NBytes(P))                                         \* pk x = p
       [] mut = 9 -> SV(sig, msg, NBytes(FromNat(5)))                                \* pk x off curve (x = 5 has no lift)
       [] mut = 10 -> SV(sig, msg, X32(PMulG(IF SAdd(d0, One) = Zero THEN Two ELSE SAdd(d0, One))))                        \* other key
       [] mut = 11 -> SV(NBytes(FromNat(5)) \o NBytes(s), msg, pk)                   \* r off curve
       [] mut = 12 -> SV(X32(R) \o NBytes(SMul(e, d)), msg, pk)                      \* R at infinity: s*G - e*P = inf

\* X: the small test groups, enumerated completely
NN == ToNat(N)
SubgroupXs == { X32(PMulG(FromNat(j))) : j \in 1..(NN-1) }
TinyMsgs == << << >>, << 0 >>, Msg(33) >>
TinyBig == NN > 20
Sample(k) == IF TinyBig THEN { x \in 0..(NN+2) : x % k = 0 \/ x < 3 \/ x > NN - 3 } ELSE 0..(NN+2)
SomeXs == IF TinyBig THEN { X32(PMulG(FromNat(j))) : j \in { 1, 2, 3, 57, 98, 99 } } ELSE SubgroupXs
TinyCases ==
       { << "tsign", d, k, m >> : d \in 1..(NN-1), k \in (IF TinyBig THEN Sample(3) ELSE 0..(NN+1)), m \in 1..3 }
  \cup { << "tverify", rx, s, px, m >> : rx \in SubgroupXs \cup { NBytes(FromNat(5)), NBytes(P) }, s \in Sample(5), px \in SomeXs, m \in 1..2 }
ExpandTiny(c) ==
  CASE c[1] = "tsign" -> [ e |-> "SchnorrSign", in |-> [ key |-> NBytes(FromNat(c[2])), msg |-> TinyMsgs[c[4]], mode |-> 3, nonce |-> NBytes(FromNat(c[3])) ] ]
    [] c[1] = "tverify" -> SV(c[2] \o NBytes(FromNat(c[3])), TinyMsgs[c[5]], c[4])
\* design-level theorem in the small groups: Verify accepts exactly what SignWithNonce can produce
TinyVerifyExact(i, o) ==
  (o.ret = 1) <=> \E d \in 1..(NN-1), k \in 1..(NN-1) :
       /\ X32(PMulG(FromNat(d))) = i.pk
       /\ SignWithNonce(NBytes(FromNat(d)), i.msg, NBytes(FromNat(k))) = << 1, i.sig >>

Expand(c) ==
  CASE c[1] = "sign32" -> [ e |-> "SchnorrSign", in |-> IF c[3] = 1 THEN [ key |-> NBytes(c[2]), msg |-> Rnd32(8), mode |-> 0 ]
                                                          ELSE [ key |-> NBytes(c[2]), msg |-> Rnd32(8), mode |-> 0, aux |-> AuxPool[c[3]] ] ]
    [] c[1] = "signlen" -> [ e |-> "SchnorrSign", in |-> IF c[4] = 1 THEN [ key |-> NBytes(c[2]), msg |-> Msg(c[3]), mode |-> c[5] ]
                                                           ELSE [ key |-> NBytes(c[2]), msg |-> Msg(c[3]), mode |-> c[5], aux |-> AuxPool[c[4]] ] ]
    [] c[1] = "noncefn" ->   \* the exported nonce function called directly: al = 0 no algo, 1 the BIP-340 algo, 2 another algo string
         LET base == [ key |-> NBytes(c[2]), pk |-> X32(PMulG(IF IsZero(c[2]) THEN One ELSE c[2])), msg |-> Msg(c[3]) ]
             b2 == IF c[4] = 1 THEN base ELSE base @@ [ aux |-> AuxPool[c[4]] ]
         IN  [ e |-> "SchnorrNonceFn", in |-> IF c[5] = 0 THEN b2 ELSE b2 @@ [ algo |-> IF c[5] = 1 THEN AlgoBip340 ELSE << 77, 121, 65, 108, 103, 111 >> ] ]
    [] c[1] = "auxpat" ->    \* how = 0: sign32, 1: sign_custom with the exported nonce function, 2: the exported nonce function called directly
         IF c[4] = 2 THEN [ e |-> "SchnorrNonceFn", in |-> [ key |-> NBytes(c[2]), pk |-> X32(PMulG(c[2])), msg |-> Msg(32), aux |-> AuxPatterns[c[3]], algo |-> AlgoBip340 ] ]
         ELSE [ e |-> "SchnorrSign", in |-> [ key |-> NBytes(c[2]), msg |-> Msg(32), mode |-> IF c[4] = 0 THEN 0 ELSE 4, aux |-> AuxPatterns[c[3]] ] ]
    [] c[1] = "signnonce" -> [ e |-> "SchnorrSign", in |-> IF c[3] = << >> THEN [ key |-> NBytes(c[2]), msg |-> Msg(40), mode |-> 3 ]
                                                             ELSE [ key |-> NBytes(c[2]), msg |-> Msg(40), mode |-> 3, nonce |-> NBytes(c[3]) ] ]
    [] c[1] = "vlen" -> LET m == Msg(c[3])  sg == Sign(NBytes(c[2]), m, Rnd32(9)) IN SV(sg[2], m, X32(PMulG(c[2])))
    [] c[1] = "vflip" -> LET m == Msg(32)  sg == Sign(NBytes(c[2]), m, << >>) IN SV(FlipBit(sg[2], c[3]), m, X32(PMulG(c[2])))
    [] c[1] = "vflipmsg" -> LET m == Msg(32)  sg == Sign(NBytes(c[2]), m, << >>) IN SV(sg[2], FlipBit(m, c[3]), X32(PMulG(c[2])))
    [] c[1] = "vmut" -> ExpandMut(c[2], c[3], c[4])
    [] OTHER -> ExpandTiny(c)

-----------------------------------------------------------------------------
VARIABLES phase, cur, rec
vars == << phase, cur, rec >>
Init == phase = "pick" /\ cur = << >> /\ rec = << >>
Pick == phase = "pick" /\ \E c \in Cases : cur' = c /\ phase' = "eval" /\ rec' = << >>
Eval == phase = "eval" /\ LET x == Expand(cur) IN rec' = [ e |-> x.e, in |-> x.in, out |-> Out(x) ]
        /\ phase' = "done" /\ cur' = cur
Next == Pick \/ Eval
InvSign == (phase = "done" /\ rec.e = "SchnorrSign") =>
             SignSound(rec.in, rec.out) /\ SignTotal(rec.in, rec.out) /\ SignFailZero(rec.in, rec.out)
InvTinyVerify == (phase = "done" /\ rec.e = "SchnorrVerify") => TinyVerifyExact(rec.in, rec.out)
Emit == phase = "done" => EmitRecord(rec)

TraceEvents == LoadTrace
TInit == phase = "pick" /\ cur = 0 /\ rec = TRUE
TPick == phase = "pick" /\ \E i \in 1..Len(TraceEvents) : cur' = i /\ phase' = "eval" /\ rec' = rec
TEval == phase = "eval" /\ rec' = SubRec(Out(TraceEvents[cur]), TraceEvents[cur].out) /\ phase' = "done" /\ cur' = cur
TNext == TPick \/ TEval
TraceOK == rec = TRUE
=============================================================================
