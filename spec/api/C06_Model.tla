------------------------------- MODULE C06_Model -------------------------------
EXTENDS Naturals, Sequences, TLC
(* Design-level sanity of the formulation (cfg C06_model): for EVERY abstract two-segment program  *)
(* over one secret bit -- run(s) = <<o1, v, o2>> with observation digests o1,o2 and a declassified  *)
(* value v, all in {0,1}, chosen independently for s = 0 and s = 1 -- the table checker accepts the  *)
(* two runs iff the program is non-interfering in the pairwise sense.                                *)
Shapes == { << o1, v, o2 >> : o1 \in {0, 1}, v \in {0, 1}, o2 \in {0, 1} }
NonInterfering(r0, r1) == r0[1] = r1[1] /\ (r0[2] = r1[2] => r0[3] = r1[3])
CheckerAccepts(r0, r1) ==
  LET t1 == ( << 1 >> :> r0[1] )                                  \* after run 0, segment 1
      t2 == t1 @@ ( << r0[2], 2 >> :> r0[3] )                      \* after run 0, segment 2
      ok1 == t2[<< 1 >>] = r1[1]
      k2 == << r1[2], 2 >>
      ok2 == IF k2 \in DOMAIN t2 THEN t2[k2] = r1[3] ELSE TRUE
  IN  ok1 /\ ok2
VARIABLES p0, p1
MInit == p0 \in Shapes /\ p1 \in Shapes
MNext == UNCHANGED << p0, p1 >>
Equivalent == CheckerAccepts(p0, p1) <=> NonInterfering(p0, p1)
=============================================================================
